"""C08 — template inheritance resolves every block to its most-derived override.

Abstract templates (text, block tags, {{ block.super }}, extends tags) are
printed to Liquid source, loaded through DictLoader / CachingDictLoader and
rendered by the real engine (sync and async; directly, through {% include %}
and through {% render %}).  Each outcome (output text or error class) is
compared

* with the Coq model Kernels/Inherit.v ([render_name] / [run_wrapper],
  evaluated by vm_compute)                                   -- correspondence
* with the Coq specification [spec_inherit] (vm_compute) and with an
  independent Python implementation of the same specification -- direct oracle
"""

from __future__ import annotations

import asyncio
import html
import itertools
import os
import shutil
import tempfile
from pathlib import Path
import signal
import sys
import warnings
from typing import Any, Iterable

from . import common as C

IMPORTS = "From LQ Require Import Kernels.Inherit."
NEEDED = ["theories/Base/Str.v", "theories/Kernels/Inherit.v", "theories/Proofs/Inherit_proofs.v"]

BNAMES = ["a", "b", "c", "d"]
NT = 48  # template names t0 .. t47 are predefined in the Coq case header
MISSING = "zz"

TEXTS = [a + d for a in "abcdpqrsuvw" for d in "0123456789"]
WS_TEXTS = {" ": "x_sp", "\n": "x_nl", " \n": "x_spnl", "  ": "x_sp2"}

DEFS = "\n".join(
    [f"Definition n_{b} : str := {C.cstr(b)}." for b in BNAMES]
    + [f"Definition x_{t} : str := {C.cstr(t)}." for t in TEXTS]
    + [f"Definition {n} : str := {C.cstr(t)}." for t, n in WS_TEXTS.items()]
    + [f"Definition t{i} : str := {C.cstr('t' + str(i))}." for i in range(NT)]
    + [f"Definition t_{MISSING} : str := {C.cstr(MISSING)}.",
       "Definition B := Blk.", "Definition T := Text.", "Definition E := Ext.",
       "Definition S' := Super.",
       "Definition NS : option str := None.",
       "Definition ok (s : str) : res str := Ok s.",
       "Definition er (c : lclass) : res str := LErr c None.",
       "Definition px (k : pykind) : res str := PyExc k."])

SPEC_FUEL = 400

# ---------------------------------------------------------------- templates
# item: ("T", text) | ("B", name, required, body, endname|None) | ("S",) | ("E", template name)
#       | ("Q", 0|1)  a silent tag (assign / comment)
#       | ("W", kind, body)  a container tag: if {% if true %}, for {% for i in (1..1) %}, unless {% unless false %},
#         case {% case 1 %}{% when 1 %}, with {% with x: 1 %}, cap {% capture c %}..{% endcapture %}{{ c }},
#         liq the lines of a {% liquid %} tag (no whitespace-only text inside)
#       harness and Python specification only:
#       | ("K2", body) capture printed twice | ("M", body, called) a macro (and a call of it)
#       | ("F", n, body) {% for i in (1..n) %} | ("V",) {{ i }}
#       | ("N+",) {% increment n %} | ("N-",) {% decrement n %} | ("CY",) {% cycle 'a', 'b' %} | ("NV",) {{ n }}
#       | ("I", template name) | ("N", template name) | ("C", template name)   include / render tag / a macro that renders
#         the template, called on the spot: harness and Python specification only


STATEFUL_SRC = {"PL": "{{ forloop.parentloop.index }}", "N+": "{% increment n %}", "N-": "{% decrement n %}", "CY": "{% cycle 'a', 'b' %}", "NV": "{{ n }}"}
WRAP_SRC = {
    "if": ("{% if true %}", "{% endif %}"),
    "for": ("{% for i in (1..1) %}", "{% endfor %}"),
    "unless": ("{% unless false %}", "{% endunless %}"),
    "case": ("{% case 1 %}{% when 1 %}", "{% endcase %}"),
    "with": ("{% with x: 1 %}", "{% endwith %}"),
    "cap": ("{% capture c %}", "{% endcapture %}{{ c }}"),
}
WRAP_COQ = {"if": "WIf", "for": "WFor", "unless": "WUnless", "case": "WCase", "with": "WWith", "cap": "WCap", "liq": "WLiq"}
WRAP_LINES = {
    "if": (["if true"], ["endif"]), "liq": (["if true"], ["endif"]),
    "for": (["for i in (1..1)"], ["endfor"]),
    "unless": (["unless false"], ["endunless"]),
    "case": (["case 1", "when 1"], ["endcase"]),
    "with": (["with x: 1"], ["endwith"]),
    "cap": (["capture c"], ["endcapture", "echo c"]),
}


def liquid_lines(items: Iterable[tuple], data: dict | None, ae: bool) -> list[str]:
    """The body of a {% liquid %} tag, one statement per line (text is echoed)."""
    out: list[str] = []
    for it in items:
        if it[0] == "T":
            t = it[1]
            assert t.strip() and "'" not in t and "\n" not in t, "no whitespace-only text inside a liquid tag"
            if data is not None and ("<" in t or "&" in t):
                val = html.unescape(t) if ae else t
                name = next((k for k, v in data.items() if v == val), None) or f"v{len(data)}"
                data[name] = val
                out.append("echo " + name)
            else:
                out.append("echo '" + t + "'")
        elif it[0] == "S":
            out.append("echo block.super")
        elif it[0] == "E":
            out.append("extends '" + it[1] + "'")
        elif it[0] == "Q":
            out.append("assign z = 1")
        elif it[0] == "W":
            a, z = WRAP_LINES[it[1]]
            out += a + liquid_lines(it[2], data, ae) + z
        elif it[0] == "B":
            _, n, req, body, endn = it
            out.append("block " + n + (" required" if req else ""))
            out += liquid_lines(body, data, ae)
            out.append("endblock" + (" " + endn if endn else ""))
        else:
            raise ValueError(it[0])
    return out


def no_blank_text(items: list) -> list:
    """Drop whitespace-only text (for bodies that go inside a liquid tag)."""
    out = []
    for it in items:
        if it[0] == "T" and not it[1].strip():
            continue
        if it[0] == "B":
            it = it[:3] + (no_blank_text(it[3]), it[4])
        elif it[0] == "W":
            it = it[:2] + (no_blank_text(it[2]),)
        out.append(it)
    return out


def to_src(items: Iterable[tuple], data: dict | None = None, ae: bool = False) -> str:
    """Liquid source.  With a `data` dict, every visible text that holds markup
    or entity characters is printed as an output tag {{ vN }} and data[vN] is
    the value that renders to that text (the text itself, or with auto-escape
    the string whose escaping it is)."""
    out = []
    for it in items:
        if it[0] == "T":
            t = it[1]
            if data is not None and t.strip() and ("<" in t or "&" in t):
                val = html.unescape(t) if ae else t
                name = next((k for k, v in data.items() if v == val), None) or f"v{len(data)}"
                data[name] = val
                out.append("{{ " + name + " }}")
            else:
                out.append(t)
        elif it[0] == "S":
            out.append("{{ block.super }}")
        elif it[0] == "E":
            out.append("{% extends '" + it[1] + "' %}")
        elif it[0] == "Q":
            out.append("{% assign z = 1 %}" if it[1] == 0 else "{% comment %}c{% endcomment %}")
        elif it[0] == "W":
            if it[1] == "liq":
                out.append("{% liquid\n" + "\n".join(liquid_lines(it[2], data, ae)) + "\n%}")
            else:
                a, z = WRAP_SRC[it[1]]
                out.append(a + to_src(it[2], data, ae) + z)
        elif it[0] == "K2":
            out.append("{% capture c %}" + to_src(it[1], data, ae) + "{% endcapture %}{{ c }}{{ c }}")
        elif it[0] == "M":
            out.append("{% macro mm %}" + to_src(it[1], data, ae) + "{% endmacro %}" + ("{% call mm %}" if it[2] else ""))
        elif it[0] == "F":
            out.append("{% for i in (1.." + str(it[1]) + ") %}" + to_src(it[2], data, ae) + "{% endfor %}")
        elif it[0] == "V":
            out.append("{{ i }}")
        elif it[0] in STATEFUL_SRC:
            out.append(STATEFUL_SRC[it[0]])
        elif it[0] == "I":
            out.append("{% include '" + it[1] + "' %}")
        elif it[0] == "N":
            out.append("{% render '" + it[1] + "' %}")
        elif it[0] == "C":
            out.append("{% macro mk %}{% render '" + it[1] + "' %}{% endmacro %}{% call mk %}")
        else:
            _, n, req, body, endn = it
            out.append("{% block " + n + (" required" if req else "") + " %}")
            out.append(to_src(body, data, ae))
            out.append("{% endblock" + (" " + endn if endn else "") + " %}")
    return "".join(out)


def c_name(n: str) -> str:
    if n == MISSING:
        return "t_zz"
    if n.startswith("t") and n[1:].isdigit() and int(n[1:]) < NT:
        return n
    return C.cstr(n)


def c_bname(n: str) -> str:
    return "n_" + n if n in BNAMES else C.cstr(n)


def c_items(items: Iterable[tuple]) -> str:
    out = []
    for it in items:
        if it[0] == "T":
            out.append(f"T x_{it[1]}" if it[1] in TEXTS else
                       f"T {WS_TEXTS[it[1]]}" if it[1] in WS_TEXTS else f"T {C.cstr(it[1])}")
        elif it[0] == "S":
            out.append("S'")
        elif it[0] == "E":
            out.append(f"E {c_name(it[1])}")
        elif it[0] == "Q":
            out.append("Quiet")
        elif it[0] == "W":
            out.append(f"Wrap {WRAP_COQ[it[1]]} {c_items(it[2])}")
        else:
            _, n, req, body, endn = it
            e = "NS" if endn is None else f"(Some {c_bname(endn)})"
            out.append(f"B {c_bname(n)} {C.cbool(req)} {c_items(body)} {e}")
    return C.clist(out, "item")


class Interned:
    """Templates that occur in many cases are defined once in the header of
    the generated Coq files and referred to by name (parsing is what costs)."""

    def __init__(self, cases: Iterable[tuple[dict, tuple, int]], at_least: int = 3) -> None:
        count: dict[str, int] = {}
        for case in cases:
            for v in case[0].values():
                k = repr(v)
                count[k] = count.get(k, 0) + 1
        self.names: dict[str, str] = {}
        self.defs: list[str] = []
        for case in cases:
            for v in case[0].values():
                k = repr(v)
                if count[k] >= at_least and k not in self.names:
                    self.names[k] = f"p{len(self.names)}"
                    self.defs.append(f"Definition {self.names[k]} : template := {c_items(v)}.")

    def template(self, v: list) -> str:
        return self.names.get(repr(v)) or c_items(v)

    def loader(self, tpls: dict[str, list]) -> str:
        return C.clist((C.cpair(c_name(k), self.template(v)) for k, v in tpls.items()), "(str * template)")


LCLASSES = {"TemplateInheritanceError", "RequiredBlockError", "TemplateNotFoundError",
            "ContextDepthError", "LiquidSyntaxError", "UndefinedError"}


def c_outcome(o: tuple) -> str:
    if o[0] == "ok":
        return f"ok {C.cstr(o[1])}"
    if o[1] in LCLASSES:
        return f"er {o[1]}"
    if o[1] in ("RecursionError", "AssertionError"):
        return f"px {o[1]}"
    return "px OtherPyError"


# ---------------------------------------------------------------- implementation


RENDER_TIMEOUT_S = 4.0
WORKER_ADDRESS_SPACE = 3 << 30   # bytes; a render that allocates without end becomes MemoryError


class RenderTimeout(BaseException):
    pass


def _on_alarm(signum, frame):  # noqa: ANN001, ARG001
    raise RenderTimeout


_TAG_LOADERS: list = []


def _tag_loader_classes() -> list:
    if not _TAG_LOADERS:
        from liquid2.builtin.loaders.mixins import CachingLoaderMixin
        from liquid2.exceptions import TemplateNotFoundError
        from liquid2.loader import BaseLoader, TemplateSource

        class TagLoader(BaseLoader):
            DIRS = {"extends": "layouts", "include": "snippets", "render": "snippets"}

            def __init__(self, store: dict[str, str]) -> None:
                super().__init__()
                self.store = store

            def _find(self, name: str, kwargs: dict) -> TemplateSource:
                try:
                    return TemplateSource(self.store[self.DIRS.get(kwargs.get("tag"), "pages") + "/" + name], name, None)
                except KeyError:
                    raise TemplateNotFoundError(name) from None

            def get_source(self, env, template_name, *, context=None, **kwargs):  # noqa: ANN001, ANN003, ANN201, ARG002
                return self._find(template_name, kwargs)

            async def get_source_async(self, env, template_name, *, context=None, **kwargs):  # noqa: ANN001, ANN003, ANN201, ARG002
                return self._find(template_name, kwargs)

        class CachingTagLoader(CachingLoaderMixin, TagLoader):
            def __init__(self, store: dict[str, str]) -> None:
                super().__init__(auto_reload=True, namespace_key="", capacity=300)
                TagLoader.__init__(self, store)

        _TAG_LOADERS.extend([TagLoader, CachingTagLoader])
    return _TAG_LOADERS


class Runner:
    """Runs cases on the real engine: sync and async, DictLoader and
    CachingDictLoader, with a given context_depth_limit."""

    def __init__(self) -> None:
        self.loop = asyncio.new_event_loop()
        self.env_classes: dict[tuple, type] = {}
        self.timeout = RENDER_TIMEOUT_S
        self.n_history = 0
        signal.signal(signal.SIGALRM, _on_alarm)

    def close(self) -> None:
        self.loop.close()

    def env_class(self, limit: int, suppress: bool = True) -> type:
        from liquid2 import Environment
        key = (limit, suppress)
        if key not in self.env_classes:
            self.env_classes[key] = type(f"Env{limit}{suppress}", (Environment,), {
                "context_depth_limit": limit, "suppress_blank_control_flow_blocks": suppress})
        return self.env_classes[key]

    def run(self, tpls: dict[str, list], entry: tuple, limit: int, suppress: bool = True,
            opts: dict | None = None) -> list[tuple]:
        """entry: ("direct", name) | ("wrap", [(is_render, name), ...]).
        opts: ae = Environment(auto_escape=True); data = markup texts are printed as output
        tags over render data; more = also FileSystemLoader / CachingFileSystemLoader over a
        scratch directory and, for a direct entry, env.from_string(leaf source).
        Returns one outcome per (loader, sync|async) combination: all must agree."""
        from liquid2 import CachingDictLoader, CachingFileSystemLoader, DictLoader, FileSystemLoader
        opts = opts or {}
        ae = bool(opts.get("ae"))
        data: dict | None = {} if opts.get("data") else None
        srcs = {k: to_src(v, data, ae) for k, v in tpls.items()}
        before = ({k: to_src(v, data, ae) for k, v in opts["before"].items()}
                  if opts.get("before") is not None else None)
        kw = dict(data or {})
        root = None
        makers: list[tuple[Any, bool]] = [(lambda: DictLoader(dict(srcs)), False),
                                          (lambda: CachingDictLoader(dict(srcs)), False)]
        if opts.get("more"):
            root = Path(tempfile.mkdtemp(prefix="c08_", dir=os.environ.get("VERIF_SCRATCH", "/var/tmp")))
            for k, v in srcs.items():
                f = root / k
                f.parent.mkdir(parents=True, exist_ok=True)
                f.write_text(v)
            makers += [(lambda: FileSystemLoader(root), False), (lambda: CachingFileSystemLoader(root), False)]
            if entry[0] == "direct" and entry[1] in srcs:
                makers.append((lambda: DictLoader(dict(srcs)), True))      # from_string(leaf) + extends
        if opts.get("tagloader"):
            # a tag-aware loader as in docs/loading_templates.md: `extends` targets live in layouts/,
            # include / render targets in snippets/, everything else in pages/; every name exists in
            # all three places, with the real template only where the chain must look for it
            entered = [entry[1]] if entry[0] == "direct" else [n for _, n in entry[1]]
            store: dict[str, str] = {}
            for k, v in srcs.items():
                store["layouts/" + k] = v
                store["pages/" + k] = v if (entry[0] == "direct" and k in entered) else "partial-base(" + k + ")"
                store["snippets/" + k] = v if (entry[0] != "direct" and k in entered) else "snippet(" + k + ")"
            makers += [(lambda: _tag_loader_classes()[0](store), False), (lambda: _tag_loader_classes()[1](store), False)]
        outs = []
        self.n_history = 0
        if before is not None:
            outs += self.history(before, srcs, entry, limit, suppress, ae, int(opts.get("mt", 10)), kw)
            self.n_history = len(outs)      # the first n_history outcomes are second renders after the edit
        if opts.get("choice") is not None:
            outs += self.choice_history(opts["choice"], entry, limit, suppress, ae, data, kw)
            self.n_history = len(outs)
        try:
            for make, anon in makers:
                for is_async in (False, True):
                    env = self.env_class(limit, suppress)(loader=make(), auto_escape=ae)
                    # a render that does not end is an outcome, not a hang; the timer repeats because an
                    # exception raised inside a GC/weakref callback is swallowed by the interpreter
                    signal.setitimer(signal.ITIMER_REAL, self.timeout, 0.05)
                    try:
                        if anon:
                            t = env.from_string(srcs[entry[1]])
                        elif entry[0] == "direct":
                            if is_async:
                                t = self.loop.run_until_complete(env.get_template_async(entry[1]))
                            else:
                                t = env.get_template(entry[1])
                        else:
                            w = "".join(("{% render '" if r else "{% include '") + n + "' %}" for r, n in entry[1])
                            t = env.from_string(w)
                        if is_async:
                            outs.append(("ok", self.loop.run_until_complete(t.render_async(**kw))))
                        else:
                            outs.append(("ok", t.render(**kw)))
                    except (RenderTimeout, MemoryError):
                        signal.setitimer(signal.ITIMER_REAL, 0)
                        outs.append(("err", "DidNotTerminate"))
                        self.loop = asyncio.new_event_loop()
                        self.timeout = 0.5  # keep a broken tree from costing minutes
                    except Exception as e:  # noqa: BLE001
                        outs.append(("err", type(e).__name__))
                    finally:
                        signal.setitimer(signal.ITIMER_REAL, 0)
        finally:
            if root is not None:
                shutil.rmtree(root, ignore_errors=True)
        return outs


    def _guarded(self, thunk) -> tuple:  # noqa: ANN001
        signal.setitimer(signal.ITIMER_REAL, self.timeout, 0.05)
        try:
            return ("ok", thunk())
        except (RenderTimeout, MemoryError):
            signal.setitimer(signal.ITIMER_REAL, 0)
            self.loop = asyncio.new_event_loop()
            self.timeout = 0.5
            return ("err", "DidNotTerminate")
        except Exception as e:  # noqa: BLE001
            return ("err", type(e).__name__)
        finally:
            signal.setitimer(signal.ITIMER_REAL, 0)

    def choice_history(self, ch: dict, entry: tuple, limit: int, suppress: bool, ae: bool,
                       data: dict | None, kw: dict) -> list[tuple]:
        """One ChoiceLoader / CachingChoiceLoader object used for several renders while the answer
        of its higher-priority delegate changes: kind "overlay" - a DictLoader in front of the
        defaults gains / loses templates between renders; kind "theme" - a context-aware loader in
        front of the defaults answers from the theme named by the render argument `theme`
        (CachingChoiceLoader keyed by namespace_key="theme").  Returns the outcomes of the LAST step."""
        from liquid2 import CachingChoiceLoader, ChoiceLoader, DictLoader
        from liquid2.exceptions import TemplateNotFoundError
        from liquid2.loader import BaseLoader, TemplateSource

        def src(m: dict) -> dict[str, str]:
            return {k: to_src(v, data, ae) for k, v in m.items()}

        defaults = src(ch["defaults"])
        kw = dict(kw, **(data or {}))
        cls = self.env_class(limit, suppress)
        outs: list[tuple] = []
        if ch["kind"] == "theme":
            themes = {t: src(m) for t, m in ch["themes"].items()}

            class ThemeLoader(BaseLoader):
                def get_source(self, env, template_name, *, context=None, **kwargs):  # noqa: ANN001, ANN003, ANN202, ARG002
                    theme = kwargs.get("theme")
                    if theme is None and context is not None:
                        theme = context.globals.get("theme")
                    try:
                        return TemplateSource(themes[theme][template_name], template_name, None)
                    except KeyError:
                        raise TemplateNotFoundError(template_name) from None
            loaders = [ChoiceLoader([ThemeLoader(), DictLoader(defaults)]),
                       CachingChoiceLoader([ThemeLoader(), DictLoader(defaults)], namespace_key="theme")]
            steps = [dict(theme=t) for t in ch["steps"]]
            mutate = [None] * len(steps)
        else:
            overlay: dict[str, str] = {}
            loaders = [ChoiceLoader([DictLoader(overlay), DictLoader(defaults)])]
            steps = [{} for _ in ch["steps"]]
            mutate = [src(m) for m in ch["steps"]]
        for loader in loaders:
            for is_async in (False, True):
                env = cls(loader=loader, auto_escape=ae)
                last: tuple = ("err", "NoStep")
                for extra, mut in zip(steps, mutate):
                    if mut is not None:
                        overlay.clear()
                        overlay.update(mut)
                    args = dict(kw, **extra)

                    def go():  # noqa: ANN202
                        if entry[0] == "direct":
                            t = (self.loop.run_until_complete(env.get_template_async(entry[1])) if is_async
                                 else env.get_template(entry[1]))
                        else:
                            t = env.from_string("".join(("{% render '" if r else "{% include '") + n + "' %}"
                                                        for r, n in entry[1]))
                        return self.loop.run_until_complete(t.render_async(**args)) if is_async else t.render(**args)
                    last = self._guarded(go)
                outs.append(last)
        return outs

    def history(self, before: dict[str, str], after: dict[str, str], entry: tuple, limit: int,
                suppress: bool, ae: bool, mt: int, kw: dict) -> list[tuple]:
        """Auto-reload through the tags: write `before` into a scratch directory, render the entry
        with caching auto-reload file-system loaders (sync and async environments), rewrite the
        files that differ in `after` (parents; mtime moved by `mt` seconds, forwards or backwards),
        render again.  Returns the outcomes of the second render: the cached environments (a new
        get_template and the template object of the first render), and a fresh environment."""
        from liquid2 import CachingFileSystemLoader, FileSystemLoader
        root = Path(tempfile.mkdtemp(prefix="c08h_", dir=os.environ.get("VERIF_SCRATCH", "/var/tmp")))
        t0 = 1_000_000_000
        try:
            for k, v in before.items():
                f = root / k
                f.parent.mkdir(parents=True, exist_ok=True)
                f.write_text(v)
                os.utime(f, (t0, t0))
            cls = self.env_class(limit, suppress)
            env_s = cls(loader=CachingFileSystemLoader(root), auto_escape=ae)
            env_a = cls(loader=CachingFileSystemLoader(root), auto_escape=ae)
            if entry[0] == "direct":
                get_s = lambda: env_s.get_template(entry[1])                                   # noqa: E731
                get_a = lambda: self.loop.run_until_complete(env_a.get_template_async(entry[1]))  # noqa: E731
            else:
                w = "".join(("{% render '" if r else "{% include '") + n + "' %}" for r, n in entry[1])
                get_s = lambda: env_s.from_string(w)   # noqa: E731
                get_a = lambda: env_a.from_string(w)   # noqa: E731
            first: list = []

            def once_s():  # noqa: ANN202
                t = get_s()
                first.append(t)
                return t.render(**kw)
            self._guarded(once_s)
            self._guarded(lambda: self.loop.run_until_complete(get_a().render_async(**kw)))
            for k, v in after.items():
                if before.get(k) != v:
                    f = root / k
                    f.parent.mkdir(parents=True, exist_ok=True)
                    f.write_text(v)
                    os.utime(f, (t0 + mt, t0 + mt))
            outs = [self._guarded(lambda: get_s().render(**kw)),
                    self._guarded(lambda: self.loop.run_until_complete(get_a().render_async(**kw)))]
            if first:
                outs.append(self._guarded(lambda: first[0].render(**kw)))
            fresh = cls(loader=FileSystemLoader(root), auto_escape=ae)
            if entry[0] == "direct":
                outs.append(self._guarded(lambda: fresh.get_template(entry[1]).render(**kw)))
            else:
                outs.append(self._guarded(lambda: fresh.from_string(w).render(**kw)))
            return outs
        finally:
            shutil.rmtree(root, ignore_errors=True)


# ---------------------------------------------------------------- independent Python reference of the specification


class Diverges(Exception):
    pass


class SpecErr(Exception):
    def __init__(self, cls: str) -> None:
        self.cls = cls


def _walk(items: Iterable[tuple]):
    for it in items:
        yield it
        if it[0] == "B":
            yield from _walk(it[3])
        elif it[0] in ("W", "F"):
            yield from _walk(it[2])
        elif it[0] in ("K2", "M"):
            yield from _walk(it[1])


def is_blank(items: list) -> bool:
    """A body made of whitespace text, silent tags and wrappers of such only.
    A block tag, {{ block.super }} and extends are never blank."""
    for it in items:
        if it[0] == "T":
            if it[1].strip() != "":
                return False
        elif it[0] == "W":
            if it[1] == "cap" or not is_blank(it[2]):
                return False
        elif it[0] != "Q":
            return False
    return True


def pyspec(tpls: dict[str, list], name: str, _depth: int = 0, suppress: bool = True,
           include_shares_stacks: bool = False, state: dict | None = None) -> tuple | None:
    """Root parent's text, every block replaced by the first definition found
    walking leaf -> root, super = next definition; None if the unfolding does
    not terminate.  Written without stacks, contexts or limits."""

    def endok(t: list) -> bool:
        return all(it[4] is None or it[4] == it[1] for it in _walk(t) if it[0] == "B")

    try:
        if name not in tpls:
            raise SpecErr("TemplateNotFoundError")
        t = tpls[name]
        if not endok(t):
            raise SpecErr("TemplateInheritanceError")
        chain, visited = [], []
        while True:
            exts = [it[1] for it in _walk(t) if it[0] == "E"]
            names = [it[1] for it in _walk(t) if it[0] == "B"]
            if len(exts) > 1 or len(set(names)) != len(names):
                raise SpecErr("TemplateInheritanceError")
            chain.append(t)
            if not exts:
                break
            if exts[0] in visited:
                raise SpecErr("TemplateInheritanceError")
            visited.append(exts[0])
            if exts[0] not in tpls:
                raise SpecErr("TemplateNotFoundError")
            t = tpls[exts[0]]
            if not endok(t):
                raise SpecErr("TemplateInheritanceError")

        def defs(n: str) -> list[tuple]:
            out = []
            for t in chain:
                for it in _walk(t):
                    if it[0] == "B" and it[1] == n:
                        out.append(it)
                        break
            return out

        ivar: list[int] = []
        # the counters and cycles of the page: one state for the whole render, blocks, overrides and
        # supers included; {% render %} and macro calls start afresh, {% include %} continues
        st = state if state is not None else {"n": None, "cy": 0}

        def body(items: list, sup: list, depth: int) -> str:
            text = render(items, sup, depth)
            return "" if suppress and is_blank(items) else text

        def render(items: list, sup: list, depth: int) -> str:
            if depth + _depth > 150:
                raise Diverges
            out = []
            for it in items:
                if it[0] == "T":
                    out.append(it[1])
                elif it[0] == "S":
                    if sup:
                        out.append(body(sup[0][3], sup[1:], depth + 1))
                elif it[0] == "E":
                    raise SpecErr("ContextDepthError")
                elif it[0] == "Q":
                    pass
                elif it[0] == "W":
                    out.append(body(it[2], sup, depth + 1))
                elif it[0] == "K2":
                    out.append(2 * body(it[1], sup, depth + 1))
                elif it[0] == "M":
                    # a block tag is disabled inside a macro: a called macro with a block in it is an error
                    if it[2] and any(x[0] == "B" for x in _walk(it[1])):
                        raise SpecErr("DisabledTagError")
                    if it[2]:
                        out.append(body(it[1], [], depth + 1))
                elif it[0] == "F":
                    for k in range(1, it[1] + 1):
                        ivar.append(k)
                        try:
                            part = render(it[2], sup, depth + 1)
                        finally:
                            ivar.pop()
                        out.append("" if suppress and is_blank(it[2]) else part)
                elif it[0] == "V":
                    out.append(str(ivar[-1]) if ivar else "")
                elif it[0] == "PL":
                    out.append(str(ivar[-2]) if len(ivar) > 1 else "")
                elif it[0] == "N+":
                    out.append(str(st["n"] or 0))
                    st["n"] = (st["n"] or 0) + 1
                elif it[0] == "N-":
                    st["n"] = (st["n"] or 0) - 1
                    out.append(str(st["n"]))
                elif it[0] == "CY":
                    out.append("ab"[st["cy"] % 2])
                    st["cy"] += 1
                elif it[0] == "NV":
                    out.append("" if st["n"] is None else str(st["n"]))
                elif (it[0] == "I" and include_shares_stacks and it[1] in tpls
                      and not any(x[0] == "E" for x in _walk(tpls[it[1]]))):
                    # the recorded alternative: an included template without extends resolves its
                    # blocks against the block stacks of the chain it is included from
                    out.append(render(tpls[it[1]], [], depth + 1))
                elif it[0] in ("I", "N", "C"):
                    sub = pyspec(tpls, it[1], _depth + depth + 1, suppress, include_shares_stacks,
                                 st if it[0] == "I" else None)
                    if sub is None:
                        raise Diverges
                    if sub[0] == "err":
                        raise SpecErr(sub[1])
                    out.append(sub[1])
                else:
                    ds = defs(it[1]) or [it]      # a block no chain member defines renders itself
                    if ds[0][2]:
                        raise SpecErr("RequiredBlockError")
                    out.append(body(ds[0][3], ds[1:], depth + 1))
            return "".join(out)

        return ("ok", render(chain[-1], [], 0))
    except SpecErr as e:
        return ("err", e.cls)
    except Diverges:
        return None


def starts_with_ext(t: list) -> bool:
    return bool(t) and t[0][0] == "E"


# ---------------------------------------------------------------- generators


def fam_template(i: int, names: list[str], states: tuple[str, ...], pat: int) -> list:
    """Template number i (0 = root) of the bounded-exhaustive family."""
    def blk(n: str, st: str, inner: list) -> tuple:
        body = [("T", n + str(i))] + ([("S",)] if st == "S" else []) + inner
        return ("B", n, st == "R", body, None)

    defined = [(n, s) for n, s in zip(names, states) if s != "O"]
    if pat == 0 or len(defined) < 2:
        blocks = [blk(n, s, []) for n, s in defined]
    elif pat in (1, 2):
        seq = defined if pat == 1 else defined[::-1]
        cur: list = []
        for n, s in seq[::-1]:
            cur = [blk(n, s, cur)]
        blocks = cur
    else:  # first block holds all the others as siblings
        (n0, s0), rest = defined[0], defined[1:]
        blocks = [blk(n0, s0, [blk(n, s, []) for n, s in rest])]
    if i == 0:
        return [("T", "[")] + blocks + [("T", "]")]
    return [("E", f"t{i - 1}")] + blocks + [("T", "x")]


def fam_shapes(k: int) -> list[tuple[tuple[str, ...], int]]:
    out = []
    for states in itertools.product("ODSR", repeat=k):
        nd = sum(s != "O" for s in states)
        pats = [0] if nd < 2 else ([0, 1, 2] if nd == 2 else [0, 1, 2, 3])
        out += [(states, p) for p in pats]
    return out


def fam_cases(k: int, d: int) -> Iterable[tuple[dict, tuple, int]]:
    names = BNAMES[:k]
    shapes = fam_shapes(k)
    for combo in itertools.product(shapes, repeat=d):
        tpls = {f"t{i}": fam_template(i, names, st, p) for i, (st, p) in enumerate(combo)}
        yield tpls, ("direct", f"t{d - 1}"), 30


# The "blank" family: bodies that are empty, whitespace-only or hold only a
# silent tag; required blocks with empty bodies, nested; enclosing blocks / if /
# for whose other content is whitespace.  States per block:
#   O omitted, D visible text, e empty body, w whitespace body, q only a silent
#   tag, r required with an empty body.
BL_STATES = "ODewqr"


def bl_template(i: int, names: list[str], states: tuple[str, ...], pat: int) -> list:
    def blk(n: str, st: str, inner: list) -> tuple:
        own = {"D": [("T", n + str(i))], "e": [], "w": [("T", " ")], "q": [("Q", i % 2)], "r": []}[st]
        return ("B", n, st == "r", own + inner, None)

    defined = [(n, s) for n, s in zip(names, states) if s != "O"]
    if pat in (1, 2) and len(defined) >= 2:
        seq = defined if pat == 1 else defined[::-1]
        cur: list = []
        for n, s in seq[::-1]:
            cur = [blk(n, s, cur)]
        blocks = cur
    elif pat in (4, 5) and defined:
        inner = [("T", " ")] + [blk(n, s, []) for n, s in defined] + [("T", "\n")]
        blocks = [("W", "if" if pat == 4 else "for", inner)]
    else:
        blocks = [blk(n, s, []) for n, s in defined]
    if i == 0:
        return [("T", "[")] + blocks + [("T", "]")]
    return [("E", f"t{i - 1}")] + blocks + [("T", "x")]


def bl_shapes(k: int) -> list[tuple[tuple[str, ...], int]]:
    out = []
    for states in itertools.product(BL_STATES, repeat=k):
        nd = sum(s != "O" for s in states)
        pats = [0] if nd == 0 else ([0, 4, 5] if nd == 1 else [0, 1, 2, 4, 5])
        out += [(states, p) for p in pats]
    return out


def bl_cases(k: int, d: int) -> Iterable[tuple[dict, tuple, int]]:
    names = BNAMES[:k]
    shapes = bl_shapes(k)
    for combo in itertools.product(shapes, repeat=d):
        tpls = {f"t{i}": bl_template(i, names, st, p) for i, (st, p) in enumerate(combo)}
        yield tpls, ("direct", f"t{d - 1}"), 30


def rand_items(r, names: list[str], depth: int, *, top: bool, p_ext: float, tnames: list[str]) -> list:
    out = []
    for _ in range(r.randint(0, 3 if top else 2)):
        x = r.random()
        if x < 0.2:
            out.append(("T", r.choice("pqrsuvw") + r.choice("0123456789")))
        elif x < 0.27:
            out.append(("T", r.choice([" ", "\n", " \n", "  "])))
        elif x < 0.31:
            out.append(("Q", r.randint(0, 1)))
        elif x < 0.36 and depth > 0:
            kind = r.choice(["if", "for", "unless", "case", "with", "cap", "cap", "liq"])
            inner = rand_items(r, names, depth - 1, top=False, p_ext=p_ext, tnames=tnames)
            out.append(("W", kind, no_blank_text(inner) if kind == "liq" else inner))
        elif x < 0.45:
            out.append(("S",))
        elif x < 0.45 + p_ext:
            out.append(("E", r.choice(tnames)))
        elif depth > 0:
            n = r.choice(names)
            endn = None if r.random() < 0.8 else (n if r.random() < 0.7 else r.choice(names))
            out.append(("B", n, r.random() < 0.15,
                        rand_items(r, names, depth - 1, top=False, p_ext=p_ext, tnames=tnames), endn))
    return out


def dedup_blocks(r, items: list, used: set[str], keep_dups: bool) -> list:
    out = []
    for it in items:
        if it[0] == "B":
            if it[1] in used and not keep_dups:
                continue
            used.add(it[1])
            out.append(it[:3] + (dedup_blocks(r, it[3], used, keep_dups), it[4]))
        elif it[0] == "W":
            out.append(it[:2] + (dedup_blocks(r, it[2], used, keep_dups),))
        else:
            out.append(it)
    return out


def rand_case(r, thorough: bool) -> tuple[dict, tuple, int]:
    d = r.randint(1, 8 if not thorough else 12)
    names = BNAMES[: r.randint(1, 4)]
    tn = [f"t{i}" for i in range(d)]
    weird = r.random() < 0.35           # cycles, missing parents, duplicates, stray extends
    tpls: dict[str, list] = {}
    for i in range(d):
        body = rand_items(r, names, 3, top=True, p_ext=0.06 if weird else 0.0, tnames=tn + [MISSING])
        body = dedup_blocks(r, body, set(), keep_dups=weird and r.random() < 0.3)
        if i > 0 or (weird and r.random() < 0.5):
            parent = f"t{i - 1}" if (i > 0 and not (weird and r.random() < 0.3)) else r.choice(tn + [MISSING])
            pos = 0 if r.random() < 0.85 else r.randint(0, len(body))
            body.insert(pos, ("E", parent))
        tpls[f"t{i}"] = body
    limit = r.choice([30, 30, 12, 9, 8, 7, 6, 5, 4, 3])
    x = r.random()
    if x < 0.6:
        entry: tuple = ("direct", f"t{d - 1}")
    else:
        entry = ("wrap", [(r.random() < 0.5, r.choice(tn[-2:] + ([MISSING] if r.random() < 0.1 else [])))
                          for _ in range(r.randint(1, 3))])
    return tpls, entry, limit


def nested_cases(r, n: int) -> list[tuple[dict, tuple, int]]:
    """An inheriting leaf included / rendered from inside a block (or the top
    level) of a member of another chain that uses the same block names."""
    out = []
    shapes = fam_shapes(2)
    names = BNAMES[:2]
    for _ in range(n):
        d_out, d_in = r.randint(2, 3), r.randint(2, 3)
        outer = {f"t{i}": fam_template(i, names, *r.choice(shapes)) for i in range(d_out)}
        inner = {}
        for i in range(d_in):
            body = fam_template(i, names, *r.choice(shapes))
            inner[f"s{i}"] = [("E", f"s{i - 1}") if it[0] == "E" else it for it in body]
        tag = (r.choice("IN"), f"s{d_in - 1}")
        host = outer[f"t{r.randrange(d_out)}"]
        blocks = [it for it in _walk(host) if it[0] == "B"]
        if blocks and r.random() < 0.85:
            r.choice(blocks)[3].append(tag)
        else:
            host.insert(r.randint(1, len(host)), tag)
        if r.random() < 0.3:   # a second one somewhere else
            blocks = [it for t in outer.values() for it in _walk(t) if it[0] == "B"]
            if blocks:
                r.choice(blocks)[3].insert(0, (r.choice("IN"), f"s{d_in - 1}"))
        out.append(({**outer, **inner}, ("direct", f"t{d_out - 1}"), 30))
    return out


WRAP_KINDS = ["if", "for", "unless", "case", "with", "cap", "liq"]


def _b(n: str, body: list, req: bool = False) -> tuple:
    return ("B", n, req, body, None)


def container_cases() -> list[tuple]:
    """Blocks nested through container tags (complete): for each kind K, the root holds block a (and b)
    inside K in one of 4 layouts; the child omits / defines / defines with block.super each block and
    wraps its overrides in nothing, a capture or K."""
    out = []
    for kind in WRAP_KINDS:
        pad = [] if kind == "liq" else [("T", " ")]
        for layout in range(4):
            a0 = _b("a", [("T", "a0")])
            ab0 = _b("a", [("T", "a0"), _b("b", [("T", "b0")])])
            root = [("T", "["), ("W", kind, {0: [a0], 1: pad + [a0] + pad, 2: [ab0]}.get(layout, [])), ("T", "]")]
            if layout == 3:
                root = [("T", "["), _b("a", [("W", kind, pad + [_b("b", [("T", "b0")])])]), ("T", "]")]
            for sa in "ODS":
                for sb in "ODS":
                    for cw in (None, "cap", kind):
                        blocks = [_b(n, [("T", n + "1")] + ([("S",)] if st == "S" else []))
                                  for n, st in (("a", sa), ("b", sb)) if st != "O"]
                        if cw is not None and not blocks:
                            continue
                        child = [("E", "t0")] + ([("W", cw, blocks)] if cw else blocks) + [("T", "x")]
                        out.append(({"t0": root, "t1": child}, ("direct", "t1"), 30))
    return out


# fixed container cases (model + specification)
CONTAINER_CORPUS: list[tuple] = [
    # duplicate block names hidden in captures / liquid lines must be rejected
    ({"t0": [("T", "["), ("W", "cap", [_b("a", [("T", "1")])]), ("W", "cap", [_b("a", [("T", "2")])]), ("T", "]")],
      "t1": [("E", "t0")]}, ("direct", "t1"), 30),
    ({"t0": [("T", "["), _b("a", [("T", "1")]), ("T", "]")],
      "t1": [("E", "t0"), ("W", "liq", [_b("a", [("T", "x")])]), ("W", "cap", [_b("a", [("T", "y")])])]}, ("direct", "t1"), 30),
    # two extends tags, one inside a capture
    ({"t0": [("T", "R")], "t1": [("E", "t0"), ("W", "cap", [("E", "t0")])]}, ("direct", "t1"), 30),
    # required block inside a capture, overridden / not overridden
    ({"t0": [("T", "["), ("W", "cap", [_b("a", [], True)]), ("T", "]")], "t1": [("E", "t0"), _b("a", [("T", "la")])]}, ("direct", "t1"), 30),
    ({"t0": [("T", "["), ("W", "cap", [_b("a", [], True)]), ("T", "]")], "t1": [("E", "t0")]}, ("direct", "t1"), 30),
    # the leaf's extends tag inside a capture / liquid tag: what the capture holds is never printed
    ({"t0": [("T", "["), _b("a", [("T", "ra")]), ("T", "]")],
      "t1": [("W", "cap", [("T", "p"), ("E", "t0")]), _b("a", [("T", "la")])]}, ("direct", "t1"), 30),
    ({"t0": [("T", "["), _b("a", [("T", "ra")]), ("T", "]")],
      "t1": [("W", "liq", [("T", "p"), ("E", "t0")]), _b("a", [("T", "la")])]}, ("wrap", [(False, "t1"), (True, "t1")]), 30),
]


def extra_cases() -> list[tuple[dict, tuple, int]]:
    """Python-specification-only cases: a capture printed twice, macros with blocks, blocks rendered
    several times by a for loop of the base whose body depends on the loop variable."""
    out = []
    for sa in "DS":
        child = [("E", "t0"), _b("a", [("T", "a1")] + ([("S",)] if sa == "S" else []))]
        out.append(({"t0": [("T", "["), ("K2", [_b("a", [("T", "a0")])]), ("T", "]")], "t1": child}, ("direct", "t1"), 30))
        out.append(({"t0": [("T", "["), _b("a", [("T", "a0")]), ("T", "]")],
                     "t1": [("E", "t0"), ("K2", [_b("a", [("T", "a1"), ("S",)])])]}, ("direct", "t1"), 30))
        for called in (False, True):
            out.append(({"t0": [("T", "["), ("M", [_b("a", [("T", "a0")])], called), ("T", "]")], "t1": child},
                        ("direct", "t1"), 30))
    # a duplicate name hidden in an uncalled macro
    out.append(({"t0": [("T", "["), _b("a", [("T", "a0")]), ("M", [_b("a", [("T", "m")])], False), ("T", "]")],
                 "t1": [("E", "t0")]}, ("direct", "t1"), 30))
    # (b) blocks rendered once per iteration: every block.super is rendered afresh
    states = ["O", "D", "S", "Dv", "Sv"]

    def over(i: int, st: str) -> list:
        if st == "O":
            return []
        return [_b("a", [("T", "a" + str(i))] + ([("V",)] if "v" in st else []) + ([("S",)] if st[0] == "S" else []))]
    for n in (2, 3):
        for root_v in (True, False):
            root = [("T", "["), ("F", n, [_b("a", [("T", "r")] + ([("V",)] if root_v else [])), ("T", ",")]), ("T", "]")]
            for st1 in states:
                out.append(({"t0": root, "t1": [("E", "t0")] + over(1, st1)}, ("direct", "t1"), 30))
                for st2 in states:
                    out.append(({"t0": root, "t1": [("E", "t0")] + over(1, st1), "t2": [("E", "t1")] + over(2, st2)},
                                ("direct", "t2"), 30))
    # stateful tags inside blocks: the block is part of the page (fix 6f30153) - counters and cycles
    # continue into the block, through overrides and supers, and on after it
    bodies = [[("CY",), ("N+",)], [("T", "r"), ("N-",)], [("CY",), ("T", "."), ("CY",)]]

    def sover(i: int, st_: str) -> list:
        if st_ == "O":
            return []
        own = [("T", "o" + str(i)), ("CY",), ("N+",)] if i % 2 else [("N-",), ("T", "o" + str(i))]
        return [_b("b", own + ([("S",)] if st_ == "S" else []))]
    for body in bodies:
        for n in (1, 3):
            root = [("N+",), ("T", "["), ("F", n, [_b("b", list(body)), ("T", ",")]), ("T", "|"), ("NV",), ("CY",), ("T", "]")]
            for st1 in "ODS":
                chains = [{"t0": root, "t1": [("E", "t0")] + sover(1, st1)}]
                chains += [{"t0": root, "t1": [("E", "t0")] + sover(1, st1), "t2": [("E", "t1")] + sover(2, st2)} for st2 in "ODS"]
                for t in chains:
                    leaf = f"t{len(t) - 1}"
                    for entry in (("direct", leaf), ("wrap", [(False, leaf)]), ("wrap", [(True, leaf)])):
                        out.append((t, entry, 30))
    # a loop in a block inside a loop of the base: forloop.parentloop is the page's loop (fix 0003)
    for st1 in "ODS":
        inner = [("F", 2, [("PL",), ("T", "."), ("V",), ("T", " ")])]
        root = [("F", 2, [_b("a", inner)])]
        over = [] if st1 == "O" else [_b("a", [("T", "o")] + ([("S",)] if st1 == "S" else inner))]
        for entry in (("direct", "t1"), ("wrap", [(False, "t1")]), ("wrap", [(True, "t1")])):
            out.append(({"t0": root, "t1": [("E", "t0")] + over}, entry, 30))
    # a loop inside a block that a super renders, and nested loops
    out.append(({"t0": [("T", "["), _b("a", [("F", 2, [("T", "r"), ("V",), _b("b", [("T", "b"), ("V",)])])]), ("T", "]")],
                 "t1": [("E", "t0"), _b("b", [("T", "B"), ("S",)]), _b("a", [("T", "A"), ("S",), ("S",)])]}, ("direct", "t1"), 30))
    out.append(({"t0": [("T", "["), ("F", 2, [("F", 3, [_b("a", [("V",)]), ("T", ".")]), ("T", "|")]), ("T", "]")],
                 "t1": [("E", "t0"), _b("a", [("T", "<"), ("S",), ("T", ">")])]}, ("wrap", [(False, "t1"), (True, "t1")]), 30))
    return out


def partial_cases(r, n: int) -> list[tuple[dict, tuple, int]]:
    """A block-bearing template that does NOT extend (a depth-one chain: a card
    that is also a base for other cards), with and without required blocks and
    block.super, rendered / called through a macro / included from inside a
    block of a chain that overrides blocks of the same names."""
    out = []
    names = BNAMES[:2]
    shapes = fam_shapes(2)
    for _ in range(n):
        d_out = r.randint(2, 3)
        outer = {f"t{i}": fam_template(i, names, *r.choice(shapes)) for i in range(d_out)}
        st = tuple(r.choice("DDSR" if r.random() < 0.6 else "ODSR") for _ in names)
        card = _map_items(fam_template(0, names, st, r.choice([0, 0, 1, 2])),
                          lambda it: ("T", "k" + it[1][0] if len(it[1]) == 2 else {"[": "(", "]": ")"}[it[1]]) if it[0] == "T" else it)
        kind = r.choice("NNCI")
        hosts = [it for t in outer.values() for it in _walk(t) if it[0] == "B" and any(x[0] == "T" for x in it[3])]
        if hosts and r.random() < 0.9:
            r.choice(hosts)[3].append((kind, "k0"))
        else:
            outer["t0"].insert(r.randint(1, len(outer["t0"])), (kind, "k0"))
        if r.random() < 0.25 and hosts:
            r.choice(hosts)[3].insert(1, (r.choice("NC"), "k0"))
        out.append(({**outer, "k0": card}, ("direct", f"t{d_out - 1}"), 30))
    return out


# fixed partial cases: render / macro call must isolate; WINC is the recorded include behaviour
_PBASE = {"t0": [("T", "["), _b("a", [("T", "ra")]), ("T", "|"), _b("b", [("T", "rb")]), ("T", "]")]}
PARTIAL_CORPUS = [
    ({**_PBASE, "t1": [("E", "t0"), _b("a", [("T", "la")]), _b("b", [("T", "lb"), (k, "k0")])],
      "k0": card}, ("direct", "t1"), 30)
    for k in "NC"
    for card in ([("T", "("), _b("a", [("T", "ka")]), ("T", ")")],
                 [("T", "("), _b("a", [], True), ("T", ")")],
                 [("T", "("), _b("a", [("T", "ka"), ("S",)]), ("T", ")")],
                 [("T", "("), _b("b", [("T", "kb"), _b("a", [("T", "ka")], True)]), ("T", ")")])
]
WINC = ({**_PBASE, "t1": [("E", "t0"), _b("a", [("T", "la")]), _b("b", [("T", "lb"), ("I", "k0")])],
         "k0": [("T", "("), _b("a", [("T", "ka")]), ("T", ")")]}, ("direct", "t1"), 30)


# Witness of the fixed defect nested-chain-shares-block-stacks.
WNEST = ({"t0": [("T", "["), ("B", "a", False, [("T", "ra")], None), ("T", "|"), ("B", "b", False, [("T", "rb")], None),
                 ("T", "|"), ("B", "c", False, [("T", "rc")], None), ("T", "]")],
          "t1": [("E", "t0"), ("B", "a", False, [("T", "la")], None), ("B", "b", False, [("T", "lb"), ("I", "s1")], None),
                 ("B", "c", False, [("T", "lc")], None)],
          "s0": [("T", "<"), ("B", "a", False, [("T", "r2a")], None), ("T", ">")],
          "s1": [("E", "s0"), ("B", "a", False, [("T", "l2a")], None)]}, ("direct", "t1"), 30)


def deep_cases() -> list[tuple[dict, tuple, int]]:
    """Boundaries of the two context limits at the default limit and at small ones."""
    out = []
    for limit, ns in ((30, (25, 26, 27, 28)), (8, (3, 4, 5, 6)), (5, (1, 2))):
        for n in ns:  # chain of n templates, each calling super
            t = {"t0": [("B", "a", False, [("T", "0")], None)]}
            for i in range(1, n):
                t[f"t{i}"] = [("E", f"t{i - 1}"), ("B", "a", False, [("T", str(i % 10)), ("S",)], None)]
            out.append((t, ("direct", f"t{n - 1}"), limit))
    for limit, ns in ((30, (30, 31, 32, 33)), (8, (8, 9, 10, 11)), (4, (1, 2))):
        for n in ns:  # n nested blocks
            body: list = [("T", "z")]
            for i in range(n):
                body = [("B", f"k{i}", False, [("T", str(i % 10))] + body, None)]
            out.append(({"t0": body, "t1": [("E", "t0")]}, ("direct", "t1"), limit))
            out.append(({"t0": body, "t1": [("E", "t0")]}, ("wrap", [(True, "t1")]), limit))
            out.append(({"t0": body, "t1": [("E", "t0")]}, ("wrap", [(False, "t1")]), limit))
    return out


# The recorded witnesses (known findings), re-observed on every run.
W30 = ({"t0": [("T", "B"), ("B", "a", False, [("T", "x")], None)],
        "t1": [("T", "L"), ("E", "t0"), ("B", "a", False, [("T", "y")], None)]}, ("direct", "t1"), 30)
def _wrec() -> tuple:
    # t0: a{ra b{rb}}; t1 overrides b with b{mb a{ma super}}; t2..t4 override a with a{l super}:
    # a -> super x3 -> t1's a -> super -> t0's a -> b -> t1's b -> a -> ...   (several supers per
    # copy level make CPython's recursion limit come before context_depth_limit = 30)
    def blk(n: str, body: list) -> tuple:
        return ("B", n, False, body, None)
    t = {"t0": [blk("a", [("T", "ra"), blk("b", [("T", "rb")])])],
         "t1": [("E", "t0"), blk("b", [("T", "mb"), blk("a", [("T", "ma"), ("S",)])])]}
    for i in range(2, 5):
        t[f"t{i}"] = [("E", f"t{i - 1}"), blk("a", [("T", "l" + str(i)), ("S",)])]
    return (t, ("direct", "t4"), 30)


WREC = _wrec()

CORPUS: list[tuple[dict, tuple, int]] = [
    W30,
    (WREC[0], WREC[1], 8),
    # the tests of tests/test_template_inheritance.py in abstract form
    ({"t0": [("B", "a", True, [], None)], "t1": [("E", "t0"), ("B", "b", False, [], None)]}, ("direct", "t1"), 30),
    ({"t0": [("B", "a", True, [], None)], "t1": [("E", "t0"), ("B", "a", False, [("T", "h")], None)]}, ("direct", "t1"), 30),
    ({"t0": [("B", "a", False, [], None)], "t1": [("E", "t0"), ("B", "a", True, [], None)],
      "t2": [("E", "t1"), ("B", "a", False, [("T", "h")], None)]}, ("direct", "t2"), 30),
    ({"t0": [("B", "a", False, [], None)], "t1": [("E", "t0"), ("B", "a", True, [], None)], "t2": [("E", "t1")]}, ("direct", "t2"), 30),
    ({"t0": [("E", "t1")], "t1": [("E", "t0")]}, ("direct", "t0"), 30),
    ({"t0": [("E", "t0")]}, ("direct", "t0"), 30),
    ({"t0": [("E", "t1")], "t1": [("E", "t2")], "t2": [("E", "t1")]}, ("direct", "t0"), 30),
    ({"t0": [("T", "R")], "t1": [("E", "t0"), ("E", "t0")]}, ("direct", "t1"), 30),
    ({"t0": [("T", "R"), ("B", "a", False, [], None)], "t1": [("E", "t0"), ("B", "a", False, [("E", "t0")], None)]}, ("direct", "t1"), 30),
    ({"t0": [("B", "a", False, [], None), ("B", "a", False, [], None)], "t1": [("E", "t0")]}, ("direct", "t1"), 30),
    ({"t0": [("B", "a", False, [("B", "a", False, [], None)], None)], "t1": [("E", "t0")]}, ("direct", "t1"), 30),
    ({"t0": [("B", "a", False, [("T", "1")], None), ("B", "a", False, [("T", "2")], None)]}, ("direct", "t0"), 30),
    ({"t0": [("B", "a", False, [("T", "1")], "b")]}, ("direct", "t0"), 30),
    ({"t0": [("B", "a", False, [("T", "1")], "a")]}, ("direct", "t0"), 30),
    ({"t0": [("B", "a", False, [("T", "1")], "b")], "t1": [("E", "t0")]}, ("direct", "t1"), 30),
    ({"t1": [("E", MISSING)]}, ("direct", "t1"), 30),
    ({"t1": [("T", "x")]}, ("direct", MISSING), 30),
    # an extends tag inside a block: in the leaf before/after its extends, in a parent
    ({"t0": [("T", "R")], "t1": [("B", "a", False, [("T", "p"), ("E", "t0"), ("T", "q")], None), ("T", "r")]}, ("direct", "t1"), 30),
    ({"t0": [("T", "R"), ("B", "a", False, [], None)], "t1": [("B", "a", False, [("E", "t0")], None)]}, ("direct", "t1"), 8),
    ({"t0": [("T", "R"), ("B", "a", False, [], None)], "t1": [("B", "a", False, [("E", "t0")], None)], "t2": [("E", "t1")]}, ("direct", "t2"), 8),
    # stale block stacks must not survive a finished chain: two chains in one render context
    ({"t0": [("T", "["), ("B", "a", False, [("T", "r")], None), ("T", "]")],
      "t1": [("E", "t0"), ("B", "a", False, [("T", "1")], None)], "t2": [("E", "t0")]},
     ("wrap", [(False, "t1"), (False, "t2"), (False, "t0")]), 30),
    ({"t0": [("T", "["), ("B", "a", False, [("T", "r")], None), ("T", "]")],
      "t1": [("E", "t0"), ("B", "a", False, [("T", "1")], None)]},
     ("wrap", [(False, "t1"), (False, "t0"), (True, "t1"), (False, "t0")]), 30),
    ({"t0": [("T", "["), ("B", "a", False, [("T", "r"), ("S",)], None), ("T", "]")],
      "t1": [("E", "t0"), ("B", "a", False, [("T", "1"), ("S",)], None)], "t2": [("E", "t0")]},
     ("wrap", [(True, "t1"), (False, "t1"), (False, "t2"), (True, "t2")]), 30),
]


def _map_items(items: list, f) -> list:
    out = []
    for it in items:
        it = f(it)
        if it[0] == "B":
            it = it[:3] + (_map_items(it[3], f), it[4])
        elif it[0] in ("W", "F"):
            it = it[:2] + (_map_items(it[2], f),)
        elif it[0] in ("K2", "M"):
            it = (it[0], _map_items(it[1], f)) + it[2:]
        out.append(it)
    return out


MARKUP_MODES = [{"ae": True}, {"ae": True, "data": True}, {"data": True}]


def markupify(case: tuple, mode: dict) -> tuple:
    """The same chain with markup characters (< & ") in every visible text, as
    literal template text or (mode data) as render data behind output tags,
    with auto-escape on or off.  The abstract text is what must be on the page:
    literal text and block.super are safe, data is escaped exactly once."""
    from markupsafe import escape

    def f(it: tuple) -> tuple:
        if it[0] == "T" and it[1].strip():
            raw = "<" + it[1] + '&"'
            return ("T", str(escape(raw)) if (mode.get("ae") and mode.get("data")) else raw)
        return it
    case = tuple(case) + ((True,) if len(case) == 3 else ())
    return ({k: _map_items(v, f) for k, v in case[0].items()},) + case[1:4] + (dict(mode),)


_DIRS = ["", "b/", "a/", "c/a/", "a/b/", "b/a/c/"]


def same_basename(case: tuple, scheme: int = 0) -> tuple:
    """The same chain with hierarchical names that share their last component:
    t, d/t, d/d/t, ... (scheme 0) or x, b/x, a/x, c/a/x, ... (scheme 1).  Run
    also through the file-system loaders and from_string (opts more)."""
    def nm(n: str) -> str:
        if not (n.startswith("t") and n[1:].isdigit()):
            return n
        i = int(n[1:])
        if scheme == 0:
            return "d/" * i + "t"
        return (_DIRS[i] if i < len(_DIRS) else f"p{i}/") + "x"

    def f(it: tuple) -> tuple:
        return ("E", nm(it[1])) if it[0] == "E" else it
    case = tuple(case) + ((True,) if len(case) == 3 else ())
    tpls, entry = case[0], case[1]
    entry2 = ("direct", nm(entry[1])) if entry[0] == "direct" else ("wrap", [(r_, nm(n)) for r_, n in entry[1]])
    opts = dict(case[4]) if len(case) > 4 else {}
    opts["more"] = True
    opts["tagloader"] = True
    return ({nm(k): _map_items(v, f) for k, v in tpls.items()}, entry2) + case[2:4] + (opts,)


def edit_template(r, items: list) -> list:
    """An edited version of a parent: every visible text changes (upper case), and often the
    `required` flag of a block, the default body of a block, or the presence of a block."""
    items = _map_items(items, lambda it: ("T", (it[1] if "&" in it[1] else it[1].upper()) + "!") if it[0] == "T" and it[1].strip() else it)
    blocks = [it for it in _walk(items) if it[0] == "B"]
    if blocks and r.random() < 0.5:
        pick = r.choice(blocks)
        items = _map_items(items, lambda it: it[:2] + (not it[2],) + it[3:] if it is pick else it)
        blocks = [it for it in _walk(items) if it[0] == "B"]
    if blocks and r.random() < 0.35:
        pick = r.choice(blocks)
        items = _map_items(items, lambda it: it[:3] + ([("T", "N" + it[1])], it[4]) if it is pick else it)
        blocks = [it for it in _walk(items) if it[0] == "B"]
    if blocks and r.random() < 0.2:
        pick = r.choice(blocks)

        def drop(xs: list) -> list:
            return [x[:3] + (drop(x[3]), x[4]) if x[0] == "B" else x[:2] + (drop(x[2]),) if x[0] == "W" else x
                    for x in xs if x is not pick]
        items = drop(items)
    return items


def edited_history(r, case: tuple) -> tuple | None:
    """The chain after an edit of one or two of its parents (never the entry
    template); opts carry the chain as it was at the first render."""
    case = tuple(case) + ((True,) if len(case) == 3 else ())
    tpls, entry = case[0], case[1]
    entered = {entry[1]} if entry[0] == "direct" else {n for _, n in entry[1]}
    parents = [k for k in tpls if k not in entered]
    if not parents:
        return None
    after = dict(tpls)
    for k in r.sample(parents, min(len(parents), r.choice([1, 1, 2]))):
        after[k] = edit_template(r, tpls[k])
    opts = dict(case[4]) if len(case) > 4 else {}
    opts.update({"before": tpls, "mt": r.choice([10, -10, 1, -3600])})
    return (after, entry) + case[2:4] + (opts,)


def choice_history_case(r, case: tuple) -> tuple | None:
    """The chain as a ChoiceLoader sees it at the last of 2-3 renders through one loader object:
    alternative versions of one or two parents live in a higher-priority delegate (an overlay that
    gains / loses them, or the 'dark' theme of a context-aware loader)."""
    case = tuple(case) + ((True,) if len(case) == 3 else ())
    tpls, entry = case[0], case[1]
    entered = {entry[1]} if entry[0] == "direct" else {n for _, n in entry[1]}
    parents = [k for k in tpls if k not in entered]
    if not parents:
        return None
    alt = {k: edit_template(r, tpls[k]) for k in r.sample(parents, min(len(parents), r.choice([1, 1, 2])))}
    opts = dict(case[4]) if len(case) > 4 else {}
    if r.random() < 0.5:
        steps = r.choice([["default", "dark"], ["dark", "default"], ["default", "dark", "default"],
                          ["dark", "default", "dark"], ["dark", "dark"]])
        opts["choice"] = {"kind": "theme", "defaults": tpls, "themes": {"dark": alt, "default": {}}, "steps": steps}
        now = alt if steps[-1] == "dark" else {}
    else:
        steps = r.choice([[{}, alt], [alt, {}], [{}, alt, {}], [alt, {}, alt]])
        opts["choice"] = {"kind": "overlay", "defaults": tpls, "steps": steps}
        now = steps[-1]
    return ({**tpls, **now}, entry) + case[2:4] + (opts,)


# legal chains and genuine cycles through names with a repeated last component
NAME_CORPUS: list[tuple] = [
    ({"base": [("T", "["), ("B", "a", False, [("T", "r0")], None), ("T", "]")],
      "admin/base": [("E", "base"), ("B", "a", False, [("T", "a1"), ("S",)], None)]}, ("direct", "admin/base"), 30, True, {"more": True, "tagloader": True}),
    ({"x": [("T", "["), ("B", "a", False, [("T", "r0")], None), ("T", "]")],
      "b/x": [("E", "x"), ("B", "a", False, [("T", "b1"), ("S",)], None)],
      "a/x": [("E", "b/x"), ("B", "a", False, [("T", "a2"), ("S",)], None)]}, ("direct", "a/x"), 30, True, {"more": True, "tagloader": True}),
    ({"x": [("T", "["), ("B", "a", False, [("T", "r0")], None), ("T", "]")],
      "b/x": [("E", "x")], "a/x": [("E", "b/x"), ("B", "a", False, [("T", "a2")], None)]},
     ("wrap", [(False, "a/x"), (True, "a/x"), (False, "b/x")]), 30, True, {"more": True, "tagloader": True}),
    ({"layouts/page": [("E", "page")], "page": [("T", "p0"), ("B", "a", False, [], None)],
      "site/layouts/page": [("E", "layouts/page"), ("B", "a", False, [("T", "s1")], None)]},
     ("direct", "site/layouts/page"), 30, True, {"more": True, "tagloader": True}),
    # genuine cycles must still be refused
    ({"x": [("E", "a/x")], "b/x": [("E", "x")], "a/x": [("E", "b/x")]}, ("direct", "a/x"), 30, True, {"more": True, "tagloader": True}),
    ({"a/x": [("E", "a/x")]}, ("direct", "a/x"), 30, True, {"more": True, "tagloader": True}),
    ({"x": [("E", "b/x")], "b/x": [("E", "x")], "a/x": [("E", "b/x")]}, ("wrap", [(True, "a/x")]), 30, True, {"more": True, "tagloader": True}),
    ({"d/t": [("E", "t"), ("T", "q1")], "t": [("E", "d/t")]}, ("direct", "d/t"), 30, True, {"more": True, "tagloader": True}),
]


def super_chains() -> list[tuple]:
    """Chains of depth 2..4 over one block where every member defines it, with
    or without block.super (complete), for the markup / auto-escape variants."""
    out = []
    for d in (2, 3, 4):
        for states in itertools.product("DS", repeat=d):
            out.append(({f"t{i}": fam_template(i, ["a"], (st,), 0) for i, st in enumerate(states)},
                        ("direct", f"t{d - 1}"), 30))
    return out


def _rq(body: list) -> tuple:
    return ("B", "b", True, body, None)


# required blocks with blank bodies nested in otherwise-blank blocks / if / for (run with suppression on and off)
BLANK_CORPUS: list[tuple[dict, tuple, int]] = [
    ({"t0": [("T", "["), ("B", "a", False, [_rq([])], None), ("T", "]")],
      "t1": [("E", "t0"), ("B", "b", False, [("T", "lb")], None)]}, ("direct", "t1"), 30),
    ({"t0": [("T", "["), ("B", "a", False, [("T", "\n"), ("T", "  "), _rq([]), ("T", "\n")], None), ("T", "]")],
      "t1": [("E", "t0"), ("B", "b", False, [("T", "mb")], None)],
      "t2": [("E", "t1"), ("B", "b", False, [("T", "lb"), ("S",)], None)]}, ("direct", "t2"), 30),
    ({"t0": [("T", "["), ("B", "a", False, [("T", "ra")], None), ("T", "]")],
      "t1": [("E", "t0"), ("B", "a", False, [_rq([])], None)],
      "t2": [("E", "t1"), ("B", "b", False, [("T", "lb")], None)]}, ("direct", "t2"), 30),
    ({"t0": [("T", "["), ("W", "if", [_rq([])]), ("T", "]")],
      "t1": [("E", "t0"), ("B", "b", False, [("T", "lb")], None)]}, ("direct", "t1"), 30),
    ({"t0": [("T", "["), ("W", "for", [("T", " "), _rq([("T", " ")]), ("Q", 0)]), ("T", "]")],
      "t1": [("E", "t0"), ("B", "b", False, [("T", "lb")], None)]}, ("direct", "t1"), 30),
    ({"t0": [("T", "["), _rq([]), ("T", "]")],
      "t1": [("E", "t0"), ("B", "b", False, [("T", "lb")], None)]}, ("direct", "t1"), 30),
    ({"t0": [("T", "["), ("B", "a", False, [("T", " "), ("B", "b", False, [("Q", 1)], None)], None), ("T", "]")],
      "t1": [("E", "t0"), ("B", "b", False, [("T", " ")], None)],
      "t2": [("E", "t1"), ("B", "b", False, [("T", "<"), ("S",), ("T", ">")], None)]}, ("direct", "t2"), 30),
    ({"t0": [("T", "["), ("B", "a", False, [("W", "if", [("T", " "), ("W", "for", [("Q", 0), _rq([])])])], None), ("T", "]")],
      "t1": [("E", "t0"), ("B", "b", False, [("T", "lb")], None)]}, ("wrap", [(False, "t1"), (True, "t1")]), 30),
    ({"t0": [("T", "["), ("B", "a", False, [_rq([])], None), ("T", "]")], "t1": [("E", "t0")]}, ("direct", "t1"), 30),
    # an extends tag is never blank either: wrapped in if / for with whitespace around it
    ({"t0": [("T", "["), ("B", "a", False, [("T", "ra")], None), ("T", "]")],
      "t1": [("W", "if", [("T", " "), ("E", "t0"), ("T", " ")]), ("B", "a", False, [("T", "la")], None)]}, ("direct", "t1"), 30),
    ({"t0": [("T", "["), ("B", "a", False, [("T", " ")], None), ("T", "]")],
      "t1": [("W", "for", [("W", "if", [("E", "t0")])]), ("T", "x")]}, ("wrap", [(False, "t1"), (True, "t1")]), 30),
    ({"t0": [("T", "["), ("B", "a", False, [("T", "ra")], None), ("T", "]")],
      "t1": [("B", "c", False, [("Q", 0), ("E", "t0")], None), ("B", "a", False, [("T", "la")], None)]}, ("direct", "t1"), 30),
]


def nontrivial(tpls: dict[str, list], entry: tuple) -> bool:
    """The inheritance mechanism ran: some template with an extends tag was
    entered and at least one block name is defined by two chain members, or
    the chain was rejected/ran into a cycle (decided from the abstract case)."""
    names = [entry[1]] if entry[0] == "direct" else [n for _, n in entry[1]]
    for n in names:
        t = tpls.get(n)
        seen: list[str] = []
        count: dict[str, int] = {}
        while t is not None:
            exts = [it[1] for it in _walk(t) if it[0] == "E"]
            for it in _walk(t):
                if it[0] == "B":
                    count[it[1]] = count.get(it[1], 0) + 1
            if not exts:
                break
            if exts[0] in seen:
                return True
            seen.append(exts[0])
            t = tpls.get(exts[0])
        if seen and any(c > 1 for c in count.values()):
            return True
    return False


# ---------------------------------------------------------------- main


_in_worker = False


def _mark_worker() -> None:
    global _in_worker
    _in_worker = True


def _observe_chunk(chunk: list[tuple[dict, tuple, int]]) -> list[list[tuple]]:
    """Worker: render every case 4 times (and, when CPython's recursion limit
    is hit at a limit > 10, once more at context_depth_limit = 8)."""
    warnings.simplefilter("ignore")
    if _in_worker:
        import resource
        resource.setrlimit(resource.RLIMIT_AS, (WORKER_ADDRESS_SPACE, WORKER_ADDRESS_SPACE))
    run = Runner()
    try:
        out = []
        for case in chunk:
            tpls, entry, limit = case[:3]
            suppress = case[3] if len(case) > 3 else True
            opts = case[4] if len(case) > 4 else None
            o = run.run(tpls, entry, limit, suppress, opts)
            nh = run.n_history
            o8 = run.run(tpls, entry, 8, suppress, opts) if (("err", "RecursionError") in o and limit > 10) else None
            out.append((o, o8, nh))
        return out
    finally:
        run.close()


def observe_all(cases: list[tuple[dict, tuple, int]]) -> list[tuple]:
    """Run the implementation on all cases; a process pool when it pays."""
    if len(cases) < 400:
        return _observe_chunk(cases)
    import multiprocessing as mp
    from concurrent.futures import ProcessPoolExecutor
    n = 400
    chunks = [cases[i:i + n] for i in range(0, len(cases), n)]
    try:
        with ProcessPoolExecutor(max_workers=min(8, C.JOBS), mp_context=mp.get_context("fork"),
                                 initializer=_mark_worker) as ex:
            res = list(ex.map(_observe_chunk, chunks))
    except Exception:  # noqa: BLE001 - pool trouble: fall back to the plain loop
        res = [_observe_chunk(c) for c in chunks]
    return [x for r in res for x in r]


STATEFUL_BASE = ("{% for i in (1..3) %}{% block b %}{% cycle 'a','b' %}{% increment n %}{% endblock %}{% endfor %}|{{ n }}"
                 "{% for i in (1..6) limit: 2 %}{{ i }}{% endfor %}{% block x %}{% for i in (1..6) offset: continue limit: 2 %}"
                 "{{ i }}{% endfor %}{% endblock %}")


STATEFUL_PAGE = "a0b1a2|31234"

# Recorded raw-source witnesses (features outside the abstract templates). Each: (signature, what it
# must do, thunk -> observed, expected).  `fixed` signatures are violations when they regress; the one
# `known` signature prints KNOWN-FINDING while the defect is there.
PARENTLOOP_BASE = ("{% for row in (1..2) %}{% block cells %}{% for col in (1..2) %}{{ forloop.parentloop.index }}."
                   "{{ forloop.index }} {% endfor %}{% endblock %}{% endfor %}")


def observe_raw() -> dict[str, tuple]:
    """signature -> (observed, expected, description)."""
    from collections.abc import Mapping

    from liquid2 import DictLoader, Environment

    class AsyncDrop(Mapping):  # type: ignore[type-arg]
        def __getitem__(self, k):  # noqa: ANN001, ANN204
            return "SYNC-" + k

        async def __getitem_async__(self, k):  # noqa: ANN001, ANN204
            return "ASYNC-" + k

        def __len__(self) -> int:
            return 1

        def __iter__(self):  # noqa: ANN204
            return iter(["x"])

    loop = asyncio.new_event_loop()
    out: dict[str, tuple] = {}

    def both(env, name, **kw):  # noqa: ANN001, ANN003, ANN202
        res = []
        for is_async in (False, True):
            try:
                t = env.get_template(name)
                res.append(loop.run_until_complete(t.render_async(**kw)) if is_async else t.render(**kw))
            except Exception as e:  # noqa: BLE001
                res.append(type(e).__name__)
        return tuple(res)
    try:
        env = Environment(loader=DictLoader({"base": PARENTLOOP_BASE, "leaf": "{% extends 'base' %}"}))
        want = ("1.1 1.2 2.1 2.2 ",) * 2
        out["loop-in-a-block-loses-parentloop-through-a-chain"] = (
            (both(env, "base"), both(env, "leaf")), (want, want),
            f"{PARENTLOOP_BASE!r} on its own and through a leaf that overrides nothing")
        env = Environment(loader=DictLoader({"base": "[{% block a %}{{ d.x }}{% endblock %}]", "plain": "{% extends 'base' %}",
                                             "leaf": "{% extends 'base' %}{% block a %}{{ block.super }}{% endblock %}"}))
        d = AsyncDrop()
        out["block-super-renders-the-parent-synchronously-during-render_async"] = (
            (both(env, "plain", d=d), both(env, "leaf", d=d)), (("[SYNC-x]", "[ASYNC-x]"),) * 2,
            "a drop with __getitem_async__ read in a block that is not overridden / reached through block.super (sync, async)")
        res = []
        for src in ("{% block a requierd %}{% endblock %}", "{% block a 42 %}{% endblock %}", "{% block a required %}{% endblock %}"):
            try:
                Environment().from_string(src)
                res.append("parsed")
            except Exception as e:  # noqa: BLE001
                res.append(type(e).__name__)
        out["junk-token-after-a-block-name-is-ignored"] = (
            tuple(res), ("LiquidSyntaxError", "LiquidSyntaxError", "parsed"),
            "{% block a requierd %}, {% block a 42 %}, {% block a required %} at parse time")
        env = Environment(loader=DictLoader({"page": "{% block a %}1{% endblock %}{% block a %}2{% endblock %}",
                                             "wrap": "{% include 'page' %}{% render 'page' %}"}))
        out["duplicate-block-names-accepted-without-a-chain"] = (
            (both(env, "page"), both(env, "wrap")), (("TemplateInheritanceError",) * 2,) * 2,
            "a template that defines block a twice, rendered directly and through include / render (no extends anywhere)")
    finally:
        loop.close()
    return out


def observe_stateful() -> tuple | None:
    """(pages of the base on its own, pages through a leaf that extends it), each sync and async."""
    from liquid2 import DictLoader, Environment
    loop = asyncio.new_event_loop()
    try:
        out = []
        for name in ("base", "leaf"):
            env = Environment(loader=DictLoader({"base": STATEFUL_BASE, "leaf": "{% extends 'base' %}"}))
            try:
                out.append((env.get_template(name).render(), loop.run_until_complete(env.get_template(name).render_async())))
            except Exception as e:  # noqa: BLE001
                out.append((type(e).__name__,) * 2)
        return out[0], out[1]
    finally:
        loop.close()


def expected_by_spec(tpls: dict, names: list[str], suppress: bool = True) -> tuple | None:
    parts = [pyspec(tpls, n, 0, suppress) for n in names]
    if any(p is None for p in parts):
        return None
    exp: tuple = ("ok", "")
    for p in parts:
        if p[0] == "err":
            return p
        exp = ("ok", exp[1] + p[1])
    return exp


def main(chk: C.Check, build: C.Build) -> None:
    warnings.simplefilter("ignore")
    proofs_ok = C.proof_stage(chk, build, NEEDED)
    thorough = chk.tier == "thorough"
    r = C.rng("c08")

    # recorded witness of the fixed finding (6f30153): stateful tags inside a block continue the page's
    # state when the block is rendered through a chain.  Raw Liquid source (stateful tags are outside the
    # Coq model): the base on its own and through a leaf that overrides nothing must give the same,
    # continuing, page.
    stateful = observe_stateful()
    if stateful is not None:
        direct, through = stateful
        want = (STATEFUL_PAGE, STATEFUL_PAGE)
        if direct != want or through != want:
            # fixed by 6f30153: listed as `fixed`, which suppresses nothing - a regression is a violation
            chk.finding("stateful-tags-in-a-block-lose-their-state-through-a-chain",
                        f"base {STATEFUL_BASE!r} must render {STATEFUL_PAGE!r} on its own and through {{% extends %}} from a "
                        f"leaf that overrides nothing (sync, async); it renders {direct} on its own and {through} through the chain",
                        {"base": STATEFUL_BASE, "expected": STATEFUL_PAGE, "direct": direct, "through_extends": through})

    for sig, (got, want_, what) in observe_raw().items():
        if got != want_:
            chk.finding(sig, f"{what}: expected {want_}, observed {got}", {"expected": want_, "observed": got})

    cases: list[tuple] = (list(CORPUS) + [c + (False,) for c in CORPUS[:12]] + BLANK_CORPUS
                          + [c + (False,) for c in BLANK_CORPUS] + deep_cases() + [W30, WREC])
    n_fixed = len(cases)
    fam_counts: dict[str, Any] = {}
    #        names, depth, fraction in thorough, fraction in quick
    plan = [(1, 2, 1.0, 0.25), (1, 3, 1.0, 0.25), (1, 4, 1.0, 0.1), (2, 2, 1.0, 0.1),
            (2, 3, 1.0, 0.009), (3, 2, 0.04, 0.009),
            (2, 4, 0.001, 0.0003), (3, 3, 0.00017, 0.00005), (3, 4, 0.0000009, 0.00000025)]
    for k, d, f_th, f_q in plan:
        shapes = fam_shapes(k)
        total = len(shapes) ** d
        p = f_th if thorough else f_q
        n = 0
        if total <= 2_000_000:
            for c in fam_cases(k, d):
                if p >= 1.0 or r.random() < p:
                    cases.append(c)
                    n += 1
        else:
            names = BNAMES[:k]
            for _ in range(int(total * p)):
                combo = [r.choice(shapes) for _ in range(d)]
                cases.append(({f"t{i}": fam_template(i, names, st, pt) for i, (st, pt) in enumerate(combo)},
                              ("direct", f"t{d - 1}"), 30))
                n += 1
        fam_counts[f"names={k},depth={d}"] = {"space": total, "run": n, "complete": p >= 1.0}
    # the blank family: empty / whitespace / silent bodies, nested required blocks, if / for wrappers
    bl_plan = [(1, 2, 1.0, 0.25), (1, 3, 1.0, 0.03), (2, 2, 1.0, 0.02),
               (1, 4, 0.02, 0.002), (2, 3, 0.0004, 0.00006), (3, 2, 0.0008, 0.0001)]
    for k, d, f_th, f_q in bl_plan:
        shapes = bl_shapes(k)
        total = len(shapes) ** d
        p = f_th if thorough else f_q
        n = 0
        if total <= 100_000:
            for c in bl_cases(k, d):
                if p >= 1.0 or r.random() < p:
                    cases.append(c + (r.random() < 0.8,))
                    n += 1
        else:
            names = BNAMES[:k]
            for _ in range(int(total * p)):
                combo = [r.choice(shapes) for _ in range(d)]
                cases.append(({f"t{i}": bl_template(i, names, st, pt) for i, (st, pt) in enumerate(combo)},
                              ("direct", f"t{d - 1}"), 30, r.random() < 0.8))
                n += 1
        fam_counts[f"blank family names={k},depth={d}"] = {"space": total, "run": n, "complete": p >= 1.0}
    # the family entered through include / render (sample)
    fam_wrapped = 0
    for c in cases[n_fixed:]:
        tpls, entry, limit = c[:3]
        if r.random() < 0.03 and len(tpls) > 1:
            cases.append((tpls, ("wrap", [(r.random() < 0.5, entry[1])]), limit, c[3] if len(c) > 3 else True))
            fam_wrapped += 1
    nrand = 300 if not thorough else 3000
    for _ in range(nrand):
        cases.append(rand_case(r, thorough) + (r.random() < 0.75,))
    # configuration axes: markup characters in literal text / in render data with auto-escape on / off;
    # hierarchical template names with a repeated last component (also file-system loaders, from_string)
    n_markup = n_basename = 0
    for c in cases[n_fixed:]:
        x = r.random()
        if x < 0.03:
            cases.append(markupify(c, r.choice(MARKUP_MODES)))
            n_markup += 1
        elif x < 0.055:
            v = same_basename(c, r.randint(0, 1))
            cases.append(markupify(v, r.choice(MARKUP_MODES)) if r.random() < 0.2 else v)
            n_basename += 1
    n_tagloader = 0
    for c in cases[n_fixed:]:
        if len(c) <= 4 and r.random() < (0.025 if not thorough else 0.012):     # the plain chain again, also through the tag-dispatching loaders
            c4 = tuple(c) + ((True,) if len(c) == 3 else ())
            cases.append(c4[:4] + ({"tagloader": True},))
            n_tagloader += 1
    for c in super_chains():
        for mode in MARKUP_MODES:
            cases.append(markupify(c, mode))
            n_markup += 1
    for c in CORPUS[2:9] + BLANK_CORPUS[:3]:
        cases.append(markupify(c, r.choice(MARKUP_MODES)))
        cases.append(same_basename(c, 0))
        cases.append(same_basename(c, 1))
        n_markup += 1
        n_basename += 2
    cases += NAME_CORPUS
    n_basename += len(NAME_CORPUS)
    # blocks nested through container tags (complete in thorough, half of them in quick)
    n_container = 0
    for c in container_cases():
        if thorough or r.random() < 0.3:
            cases.append(c + (r.random() < 0.8,))
            n_container += 1
    cases += CONTAINER_CORPUS
    # loader histories: one ChoiceLoader / CachingChoiceLoader object, the higher-priority delegate changes
    n_choice = 0
    pool = [c for c in cases[n_fixed:] if len(c[0]) > 2 and not (len(c) > 4 and c[4])]
    for c in r.sample(pool, min(len(pool), 60 if not thorough else 700)):
        h = choice_history_case(r, c)
        if h is not None:
            cases.append(h)
            n_choice += 1
    # auto-reload through the tags: a parent / grand-parent is edited on disk between two renders
    n_history = 0
    pool = [c for c in cases[n_fixed:] if len(c[0]) > 1 and not (len(c) > 4 and (c[4].get("before") or c[4].get("choice")))]
    for c in r.sample(pool, min(len(pool), 70 if not thorough else 700)):
        h = edited_history(r, c)
        if h is not None:
            cases.append(h)
            n_history += 1
    cases = [tuple(c) + ((True,) if len(c) == 3 else ()) for c in cases]
    cases = [c + (({},) if len(c) == 4 else ()) for c in cases]

    observed = observe_all(cases)
    interned = Interned(cases)

    items: list[dict[str, Any]] = []
    dist = {"ok": 0, "TemplateInheritanceError": 0, "RequiredBlockError": 0, "TemplateNotFoundError": 0,
            "ContextDepthError": 0, "RecursionError": 0, "other": 0, "oracle_checked": 0, "wrapped": 0,
            "spec_evaluated_in_coq": 0, "retied_at_limit_8": 0, "suppression_off": 0, "auto_escape_on": 0,
            "markup_as_render_data": 0, "file_system_loaders_and_from_string": 0, "tag_dispatching_loaders": 0,
            "blank_body_suppressed": 0}
    nontriv: set[str] = set()

    def agreed(outs: list[tuple], tpls: dict, entry: tuple, limit: int, n_hist: int = 0) -> tuple | None:
        depth_errors = {("err", "ContextDepthError"), ("err", "RecursionError")}
        if set(outs) == depth_errors:
            # the async path uses more Python frames per level: one mechanism, see the RecursionError finding
            return ("err", "RecursionError")
        if n_hist and len(set(outs[n_hist:])) == 1 and set(outs[:n_hist]) != {outs[-1]}:
            chk.finding("oracle:chain-not-rebuilt-after-a-loader-change",
                        f"after a parent changed (edited on disk under the caching auto-reload file-system loader, or a "
                        f"higher-priority delegate of a choice loader answering differently) the later renders through the "
                        f"same loader object gave {outs[:n_hist]}; the chain as it is now renders {outs[-1]}",
                        {"templates": {k: to_src(v) for k, v in tpls.items()}, "entry": entry,
                         "context_depth_limit": limit, "outcomes": outs})
            return None
        if any(o != outs[0] for o in outs):
            chk.finding("oracle:sync-async-or-caching-differ",
                        f"(DictLoader, CachingDictLoader[, FileSystemLoader, CachingFileSystemLoader, from_string][, tag-dispatching loader, "
                        f"caching tag-dispatching loader]) x (sync, async) gave {outs}",
                        {"templates": {k: to_src(v) for k, v in tpls.items()}, "entry": entry,
                         "context_depth_limit": limit, "outcomes": outs})
            return None
        return outs[0]

    for (tpls, entry, limit, suppress, opts), (outs, outs8, n_hist) in zip(cases, observed):
        src = {k: to_src(v) for k, v in tpls.items()}
        for k_, d_ in (("ae", "auto_escape_on"), ("data", "markup_as_render_data"),
                       ("more", "file_system_loaders_and_from_string"), ("tagloader", "tag_dispatching_loaders")):
            if opts.get(k_):
                dist[d_] += 1
        names = [entry[1]] if entry[0] == "direct" else [n for _, n in entry[1]]
        def lone(t: list) -> bool:
            bn = [it[1] for it in _walk(t) if it[0] == "B"]
            return not any(it[0] == "E" for it in _walk(t)) and len(set(bn)) == len(bn)
        guard = all(n in tpls and (starts_with_ext(tpls[n]) or lone(tpls[n])) for n in names)
        o = agreed(outs, tpls, entry, limit, n_hist)
        if o is None:
            continue
        if o == ("err", "RecursionError") and limit > 10:
            # CPython's recursion limit came before context_depth_limit. Recorded mechanism when the
            # page is infinite; the tie is checked at a limit where ContextDepthError comes first.
            sp = expected_by_spec(tpls, names, suppress) if all(n in tpls for n in names) else "n/a"
            chk.finding("recursive-block-structure-RecursionError" if sp is None
                        else "oracle:RecursionError-on-a-finite-page",
                        "RecursionError (not a LiquidError) at context_depth_limit=%d" % limit,
                        {"templates": src, "entry": entry, "context_depth_limit": limit, "specification": sp})
            dist["RecursionError"] += 1
            dist["retied_at_limit_8"] += 1
            limit = 8
            o = agreed(outs8, tpls, entry, limit, n_hist)
            if o is None:
                continue
        key = o[1] if o[0] == "err" else "ok"
        dist[key if key in dist else "other"] += 1
        if entry[0] == "wrap":
            dist["wrapped"] += 1
        if nontrivial(tpls, entry):
            nontriv.add(repr((tpls, entry, limit, suppress)))
        if not suppress:
            dist["suppression_off"] += 1
        elif any(it[0] in ("B", "W") and is_blank(it[3] if it[0] == "B" else it[2])
                 and (it[3] if it[0] == "B" else it[2])
                 for t in tpls.values() for it in _walk(t)):
            dist["blank_body_suppressed"] += 1   # some non-empty blank body exists in the case
        sb = C.cbool(suppress)
        if entry[0] == "direct":
            model = f"render_name {limit} {sb} ld {c_name(entry[1])}"
        else:
            w = C.clist((C.cpair(C.cbool(rr), c_name(n)) for rr, n in entry[1]), "(bool * str)")
            model = f"run_wrapper {limit} {sb} ld {w}"
        ropts = {k: v for k, v in opts.items() if k not in ("before", "choice")}
        if "choice" in opts:
            ch_ = opts["choice"]
            ropts["choice_loader_history"] = {
                "kind": ch_["kind"], "defaults": {k: to_src(v) for k, v in ch_["defaults"].items()},
                "steps": [x if isinstance(x, str) else {k: to_src(v) for k, v in x.items()} for x in ch_["steps"]],
                "themes": {t: {k: to_src(v) for k, v in m.items()} for t, m in ch_.get("themes", {}).items()}}
        replay = {"templates": src, "entry": entry, "context_depth_limit": limit,
                  "suppress_blank_control_flow_blocks": suppress, "options": ropts, "implementation": o}
        if "before" in opts:
            replay["templates_at_the_first_render"] = {k: to_src(v) for k, v in opts["before"].items()}
        checks = [f"outcome_eqb ({model}) e"]
        shown = [model]

        # direct oracle: the specification, on leaves that start with their extends tag
        if guard and o not in (("err", "ContextDepthError"), ("err", "RecursionError")):
            exp = expected_by_spec(tpls, names, suppress)
            dist["oracle_checked"] += 1
            if exp != o:
                chk.finding("oracle:output-differs-from-most-derived-resolution",
                            f"implementation gave {o}, the specification gives {exp if exp else 'no finite page'}",
                            dict(replay, specification=exp))
            if entry[0] == "direct":
                sterm = f"spec_inherit {SPEC_FUEL} {sb} ld {c_name(entry[1])}"
                checks.append(f"outcome_eqb ({sterm}) e")
                shown.append(sterm)
                dist["spec_evaluated_in_coq"] += 1
        head = f"let ld := {interned.loader(tpls)} in let e := {c_outcome(o)} in "
        items.append({"case": "(" + head + " && ".join(checks) + ")",
                      "model": head + "(" + ", ".join(shown) + ")", "replay": replay})

    # known finding 1 (defect 30): text before the leaf's extends tag is emitted
    i30 = cases.index(W30 + (True, {}), n_fixed - 2)
    o = agreed(observed[i30][0], *W30)
    sp = pyspec(W30[0], "t1")
    if o is not None and sp is not None and o != sp:
        if o == ("ok", "L" + sp[1]):
            chk.finding("text-before-extends-emitted",
                        f"leaf {to_src(W30[0]['t1'])!r} over base {to_src(W30[0]['t0'])!r} renders {o[1]!r}; "
                        f"the page with child text outside blocks discarded is {sp[1]!r}",
                        {"templates": {k: to_src(v) for k, v in W30[0].items()}, "implementation": o, "specification": sp})
        else:
            chk.finding("oracle:output-differs-from-most-derived-resolution",
                        f"witness of defect 30 now gives {o}, specification {sp}", {"implementation": o, "specification": sp})
    # known finding 2 is re-observed by the loop above on WREC (and on the family members like it);
    # whatever else that witness does must still be a rejection
    iR = cases.index(WREC + (True, {}), n_fixed - 2)
    o = agreed(observed[iR][0], *WREC)
    if o is not None and o not in (("err", "RecursionError"), ("err", "ContextDepthError")):
        chk.finding("oracle:recursive-structure-not-rejected", f"recursive block structure gave {o}",
                    {"templates": {k: to_src(v) for k, v in WREC[0].items()}, "implementation": o})

    # chains nested through include / render inside another chain: Python specification only
    nested = [WNEST] + nested_cases(r, 200 if not thorough else 2000)
    n_nested_ok = 0
    for (tpls, entry, limit), (outs, _, _) in zip(nested, observe_all(nested)):
        o = agreed(outs, tpls, entry, limit)
        if o is None or o in (("err", "ContextDepthError"), ("err", "RecursionError")):
            continue
        exp = pyspec(tpls, entry[1])
        n_nested_ok += 1
        if exp != o:
            chk.finding("oracle:nested-chain-shares-block-stacks",
                        f"a chain entered through include/render inside another chain: implementation gave {o}, "
                        f"the specification gives {exp if exp else 'no finite page'}",
                        {"templates": {k: to_src(v) for k, v in tpls.items()}, "entry": entry,
                         "implementation": o, "specification": exp})

    # block-bearing templates that do not extend, rendered / called / included from inside a chain that
    # overrides the same block names: render and macro calls isolate the block stacks; include is the
    # recorded finding (the witness WINC is re-observed on every run)
    extras = extra_cases()
    partials = PARTIAL_CORPUS + [WINC] + partial_cases(r, 150 if not thorough else 2000) + extras
    n_partial = {"checked": 0, "render_or_call_only": 0, "include_shared_stacks_observed": 0}
    for (tpls, entry, limit), (outs, _, _) in zip(partials, observe_all(partials)):
        o = agreed(outs, tpls, entry, limit)
        if o is None or o in (("err", "ContextDepthError"), ("err", "RecursionError")):
            continue
        exp = expected_by_spec(tpls, [entry[1]] if entry[0] == "direct" else [n for _, n in entry[1]])
        n_partial["checked"] += 1
        has_include = any(it[0] == "I" for t in tpls.values() for it in _walk(t))
        if "k0" not in tpls:   # capture printed twice / macros / blocks rendered once per loop iteration
            n_partial["containers_and_loops_spec_only"] = n_partial.get("containers_and_loops_spec_only", 0) + 1
            if exp != o:
                chk.finding("oracle:output-differs-from-most-derived-resolution",
                            f"implementation gave {o}, the specification gives {exp if exp else 'no finite page'}",
                            {"templates": {k: to_src(v) for k, v in tpls.items()}, "entry": entry,
                             "implementation": o, "specification": exp})
            continue
        n_partial["render_or_call_only"] += not has_include
        if exp == o:
            continue
        replay = {"templates": {k: to_src(v) for k, v in tpls.items()}, "entry": entry,
                  "implementation": o, "specification": exp}
        alt = pyspec(tpls, entry[1], 0, True, True) if has_include else exp
        if has_include and o == alt:
            n_partial["include_shared_stacks_observed"] += 1
            chk.finding("include-of-block-bearing-partial-shares-block-stacks",
                        f"{to_src(tpls['k0'])!r} included from inside a chain that overrides its block names renders "
                        f"{o}; with the partial's own definitions the page is {exp}",
                        dict(replay, page_if_the_include_resolves_against_the_enclosing_stacks=alt))
        else:
            chk.finding("oracle:block-stacks-cross-an-isolation-boundary" if not has_include
                        else "oracle:included-partial-resolves-to-neither-definition",
                        f"a block-bearing template that does not extend, rendered from inside a chain: implementation "
                        f"gave {o}, its own definitions give {exp}", replay)

    C.correspond(chk, "c08", IMPORTS, DEFS + "\n" + "\n".join(interned.defs), items,
                 what="Inherit.render_name/run_wrapper and spec_inherit", shard=400)
    C.proofs_verdict(chk, proofs_ok)

    step = max(1, len(cases) // 5)
    chk.coverage.update({
        "evaluations": len(items),
        "distinct_nontrivial": len(nontriv),
        "rule": ("bounded-exhaustive family: chains t{d-1} -> ... -> t0 of depth d <= 4 over k <= 3 block names, every template "
                 "independently omitting / defining / defining-with-block.super / defining-as-required each block, the defined blocks "
                 "flat, nested in order, nested in reverse order or (3 blocks) two inside the first; the number run per (k,d) is in "
                 "'families' (thorough: (k,d) in {1}x{2,3,4}, (2,2), (2,3) completely, seeded samples of the rest; quick: seeded "
                 "samples of each); the blank family (per block omitted / visible / empty / whitespace / silent-tag-only / required with an "
                 "empty body; flat, nested both ways or inside an if / for wrapper padded with whitespace; suppression on for ~80%); 3% of "
                 "both again through an include or render wrapper; 3% of all generated chains as markup variants (every visible text gets "
                 "< & and a quote: literal text under auto_escape, render data behind output tags under auto_escape - the page shows it "
                 "escaped exactly once, also through block.super - and render data without auto_escape), plus all 28 chains of depth 2..4 "
                 "whose members all define one block with / without block.super in each of the three modes; 2.5% with hierarchical "
                 "template names that share their last component (t, d/t, d/d/t or x, b/x, a/x, c/a/x), these also through "
                 "FileSystemLoader / CachingFileSystemLoader over a scratch directory and through env.from_string(leaf), with a corpus of "
                 "legal chains and genuine cycles through such names; plus the corpus (suite cases, rejections, required blank blocks "
                 "nested in blank blocks / if / for, "
                 "extends inside blocks, several chains in one render context), chains at the boundaries of both context limits, "
                 "seeded random chains of depth <= 8/12 with cycles, missing parents, duplicates, stray extends, endblock names and "
                 "context_depth_limit in {3..12,30}, entered directly or through include/render wrappers. Every case is rendered "
                 "4 times (sync/async x DictLoader/CachingDictLoader), all four must agree. non-trivial = an extends chain was entered "
                 "and some block name is defined by two members of the chain, or the chain is circular"),
        "samples": [{"templates": {k: to_src(v) for k, v in c[0].items()}, "entry": c[1], "limit": c[2],
                     "implementation": observed[i][0][0]}
                    for i, c in list(enumerate(cases))[::step][:5]],
        "families": fam_counts,
        "family_cases_also_entered_through_include_or_render": fam_wrapped,
        "random_cases": nrand,
        "auto_escape_variants": n_markup,
        "same_basename_variants": n_basename,
        "parent_edited_on_disk_between_renders": n_history,
        "choice_loader_histories": n_choice,
        "also_through_tag_dispatching_loaders": n_tagloader + n_basename,
        "blocks_inside_container_tags": n_container,
        "nested_chain_cases_checked_against_python_specification": n_nested_ok,
        "block_bearing_partials_rendered_inside_a_chain": n_partial,
        "distribution": dist,
        "renders": 4 * len(items),
        "exhaustive": False,
        "tier_proved": "kernel (block stacks, chain walk, block/super rendering with both context limits)",
    })
    chk.assumptions += [
        "templates are abstracted to text (visible or whitespace-only), block tags, {{ block.super }}, extends tags, silent tags "
        "(assign / comment) and {% if true %} / {% for i in (1..1) %} wrappers; whitespace is space and newline; "
        "suppress_blank_control_flow_blocks is a parameter of the model and of the specification",
        "a render starts in a context whose block stacks are empty (top-level render, or include/render from a template that is not itself inheriting)",
        "an extends tag met while a block body is rendered is summarised as ContextDepthError in the model (the code re-enters the chain without bound)",
        "CPython's recursion limit is not modelled: cases that end in RecursionError at the default limit are recorded and tied at context_depth_limit=8",
        "the guard of c08_inherit_resolves_most_derived_partial: the leaf starts with its extends tag (else known finding text-before-extends-emitted)",
    ]
