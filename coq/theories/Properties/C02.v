(** C02 — Parsing and rendering are total over the LiquidError error model:
    the part proved for all inputs is the scanner and the error formatter.
    Only property theorems live here, each closed by [exact] and followed by
    [Print Assumptions].  Model: Kernels/Lex.v, Kernels/ErrCtx.v (the code
    with the fixes of proposed_fixes/C02 and C17 applied). *)
From LQ Require Import Base.Str Kernels.LexUni Kernels.Lex Kernels.ErrCtx
  Proofs.LexMatch_proofs Proofs.Lex_proofs Proofs.ErrCtx_proofs.

(** For every source text: the scanner terminates within [fuel_lex s] =
    2|s| + 8 nested steps and no Python exception (IndexError, AssertionError,
    the bare Exception of ignore_whitespace ...) escapes it. *)
Theorem c02_lex_total : forall sh s,
  lex sh s <> OutOfFuel /\ forall k, lex sh s <> PyExc k.
Proof. exact lex_total. Qed.
Print Assumptions c02_lex_total.

(** The only error the scanner raises is LiquidSyntaxError, at an index in
    [0, |s|] (or without a token). *)
Theorem c02_lex_error_model : forall sh s c i,
  lex sh s = LErr c i ->
  c = LiquidSyntaxError /\
  match i with Some z => (0 <= z <= Z.of_nat (length s))%Z | None => True end.
Proof. exact lex_error_in_source. Qed.
Print Assumptions c02_lex_error_model.

(** [_error_context] — all that [str(exc)], [detailed_message()] and
    [context()] compute from a position — returns for every text and every
    non-negative index (in particular for index = |text|). *)
Theorem c02_error_context_total : forall text index,
  exists r, error_context text index = Ok r.
Proof. exact error_context_total. Qed.
Print Assumptions c02_error_context_total.

(** ... and what it returns is a line that exists and a column on that line. *)
Theorem c02_error_context_position : forall text index ln col prev cur next,
  error_context text index = Ok (ln, col, prev, cur, next) ->
  1 <= ln /\ ln <= Nat.max 1 (length (splitlines text)) /\
  (splitlines text <> [] ->
     exists l, nth_error (splitlines text) (ln - 1) = Some l /\ col <= length l /\ cur = rstrip l).
Proof. exact error_context_position. Qed.
Print Assumptions c02_error_context_position.

(** [messages.line_number] (unchanged code) still raises ValueError for a
    position at or after the end of the text; C17 shows token positions are
    strictly inside. *)
Theorem c02_line_number_raises_only_at_end : forall text index,
  length text <= index -> line_number text index = PyExc ValueError.
Proof. exact line_number_end. Qed.
Print Assumptions c02_line_number_raises_only_at_end.
