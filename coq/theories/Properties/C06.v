(** C06 — Configured resource limits are hard bounds.
    Only property theorems live here, each closed by [exact] and followed by
    [Print Assumptions].  Models: Kernels/Buffer.v, Kernels/Limits.v. *)
From LQ Require Import Base.Str Kernels.Buffer Kernels.Limits
  Proofs.Buffer_proofs Proofs.Limits_proofs.
Local Open Scope N_scope.

(** ** Output stream limit (LimitedStringIO, get_output_buffer, NullIO) *)

(** [size] of a LimitedStringIO is the number of UTF-8 bytes of everything
    that was passed to [write], for every sequence of writes, every limit and
    either newline mode. *)
Theorem c06_limited_size_is_bytes : forall lim nl ss,
  limited_size (snd (writes (Limited lim 0 nl []) ss)) = Some (utf8_len (concat ss)).
Proof. exact limited_size_is_bytes. Qed.
Print Assumptions c06_limited_size_is_bytes.

(** While no write has raised, the buffer holds exactly what was written and
    [size] is the number of bytes of [getvalue()]. *)
Theorem c06_size_is_getvalue_bytes : forall lim ss rs b,
  writes (Limited lim 0 NlKeep []) ss = (rs, b) -> all_ok rs = true ->
  getvalue b = concat ss /\ limited_size b = Some (utf8_len (getvalue b)).
Proof. exact limited_size_is_getvalue_bytes. Qed.
Print Assumptions c06_size_is_getvalue_bytes.

(** A write raises OutputStreamLimitError exactly when the text is not empty
    and (bytes so far + bytes of the text) exceed the limit: [>] not [>=], bytes
    not characters. *)
Theorem c06_write_raises_iff : forall lim sz nl c s,
  fst (write (Limited lim sz nl c) s) = LErr OutputStreamLimitError None
  <-> (s <> [] /\ (lim < Z.of_N (sz + utf8_len s))%Z).
Proof. exact write_raises_iff. Qed.
Print Assumptions c06_write_raises_iff.

(** [over_limit_fails]: a write that does not succeed raises
    OutputStreamLimitError, and after it the buffer accepts no further text. *)
Theorem c06_over_limit_fails : forall lim sz nl c ss1 s ss2,
  let b1 := snd (writes (Limited lim sz nl c) ss1) in
  fst (write b1 s) <> Ok tt ->
  fst (write b1 s) = LErr OutputStreamLimitError None
  /\ Forall2 (fun t r => t = [] \/ r = LErr OutputStreamLimitError None)
       ss2 (fst (writes (snd (write b1 s)) ss2)).
Proof. exact over_limit_fails. Qed.
Print Assumptions c06_over_limit_fails.

(** [output_le_limit]: whatever a render does with its buffers (text, capture
    and block.super child buffers, blank blocks), if it does not raise, the
    output it returns has at most [L] bytes. *)
Theorem c06_output_le_limit : forall (L : N) ops s,
  brender (Some L) (binit (Some L)) ops = Ok s ->
  utf8_len (output s) <= L.
Proof. exact output_le_limit. Qed.
Print Assumptions c06_output_le_limit.

(** ... and so does every buffer that is live at that moment (capture and
    block.super buffers). *)
Theorem c06_every_buffer_le_limit : forall (L : N) ops s b,
  brender (Some L) (binit (Some L)) ops = Ok s ->
  In b (top s :: below s) -> utf8_len (getvalue b) <= L.
Proof. exact every_buffer_le_limit. Qed.
Print Assumptions c06_every_buffer_le_limit.

(** The carry: while text is written to a child buffer, the child and the
    buffer it was opened on (the [k]-th below it) together never hold more than
    [L] bytes. *)
Theorem c06_child_plus_parent_le_limit : forall (L : N) ops k ss s p,
  brender (Some L) (binit (Some L)) (ops ++ OpenChild k :: map Write ss) = Ok s ->
  nth_error (below s) k = Some p ->
  utf8_len (getvalue (top s)) + utf8_len (getvalue p) <= L.
Proof. exact child_plus_parent_le_limit. Qed.
Print Assumptions c06_child_plus_parent_le_limit.

(** A render whose unrestricted output exceeds the limit always fails, with
    OutputStreamLimitError. *)
Theorem c06_over_limit_render_fails : forall (L : N) ops u,
  brender None (binit None) ops = Ok u ->
  L < utf8_len (output u) ->
  brender (Some L) (binit (Some L)) ops = LErr OutputStreamLimitError None.
Proof. exact over_limit_render_fails. Qed.
Print Assumptions c06_over_limit_render_fails.

(** [limit_transparent]: an output limit that is not exceeded changes nothing:
    same output, same captured values as without a limit. (True for the
    repaired LimitedStringIO only: see the next theorem.) *)
Theorem c06_limit_transparent : forall (L : N) ops s,
  brender (Some L) (binit (Some L)) ops = Ok s ->
  exists u, brender None (binit None) ops = Ok u
            /\ output u = output s /\ closed u = closed s.
Proof. exact limit_transparent. Qed.
Print Assumptions c06_limit_transparent.

(** Why the fix of defect 10 was needed: a LimitedStringIO opened with
    newline=None (the old default) changes the text it is given. *)
Theorem c06_newline_none_changes_text : exists s b,
  write (Limited 100 0 NlNone []) s = (Ok tt, b) /\ getvalue b <> s.
Proof. exact newline_none_changes_text. Qed.
Print Assumptions c06_newline_none_changes_text.

(** ** Loop iteration limit (raise_for_loop_limit, loop, carry_loop, copy) *)

(** [loop_nest_bounded], full statement: REFUTED by the model of the code as it
    is. A parent block rendered through [{{ block.super }}] inside a tablerow /
    include-for / render-for of the overriding block (a loop that is counted in
    the carry of the block's context) is not multiplied with that loop: 25
    iterations under limit 10 (known finding block-super-loop-escape; witness
    replayed on the implementation by the harness). *)
Theorem c06_loop_nest_bounded_refuted : exists c L ops s,
  active (loop_limit c) = Some L /\ Forall (fun o => o <> EnterCopy false false) ops /\
  render c init ops = Ok s /\ L < nest_product ops.
Proof. exact loop_nest_bounded_refuted. Qed.
Print Assumptions c06_loop_nest_bounded_refuted.

(** A plain [for] around [{{ block.super }}] is counted: the block-scoped copy
    continues the loop list of the outer context (since /repo e5160a7). *)
Theorem c06_super_inside_for_is_counted :
  render {| depth_limit := 30; loop_limit := Some 10; ns_limit := None |} init
    [Extend; EnterCopy true true; EnterFor 5; EnterSuper 0; EnterFor 5]
  = LErr LoopIterationLimitError None.
Proof. exact super_inside_for_is_counted. Qed.
Print Assumptions c06_super_inside_for_is_counted.

(** [loop_nest_bounded_partial], under the exact guard that excludes it
    ([counted]: no EnterSuper; every copy carries the loop count, as all call
    sites do): in every state a render reaches, the product of the lengths of
    all loops that are running — for, tablerow, include-for, render-for, in this
    template or in any template, macro or block that (transitively) rendered
    it — is at most the limit (or no loop is running: a limit of 0 admits only
    loops of length 0).  [enclosing_loops] / [nest_product] are read off the
    operation sequence alone. *)
Theorem c06_loop_nest_bounded_partial : forall c L ops s,
  active (loop_limit c) = Some L -> Forall counted ops ->
  render c init ops = Ok s ->
  enclosing_loops ops = [] \/ nest_product ops <= L.
Proof. exact loop_nest_bounded_partial. Qed.
Print Assumptions c06_loop_nest_bounded_partial.

(** ... and a loop of any kind whose length would take that product over the
    limit is refused with LoopIterationLimitError at the step that enters it. *)
Theorem c06_loop_over_limit_raises : forall c L ops s n,
  active (loop_limit c) = Some L -> Forall counted ops ->
  render c init ops = Ok s ->
  L < n * nest_product ops ->
  fst (step c s (EnterFor n)) = LErr LoopIterationLimitError None
  /\ fst (step c s (EnterCarry n)) = LErr LoopIterationLimitError None
  /\ fst (step c s (CheckLoop n)) = LErr LoopIterationLimitError None.
Proof. exact loop_over_limit_raises. Qed.
Print Assumptions c06_loop_over_limit_raises.

(** ... while a loop that keeps the product within the limit is not refused
    by the loop limit ([>] not [>=]). *)
Theorem c06_loop_within_limit_passes : forall c L ops s n,
  active (loop_limit c) = Some L -> Forall counted ops ->
  render c init ops = Ok s ->
  n * nest_product ops <= L ->
  raise_for_loop_limit c (cur s) (cur_loops s) n = Ok tt.
Proof. exact loop_within_limit_passes. Qed.
Print Assumptions c06_loop_within_limit_passes.

(** A refused step leaves no trace: no stale loop-stack entry, scope or
    context (defect 23); a refused [assign] keeps its binding. *)
Theorem c06_failed_step_keeps_state : forall c s o r s',
  step c s o = (r, s') -> r <> Ok tt ->
  match o with
  | Assign k sz => s' = with_cur s (set_locals (cur s) (dict_set k sz (locals (cur s))))
  | _ => s' = s
  end.
Proof. exact failed_step_keeps_state. Qed.
Print Assumptions c06_failed_step_keeps_state.

(** ** Context depth limit (extend, copy) and termination *)

(** [depth_bounded]: the copy depth of the current context is the number of
    contexts it was copied from and at most limit+1; its scope chain has between
    4 and max(4, limit+1) maps. *)
Theorem c06_depth_bounded : forall c ops s,
  Forall plain ops -> render c init ops = Ok s ->
  depth (cur s) = N.of_nat (length (parents s))
  /\ depth (cur s) <= depth_limit c + 1
  /\ 4 <= scope (cur s) <= N.max 4 (depth_limit c + 1).
Proof. exact depth_bounded. Qed.
Print Assumptions c06_depth_bounded.

(** Copy depth strictly increases along render / call / block edges. *)
Theorem c06_copy_increases_depth : forall c s cl bs s',
  step c s (EnterCopy cl bs) = (Ok tt, s') ->
  depth (cur s') = depth (cur s) + 1 /\ depth (cur s) <= depth_limit c
  /\ parents s' = cur s :: parents s.
Proof. exact copy_increases_depth. Qed.
Print Assumptions c06_copy_increases_depth.

(** Past the limit, extend() and copy() raise ContextDepthError ... *)
Theorem c06_depth_limit_raises : forall c s,
  (depth_limit c < scope (cur s) ->
     fst (step c s Extend) = LErr ContextDepthError None)
  /\ (depth_limit c < depth (cur s) ->
     forall cl bs, fst (step c s (EnterCopy cl bs)) = LErr ContextDepthError None).
Proof. exact depth_limit_raises. Qed.
Print Assumptions c06_depth_limit_raises.

(** ... also when block.super extends the context of the block tag; leaving the
    parent block restores the suspended contexts exactly. *)
Theorem c06_super_depth_limit_raises : forall c s k t,
  nth_error (parents s) k = Some t -> depth_limit c < scope t ->
  fst (step c s (EnterSuper k)) = LErr ContextDepthError None.
Proof. exact super_depth_limit_raises. Qed.
Print Assumptions c06_super_depth_limit_raises.

Theorem c06_super_exit_restores : forall c s k s1,
  step c s (EnterSuper k) = (Ok tt, s1) ->
  (k < length (parents s))%nat /\
  exists s2, step c s1 Exit = (Ok tt, s2) /\ s2 = s.
Proof. exact super_exit_restores. Qed.
Print Assumptions c06_super_exit_restores.

(** The number of open extend / loop / copy blocks — the recursion depth
    through include, render, call, block, with, for — is bounded by
    (limit+2)^2, in every state a render reaches. *)
Theorem c06_descent_bounded : forall c ops s,
  Forall plain ops -> render c init ops = Ok s ->
  (depth_open (opened s) <= depth_bound c)%nat.
Proof. exact descent_bounded. Qed.
Print Assumptions c06_descent_bounded.

(** [recursion_terminates]: for EVERY table of templates / macros / blocks (any
    include / render / call / extends graph, cycles included) and every
    program, fuel (limit+2)^2 + 1 — spent only on the edges of that graph — is
    enough: the render ends in success or in ContextDepthError,
    LoopIterationLimitError, LocalNamespaceLimitError or TemplateNotFoundError;
    never in a non-Liquid exception and never out of fuel. *)
Theorem c06_recursion_terminates : forall c env l,
  fine (exec (S (depth_bound c)) c env l init).
Proof. exact recursion_terminates. Qed.
Print Assumptions c06_recursion_terminates.

(** A successful render leaves the root context with nothing open. *)
Theorem c06_exec_balanced : forall c env fuel l s,
  exec fuel c env l init = Ok s -> opened s = [] /\ parents s = [] /\ scope (cur s) = 4.
Proof. exact exec_balanced. Qed.
Print Assumptions c06_exec_balanced.

(** Following [extends] through any finite loader ends within (number of
    templates + 1) steps: base template, TemplateInheritanceError or
    TemplateNotFoundError. *)
Theorem c06_inheritance_terminates : forall (ld : loader) t,
  inh_fine (build_block_stacks (S (length ld)) ld [] t).
Proof. exact inheritance_terminates. Qed.
Print Assumptions c06_inheritance_terminates.

(** ** Local namespace limit (assign, get_size_of_locals, copy) *)

(** [locals_le_limit], full statement: REFUTED. Local variables assigned by a
    parent block rendered through block.super go to the outer context while the
    overriding block's context still carries the old total: 140 bytes under
    limit 100 (known finding block-super-namespace-escape). *)
Theorem c06_locals_le_limit_refuted : exists c l ops s,
  active (ns_limit c) = Some l /\ render c init ops = Ok s /\ l < all_locals_size s.
Proof. exact locals_le_limit_refuted. Qed.
Print Assumptions c06_locals_le_limit_refuted.

(** [locals_le_limit_partial] (guard [plain]: no EnterSuper): in every state a
    render reaches, the sizes of the local variables of the current context and
    of every context it was copied from add up to at most the limit, and that
    sum is what the next assign is tested against. *)
Theorem c06_locals_le_limit_partial : forall c l ops s,
  active (ns_limit c) = Some l -> Forall plain ops ->
  render c init ops = Ok s ->
  all_locals_size s <= l /\ size_of_locals c (cur s) = all_locals_size s.
Proof. exact locals_le_limit_partial. Qed.
Print Assumptions c06_locals_le_limit_partial.

Theorem c06_assign_over_limit_raises : forall c l ops s k sz,
  active (ns_limit c) = Some l -> Forall plain ops ->
  render c init ops = Ok s ->
  l < all_locals_size (with_cur s (set_locals (cur s) (dict_set k sz (locals (cur s))))) ->
  fst (step c s (Assign k sz)) = LErr LocalNamespaceLimitError None.
Proof. exact assign_over_limit_raises. Qed.
Print Assumptions c06_assign_over_limit_raises.

(** ** Limits that are not exceeded are invisible *)

(** [unexceeded_limits_invisible]: a render that stays within its limits does
    the same under any larger limits, or with the loop and namespace limits
    off: the same operations succeed and leave the same contexts, loop stacks,
    scopes and local variables ([erase] forgets only [local_namespace_carry],
    the limit's own bookkeeping). *)
Theorem c06_unexceeded_limits_invisible : forall c c' ops s,
  relaxed c c' -> Forall plain ops -> render c init ops = Ok s ->
  exists s', render c' init ops = Ok s' /\ erase s' = erase s.
Proof. exact unexceeded_limits_invisible. Qed.
Print Assumptions c06_unexceeded_limits_invisible.
