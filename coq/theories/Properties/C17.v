(** C17 — Tokens tile the source and every reported position lies inside it.
    Only property theorems live here, each closed by [exact] and followed by
    [Print Assumptions].  Model: Kernels/Lex.v (the lexer with the fixes of
    proposed_fixes/C17 and C02 applied), Kernels/LexUni.v. *)
From LQ Require Import Base.Str Kernels.LexUni Kernels.Lex Kernels.ErrCtx
  Proofs.LexMatch_proofs Proofs.Lex_proofs Proofs.LexNest_proofs Proofs.LexText_proofs
  Proofs.ErrCtx_proofs.

(** For every source text and either setting of [shorthand_indexes]: the markup
    tokens cover the source exactly — the first starts at 0, each starts where
    the previous one stopped, none is empty, the last stops at |s|. *)
Theorem c17_tokens_tile : forall sh s toks,
  lex sh s = Ok toks -> tiled toks 0 (length s).
Proof. exact tokens_tile. Qed.
Print Assumptions c17_tokens_tile.

(** [tiled] in words (1): every token span is non-empty and inside [a, b]. *)
Theorem c17_tiled_bounds : forall l a b,
  tiled l a b ->
  a <= b /\ Forall (fun m => a <= mtok_start m /\ mtok_start m < mtok_stop m /\ mtok_stop m <= b) l.
Proof. exact tiled_bounds. Qed.
Print Assumptions c17_tiled_bounds.

(** (2): consecutive tokens are adjacent. *)
Theorem c17_tiled_adjacent : forall l a b i m1 m2,
  tiled l a b -> nth_error l i = Some m1 -> nth_error l (S i) = Some m2 ->
  mtok_stop m1 = mtok_start m2.
Proof. exact tiled_adjacent. Qed.
Print Assumptions c17_tiled_adjacent.

(** (3), (4): the first token starts at [a], the last one stops at [b]. *)
Theorem c17_tiled_first : forall l a b m,
  tiled l a b -> hd_error l = Some m -> mtok_start m = a.
Proof. exact tiled_first. Qed.
Print Assumptions c17_tiled_first.

Theorem c17_tiled_last : forall l a b m, tiled (l ++ [m]) a b -> mtok_stop m = b.
Proof. exact tiled_last. Qed.
Print Assumptions c17_tiled_last.

(** For every source text: each markup token is well placed ([mtok_ok],
    Kernels/Lex.v) — a content token's text is the source text of its span;
    raw and comment text is a slice strictly inside the span; [{{]/[}}],
    [{%]/[%}], [{#..]/[..#}] delimiters sit at the two ends of the span; a
    tag's name is a slice after the opening delimiter; and the expression
    tokens (for a liquid tag: the line statements, each with its expression)
    are nested strictly between the delimiters, in order ([chain], [lines_ok]). *)
Theorem c17_token_text_eq : forall sh s toks,
  lex sh s = Ok toks -> Forall (mtok_ok s) toks.
Proof. exact tokens_ok. Qed.
Print Assumptions c17_token_text_eq.

(** [chain] in words: expression tokens lie inside [lo, hi], none ends before
    it starts, each is itself well placed ([tok_ok]: a plain token spells the
    source text of its span; path segments, template-string parts, [${}]
    sub-expressions and range bounds are chained inside their parent) ... *)
Theorem c17_expression_tokens_nested : forall s lo l hi,
  chain s lo l hi ->
  Forall (fun e => (lo <= zstart e /\ zstart e <= etok_stop e /\ etok_stop e <= hi)%Z /\ tok_ok s e) l.
Proof. exact chain_bounds. Qed.
Print Assumptions c17_expression_tokens_nested.

(** ... and consecutive tokens are in order. *)
Theorem c17_expression_tokens_in_order : forall s lo l hi i e1 e2,
  chain s lo l hi -> nth_error l i = Some e1 -> nth_error l (S i) = Some e2 ->
  (etok_stop e1 <= zstart e2)%Z.
Proof. exact chain_adjacent. Qed.
Print Assumptions c17_expression_tokens_in_order.

(** A path token spans exactly the text [accept_path] scanned: it starts where
    the scan started and stops where the scanner stopped — after dotted names,
    bracketed segments, nested paths and (fix C17/0005) a trailing shorthand
    index alike. ([carry]: the first word was already consumed by accept_token;
    otherwise the scan starts at an opening bracket.) *)
Theorem c17_path_token_span_exact : forall sh s f t carry t' tok,
  le_L s t -> (carry = false -> sane s t /\ peek_at s (pos t) = Some 91%N) ->
  accept_path sh s f t carry = Ok (t', tok) ->
  etok_start tok = start t /\ etok_stop tok = Z.of_nat (pos t').
Proof. exact accept_path_span_exact. Qed.
Print Assumptions c17_path_token_span_exact.

(** The position carried by a lexer error lies in [0, |s|] — |s| itself only
    for an error detected at end of input (what the fixed code guarantees: the
    formatter accepts that position, see C02). *)
Theorem c17_error_position_in_source : forall sh s c i,
  lex sh s = LErr c i ->
  c = LiquidSyntaxError /\
  match i with Some z => (0 <= z <= Z.of_nat (length s))%Z | None => True end.
Proof. exact lex_error_in_source. Qed.
Print Assumptions c17_error_position_in_source.

(** Line numbers of real token positions are defined ([messages.line_number]). *)
Theorem c17_line_number_defined : forall text index,
  index < length text ->
  exists n, line_number text index = Ok n /\ 1 <= n <= length (splitlines text).
Proof. exact line_number_total. Qed.
Print Assumptions c17_line_number_defined.
