(** C15 — Message extraction covers every catalog lookup a render can make.
    Only property theorems live here, each closed by [exact] and followed by
    [Print Assumptions].  Model: Kernels/Translate.v, Kernels/ExtractI18n.v
    (the code as fixed by /verif/proposed_fixes/C15). *)
From LQ Require Import Base.Str Kernels.Translate Kernels.ExtractI18n
  Proofs.Translate_proofs Proofs.ExtractI18n_proofs Proofs.ExtractI18n_cross.
From LQ Require Kernels.LexUni.

(** Coverage.  The full statement — EVERY catalog call of a render is reported
    by extraction with the same family, ids, plural, context and line — is
    refuted by the faithful model: a message context or plural operand that is
    not a string literal is looked up with its run-time value while extraction
    reports another family or nothing (known findings
    translate-nonliteral-context, filter-nonliteral-operand). *)
Theorem c15_extraction_covers_lookups_refuted :
  uncovered nonliteral_context_template /\ uncovered nonliteral_plural_template.
Proof. exact extraction_covers_lookups_refuted. Qed.
Print Assumptions c15_extraction_covers_lookups_refuted.

(** What holds, under the exact guard [tc_lit]: for every template of the
    abstract syntax, all caller data and every [int(str)] function, each
    catalog call [tc] that a render makes on behalf of a translate tag whose
    context is a string literal or absent, or of a translation filter applied
    to string literals, is reported by [extract_from_template] as a tuple with
    the same function family, message id, plural and context ([m] is the
    call's message: [mtext_of_call]) and with the line number of the
    originating tag / expression.  [count] is never restricted. *)
Theorem c15_extraction_covers_lookups_partial :
  forall (pyint : str -> option Z) (d : data) t ms tc m,
  extract t = Ok ms ->
  In tc (fst (render pyint d t)) ->
  tc_lit tc = true ->
  mtext_of_call (tc_call tc) = Some m ->
  exists l cs,
    line_number (t_source t) (tc_pos tc) = Ok l /\
    In {| mt_line := l; mt_msg := m; mt_comments := cs |} ms.
Proof. exact extraction_covers_lookups. Qed.
Print Assumptions c15_extraction_covers_lookups_partial.

(** The mechanism behind it, per filter: what [__call__] asks the catalog for
    a literal operand is what [message()] reports ... *)
Theorem c15_filter_call_is_reported_message :
  forall (pyint : str -> option Z) (d : data) s f c,
  apply_filter pyint d (Some s) f = Ok (Some c) ->
  operands_literal f = true ->
  exists m, filter_message f (PStr s) = Some m /\ mtext_of_call c = Some m.
Proof. exact apply_filter_literal. Qed.
Print Assumptions c15_filter_call_is_reported_message.

(** ... and per translate tag: [gettext()] asks for what [messages()] reports,
    whatever the value of [count]. *)
Theorem c15_translate_call_is_reported_message :
  forall (pyint : str -> option Z) (d : data) args sing plural c,
  tr_call pyint d args sing plural = Ok c ->
  tr_literal args = true ->
  (mb_parts sing <> [] \/ plural <> None) ->
  exists m, tr_messages args sing plural = Some m /\ mtext_of_call c = Some m.
Proof. exact tr_call_literal. Qed.
Print Assumptions c15_translate_call_is_reported_message.

(** An empty translate tag makes no lookup and nothing is extracted for it, so
    no guard on the message id is needed. *)
Theorem c15_empty_tag_makes_no_lookup :
  fst (render (fun _ => None) [] empty_block_template) = []
  /\ extract empty_block_template = Ok [].
Proof. exact empty_tag_makes_no_lookup. Qed.
Print Assumptions c15_empty_tag_makes_no_lookup.

(** Translator comments.  Split the visit of a template at any message: the
    tuples after it are those of the remaining events run from an EMPTY comment
    state (nothing seen before a message can attach to a later one); the
    message itself carries no comment, or exactly the last translator comment
    seen before it, with no message and no other translator comment in
    between, and at most one line above it. *)
Theorem c15_comments_attach_to_next_message_only :
  forall t pre pos m post ms,
    template_events t = pre ++ EvMsg pos m :: post ->
    extract t = Ok ms ->
    exists ms1 l cs ms2,
      run_events (t_source t) pre [] = Ok ms1 /\
      line_number (t_source t) pos = Ok l /\
      run_events (t_source t) post [] = Ok ms2 /\
      ms = ms1 ++ {| mt_line := l; mt_msg := m; mt_comments := cs |} :: ms2 /\
      (cs = [] \/
       exists pre1 cpos raw mid cl,
         pre = pre1 ++ EvComment cpos raw :: mid /\
         quiet mid = true /\
         is_translator_comment raw = true /\
         line_number (t_source t) cpos = Ok cl /\
         (Z.of_N l - 1 <= Z.of_N cl)%Z /\
         cs = [strip raw]).
Proof. exact comments_attach_to_next_message_only. Qed.
Print Assumptions c15_comments_attach_to_next_message_only.

Theorem c15_at_most_one_comment_per_message : forall t ms,
  extract t = Ok ms ->
  Forall (fun mt => (length (mt_comments mt) <= 1)%nat) ms.
Proof. exact at_most_one_comment_per_message. Qed.
Print Assumptions c15_at_most_one_comment_per_message.

(** Totality: extraction yields a list of tuples — never a Python exception —
    for every template whose token offsets lie inside its source (what a
    successful parse provides), and for the empty template. *)
Theorem c15_extraction_total : forall t,
  positions_in_source t -> exists ms, extract t = Ok ms.
Proof. exact extraction_total. Qed.
Print Assumptions c15_extraction_total.

Theorem c15_extraction_total_empty : forall src,
  extract {| t_source := src; t_nodes := NNil |} = Ok [].
Proof. exact extraction_total_empty. Qed.
Print Assumptions c15_extraction_total_empty.

(** Line numbers are total on offsets inside the source and 1-based. *)
Theorem c15_line_number_total : forall src pos,
  (pos < N.of_nat (length src))%N ->
  exists l, line_number src pos = Ok l /\ (1 <= l)%N.
Proof. exact line_number_total. Qed.
Print Assumptions c15_line_number_total.

(** Cross-model: "line" is the engine's convention — the [str.splitlines]
    boundary set — and it is the same set in message extraction and in the
    lexer / error-context kernels (C17, C02); likewise the whitespace set. *)
Theorem c15_linebreaks_are_the_lexers : forall c,
  ExtractI18n.is_linebreak c = LexUni.is_linebreak c.
Proof. exact is_linebreak_eq_LexUni. Qed.
Print Assumptions c15_linebreaks_are_the_lexers.

Theorem c15_whitespace_is_the_lexers : forall c,
  Translate.is_space c = LexUni.is_space c.
Proof. exact is_space_eq_LexUni. Qed.
Print Assumptions c15_whitespace_is_the_lexers.
