(** C10 — Templates may shadow caller data but never change it; lookup
    precedence holds.
    Only property theorems live here, each closed by [exact] and followed by
    [Print Assumptions].  Model: Kernels/ChainMap.v (a store of dict objects +
    chain maps of references into it).  [D] is the type of the opaque data
    values: every theorem holds for all of them.

    LABEL: partial.  What is proved is the name-resolution half of the
    property and, for the context machinery (chain maps, make_globals, assign,
    counters, extend), that no write ever lands in a caller-supplied mapping.
    What filters and tags do to the INSIDE of a caller-supplied list / dict is
    not expressible here (values are opaque); that half is decided only by the
    executable tie of harness/c10.py. *)
From LQ Require Import Base.Str Kernels.ChainMap Proofs.ChainMap_proofs.

(** ReadOnlyChainMap.__getitem__ returns the binding of the first mapping that
    has the key ([None] = KeyError). *)
Theorem c10_chainmap_getitem_first : forall (D : Type) (s : store D) (c : chain) k,
  cm_getitem s c k = first_some (map (fun m => mget s m k) c).
Proof. exact @cm_getitem_first. Qed.
Print Assumptions c10_chainmap_getitem_first.

(** Precedence.  For ALL contents of all eight layers and every name: the
    context built by Environment(globals) -> from_string/get_template(globals,
    matter) -> render(args) -> RenderContext, with these locals, counters and
    block scopes, resolves a name to the first of: block scopes (innermost
    first), template locals, render arguments, loader matter, template
    globals, environment globals, built-ins (now/today), counters.
    (A dict has unique keys: [NoDup (keys tg)].) *)
Theorem c10_lookup_precedence : forall (D : Type) (L : layers D) k,
  NoDup (keys (w_tg (l_world L))) ->
  st_lookup (build L) k =
  first_some (map (assoc k) (l_blocks L) ++
              [assoc k (l_locals L);
               assoc k (w_args (l_world L));
               assoc k (w_matter (l_world L));
               assoc k (w_tg (l_world L));
               assoc k (w_eg (l_world L));
               builtin_get k;
               assoc k (l_counters L)]).
Proof. exact @lookup_precedence. Qed.
Print Assumptions c10_lookup_precedence.

(** Presence, not truthiness, decides.  Write the eight layers as a list of
    mappings in lookup order ([layer_list]: block scopes, locals, render args,
    matter, template globals, environment globals, {now, today}, counters).
    If [d] is the first of them that BINDS the name, the lookup returns [d]'s
    binding — whatever value that is: nil, false, 0, '', [], {} are values
    like any other ([D] is arbitrary and no lookup inspects a value). *)
Theorem c10_lookup_first_binder : forall (D : Type) (L : layers D) k pre d post,
  NoDup (keys (w_tg (l_world L))) ->
  layer_list L = pre ++ d :: post ->
  (forall d', In d' pre -> ~ In k (keys d')) ->
  In k (keys d) ->
  st_lookup (build L) k = assoc k d /\ exists v, assoc k d = Some v.
Proof. exact @lookup_first_binder. Qed.
Print Assumptions c10_lookup_first_binder.

(** A name is undefined exactly when no layer binds it. *)
Theorem c10_lookup_none_iff_unbound : forall (D : Type) (L : layers D) k,
  NoDup (keys (w_tg (l_world L))) ->
  (st_lookup (build L) k = None <-> forall d, In d (layer_list L) -> ~ In k (keys d)).
Proof. exact @lookup_none_iff_unbound. Qed.
Print Assumptions c10_lookup_none_iff_unbound.

(** Which layer answers does not depend on the values: replacing every data
    value through any function [f] (e.g. all of them by one "nil" token) maps
    every lookup result through [f] and changes nothing else. *)
Theorem c10_lookup_value_independent : forall (D D' : Type) (f : D -> D') (L : layers D) k,
  NoDup (keys (w_tg (l_world L))) ->
  st_lookup (build (map_layers f L)) k = option_map (map_value f) (st_lookup (build L) k).
Proof. exact @lookup_value_independent. Qed.
Print Assumptions c10_lookup_value_independent.

(** Precedence along every execution.  For every caller world, every depth
    limit and every program of lookups / assigns / increments / decrements /
    nested extend-blocks (all that tags can do to the chain): each lookup, at
    whatever nesting depth and after whatever writes, returns what the
    eight-layer specification [spec_lookup] returns at that moment; the run
    fails exactly when the specification fails (depth limit); and the caller's
    four mappings are unchanged at the end. *)
Theorem c10_render_refines_spec : forall (D : Type) lim (w : world D) prog,
  NoDup (keys (w_tg w)) -> forallb scoped prog = true ->
  trace_of (render lim w prog) = trace_of (spec_render lim w prog)
  /\ status_of (render lim w prog) = status_of (spec_render lim w prog)
  /\ firstn n_caller (store_of (state_of (render lim w prog))) = caller_store w.
Proof. exact @render_refines_spec. Qed.
Print Assumptions c10_render_refines_spec.

(** [assign] writes [locals] only: the chain and every other mapping object
    are untouched and no other name changes its resolution — in any state. *)
Theorem c10_assign_touches_only_locals : forall (D : Type) (st : state D) k v,
  let st' := st_assign st k v in
  scope st' = scope st /\ locals_a st' = locals_a st /\ counters_a st' = counters_a st
  /\ globals_r st' = globals_r st
  /\ length (store_of st') = length (store_of st)
  /\ (forall a, a <> locals_a st -> read (store_of st') a = read (store_of st) a)
  /\ (forall k', k' <> k -> st_lookup st' k' = st_lookup st k').
Proof. exact @assign_touches_only_locals. Qed.
Print Assumptions c10_assign_touches_only_locals.

(** After [assign k v] a name resolves as the specification says with
    [locals[k] = v]: the new value unless a block scope shadows it. *)
Theorem c10_assign_then_lookup : forall (D : Type) (L : layers D) k v k',
  NoDup (keys (w_tg (l_world L))) ->
  st_lookup (st_assign (build L) k v) k' =
  spec_lookup (l_world L)
    {| a_blocks := l_blocks L; a_locals := dict_set k v (l_locals L); a_counters := l_counters L |} k'.
Proof. exact @assign_then_lookup. Qed.
Print Assumptions c10_assign_then_lookup.

(** Environment.make_globals allocates: its result is an object that did not
    exist, every existing mapping (both inputs included) reads as before, and
    template globals win over environment globals. *)
Theorem c10_make_globals_fresh : forall (D : Type) (s : store D) eg tg s' a,
  env_make_globals s eg tg = (s', a) ->
  a = length s /\ length s' = S (length s)
  /\ (forall a', a' < length s -> read s' a' = read s a')
  /\ (NoDup (keys (read s tg)) -> forall k,
        assoc k (read s' a) =
        match assoc k (read s tg) with Some v => Some v | None => assoc k (read s eg) end).
Proof. exact @make_globals_fresh. Qed.
Print Assumptions c10_make_globals_fresh.

(** Caching loaders.  On a cache hit ([get_template] of a name already cached)
    the loader re-binds [template.global_data = env.make_globals(globals)] and
    the cached template keeps the matter it was loaded with.  Whatever the
    previous global_data: the mapping the next render hands to its context
    resolves a name to the render argument, else the loader matter, else the
    NEW per-call template global, else the environment global; no existing
    mapping is written. *)
Theorem c10_cache_hit_keeps_matter_layer : forall (D : Type) (s : store D) eg tg2 gd_old ov args s' g,
  eg < length s -> tg2 < length s -> ov < length s -> args < length s ->
  NoDup (keys (read s tg2)) ->
  cache_hit_globals s eg tg2 gd_old ov args = (s', g) ->
  (forall k, mget s' g k =
     first_some [assoc k (read s args); assoc k (read s ov);
                 assoc k (read s tg2); assoc k (read s eg)])
  /\ (forall a, a < length s -> read s' a = read s a).
Proof. exact @cache_hit_keeps_matter_layer. Qed.
Print Assumptions c10_cache_hit_keeps_matter_layer.

(** Template.make_globals copies the render arguments into a new dict and
    chains (new dict, matter, template globals); nothing existing is written. *)
Theorem c10_template_globals_fresh : forall (D : Type) (s : store D) gd ov args s' g,
  template_make_globals s gd ov args = (s', g) ->
  g = RChain [RDict (length s); RDict ov; RDict gd]
  /\ read s' (length s) = read s args
  /\ (forall a', a' < length s -> read s' a' = read s a').
Proof. exact @template_globals_fresh. Qed.
Print Assumptions c10_template_globals_fresh.

(** Pop after Push restores the chain. *)
Theorem c10_push_pop_balanced : forall (D : Type) lim (st : state D) ns,
  scope (state_of (exec_list lim [Push ns; Pop] st)) = scope st
  /\ status_of (exec_list lim [Push ns; Pop] st) = Ok tt.
Proof. exact @push_pop_balanced. Qed.
Print Assumptions c10_push_pop_balanced.

(** [with context.extend(ns): body] leaves the chain (and which objects are
    locals / counters / globals) exactly as it found it, whatever the body
    does and whether it completes or raises. *)
Theorem c10_extend_balanced : forall (D : Type) lim (o : op D), scoped o = true ->
  forall st : state D, frame_eq st (state_of (exec lim o st)).
Proof. exact @extend_balanced. Qed.
Print Assumptions c10_extend_balanced.

(** A pushed namespace shadows the names it binds and no others ... *)
Theorem c10_push_shadows : forall (D : Type) (st : state D) ns k, scope_wf st ->
  st_lookup (st_push st ns) k =
  match assoc k ns with Some v => Some v | None => st_lookup st k end.
Proof. exact @push_shadows. Qed.
Print Assumptions c10_push_shadows.

(** ... every constructed context satisfies that theorem's hypothesis ... *)
Theorem c10_build_scope_wf : forall (D : Type) (L : layers D), scope_wf (build L).
Proof. exact @build_scope_wf. Qed.
Print Assumptions c10_build_scope_wf.

(** ... and after the pop every name resolves as before the push. *)
Theorem c10_shadowing_restored_raw : forall (D : Type) lim (st : state D) ns k, scope_wf st ->
  st_lookup (state_of (exec_list lim [Push ns; Pop] st)) k = st_lookup st k.
Proof. exact @shadowing_restored_raw. Qed.
Print Assumptions c10_shadowing_restored_raw.

(** Shadowing restored, at full strength: for all contents of all layers, any
    namespace, any body (nested blocks, lookups, writes to OTHER names,
    completing or aborting) — after the block, a name the body did not itself
    assign / increment / decrement resolves to exactly what it did before. *)
Theorem c10_shadowing_restored : forall (D : Type) lim (L : layers D) ns body k,
  NoDup (keys (w_tg (l_world L))) ->
  forallb scoped body = true -> existsb (writes k) body = false ->
  st_lookup (state_of (exec lim (Extend ns body) (build L))) k = st_lookup (build L) k.
Proof. exact @shadowing_restored. Qed.
Print Assumptions c10_shadowing_restored.

(** Inside a {% render %}ed partial (RenderContext.copy): the tag's arguments,
    then the caller's render arguments, matter, template and environment
    globals, then built-ins; the parent's block scopes, locals and counters are
    invisible. *)
Theorem c10_copy_lookup : forall (D : Type) (L : layers D) ns k,
  NoDup (keys (w_tg (l_world L))) ->
  st_lookup (ctx_copy (build L) ns) k =
  first_some [assoc k ns;
              assoc k (w_args (l_world L)); assoc k (w_matter (l_world L));
              assoc k (w_tg (l_world L)); assoc k (w_eg (l_world L));
              builtin_get k].
Proof. exact @copy_lookup. Qed.
Print Assumptions c10_copy_lookup.

(** A {% render %} inside a {% render %}ed partial: the outer tag's arguments
    and the outer partial's block scope are invisible as well (every copy
    chains the root context's globals). *)
Theorem c10_copy_copy_lookup : forall (D : Type) (L : layers D) ns1 b ns2 k,
  NoDup (keys (w_tg (l_world L))) ->
  st_lookup (ctx_copy (st_push (ctx_copy (build L) ns1) b) ns2) k =
  first_some [assoc k ns2;
              assoc k (w_args (l_world L)); assoc k (w_matter (l_world L));
              assoc k (w_tg (l_world L)); assoc k (w_eg (l_world L));
              builtin_get k].
Proof. exact @copy_copy_lookup. Qed.
Print Assumptions c10_copy_copy_lookup.

(** A {% block %} rendered through {% extends %} (RenderContext.copy with
    block_scope): in the block's fresh context a name resolves as in the page
    at the block tag, with the [block] drop pushed. *)
Theorem c10_block_lookup : forall (D : Type) (L : layers D) (ns : dict D) k,
  NoDup (keys (w_tg (l_world L))) ->
  st_lookup (ctx_copy_block (build L) ns) k =
  spec_lookup (l_world L)
    {| a_blocks := ns :: l_blocks L; a_locals := l_locals L; a_counters := l_counters L |} k.
Proof. exact @block_lookup. Qed.
Print Assumptions c10_block_lookup.

(** The code as it is: what the block itself assigned is found FIRST — before
    the block drop and before every binding of the page, the enclosing for /
    with namespaces included; any other name resolves as in the fresh block
    context. *)
Theorem c10_block_assign_lookup_as_is : forall (D : Type) (L : layers D) (ns : dict D) k v k',
  NoDup (keys (w_tg (l_world L))) ->
  st_lookup (st_assign (ctx_copy_block (build L) ns) k v) k' =
  if str_eqb k' k then Some v
  else spec_lookup (l_world L)
         {| a_blocks := ns :: l_blocks L; a_locals := l_locals L; a_counters := l_counters L |} k'.
Proof. exact @block_assign_lookup_as_is. Qed.
Print Assumptions c10_block_assign_lookup_as_is.

(** The documented order on this path ([block_assign_documented]: block-scoped
    bindings that enclose the block first, THEN what the block assigned) is
    REFUTED by the faithful model — known finding
    block-assign-shadows-enclosing-binding-through-extends:
      base  {% with x: 'v1' %}{% block b %}{% endblock %}{% endwith %}
      child {% extends 'base' %}{% block b %}{% assign x = 'v2' %}{{ x }}{% endblock %}
    prints v2 where the documented order gives v1 ... *)
Theorem c10_block_assign_precedence_refuted :
  exists (L : layers N) (ns : dict N) k v k',
    NoDup (keys (w_tg (l_world L))) /\
    st_lookup (st_assign (ctx_copy_block (build L) ns) k v) k' <> block_assign_documented L ns k v k'.
Proof. exact block_assign_precedence_refuted. Qed.
Print Assumptions c10_block_assign_precedence_refuted.

(** ... and holds under the exact guard that excludes the defect: another name
    is looked up, or no block scope enclosing the block (nor the block drop)
    binds the assigned name. *)
Theorem c10_block_assign_precedence_partial : forall (D : Type) (L : layers D) (ns : dict D) k v k',
  NoDup (keys (w_tg (l_world L))) ->
  k' <> k \/ first_some (map (assoc k) (ns :: l_blocks L)) = None ->
  st_lookup (st_assign (ctx_copy_block (build L) ns) k v) k' = block_assign_documented L ns k v k'.
Proof. exact @block_assign_precedence_partial. Qed.
Print Assumptions c10_block_assign_precedence_partial.

(** A third level of isolation (render in render in render): still only the
    innermost tag's arguments, the page's render arguments / matter / globals
    and the built-ins — every copy chains the ROOT context's globals. *)
Theorem c10_copy3_lookup : forall (D : Type) (L : layers D) ns1 b1 ns2 b2 ns3 k,
  NoDup (keys (w_tg (l_world L))) ->
  st_lookup (ctx_copy (st_push (ctx_copy (st_push (ctx_copy (build L) ns1) b1) ns2) b2) ns3) k =
  first_some [assoc k ns3;
              assoc k (w_args (l_world L)); assoc k (w_matter (l_world L));
              assoc k (w_tg (l_world L)); assoc k (w_eg (l_world L));
              builtin_get k].
Proof. exact @copy3_lookup. Qed.
Print Assumptions c10_copy3_lookup.

(** data_unchanged.  For ANY sequence of chain operations — raw pushes and
    pops included — from the construction over ANY caller data, completed or
    aborted: the caller's four mappings are what they were.  In this model a
    write is an explicit [write] at an address, so this is a genuine frame
    property of the context machinery (it fails for a model in which
    make_globals updates env.globals in place or assign writes a global).  It
    says NOTHING about the inside of a list / dict VALUE: values are opaque
    here, and for that half of C10 the theorem carries no weight — the tie
    decides it. *)
Theorem c10_data_unchanged : forall (D : Type) lim (w : world D) prog,
  firstn n_caller (store_of (state_of (exec_list lim prog (build_base w)))) = caller_store w.
Proof. exact @data_unchanged. Qed.
Print Assumptions c10_data_unchanged.

Theorem c10_data_unchanged_render : forall (D : Type) lim (w : world D) prog,
  firstn n_caller (store_of (state_of (render lim w prog))) = caller_store w.
Proof. exact @data_unchanged_render. Qed.
Print Assumptions c10_data_unchanged_render.
