(** C19 — Built-in filters obey their defining laws.
    Only property theorems live here, each closed by [exact] and followed by
    [Print Assumptions].  Models: Kernels/FVal.v, FiltersSeq.v, FiltersStr.v,
    FiltersNum.v (the filter bodies with their coercion decorators, after the
    fix: patches of /verif/proposed_fixes/C19).  All statements are for
    unbounded lists, strings and integers.  A filter call is a [res fval]:
    [Ok v], a Liquid error, or a Python exception; lambdas are Gallina
    functions [fval -> option fval] ([None] = Undefined). *)
From LQ Require Import Base.Str Kernels.FVal Kernels.FiltersNum Kernels.FiltersSeq Kernels.FiltersStr
  Proofs.FiltersSeq_proofs Proofs.FiltersStr_proofs Proofs.FiltersNum_proofs.
From Coq Require Import Permutation Sorted.

(** ** Sorting *)

(** [sort] (no key): the output is a permutation of the coerced input; with
    two or more items every item is a number or every item is a string, the
    output is ascending, and equal-keyed items keep their input order. *)
Theorem c19_sort_ordered_permutation : forall left ys,
  sort_nokey left = Ok (FList ys) ->
  Permutation ys (sequence_arg left) /\
  ((2 <= length (sequence_arg left))%nat ->
     Forall (fun x => exists v s, Ok x = Ok v /\ skey_of v = Some s) (sequence_arg left) /\
     StronglySorted (fun a b => skey_leb (key_fn (fun x => Ok x) a) (key_fn (fun x => Ok x) b) = true) ys /\
     (forall k0, filter (fun y => eqv skey_leb k0 (key_fn (fun x => Ok x) y)) ys
                 = filter (fun y => eqv skey_leb k0 (key_fn (fun x => Ok x) y)) (sequence_arg left))).
Proof. exact sort_nokey_spec. Qed.
Print Assumptions c19_sort_ordered_permutation.

(** [sort: 'k']: the same with the key [item['k']] (MAX_CH when missing). *)
Theorem c19_sort_key_ordered_permutation_stable : forall left k ys,
  k <> [] -> sort_key left (FStr k) = Ok (FList ys) ->
  Permutation ys (sequence_arg left) /\
  ((2 <= length (sequence_arg left))%nat ->
     Forall (fun x => exists v s, getitem_d x (FStr k) (FStr MAX_CH) = Ok v /\ skey_of v = Some s)
       (sequence_arg left) /\
     StronglySorted (fun a b => skey_leb (key_fn (prop_kv k) a) (key_fn (prop_kv k) b) = true) ys /\
     (forall k0, filter (fun y => eqv skey_leb k0 (key_fn (prop_kv k) y)) ys
                 = filter (fun y => eqv skey_leb k0 (key_fn (prop_kv k) y)) (sequence_arg left))).
Proof. exact sort_key_spec. Qed.
Print Assumptions c19_sort_key_ordered_permutation_stable.

(** [sort: i => e]: the same with the key the lambda computes. *)
Theorem c19_sort_lambda_ordered_permutation_stable : forall left f ys,
  sort_lambda left f = Ok (FList ys) -> sort_post (lam_kv f) (sequence_arg left) ys.
Proof. exact sort_lambda_spec. Qed.
Print Assumptions c19_sort_lambda_ordered_permutation_stable.

(** Items without the property come last, in input order, when every present
    key is below MAX_CH (U+10FFFF). *)
Theorem c19_sort_key_missing_last : forall left k ys,
  k <> [] -> sort_key left (FStr k) = Ok (FList ys) ->
  Forall (fun x => top (prop_kv k) x = true \/ below_top (prop_kv k) x = true) (sequence_arg left) ->
  ys = filter (fun y => negb (top (prop_kv k) y)) ys ++ filter (top (prop_kv k)) (sequence_arg left).
Proof. exact sort_key_missing_last. Qed.
Print Assumptions c19_sort_key_missing_last.

Theorem c19_missing_property_is_top : forall k d,
  assoc k d = None -> top (prop_kv k) (FDict d) = true.
Proof. exact top_missing. Qed.
Print Assumptions c19_missing_property_is_top.

(** [sort] without a key never fails with anything but LiquidTypeError. *)
Theorem c19_sort_error_is_liquid : forall left,
  match sort_nokey left with
  | Ok _ | LErr LiquidTypeError _ => True
  | PyExc k => k = OtherPyError
  | _ => False
  end.
Proof. exact sort_nokey_errors. Qed.
Print Assumptions c19_sort_error_is_liquid.

(** [sort_natural]: ordered (by lower-cased text), stable permutation. *)
Theorem c19_sort_natural : forall left ys,
  sort_natural_nokey left = Ok (FList ys) ->
  Permutation ys (sequence_arg left) /\
  StronglySorted (fun a b => str_leb (kfn [] lower_key a) (kfn [] lower_key b) = true) ys /\
  (forall k0, filter (fun y => eqv str_leb k0 (kfn [] lower_key y)) ys
              = filter (fun y => eqv str_leb k0 (kfn [] lower_key y)) (sequence_arg left)).
Proof. exact sort_natural_nokey_spec. Qed.
Print Assumptions c19_sort_natural.

Theorem c19_sort_natural_key : forall left k ys,
  k <> [] -> sort_natural_key left (FStr k) = Ok (FList ys) ->
  natural_post (natural_prop_kr k) (sequence_arg left) ys.
Proof. exact sort_natural_key_spec. Qed.
Print Assumptions c19_sort_natural_key.

(** [sort_numeric]: ordered (by the tuples of integers found), stable permutation. *)
Theorem c19_sort_numeric : forall left ys,
  sort_numeric_nokey left = Ok (FList ys) ->
  Permutation ys (sequence_arg left) /\
  StronglySorted (fun a b => lex_leb nx_leb (kfn [] ints_key a) (kfn [] ints_key b) = true) ys /\
  (forall k0, filter (fun y => eqv (lex_leb nx_leb) k0 (kfn [] ints_key y)) ys
              = filter (fun y => eqv (lex_leb nx_leb) k0 (kfn [] ints_key y)) (sequence_arg left)).
Proof. exact sort_numeric_nokey_spec. Qed.
Print Assumptions c19_sort_numeric.

Theorem c19_sort_numeric_key : forall left k ys,
  k <> [] -> sort_numeric_key left (FStr k) = Ok (FList ys) ->
  numeric_post (numeric_prop_kr k) (sequence_arg left) ys.
Proof. exact sort_numeric_key_spec. Qed.
Print Assumptions c19_sort_numeric_key.

(** [reverse]: a permutation, and an involution on flat arrays. *)
Theorem c19_reverse : forall left,
  exists ys, reverse_f left = Ok (FList ys) /\ ys = rev (sequence_arg left) /\
             Permutation ys (sequence_arg left) /\ rev ys = sequence_arg left.
Proof. exact reverse_spec. Qed.
Print Assumptions c19_reverse.

Theorem c19_reverse_involutive : forall l,
  flat_list l -> reverse_f (FList (rev l)) = Ok (FList l).
Proof. exact reverse_involutive. Qed.
Print Assumptions c19_reverse_involutive.

(** ** uniq, compact *)

(** No two output elements are equal (Liquid [==]: a boolean only equals a boolean), every output element is
    an input element. *)
Theorem c19_uniq_distinct : forall left,
  exists ys, uniq_nokey left = Ok (FList ys) /\
    ForallOrdPairs (fun a b => liq_eq a b = false) ys /\
    (forall x, In x ys -> In x (sequence_arg left)) /\
    uniq_nokey (FList ys) = Ok (FList (uniq_by liq_eq [] (sequence_arg (FList ys)))).
Proof. exact uniq_nokey_spec. Qed.
Print Assumptions c19_uniq_distinct.

(** [NoDup], given that [==] is reflexive on the items. *)
Theorem c19_uniq_NoDup : forall left ys,
  (forall x, In x (sequence_arg left) -> liq_eq x x = true) ->
  uniq_nokey left = Ok (FList ys) -> NoDup ys.
Proof. exact uniq_nokey_NoDup. Qed.
Print Assumptions c19_uniq_NoDup.

Theorem c19_eq_reflexive_on_scalars : forall v, is_scalar_val v = true -> liq_eq v v = true.
Proof. exact liq_eq_refl_scalar. Qed.
Print Assumptions c19_eq_reflexive_on_scalars.

(** First occurrences, in order: an element is kept exactly when nothing
    before it is equal to it. *)
Theorem c19_uniq_first_occurrences : forall (prev l1 : list fval) x l2,
  uniq_by liq_eq prev (l1 ++ x :: l2) =
  uniq_by liq_eq prev l1
  ++ (if existsb (fun y => liq_eq y x) (prev ++ l1) then [] else [x])
  ++ uniq_by liq_eq (prev ++ l1 ++ [x]) l2.
Proof. exact (uniq_by_app liq_eq). Qed.
Print Assumptions c19_uniq_first_occurrences.

(** Every input element has an equal representative in the output (when
    [==] is reflexive and transitive on the items). *)
Theorem c19_uniq_covers : forall l : list fval,
  (forall x, In x l -> liq_eq x x = true) ->
  (forall a b c, In a l -> In b l -> In c l -> liq_eq a b = true -> liq_eq b c = true -> liq_eq a c = true) ->
  forall x, In x l -> exists y, In y (uniq_by liq_eq [] l) /\ liq_eq y x = true.
Proof. exact (uniq_by_covers liq_eq). Qed.
Print Assumptions c19_uniq_covers.

Theorem c19_uniq_idempotent : forall l ys,
  flat_list l -> uniq_nokey (FList l) = Ok (FList ys) -> uniq_nokey (FList ys) = Ok (FList ys).
Proof. exact uniq_nokey_idempotent. Qed.
Print Assumptions c19_uniq_idempotent.

(** [compact] removes exactly the nils. *)
Theorem c19_compact_removes_exactly_nil : forall left,
  exists ys, compact_nokey left = Ok (FList ys) /\
    (forall x, In x ys <-> In x (sequence_arg left) /\ x <> FNil) /\
    interleaves ys (filter is_nil (sequence_arg left)) (sequence_arg left) /\
    Forall (fun x => x = FNil) (filter is_nil (sequence_arg left)).
Proof. exact compact_nokey_spec. Qed.
Print Assumptions c19_compact_removes_exactly_nil.

(** ** where / reject / find / find_index / has *)

(** [where] and [reject] partition the input, in order. *)
Theorem c19_where_reject_partition : forall left key value ys,
  where_key left key value = Ok (FList ys) ->
  exists zs, reject_key left key value = Ok (FList zs) /\
             interleaves ys zs (sequence_arg left) /\
             Permutation (ys ++ zs) (sequence_arg left) /\
             (length ys + length zs = length (sequence_arg left))%nat.
Proof. exact where_reject_partition. Qed.
Print Assumptions c19_where_reject_partition.

Theorem c19_where_reject_fail_together : forall left key value,
  is_ok (where_key left key value) = is_ok (reject_key left key value).
Proof. exact where_reject_same_errors. Qed.
Print Assumptions c19_where_reject_fail_together.

Theorem c19_where_reject_lambda_partition : forall left f,
  exists ys zs, where_lambda left f = Ok (FList ys) /\ reject_lambda left f = Ok (FList zs) /\
                interleaves ys zs (sequence_arg left).
Proof. exact where_reject_lambda_partition. Qed.
Print Assumptions c19_where_reject_lambda_partition.

(** [where] selects exactly the items whose property passes the test
    (Liquid equality with the value, or truthiness without one). *)
Theorem c19_where_selects : forall left key value ys,
  where_key left key value = Ok (FList ys) ->
  forall x, In x ys <-> In x (sequence_arg left) /\ key_test getitem_nil key value x = Ok true.
Proof. exact where_key_selects. Qed.
Print Assumptions c19_where_selects.

(** [find], [find_index], [has] are three views of one search: the first item
    that passes, its index, whether there is one. *)
Theorem c19_find_family : forall left key value,
  let xs := sequence_arg left in
  let test := key_test getitem_find key value in
  match find_first test xs 0 with
  | Ok (Some (i, x)) =>
      find_key left key value = Ok x /\ find_index_key left key value = Ok (FInt i) /\
      has_key left key value = Ok (FBool true) /\
      (0 <= i)%Z /\ nth_error xs (Z.to_nat i) = Some x /\ test x = Ok true /\
      Forall (fun y => test y = Ok false) (firstn (Z.to_nat i) xs)
  | Ok None =>
      find_key left key value = Ok FNil /\ find_index_key left key value = Ok FNil /\
      has_key left key value = Ok (FBool false) /\ Forall (fun y => test y = Ok false) xs
  | LErr c p => find_key left key value = LErr c p /\ find_index_key left key value = LErr c p /\
                has_key left key value = LErr c p
  | PyExc k => find_key left key value = PyExc k /\ find_index_key left key value = PyExc k /\
               has_key left key value = PyExc k
  | OutOfFuel => True
  end.
Proof. exact find_family. Qed.
Print Assumptions c19_find_family.

(** On arrays of hashes, [find] is the head of [where], [has] says whether
    [where] is non-empty, [find_index] is nil exactly then. *)
Theorem c19_find_is_head_of_where : forall left k value ys,
  forallb is_hash (sequence_arg left) = true ->
  where_key left (FStr k) value = Ok (FList ys) ->
  find_key left (FStr k) value = Ok (hd FNil ys) /\
  has_key left (FStr k) value = Ok (FBool (negb (match ys with [] => true | _ => false end))) /\
  (find_index_key left (FStr k) value = Ok FNil <-> ys = []).
Proof. exact find_is_head_of_where. Qed.
Print Assumptions c19_find_is_head_of_where.

(** ** first / last / concat / map / slice *)

Theorem c19_first_last : forall l,
  first_f (FList l) = Ok (nth 0 l FNil) /\ last_f (FList l) = Ok (last l FNil) /\
  (l <> [] -> last_f (FList l) = Ok (nth (length l - 1) l FNil)).
Proof. exact first_last_spec. Qed.
Print Assumptions c19_first_last.

Theorem c19_concat_is_app : forall left l,
  concat_f left (FList l) = Ok (FList (sequence_arg left ++ l)).
Proof. exact concat_spec. Qed.
Print Assumptions c19_concat_is_app.

Theorem c19_map_lambda_is_map : forall left f,
  map_lambda left f =
  Ok (FList (map (fun i => match f i with Some v => v | None => FNil end) (sequence_arg left))).
Proof. exact map_lambda_spec. Qed.
Print Assumptions c19_map_lambda_is_map.

Theorem c19_map_key_pointwise : forall left k ys,
  map_key left (FStr k) = Ok (FList ys) ->
  length ys = length (sequence_arg left) /\
  forall n x, nth_error (sequence_arg left) n = Some x ->
              exists y, nth_error ys n = Some y /\ getitem_d x (FStr k) FNil = Ok y.
Proof. exact map_key_spec. Qed.
Print Assumptions c19_map_key_pointwise.

Theorem c19_slice_is_firstn_skipn : forall l s n,
  (0 <= s)%Z -> (0 <= n)%Z -> (s + n < 2 ^ 63)%Z ->
  slice_f (FList l) (FInt s) (Some (FInt n)) =
  Ok (FList (firstn (Z.to_nat n) (skipn (Z.to_nat s) l))).
Proof. exact slice_array_spec. Qed.
Print Assumptions c19_slice_is_firstn_skipn.

Theorem c19_slice_negative_start : forall l s n,
  (- Z.of_nat (length l) <= s < 0)%Z -> (- 2 ^ 63 <= s)%Z -> (0 <= n)%Z -> (s + n < 0)%Z ->
  slice_f (FList l) (FInt s) (Some (FInt n)) =
  Ok (FList (firstn (Z.to_nat n) (skipn (Z.to_nat (Z.of_nat (length l) + s)) l))).
Proof. exact slice_array_negative_start. Qed.
Print Assumptions c19_slice_negative_start.

Theorem c19_slice_out_of_range : forall l s n,
  (- 2 ^ 63 <= s < - Z.of_nat (length l))%Z -> (- 2 ^ 63 <= n <= 2 ^ 63 - 1)%Z ->
  slice_f (FList l) (FInt s) (Some (FInt n)) = Ok (FList []).
Proof. exact slice_array_out_of_range. Qed.
Print Assumptions c19_slice_out_of_range.

(** ** The string-property form equals the lambda form
    ([lam_of k v] is [i => i.k == v], or [i => i.k] when there is no value;
    [k] is any property name but [size], which paths answer with the length). *)

Theorem c19_where_forms_agree : forall left k value r,
  not_size k -> where_key left (FStr k) value = Ok r -> where_lambda left (lam_of k value) = Ok r.
Proof. exact where_key_lambda_agree. Qed.
Print Assumptions c19_where_forms_agree.

Theorem c19_reject_forms_agree : forall left k value r,
  not_size k -> reject_key left (FStr k) value = Ok r -> reject_lambda left (lam_of k value) = Ok r.
Proof. exact reject_key_lambda_agree. Qed.
Print Assumptions c19_reject_forms_agree.

Theorem c19_find_forms_agree : forall left k value,
  not_size k -> forallb is_hash (sequence_arg left) = true ->
  (forall r, find_key left (FStr k) value = Ok r -> find_lambda left (lam_of k value) = Ok r) /\
  (forall r, find_index_key left (FStr k) value = Ok r -> find_index_lambda left (lam_of k value) = Ok r) /\
  (forall r, has_key left (FStr k) value = Ok r -> has_lambda left (lam_of k value) = Ok r).
Proof. exact find_key_lambda_agree. Qed.
Print Assumptions c19_find_forms_agree.

Theorem c19_map_forms_agree : forall left k r,
  not_size k -> map_key left (FStr k) = Ok r -> map_lambda left (lam_prop k) = Ok r.
Proof. exact map_key_lambda_agree. Qed.
Print Assumptions c19_map_forms_agree.

Theorem c19_sort_forms_agree : forall left k r,
  k <> [] -> not_size k -> sort_key left (FStr k) = Ok r -> sort_lambda left (lam_prop k) = Ok r.
Proof. exact sort_key_lambda_agree. Qed.
Print Assumptions c19_sort_forms_agree.

Theorem c19_sort_natural_forms_agree : forall left k r,
  k <> [] -> not_size k ->
  sort_natural_key left (FStr k) = Ok r -> sort_natural_lambda left (lam_prop k) = Ok r.
Proof. exact sort_natural_key_lambda_agree. Qed.
Print Assumptions c19_sort_natural_forms_agree.

Theorem c19_sort_numeric_forms_agree : forall left k r,
  k <> [] -> not_size k ->
  sort_numeric_key left (FStr k) = Ok r -> sort_numeric_lambda left (lam_prop k) = Ok r.
Proof. exact sort_numeric_key_lambda_agree. Qed.
Print Assumptions c19_sort_numeric_forms_agree.

Theorem c19_uniq_forms_agree : forall left k r,
  not_size k -> uniq_key left (FStr k) = Ok r -> uniq_lambda left (lam_prop k) = Ok r.
Proof. exact uniq_key_lambda_agree. Qed.
Print Assumptions c19_uniq_forms_agree.

Theorem c19_compact_forms_agree : forall left k r,
  not_size k -> compact_key left (FStr k) = Ok r -> compact_lambda left (lam_prop k) = Ok r.
Proof. exact compact_key_lambda_agree. Qed.
Print Assumptions c19_compact_forms_agree.

(** ** split / join *)

Theorem c19_join_split : forall s sep,
  sep <> [] -> s <> [] -> s <> sep ->
  exists l, split_f (FStr s) (FStr sep) = Ok (FList l) /\
            join_f (FList l) (Some (FStr sep)) = Ok (FStr s).
Proof. exact join_split_roundtrip. Qed.
Print Assumptions c19_join_split.

Theorem c19_split_degenerate : forall sep,
  sep <> [] ->
  split_f (FStr []) (FStr sep) = Ok (FList []) /\ split_f (FStr sep) (FStr sep) = Ok (FList []).
Proof. exact split_degenerate. Qed.
Print Assumptions c19_split_degenerate.

(** The exact side condition: the separator must not start inside
    [x ++ removelast sep] for any element [x] (for a one-character separator:
    no element contains it), and the joined text is neither empty nor the
    separator. *)
Theorem c19_split_join : forall sep xs,
  sep <> [] -> xs <> [] ->
  Forall (fun x => str_contains (x ++ removelast sep) sep = false) xs ->
  join_str sep xs <> [] -> join_str sep xs <> sep ->
  exists j, join_f (FList (map FStr xs)) (Some (FStr sep)) = Ok (FStr j) /\
            split_f (FStr j) (FStr sep) = Ok (FList (map FStr xs)).
Proof. exact split_join_roundtrip. Qed.
Print Assumptions c19_split_join.

(** ** url_encode/url_decode, base64, escape/escape_once *)

Theorem c19_url_roundtrip : forall s,
  all_scalar s = true ->
  exists e, url_encode_f (FStr s) = Ok (FStr e) /\ url_decode_f (FStr e) = Ok (FStr s).
Proof. exact url_roundtrip. Qed.
Print Assumptions c19_url_roundtrip.

Theorem c19_base64_roundtrip : forall url s,
  all_scalar s = true ->
  exists e, b64_encode_f url (FStr s) = Ok (FStr e) /\ b64_decode_f url (FStr e) = Ok (FStr s).
Proof. exact base64_roundtrip. Qed.
Print Assumptions c19_base64_roundtrip.

(** For any [html.unescape] that undoes [html.escape] (the library fact is a
    premise), [escape_once] is idempotent and leaves escaped text alone. *)
Theorem c19_escape_once_idempotent : forall unescape : str -> str,
  (forall s, unescape (html_escape s) = s) ->
  forall s, escape_once_with unescape (escape_once_with unescape s) = escape_once_with unescape s.
Proof. exact escape_once_idempotent. Qed.
Print Assumptions c19_escape_once_idempotent.

Theorem c19_escape_once_after_escape : forall unescape : str -> str,
  (forall s, unescape (html_escape s) = s) ->
  forall s, escape_once_with unescape (html_escape s) = html_escape s.
Proof. exact escape_once_after_escape. Qed.
Print Assumptions c19_escape_once_after_escape.

(** The modelled part of [html.unescape] satisfies that premise, so for the
    executable model the two laws hold outright. *)
Theorem c19_escape_once_model : forall s,
  (exists e, escape_f (FStr s) = Ok (FStr e) /\ escape_once_f (FStr e) = Ok (FStr e)) /\
  (forall e, escape_once_f (FStr s) = Ok (FStr e) -> escape_once_f (FStr e) = Ok (FStr e)).
Proof. exact escape_once_model_laws. Qed.
Print Assumptions c19_escape_once_model.

Theorem c19_escape_leaves_no_specials : forall s,
  Forall (fun d => d <> 60 /\ d <> 62 /\ d <> 34 /\ d <> 39)%N (html_escape s).
Proof. exact escape_no_specials. Qed.
Print Assumptions c19_escape_leaves_no_specials.

(** ** strip / case / remove / append / truncate *)

Theorem c19_strip_is_lstrip_rstrip : forall v,
  exists a, rstrip_f v = a /\
  match to_liquid_string v with
  | Ok s =>
      strip_f v = Ok (FStr (py_lstrip (py_rstrip s))) /\
      strip_f v = Ok (FStr (py_rstrip (py_lstrip s))) /\
      (exists r, rstrip_f v = Ok (FStr r) /\ lstrip_f (FStr r) = strip_f v) /\
      (exists l, lstrip_f v = Ok (FStr l) /\ rstrip_f (FStr l) = strip_f v)
  | _ => strip_f v = lstrip_f v /\ strip_f v = rstrip_f v
  end.
Proof. exact strip_is_lstrip_rstrip. Qed.
Print Assumptions c19_strip_is_lstrip_rstrip.

Theorem c19_strip_idempotent : forall s,
  exists t, strip_f (FStr s) = Ok (FStr t) /\ strip_f (FStr t) = Ok (FStr t).
Proof. exact strip_idempotent. Qed.
Print Assumptions c19_strip_idempotent.

Theorem c19_case_idempotent : forall s,
  (exists u, upcase_f (FStr s) = Ok (FStr u) /\ upcase_f (FStr u) = Ok (FStr u)) /\
  (exists d, downcase_f (FStr s) = Ok (FStr d) /\ downcase_f (FStr d) = Ok (FStr d)).
Proof. exact case_idempotent. Qed.
Print Assumptions c19_case_idempotent.

Theorem c19_remove_is_replace_empty : forall left arg,
  remove_f left arg = replace_f left arg (FStr []) /\
  remove_first_f left arg = replace_first_f left arg (FStr []).
Proof. exact remove_is_replace_empty. Qed.
Print Assumptions c19_remove_is_replace_empty.

Theorem c19_remove_last_is_replace_last_empty : forall left arg,
  remove_last_f left arg = replace_last_f left arg (FStr []).
Proof. exact remove_last_is_replace_last_empty. Qed.
Print Assumptions c19_remove_last_is_replace_last_empty.

(** [replace_last] / [remove_last] touch exactly the last occurrence. *)
Theorem c19_replace_last : forall seq sub v,
  seq <> [] ->
  match rfind_sub seq v with
  | Some (before, after) =>
      v = before ++ seq ++ after /\ replace_last_str seq sub v = before ++ sub ++ after /\
      remove_last_str seq v = before ++ after
  | None => replace_last_str seq sub v = v /\ remove_last_str seq v = v
  end.
Proof. exact replace_last_spec. Qed.
Print Assumptions c19_replace_last.

Theorem c19_append_prepend : forall s t,
  append_f (FStr s) (FStr t) = Ok (FStr (s ++ t)) /\ prepend_f (FStr s) (FStr t) = Ok (FStr (t ++ s)).
Proof. exact append_prepend_app. Qed.
Print Assumptions c19_append_prepend.

(** [truncate]: unchanged when it has at most [num] characters; else the first
    max(0, num - |end|) characters followed by [end], never longer than
    max(num, |end|). *)
Theorem c19_truncate_spec : forall val num e,
  ((Z.of_nat (length val) <= num)%Z -> truncate_chars val num e = val) /\
  ((num < Z.of_nat (length val))%Z ->
     truncate_chars val num e = firstn (Z.to_nat (Z.max 0 (num - Z.of_nat (length e)))) val ++ e /\
     (Z.of_nat (length (truncate_chars val num e)) <= Z.max num (Z.of_nat (length e)))%Z).
Proof. exact truncate_spec. Qed.
Print Assumptions c19_truncate_spec.

(** The code before the fix violated the length bound ("hello" | truncate: 2). *)
Theorem c19_truncate_unfixed_refuted :
  exists val num e,
    (num < Z.of_nat (length val))%Z /\
    (Z.max num (Z.of_nat (length e)) < Z.of_nat (length (truncate_chars_unfixed val num e)))%Z.
Proof. exact truncate_unfixed_refuted. Qed.
Print Assumptions c19_truncate_unfixed_refuted.

(** ... and the fix changes nothing where the old code was right. *)
Theorem c19_truncate_fix_conservative : forall val num e,
  (Z.of_nat (length e) <= num)%Z -> truncate_chars val num e = truncate_chars_unfixed val num e.
Proof. exact truncate_fix_conservative. Qed.
Print Assumptions c19_truncate_fix_conservative.

Theorem c19_truncatewords_spec : forall v num e,
  let n := if (num <=? 0)%Z then 1%Z else num in
  (n < MAX_TRUNC_WORDS)%Z ->
  ((Z.of_nat (length (py_words v)) <= n)%Z -> truncatewords_str v num e = join_str [32%N] (py_words v)) /\
  ((n < Z.of_nat (length (py_words v)))%Z ->
     truncatewords_str v num e = join_str [32%N] (firstn (Z.to_nat n) (py_words v)) ++ e).
Proof. exact truncatewords_spec. Qed.
Print Assumptions c19_truncatewords_spec.

(** ** Arithmetic *)

Theorem c19_minus_undoes_plus : forall a b,
  exists s, plus_f (FInt a) (FInt b) = Ok s /\ minus_f s (FInt b) = Ok (FInt a).
Proof. exact minus_undoes_plus. Qed.
Print Assumptions c19_minus_undoes_plus.

Theorem c19_int_arith_exact : forall a b,
  plus_f (FInt a) (FInt b) = Ok (FInt (a + b)) /\
  minus_f (FInt a) (FInt b) = Ok (FInt (a - b)) /\
  times_f (FInt a) (FInt b) = Ok (FInt (a * b)).
Proof. exact int_arith. Qed.
Print Assumptions c19_int_arith_exact.

(** Floor division: a = (a // b) * b + a % b, |a % b| < |b|, sign of b. *)
Theorem c19_division_law : forall a b,
  b <> 0%Z ->
  exists q m,
    divided_by_f (FInt a) (FInt b) = Ok (FInt q) /\
    modulo_f (FInt a) (FInt b) = Ok (FInt m) /\
    a = (q * b + m)%Z /\ (Z.abs m < Z.abs b)%Z /\ (m = 0%Z \/ Z.sgn m = Z.sgn b) /\
    (exists p, times_f (FInt q) (FInt b) = Ok p /\ plus_f p (FInt m) = Ok (FInt a)).
Proof. exact division_law. Qed.
Print Assumptions c19_division_law.

Theorem c19_division_by_zero : forall a,
  divided_by_f (FInt a) (FInt 0) = LErr LiquidTypeError None /\
  modulo_f (FInt a) (FInt 0) = LErr LiquidTypeError None.
Proof. exact division_by_zero. Qed.
Print Assumptions c19_division_by_zero.

Theorem c19_abs_min_max : forall a b,
  abs_f (FInt a) = Ok (FInt (Z.abs a)) /\
  at_least_f (FInt a) (FInt b) = Ok (FInt (Z.max a b)) /\
  at_most_f (FInt a) (FInt b) = Ok (FInt (Z.min a b)).
Proof. exact abs_min_max. Qed.
Print Assumptions c19_abs_min_max.

Theorem c19_rounding_identity_on_ints : forall a n,
  ceil_f (FInt a) = Ok (FInt a) /\ floor_f (FInt a) = Ok (FInt a) /\
  round_f (FInt a) None = Ok (FInt a) /\
  ((0 < n)%Z -> round_f (FInt a) (Some (FInt n)) = Ok (FInt a)) /\
  round_f (FInt a) (Some (FInt 0)) = Ok (FInt a).
Proof. exact rounding_identity_on_ints. Qed.
Print Assumptions c19_rounding_identity_on_ints.

(** Finite decimals: exact whenever the exact result has <= 28 digits. *)
Theorem c19_decimal_plus_exact : forall m1 e1 m2 e2,
  let (m, e) := dec_add_exact m1 e1 m2 e2 in
  (ndigits m <= prec)%Z -> plus_f (FDec m1 e1) (FDec m2 e2) = Ok (FDec m e).
Proof. exact decimal_plus_exact. Qed.
Print Assumptions c19_decimal_plus_exact.

Theorem c19_decimal_minus_exact : forall m1 e1 m2 e2,
  let (m, e) := dec_add_exact m1 e1 (- m2) e2 in
  (ndigits m <= prec)%Z -> minus_f (FDec m1 e1) (FDec m2 e2) = Ok (FDec m e).
Proof. exact decimal_minus_exact. Qed.
Print Assumptions c19_decimal_minus_exact.

Theorem c19_decimal_times_exact : forall m1 e1 m2 e2,
  (ndigits (m1 * m2) <= prec)%Z ->
  times_f (FDec m1 e1) (FDec m2 e2) = Ok (FDec (m1 * m2) (e1 + e2)).
Proof. exact decimal_times_exact. Qed.
Print Assumptions c19_decimal_times_exact.

(** [dec_add_exact] is the exact sum: at every common finer scale [k]. *)
Theorem c19_decimal_sum_value : forall m1 e1 m2 e2 k,
  (k <= e1)%Z -> (k <= e2)%Z ->
  let (m, e) := dec_add_exact m1 e1 m2 e2 in
  (k <= e)%Z /\ (m * 10 ^ (e - k) = m1 * 10 ^ (e1 - k) + m2 * 10 ^ (e2 - k))%Z.
Proof. exact dec_add_exact_value. Qed.
Print Assumptions c19_decimal_sum_value.

(** [modulo] never lets a Python exception escape (float zero divisors are
    LiquidTypeError too; [OtherPyError] marks operands outside the model). *)
Theorem c19_modulo_no_python_exception : forall a b,
  match modulo_f a b with
  | Ok _ | LErr LiquidTypeError _ => True
  | PyExc k => k = OtherPyError
  | _ => False
  end.
Proof. exact modulo_no_python_exception. Qed.
Print Assumptions c19_modulo_no_python_exception.

(** Known finding sort-missing-key-non-string-property: with numeric
    properties a hash without the property makes [sort: 'k'] fail, so
    [c19_sort_key_missing_last] needs its guard. *)
Theorem c19_sort_key_missing_last_refuted :
  exists left k,
    k <> [] /\ forallb is_hash (sequence_arg left) = true /\
    sort_key left (FStr k) = PyExc TypeError.
Proof. exact sort_key_missing_last_refuted. Qed.
Print Assumptions c19_sort_key_missing_last_refuted.

(** ** round (known finding round-half-even-ties)
    [round] of a float goes to a nearest integer ... *)
Theorem c19_round_is_nearest : forall m e,
  (e < 0)%Z -> let p := (10 ^ (- e))%Z in (2 * Z.abs (m - dec_round_int m e * p) <= p)%Z.
Proof. exact round_is_nearest. Qed.
Print Assumptions c19_round_is_nearest.

(** ... which is the half-away-from-zero rounding of Liquid except at exact halves ... *)
Theorem c19_round_half_away_partial : forall m e,
  (e < 0)%Z -> (2 * (m mod 10 ^ (- e)) <> 10 ^ (- e))%Z -> dec_round_int m e = half_away m e.
Proof. exact round_half_away_partial. Qed.
Print Assumptions c19_round_half_away_partial.

(** ... where Python's [round] goes to the even neighbour: 2.5 | round is 2, not 3. *)
Theorem c19_round_half_away_refuted :
  exists m e, (e < 0)%Z /\ round_f (FDec m e) None = Ok (FInt 2) /\ half_away m e = 3%Z.
Proof. exact round_half_away_refuted. Qed.
Print Assumptions c19_round_half_away_refuted.

(** The shortcut of [round: -n] for a digit count above the bit length of an
    integer (it answers 0 without computing 10^n) is what the general rule gives. *)
Theorem c19_round_huge_negative_digits : forall z n,
  (bit_length z < - n)%Z -> round_to_mult z (10 ^ (- n)) (10 ^ (- n)) = 0%Z.
Proof. exact round_huge_negative_digits. Qed.
Print Assumptions c19_round_huge_negative_digits.
