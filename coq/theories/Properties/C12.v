(** C12 — Serialising a template and reparsing it preserves its behaviour.
    Only property theorems live here, each closed by [exact] and followed by
    [Print Assumptions].  Model: Kernels/Printer.v (the [__str__] methods of
    liquid2/builtin/expressions.py as token printers with layout, and the
    expression parsers).  [printable] is CPython's [str.isprintable], kept
    abstract: every theorem holds for any such predicate.  [strip] drops the
    layout tokens, as the lexer drops whitespace.

    C12 is PARTIAL at proof level: that the printed characters are lexed to
    the tokens [strip (print_X e)], the markup level (tags, blocks, whitespace
    control, comments, [{% liquid %}]), template strings, rendering and pickling
    are covered by the correspondence run and the direct oracle of
    harness/c12.py, not by a theorem. *)
From LQ Require Import Base.Str Kernels.Printer Proofs.Printer_proofs.

(** A string value survives being written as a string literal and read back
    (quote choice, backslash, quote, [${], control characters, [\uXXXX] with
    surrogate pairs; [\'] undone by the lexer's caller in single quotes). *)
Theorem c12_string_literal_roundtrip : forall (printable : N -> bool) (s : str),
  wf_str s ->
  string_value (fst (string_repr printable s)) (snd (string_repr printable s)) = Ok s.
Proof. exact string_roundtrip. Qed.
Print Assumptions c12_string_literal_roundtrip.

(** Every primitive the parser can produce (literals, paths with dotted,
    quoted, index and nested segments, ranges) is read back from its token. *)
Theorem c12_print_parse_primitive : forall (printable : N -> bool) (p : prim),
  wf_prim p -> parse_primitive (Some (print_prim printable p)) = Ok p.
Proof. exact prim_roundtrip. Qed.
Print Assumptions c12_print_parse_primitive.

(** The parentheses written by [_boolean_str_in] are sufficient: the
    precedence-climbing parser rebuilds exactly the tree that was printed, for
    arbitrary nesting of not / and / or / comparisons / membership. *)
Theorem c12_print_parse_bool : forall (printable : N -> bool) (e : bexpr),
  wf_bexpr e -> parse_bool (strip (print_bool printable e)) = Ok e.
Proof. exact print_parse_bool. Qed.
Print Assumptions c12_print_parse_bool.

(** Filtered and ternary expressions: array literals, filters with positional
    and keyword arguments, lambda expressions, [if]/[else], tail filters. *)
Theorem c12_print_parse_filtered : forall (printable : N -> bool) (e : fexpr),
  wf_fexpr e -> parse_filtered (strip (print_fexpr printable e)) = Ok e.
Proof. exact print_parse_filtered. Qed.
Print Assumptions c12_print_parse_filtered.

(** Loop expressions of [for] and [tablerow]. *)
Theorem c12_print_parse_loop : forall (printable : N -> bool) (l : loopexpr),
  wf_loop l -> parse_loop (strip (print_loop printable l)) = Ok l.
Proof. exact print_parse_loop. Qed.
Print Assumptions c12_print_parse_loop.

(** Keyword arguments of [with], [include], [render], [translate]. *)
Theorem c12_print_parse_kwargs : forall (printable : N -> bool) (kws : list (str * prim)),
  Forall (fun kv => is_word (fst kv) = true /\ wf_prim (snd kv)) kws ->
  parse_kwargs false (strip (print_kwargs printable kws)) = Ok kws.
Proof. exact print_parse_kwargs. Qed.
Print Assumptions c12_print_parse_kwargs.

(** The expressions of a [when] tag. *)
Theorem c12_print_parse_when : forall (printable : N -> bool) (ps : list prim),
  ps <> [] -> Forall wf_prim ps ->
  parse_when (strip (print_when printable ps)) = Ok ps.
Proof. exact print_parse_when. Qed.
Print Assumptions c12_print_parse_when.

(** [str] is a fixpoint after one round: printing what was read from printed
    text gives the same text. *)
Theorem c12_print_idempotent_filtered : forall (printable : N -> bool) (e : fexpr),
  wf_fexpr e ->
  exists e', parse_filtered (strip (print_fexpr printable e)) = Ok e'
             /\ print_fexpr printable e' = print_fexpr printable e.
Proof. exact print_idempotent_filtered. Qed.
Print Assumptions c12_print_idempotent_filtered.

Theorem c12_print_idempotent_bool : forall (printable : N -> bool) (e : bexpr),
  wf_bexpr e ->
  exists e', parse_bool (strip (print_bool printable e)) = Ok e'
             /\ print_bool printable e' = print_bool printable e.
Proof. exact print_idempotent_bool. Qed.
Print Assumptions c12_print_idempotent_bool.

Theorem c12_print_idempotent_loop : forall (printable : N -> bool) (l : loopexpr),
  wf_loop l ->
  exists l', parse_loop (strip (print_loop printable l)) = Ok l'
             /\ print_loop printable l' = print_loop printable l.
Proof. exact print_idempotent_loop. Qed.
Print Assumptions c12_print_idempotent_loop.

(** The hypotheses are satisfiable by non-trivial expressions. *)
Theorem c12_hypotheses_nonvacuous :
  wf_bexpr ex_bool /\ wf_fexpr ex_fexpr /\ wf_loop ex_loop.
Proof. exact (conj ex_bool_wf (conj ex_fexpr_wf ex_loop_wf)). Qed.
Print Assumptions c12_hypotheses_nonvacuous.
