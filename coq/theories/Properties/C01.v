(** C01 — Rendering implements the documented Liquid semantics.
    Model: Core/Value.v, Core/Syntax.v, Core/Render.v (the interpreter for the
    Core Liquid Fragment, which the correspondence run ties to /repo).
    The theorems state the documented laws of that semantics. *)
From LQ Require Import Core.Render Proofs.Value_proofs Proofs.Render_proofs Proofs.Render_buffer Proofs.Render_fuel Proofs.CrossModel.
From LQ Require Import Proofs.Render_control Proofs.Render_counters Proofs.Render_capture Proofs.Render_lambda Proofs.Value_decimal Proofs.CrossModel_decimal Proofs.CrossModel_values.
From LQ Require Kernels.FVal Kernels.FiltersStr Kernels.FiltersSeq Kernels.ObjAccess Kernels.Undefined Kernels.Json Kernels.Markup Kernels.Printer.

(** Sequencing is compositional: rendering [l1 ++ l2] is rendering [l1] and
    then [l2] from where [l1] stopped; the meaning of a construct does not
    depend on the constructs around it except through context and buffer. *)
Theorem c01_sequencing_compositional : forall rec l1 l2 c b,
  nodes rec (l1 ++ l2) c b =
  let r := nodes rec l1 c b in
  match st r with SDone => nodes rec l2 (cx r) (bf r) | _ => r end.
Proof. exact nodes_app. Qed.
Print Assumptions c01_sequencing_compositional.

(** case/when/else: if no `when` matches, exactly the `else` block renders ... *)
Theorem c01_case_no_match_renders_else : forall g ev rec e els l c b,
  no_when_matches ev e l c ->
  case_go g ev rec e els l false c b = oblock g rec els c b.
Proof. exact case_no_match_renders_else. Qed.
Print Assumptions c01_case_no_match_renders_else.

(** ... a matching `when` whose block completes switches to "matched" ... *)
Theorem c01_case_match_sets_matched : forall g ev rec e els alts body l m c b v,
  ev c e = EOk v -> case_any ev v alts c = EOk (VBool true) ->
  st (block g rec body c b) = SDone ->
  case_go g ev rec e els ((alts, body) :: l) m c b =
  case_go g ev rec e els l true (cx (block g rec body c b)) (bf (block g rec body c b)).
Proof. exact case_match_sets_matched. Qed.
Print Assumptions c01_case_match_sets_matched.

(** ... and once matched the `else` block is never rendered, whatever the
    blocks wrote (the defect fixed in /repo 4e4e9da was exactly here). *)
Theorem c01_case_else_irrelevant_after_match : forall g ev rec e els els' l c b,
  case_go g ev rec e els l true c b = case_go g ev rec e els' l true c b.
Proof. exact case_else_irrelevant_after_match. Qed.
Print Assumptions c01_case_else_irrelevant_after_match.

(** for-loop slicing: `limit`, `offset` and `reversed` select
    rev? (firstn limit (skipn offset items)); forloop.length is its length and
    the stop index recorded for `offset: continue` is offset + length. *)
Theorem c01_loop_slice_spec : forall items limit offset rv prev,
  (forall z, limit = Some z -> (0 <= z)%Z) ->
  (forall z, offset = Some z -> (0 <= z)%Z) ->
  let o := match offset with Some z => Z.to_nat z | None => 0 end in
  let window := skipn o items in
  let taken := match limit with Some l => firstn (Z.to_nat l) window | None => window end in
  let '(its, len, stop) := loop_slice items limit offset false prev rv in
  its = (if rv then rev taken else taken) /\
  len = Z.of_nat (length taken) /\
  stop = Z.of_nat (o + length taken).
Proof. exact loop_slice_spec. Qed.
Print Assumptions c01_loop_slice_spec.

Theorem c01_offset_continue_resumes : forall items limit rv prev,
  loop_slice items limit None true prev rv = loop_slice items limit (Some prev) false prev rv.
Proof. exact loop_slice_continue. Qed.
Print Assumptions c01_offset_continue_resumes.

(** Truthiness: exactly nil, undefined and false are falsy. *)
Theorem c01_truthiness : forall v,
  is_truthy v = false <-> (v = VNil \/ v = VUndef \/ v = VBool false).
Proof. exact truthy_spec. Qed.
Print Assumptions c01_truthiness.

(** Equality of scalars is equality of the denoted values (a boolean never
    equals a number, nil equals only nil/undefined). *)
Theorem c01_scalar_equality : forall a b,
  scalar a -> scalar b -> a <> VUndef -> b <> VUndef ->
  (liq_eq a b = Some true <-> a = b).
Proof. exact liq_eq_scalar_correct. Qed.
Print Assumptions c01_scalar_equality.

(** Ordering is irreflexive; integers are ordered by value. *)
Theorem c01_ordering_irreflexive : forall v r, liq_lt v v = Some r -> r = false.
Proof. exact liq_lt_irrefl. Qed.
Print Assumptions c01_ordering_irreflexive.

Theorem c01_ordering_int : forall x y, liq_lt (VInt x) (VInt y) = Some (x <? y)%Z.
Proof. exact liq_lt_int. Qed.
Print Assumptions c01_ordering_int.

(** Context independence on the output side: for EVERY node, the outcome, the
    effect on the context and the text appended are the same whatever has been
    written before it (same for any two buffers that are both real or both
    null); so the meaning of a construct does not change with the constructs
    that precede it other than through the context. *)
Theorem c01_output_compositional : forall g ld fuel n c b1 b2,
  null b1 = null b2 ->
  brel b1 b2 (render g ld fuel n c b1) (render g ld fuel n c b2).
Proof. exact render_output_compositional. Qed.
Print Assumptions c01_output_compositional.

(** Output is only ever appended: earlier output is never rewritten. *)
Theorem c01_output_only_appended : forall g ld fuel n c b,
  exists d, text (bf (render g ld fuel n c b)) = text b ++ d.
Proof. exact render_appends. Qed.
Print Assumptions c01_output_only_appended.

(** The fuel of the interpreter is only a technicality: a render that does not
    run out of fuel gives exactly the same result with any larger fuel, so the
    reference semantics of a (program, data) pair is well defined. *)
Theorem c01_fuel_irrelevant : forall g ld f k n c b,
  st (render g ld f n c b) <> SFuel -> render g ld (k + f) n c b = render g ld f n c b.
Proof. exact render_fuel_irrelevant. Qed.
Print Assumptions c01_fuel_irrelevant.

(** Two independently written transcriptions of LoopExpression._slice - the one
    in this interpreter and the one of the sync/async twin kernel (C03) - denote
    the same function: same items, same forloop.length, same stop index. *)
Theorem c01_loop_slice_models_agree : forall it limit offset ic prev rv,
  (0 <= prev)%Z ->
  (ic = true -> offset = None) ->
  let '(items, len, stop) := core_slice it limit offset ic prev rv in
  exists out,
    T.loop_slice it rv prev limit (to_ov offset ic) = Ok out /\
    items = map VInt (T.lo_items out) /\ len = T.lo_length out /\ stop = T.lo_stopindex out.
Proof. exact loop_slice_models_agree. Qed.
Print Assumptions c01_loop_slice_models_agree.

(** find / find_index / has with an arrow function stop at the first item whose
    value is truthy and defined: the items after it are never evaluated, so the
    result (value or error) does not depend on them - whatever they are, even
    items on which the arrow function would raise. *)
Theorem c01_stopping_filters_ignore_items_after_match :
  forall f c a a' lf p ip body v v' pre m post post' rv,
  lam_stops lf = true ->
  eval f c a = EOk v -> eval f c a' = EOk v' ->
  sequence_arg v = Some (pre ++ m :: post) ->
  sequence_arg v' = Some (pre ++ m :: post') ->
  eval f (set_scopes c (lam_scope p ip m (Z.of_nat (length pre)) :: scopes c)) body = EOk rv ->
  lam_true rv = true ->
  eval (S f) c (EFilterL a lf p ip body) = eval (S f) c (EFilterL a' lf p ip body).
Proof. exact (fun f => stopping_filter_ignores_tail (eval f)). Qed.
Print Assumptions c01_stopping_filters_ignore_items_after_match.

(** The Liquid string form of an integer denotes that integer, however large:
    reading the digits back gives the same number, so distinct integers are
    never printed alike (no precision is lost on the way to the output). *)
Theorem c01_integer_output_denotes_the_integer : forall z,
  to_liquid_string (VInt z) = Some (str_of_Z z) /\ int_of_str (str_of_Z z) = Some z.
Proof. exact (fun z => conj eq_refl (int_of_str_of_Z z)). Qed.
Print Assumptions c01_integer_output_denotes_the_integer.

Theorem c01_integer_output_injective : forall a b, str_of_Z a = str_of_Z b -> a = b.
Proof. exact str_of_Z_injective. Qed.
Print Assumptions c01_integer_output_injective.

(** Cross-model consistency.  The filter kernels of C19/C02 (Kernels/FVal.v,
    FiltersStr.v, FiltersSeq.v) carry their own, independently written value
    semantics.  On the values both models represent ([emb]: nil, booleans,
    integers, strings, lists and dicts of those) the two never contradict each
    other: the decimal rendering of integers is the same function, and wherever
    both give a modelled answer the Liquid string form, truthiness and the
    filters upcase, downcase, append, prepend, first, last and join agree. *)
Theorem c01_integer_renderings_agree : forall z, str_of_Z z = FVal.z_to_str z.
Proof. exact str_of_Z_models_agree. Qed.
Print Assumptions c01_integer_renderings_agree.

(** ... and so do the five further transcriptions of [str(int)] in the kernels of
    C05, C16, C20, C04 and C12: seven printers, one function on all integers. *)
Theorem c01_integer_renderings_all_agree : forall z,
  FVal.z_to_str z = str_of_Z z
  /\ ObjAccess.z_to_str z = str_of_Z z
  /\ Undefined.str_of_Z z = str_of_Z z
  /\ Json.Z_dec z = str_of_Z z
  /\ Markup.Z_to_str z = str_of_Z z
  /\ Printer.show_Z z = str_of_Z z.
Proof. exact integer_renderings_all_agree. Qed.
Print Assumptions c01_integer_renderings_all_agree.

Theorem c01_liquid_string_models_agree : forall v fv s,
  emb v = Some fv -> FVal.to_liquid_string fv = Ok s -> to_liquid_string v = Some s.
Proof. exact to_liquid_string_models_agree. Qed.
Print Assumptions c01_liquid_string_models_agree.

Theorem c01_truthiness_models_agree : forall v fv,
  emb v = Some fv -> is_truthy v = FVal.is_truthy fv.
Proof. exact truthiness_models_agree. Qed.
Print Assumptions c01_truthiness_models_agree.

Theorem c01_filters_models_agree :
  (forall v fv r fr, emb v = Some fv ->
     apply_filter FUpcase v [] = EOk r -> FiltersStr.upcase_f fv = Ok fr -> emb r = Some fr)
  /\ (forall v fv r fr, emb v = Some fv ->
     apply_filter FDowncase v [] = EOk r -> FiltersStr.downcase_f fv = Ok fr -> emb r = Some fr)
  /\ (forall v a fv fa r fr, emb v = Some fv -> emb a = Some fa ->
     apply_filter FAppend v [a] = EOk r -> FiltersStr.append_f fv fa = Ok fr -> emb r = Some fr)
  /\ (forall v a fv fa r fr, emb v = Some fv -> emb a = Some fa ->
     apply_filter FPrepend v [a] = EOk r -> FiltersStr.prepend_f fv fa = Ok fr -> emb r = Some fr)
  /\ (forall v fv r fr, emb v = Some fv ->
     apply_filter FFirst v [] = EOk r -> FiltersSeq.first_f fv = Ok fr -> emb r = Some fr)
  /\ (forall v fv r fr, emb v = Some fv ->
     apply_filter FLast v [] = EOk r -> FiltersSeq.last_f fv = Ok fr -> emb r = Some fr)
  /\ (forall v fv args fsep r fr, emb v = Some fv ->
     match args, fsep with
     | [], None => True
     | [a], Some fa => emb a = Some fa
     | _, _ => False
     end ->
     apply_filter FJoin v args = EOk r -> FiltersSeq.join_f fv fsep = Ok fr -> emb r = Some fr).
Proof.
  exact (conj upcase_models_agree (conj downcase_models_agree (conj append_models_agree
        (conj prepend_models_agree (conj first_models_agree (conj last_models_agree join_models_agree)))))).
Qed.
Print Assumptions c01_filters_models_agree.

(** if / elsif / else executes exactly the branch its conditions dictate: the
    first alternative whose condition is truthy renders, whatever follows it
    (later alternatives, the else block) is irrelevant ... *)
Theorem c01_if_first_truthy_branch_renders : forall g ev rec els pre ce body post c b w,
  all_falsy ev pre c -> ev c ce = EOk w -> is_truthy w = true ->
  if_alts g ev rec els (pre ++ (ce, body) :: post) c b = block g rec body c b.
Proof. exact if_alts_first_truthy. Qed.
Print Assumptions c01_if_first_truthy_branch_renders.

Theorem c01_if_rest_irrelevant_after_truthy : forall g ev rec els els' pre ce body post post' c b w,
  all_falsy ev pre c -> ev c ce = EOk w -> is_truthy w = true ->
  if_alts g ev rec els (pre ++ (ce, body) :: post) c b =
  if_alts g ev rec els' (pre ++ (ce, body) :: post') c b.
Proof. exact if_alts_rest_irrelevant. Qed.
Print Assumptions c01_if_rest_irrelevant_after_truthy.

(** ... with no truthy condition exactly the else block renders ... *)
Theorem c01_if_no_truthy_renders_else : forall g ev rec els l c b,
  all_falsy ev l c -> if_alts g ev rec els l c b = oblock g rec els c b.
Proof. exact if_alts_none_truthy. Qed.
Print Assumptions c01_if_no_truthy_renders_else.

(** ... and a condition that fails stops the chain there, rendering nothing. *)
Theorem c01_if_error_stops_chain : forall g ev rec els pre ce body post c b r,
  all_falsy ev pre c -> ev c ce = r -> (forall w, r <> EOk w) ->
  if_alts g ev rec els (pre ++ (ce, body) :: post) c b = mk (of_eres_status r) c b.
Proof. exact if_alts_error_stops. Qed.
Print Assumptions c01_if_error_stops_chain.

(** for: `break` ends the loop normally and the items after the current one are
    never looked at ... *)
Theorem c01_break_ignores_remaining_items : forall g rec x key len parent body it its its' i c b,
  st (block g rec body (loop_ctx x key len parent it i c) b) = SBrk ->
  for_iter g rec x key len parent body (it :: its) i c b =
  for_iter g rec x key len parent body (it :: its') i c b
  /\ st (for_iter g rec x key len parent body (it :: its) i c b) = SDone.
Proof. exact for_iter_break_ignores_rest. Qed.
Print Assumptions c01_break_ignores_remaining_items.

(** ... `continue` ends the iteration, not the loop ... *)
Theorem c01_continue_goes_on_with_next_item : forall g rec x key len parent body it its i c b,
  st (block g rec body (loop_ctx x key len parent it i c) b) = SCont ->
  for_iter g rec x key len parent body (it :: its) i c b =
  let r := block g rec body (loop_ctx x key len parent it i c) b in
  for_iter g rec x key len parent body its (i + 1)%Z (cx r) (bf r).
Proof. exact for_iter_continue_goes_on. Qed.
Print Assumptions c01_continue_goes_on_with_next_item.

(** ... and a loop never hands a break or continue to what surrounds it. *)
Theorem c01_loop_absorbs_break_and_continue : forall g rec x key len parent body its i c b,
  st (for_iter g rec x key len parent body its i c b) <> SBrk /\
  st (for_iter g rec x key len parent body its i c b) <> SCont.
Proof. exact for_iter_absorbs_break_continue. Qed.
Print Assumptions c01_loop_absorbs_break_and_continue.

(** Counters: n increments of x in a row write v, v+1, ..., v+n-1 (v = the
    counter before, 0 if untouched), leave the counter at v+n, and touch no
    other counter and no variable ... *)
Theorem c01_increments_count : forall g ld fuel x n c b,
  null b = false ->
  let r := nodes (render g ld (S fuel)) (repeat (NIncrement x) n) c b in
  st r = SDone /\
  counter_val x (cx r) = (counter_val x c + Z.of_nat n)%Z /\
  text (bf r) = text b ++ count_up (counter_val x c) n /\
  null (bf r) = false /\
  (forall y, y <> x -> counter_val y (cx r) = counter_val y c) /\
  locals (cx r) = locals c /\ scopes (cx r) = scopes c.
Proof. exact increments_count. Qed.
Print Assumptions c01_increments_count.

(** ... n decrements write v-1, ..., v-n and leave it at v-n. *)
Theorem c01_decrements_count : forall g ld fuel x n c b,
  null b = false ->
  let r := nodes (render g ld (S fuel)) (repeat (NDecrement x) n) c b in
  st r = SDone /\
  counter_val x (cx r) = (counter_val x c - Z.of_nat n)%Z /\
  text (bf r) = text b ++ count_down (counter_val x c) n /\
  null (bf r) = false /\
  (forall y, y <> x -> counter_val y (cx r) = counter_val y c) /\
  locals (cx r) = locals c /\ scopes (cx r) = scopes c.
Proof. exact decrements_count. Qed.
Print Assumptions c01_decrements_count.

(** Cycles are periodic: the j-th use of a cycle of n items picks item
    (p + j) mod n (p = earlier uses), and does not advance any other cycle. *)
Theorem c01_cycle_is_periodic : forall key n k c,
  fst (cycle_run c key n k) = map (fun j => ((cycle_pos key c + Z.of_nat j) mod n)%Z) (seq 0 k) /\
  cycle_pos key (snd (cycle_run c key n k)) = (cycle_pos key c + Z.of_nat k)%Z /\
  (forall k', k' <> key -> cycle_pos k' (snd (cycle_run c key n k)) = cycle_pos k' c).
Proof. exact cycle_is_periodic. Qed.
Print Assumptions c01_cycle_is_periodic.

(** Loop helper variables: the helpers of one forloop object are consistent
    with each other - index = index0 + 1, rindex = rindex0 + 1,
    index0 + rindex = length, first iff index0 = 0, last iff rindex0 = 0. *)
Theorem c01_forloop_helper_laws : forall name len idx parent,
  let fl := VForLoop name len idx parent in
  exists i i0 r r0 f la,
    raw_getitem fl (VStr s_index) = GOk (VInt i) /\
    raw_getitem fl (VStr s_index0) = GOk (VInt i0) /\
    raw_getitem fl (VStr s_rindex) = GOk (VInt r) /\
    raw_getitem fl (VStr s_rindex0) = GOk (VInt r0) /\
    raw_getitem fl (VStr s_length) = GOk (VInt len) /\
    raw_getitem fl (VStr s_first) = GOk (VBool f) /\
    raw_getitem fl (VStr s_last) = GOk (VBool la) /\
    raw_getitem fl (VStr s_name) = GOk (VStr name) /\
    raw_getitem fl (VStr s_parentloop) = GOk parent /\
    i0 = idx /\ i = (i0 + 1)%Z /\ r = (r0 + 1)%Z /\ (i0 + r)%Z = len /\
    f = (i0 =? 0)%Z /\ la = (r0 =? 0)%Z.
Proof. exact forloop_helper_laws. Qed.
Print Assumptions c01_forloop_helper_laws.

(** ... and the k-th item of a loop is rendered with the forloop object whose
    index0 is k and whose length is the loop's (one step of the iteration). *)
Theorem c01_for_iteration_step : forall g rec x key len parent body it its i c b,
  for_iter g rec x key len parent body (it :: its) i c b =
  let r := block g rec body (loop_ctx x key len parent it i c) b in
  match st r with
  | SDone | SCont => for_iter g rec x key len parent body its (i + 1)%Z (cx r) (bf r)
  | SBrk => finish_loop SDone (cx r) (bf r)
  | s => finish_loop s (cx r) (bf r)
  end.
Proof. exact for_iter_cons. Qed.
Print Assumptions c01_for_iteration_step.

(** capture: the tag writes nothing to the caller's buffer, whatever the
    outcome of its block (completion, break, continue, error, fuel). *)
Theorem c01_capture_writes_nothing : forall g ld fuel x body c b,
  bf (render g ld (S fuel) (NCapture x body) c b) = b.
Proof. exact capture_writes_nothing. Qed.
Print Assumptions c01_capture_writes_nothing.

(** `{% capture x %}body{% endcapture %}{{ x }}`: when the block completes and
    no block scope shadows [x], the pair leaves [x] bound, as a local, to exactly
    the text the block wrote to its private buffer and writes that text. *)
Theorem c01_capture_then_output : forall g ld fuel x body c b,
  let r := block g (render g ld (S fuel)) body c empty_buf in
  st r = SDone ->
  chain_lookup x (scopes (cx r)) = None ->
  let c' := set_locals (cx r) (dict_set x (VStr (text (bf r))) (locals (cx r))) in
  nodes (render g ld (S (S fuel))) [NCapture x body; NOutput (EPath x [])] c b
  = mk SDone c' (write b (text (bf r))).
Proof. exact capture_then_output. Qed.
Print Assumptions c01_capture_then_output.

(** ... which is the text the block appends when it runs in place: for the
    output, capturing and printing is the same as not capturing. *)
Theorem c01_capture_then_output_is_body : forall g ld fuel x body c b,
  null b = false ->
  let r := block g (render g ld (S fuel)) body c empty_buf in
  st r = SDone ->
  chain_lookup x (scopes (cx r)) = None ->
  text (bf (nodes (render g ld (S (S fuel))) [NCapture x body; NOutput (EPath x [])] c b))
  = text (bf (block g (render g ld (S fuel)) body c b)).
Proof. exact capture_then_output_is_body. Qed.
Print Assumptions c01_capture_then_output_is_body.

(** `{% assign x = e %}{{ x }}`: when [e] evaluates to [v] (not a live forloop
    object) and no block scope shadows [x], the pair writes what `{{ e }}` writes
    and leaves [x] bound to [v] as a local, the rest of the context untouched. *)
Theorem c01_assign_then_output : forall g ld fuel x e v c b,
  eval (S fuel) c e = EOk v ->
  has_forloop v = false ->
  chain_lookup x (scopes c) = None ->
  let c' := set_locals c (dict_set x v (locals c)) in
  nodes (render g ld (S (S fuel))) [NAssign x e; NOutput (EPath x [])] c b
  = mk (st (write_value (EOk v) c b)) c' (bf (write_value (EOk v) c b)).
Proof. exact assign_then_output. Qed.
Print Assumptions c01_assign_then_output.

Theorem c01_assign_then_output_is_output : forall g ld fuel x e v c b,
  eval (S fuel) c e = EOk v ->
  has_forloop v = false ->
  chain_lookup x (scopes c) = None ->
  bf (nodes (render g ld (S (S fuel))) [NAssign x e; NOutput (EPath x [])] c b)
  = bf (render g ld (S (S fuel)) (NOutput e) c b).
Proof. exact assign_then_output_text. Qed.
Print Assumptions c01_assign_then_output_is_output.

(** `unless c` is `if not c`: same branch, same elsif/else alternatives, same
    errors, for every condition, context and buffer (given fuel enough to
    evaluate the condition). *)
Theorem c01_unless_is_if_not : forall g ld f cond conseq alts els c b,
  eval f c cond <> EFuel ->
  render g ld (S (S f)) (NUnless cond conseq alts els) c b
  = render g ld (S (S f)) (NIf (ENot cond) conseq alts els) c b.
Proof. exact unless_is_if_not. Qed.
Print Assumptions c01_unless_is_if_not.

(** include shares the caller's context: after `{% include 'p' %}` with p =
    `{% assign x = v %}` the caller has [x] bound to [v] as a local and everything
    else exactly as before (contrast: c07_render_writes_nothing_back). *)
Theorem c01_include_assign_is_visible_after : forall g ld f tn x v c b,
  mem_str s_include (disabled c) = false ->
  assoc tn ld = Some [NAssign x (ELit v)] ->
  has_forloop v = false ->
  (depth_limit g <? scope_size c + 1)%Z = false ->
  render g ld (S (S (S f))) (NInclude (ELit (VStr tn)) None []) c b
  = mk SDone (set_locals c (dict_set x v (locals c))) b.
Proof. exact include_assign_is_visible_after. Qed.
Print Assumptions c01_include_assign_is_visible_after.

(** `{% liquid ... %}` is exactly the block of its line statements (layout of
    the statements does not matter); a comment writes and changes nothing. *)
Theorem c01_liquid_tag_is_its_block : forall g ld f body c b,
  render g ld (S f) (NLiquid body) c b = block g (render g ld f) body c b.
Proof. exact liquid_tag_is_its_block. Qed.
Print Assumptions c01_liquid_tag_is_its_block.

Theorem c01_comment_is_inert : forall g ld f c b,
  render g ld (S f) NComment c b = mk SDone c b.
Proof. exact comment_is_inert. Qed.
Print Assumptions c01_comment_is_inert.
