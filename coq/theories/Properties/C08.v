(** C08 — Template inheritance resolves every block to its most-derived override.
    Only property theorems live here, each closed by [exact] and followed by
    [Print Assumptions].  Model and specification: Kernels/Inherit.v
    ([render_name limit sp ld name] is env.get_template(name).render() with
    context_depth_limit = [limit] and suppress_blank_control_flow_blocks =
    [sp]; [spec_inherit] is the reference page: a block tag is never blank,
    with [sp] a body of whitespace and silent tags only contributes nothing). *)
From LQ Require Import Base.Str Kernels.Inherit Proofs.Inherit_proofs.

(** inherit_resolves_most_derived, guarded (see the refutation below): for
    every loader (chains of any length, any block structure, circular or
    broken chains included) and every leaf that starts with its extends tag,
    whatever the code produces -- a page, RequiredBlockError,
    TemplateInheritanceError, TemplateNotFoundError -- is what the
    specification defines, unless the context-depth limit stopped the render. *)
Theorem c08_inherit_resolves_most_derived_partial : forall limit sp (ld : loader) name n rest r,
  assoc name ld = Some (Ext n :: rest) ->
  render_name limit sp ld name = r -> r <> cde ->
  exists f, spec_inherit f sp ld name = r /\ r <> OutOfFuel.
Proof. exact inherit_resolves_most_derived_partial. Qed.
Print Assumptions c08_inherit_resolves_most_derived_partial.

(** ... and conversely every answer of the specification is what the code
    renders once context_depth_limit exceeds the depth of the page: the
    limit never produces a different page. *)
Theorem c08_inherit_spec_is_rendered : forall f sp (ld : loader) name n rest r limit,
  assoc name ld = Some (Ext n :: rest) ->
  spec_inherit f sp ld name = r -> r <> OutOfFuel ->
  f + 5 <= limit ->
  render_name limit sp ld name = r.
Proof. exact inherit_spec_is_rendered. Qed.
Print Assumptions c08_inherit_spec_is_rendered.

(** The specification is a (partial) function of the loader and the name. *)
Theorem c08_spec_deterministic : forall f1 f2 sp ld name r1 r2,
  spec_inherit f1 sp ld name = r1 -> spec_inherit f2 sp ld name = r2 ->
  r1 <> OutOfFuel -> r2 <> OutOfFuel -> r1 = r2.
Proof. exact spec_inherit_deterministic. Qed.
Print Assumptions c08_spec_deterministic.

(** The unguarded statement is false on the unchanged code (defect 30):
    text before the leaf's extends tag is emitted. *)
Theorem c08_inherit_resolves_most_derived_refuted :
  exists limit sp (ld : loader) name leaf r,
    assoc name ld = Some leaf /\ ext_of leaf <> None /\
    render_name limit sp ld name = r /\ r <> cde /\
    forall f, spec_inherit f sp ld name <> r.
Proof. exact inherit_resolves_most_derived_refuted. Qed.
Print Assumptions c08_inherit_resolves_most_derived_refuted.

(** Mechanism: after the walk, the stack of every block name holds the
    chain's definitions of that name, most derived first. *)
Theorem c08_block_stacks_are_definitions : forall ch st n,
  Forall (fun t => wf_template t = true) ch ->
  stack_of (fold_left (fun s t => store_blocks s (find_blocks t)) ch st) n
  = stack_of st n ++ defs ch n.
Proof. exact stacks_are_definitions. Qed.
Print Assumptions c08_block_stacks_are_definitions.

Theorem c08_required_unoverridden_rejected :
  forall limit sp (ld : loader) name n rest f ch m d sup ts req body e its,
  6 <= limit -> assoc name ld = Some (Ext n :: rest) ->
  forallb endok_item (Ext n :: rest) = true ->
  spec_chain f ld [] (Ext n :: rest) = Ok ch ->
  defs ch m = d :: sup -> b_req d = true ->
  last ch [] = map Text ts ++ Blk m req body e :: its ->
  render_name limit sp ld name = reqerr.
Proof. exact required_unoverridden_rejected. Qed.
Print Assumptions c08_required_unoverridden_rejected.

Theorem c08_duplicate_block_rejected : forall limit sp (ld : loader) name n rest t,
  4 <= limit -> assoc name ld = Some (Ext n :: rest) ->
  on_chain ld (Ext n :: rest) t -> ~ NoDup (map b_name (find_blocks t)) ->
  render_name limit sp ld name = tie.
Proof. exact duplicate_block_rejected. Qed.
Print Assumptions c08_duplicate_block_rejected.

Theorem c08_two_extends_rejected : forall limit sp (ld : loader) name n rest t,
  4 <= limit -> assoc name ld = Some (Ext n :: rest) ->
  on_chain ld (Ext n :: rest) t -> 1 < length (find_exts t) ->
  render_name limit sp ld name = tie.
Proof. exact two_extends_rejected. Qed.
Print Assumptions c08_two_extends_rejected.

Theorem c08_endblock_name_mismatch_rejected : forall limit sp (ld : loader) name n rest t,
  4 <= limit -> assoc name ld = Some (Ext n :: rest) ->
  on_chain ld (Ext n :: rest) t -> forallb endok_item t = false ->
  render_name limit sp ld name = tie.
Proof. exact endblock_name_mismatch_rejected. Qed.
Print Assumptions c08_endblock_name_mismatch_rejected.

(** Circular chains: for every loader, the walk ends within its fixed fuel
    ([length ld + 2] steps) with TemplateInheritanceError. *)
Theorem c08_circular_chain_rejected_and_terminates : forall limit sp (ld : loader) name n rest,
  4 <= limit -> assoc name ld = Some (Ext n :: rest) ->
  circular ld (Ext n :: rest) ->
  render_name limit sp ld name = tie
  /\ build_block_stacks ld [] (Ext n :: rest) = tie.
Proof. exact circular_chain_rejected_and_terminates. Qed.
Print Assumptions c08_circular_chain_rejected_and_terminates.

(** _build_block_stacks never needs more than [length ld + 2] steps, whatever
    the loader (cyclic included), the stacks it starts from and the leaf. *)
Theorem c08_chain_walk_terminates : forall ld st leaf,
  build_block_stacks ld st leaf <> OutOfFuel.
Proof. exact build_terminates. Qed.
Print Assumptions c08_chain_walk_terminates.
