(** C18 — Whitespace control changes nothing but whitespace.
    Only property theorems live here, each closed by [exact] and followed by
    [Print Assumptions].  Model: Kernels/Trim.v. *)
From LQ Require Import Base.Str Kernels.Trim Proofs.Trim_proofs.
From LQ Require Kernels.FVal Kernels.LexUni Kernels.Translate Kernels.Inherit Proofs.CrossModel_ws.

(** [Environment.trim], for every text, marker pair and default: erasing
    whitespace from the result gives the same as erasing it from the text, and
    the result is a contiguous piece of the text whose removed prefix and
    suffix are whitespace only. *)
Theorem c18_trim_only_removes_ws : forall dt t l r,
  erase_ws (trim dt t l r) = erase_ws t
  /\ exists a b, t = a ++ trim dt t l r ++ b /\ all_ws a = true /\ all_ws b = true.
Proof. exact trim_only_removes_ws_proof. Qed.
Print Assumptions c18_trim_only_removes_ws.

(** For every token tree, marker assignment, default_trim, suppression
    setting and data: parsing (the left_trim / trim_carry threading) and
    rendering (trim at render time, blank block suppression) give, once
    whitespace is erased, what the reference renderer gives, which writes every
    text verbatim and never looks at a marker; both fail on the same trees. *)
Theorem c18_render_is_reference_modulo_ws : forall cf t d,
  map_res erase_ws (run cf t d) = map_res erase_ws (plain_run t d).
Proof. exact run_erase_plain_proof. Qed.
Print Assumptions c18_render_is_reference_modulo_ws.

(** Two token trees that differ only in their markers, under any two
    configurations (default_trim in {+,-,~,default} x suppression on/off),
    render to outputs that are equal after whitespace is erased. *)
Theorem c18_markers_change_only_ws : forall cf cf' t t' d,
  unmark t = unmark t' ->
  map_res erase_ws (run cf t d) = map_res erase_ws (run cf' t' d).
Proof. exact markers_change_only_ws_proof. Qed.
Print Assumptions c18_markers_change_only_ws.

(** With default_trim "+" and no marker other than "+": every ContentNode's
    trim is the identity, and with suppression off the whole output is exactly
    the reference rendering: text is reproduced character for character. *)
Theorem c18_no_trim_is_verbatim : forall cf t d,
  default_trim cf = Plus -> no_trim_markers t = true -> wf t = true ->
  (exists a, parse cf t = Ok a
     /\ Forall (fun p => trim (default_trim cf) (fst (fst p)) (snd (fst p)) (snd p) = fst (fst p))
               (content_pairs a))
  /\ (suppress cf = false -> run cf t d = plain_run t d).
Proof. exact no_trim_is_verbatim_proof. Qed.
Print Assumptions c18_no_trim_is_verbatim.

(** What blank-block suppression discards is whitespace: a node list whose
    [blank] flag is set writes only whitespace, for every configuration, data
    and variable state. *)
Theorem c18_suppression_only_ws : forall cf d a st,
  blank_nodes a = true -> all_ws (fst (render_nodes cf d a st)) = true.
Proof. exact suppression_only_ws_proof. Qed.
Print Assumptions c18_suppression_only_ws.

(** The parser's carry is adjacency: every ContentNode is trimmed on the left
    by the right marker of the markup token immediately before it (by
    default_trim if there is none) and on the right by the left marker of the
    markup token immediately after it — across block boundaries, end tags,
    else/elsif/when tags, comments and raw. *)
Theorem c18_carry_is_adjacent : forall cf t a,
  parse cf t = Ok a ->
  content_pairs a = adjacent_pairs (default_trim cf) (flatten t).
Proof. exact carry_is_adjacent_proof. Qed.
Print Assumptions c18_carry_is_adjacent.

(** A "-" on the right of a markup token removes the whole whitespace run that
    follows it, provided the run is a single content token ... *)
Theorem c18_right_marker_trims_whole_run_partial : forall dt toks,
  no_adjacent_content toks = true -> right_marker_honoured dt toks.
Proof. exact right_marker_trims_whole_run_partial_proof. Qed.
Print Assumptions c18_right_marker_trims_whole_run_partial.

(** ... and not when the lexer has split the run into two content tokens
    (known finding content-run-split-at-final-newline; the parser logic does
    not look past the first content token). *)
Theorem c18_right_marker_trims_whole_run_refuted :
  exists dt toks, ~ right_marker_honoured dt toks.
Proof. exact right_marker_trims_whole_run_refuted_proof. Qed.
Print Assumptions c18_right_marker_trims_whole_run_refuted.

(** The whitespace table of this kernel ([Trim.is_ws], what [str.strip()] and
    [str.isspace()] recognise) is the same function, on every code point, as the
    independently written tables of the C19, C17, C15 and C08 kernels (the last
    on the code points below 256 it covers); each is also compared with the
    running CPython by its own harness. *)
Theorem c18_whitespace_tables_agree : forall c : N,
  Trim.is_ws c = FVal.py_isspace c
  /\ LexUni.is_space c = FVal.py_isspace c
  /\ Translate.is_space c = FVal.py_isspace c
  /\ (c < 256 -> Inherit.is_ws c = FVal.py_isspace c)%N.
Proof. exact CrossModel_ws.isspace_models_agree. Qed.
Print Assumptions c18_whitespace_tables_agree.
