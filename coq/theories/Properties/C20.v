(** C20 — Literals denote exactly what is written; json output decodes to its input.
    Only property theorems live here, each closed by [exact] and followed by
    [Print Assumptions].  Models: Kernels/Unescape.v, Kernels/StrScan.v,
    Kernels/NumLit.v, Kernels/Json.v.

    [Enc q s raw] (Proofs/StrScan_proofs.v): [raw] is any valid spelling of the
    string [s] inside quotes [q] — a concatenation of pieces [LPiece q c p], one
    per character [c]: the character itself (not a backslash, not the quote,
    code point >= 8), one of [\\ \/ \b \f \n \r \t \$] or the escaped quote,
    [\uXXXX] (any letter case, not a surrogate, >= 8), or a high/low surrogate
    pair of [\uXXXX]s for an astral character.  [EncT] additionally has no [$]
    written as itself directly before a [{] written as itself. *)
From LQ Require Import Base.Str Kernels.Unescape Kernels.StrScan Kernels.NumLit Kernels.Json
  Proofs.Unescape_proofs Proofs.StrScan_proofs Proofs.NumLit_proofs Proofs.Json_proofs.
Local Open Scope N_scope.

(** Every valid spelling, for ALL strings: the path-segment scanner accepts it
    as one literal (and stops at the closing quote), every parse site denotes
    exactly [s], and the bracketed path segment resolves the key [s]. *)
Theorem c20_literal_roundtrip_segment : forall q s raw rest st,
  is_quote q -> Enc q s raw ->
  accept_string q (raw ++ q :: rest) = Ok (raw, q :: rest)
  /\ site_value st q raw = Ok s
  /\ exists seg, path_segment q (raw ++ q :: rest) = Ok (seg, rest) /\ unescape seg = Ok s.
Proof. exact literal_roundtrip_segment. Qed.
Print Assumptions c20_literal_roundtrip_segment.

(** The same for the scanner of every other string literal (output, filter
    argument, tag argument), whatever the sub-expression scanner is: one plain
    string token whose value at every site is exactly [s]. *)
Theorem c20_literal_roundtrip_token : forall (E : Type) (sub : str -> res (E * str)) q s raw rest st ev,
  is_quote q -> EncT q s raw ->
  accept_template_string E sub q (raw ++ q :: rest) = Ok (TPlain raw, rest)
  /\ token_value E st q ev (TPlain raw) = Ok s.
Proof. exact literal_roundtrip_token. Qed.
Print Assumptions c20_literal_roundtrip_token.

(** Interpolation: [raw0 ${b1} raw1 ${b2} raw2 ...] splits exactly at the
    unescaped [${ }] groups, and evaluates to the concatenation of the spelled
    strings and the values of the sub-expressions, in order. *)
Theorem c20_template_string_parts : forall (E : Type) (sub : str -> res (E * str)) q s0 raw0 it its rest st ev,
  is_quote q -> EncT q s0 raw0 -> Forall (item_ok E sub q) (it :: its) ->
  accept_template_string E sub q (raw0 ++ items_src E (it :: its) (q :: rest))
  = Ok (TTemplate (emit E raw0 ++ items_parts E (it :: its)), rest)
  /\ token_value E st q ev (TTemplate (emit E raw0 ++ items_parts E (it :: its)))
     = Ok (s0 ++ items_value E ev (it :: its)).
Proof. exact template_string_parts. Qed.
Print Assumptions c20_template_string_parts.

(** Invalid spellings are rejected: whatever a scanner accepts and a site
    gives a value to is a valid spelling of that value. *)
Theorem c20_literal_sound_segment : forall q src raw rest st s,
  is_quote q -> accept_string q src = Ok (raw, rest) -> site_value st q raw = Ok s ->
  Enc q s raw /\ src = raw ++ rest /\ hd_error rest = Some q.
Proof. exact literal_sound_segment. Qed.
Print Assumptions c20_literal_sound_segment.

Theorem c20_literal_sound_token : forall (E : Type) (sub : str -> res (E * str)) q src raw rest st s,
  is_quote q -> accept_template_string E sub q src = Ok (TPlain raw, rest) ->
  site_value st q raw = Ok s ->
  Enc q s raw /\ src = raw ++ q :: rest.
Proof. exact literal_sound_token. Qed.
Print Assumptions c20_literal_sound_token.

(** [unescape] decodes exactly the concatenations of pieces ... *)
Theorem c20_unescape_iff : forall raw s, unescape raw = Ok s <-> UEnc s raw.
Proof. exact unescape_iff. Qed.
Print Assumptions c20_unescape_iff.

(** ... and everything else is a LiquidSyntaxError, never a Python exception,
    on every string (lone surrogates included). *)
Theorem c20_unescape_rejects_invalid : forall v, ok_or_syntax (unescape v).
Proof. exact unescape_total. Qed.
Print Assumptions c20_unescape_rejects_invalid.

Theorem c20_literal_errors_segment : forall q src st,
  is_quote q ->
  match accept_string q src with
  | Ok (raw, rest) => ok_or_syntax (site_value st q raw)
  | LErr LiquidSyntaxError None => True
  | _ => False
  end.
Proof. exact literal_errors_segment. Qed.
Print Assumptions c20_literal_errors_segment.

(** The same for the scanner of every other literal: it raises nothing but
    LiquidSyntaxError (and never runs out of fuel) whenever the sub-expression
    scanner does so and returns a suffix of its input. *)
Theorem c20_literal_errors_token : forall (E : Type) (sub : str -> res (E * str)),
  (forall x, ok_or_syntax (sub x)) ->
  (forall x e r, sub x = Ok (e, r) -> (length r <= length x)%nat) ->
  forall q src, ok_or_syntax (accept_template_string E sub q src).
Proof. exact literal_errors_token. Qed.
Print Assumptions c20_literal_errors_token.

(** Every INT spelling [-?D+([eE]\+?D+)?] denotes exactly [(+|-)D * 10^X], at any
    magnitude, or is rejected with LiquidValueError beyond the digit limit. *)
Theorem c20_int_literal_exact : forall limit sp,
  intsp_wf sp ->
  parse_integer_literal limit (intsp_src sp) =
  if intsp_within limit sp then Ok (intsp_value sp) else LErr LiquidValueError None.
Proof. exact int_literal_exact. Qed.
Print Assumptions c20_int_literal_exact.

Theorem c20_int_classified : forall sp,
  intsp_wf sp -> num_token (intsp_src sp) = Some (KInt, intsp_src sp, []).
Proof. exact int_classified. Qed.
Print Assumptions c20_int_classified.

(** FLOAT spellings (both alternatives of the regex) are classified FLOAT and
    reach [float()] as exactly the decimal written. *)
Theorem c20_float_classified : forall sp,
  floatsp_wf sp ->
  num_token (floatsp_src sp) = Some (KFloat, floatsp_src sp, [])
  /\ float_decimal (floatsp_src sp) = Some (floatsp_decimal sp).
Proof. exact float_classified. Qed.
Print Assumptions c20_float_classified.

(** The json filter emits JSON that decodes to its input, for every JSON-like
    value (null, booleans, integers of any size, strings of Unicode scalar
    values, lists, dicts with string keys, nested to any depth). *)
Theorem c20_json_roundtrip : forall v, jv_ok v -> json_decode (json_filter v) = Some v.
Proof. exact json_roundtrip. Qed.
Print Assumptions c20_json_roundtrip.

(** Non-vacuity for ALL strings: every string of scalar values >= U+0008 has a
    valid spelling (its JSON text, minus the quotes, is one). *)
Theorem c20_spelling_exists : forall s,
  str_ok s -> Forall (fun c => 8 <= c) s -> Enc DQ s (json_body s).
Proof. exact enc_exists. Qed.
Print Assumptions c20_spelling_exists.

(** Conversely, whatever the number rule of the lexer returns is a prefix of
    the text and a spelling of the kind it is classified as. *)
Theorem c20_num_token_sound : forall s k v r,
  num_token s = Some (k, v, r) ->
  s = v ++ r /\
  match k with
  | KInt => exists sp, intsp_wf sp /\ v = intsp_src sp
  | KFloat => exists sp, floatsp_wf sp /\ v = floatsp_src sp
  end.
Proof. exact num_token_sound. Qed.
Print Assumptions c20_num_token_sound.
