(** C03 — Async rendering is observationally identical to sync rendering.
    Only property theorems live here, each closed by [exact] and followed by
    [Print Assumptions].  Models: Kernels/AsyncTwin.v (the sync/async method
    pairs that differ textually after normalisation — harness/c03_twins.py
    re-derives that list from the source tree on every run),
    Kernels/Interleave.v (coroutines as interleaved atomic segments). *)
From LQ Require Import Base.Str Kernels.LRU Kernels.CacheLoader Kernels.AsyncTwin
  Kernels.Interleave Proofs.CacheLoader_proofs Proofs.AsyncTwin_proofs Proofs.Interleave_proofs.

(** Every modelled differing twin is observationally equal to its sync half,
    for all inputs: base-class delegation; drained generator vs list;
    liquid2.render; Filter.evaluate (class and token; the message differs);
    LoopExpression.evaluate; _AnyExpression; children generators; IfNode
    re-entering the ConditionalBlockNode; CallNode; get_item on drops whose
    two getters agree; BaseLoader.load; tpl_up_to_date (equal for plain
    callbacks, the sync half only errs towards reloading for coroutine
    callbacks); the executor indirection of the file-system loaders. *)
Theorem c03_async_eq_sync_twins :
  (forall A B (override : A -> res B) x, delegate_async override x = delegate_sync override x)
  /\ (forall A B C (f : A -> res B) (g : C -> B -> C) xs acc,
        drain_lazy f g acc xs = drain_eager f g acc xs)
  /\ (forall Src T Out (fs : Src -> res T) (r : T -> res Out) s,
        toplevel_render_async fs r s = toplevel_render fs r s)
  /\ (forall V name tok (call : fout V),
        observe (filter_evaluate_async name tok call) = observe (filter_evaluate name tok call))
  /\ (forall i, loop_evaluate_async i = loop_evaluate i)
  /\ (forall E V (eval : E -> res V) eqv left exprs,
        any_evaluate_async eval eqv left exprs = any_evaluate eval eqv left exprs)
  /\ (forall Nd R (body : bool -> res (list Nd)) (visit : list Nd -> res R) ip,
        visit_children_async body visit ip = visit_children body visit ip)
  /\ (forall St Cnd Blk (eval : St -> Cnd -> res bool) (block_rto : St -> Blk -> res (str * St))
             (disabled : St -> list str) st cond cons alts default,
        if_rto_async eval block_rto disabled st cond cons alts default
        = if_rto eval block_rto disabled st cond cons alts default)
  /\ (forall M R (wu : bool -> res R) (cm : M -> res R) v, call_rto_async wu cm v = call_rto wu cm v)
  /\ (forall V (obj : pyobj V) key, coherent obj -> get_item_async obj key = get_item obj key)
  /\ (forall gs gsa name g, gsa name = gs name -> base_load_async gsa name g = base_load gs name g)
  /\ (forall cb, sync_flavour cb -> tpl_up_to_date_async cb = tpl_up_to_date cb)
  /\ (forall cb, well_typed_cb cb -> tpl_up_to_date cb = true -> tpl_up_to_date_async cb = true)
  /\ (forall rp rd name a b, fs_get_source rp rd name = Ok a ->
        fs_get_source_async rp rd name = Ok b -> fs_source_same a b)
  /\ (forall rp rd name, is_ok (fs_get_source_async rp rd name) = is_ok (fs_get_source rp rd name))
  /\ (forall sm p m, fs_uptodate_async sm p m = fs_uptodate sm p m)
  /\ (forall rp sm name p m, fs_is_current_async rp sm name p m = fs_is_current rp sm name p m).
Proof. exact async_eq_sync_twins. Qed.
Print Assumptions c03_async_eq_sync_twins.

(** load_async names the template as load does (after proposed_fixes/C03/0001),
    so include/render ... with bind the same variable, and it attaches the
    same freshness callback. *)
Theorem c03_load_async_names_as_load : forall gs gsa name g t ta alias,
  gsa name = gs name ->
  base_load gs name g = Ok t -> base_load_async gsa name g = Ok ta ->
  tt_name ta = tt_name t /\ with_key alias ta = with_key alias t
  /\ tt_uptodate ta = tt_uptodate t.
Proof. exact load_async_names_as_load. Qed.
Print Assumptions c03_load_async_names_as_load.

(** The unchanged tree: load_async kept the requested name (defect 9). *)
Theorem c03_load_async_unfixed_refuted :
  exists tpl name g t ta,
    base_load (dict_get_source tpl) name g = Ok t
    /\ base_load_async_unfixed (dict_get_source tpl) name g = Ok ta
    /\ with_key None ta <> with_key None t.
Proof. exact load_async_unfixed_refuted. Qed.
Print Assumptions c03_load_async_unfixed_refuted.

(** The pure-drop premise of get_item is needed. *)
Theorem c03_get_item_incoherent_refuted :
  exists (obj : pyobj N) key, get_item_async obj key <> get_item obj key.
Proof. exact get_item_incoherent_refuted. Qed.
Print Assumptions c03_get_item_incoherent_refuted.

(** Interleaving independence: for every schedule that lets every coroutine
    finish, every set of coroutines and every shared state, if the shared
    state satisfies an invariant towards which every segment is transparent
    (keeps it; hands its own render the same thing from any shared state that
    satisfies it), each render's result is its result when run alone.
    Private states are disjoint by the type of [segment]. *)
Theorem c03_interleaving_independent :
  forall (P S : Type) (inv : S -> Prop) (sched : list nat) (cs : list (coroutine P S)) (sh : S),
  inv sh -> Forall (transparent_co inv) cs ->
  finished (fst (run sched cs sh)) = true ->
  results (run sched cs sh) = map (run_alone sh) cs.
Proof. exact interleaving_independent. Qed.
Print Assumptions c03_interleaving_independent.

(** The transparency hypothesis discharged for the caching loader of C14:
    renders that load templates (each load an await point), sources not
    modified meanwhile, any cache content consistent with the sources. *)
Theorem c03_interleaving_independent_caching_loader :
  forall (c : cfg) (sched : list nat) (renders : list (list load_call)) (s : st),
  wf_cfg c -> Forall (wf_calls c) renders ->
  Inv c s -> fail_next s = false -> consistent s ->
  let cs := map (loader_coroutine c) renders in
  finished (fst (run sched cs s)) = true ->
  results (run sched cs s) = map (run_alone s) cs.
Proof. exact interleaving_independent_caching_loader. Qed.
Print Assumptions c03_interleaving_independent_caching_loader.

(** Known finding shared-cached-template-globals-rebound: a caller that holds
    a cached Template across an await renders with the globals of whoever
    loaded the same name last. *)
Theorem c03_interleaving_independent_rebound_refuted :
  exists sched (cs : list (coroutine (list (str * N)) (list (str * N)))) sh,
    finished (fst (run sched cs sh)) = true
    /\ results (run sched cs sh) <> map (run_alone sh) cs.
Proof. exact interleaving_independent_rebound_refuted. Qed.
Print Assumptions c03_interleaving_independent_rebound_refuted.

(** ... and independence holds when no two coroutines hold the same cached
    template with different globals. *)
Theorem c03_interleaving_independent_rebound_partial :
  forall (G : str -> N) (sched : list nat) (progs : list (list rop)) (sh : list (str * N)),
  rebind_inv G sh -> Forall (Forall (rop_agrees G)) progs ->
  let cs := map rcoroutine progs in
  finished (fst (run sched cs sh)) = true ->
  results (run sched cs sh) = map (run_alone sh) cs.
Proof. exact interleaving_independent_rebound_partial. Qed.
Print Assumptions c03_interleaving_independent_rebound_partial.
