(** C04 — Auto-escape: untrusted data never reaches the output unescaped.
    Only property theorems live here, each closed by [exact] and followed by
    [Print Assumptions].  Model: Kernels/Markup.v; proofs: Proofs/Markup_proofs.v.

    Characters carry an origin tag (bit 24): data characters are tagged,
    template literals and engine-produced text are not.  [Tainted s] says that
    [s] contains a tagged character whose code point is one of the five
    HTML-significant ones.  [lib_ok L] is the explicit premise about the library
    functions the model keeps abstract (strip_tags, html.unescape, unquote,
    json.dumps): they commute with erasing tags, and strip_tags maps a string
    without tainted characters to one without. *)
From LQ Require Import Base.Str Kernels.Markup Proofs.Markup_proofs.

(** T1: [markupsafe.escape] removes every taint, for every string. *)
Theorem c04_escape_untaints : forall s, ~ Tainted (escape s).
Proof. exact escape_untaints. Qed.
Print Assumptions c04_escape_untaints.

(** T1, per-filter dataflow obligation: every modelled filter except [safe],
    applied to a value none of whose Markup strings is tainted, with arguments
    of which the same holds (template literals, or data), returns such a value. *)
Theorem c04_filter_preserves_safe_inv : forall L f v r,
  lib_ok L -> filter_ok f = true -> safe_inv v -> eval_filter L f v = Ok r -> safe_inv r.
Proof. exact filter_preserves_safe_inv. Qed.
Print Assumptions c04_filter_preserves_safe_inv.

(** T1, tags never influence behaviour: erasing the tags of the inputs of any
    filter erases the tags of its outcome and changes nothing else. *)
Theorem c04_tag_transparent_filter : forall L f v,
  lib_ok L ->
  eval_filter L (untag_filter f) (untag_val v) = res_map untag_val (eval_filter L f v).
Proof. exact tag_transparent_filter. Qed.
Print Assumptions c04_tag_transparent_filter.

(** ... and the same for a whole output statement (literal / data / template
    string / capture on the left, then a filter chain). *)
Theorem c04_tag_transparent_output : forall L e ch,
  lib_ok L ->
  output L (untag_left e) (map untag_filter ch) = res_map untag (output L e ch).
Proof. exact tag_transparent_output. Qed.
Print Assumptions c04_tag_transparent_output.

(** T2 (kernel tier): whatever [{{ left | chain }}] writes is untainted, for
    every left expression built from literals, data values, template strings
    and captures of output statements, and every chain of admitted filters. *)
Theorem c04_autoescape_sound : forall L e ch out,
  lib_ok L -> left_ok e = true -> forallb filter_ok ch = true ->
  output L e ch = Ok out -> ~ Tainted out.
Proof. exact autoescape_sound. Qed.
Print Assumptions c04_autoescape_sound.

(** The property's quantifier: for ALL data values [d] (strings saturated with
    the five characters, nested in lists, ...), entirely tagged. *)
Theorem c04_autoescape_sound_chain : forall L ch d out,
  lib_ok L -> forallb filter_ok ch = true ->
  output L (LVal (tag_all d)) ch = Ok out -> ~ Tainted out.
Proof. exact autoescape_sound_chain. Qed.
Print Assumptions c04_autoescape_sound_chain.

(** The tagged run is the real run: the untagged render of the same chain on
    the same data writes the same text. *)
Theorem c04_autoescape_real_run : forall L ch d out,
  lib_ok L -> val_small d -> val_plain d ->
  output L (LVal (tag_all d)) ch = Ok out ->
  output L (LVal d) (map untag_filter ch) = Ok (untag out).
Proof. exact autoescape_real_run. Qed.
Print Assumptions c04_autoescape_real_run.

(** The premise [lib_ok] is satisfiable. *)
Theorem c04_lib_ok_satisfiable : lib_ok lib_id.
Proof. exact lib_id_ok. Qed.
Print Assumptions c04_lib_ok_satisfiable.

(** The exclusion of [safe] is necessary. *)
Theorem c04_safe_filter_refuted :
  exists d out, output lib_id (LVal (tag_all d)) [FSafe] = Ok out /\ Tainted out.
Proof. exact safe_filter_refuted. Qed.
Print Assumptions c04_safe_filter_refuted.

(** The [date] filter (current code, no cache): a data format is always escaped
    on output, whatever the date library does ... *)
Theorem c04_date_data_format_escaped : forall strftime dat fmt,
  fst fmt = false -> ~ Tainted (tls_ae (vstr (date_filter strftime dat fmt))).
Proof. exact date_data_format_escaped_now. Qed.
Print Assumptions c04_date_data_format_escaped.

(** ... and with a literal format the Markup result is untainted provided
    strftime maps an untainted format to an untainted text (explicit premise). *)
Theorem c04_date_preserves_safe_inv : forall strftime dat fmt,
  (forall d f r, Clean f -> strftime d f = Some r -> Clean r) ->
  m_ok fmt = true -> m_ok (date_filter strftime dat fmt) = true.
Proof. exact date_preserves_safe_inv. Qed.
Print Assumptions c04_date_preserves_safe_inv.

(** HISTORICAL (the code before fix c40f103; DESIGN 10 row 32): with the
    process-wide lru_cache around [date] the property was FALSE across renders:
    a call whose format is data was answered with the Markup computed for an
    equal literal format.  The harness re-runs this witness on every run. *)
Theorem c04_date_cache_refuted :
  exists (strftime : str -> str -> str) dat f,
    let c1 := snd (date_call strftime [] dat (true, f)) in
    let r2 := fst (date_call strftime c1 dat (false, tag_str f)) in
    let want := date_spec strftime dat (false, tag_str f) in
    fst r2 = true /\ fst want = false
    /\ untag (snd r2) = untag (snd want) /\ Tainted (snd want)
    /\ tls_ae (vstr r2) = snd r2.
Proof. exact date_cache_refuted. Qed.
Print Assumptions c04_date_cache_refuted.

(** HISTORICAL: under the guard that excludes exactly that (no cached entry for
    the key was filled by a call with the other Markup bit), a data format was
    always escaped on output. *)
Theorem c04_date_data_format_escaped_partial : forall strftime c dat fmt,
  (forall r, cache_find (dat, snd fmt) c = Some r -> fst r = fst fmt) ->
  fst fmt = false ->
  ~ Tainted (tls_ae (vstr (fst (date_call strftime c dat fmt)))).
Proof. exact date_data_format_escaped. Qed.
Print Assumptions c04_date_data_format_escaped_partial.
