(** C11 — Static analysis over-approximates runtime usage and reports exact
    locations.  Only property theorems live here, each closed by [exact] and
    followed by [Print Assumptions].
    Model: Kernels/Analysis.v (the analysis visitor of static_analysis.py with
    every node / expression method it calls, and a tracing interpreter of the
    same fragment).  Proofs: Proofs/Analysis_proofs.v.

    In every theorem: [get] is the loader (partials and parents), [name]/[nodes]
    the template being analysed and rendered, [analyze get true fuel name nodes
    = Ok R] says that the analysis (include_partials=True) finished with report
    R (it did not raise TemplateNotFoundError and the fuel sufficed), and
    [name = [] \/ get name = Some nodes] says that the template is the one the
    loader serves under its own name (or is anonymous).  The render is
    quantified over every interpreter fuel and every oracle, i.e. over all
    data: each truthiness test, loop length, when-match, lambda application
    count, cycle index and partial binding mode is an arbitrary oracle value.
    [reads] is the table of names filters resolve from the context themselves. *)
From LQ Require Import Base.Str Kernels.Analysis Proofs.Analysis_proofs.

(** Every root name a render resolves through the context - in the template
    itself, in partials, parents, macro bodies, overriding blocks and
    block.super - is a key of analyze().variables. *)
Theorem c11_analysis_sound_variables : forall get reads fuel name nodes R,
  analyze get true fuel name nodes = Ok R -> (name = [] \/ get name = Some nodes) ->
  forall fuel' oracle x k,
    In (EvLookup x k) (trace get reads fuel' name nodes oracle) -> In x (variables_of R).
Proof. exact analysis_sound_variables_lemma. Qed.
Print Assumptions c11_analysis_sound_variables.

(** Every tag a render executes is reported, at its exact location: the
    (template name, span) of the rendered node is in analyze().tags[tag]. *)
Theorem c11_analysis_sound_tags : forall get reads fuel name nodes R,
  analyze get true fuel name nodes = Ok R -> (name = [] \/ get name = Some nodes) ->
  forall fuel' oracle tag tn sp,
    In (EvTag tag tn sp) (trace get reads fuel' name nodes oracle) ->
    In tag (tag_names_of R) /\
    exists spans, assoc tag (a_tags R) = Some spans /\ In (tn, sp) spans.
Proof. exact analysis_sound_tags_lemma. Qed.
Print Assumptions c11_analysis_sound_tags.

(** Filters: the full statement is refuted by the model (and by the engine:
    known finding ternary-left-filters-unreported) ... *)
Theorem c11_analysis_sound_filters_refuted :
  exists get reads fuel name nodes R fuel' oracle f flag,
    analyze get true fuel name nodes = Ok R /\ (name = [] \/ get name = Some nodes) /\
    In (EvFilter f flag) (trace get reads fuel' name nodes oracle) /\
    ~ In f (filter_names_of R).
Proof. exact analysis_sound_filters_refuted_lemma. Qed.
Print Assumptions c11_analysis_sound_filters_refuted.

(** ... and holds for every filter application that is not a filter of the left
    branch of a ternary expression (flag false). *)
Theorem c11_analysis_sound_filters_partial : forall get reads fuel name nodes R,
  analyze get true fuel name nodes = Ok R -> (name = [] \/ get name = Some nodes) ->
  forall fuel' oracle f,
    In (EvFilter f false) (trace get reads fuel' name nodes oracle) -> In f (filter_names_of R).
Proof. exact analysis_sound_filters_partial_lemma. Qed.
Print Assumptions c11_analysis_sound_filters_partial.

(** A name that a render resolves (whichever layer answers) and that no node of
    the program binds - by assign, capture, increment/decrement, for, with,
    macro parameters, block, arguments of include/render, lambda parameters -
    is reported as a global. *)
Theorem c11_globals_sound : forall get reads fuel name nodes R,
  analyze get true fuel name nodes = Ok R -> (name = [] \/ get name = Some nodes) ->
  forall fuel' oracle x k,
    In (EvLookup x k) (trace get reads fuel' name nodes oracle) ->
    ~ Bound get name nodes x ->
    In x (global_variables_of R).
Proof. exact globals_sound_lemma. Qed.
Print Assumptions c11_globals_sound.

(** The globals clause does not extend to the names filters and tags read from
    the context on their own (known finding implicit-context-lookup) ... *)
Theorem c11_implicit_lookup_refuted :
  exists get reads fuel name nodes R fuel' oracle x,
    analyze get true fuel name nodes = Ok R /\ (name = [] \/ get name = Some nodes) /\
    In (EvResolve x KGlobal) (trace get reads fuel' name nodes oracle) /\
    ~ Bound get name nodes x /\
    ~ In x (variables_of R) /\ ~ In x (global_variables_of R).
Proof. exact implicit_lookup_refuted_lemma. Qed.
Print Assumptions c11_implicit_lookup_refuted.

(** ... nor to a per-occurrence reading: a partial is analysed once, in the
    scope of its first use, so a later use that does look the name up in the
    global namespace is not reported (the name is bound elsewhere in the program). *)
Theorem c11_globals_per_occurrence_refuted :
  exists get reads fuel name nodes R fuel' oracle x,
    analyze get true fuel name nodes = Ok R /\ (name = [] \/ get name = Some nodes) /\
    In (EvLookup x KGlobal) (trace get reads fuel' name nodes oracle) /\
    ~ In x (global_variables_of R).
Proof. exact globals_per_occurrence_refuted_lemma. Qed.
Print Assumptions c11_globals_per_occurrence_refuted.

(** analyze_async() returns what analyze() returns, provided the loader's async
    entry point serves the same templates as the sync one. *)
Theorem c11_analyze_async_eq : forall (get_async get : loader) incl fuel name nodes,
  (forall n, get_async n = get n) ->
  analyze_async get_async get incl fuel name nodes = analyze get incl fuel name nodes.
Proof. exact analyze_async_eq_lemma. Qed.
Print Assumptions c11_analyze_async_eq.

(** Non-vacuity. *)
Theorem c11_nonvacuous :
  exists R, analyze nv_loader true 10 [] nv_main = Ok R /\
    In (EvLookup a_s KGlobal) (trace nv_loader no_reads 10 [] nv_main [2%N]) /\
    In (EvFilter upcase_s false) (trace nv_loader no_reads 10 [] nv_main [2%N]) /\
    In (EvTag include_tag_s [] (16, 33)%Z) (trace nv_loader no_reads 10 [] nv_main [2%N]) /\
    In a_s (variables_of R) /\ In a_s (global_variables_of R) /\ In upcase_s (filter_names_of R).
Proof. exact analysis_sound_nonvacuous. Qed.
Print Assumptions c11_nonvacuous.

Theorem c11_globals_nonvacuous :
  In (EvLookup a_s KGlobal) (trace no_loader no_reads 10 [] nv_glob []) /\
  ~ Bound no_loader [] nv_glob a_s.
Proof. exact globals_sound_nonvacuous. Qed.
Print Assumptions c11_globals_nonvacuous.
