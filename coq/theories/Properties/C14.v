From LQ Require Import Base.Str Kernels.LRU Kernels.CacheLoader Proofs.LRU_proofs Proofs.CacheLoader_proofs.
