(** C14 — Caching loaders are transparent.
    Only property theorems live here, each closed by [exact] and followed by
    [Print Assumptions].  Model: Kernels/LRU.v, Kernels/CacheLoader.v. *)
From LQ Require Import Base.Str Kernels.LRU Kernels.CacheLoader
  Proofs.LRU_proofs Proofs.CacheLoader_proofs.

(** The cache never exceeds its capacity and never holds two entries for one
    key, in every state reachable by any history. *)
Theorem c14_cache_le_capacity_nodup : forall c ops,
  wf_cfg c -> Forall (wf_op c) ops ->
  lru_len (cache (final c (init c) ops)) <= c_cap c
  /\ NoDup (lru_keys (cache (final c (init c) ops))).
Proof. exact cache_le_capacity. Qed.
Print Assumptions c14_cache_le_capacity_nodup.

(** The OrderedDict-based cache refines the recency-list LRU specification:
    lookups move the key to the front ... *)
Theorem c14_lru_get_refines : forall (c : lru tmpl) k,
  lru_inv c ->
  match lru_get c k with
  | Some (v, c') => spec_get (lru_abs c) k = Some (v, lru_abs c')
  | None => spec_get (lru_abs c) k = None
  end.
Proof. exact lru_get_refines. Qed.
Print Assumptions c14_lru_get_refines.

(** ... insertions keep the [cap] most recently used entries ... *)
Theorem c14_lru_set_refines : forall (c : lru tmpl) k v,
  lru_inv c -> lru_abs (lru_set c k v) = spec_set (cap c) (lru_abs c) k v.
Proof. exact lru_set_refines. Qed.
Print Assumptions c14_lru_set_refines.

(** ... and what a full cache evicts is exactly its least recently used entry. *)
Theorem c14_evicts_least_recently_used : forall (c : lru tmpl) k v,
  lru_inv c -> assoc k (od c) = None -> length (od c) = cap c ->
  lru_abs (lru_set c k v) = (k, v) :: removelast (lru_abs c).
Proof. exact lru_evicts_least_recent. Qed.
Print Assumptions c14_evicts_least_recently_used.

(** Transparency, for every history, configuration and call: a load-and-render
    step answers with what the non-caching loader gives at that moment (or
    fails while the source is failing); only when auto-reload is off or the
    loader has no freshness information may it instead answer with what an
    earlier load for the same cache key obtained, that entry not having been
    evicted since.  [via] distinguishes a direct get_template from a load made
    with a render context (include / render / extends, or get_template with a
    context argument): such a load never re-binds the cached object, and still
    serves the caller its own globals.  *)
Theorem c14_caching_transparent : forall c ops name ns g0 a via,
  wf_cfg c -> Forall (wf_op c) ops -> wf_call c ns ->
  let s := final c (init c) ops in
  let ob := fst (step c s (Load name ns g0 a via)) in
  let g := g0 in
  ob = truth c s name ns g
  \/ (fail_next s = true /\ ob = NotFound)
  \/ ((c_auto_reload c && c_fresh c = false) /\
      exists ct, ob = Loaded ct g /\ loaded_before c ops (cache_key c name ns) ct).
Proof. exact caching_transparent. Qed.
Print Assumptions c14_caching_transparent.

(** A served template is always bound to the caller's own globals. *)
Theorem c14_callers_globals : forall c s name ns g a rebind ct g',
  fst (cached_load c s name ns g a rebind) = Loaded ct g' -> g' = g.
Proof. exact loaded_globals_are_callers. Qed.
Print Assumptions c14_callers_globals.

(** Namespace isolation: the entry cached under the key of (name, namespace)
    was read from the source of (name, namespace), in every reachable state. *)
Theorem c14_namespace_isolated : forall c ops name ns t,
  wf_cfg c -> Forall (wf_op c) ops -> wf_call c ns ->
  In (cache_key c name ns, t) (od (cache (final c (init c) ops))) ->
  t_key t = source_key c name ns.
Proof.
  intros c ops name ns t Hc Hf Hw.
  exact (cached_entry_source c _ name ns t Hc (final_inv c ops Hc Hf _ (init_inv c Hc)) Hw).
Qed.
Print Assumptions c14_namespace_isolated.

(** A cache hit made with a render context (include / render / extends, or
    get_template with a context argument) that needs no reload serves the caller
    the template bound to its OWN globals, and leaves every cached entry - the
    one that was hit included - bound as its holder left it: only the recency
    order changes (the defect fixed in /repo cbb1e05 was the first half, the one
    fixed in 65f8ab3 the second). *)
Theorem c14_context_hit_own_globals_bindings_kept : forall c s name ns g a t ch1,
  lru_get (cache s) (cache_key c name ns) = Some (t, ch1) ->
  c_auto_reload c && negb (is_up_to_date s t a) = false ->
  let r := cached_load c s name ns g a false in
  fst r = Loaded (t_content t) g /\
  (forall k, assoc k (od (cache (snd r))) = assoc k (od (cache s))) /\
  store (snd r) = store s.
Proof. exact context_hit_serves_own_globals_and_keeps_bindings. Qed.
Print Assumptions c14_context_hit_own_globals_bindings_kept.
