(** C09 — A render depends only on its inputs, never on earlier or concurrent renders.
    Only property theorems live here, each closed by [exact] and followed by
    [Print Assumptions].  Model: Kernels/Session.v; proofs: Proofs/Session_proofs.v.

    [step fuel s o] is one call of a history on the session [s] (environments
    with their registers and loader caches, the Template objects the caller
    holds, the clock); [final fuel init ops] is the session after the history
    [ops] started in a new process; [erase ops] is [ops] without its renders,
    failed renders, liquid2.render() calls and analyses, i.e. the same
    environments, templates and clock built afresh.  Every theorem holds for
    every [fuel] (the bound of the interpreter's recursion). *)
From LQ Require Import Base.Str Kernels.Session Proofs.Session_proofs.

(** The full statement — the result of ANY call after ANY history equals the
    result of that call on freshly built objects — is false for the code as it
    is: a caching loader validates a partial template against the filter
    register of the moment it parsed it, so after a filter is removed, whether
    an earlier render had already loaded the partial shows (known finding
    stale-parse-after-filter-removal). *)
Theorem c09_history_independent_refuted :
  exists fuel ops o,
    fst (step fuel (final fuel init ops) o) <> fst (step fuel (final fuel init (erase ops)) o).
Proof. exact history_independent_refuted. Qed.
Print Assumptions c09_history_independent_refuted.

(** Under the exact guard that excludes it (no filter is REMOVED from an
    environment whose loader caches), for all histories and all calls: the
    result of the call after the history equals its result on objects built
    afresh with the same sources, configuration, loader contents, bound
    globals and clock value.  Covers counters, cycles, offset: continue,
    captures, macros, block stacks, now / today / 'now' | date, and the
    globals of shared cached templates. *)
Theorem c09_history_independent_partial : forall fuel ops o,
  guardedb fuel init ops = true ->
  fst (step fuel (final fuel init ops) o) = fst (step fuel (final fuel init (erase ops)) o).
Proof. exact history_independent_partial. Qed.
Print Assumptions c09_history_independent_partial.

(** A render — successful, or failing at its k-th data access or k-th loader
    call, for every k —, a liquid2.render() call or an analysis, run on ANY
    session, leaves the clock, every held Template and every field of every
    environment as they were, except that a caching loader may hold more parsed
    partials: every entry it already held is untouched, and a non-caching
    loader's environment is not changed at all. *)
Theorem c09_failed_render_leaves_no_trace : forall fuel s o,
  is_render_like o = true ->
  let s' := snd (step fuel s o) in
  clock s' = clock s /\ owned s' = owned s /\
  Forall2 (fun E E' => exists c, E' = upd_cache E c
                        /\ (forall n g, assoc n (e_cache E) = Some g -> assoc n c = Some g)
                        /\ (e_caching E = false -> c = e_cache E))
          (envs s) (envs s').
Proof. exact render_leaves_no_trace. Qed.
Print Assumptions c09_failed_render_leaves_no_trace.

(** With non-caching loaders the session after it is the session before it. *)
Theorem c09_failed_render_leaves_session_unchanged : forall fuel s o,
  is_render_like o = true -> Forall (fun E => e_caching E = false) (envs s) ->
  snd (step fuel s o) = s.
Proof. exact render_leaves_session_unchanged. Qed.
Print Assumptions c09_failed_render_leaves_session_unchanged.

(** ... and (under the guard) what a caching loader keeps of it cannot be
    observed: deleting the call from the middle of any history changes the
    result of no later call. *)
Theorem c09_failed_render_unobservable_partial : forall fuel ops1 r ops2 o,
  is_render_like r = true ->
  guardedb fuel init (ops1 ++ r :: ops2) = true ->
  fst (step fuel (final fuel init (ops1 ++ r :: ops2)) o)
  = fst (step fuel (final fuel init (ops1 ++ ops2)) o).
Proof. exact render_unobservable_partial. Qed.
Print Assumptions c09_failed_render_unobservable_partial.

(** Configuring one environment (env.globals[x] = v, env.filters[name] = f,
    del env.filters[name]) changes the result of no call that concerns another
    environment, whatever happens in between (no guard). *)
Theorem c09_environments_independent : forall fuel ops1 c ops2 o e1 e2,
  config_on e1 c = true -> e2 <> e1 ->
  env_of_op (final fuel init (ops1 ++ c :: ops2)) o = Some e2 ->
  fst (step fuel (final fuel init (ops1 ++ c :: ops2)) o)
  = fst (step fuel (final fuel init (ops1 ++ ops2)) o).
Proof. exact environments_independent. Qed.
Print Assumptions c09_environments_independent.

(** Every Render step of every history runs its program from a context with no
    local, counter, cycle, stop index, macro, block stack or output in it, whose
    globals are the render arguments over the template's global_data, with the
    fault counters at zero. *)
Theorem c09_per_render_state_fresh : forall fuel s h d fa fl e E p tg,
  resolve s h = Some (e, E, p, tg) ->
  fst (step fuel s (Render h d fa fl))
  = obs_of (fun rb => OText (r_out (fst rb)))
      (fst (run_gen (load_partial E) (renv_of E (clock s) fa fl) fuel p p
              {| l_cache := e_cache E; l_acc := 0; l_lds := 0 |} (start_ctx tg d)))
  /\ (r_locals (start_ctx tg d) = [] /\ r_counters (start_ctx tg d) = []
      /\ r_cycles (start_ctx tg d) = [] /\ r_stop (start_ctx tg d) = []
      /\ r_macros (start_ctx tg d) = [] /\ r_extends (start_ctx tg d) = []
      /\ r_disabled (start_ctx tg d) = [] /\ r_out (start_ctx tg d) = [])
  /\ r_globals (start_ctx tg d) = [FMap d; FMap tg].
Proof. exact per_render_state_fresh. Qed.
Print Assumptions c09_per_render_state_fresh.

(** Rendering the same template with the same data twice in a row gives the
    same result (successful or not): nothing of the first render is visible to
    the second. *)
Theorem c09_render_repeatable : forall fuel ops h d fa fl,
  guardedb fuel init ops = true ->
  fst (step fuel (final fuel init (ops ++ [Render h d fa fl])) (Render h d fa fl))
  = fst (step fuel (final fuel init ops) (Render h d fa fl)).
Proof. exact render_repeatable. Qed.
Print Assumptions c09_render_repeatable.
