(** C05 — Templates cannot reach Python attributes of context objects.
    Only property theorems live here, each closed by [exact] and followed by
    [Print Assumptions].  Model: Kernels/ObjAccess.v. *)
From Coq Require Import Strings.String.
From LQ Require Import Base.Str Kernels.ObjAccess Proofs.ObjAccess_proofs.

(** ForLoop.__getitem__ (`if key in self._keys: return getattr(self, key)`)
    answers a documented loop variable and nothing else: whenever it answers,
    the key is one of the nine public keys and the answer is the documented
    value of that key. *)
Theorem c05_forloop_getitem_public : forall fl k v,
  forloop_getitem fl k = Ok v -> In k forloop_keys /\ v = forloop_public fl k.
Proof. exact forloop_getitem_public. Qed.
Print Assumptions c05_forloop_getitem_public.

(** Every other name — the private slots it, item, _index, the method step,
    every dunder name — raises KeyError (rendered as Undefined). *)
Theorem c05_forloop_private_unreachable : forall fl k,
  ~ In k forloop_keys -> forloop_getitem fl k = PyExc KeyError.
Proof. exact forloop_getitem_private. Qed.
Print Assumptions c05_forloop_private_unreachable.

(** No key makes it hand out a Python-internal object (iterator, bound
    method, class, frozenset ...). *)
Theorem c05_forloop_never_internal : forall fl k t,
  forloop_getitem fl k <> Ok (FOpaque t).
Proof. exact forloop_getitem_never_opaque. Qed.
Print Assumptions c05_forloop_never_internal.

(** The same for the tablerowloop drop ... *)
Theorem c05_tablerow_getitem_public : forall t k v,
  tablerow_getitem t k = Ok v -> In k tablerow_keys /\ v = tablerow_public t k.
Proof. exact tablerow_getitem_public. Qed.
Print Assumptions c05_tablerow_getitem_public.

Theorem c05_tablerow_private_unreachable : forall t k,
  ~ In k tablerow_keys -> tablerow_getitem t k = PyExc KeyError.
Proof. exact tablerow_getitem_private. Qed.
Print Assumptions c05_tablerow_private_unreachable.

(** ... and for the block drop: 'super' only. *)
Theorem c05_blockdrop_getitem_public : forall k v,
  blockdrop_getitem k = Ok v -> k = lit "super" /\ v = FSuper.
Proof. exact blockdrop_getitem_public. Qed.
Print Assumptions c05_blockdrop_getitem_public.

(** Noninterference, exact form: for every program of the evaluator (paths
    with any segments, filters with string / lambda key arguments, if, for,
    assign, output; sync and async) and all data, the rendered text or error
    depends on no Python attribute of any context object other than the names
    in [hook_names] (force_liquid_default, gettext, __repr__), which the engine
    reaches by a fixed name. *)
Theorem c05_attrs_noninterference : forall async p d d',
  map_snd erase d = map_snd erase d' -> render async p d = render async p d'.
Proof. exact attrs_noninterference. Qed.
Print Assumptions c05_attrs_noninterference.

(** The full statement (data that agree on the protocol part render alike)
    is refuted by the default filter's read of obj.force_liquid_default
    (finding 24) ... *)
Theorem c05_attrs_noninterference_refuted :
  exists async p d d', proto_eq d d' /\ render async p d <> render async p d'.
Proof. exact attrs_noninterference_refuted. Qed.
Print Assumptions c05_attrs_noninterference_refuted.

(** ... and by the translation filters, which call .gettext on whatever the
    name `translations` resolves to, template-assigned variables included, as
    long as it has an attribute `gettext` (anything else: LiquidTypeError):
    the value returned by a Python method of a context object is rendered. *)
Theorem c05_translations_provider_refuted :
  exists d d', proto_eq d d' /\ hook_free_ns d' = true
               /\ render false w_translations d = Ok (lit "S3CR3T")
               /\ render false w_translations d' = LErr LiquidTypeError None.
Proof. exact translations_provider_refuted. Qed.
Print Assumptions c05_translations_provider_refuted.

(** ... and by str() of a dict, which shows repr() — not str() — of the
    objects inside it: {{ d }} prints what the object's __repr__ returns. *)
Theorem c05_repr_reachable_refuted :
  exists d d', proto_eq d d' /\ hook_free_ns d' = true
               /\ render false w_repr d = Ok (lit "{'k': O(secret='S3CR3T')}")
               /\ render false w_repr d' = Ok (lit "{'k': P#1}").
Proof. exact repr_reachable_refuted. Qed.
Print Assumptions c05_repr_reachable_refuted.

(** It holds under the exact guard that excludes those three sites: no object in
    the data has an attribute named force_liquid_default, gettext or __repr__. *)
Theorem c05_attrs_noninterference_partial : forall async p d d',
  hook_free_ns d = true -> hook_free_ns d' = true -> proto_eq d d' ->
  render async p d = render async p d'.
Proof. exact attrs_noninterference_partial. Qed.
Print Assumptions c05_attrs_noninterference_partial.
