(** C16 — Strict undefined raises only for missing variables and refines the
    default.  Only property theorems live here, each closed by [exact] and
    followed by [Print Assumptions].  Model: Kernels/Undefined.v
    ([render pol fuel prog data] is
    [Environment(undefined=pol).from_string(prog).render(data)]; [PProbe] is the
    run in which a failed lookup aborts with LiquidNameError instead of producing
    an undefined; [nu_data d]: the caller's data contain no Undefined object). *)
From LQ Require Import Base.Str Kernels.Undefined Proofs.Undefined_proofs.

(** Refinement, for all programs, data and fuel: whenever a render succeeds
    under StrictUndefined or FalsyStrictUndefined (or the probe), the default
    policy succeeds with the same output. *)
Theorem c16_strict_refines_default : forall pol fuel p d out,
  render pol fuel p d = Ok out -> render PDefault fuel p d = Ok out.
Proof. exact strict_refines_default. Qed.
Print Assumptions c16_strict_refines_default.

(** With the default policy a render never fails with UndefinedError. *)
Theorem c16_default_never_undefined_error : forall fuel p d pos,
  render PDefault fuel p d <> LErr UndefinedError pos.
Proof. exact default_never_undefined_error. Qed.
Print Assumptions c16_default_never_undefined_error.

(** A render under any policy fails with UndefinedError only if it performs a
    lookup (variable, property or index) that fails in the data: the probe run
    of the same program on the same data aborts at its first failed lookup. *)
Theorem c16_strict_raises_only_if_missing : forall pol fuel p d pos,
  nu_data d ->
  render pol fuel p d = LErr UndefinedError pos ->
  exists pos', render PProbe fuel p d = LErr LiquidNameError pos'.
Proof. exact strict_raises_only_if_missing. Qed.
Print Assumptions c16_strict_raises_only_if_missing.

(** If every lookup the render performs resolves, the undefined policy is
    invisible: all policies give the probe's outcome, which is not
    UndefinedError. *)
Theorem c16_policies_agree_when_nothing_is_missing : forall pol fuel p d,
  nu_data d ->
  (forall pos, render PProbe fuel p d <> LErr LiquidNameError pos) ->
  render pol fuel p d = render PProbe fuel p d
  /\ forall pos, render pol fuel p d <> LErr UndefinedError pos.
Proof. exact policies_agree_when_nothing_is_missing. Qed.
Print Assumptions c16_policies_agree_when_nothing_is_missing.

(** The outcome depends on the caller's data only through the variables the
    program mentions ([roots_b p]: every root name of every path in [p]). *)
Theorem c16_render_depends_only_on_mentioned_roots : forall pol fuel p d1 d2,
  (forall r, In r (roots_b p) -> assoc r d1 = assoc r d2) ->
  render pol fuel p d1 = render pol fuel p d2.
Proof. exact render_depends_only_on_mentioned_roots. Qed.
Print Assumptions c16_render_depends_only_on_mentioned_roots.

(** Deleting a variable the program never mentions is invisible under every
    policy (in particular it cannot make a strict render raise). *)
Theorem c16_deleting_unused_data_is_invisible : forall pol fuel p d x,
  ~ In x (roots_b p) ->
  render pol fuel p (remove_key x d) = render pol fuel p d.
Proof. exact deleting_unused_data_is_invisible. Qed.
Print Assumptions c16_deleting_unused_data_is_invisible.
