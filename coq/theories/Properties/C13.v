(** C13 — File-system and package loaders never read outside their roots.
    Only property theorems live here, each closed by [exact] and followed by
    [Print Assumptions].  Model: Kernels/PathResolve.v (the loaders with the
    three C13 [fix:] commits applied). Quantification is over ALL file systems
    [fs : ppath -> option content], search-directory lists, default extensions
    and template names (strings of code points). *)
From LQ Require Import Base.Str Kernels.PathResolve Proofs.PathResolve_proofs.

(** FileSystemLoader.resolve_path (also CachingFileSystemLoader): a returned
    path is [r/c1/.../cn], n >= 1, for a configured search directory [r], every
    [ci] an ordinary component (non-empty, not '.', not '..', no '/'), and it is
    a regular file. *)
Theorem c13_fsl_resolved_path_under_a_root : forall fs roots ext name p,
  fsl_resolve fs roots ext name = Ok p ->
  exists r, In r roots /\ under r p /\ is_file fs p = true.
Proof. exact fsl_resolve_under. Qed.
Print Assumptions c13_fsl_resolved_path_under_a_root.

(** PackageLoader._resolve_path: the same. *)
Theorem c13_pkg_resolved_path_under_a_root : forall fs roots ext name p,
  pkg_resolve fs roots ext name = Ok p ->
  exists r, In r roots /\ under r p /\ is_file fs p = true.
Proof. exact pkg_resolve_under. Qed.
Print Assumptions c13_pkg_resolved_path_under_a_root.

(** Every loader built from FileSystemLoader, PackageLoader and (nested)
    ChoiceLoader: the source it returns is the content of a file strictly
    below one of its search directories. *)
Theorem c13_resolved_path_under_a_root : forall fs l name p c,
  get_source fs l name = Ok (p, c) ->
  (exists r, In r (loader_roots l) /\ under r p) /\ fs p = Some c.
Proof. exact loader_confined. Qed.
Print Assumptions c13_resolved_path_under_a_root.

(** ChoiceLoader: confined to the union of its members' search directories. *)
Theorem c13_choice_confined : forall fs ls name p c,
  get_source fs (Choice ls) name = Ok (p, c) ->
  (exists r, In r (flat_map loader_roots ls) /\ under r p) /\ fs p = Some c.
Proof. exact (fun fs ls => loader_confined fs (Choice ls)). Qed.
Print Assumptions c13_choice_confined.

(** A name that begins with '/' (one, two or more) or that has a '..' among its
    '/'-separated components raises TemplateNotFoundError from every loader,
    whatever the file system holds and whatever the default extension is. *)
Theorem c13_escaping_names_not_found : forall fs l name,
  escaping name -> get_source fs l name = LErr TemplateNotFoundError None.
Proof. exact escaping_not_found. Qed.
Print Assumptions c13_escaping_names_not_found.

(** pathlib's notion of an anchored name is exactly "begins with '/'". *)
Theorem c13_absolute_iff_leading_slash : forall name,
  anchored (parse_path name) = true <-> exists t, name = slash :: t.
Proof. exact parse_anchored_iff. Qed.
Print Assumptions c13_absolute_iff_leading_slash.

(** Names without a final component ("", ".", "./", "././/" ...) denote a
    search directory itself: TemplateNotFoundError (not IsADirectoryError or
    ValueError). *)
Theorem c13_search_directory_itself_not_found : forall fs l name,
  p_segs (parse_path name) = [] -> get_source fs l name = LErr TemplateNotFoundError None.
Proof. exact rootlike_not_found. Qed.
Print Assumptions c13_search_directory_itself_not_found.

(** With valid default extensions, a load either returns a source or raises
    TemplateNotFoundError — no other exception for any name. *)
Theorem c13_found_or_template_not_found : forall fs l name,
  ext_okb l = true ->
  (exists p c, get_source fs l name = Ok (p, c))
  \/ get_source fs l name = LErr TemplateNotFoundError None.
Proof. exact found_or_not_found. Qed.
Print Assumptions c13_found_or_template_not_found.

(** The repaired loader still serves: an existing file r/c1/.../cn with
    ordinary components is returned for the name "c1/.../cn". *)
Theorem c13_ordinary_names_still_found : forall fs r segs c,
  Forall plain_seg segs -> segs <> [] ->
  fs (mkpath (p_anchor r) (p_segs r ++ segs)) = Some c ->
  fsl_get_source fs [r] None (join_segs segs) = Ok (mkpath (p_anchor r) (p_segs r ++ segs), c).
Proof. exact plain_name_found. Qed.
Print Assumptions c13_ordinary_names_still_found.
