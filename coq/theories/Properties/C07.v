(** C07 — render/macro scopes are isolated and block scopes do not leak.
    Model: Core/Render.v (tied to /repo by the C01 and C07 correspondence runs). *)
From LQ Require Import Core.Render Proofs.Render_proofs Proofs.Render_control Proofs.Render_lambda Proofs.Render_buffer Proofs.Render_capture.

(** Every node - for, with, include, render, call, capture, if, case ... -
    leaves the stack of block scopes, the loop stack, the current template
    name, the globals chain, the disabled-tag set and the copy depth exactly as
    it found them, for EVERY outcome: normal completion, break, continue, any
    error, even fuel exhaustion.  Hence an outer variable shadowed inside the
    construct is visible again, unchanged, afterwards. *)
Theorem c07_block_scope_balanced : forall g ld fuel n c b,
  frame c (cx (render g ld fuel n c b)).
Proof. exact render_frame. Qed.
Print Assumptions c07_block_scope_balanced.

Theorem c07_template_render_balanced : forall g ld fuel body glob name,
  let r := render_template g ld fuel body glob name in
  scopes (cx r) = [] /\ loops (cx r) = [] /\ tname (cx r) = name.
Proof. exact render_template_balanced. Qed.
Print Assumptions c07_template_render_balanced.

(** Nothing a rendered template or a macro assigns, captures or counts is
    visible to the caller: the caller's context comes back identical. *)
Theorem c07_render_writes_nothing_back : forall g ld fuel tn var args c b,
  cx (render g ld (S fuel) (NRender tn var args) c b) = c.
Proof. exact render_tag_writes_nothing_back. Qed.
Print Assumptions c07_render_writes_nothing_back.

Theorem c07_call_writes_nothing_back : forall g ld fuel name args kwargs c b,
  cx (render g ld (S fuel) (NCall name args kwargs) c b) = c.
Proof. exact call_tag_writes_nothing_back. Qed.
Print Assumptions c07_call_writes_nothing_back.

(** Non-interference: what a render tag produces depends on the caller only
    through the values of the arguments passed, the template's global data, the
    configured depth limit and the copy depth - not on the caller's locals, counters, loop variables,
    block scopes, cycles or macros. *)
Theorem c07_render_isolated : forall g ld fuel tn var args c1 c2 b,
  root_globals c1 = root_globals c2 ->
  copy_depth c1 = copy_depth c2 ->
  dlimit c1 = dlimit c2 ->
  eval_namespace (eval fuel) c1 args = eval_namespace (eval fuel) c2 args ->
  (forall il ve al, var = Some (il, ve, al) -> eval fuel c1 ve = eval fuel c2 ve) ->
  let r1 := render g ld (S fuel) (NRender tn var args) c1 b in
  let r2 := render g ld (S fuel) (NRender tn var args) c2 b in
  st r1 = st r2 /\ bf r1 = bf r2.
Proof. exact render_tag_isolated. Qed.
Print Assumptions c07_render_isolated.

(** The isolated copy starts with empty locals, scopes, counters, cycles,
    stop indexes, macros and loops, sees exactly [arguments; root globals], and
    has `include` disabled ... *)
Theorem c07_isolated_copy_is_fresh : forall g c nsp tn cc extra,
  copy_isolated g c nsp (s_include :: extra) tn = Some cc ->
  mem_str s_include (disabled cc) = true /\ locals cc = [] /\ scopes cc = [] /\
  counters cc = [] /\ cycles cc = [] /\ stopindex cc = [] /\ macros cc = [] /\ loops cc = [] /\
  globals cc = nsp :: root_globals c.
Proof. exact isolated_copy_disables_include. Qed.
Print Assumptions c07_isolated_copy_is_fresh.

(** ... and a disabled include is refused. *)
Theorem c07_include_refused_inside_render : forall g ld fuel name var args c b,
  mem_str s_include (disabled c) = true ->
  st (render g ld (S fuel) (NInclude name var args) c b) = SErr DisabledTagError.
Proof. exact include_refused_when_disabled. Qed.
Print Assumptions c07_include_refused_inside_render.

(** Lambda parameters.  Evaluating an expression returns a value and no
    context ([eval : nat -> ctx -> expr -> eres]), so the scope that binds an
    arrow function's parameters cannot outlive the filter application or change
    an outer variable; while the body runs, the parameter shadows every outer
    binding of its name. *)
Theorem c07_lambda_parameter_shadows_only_inside : forall c p ip it i,
  lookup (set_scopes c (lam_scope p ip it i :: scopes c)) p = Some it.
Proof. exact lambda_parameter_shadows. Qed.
Print Assumptions c07_lambda_parameter_shadows_only_inside.

(** Non-interference for macros: what a `call` produces depends on the caller
    only through the macros defined so far (a macro may call another macro or
    itself), the values of the arguments (and of the defaults of omitted
    parameters), the root globals, the copy depth, the depth limit and the
    template name - not on the caller's locals, counters, loop variables, block
    scopes or cycles. *)
Theorem c07_call_isolated : forall g ld fuel name args kwargs c1 c2 b,
  macros c1 = macros c2 ->
  root_globals c1 = root_globals c2 ->
  copy_depth c1 = copy_depth c2 ->
  dlimit c1 = dlimit c2 ->
  tname c1 = tname c2 ->
  (forall m, assoc name (macros c2) = Some m ->
     eval_bound (eval fuel) c1 (macro_bound m args kwargs) =
     eval_bound (eval fuel) c2 (macro_bound m args kwargs)) ->
  let r1 := render g ld (S fuel) (NCall name args kwargs) c1 b in
  let r2 := render g ld (S fuel) (NCall name args kwargs) c2 b in
  st r1 = st r2 /\ bf r1 = bf r2.
Proof. exact call_tag_isolated. Qed.
Print Assumptions c07_call_isolated.

(** render ... for: every item is rendered from the same fresh isolated copy;
    the context an item leaves behind is dropped and only the output buffer is
    threaded on, so nothing the partial assigns, captures or counts for one item
    reaches the next (the defect fixed in /repo 710b4fc). *)
Theorem c07_render_for_items_do_not_see_each_other : forall g rec body key len nsp it its i cc b,
  let nsx := dict_set key it (dict_set s_forloop (VForLoop key len i VUndef) nsp) in
  let r := partial_template g rec body (set_globals cc (nsx :: root_globals cc)) b true in
  st r = SDone ->
  render_iter g rec body key len nsp (it :: its) i cc b =
  render_iter g rec body key len nsp its (i + 1)%Z cc (bf r).
Proof. exact render_iter_ignores_what_an_item_leaves. Qed.
Print Assumptions c07_render_for_items_do_not_see_each_other.

(** render ... for, whole loop: when every item, rendered ALONE from the fresh
    isolated copy [cc] into an empty buffer, completes, the loop completes, hands
    back [cc] untouched, and appends exactly the concatenation, in order, of what
    the items write alone.  No item's text, counters, assigns or captures can
    influence another item's text, and nothing written earlier is rewritten. *)
Theorem c07_render_for_is_concatenation_of_isolated_items :
  forall g ld fuel body key len nsp its i cc b,
  null b = false ->
  items_done g (render g ld fuel) body key len nsp its i cc ->
  let r := render_iter g (render g ld fuel) body key len nsp its i cc b in
  st r = SDone /\ cx r = cc /\
  text (bf r) = text b ++ items_text g (render g ld fuel) body key len nsp its i cc.
Proof. exact render_for_is_concatenation_of_isolated_items. Qed.
Print Assumptions c07_render_for_is_concatenation_of_isolated_items.

(** with: `{% with x: e %}{{ x }}{% endwith %}` writes the value [e] has at the
    caller's context and returns the caller's context IDENTICALLY (not merely
    frame-equal): the binding of [x] exists only inside the block, whatever [x]
    was bound to outside - in a block scope, a local, a global or a counter. *)
Theorem c07_with_binding_lives_only_inside : forall g ld fuel x e v c b,
  eval (S (S fuel)) c e = EOk v ->
  (depth_limit g <? scope_size c)%Z = false ->
  render g ld (S (S (S fuel))) (NWith [(x, e)] [NOutput (EPath x [])]) c b
  = mk (st (write_value (EOk v) c b)) c (bf (write_value (EOk v) c b)).
Proof. exact with_then_output. Qed.
Print Assumptions c07_with_binding_lives_only_inside.
