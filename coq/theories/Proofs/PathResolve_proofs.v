(** Proofs about Kernels/PathResolve.v (C13): every path a loader reads lies
    component-wise strictly below one of its search directories; escaping names
    are answered with TemplateNotFoundError; no other exception; ordinary names
    are still found. *)
From LQ Require Import Base.Str Kernels.PathResolve.
From Coq Require Import Lia.

(** ** small list facts *)

Lemma mem_char_In c s : mem_char c s = true <-> In c s.
Proof.
  induction s as [|x s IH]; simpl; [split; [discriminate|tauto]|].
  rewrite orb_true_iff, IH, N.eqb_eq. split; intros [H|H]; auto.
Qed.

Lemma mem_char_false c s : mem_char c s = false <-> ~ In c s.
Proof.
  rewrite <- mem_char_In. destruct (mem_char c s); split; intro H; congruence.
Qed.

Lemma mem_str_false k l : mem_str k l = false <-> ~ In k l.
Proof.
  rewrite <- mem_str_In. destruct (mem_str k l); split; intro H; congruence.
Qed.

Lemma Forall_removelast {A} (P : A -> Prop) l : Forall P l -> Forall P (removelast l).
Proof.
  induction l as [|x l IH]; simpl; intro H; [constructor|].
  inversion H; subst. destruct l; [constructor|]. constructor; auto.
Qed.

Lemma last_In {A} (l : list A) d : l <> [] -> In (last l d) l.
Proof.
  induction l as [|x l IH]; [congruence|]. intros _. simpl.
  destruct l as [|y l]; [left; reflexivity|]. right. apply IH. discriminate.
Qed.

Lemma last_nonempty_segs (l : list str) : last l [] <> [] -> l <> [].
Proof. destruct l; simpl; congruence. Qed.

(** ** splitting and parsing *)

Lemma split_on_no_sep sep s : forall cur x,
  ~ In sep cur -> In x (split_on sep s cur) -> ~ In sep x.
Proof.
  induction s as [|c s IH]; simpl; intros cur x Hc Hx.
  - destruct Hx as [<-|[]]. rewrite <- in_rev. exact Hc.
  - destruct (N.eqb c sep) eqn:E.
    + destruct Hx as [<-|Hx]; [rewrite <- in_rev; exact Hc|].
      apply (IH [] x); [intros []|exact Hx].
    + apply N.eqb_neq in E. apply (IH (c :: cur) x); [|exact Hx].
      intros [H|H]; [congruence|auto].
Qed.

Lemma keep_seg_true x : keep_seg x = true <-> x <> [] /\ x <> [dot].
Proof.
  unfold keep_seg. destruct x as [|c x]; [split; [discriminate|intros [H _]; congruence]|].
  rewrite negb_true_iff, str_eqb_neq. split; [intro H; split; [discriminate|exact H]|tauto].
Qed.

(** What [parse_path] returns never contains an empty component, a '.' or a
    component with a separator — for every input string. *)
Lemma parse_segs_ok s x :
  In x (p_segs (parse_path s)) -> x <> [] /\ x <> [dot] /\ ~ In slash x.
Proof.
  unfold parse_path. destruct s as [|c s]; [intros []|].
  destruct (splitroot (c :: s)) as [a rel]. simpl p_segs.
  intro H. apply filter_In in H as [H1 H2]. apply keep_seg_true in H2 as [H2 H3].
  repeat split; auto. apply (split_on_no_sep slash rel [] x); [intros []|exact H1].
Qed.

Lemma splitroot_rel s : fst (splitroot s) = Rel -> splitroot s = (Rel, s).
Proof.
  destruct s as [|c0 [|c1 [|c2 s]]]; simpl; auto;
    repeat (destruct (N.eqb _ _)); simpl; intro; congruence.
Qed.

Lemma splitroot_abs s : fst (splitroot s) <> Rel <-> exists t, s = slash :: t.
Proof.
  split.
  - destruct s as [|c0 t]; simpl; [congruence|].
    destruct (N.eqb c0 slash) eqn:E; [|simpl; congruence].
    apply N.eqb_eq in E; subst. intros _. eauto.
  - intros [t ->].
    destruct t as [|c1 [|c2 t]]; simpl; repeat (destruct (N.eqb _ _)); simpl; congruence.
Qed.

Lemma parse_anchor s : p_anchor (parse_path s) = fst (splitroot s).
Proof.
  unfold parse_path. destruct s as [|c s]; [reflexivity|].
  destruct (splitroot (c :: s)); reflexivity.
Qed.

(** An absolute name is exactly a string that begins with '/'. *)
Lemma parse_anchored_iff s : anchored (parse_path s) = true <-> exists t, s = slash :: t.
Proof.
  rewrite <- splitroot_abs, <- parse_anchor. unfold anchored.
  destruct (p_anchor (parse_path s)); split; congruence.
Qed.

Lemma parse_rel_segs s :
  p_anchor (parse_path s) = Rel -> p_segs (parse_path s) = filter keep_seg (split_slash s).
Proof.
  rewrite parse_anchor. intro H. apply splitroot_rel in H.
  unfold parse_path. destruct s as [|c s]; [reflexivity|]. rewrite H. reflexivity.
Qed.

(** ** the guard of both resolve functions *)

Lemma guard_passed name :
  let tp := parse_path name in
  anchored tp || has_pardir tp = false -> p_name tp <> [] ->
  p_anchor tp = Rel /\ Forall plain_seg (p_segs tp) /\ p_segs tp <> [].
Proof.
  intros tp G Hn. apply orb_false_iff in G as [Ga Gp].
  assert (Ha : p_anchor tp = Rel) by (unfold anchored in Ga; destruct (p_anchor tp); congruence).
  split; [exact Ha|]. split; [|apply last_nonempty_segs; exact Hn].
  unfold has_pardir, p_parts in Gp. rewrite Ha in Gp. apply mem_str_false in Gp.
  apply Forall_forall. intros x Hx. destruct (parse_segs_ok name x Hx) as (H1 & H2 & H3).
  repeat split; auto. intro; subst; auto.
Qed.

(** A name caught by the guard: string-level characterisation. *)
Lemma escaping_guard name :
  escaping name -> let tp := parse_path name in anchored tp || has_pardir tp = true.
Proof.
  intros H tp. apply orb_true_iff.
  destruct (anchored tp) eqn:Ea; [left; reflexivity|right].
  assert (Ha : p_anchor tp = Rel) by (unfold anchored in Ea; destruct (p_anchor tp); congruence).
  destruct H as [H|H].
  - apply parse_anchored_iff in H. fold tp in H. congruence.
  - unfold has_pardir, p_parts. rewrite Ha. apply mem_str_In.
    unfold tp. rewrite parse_rel_segs by exact Ha. apply filter_In. split; [exact H|reflexivity].
Qed.

(** ** default extension *)

Lemma valid_suffix_cases e :
  valid_suffixb e = true -> ~ In slash e /\ (e = [] \/ exists c t, e = dot :: c :: t).
Proof.
  unfold valid_suffixb. intro H. apply andb_true_iff in H as [H1 H2].
  apply negb_true_iff, mem_char_false in H1. split; [exact H1|].
  destruct e as [|c [|c2 t]]; auto.
  - apply andb_true_iff in H2 as [_ H2]. discriminate.
  - apply andb_true_iff in H2 as [H2 _]. apply N.eqb_eq in H2; subst. right; eauto.
Qed.

Lemma plain_with_ext name e :
  plain_seg name -> valid_suffixb e = true -> plain_seg (name ++ e).
Proof.
  intros (H1 & H2 & H3 & H4) He. apply valid_suffix_cases in He as [Hs [->|(c & t & ->)]].
  - rewrite app_nil_r. repeat split; auto.
  - repeat split.
    + destruct name; simpl; congruence.
    + intro E. apply (f_equal (@length N)) in E. rewrite app_length in E. simpl in E.
      destruct name; [congruence|simpl in E; lia].
    + intro E. apply (f_equal (@length N)) in E. rewrite app_length in E. simpl in E.
      destruct name; [congruence|simpl in E; lia].
    + intro H. apply in_app_or in H as [H|H]; auto.
Qed.

(** [with_suffix] on a path without suffix keeps it relative and ordinary. *)
Lemma with_suffix_plain tp e tp' :
  p_suffix tp = [] -> with_suffix tp e = Ok tp' ->
  Forall plain_seg (p_segs tp) -> p_segs tp <> [] ->
  p_anchor tp' = p_anchor tp /\ Forall plain_seg (p_segs tp') /\ p_segs tp' <> [].
Proof.
  unfold with_suffix. intros Hs H Hp Hne.
  destruct (valid_suffixb e) eqn:He; simpl in H; [|discriminate].
  destruct (p_name tp) eqn:En; [discriminate|]. rewrite Hs in H.
  inversion H; subst; clear H. cbn [p_anchor p_segs]. split; [reflexivity|]. split.
  - apply Forall_app. split; [apply Forall_removelast; exact Hp|].
    constructor; [|constructor]. change (plain_seg ((n :: s) ++ e)). rewrite <- En. apply plain_with_ext; [|exact He].
    rewrite Forall_forall in Hp. apply Hp. unfold p_name. apply last_In. exact Hne.
  - intro E. apply app_eq_nil in E as [_ E]. discriminate.
Qed.

Lemma with_suffix_ok tp e :
  valid_suffixb e = true -> p_name tp <> [] -> exists tp', with_suffix tp e = Ok tp'.
Proof.
  unfold with_suffix. intros -> Hn. simpl. destruct (p_name tp); [congruence|]. eauto.
Qed.

(** ** search over the roots *)

Lemma first_file_ok fs roots j p :
  first_file fs roots j = Ok p -> exists r, In r roots /\ p = j r /\ is_file fs p = true.
Proof.
  induction roots as [|r roots IH]; simpl; [discriminate|].
  destruct (is_file fs (j r)) eqn:E.
  - intro H; inversion H; subst. exists r. auto.
  - intro H. destruct (IH H) as (r' & H1 & H2 & H3). exists r'. auto.
Qed.

Lemma first_file_cases fs roots j :
  (exists p, first_file fs roots j = Ok p) \/ first_file fs roots j = not_found.
Proof.
  induction roots as [|r roots IH]; simpl; [right; reflexivity|].
  destruct (is_file fs (j r)); [left; eauto|exact IH].
Qed.

Lemma joinpath_rel r tp :
  p_anchor tp = Rel -> joinpath r tp = mkpath (p_anchor r) (p_segs r ++ p_segs tp).
Proof. unfold joinpath. intros ->. reflexivity. Qed.

(** ** str(path) parsed again (PackageLoader) *)

Lemma split_on_app_nosep sep x : forall rest cur,
  ~ In sep x -> split_on sep (x ++ rest) cur = split_on sep rest (rev x ++ cur).
Proof.
  induction x as [|c x IH]; intros rest cur H; [reflexivity|]. simpl.
  destruct (N.eqb c sep) eqn:E; [apply N.eqb_eq in E; subst; exfalso; apply H; left; reflexivity|].
  rewrite IH by (intro; apply H; right; assumption). rewrite <- app_assoc. reflexivity.
Qed.

Lemma split_join_segs segs :
  Forall (fun x => ~ In slash x) segs -> segs <> [] -> split_slash (join_segs segs) = segs.
Proof.
  unfold split_slash. induction segs as [|x segs IH]; [congruence|]. intros H _.
  inversion H as [|? ? Hx Hr]; subst. destruct segs as [|y segs].
  - simpl. rewrite <- (app_nil_r x) at 1. rewrite split_on_app_nosep by exact Hx.
    simpl. rewrite app_nil_r, rev_involutive. reflexivity.
  - change (join_segs (x :: y :: segs)) with (x ++ slash :: join_segs (y :: segs)).
    rewrite split_on_app_nosep by exact Hx. cbn [split_on]. rewrite N.eqb_refl, app_nil_r, rev_involutive.
    f_equal. apply IH; [exact Hr|discriminate].
Qed.

Lemma join_segs_head x segs : exists t, join_segs (x :: segs) = x ++ t.
Proof. destruct segs; simpl; [exists []; rewrite app_nil_r; reflexivity|eauto]. Qed.

Lemma filter_keep_plain segs : Forall plain_seg segs -> filter keep_seg segs = segs.
Proof.
  induction 1 as [|x segs (H1 & H2 & _) _ IH]; [reflexivity|]. simpl.
  assert (keep_seg x = true) as -> by (apply keep_seg_true; auto). rewrite IH. reflexivity.
Qed.

(** Parsing the '/'-joined ordinary components gives them back. *)
Lemma parse_join_segs segs :
  Forall plain_seg segs -> segs <> [] -> parse_path (join_segs segs) = mkpath Rel segs.
Proof.
  intros Hp Hne. destruct segs as [|x segs]; [congruence|].
  inversion Hp as [|? ? (Hx1 & _ & _ & Hx4) _]; subst.
  destruct (join_segs_head x segs) as [t Ht].
  destruct x as [|c x]; [congruence|].
  assert (Hc : N.eqb c slash = false) by (apply N.eqb_neq; intro; subst; apply Hx4; left; reflexivity).
  unfold parse_path. rewrite Ht. simpl app. cbn [splitroot]. rewrite Hc.
  change (c :: x ++ t) with ((c :: x) ++ t). rewrite <- Ht.
  rewrite split_join_segs; [|eapply Forall_impl; [|exact Hp]; intros a (_ & _ & _ & H); exact H|discriminate].
  rewrite filter_keep_plain by exact Hp. reflexivity.
Qed.

Lemma format_rel_plain segs :
  Forall plain_seg segs -> segs <> [] -> format_path (mkpath Rel segs) = join_segs segs.
Proof.
  intros Hp Hne. unfold format_path. simpl.
  destruct segs as [|x segs]; [congruence|]. destruct (join_segs_head x segs) as [t Ht].
  inversion Hp as [|? ? (Hx1 & _) _]; subst. rewrite Ht. destruct x; [congruence|reflexivity].
Qed.

Lemma parse_format_roundtrip tp :
  p_anchor tp = Rel -> Forall plain_seg (p_segs tp) -> p_segs tp <> [] ->
  parse_path (format_path tp) = tp.
Proof.
  destruct tp as [a segs]. simpl. intros -> Hp Hne.
  rewrite format_rel_plain by assumption. apply parse_join_segs; assumption.
Qed.

(** ** FileSystemLoader *)

Lemma suffixed_plain tp (r : res ppath) tp' :
  p_anchor tp = Rel -> Forall plain_seg (p_segs tp) -> p_segs tp <> [] ->
  (r = Ok tp \/ (p_suffix tp = [] /\ exists e, r = with_suffix tp e)) -> r = Ok tp' ->
  p_anchor tp' = Rel /\ Forall plain_seg (p_segs tp') /\ p_segs tp' <> [].
Proof.
  intros Ha Hp Hne [->|(Hs & e & ->)] H.
  - inversion H; subst. auto.
  - destruct (with_suffix_plain tp e tp' Hs H Hp Hne) as (H1 & H2 & H3).
    rewrite H1. auto.
Qed.

Lemma fsl_ext_step tp ext r :
  r = match ext with
      | Some ((_ :: _) as e) => match p_suffix tp with [] => with_suffix tp e | _ => Ok tp end
      | _ => Ok tp
      end ->
  r = Ok tp \/ (p_suffix tp = [] /\ exists e, r = with_suffix tp e).
Proof.
  intros ->. destruct ext as [[|c e]|]; simpl; auto.
  destruct (p_suffix tp) eqn:E; [right; split; eauto|left; reflexivity].
Qed.

Lemma pkg_ext_step tp ext r :
  r = match p_suffix tp with [] => with_suffix tp ext | _ => Ok tp end ->
  r = Ok tp \/ (p_suffix tp = [] /\ exists e, r = with_suffix tp e).
Proof.
  intros ->. destruct (p_suffix tp) eqn:E; simpl; [right; split; eauto|left; reflexivity].
Qed.

Theorem fsl_resolve_under fs roots ext name p :
  fsl_resolve fs roots ext name = Ok p ->
  exists r, In r roots /\ under r p /\ is_file fs p = true.
Proof.
  unfold fsl_resolve. set (tp := parse_path name).
  destruct (anchored tp || has_pardir tp) eqn:G; [discriminate|].
  destruct (p_name tp) eqn:En; [discriminate|].
  assert (Hn : p_name tp <> []) by congruence. clear En.
  destruct (guard_passed name G Hn) as (Ha & Hp & Hne). fold tp in Ha, Hp, Hne.
  match goal with |- context [bind ?r _] =>
    pose proof (fsl_ext_step tp ext r eq_refl) as Hstep; remember r as step eqn:Es in * end.
  clear Es. destruct step as [tp'| | |]; simpl; try discriminate.
  destruct (suffixed_plain tp (Ok tp') tp' Ha Hp Hne Hstep eq_refl) as (Ha' & Hp' & Hne').
  intro H. apply first_file_ok in H as (r & Hr & -> & Hf).
  exists r. split; [exact Hr|]. split; [|exact Hf].
  exists (p_segs tp'). rewrite joinpath_rel by exact Ha'. auto.
Qed.

Theorem fsl_confined fs roots ext name p c :
  fsl_get_source fs roots ext name = Ok (p, c) ->
  (exists r, In r roots /\ under r p) /\ fs p = Some c.
Proof.
  unfold fsl_get_source. destruct (fsl_resolve fs roots ext name) as [q| | |] eqn:E; simpl; try discriminate.
  unfold read_file. destruct (fs q) as [c'|] eqn:F; [|discriminate].
  intro H; inversion H; subst. apply fsl_resolve_under in E as (r & H1 & H2 & _).
  split; [eauto|exact F].
Qed.

(** ** PackageLoader *)

Theorem pkg_resolve_under fs roots ext name p :
  pkg_resolve fs roots ext name = Ok p ->
  exists r, In r roots /\ under r p /\ is_file fs p = true.
Proof.
  unfold pkg_resolve. set (tp := parse_path name).
  destruct (anchored tp || has_pardir tp) eqn:G; [discriminate|].
  destruct (p_name tp) eqn:En; [discriminate|].
  assert (Hn : p_name tp <> []) by congruence. clear En.
  destruct (guard_passed name G Hn) as (Ha & Hp & Hne). fold tp in Ha, Hp, Hne.
  match goal with |- context [bind ?r _] =>
    pose proof (pkg_ext_step tp ext r eq_refl) as Hstep; remember r as step eqn:Es in * end.
  clear Es. destruct step as [tp'| | |]; simpl; try discriminate.
  destruct (suffixed_plain tp (Ok tp') tp' Ha Hp Hne Hstep eq_refl) as (Ha' & Hp' & Hne').
  rewrite (parse_format_roundtrip tp' Ha' Hp' Hne').
  intro H. apply first_file_ok in H as (r & Hr & -> & Hf).
  exists r. split; [exact Hr|]. split; [|exact Hf].
  exists (p_segs tp'). rewrite joinpath_rel by exact Ha'. auto.
Qed.

Theorem pkg_confined fs roots ext name p c :
  pkg_get_source fs roots ext name = Ok (p, c) ->
  (exists r, In r roots /\ under r p) /\ fs p = Some c.
Proof.
  unfold pkg_get_source. destruct (pkg_resolve fs roots ext name) as [q| | |] eqn:E; simpl; try discriminate.
  unfold read_file. destruct (fs q) as [c'|] eqn:F; [|discriminate].
  intro H; inversion H; subst. apply pkg_resolve_under in E as (r & H1 & H2 & _).
  split; [eauto|exact F].
Qed.

(** ** all loaders, ChoiceLoader included *)

Section loader_induction.
  Variable P : loader -> Prop.
  Hypothesis HF : forall roots ext, P (FSL roots ext).
  Hypothesis HP : forall roots ext, P (PKG roots ext).
  Hypothesis HC : forall ls, Forall P ls -> P (Choice ls).
  Fixpoint loader_ind' (l : loader) : P l :=
    match l with
    | FSL roots ext => HF roots ext
    | PKG roots ext => HP roots ext
    | Choice ls =>
        HC ls ((fix go (ls : list loader) : Forall P ls :=
                  match ls with
                  | [] => Forall_nil P
                  | x :: t => Forall_cons x (loader_ind' x) (go t)
                  end) ls)
    end.
End loader_induction.

Lemma first_ok_Ok {A B} (f : A -> res B) ls b :
  first_ok f ls = Ok b -> exists l, In l ls /\ f l = Ok b.
Proof.
  induction ls as [|l ls IH]; simpl; [discriminate|].
  destruct (f l) as [b'|c pos| |] eqn:E; try discriminate.
  - intro H; inversion H; subst. exists l. auto.
  - destruct c; try discriminate. intro H. destruct (IH H) as (l' & H1 & H2). exists l'. auto.
Qed.

Lemma first_ok_all_not_found {A B} (f : A -> res B) ls :
  (forall l, In l ls -> f l = not_found) -> first_ok f ls = not_found.
Proof.
  induction ls as [|l ls IH]; simpl; intro H; [reflexivity|].
  rewrite (H l) by auto. unfold not_found. apply IH. intros; apply H; auto.
Qed.

(** Every path any loader reads lies strictly below one of its search
    directories, with only ordinary components below it, and the content
    returned is the content of that file. *)
Theorem loader_confined fs l : forall name p c,
  get_source fs l name = Ok (p, c) ->
  (exists r, In r (loader_roots l) /\ under r p) /\ fs p = Some c.
Proof.
  induction l as [roots ext|roots ext|ls IH] using loader_ind'; intros name p c H.
  - exact (fsl_confined fs roots ext name p c H).
  - exact (pkg_confined fs roots ext name p c H).
  - simpl in H. apply first_ok_Ok in H as (m & Hm & H).
    rewrite Forall_forall in IH. destruct (IH m Hm name p c H) as ((r & Hr & Hu) & Hf).
    split; [|exact Hf]. exists r. split; [|exact Hu].
    simpl. apply in_flat_map. eauto.
Qed.

Lemma fsl_escaping fs roots ext name : escaping name -> fsl_get_source fs roots ext name = not_found.
Proof.
  intro H. unfold fsl_get_source, fsl_resolve. rewrite (escaping_guard name H). reflexivity.
Qed.

Lemma pkg_escaping fs roots ext name : escaping name -> pkg_get_source fs roots ext name = not_found.
Proof.
  intro H. unfold pkg_get_source, pkg_resolve. rewrite (escaping_guard name H). reflexivity.
Qed.

(** A name that begins with '/' or has a '..' component is answered with
    TemplateNotFoundError by every loader, whatever the file system holds. *)
Theorem escaping_not_found fs l : forall name,
  escaping name -> get_source fs l name = not_found.
Proof.
  induction l as [roots ext|roots ext|ls IH] using loader_ind'; intros name H.
  - apply fsl_escaping; exact H.
  - apply pkg_escaping; exact H.
  - simpl. apply first_ok_all_not_found. rewrite Forall_forall in IH. intros m Hm. apply IH; assumption.
Qed.

(** A name with no final component ("", ".", "./", "//", ...) names a search
    directory itself: TemplateNotFoundError. *)
Theorem rootlike_not_found fs l : forall name,
  p_segs (parse_path name) = [] -> get_source fs l name = not_found.
Proof.
  induction l as [roots ext|roots ext|ls IH] using loader_ind'; intros name H.
  - unfold get_source, fsl_get_source, fsl_resolve, p_name. rewrite H. simpl.
    destruct (anchored _ || has_pardir _); reflexivity.
  - unfold get_source, pkg_get_source, pkg_resolve, p_name. rewrite H. simpl.
    destruct (anchored _ || has_pardir _); reflexivity.
  - simpl. apply first_ok_all_not_found. rewrite Forall_forall in IH. intros m Hm. apply IH; assumption.
Qed.

(** No exception other than TemplateNotFoundError, for all names and file
    systems, when the configured default extensions are valid. *)
Lemma read_after_is_file fs p : is_file fs p = true -> exists c, read_file fs p = Ok (p, c).
Proof. unfold is_file, read_file. destruct (fs p); [eauto|discriminate]. Qed.

Lemma first_file_read fs roots j :
  (exists p c, (do p <- first_file fs roots j;; read_file fs p) = Ok (p, c))
  \/ (do p <- first_file fs roots j;; read_file fs p) = not_found.
Proof.
  destruct (first_file fs roots j) as [p| | |] eqn:E.
  - left. apply first_file_ok in E as (_ & _ & _ & Hf).
    destruct (read_after_is_file fs p Hf) as [c Hc]. simpl. eauto.
  - destruct (first_file_cases fs roots j) as [[p H]|H]; [congruence|]. rewrite E in H. right. rewrite H. reflexivity.
  - destruct (first_file_cases fs roots j) as [[p H]|H]; rewrite E in H; discriminate.
  - destruct (first_file_cases fs roots j) as [[p H]|H]; rewrite E in H; discriminate.
Qed.

Lemma fsl_total fs roots ext name :
  ext_okb (FSL roots ext) = true ->
  (exists p c, fsl_get_source fs roots ext name = Ok (p, c)) \/ fsl_get_source fs roots ext name = not_found.
Proof.
  intro He. unfold fsl_get_source, fsl_resolve. set (tp := parse_path name).
  destruct (anchored tp || has_pardir tp); [right; reflexivity|].
  destruct (p_name tp) eqn:En; [right; reflexivity|].
  assert (Hn : p_name tp <> []) by congruence.
  assert (Hs : exists tp', match ext with
              | Some ((_ :: _) as e) => match p_suffix tp with [] => with_suffix tp e | _ => Ok tp end
              | _ => Ok tp end = Ok tp').
  { destruct ext as [[|c e]|]; eauto. destruct (p_suffix tp); eauto.
    apply with_suffix_ok; [exact He|exact Hn]. }
  destruct Hs as [tp' ->]. simpl bind at 2. cbn [bind].
  apply first_file_read.
Qed.

Lemma pkg_total fs roots ext name :
  ext_okb (PKG roots ext) = true ->
  (exists p c, pkg_get_source fs roots ext name = Ok (p, c)) \/ pkg_get_source fs roots ext name = not_found.
Proof.
  intro He. unfold pkg_get_source, pkg_resolve. set (tp := parse_path name).
  destruct (anchored tp || has_pardir tp); [right; reflexivity|].
  destruct (p_name tp) eqn:En; [right; reflexivity|].
  assert (Hn : p_name tp <> []) by congruence.
  assert (Hs : exists tp', match p_suffix tp with [] => with_suffix tp ext | _ => Ok tp end = Ok tp').
  { destruct (p_suffix tp); eauto. apply with_suffix_ok; [exact He|exact Hn]. }
  destruct Hs as [tp' ->]. cbn [bind].
  apply first_file_read.
Qed.

Lemma first_ok_total {A B} (f : A -> res B) ls :
  (forall l, In l ls -> (exists b, f l = Ok b) \/ f l = not_found) ->
  (exists b, first_ok f ls = Ok b) \/ first_ok f ls = not_found.
Proof.
  induction ls as [|l ls IH]; simpl; intro H; [right; reflexivity|].
  destruct (H l (or_introl eq_refl)) as [[b Hb]|Hb]; rewrite Hb; [left; eauto|].
  unfold not_found at 1. apply IH. intros; apply H; auto.
Qed.

Theorem found_or_not_found fs l : forall name,
  ext_okb l = true ->
  (exists p c, get_source fs l name = Ok (p, c)) \/ get_source fs l name = not_found.
Proof.
  induction l as [roots ext|roots ext|ls IH] using loader_ind'; intros name He.
  - apply fsl_total; exact He.
  - apply pkg_total; exact He.
  - simpl in He. rewrite forallb_forall in He. rewrite Forall_forall in IH.
    destruct (first_ok_total (fun m => get_source fs m name) ls) as [[[p c] H]|H].
    + intros m Hm. destruct (IH m Hm name (He m Hm)) as [(p & c & H)|H]; [left; eauto|right; exact H].
    + left. simpl. eauto.
    + right. exact H.
Qed.

(** ** the fix corrects, it does not remove: ordinary names are still served *)

Lemma plain_not_dotdot segs : Forall plain_seg segs -> mem_str dotdot segs = false.
Proof.
  intro H. apply mem_str_false. intro Hin. rewrite Forall_forall in H.
  destruct (H _ Hin) as (_ & _ & H3 & _). congruence.
Qed.

Theorem plain_name_found fs r segs c :
  Forall plain_seg segs -> segs <> [] ->
  fs (mkpath (p_anchor r) (p_segs r ++ segs)) = Some c ->
  fsl_get_source fs [r] None (join_segs segs) = Ok (mkpath (p_anchor r) (p_segs r ++ segs), c).
Proof.
  intros Hp Hne Hf. unfold fsl_get_source, fsl_resolve.
  rewrite (parse_join_segs segs Hp Hne).
  unfold anchored, has_pardir, p_parts. simpl p_anchor. simpl p_segs.
  cbv iota. rewrite (plain_not_dotdot segs Hp). simpl orb. cbv iota.
  unfold p_name. simpl p_segs.
  assert (Hl : last segs [] <> []).
  { pose proof (last_In segs [] Hne) as Hin. rewrite Forall_forall in Hp.
    destruct (Hp _ Hin) as (H1 & _). exact H1. }
  destruct (last segs []) eqn:El; [congruence|].
  cbn [bind first_file]. unfold joinpath. simpl p_anchor. simpl p_segs.
  unfold is_file. rewrite Hf. cbn [bind]. unfold read_file. rewrite Hf. reflexivity.
Qed.

(** ** non-vacuity: the hypotheses above are satisfiable, on a small concrete tree *)

Local Open Scope N_scope.
Definition lit (l : list N) : str := l.
Definition ex_root : ppath := mkpath Root1 [lit [115;114;118]; lit [116]].          (* /srv/t *)
Definition ex_fs : filesys := fs_of_list
  [ (mkpath Root1 [lit [115;114;118]; lit [116]; lit [98]; lit [97;46;108]], 7%N);       (* /srv/t/b/a.l *)
    (mkpath Root1 [lit [101;116;99]; lit [112]], 9%N);                               (* /etc/p *)
    (mkpath Root1 [lit [115;114;118]; lit [120]], 8%N) ].                            (* /srv/x *)

(** "b//./a" with default extension ".l" is served from /srv/t/b/a.l ... *)
Example ex_found :
  get_source ex_fs (Choice [PKG [ex_root] [46;108]; FSL [ex_root] None]) [98;47;47;46;47;97]
  = Ok (mkpath Root1 [lit [115;114;118]; lit [116]; lit [98]; lit [97;46;108]], 7%N).
Proof. vm_compute. reflexivity. Qed.

(** ... "/etc/p" and "../x" exist on the file system and are escaping names. *)
Example ex_escaping_abs : escaping [47;101;116;99;47;112] /\ ex_fs (parse_path [47;101;116;99;47;112]) = Some 9%N.
Proof. split; [left; eauto|vm_compute; reflexivity]. Qed.

Example ex_escaping_dotdot :
  escaping [46;46;47;120] /\ ex_fs (joinpath ex_root (parse_path [46;46;47;120])) = None
  /\ ex_fs (mkpath Root1 [lit [115;114;118]; lit [120]]) = Some 8%N.
Proof. split; [right; vm_compute; auto|split; vm_compute; reflexivity]. Qed.

Example ex_under : under ex_root (mkpath Root1 [lit [115;114;118]; lit [116]; lit [98]; lit [97;46;108]]).
Proof.
  exists [lit [98]; lit [97;46;108]]. split; [discriminate|]. split; [|reflexivity].
  repeat constructor; try discriminate; simpl; intuition discriminate.
Qed.

Example ex_rootlike : p_segs (parse_path [46;47]) = [] /\ p_segs (parse_path []) = [].
Proof. split; vm_compute; reflexivity. Qed.

Example ex_ext_ok : ext_okb (Choice [PKG [ex_root] [46;108]; FSL [ex_root] None]) = true.
Proof. reflexivity. Qed.
