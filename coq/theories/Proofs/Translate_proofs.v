(** Proofs/Translate_proofs.v — what a translation filter / the translate tag
    looks up at run time is what its [message()] / [messages()] reports, when
    the message operands are string literals (mechanism lemmas of C15). *)
From LQ Require Import Base.Str Kernels.Translate.

Local Open Scope list_scope.

(** * The [t] filter: the special case "no arguments" of [Translate.message]
    agrees with the general case. *)
Lemma filter_message_t_general args l :
  filter_message {| f_name := FT; f_args := args |} (PStr l) =
  match kw_last KwPlural args with
  | Some (PStr p) =>
      match hd_error (positional args) with
      | Some (PStr c) => Some (MNpgettext c l p)
      | _ => Some (MNgettext l p)
      end
  | Some _ => None
  | None =>
      match hd_error (positional args) with
      | Some (PStr c) => Some (MPgettext c l)
      | _ => Some (MGettext l)
      end
  end.
Proof.
  unfold filter_message; simpl. destruct args as [|a args]; reflexivity.
Qed.

Lemma absent_or_pstr_some p :
  absent_or_pstr (Some p) = true -> exists s, p = PStr s.
Proof. destruct p; simpl; try discriminate. eauto. Qed.

Lemma int_arg1_cases pyint v :
  (exists n, int_arg1 pyint v = Ok n) \/ int_arg1 pyint v = LErr LiquidTypeError None.
Proof.
  unfold int_arg1. destruct (to_int pyint v) as [z|c q|k|]; eauto.
  destruct k; eauto.
Qed.

(** ** Filters: the call made for a literal operand is the message reported. *)
Lemma apply_filter_literal pyint d s f c :
  apply_filter pyint d (Some s) f = Ok (Some c) ->
  operands_literal f = true ->
  exists m, filter_message f (PStr s) = Some m /\ mtext_of_call c = Some m.
Proof.
  destruct f as [name args]. unfold apply_filter, operands_literal; cbn [f_name f_args].
  destruct name.
  - (* t *)
    rewrite filter_message_t_general.
    intros H L. apply andb_true_iff in L as [L1 L2].
    destruct (positional args) as [|p0 [|p1 P]]; cbn [map hd_error] in *.
    + destruct (kw_last KwPlural args) as [pp|].
      * apply absent_or_pstr_some in L2 as [x ->]. cbn in H. inversion H; subst. cbn. eauto.
      * cbn in H. inversion H; subst. cbn. eauto.
    + apply absent_or_pstr_some in L1 as [cx ->]. cbn in H.
      destruct (kw_last KwPlural args) as [pp|].
      * apply absent_or_pstr_some in L2 as [x ->]. cbn in H. inversion H; subst. cbn. eauto.
      * inversion H; subst. cbn. eauto.
    + discriminate.
  - (* gettext *)
    unfold filter_message; cbn [f_name f_args is_pstr].
    intros H _. destruct (positional args); cbn in H; [|discriminate].
    inversion H; subst. cbn. eauto.
  - (* ngettext *)
    unfold filter_message; cbn [f_name f_args is_pstr].
    intros H L.
    destruct (positional args) as [|p0 [|p1 [|p2 P]]]; cbn [map] in H; try discriminate.
    cbn [hd_error] in L. apply absent_or_pstr_some in L as [x ->].
    destruct (int_arg1_cases pyint (eval_prim d p1)) as [[n E]|E]; rewrite E in H; [|discriminate].
    inversion H; subst. cbn. eauto.
  - (* pgettext *)
    unfold filter_message; cbn [f_name f_args is_pstr].
    intros H L.
    destruct (positional args) as [|p0 [|p1 P]]; cbn [map] in H; try discriminate.
    cbn [hd_error] in L. apply absent_or_pstr_some in L as [x ->].
    inversion H; subst. cbn. eauto.
  - (* npgettext *)
    unfold filter_message; cbn [f_name f_args is_pstr].
    intros H L. apply andb_true_iff in L as [L1 L2].
    destruct (positional args) as [|p0 [|p1 [|p2 [|p3 P]]]]; cbn [map] in H; try discriminate.
    cbn [hd_error tl] in L1, L2.
    apply absent_or_pstr_some in L1 as [x ->]. apply absent_or_pstr_some in L2 as [y ->].
    destruct (int_arg1_cases pyint (eval_prim d p2)) as [[n E]|E]; rewrite E in H; [|discriminate].
    inversion H; subst. cbn. eauto.
  - (* other *)
    intros _ L. discriminate.
Qed.

(** A filter that is not a translation filter makes no call; a translation
    filter makes exactly the call [apply_filter] returns (by definition).  The
    id passed is the operand's text. *)
Lemma apply_filter_call_id pyint d left f c :
  apply_filter pyint d left f = Ok (Some c) -> call_id c = left.
Proof.
  destruct f as [name args]. unfold apply_filter; cbn [f_name f_args].
  destruct name.
  - destruct (map (eval_prim d) (positional args)) as [|v0 [|v1 P]]; try discriminate;
      destruct (match kw_last KwPlural args with
                | Some p => match eval_prim d p with VNil => None | v => Some (tls_arg v) end
                | None => None end);
      try destruct v0; intro H; inversion H; reflexivity.
  - destruct (map (eval_prim d) (positional args)); intro H; inversion H; reflexivity.
  - destruct (map (eval_prim d) (positional args)) as [|v0 [|v1 [|v2 P]]]; try discriminate.
    destruct (int_arg1 pyint v1); intro H; inversion H; reflexivity.
  - destruct (map (eval_prim d) (positional args)) as [|v0 [|v1 P]]; intro H; inversion H; reflexivity.
  - destruct (map (eval_prim d) (positional args)) as [|v0 [|v1 [|v2 [|v3 P]]]]; try discriminate.
    destruct (int_arg1 pyint v2); intro H; inversion H; reflexivity.
  - discriminate.
Qed.

(** * The translate tag *)

Lemma msg_text_no_parts pos : msg_text {| mb_pos := pos; mb_parts := [] |} = [].
Proof. reflexivity. Qed.

Lemma tr_call_id pyint d args sing plural c :
  tr_call pyint d args sing plural = Ok c -> call_id c = Some (msg_text sing).
Proof.
  unfold tr_call. destruct (tr_count pyint d args); try discriminate.
  intro H; inversion H; subst.
  destruct plural; destruct (match tr_context d args with
                              | Some c => if nonempty c then Some c else None
                              | None => None end); reflexivity.
Qed.

(** The family, context and ids the tag looks up are the ones it reports, when
    its context operand is a string literal (or absent) and the tag has message
    text or a plural block. *)
Lemma tr_call_literal pyint d args sing plural c :
  tr_call pyint d args sing plural = Ok c ->
  tr_literal args = true ->
  (mb_parts sing <> [] \/ plural <> None) ->
  exists m, tr_messages args sing plural = Some m /\ mtext_of_call c = Some m.
Proof.
  unfold tr_call, tr_literal, tr_messages, tr_context.
  destruct (tr_count pyint d args) as [n| | |]; try discriminate.
  intros H L NE. inversion H; subst; clear H.
  assert (G : forall (X : option mtext),
             match mb_parts sing, plural with [], None => None | _, _ => X end = X).
  { intro X. destruct (mb_parts sing); [|reflexivity].
    destruct plural; [reflexivity|]. destruct NE; congruence. }
  rewrite G. clear G.
  destruct (targ_last TaContext args) as [p0|].
  - apply absent_or_pstr_some in L as [cx ->]. cbn [eval_prim py_truthy py_str].
    destruct (nonempty cx) eqn:N.
    + rewrite N. destruct plural; cbn; eauto.
    + destruct plural; cbn; eauto.
  - destruct plural; cbn; eauto.
Qed.

(** A reportable message looked up by the tag comes from a tag with message
    text or a plural block. *)
Lemma tr_call_reportable pyint d args sing plural c m :
  tr_call pyint d args sing plural = Ok c ->
  mtext_of_call c = Some m -> reportable m = true ->
  mb_parts sing <> [] \/ plural <> None.
Proof.
  intros E M R. destruct plural as [pb|]; [right; discriminate|]. left.
  intro Z. pose proof (tr_call_id _ _ _ _ _ _ E) as I.
  destruct sing as [sp parts]. cbn [mb_parts] in Z. subst parts.
  rewrite msg_text_no_parts in I.
  unfold tr_call in E. destruct (tr_count pyint d args); try discriminate.
  inversion E; subst; clear E.
  destruct (match tr_context d args with
            | Some c => if nonempty c then Some c else None
            | None => None end); cbn in M; inversion M; subst; discriminate.
Qed.

(** * Non-vacuity *)

Example apply_filter_literal_nonvacuous :
  let f := {| f_name := FT;
              f_args := [FKw KwPlural (PStr [98%N]); FPos (PStr [99%N]); FKw KwCount (PInt 0)] |} in
  apply_filter (fun _ => None) [] (Some [97%N]) f
    = Ok (Some (CNpgettext [99%N] (Some [97%N]) [98%N] 0%Z))
  /\ operands_literal f = true
  /\ filter_message f (PStr [97%N]) = Some (MNpgettext [99%N] [97%N] [98%N]).
Proof. vm_compute. auto. Qed.

Example tr_call_literal_nonvacuous :
  let sing := {| mb_pos := 20%N; mb_parts := [MText 20%N [97%N]] |} in
  let pl := Some {| mb_pos := 21%N; mb_parts := [MText 33%N [98%N]] |} in
  let args := [(TaCount, (15%N, PInt 0))] in
  tr_call (fun _ => None) [] args sing pl = Ok (CNgettext (Some [97%N]) [98%N] 0%Z)
  /\ tr_literal args = true
  /\ tr_messages args sing pl = Some (MNgettext [97%N] [98%N]).
Proof. vm_compute. auto. Qed.
