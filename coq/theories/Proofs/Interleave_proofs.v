(** Proofs about Kernels/Interleave.v. *)
From LQ Require Import Base.Str Kernels.LRU Kernels.CacheLoader Kernels.Interleave
  Proofs.LRU_proofs Proofs.CacheLoader_proofs.

(** * The general theorem *)
Section Generic.
  Context {P S : Type}.
  Variable inv : S -> Prop.
  Variable sh0 : S.
  Hypothesis inv0 : inv sh0.

  Notation co := (coroutine P S).

  (** One step of a coroutine against the reference shared state. *)
  Definition step_priv (c : co) : co := fst (step_co c sh0).

  Lemma step_co_transparent (c : co) s :
    inv s -> transparent_co inv c ->
    fst (step_co c s) = step_priv c /\ inv (snd (step_co c s))
    /\ transparent_co inv (step_priv c).
  Proof.
    intros Hs Ht. unfold step_priv, step_co, transparent_co in *.
    destruct (co_todo c) as [|seg rest] eqn:Et; simpl.
    - repeat split; auto. rewrite Et. constructor.
    - inversion Ht as [|? ? [Hk Hi] Hrest]; subst.
      specialize (Hk (co_state c) s Hs). specialize (Hi (co_state c) s sh0 Hs inv0).
      destruct (seg (co_state c) s) as [p1 s1]. destruct (seg (co_state c) sh0) as [p2 s2].
      simpl in *. subst. repeat split; auto.
  Qed.

  Fixpoint step_nth_priv (i : nat) (cs : list co) : list co :=
    match cs, i with
    | [], _ => []
    | c :: cs', O => step_priv c :: cs'
    | c :: cs', Datatypes.S j => c :: step_nth_priv j cs'
    end.

  Lemma step_nth_transparent cs : forall i s,
    inv s -> Forall (transparent_co inv) cs ->
    fst (step_nth i cs s) = step_nth_priv i cs /\ inv (snd (step_nth i cs s))
    /\ Forall (transparent_co inv) (step_nth_priv i cs).
  Proof.
    induction cs as [|c cs IH]; intros i s Hs Hf; simpl.
    - destruct i; simpl; auto.
    - inversion Hf as [|? ? Hc Hcs]; subst. destruct i as [|j].
      + simpl. destruct (step_co_transparent c s Hs Hc) as (E & Hi & Ht).
        destruct (step_co c s) as [c' s']. simpl in *. subst. repeat split; auto.
      + simpl. destruct (IH j s Hs Hcs) as (E & Hi & Ht).
        destruct (step_nth j cs s) as [cs' s']. simpl in *. subst. repeat split; auto.
  Qed.

  Fixpoint run_priv (sched : list nat) (cs : list co) : list co :=
    match sched with
    | [] => cs
    | i :: sched' => run_priv sched' (step_nth_priv i cs)
    end.

  Lemma run_transparent sched : forall cs s,
    inv s -> Forall (transparent_co inv) cs -> fst (run sched cs s) = run_priv sched cs.
  Proof.
    induction sched as [|i sched IH]; intros cs s Hs Hf; simpl; [reflexivity|].
    destruct (step_nth_transparent cs i s Hs Hf) as (E & Hi & Ht).
    destruct (step_nth i cs s) as [cs' s']. simpl in *. subst. apply IH; auto.
  Qed.

  Fixpoint iter_priv (n : nat) (c : co) : co :=
    match n with O => c | Datatypes.S n' => iter_priv n' (step_priv c) end.

  Definition alone_priv (c : co) : P := co_state (iter_priv (length (co_todo c)) c).

  Lemma alone_priv_step c : alone_priv (step_priv c) = alone_priv c.
  Proof.
    unfold alone_priv. destruct (co_todo c) as [|seg rest] eqn:Et.
    - assert (E : step_priv c = c) by (unfold step_priv, step_co; rewrite Et; reflexivity).
      rewrite E, Et. reflexivity.
    - simpl. replace (co_todo (step_priv c)) with rest; [reflexivity|].
      unfold step_priv, step_co. rewrite Et. destruct (seg (co_state c) sh0); reflexivity.
  Qed.

  Lemma map_alone_step_nth cs : forall i, map alone_priv (step_nth_priv i cs) = map alone_priv cs.
  Proof.
    induction cs as [|c cs IH]; intros [|j]; simpl; try reflexivity.
    - rewrite alone_priv_step. reflexivity.
    - rewrite IH. reflexivity.
  Qed.

  Lemma run_priv_finished sched : forall cs,
    finished (run_priv sched cs) = true -> map co_state (run_priv sched cs) = map alone_priv cs.
  Proof.
    induction sched as [|i sched IH]; intros cs Hf; simpl in *.
    - induction cs as [|c cs IHc]; [reflexivity|]. simpl in *.
      apply andb_true_iff in Hf as [Hd Hf]. rewrite (IHc Hf). f_equal.
      unfold alone_priv, co_done in *. destruct (co_todo c); [reflexivity|discriminate].
    - rewrite (IH _ Hf). apply map_alone_step_nth.
  Qed.

  Lemma run_segments_alone segs : forall p s,
    inv s -> Forall (transparent_seg inv) segs ->
    fst (run_segments segs p s) = alone_priv {| co_state := p; co_todo := segs |}.
  Proof.
    induction segs as [|seg segs IH]; intros p s Hs Hf; [reflexivity|].
    inversion Hf as [|? ? [Hk Hi] Hrest]; subst. simpl.
    specialize (Hk p s Hs). specialize (Hi p s sh0 Hs inv0).
    destruct (seg p s) as [p1 s1] eqn:E1. simpl in *.
    rewrite (IH p1 s1 Hk Hrest). unfold alone_priv. simpl.
    unfold step_priv, step_co. simpl. destruct (seg p sh0) as [p2 s2]. simpl in *. subst.
    reflexivity.
  Qed.

  Lemma run_alone_priv s (c : co) :
    inv s -> transparent_co inv c -> run_alone s c = alone_priv c.
  Proof.
    intros Hs Ht. unfold run_alone. rewrite (run_segments_alone _ _ _ Hs Ht).
    destruct c; reflexivity.
  Qed.
End Generic.

Theorem interleaving_independent :
  forall (P S : Type) (inv : S -> Prop) (sched : list nat) (cs : list (coroutine P S)) (sh : S),
  inv sh -> Forall (transparent_co inv) cs ->
  finished (fst (run sched cs sh)) = true ->
  results (run sched cs sh) = map (run_alone sh) cs.
Proof.
  intros P S inv sched cs sh Hs Hf Hfin. unfold results.
  rewrite (run_transparent inv sh Hs sched cs sh Hs Hf) in *.
  rewrite (run_priv_finished sh sched cs Hfin).
  apply map_ext_in. intros c Hin. symmetry. apply (run_alone_priv inv sh Hs sh c Hs).
  rewrite Forall_forall in Hf. auto.
Qed.

(** * Instance 1: the caching loader, sources unchanged during the renders *)

(** Every cached entry is what its source currently holds. *)
Definition consistent (s : st) : Prop :=
  forall ck t, In (ck, t) (od (cache s)) ->
    assoc (t_key t) (store s) = Some (t_content t, t_ver t).

Definition render_inv (c : cfg) (st0 : list (str * (N * N))) (s : st) : Prop :=
  Inv c s /\ fail_next s = false /\ store s = st0 /\ consistent s.

Lemma cached_load_store c s name ns g a :
  store (snd (cached_load c s name ns g a true)) = store s.
Proof.
  unfold cached_load.
  destruct (lru_get (cache s) (cache_key c name ns)) as [[t ch1]|].
  - destruct (c_auto_reload c && negb (is_up_to_date s t a)); [|reflexivity].
    destruct (uncached_load c s name ns g a) as [[t'|] fn]; reflexivity.
  - destruct (uncached_load c s name ns g a) as [[t'|] fn]; reflexivity.
Qed.

Lemma uncached_load_fn c s name ns g a : snd (uncached_load c s name ns g a) = false.
Proof.
  unfold uncached_load. destruct (fail_next s); [reflexivity|].
  destruct (assoc _ _) as [[? ?]|]; reflexivity.
Qed.

Lemma cached_load_fail_next c s name ns g a :
  fail_next (snd (cached_load c s name ns g a true)) = false.
Proof.
  unfold cached_load. pose proof (uncached_load_fn c s name ns g a) as Hfn.
  destruct (lru_get (cache s) (cache_key c name ns)) as [[t ch1]|].
  - destruct (c_auto_reload c && negb (is_up_to_date s t a)); [|reflexivity].
    destruct (uncached_load c s name ns g a) as [[t'|] fn]; simpl in *; exact Hfn.
  - destruct (uncached_load c s name ns g a) as [[t'|] fn]; simpl in *; exact Hfn.
Qed.

Lemma uncached_consistent c s name ns g a t fn :
  uncached_load c s name ns g a = (Some t, fn) ->
  assoc (t_key t) (store s) = Some (t_content t, t_ver t).
Proof.
  unfold uncached_load. destruct (fail_next s); [discriminate|].
  destruct (assoc (source_key c name ns) (store s)) as [[ct v]|] eqn:Ea; [|discriminate].
  intro E; inversion E; subst; simpl. exact Ea.
Qed.

Lemma cached_load_consistent c s name ns g a :
  consistent s -> consistent (snd (cached_load c s name ns g a true)).
Proof.
  intros Hc ck t0. pose proof (cached_load_store c s name ns g a) as Hst.
  unfold consistent in *. rewrite Hst. clear Hst. unfold cached_load.
  destruct (lru_get (cache s) (cache_key c name ns)) as [[t ch1]|] eqn:Eg.
  - assert (H1 : forall ck' t', In (ck', t') (od ch1) -> In (ck', t') (od (cache s)))
      by (intros; eapply In_lru_get; eauto).
    destruct (c_auto_reload c && negb (is_up_to_date s t a)).
    + destruct (uncached_load c s name ns g a) as [[t'|] fn] eqn:Eu; simpl.
      * intro Hin. apply In_lru_set in Hin as [[-> ->]|Hin].
        -- eapply uncached_consistent; eauto.
        -- apply (Hc ck). auto.
      * intro Hin. apply (Hc ck). auto.
    + simpl. intro Hin. apply In_od_mutate in Hin as [Hin|(t1 & Hin & ->)].
      * apply (Hc ck). auto.
      * destruct t1; simpl. apply (Hc ck _ (H1 _ _ Hin)).
  - destruct (uncached_load c s name ns g a) as [[t'|] fn] eqn:Eu; simpl.
    + intro Hin. apply In_lru_set in Hin as [[-> ->]|Hin].
      * eapply uncached_consistent; eauto.
      * apply (Hc ck). auto.
    + apply Hc.
Qed.

(** With unchanged sources a load answers exactly what the non-caching loader
    answers, whatever the cache holds. *)
Lemma cached_load_truth c s name ns g a :
  wf_cfg c -> Inv c s -> wf_call c ns -> fail_next s = false -> consistent s ->
  fst (cached_load c s name ns g a true) = truth c s name ns g.
Proof.
  intros Hc HI Hw Hf Hcons. unfold cached_load.
  pose proof (uncached_load_obs c s name ns g a) as Hu.
  destruct (lru_get (cache s) (cache_key c name ns)) as [[t ch1]|] eqn:Eg.
  - destruct (c_auto_reload c && negb (is_up_to_date s t a)).
    + destruct (uncached_load c s name ns g a) as [[t'|] fn]; simpl.
      * apply Hu.
      * destruct Hu as [Hu|Hu]; [symmetry; exact Hu|congruence].
    + simpl. apply lru_get_In in Eg.
      pose proof (Hcons _ _ Eg) as Ha.
      pose proof (cached_entry_source c s name ns t Hc HI Hw Eg) as Hk.
      unfold truth. rewrite <- Hk, Ha. reflexivity.
  - destruct (uncached_load c s name ns g a) as [[t'|] fn]; simpl.
    + apply Hu.
    + destruct Hu as [Hu|Hu]; [symmetry; exact Hu|congruence].
Qed.

Lemma load_seg_transparent c st0 name ns g a :
  wf_cfg c -> wf_call c ns -> transparent_seg (render_inv c st0) (load_seg c name ns g a).
Proof.
  intros Hc Hw. split.
  - intros p s (HI & Hf & Hs & Hcons). unfold load_seg.
    pose proof (cached_load_inv c s name ns g a true Hc HI Hw) as H1.
    pose proof (cached_load_fail_next c s name ns g a) as H2.
    pose proof (cached_load_store c s name ns g a) as H3.
    pose proof (cached_load_consistent c s name ns g a Hcons) as H4.
    destruct (cached_load c s name ns g a true) as [o s']. simpl in *.
    split; [exact H1|]. split; [exact H2|]. split; [congruence|exact H4].
  - intros p s1 s2 (HI1 & Hf1 & Hs1 & Hc1) (HI2 & Hf2 & Hs2 & Hc2). unfold load_seg.
    pose proof (cached_load_truth c s1 name ns g a Hc HI1 Hw Hf1 Hc1) as E1.
    pose proof (cached_load_truth c s2 name ns g a Hc HI2 Hw Hf2 Hc2) as E2.
    destruct (cached_load c s1 name ns g a true) as [o1 s1'].
    destruct (cached_load c s2 name ns g a true) as [o2 s2']. simpl in *. rewrite E1, E2.
    unfold truth. rewrite Hs1, Hs2. reflexivity.
Qed.

Definition wf_calls (c : cfg) (calls : list load_call) : Prop :=
  Forall (fun l => wf_call c (lc_ns l)) calls.

Lemma loader_coroutine_transparent c st0 calls :
  wf_cfg c -> wf_calls c calls -> transparent_co (render_inv c st0) (loader_coroutine c calls).
Proof.
  intros Hc Hw. unfold transparent_co, loader_coroutine. simpl.
  induction Hw as [|l calls Hl Hw IH]; simpl; constructor; auto.
  apply load_seg_transparent; auto.
Qed.

Lemma renders_transparent c st0 renders :
  wf_cfg c -> Forall (wf_calls c) renders ->
  Forall (transparent_co (render_inv c st0)) (map (loader_coroutine c) renders).
Proof.
  intros Hc Hw. induction Hw as [|r rs Hr Hw IH]; simpl; constructor; [|exact IH].
  apply loader_coroutine_transparent; auto.
Qed.

(** Renders that load templates through a caching loader whose sources do not
    change meanwhile: every interleaving gives every render what it gets when
    run alone — for every wf configuration, cache content reachable with
    these sources, schedule and set of renders. *)
Theorem interleaving_independent_caching_loader :
  forall (c : cfg) (sched : list nat) (renders : list (list load_call)) (s : st),
  wf_cfg c -> Forall (wf_calls c) renders ->
  Inv c s -> fail_next s = false -> consistent s ->
  let cs := map (loader_coroutine c) renders in
  finished (fst (run sched cs s)) = true ->
  results (run sched cs s) = map (run_alone s) cs.
Proof.
  intros c sched renders s Hc Hw HI Hf Hcons cs Hfin.
  apply (interleaving_independent _ _ (render_inv c (store s))).
  - split; [exact HI|]. split; [exact Hf|]. split; [reflexivity|exact Hcons].
  - apply renders_transparent; assumption.
  - exact Hfin.
Qed.

(** Non-vacuity: two renders, a namespaced cache of capacity 1 (so that they
    evict each other's entries), an interleaved complete schedule. *)
Definition ex_cfg : cfg :=
  {| c_cap := 1; c_auto_reload := true; c_ns_key := false; c_ns_aware := false; c_fresh := true |}.
Definition ex_store : st :=
  snd (step ex_cfg (snd (step ex_cfg (init ex_cfg) (Modify [97]%N 7%N))) (Modify [98]%N 8%N)).
Definition ex_renders : list (list load_call) :=
  [ [ {| lc_name := [97]%N; lc_ns := None; lc_g := 1; lc_async := true |};
      {| lc_name := [98]%N; lc_ns := None; lc_g := 1; lc_async := true |} ];
    [ {| lc_name := [98]%N; lc_ns := None; lc_g := 2; lc_async := true |};
      {| lc_name := [97]%N; lc_ns := None; lc_g := 2; lc_async := false |} ] ].

Example interleaving_caching_nonvacuous :
  let cs := map (loader_coroutine ex_cfg) ex_renders in
  finished (fst (run [0;1;1;0]%nat cs ex_store)) = true
  /\ results (run [0;1;1;0]%nat cs ex_store)
     = [ [Loaded 7 1; Loaded 8 1]; [Loaded 8 2; Loaded 7 2] ]
  /\ wf_cfg ex_cfg /\ Forall (wf_calls ex_cfg) ex_renders
  /\ Inv ex_cfg ex_store /\ consistent ex_store.
Proof.
  assert (Hc : wf_cfg ex_cfg) by (split; [simpl; lia|discriminate]).
  cbv zeta. split; [reflexivity|]. split; [reflexivity|]. split; [exact Hc|].
  split.
  - repeat constructor; intro; discriminate.
  - split.
    + unfold ex_store. apply step_inv; [exact Hc| |exact I].
      apply step_inv; [exact Hc| |exact I]. apply init_inv; exact Hc.
    + intros ck t [].
Qed.

(** * Instance 2: the shared cached Template object is re-bound by every load *)

(** The full statement fails: a render that holds a cached template across an
    await gets the globals of whoever loaded the same name last. *)
Theorem interleaving_independent_rebound_refuted :
  exists sched (cs : list (coroutine (list (str * N)) (list (str * N)))) sh,
    finished (fst (run sched cs sh)) = true
    /\ results (run sched cs sh) <> map (run_alone sh) cs.
Proof.
  exists [0;1;0;1;0;1]%nat,
         [ rcoroutine [RLoad [116]%N 1; RYield; RRender [116]%N 1];
           rcoroutine [RLoad [116]%N 2; RYield; RRender [116]%N 2] ],
         [].
  split; [reflexivity|]. vm_compute. discriminate.
Qed.

Definition rebind_inv (G : str -> N) (s : list (str * N)) : Prop :=
  forall k g, assoc k s = Some g -> g = G k.

Lemma rseg_transparent G o : rop_agrees G o -> transparent_seg (rebind_inv G) (rseg o).
Proof.
  destruct o as [k g| |k g]; simpl; intro Ha; split; simpl; auto.
  - intros _ s Hs k' g'. rewrite assoc_dict_set.
    destruct (str_eqb k' k) eqn:E.
    + apply str_eqb_eq in E; subst. intro H; inversion H; reflexivity.
    + apply Hs.
  - intros p s1 s2 H1 H2. f_equal. f_equal. f_equal.
    destruct (assoc k s1) as [g1|] eqn:E1; destruct (assoc k s2) as [g2|] eqn:E2;
      try rewrite (H1 _ _ E1); try rewrite (H2 _ _ E2); subst; reflexivity.
Qed.

Lemma rprogs_transparent G progs :
  Forall (Forall (rop_agrees G)) progs ->
  Forall (transparent_co (rebind_inv G)) (map rcoroutine progs).
Proof.
  intro Hp. induction Hp as [|ops progs Hops Hp IH]; simpl; constructor; [|exact IH].
  unfold transparent_co, rcoroutine. simpl.
  induction Hops as [|o ops Ho Hops IHo]; simpl; constructor; [|exact IHo].
  apply rseg_transparent; exact Ho.
Qed.

(** Guarded statement: when no two coroutines hold the same cached template
    with different globals, every interleaving equals the solo runs. *)
Theorem interleaving_independent_rebound_partial :
  forall (G : str -> N) (sched : list nat) (progs : list (list rop)) (sh : list (str * N)),
  rebind_inv G sh -> Forall (Forall (rop_agrees G)) progs ->
  let cs := map rcoroutine progs in
  finished (fst (run sched cs sh)) = true ->
  results (run sched cs sh) = map (run_alone sh) cs.
Proof.
  intros G sched progs sh Hs Hp cs Hfin.
  apply (interleaving_independent _ _ (rebind_inv G)); [exact Hs| |exact Hfin].
  apply rprogs_transparent; exact Hp.
Qed.

Example rebound_partial_nonvacuous :
  let G := fun k : str => if str_eqb k [116]%N then 1%N else 2%N in
  let progs := [ [RLoad [116]%N 1; RYield; RRender [116]%N 1];
                 [RLoad [117]%N 2; RLoad [116]%N 1; RYield; RRender [116]%N 1; RRender [117]%N 2] ] in
  Forall (Forall (rop_agrees G)) progs
  /\ finished (fst (run [1;0;1;0;1;0;1;1]%nat (map rcoroutine progs) [])) = true
  /\ results (run [1;0;1;0;1;0;1;1]%nat (map rcoroutine progs) [])
     = [ [([116]%N, 1%N)]; [([116]%N, 1%N); ([117]%N, 2%N)] ].
Proof.
  cbv zeta. split; [|split; reflexivity].
  repeat constructor.
Qed.
