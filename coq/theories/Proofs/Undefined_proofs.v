(** Proofs/Undefined_proofs.v — C16.

    Three relations between runs are lifted compositionally from [poke] through
    every primitive, filter, expression and statement of Kernels/Undefined.v:

    - [refines r1 r2]  : if [r1] succeeds, [r2] succeeds with the same value
                         (a run under any policy vs. the default policy);
    - [nouerr r]       : [r] is not UndefinedError (runs under the default
                         policy and under the probe);
    - [agree P rp rq]  : the probe run [rp] aborted at a failed lookup, or the
                         run [rq] under any policy is identical to it and its
                         value satisfies [P] (contains no undefined). *)
From LQ Require Import Base.Str Kernels.Undefined.
Local Open Scope Z_scope.

(** * The relations *)

Definition refines {A} (r1 r2 : res A) : Prop := forall a, r1 = Ok a -> r2 = Ok a.
Definition nouerr {A} (r : res A) : Prop := forall p, r <> LErr UndefinedError p.
Definition is_miss {A} (r : res A) : Prop := exists p, r = LErr LiquidNameError p.
Definition nomiss {A} (r : res A) : Prop := forall p, r <> LErr LiquidNameError p.
(** identical runs whose value satisfies [P] *)
Definition agr {A} (P : A -> Prop) (rp rq : res A) : Prop :=
  rq = rp /\ nomiss rp /\ forall a, rp = Ok a -> P a.
Definition agree {A} (P : A -> Prop) (rp rq : res A) : Prop :=
  is_miss rp \/ (rq = rp /\ forall a, rp = Ok a -> P a).

Definition quiet (pol : upolicy) : Prop := pol = PDefault \/ pol = PProbe.
Definition T {A} : A -> Prop := fun _ => True.
Definition nuP : val -> Prop := fun v => nu v = true.
Definition nuL : list val -> Prop := fun l => forallb nu l = true.

Lemma refines_refl {A} (r : res A) : refines r r.
Proof. intros a H; exact H. Qed.
Lemma refines_lerr {A} c p (r : res A) : refines (LErr c p) r.
Proof. intros a H; discriminate. Qed.
Lemma refines_pyexc {A} k (r : res A) : refines (PyExc k) r.
Proof. intros a H; discriminate. Qed.
Lemma refines_oof {A} (r : res A) : refines OutOfFuel r.
Proof. intros a H; discriminate. Qed.
Lemma refines_bind {A B} (r1 r2 : res A) (k1 k2 : A -> res B) :
  refines r1 r2 -> (forall a, refines (k1 a) (k2 a)) -> refines (bind r1 k1) (bind r2 k2).
Proof.
  intros H1 H2 b Hb. destruct r1 as [a| | |]; simpl in Hb; try discriminate.
  rewrite (H1 a eq_refl). simpl. apply H2, Hb.
Qed.
Lemma refines_trans {A} (a b c : res A) : refines a b -> refines b c -> refines a c.
Proof. intros H1 H2 x Hx. apply H2, H1, Hx. Qed.

Lemma nouerr_ok {A} (a : A) : nouerr (Ok a).
Proof. intros p H; discriminate. Qed.
Lemma nouerr_pyexc {A} k : nouerr (@PyExc A k).
Proof. intros p H; discriminate. Qed.
Lemma nouerr_oof {A} : nouerr (@OutOfFuel A).
Proof. intros p H; discriminate. Qed.
Lemma nouerr_lerr {A} c q : c <> UndefinedError -> nouerr (@LErr A c q).
Proof. intros Hc p H. inversion H; subst. apply Hc; reflexivity. Qed.
Lemma nouerr_bind {A B} (r : res A) (k : A -> res B) :
  nouerr r -> (forall a, nouerr (k a)) -> nouerr (bind r k).
Proof.
  intros H1 H2 p Hb. destruct r as [a|c q|e|]; simpl in Hb; try discriminate.
  - exact (H2 a p Hb).
  - inversion Hb; subst. exact (H1 p eq_refl).
Qed.

Lemma nouerr_retype {A B} c p : @nouerr A (LErr c p) -> @nouerr B (LErr c p).
Proof. intros H q Hq. inversion Hq; subst. exact (H q eq_refl). Qed.
Lemma nomiss_retype {A B} c p : @nomiss A (LErr c p) -> @nomiss B (LErr c p).
Proof. intros H q Hq. inversion Hq; subst. exact (H q eq_refl). Qed.
Lemma nomiss_ok {A} (a : A) : nomiss (Ok a).
Proof. intros p H; discriminate. Qed.

Lemma agr_ok {A} (P : A -> Prop) a : P a -> agr P (Ok a) (Ok a).
Proof. intro H. split; [reflexivity|split; [apply nomiss_ok|]]. intros b Hb; inversion Hb; subst; exact H. Qed.
Lemma agr_lerr {A} (P : A -> Prop) c p : c <> LiquidNameError -> agr P (LErr c p) (LErr c p).
Proof.
  intro Hc. split; [reflexivity|split].
  - intros q H. inversion H; subst. apply Hc; reflexivity.
  - intros a H; discriminate.
Qed.
Lemma agr_pyexc {A} (P : A -> Prop) k : agr P (PyExc k) (PyExc k).
Proof. split; [reflexivity|split]; [intros q H; discriminate|intros a H; discriminate]. Qed.
Lemma agr_oof {A} (P : A -> Prop) : agr P OutOfFuel OutOfFuel.
Proof. split; [reflexivity|split]; [intros q H; discriminate|intros a H; discriminate]. Qed.
Lemma agr_bind {A B} (P : A -> Prop) (Q : B -> Prop) (r1 r2 : res A) (k1 k2 : A -> res B) :
  agr P r1 r2 -> (forall a, P a -> agr Q (k1 a) (k2 a)) -> agr Q (bind r1 k1) (bind r2 k2).
Proof.
  intros [-> [Hn HP]] H2. destruct r1 as [a|c q|e|]; simpl.
  - apply H2, HP; reflexivity.
  - split; [reflexivity|split]; [intros p H; inversion H; subst; exact (Hn p eq_refl)|intros a H; discriminate].
  - apply agr_pyexc.
  - apply agr_oof.
Qed.
Lemma agr_weaken {A} (P Q : A -> Prop) r1 r2 : (forall a, P a -> Q a) -> agr P r1 r2 -> agr Q r1 r2.
Proof. intros H [E [N HP]]. split; [exact E|split; [exact N|]]. intros a Ha; apply H, HP, Ha. Qed.
Lemma agr_T {A} (P : A -> Prop) r1 r2 : agr P r1 r2 -> agr T r1 r2.
Proof. apply agr_weaken. intros; exact I. Qed.

Lemma agr_agree {A} (P : A -> Prop) r1 r2 : agr P r1 r2 -> agree P r1 r2.
Proof. intros [E [_ HP]]. right. split; assumption. Qed.
Lemma agree_miss {A} (P : A -> Prop) p r : agree P (LErr LiquidNameError p) r.
Proof. left. exists p. reflexivity. Qed.
Lemma agree_bind {A B} (P : A -> Prop) (Q : B -> Prop) (r1 r2 : res A) (k1 k2 : A -> res B) :
  agree P r1 r2 -> (forall a, P a -> agree Q (k1 a) (k2 a)) -> agree Q (bind r1 k1) (bind r2 k2).
Proof.
  intros [[p ->]|[-> HP]] H2.
  - left. exists p. reflexivity.
  - destruct r1 as [a|c q|e|]; simpl.
    + apply H2, HP; reflexivity.
    + right. split; [reflexivity|intros a H; discriminate].
    + right. split; [reflexivity|intros a H; discriminate].
    + right. split; [reflexivity|intros a H; discriminate].
Qed.
Lemma agree_ok {A} (P : A -> Prop) a : P a -> agree P (Ok a) (Ok a).
Proof. intro H. apply agr_agree, agr_ok, H. Qed.
Lemma agree_weaken {A} (P Q : A -> Prop) r1 r2 : (forall a, P a -> Q a) -> agree P r1 r2 -> agree Q r1 r2.
Proof. intros H [M|[E HP]]; [left; exact M|right]. split; [exact E|]. intros a Ha; apply H, HP, Ha. Qed.

(** * Strong induction on values *)

Lemma val_ind' (P : val -> Prop) :
  P VNil -> (forall b, P (VBool b)) -> (forall z, P (VInt z)) -> (forall s, P (VStr s)) ->
  (forall l, Forall P l -> P (VList l)) ->
  (forall kvs, Forall (fun kv => P (snd kv)) kvs -> P (VDict kvs)) ->
  (forall n, P (VUndef n)) -> forall v, P v.
Proof.
  intros Hn Hb Hi Hs Hl Hd Hu.
  fix IH 1. intros [| b | z | s | l | kvs | n].
  - exact Hn.
  - apply Hb.
  - apply Hi.
  - apply Hs.
  - apply Hl. induction l as [|x l IHl]; constructor; [apply IH|exact IHl].
  - apply Hd. induction kvs as [|[k x] kvs IHk]; constructor; [apply IH|exact IHk].
  - apply Hu.
Qed.

(** * poke *)

Lemma poke_ref pol d : refines (poke pol d) (poke PDefault d).
Proof. intros [] _. reflexivity. Qed.
Lemma poke_quiet pol d : quiet pol -> poke pol d = Ok tt.
Proof. intros [->| ->]; reflexivity. Qed.
Lemma poke_nouerr pol d : quiet pol -> nouerr (poke pol d).
Proof. intro H. rewrite poke_quiet by exact H. apply nouerr_ok. Qed.


(** * mapM / filterM *)

Lemma mapM_ref {A B} (f g : A -> res B) l :
  (forall x, refines (f x) (g x)) -> refines (mapM f l) (mapM g l).
Proof.
  intro H. induction l as [|x l IH]; simpl; [apply refines_refl|].
  apply refines_bind; [apply H|]. intro y. apply refines_bind; [exact IH|]. intro ys. apply refines_refl.
Qed.
Lemma mapM_nouerr {A B} (f : A -> res B) l : (forall x, nouerr (f x)) -> nouerr (mapM f l).
Proof.
  intro H. induction l as [|x l IH]; simpl; [apply nouerr_ok|].
  apply nouerr_bind; [apply H|]. intro y. apply nouerr_bind; [exact IH|]. intro; apply nouerr_ok.
Qed.
Lemma mapM_agr {A B} (PA : A -> Prop) (PB : B -> Prop) (f g : A -> res B) l :
  Forall PA l -> (forall x, PA x -> agr PB (f x) (g x)) -> agr (Forall PB) (mapM f l) (mapM g l).
Proof.
  intros Hl H. induction Hl as [|x l Hx Hl IH]; simpl; [apply agr_ok; constructor|].
  eapply agr_bind; [apply H, Hx|]. intros y Hy. eapply agr_bind; [exact IH|].
  intros ys Hys. apply agr_ok. constructor; assumption.
Qed.
Lemma mapM_agree {A B} (PA : A -> Prop) (PB : B -> Prop) (f g : A -> res B) l :
  Forall PA l -> (forall x, PA x -> agree PB (f x) (g x)) -> agree (Forall PB) (mapM f l) (mapM g l).
Proof.
  intros Hl H. induction Hl as [|x l Hx Hl IH]; simpl; [apply agree_ok; constructor|].
  eapply agree_bind; [apply H, Hx|]. intros y Hy. eapply agree_bind; [exact IH|].
  intros ys Hys. apply agree_ok. constructor; assumption.
Qed.

Lemma filterM_ref {A} (f g : A -> res bool) l :
  (forall x, refines (f x) (g x)) -> refines (filterM f l) (filterM g l).
Proof.
  intro H. induction l as [|x l IH]; simpl; [apply refines_refl|].
  apply refines_bind; [apply H|]. intro y. apply refines_bind; [exact IH|]. intro ys. apply refines_refl.
Qed.
Lemma filterM_nouerr {A} (f : A -> res bool) l : (forall x, nouerr (f x)) -> nouerr (filterM f l).
Proof.
  intro H. induction l as [|x l IH]; simpl; [apply nouerr_ok|].
  apply nouerr_bind; [apply H|]. intro y. apply nouerr_bind; [exact IH|]. intro; apply nouerr_ok.
Qed.
Lemma filterM_agr {A} (PA : A -> Prop) (f g : A -> res bool) l :
  Forall PA l -> (forall x, PA x -> agr T (f x) (g x)) -> agr (Forall PA) (filterM f l) (filterM g l).
Proof.
  intros Hl H. induction Hl as [|x l Hx Hl IH]; simpl; [apply agr_ok; constructor|].
  eapply agr_bind; [apply H, Hx|]. intros y _. eapply agr_bind; [exact IH|].
  intros ys Hys. apply agr_ok. destruct y; [constructor|]; assumption.
Qed.

(** * forallb helpers *)

Lemma Forall_nu l : forallb nu l = true <-> Forall nuP l.
Proof.
  induction l as [|x l IH]; simpl; [split; [constructor|reflexivity]|].
  rewrite andb_true_iff, IH. split; [intros [a b]; constructor; assumption|intro H; inversion H; auto].
Qed.
Lemma nuL_Forall l : nuL l <-> Forall nuP l.
Proof. apply Forall_nu. Qed.
Lemma forallb_app' {A} (f : A -> bool) a b : forallb f (a ++ b) = forallb f a && forallb f b.
Proof. induction a as [|x a IH]; simpl; [reflexivity|]. rewrite IH, andb_assoc. reflexivity. Qed.
Lemma forallb_rev' {A} (f : A -> bool) l : forallb f (rev l) = forallb f l.
Proof.
  induction l as [|x l IH]; simpl; [reflexivity|].
  rewrite forallb_app', IH. simpl. rewrite andb_true_r, andb_comm. reflexivity.
Qed.
Lemma forallb_firstn {A} (f : A -> bool) n l : forallb f l = true -> forallb f (firstn n l) = true.
Proof.
  revert l; induction n as [|n IH]; intros [|x l]; simpl; auto.
  rewrite !andb_true_iff. intros [a b]; split; [exact a|apply IH, b].
Qed.
Lemma forallb_skipn {A} (f : A -> bool) n l : forallb f l = true -> forallb f (skipn n l) = true.
Proof.
  revert l; induction n as [|n IH]; intros [|x l]; simpl; auto.
  rewrite andb_true_iff. intros [a b]; apply IH, b.
Qed.
Lemma forallb_nth {A} (f : A -> bool) n l x : forallb f l = true -> nth_error l n = Some x -> f x = true.
Proof.
  revert l; induction n as [|n IH]; intros [|y l]; simpl; try discriminate.
  - rewrite andb_true_iff. intros [a _] H. inversion H; subst; exact a.
  - rewrite andb_true_iff. intros [_ b]. apply IH, b.
Qed.
Lemma forallb_filter {A} (f g : A -> bool) l : forallb f l = true -> forallb f (filter g l) = true.
Proof.
  induction l as [|x l IH]; simpl; [reflexivity|]. rewrite andb_true_iff. intros [a b].
  destruct (g x); simpl; [rewrite a|]; apply IH, b.
Qed.
Lemma forallb_flat_map {A B} (f : B -> bool) (g : A -> list B) l :
  (forall x, In x l -> forallb f (g x) = true) -> forallb f (flat_map g l) = true.
Proof.
  induction l as [|x l IH]; simpl; [reflexivity|]. intro H.
  rewrite forallb_app', H by (left; reflexivity). simpl. apply IH. intros y Hy; apply H; right; exact Hy.
Qed.
Lemma forallb_last l : forallb nu l = true -> nu (last l VNil) = true.
Proof.
  induction l as [|x l IH]; simpl; [reflexivity|]. rewrite andb_true_iff. intros [a b].
  destruct l; [exact a|apply IH, b].
Qed.
Lemma nu_assoc k kvs v : nu_ns kvs = true -> assoc k kvs = Some v -> nu v = true.
Proof.
  unfold nu_ns. induction kvs as [|[k' x] kvs IH]; simpl; [discriminate|].
  rewrite andb_true_iff. intros [a b]. destruct (str_eqb k k'); [intro H; inversion H; subst; exact a|apply IH, b].
Qed.
Lemma nu_map_chars s : forallb nu (map (fun c => VStr [c]) s) = true.
Proof. induction s; simpl; auto. Qed.
Lemma nu_map_VStr l : forallb nu (map VStr l) = true.
Proof. induction l; simpl; auto. Qed.

Lemma nu_flatten n : forall l, forallb nu l = true -> forallb nu (flatten n l) = true.
Proof.
  induction n as [|n IH]; intros l H; simpl; [exact H|].
  apply forallb_flat_map. intros x Hx.
  assert (Hn : nu x = true) by (rewrite forallb_forall in H; apply H, Hx).
  destruct x; simpl in *; try discriminate; try reflexivity; try (rewrite Hn; reflexivity). apply IH. exact Hn.
Qed.

Lemma py_index_nu l z v : forallb nu l = true -> py_index l z = Ok v -> nu v = true.
Proof.
  unfold py_index. intros H. destruct (_ || _); [discriminate|].
  destruct (nth_error l _) eqn:E; [|discriminate]. intro Hv; inversion Hv; subst.
  eapply forallb_nth; eassumption.
Qed.
Lemma py_slice_nu l a b : forallb nu l = true -> forallb nu (py_slice l a b) = true.
Proof.
  intro H. unfold py_slice. destruct (_ <? _); [|reflexivity]. apply forallb_firstn, forallb_skipn, H.
Qed.

Lemma insert_by_nu {A} (f : A -> bool) lt x l : f x = true -> forallb f l = true -> forallb f (insert_by lt x l) = true.
Proof.
  intros Hx. induction l as [|y l IH]; simpl; [rewrite Hx; reflexivity|].
  rewrite andb_true_iff. intros [a b]. destruct (lt y x); simpl; [rewrite a; apply IH, b|rewrite Hx, a, b; reflexivity].
Qed.
Lemma sort_by_nu {A} (f : A -> bool) lt l : forallb f l = true -> forallb f (sort_by lt l) = true.
Proof.
  unfold sort_by. induction l as [|x l IH]; simpl; [reflexivity|].
  rewrite andb_true_iff. intros [a b]. apply insert_by_nu; [exact a|apply IH, b].
Qed.
Lemma py_sorted_nu l r : forallb nu l = true -> py_sorted l = Ok r -> forallb nu r = true.
Proof.
  intros H. unfold py_sorted. destruct l as [|x [|y l]].
  - intro E; inversion E; subst; exact H.
  - intro E; inversion E; subst; exact H.
  - remember (x :: y :: l) as L eqn:EL. clear EL.
    repeat match goal with
           | |- (if ?b then _ else _) = _ -> _ => destruct b
           end; try discriminate; intro E; inversion E; subst; apply sort_by_nu, H.
Qed.

(** * Tactics for the three liftings *)

Create HintDb ref discriminated.
Create HintDb nue discriminated.
Create HintDb agr discriminated.
Lemma quiet_default : quiet PDefault. Proof. left; reflexivity. Qed.
Lemma quiet_probe : quiet PProbe. Proof. right; reflexivity. Qed.
#[export] Hint Resolve poke_nouerr quiet_default quiet_probe : nue.

Ltac ref_step :=
  match goal with
  | |- refines ?x ?x => apply refines_refl
  | |- refines (LErr _ _) _ => apply refines_lerr
  | |- refines (PyExc _) _ => apply refines_pyexc
  | |- refines outside _ => apply refines_pyexc
  | |- refines OutOfFuel _ => apply refines_oof
  | |- refines (bind _ _) (bind _ _) => apply refines_bind; [ | intros ? ]
  | |- refines (mapM _ _) (mapM _ _) => apply mapM_ref; intros ?
  | |- refines (filterM _ _) (filterM _ _) => apply filterM_ref; intros ?
  | |- refines (poke _ _) (poke PDefault _) => apply poke_ref
  | |- refines (match ?v with _ => _ end) _ => destruct v
  | |- refines (if ?b then _ else _) _ => destruct b
  | |- refines (let '(_, _) := ?v in _) _ => destruct v
  | |- refines _ _ => solve [auto with ref]
  end.
Ltac ref_tac := repeat ref_step.

Ltac nue_step :=
  match goal with
  | |- nouerr (Ok _) => apply nouerr_ok
  | |- nouerr (PyExc _) => apply nouerr_pyexc
  | |- nouerr outside => apply nouerr_pyexc
  | |- nouerr OutOfFuel => apply nouerr_oof
  | |- nouerr (LErr _ _) => apply nouerr_lerr; discriminate
  | |- nouerr (bind _ _) => apply nouerr_bind; [ | intros ? ]
  | |- nouerr (mapM _ _) => apply mapM_nouerr; intros ?
  | |- nouerr (filterM _ _) => apply filterM_nouerr; intros ?
  | |- nouerr (match ?v with _ => _ end) => destruct v
  | |- nouerr (if ?b then _ else _) => destruct b
  | |- nouerr _ => solve [auto with nue]
  end.
Ltac nue_tac := repeat nue_step.

(** * Primitives on values *)

(** ** to_liquid_string *)

Lemma tls_go_eq pol l :
  (fix go (l : list val) : res str :=
     match l with
     | [] => Ok []
     | x :: t => do a <- to_liquid_string pol x;; do b <- go t;; Ok (a ++ b)
     end) l
  = do parts <- mapM (to_liquid_string pol) l;; Ok (concat parts).
Proof.
  induction l as [|x l IH]; simpl; [reflexivity|]. rewrite IH.
  destruct (to_liquid_string pol x); simpl; try reflexivity.
  destruct (mapM _ l); reflexivity.
Qed.

Lemma tls_ref pol v : refines (to_liquid_string pol v) (to_liquid_string PDefault v).
Proof.
  induction v using val_ind'; try solve [destruct pol; simpl; ref_tac].
  simpl. rewrite !tls_go_eq. apply refines_bind; [|intro; apply refines_refl].
  induction H as [|x l Hx Hl IH]; simpl; [apply refines_refl|].
  apply refines_bind; [exact Hx|]. intro. apply refines_bind; [exact IH|]. intro; apply refines_refl.
Qed.
#[export] Hint Resolve tls_ref : ref.

Lemma tls_nouerr pol v : quiet pol -> nouerr (to_liquid_string pol v).
Proof.
  intro Q. induction v using val_ind'; try solve [destruct Q; subst; simpl; nue_tac].
  simpl. rewrite tls_go_eq. apply nouerr_bind; [|intro; apply nouerr_ok].
  induction H as [|x l Hx Hl IH]; simpl; [apply nouerr_ok|].
  apply nouerr_bind; [exact Hx|]. intro. apply nouerr_bind; [exact IH|]. intro; apply nouerr_ok.
Qed.
#[export] Hint Resolve tls_nouerr : nue.

Lemma tls_agr pol v : nu v = true -> agr T (to_liquid_string PProbe v) (to_liquid_string pol v).
Proof.
  induction v using val_ind'; simpl; intro Hn; try discriminate;
    try (apply agr_ok; exact I); try apply agr_pyexc.
  rewrite !tls_go_eq. eapply agr_bind with (P := T); [|intros; apply agr_ok; exact I].
  apply Forall_nu in Hn.
  induction H as [|x l Hx Hl IH]; simpl; [apply agr_ok; exact I|].
  inversion Hn; subst.
  eapply agr_bind; [apply Hx; assumption|]. intros a _.
  eapply agr_bind; [apply IH; assumption|]. intros; apply agr_ok; exact I.
Qed.
#[export] Hint Resolve tls_agr : agr.

Ltac agr_step :=
  match goal with
  | |- agr _ (Ok ?a) (Ok ?a) => apply agr_ok
  | |- agr _ (PyExc _) (PyExc _) => apply agr_pyexc
  | |- agr _ outside outside => apply agr_pyexc
  | |- agr _ (LErr _ _) (LErr _ _) => apply agr_lerr; discriminate
  | |- agr _ OutOfFuel OutOfFuel => apply agr_oof
  | |- agr _ (bind _ _) (bind _ _) => eapply agr_bind; [ | intros ? ? ]
  | |- agr _ (match ?v with _ => _ end) _ => destruct v
  | |- agr _ (if ?b then _ else _) _ => destruct b
  | |- agr T _ _ => solve [eauto with agr | eapply agr_T; eauto with agr]
  | |- agr _ _ _ => solve [eauto with agr]
  | |- T _ => exact I
  | |- nuP _ => unfold nuP; simpl; solve [auto]
  | |- nuL _ => unfold nuL; simpl; solve [auto]
  | |- _ = true => simpl; solve [auto]
  end.
Ltac agr_tac := repeat agr_step.

Lemma mapM_agr_nu (f g : val -> res val) l :
  nuL l -> (forall x, nuP x -> agr nuP (f x) (g x)) -> agr nuL (mapM f l) (mapM g l).
Proof.
  intros Hl H. apply nuL_Forall in Hl.
  eapply agr_weaken; [|eapply mapM_agr; [exact Hl|exact H]].
  intros a Ha. apply nuL_Forall, Ha.
Qed.
Lemma mapM_agr_T {B} (f g : val -> res B) l :
  nuL l -> (forall x, nuP x -> agr T (f x) (g x)) -> agr T (mapM f l) (mapM g l).
Proof.
  intros Hl H. apply nuL_Forall in Hl.
  eapply agr_T, mapM_agr; [exact Hl|exact H].
Qed.
Lemma filterM_agr_nu (f g : val -> res bool) l :
  nuL l -> (forall x, nuP x -> agr T (f x) (g x)) -> agr nuL (filterM f l) (filterM g l).
Proof.
  intros Hl H. apply nuL_Forall in Hl.
  eapply agr_weaken; [|eapply filterM_agr; [exact Hl|exact H]].
  intros a Ha. apply nuL_Forall, Ha.
Qed.

(** ** py_str, py_truthy, unliquid, is_truthy *)

Lemma py_str_ref pol v : refines (py_str pol v) (py_str PDefault v).
Proof. unfold py_str; destruct pol; simpl; ref_tac. Qed.
Lemma py_str_nouerr pol v : quiet pol -> nouerr (py_str pol v).
Proof. intros [->| ->]; unfold py_str; simpl; nue_tac. Qed.
Lemma py_str_agr pol v : nuP v -> agr T (py_str PProbe v) (py_str pol v).
Proof. unfold nuP, py_str; destruct v; simpl; intro; try discriminate; agr_tac. Qed.
#[export] Hint Resolve py_str_ref : ref.
#[export] Hint Resolve py_str_nouerr : nue.
#[export] Hint Resolve py_str_agr : agr.

Lemma py_truthy_ref pol v : refines (py_truthy pol v) (py_truthy PDefault v).
Proof. unfold py_truthy; destruct pol; simpl; ref_tac. Qed.
Lemma py_truthy_nouerr pol v : quiet pol -> nouerr (py_truthy pol v).
Proof. intros [->| ->]; unfold py_truthy; simpl; nue_tac. Qed.
Lemma py_truthy_agr pol v : nuP v -> agr T (py_truthy PProbe v) (py_truthy pol v).
Proof. unfold nuP, py_truthy; destruct v; simpl; intro; try discriminate; agr_tac. Qed.
#[export] Hint Resolve py_truthy_ref : ref.
#[export] Hint Resolve py_truthy_nouerr : nue.
#[export] Hint Resolve py_truthy_agr : agr.

Lemma unliquid_ref pol v : refines (unliquid pol v) (unliquid PDefault v).
Proof. unfold unliquid; destruct pol; simpl; ref_tac. Qed.
Lemma unliquid_nouerr pol v : quiet pol -> nouerr (unliquid pol v).
Proof. intros [->| ->]; unfold unliquid; simpl; nue_tac. Qed.
Lemma unliquid_agr pol v : nuP v -> agr nuP (unliquid PProbe v) (unliquid pol v).
Proof. unfold nuP, unliquid; destruct v; simpl; intro; try discriminate; agr_tac. Qed.
#[export] Hint Resolve unliquid_ref : ref.
#[export] Hint Resolve unliquid_nouerr : nue.
#[export] Hint Resolve unliquid_agr : agr.

Lemma is_truthy_ref pol v : refines (is_truthy pol v) (is_truthy PDefault v).
Proof. unfold is_truthy; ref_tac. Qed.
Lemma is_truthy_nouerr pol v : quiet pol -> nouerr (is_truthy pol v).
Proof. intro; unfold is_truthy; nue_tac. Qed.
Lemma is_truthy_agr pol v : nuP v -> agr T (is_truthy PProbe v) (is_truthy pol v).
Proof. intro; unfold is_truthy; agr_tac. Qed.
#[export] Hint Resolve is_truthy_ref : ref.
#[export] Hint Resolve is_truthy_nouerr : nue.
#[export] Hint Resolve is_truthy_agr : agr.

(** ** py_eq *)

Lemma py_eq_ref pol a : forall b, refines (py_eq pol a b) (py_eq PDefault a b).
Proof.
  induction a using val_ind'; intro w;
    try solve [destruct w; destruct pol; simpl; ref_tac].
  - (* VList *)
    destruct w; try solve [destruct pol; simpl; ref_tac].
    simpl. destruct (Nat.eqb _ _); [|apply refines_refl].
    revert l0. induction H as [|x l Hx Hl IH]; intros [|y l0]; simpl; try apply refines_refl.
    apply refines_bind; [apply Hx|]. intros []; [apply IH|apply refines_refl].
  - (* VDict *)
    destruct w; try solve [destruct pol; simpl; ref_tac].
    simpl. destruct (Nat.eqb _ _); [|apply refines_refl].
    induction H as [|[k x] l Hx Hl IH]; simpl; [apply refines_refl|].
    destruct (assoc k kvs0); [|apply refines_refl].
    apply refines_bind; [apply Hx|]. intros []; [apply IH|apply refines_refl].
Qed.
#[export] Hint Resolve py_eq_ref : ref.

Lemma py_eq_nouerr pol a : quiet pol -> forall b, nouerr (py_eq pol a b).
Proof.
  intro Q. induction a using val_ind'; intro w;
    try solve [destruct w; destruct Q; subst; simpl; nue_tac].
  - destruct w; try solve [destruct Q; subst; simpl; nue_tac].
    simpl. destruct (Nat.eqb _ _); [|apply nouerr_ok].
    revert l0. induction H as [|x l Hx Hl IH]; intros [|y l0]; simpl; try apply nouerr_ok.
    apply nouerr_bind; [apply Hx|]. intros []; [apply IH|apply nouerr_ok].
  - destruct w; try solve [destruct Q; subst; simpl; nue_tac].
    simpl. destruct (Nat.eqb _ _); [|apply nouerr_ok].
    induction H as [|[k x] l Hx Hl IH]; simpl; [apply nouerr_ok|].
    destruct (assoc k kvs0); [|apply nouerr_ok].
    apply nouerr_bind; [apply Hx|]. intros []; [apply IH|apply nouerr_ok].
Qed.
#[export] Hint Resolve py_eq_nouerr : nue.

Lemma py_eq_agr pol a : forall b, nuP a -> nuP b -> agr T (py_eq PProbe a b) (py_eq pol a b).
Proof.
  unfold nuP. induction a using val_ind'; intros w Ha Hb;
    try solve [destruct w; simpl in *; try discriminate; agr_tac].
  - destruct w; simpl in *; try discriminate; try solve [agr_tac].
    destruct (Nat.eqb _ _); [|agr_tac].
    revert l0 Hb. induction H as [|x l Hx Hl IH]; intros [|y l0] Hb; simpl in *; try solve [agr_tac].
    apply andb_true_iff in Ha as [Ha1 Ha2]. apply andb_true_iff in Hb as [Hb1 Hb2].
    eapply agr_bind; [apply Hx; assumption|]. intros [] _; [apply IH; assumption|agr_tac].
  - destruct w; simpl in *; try discriminate; try solve [agr_tac].
    destruct (Nat.eqb _ _); [|agr_tac].
    induction H as [|[k x] l Hx Hl IH]; simpl in *; [agr_tac|].
    apply andb_true_iff in Ha as [Ha1 Ha2].
    destruct (assoc k kvs0) eqn:E; [|agr_tac].
    eapply agr_bind; [apply Hx; [assumption|eapply nu_assoc; eassumption]|].
    intros [] _; [apply IH; assumption|agr_tac].
Qed.
#[export] Hint Resolve py_eq_agr : agr.

Lemma agr_same {A} (P : A -> Prop) (r : res A) :
  nomiss r -> (forall a, r = Ok a -> P a) -> agr P r r.
Proof. intros; split; [reflexivity|split; assumption]. Qed.

Lemma in_false_none_ref pol v : refines (in_false_none pol v) (in_false_none PDefault v).
Proof. unfold in_false_none; ref_tac. Qed.
Lemma in_false_none_nouerr pol v : quiet pol -> nouerr (in_false_none pol v).
Proof. intro; unfold in_false_none; nue_tac. Qed.
Lemma in_false_none_agr pol v : nuP v -> agr T (in_false_none PProbe v) (in_false_none pol v).
Proof. intro; unfold in_false_none. eapply agr_bind; [apply py_eq_agr; [reflexivity|assumption]|].
  intros [] _; [agr_tac|apply py_eq_agr; [reflexivity|assumption]]. Qed.
#[export] Hint Resolve in_false_none_ref : ref.
#[export] Hint Resolve in_false_none_nouerr : nue.
#[export] Hint Resolve in_false_none_agr : agr.

(** ** py_getitem, f_getitem *)

Lemma py_index_nomiss {A} (l : list A) z : nomiss (py_index l z).
Proof. unfold py_index. intros p. destruct (_ || _); [discriminate|]. destruct (nth_error _ _); discriminate. Qed.

Lemma py_index_nouerr {A} (l : list A) z : nouerr (py_index l z).
Proof. unfold py_index. intros p. destruct (_ || _); [discriminate|]. destruct (nth_error _ _); discriminate. Qed.
#[export] Hint Resolve py_index_nouerr : nue.

Lemma py_getitem_nouerr pol o k : quiet pol -> nouerr (py_getitem pol o k).
Proof.
  intros [->| ->]; unfold py_getitem; destruct o; simpl; nue_tac;
    unfold py_index; nue_tac.
Qed.
#[export] Hint Resolve py_getitem_nouerr : nue.

Lemma py_getitem_agr pol o k : nuP o -> nuP k -> agr nuP (py_getitem PProbe o k) (py_getitem pol o k).
Proof.
  unfold nuP. intros Ho Hk. destruct o; simpl in *; try discriminate; try solve [agr_tac].
  - (* VStr *)
    destruct k; simpl; try solve [agr_tac];
      (apply agr_same; [|intros a Ha; destruct (py_index s _); inversion Ha; reflexivity]);
      intros p; destruct (py_index s _) eqn:E; simpl; try discriminate;
      intro Hc; inversion Hc; subst; exact (py_index_nomiss s _ _ E).
  - (* VList *)
    destruct k; simpl; try solve [agr_tac];
      (apply agr_same; [apply py_index_nomiss|intros a Ha; eapply py_index_nu; eassumption]).
  - (* VDict *)
    destruct k; simpl in *; try discriminate; try solve [agr_tac].
    destruct (assoc s kvs) eqn:E; [|agr_tac]. apply agr_ok. eapply nu_assoc; eassumption.
Qed.
#[export] Hint Resolve py_getitem_agr : agr.

Lemma f_getitem_ref pol o k d : refines (f_getitem pol o k d) (f_getitem PDefault o k d).
Proof.
  unfold f_getitem. destruct pol; try apply refines_refl;
    destruct o; simpl; try apply refines_refl; try apply refines_lerr;
    destruct k; simpl; try apply refines_refl; try apply refines_lerr.
Qed.
Lemma f_getitem_nouerr pol o k d : quiet pol -> nouerr (f_getitem pol o k d).
Proof.
  intro Q. unfold f_getitem. pose proof (py_getitem_nouerr pol o k Q) as H.
  destruct (py_getitem pol o k) as [v|c p|e|]; nue_tac; try exact H.
Qed.
Lemma f_getitem_agr pol o k d : nuP o -> nuP k -> nuP d -> agr nuP (f_getitem PProbe o k d) (f_getitem pol o k d).
Proof.
  intros Ho Hk Hd. unfold f_getitem. destruct (py_getitem_agr pol o k Ho Hk) as [-> [Hn HP]].
  destruct (py_getitem PProbe o k) as [v|c p|e|].
  - apply agr_ok, HP; reflexivity.
  - apply agr_same; [exact Hn|intros; discriminate].
  - destruct e; try apply agr_pyexc; try (apply agr_ok; exact Hd).
    destruct (has_getitem o); [apply agr_ok; exact Hd|apply agr_pyexc].
  - apply agr_oof.
Qed.
#[export] Hint Resolve f_getitem_ref : ref.
#[export] Hint Resolve f_getitem_nouerr : nue.
#[export] Hint Resolve f_getitem_agr : agr.

Lemma wrap_ref {A} (r1 r2 : res A) : refines r1 r2 -> refines (wrap_type_error r1) (wrap_type_error r2).
Proof. intros H a Ha. destruct r1 as [x|c p|[]|]; simpl in Ha; try discriminate. rewrite (H x eq_refl). exact Ha. Qed.
Lemma wrap_nouerr {A} (r : res A) : nouerr r -> nouerr (wrap_type_error r).
Proof. intros H p Hp. destruct r as [x|c q|[]|]; simpl in Hp; try discriminate. exact (H p Hp). Qed.
Lemma wrap_agr {A} (P : A -> Prop) (r1 r2 : res A) : agr P r1 r2 -> agr P (wrap_type_error r1) (wrap_type_error r2).
Proof.
  intros [-> [Hn HP]]. apply agr_same.
  - intros p Hp. destruct r1 as [x|c q|[]|]; simpl in Hp; try discriminate. exact (Hn p Hp).
  - intros a Ha. destruct r1 as [x|c q|[]|]; simpl in Ha; try discriminate. apply HP, Ha.
Qed.

(** ** sequence_arg and the numeric coercions *)

Lemma sequence_arg_ref pol v : refines (sequence_arg pol v) (sequence_arg PDefault v).
Proof. unfold sequence_arg; destruct pol; simpl; ref_tac. Qed.
Lemma sequence_arg_nouerr pol v : quiet pol -> nouerr (sequence_arg pol v).
Proof. intros [->| ->]; unfold sequence_arg; simpl; nue_tac. Qed.
Lemma sequence_arg_agr pol v : nuP v -> agr nuL (sequence_arg PProbe v) (sequence_arg pol v).
Proof.
  unfold nuP, nuL, sequence_arg; destruct v; simpl; intro H; try discriminate; apply agr_ok; simpl;
    try reflexivity; try (rewrite H; reflexivity).
  - apply nu_map_chars.
  - apply (nu_flatten 5), H.
Qed.
#[export] Hint Resolve sequence_arg_ref : ref.
#[export] Hint Resolve sequence_arg_nouerr : nue.
#[export] Hint Resolve sequence_arg_agr : agr.

Lemma str_to_int_nouerr s : nouerr (str_to_int s).
Proof. unfold str_to_int; nue_tac. Qed.
Lemma str_to_int_nomiss s : nomiss (str_to_int s).
Proof. unfold str_to_int. intro p. destruct (Nat.ltb _ _); [discriminate|]. destruct (classify_num s); discriminate. Qed.
Lemma num_arg0_nouerr v : nouerr (num_arg0 v).
Proof. unfold num_arg0; nue_tac. Qed.
Lemma num_arg0_nomiss v : nomiss (num_arg0 v).
Proof.
  unfold num_arg0. intro p. destruct v; try discriminate.
  destruct (Nat.ltb _ _); [discriminate|]. destruct (classify_num s); discriminate.
Qed.
Lemma decimal_arg0_nouerr v : nouerr (decimal_arg0 v).
Proof. unfold decimal_arg0; nue_tac. Qed.
Lemma decimal_arg0_nomiss v : nomiss (decimal_arg0 v).
Proof.
  unfold decimal_arg0. intro p. destruct v; try discriminate.
  destruct (Nat.ltb _ _); [discriminate|]. destruct (classify_num s); discriminate.
Qed.
#[export] Hint Resolve str_to_int_nouerr num_arg0_nouerr decimal_arg0_nouerr : nue.
Lemma num_arg0_agr v : agr T (num_arg0 v) (num_arg0 v).
Proof. apply agr_same; [apply num_arg0_nomiss|intros; exact I]. Qed.
Lemma decimal_arg0_agr v : agr T (decimal_arg0 v) (decimal_arg0 v).
Proof. apply agr_same; [apply decimal_arg0_nomiss|intros; exact I]. Qed.
#[export] Hint Resolve num_arg0_agr decimal_arg0_agr : agr.

Lemma math_left_ref pol v : refines (math_left pol v) (math_left PDefault v).
Proof. unfold math_left; destruct pol; simpl; ref_tac. Qed.
Lemma math_left_nouerr pol v : quiet pol -> nouerr (math_left pol v).
Proof. intros [->| ->]; unfold math_left; simpl; nue_tac. Qed.
Lemma math_left_agr pol v : nuP v -> agr T (math_left PProbe v) (math_left pol v).
Proof. unfold nuP, math_left; destruct v; simpl; intro; try discriminate; agr_tac. Qed.
#[export] Hint Resolve math_left_ref : ref.
#[export] Hint Resolve math_left_nouerr : nue.
#[export] Hint Resolve math_left_agr : agr.

Lemma to_int_arg_ref pol v : refines (to_int_arg pol v) (to_int_arg PDefault v).
Proof. unfold to_int_arg; destruct pol; simpl; ref_tac. Qed.
Lemma to_int_arg_nouerr pol v : quiet pol -> nouerr (to_int_arg pol v).
Proof.
  intros Q. unfold to_int_arg. destruct v; try solve [nue_tac];
    try solve [apply nouerr_bind; [apply poke_nouerr, Q|intro; nue_tac]].
  pose proof (str_to_int_nouerr s) as H. destruct (str_to_int s) as [x|c p|[]|]; nue_tac; try exact H.
Qed.
Lemma to_int_arg_agr pol v : nuP v -> agr T (to_int_arg PProbe v) (to_int_arg pol v).
Proof.
  unfold nuP, to_int_arg; destruct v; simpl; intro; try discriminate; try solve [agr_tac].
  apply agr_same; [|intros; exact I]. intro p.
  pose proof (str_to_int_nomiss s) as H0. destruct (str_to_int s) as [x|c q|[]|]; try discriminate. exact (H0 p).
Qed.
#[export] Hint Resolve to_int_arg_ref : ref.
#[export] Hint Resolve to_int_arg_nouerr : nue.
#[export] Hint Resolve to_int_arg_agr : agr.

(** * Comparisons *)

Lemma liq_eq_ref pol l r : refines (liq_eq pol l r) (liq_eq PDefault l r).
Proof. unfold liq_eq; ref_tac. Qed.
Lemma liq_eq_nouerr pol l r : quiet pol -> nouerr (liq_eq pol l r).
Proof. intro; unfold liq_eq; nue_tac. Qed.
Lemma liq_eq_agr pol l r : nuP l -> nuP r -> agr T (liq_eq PProbe l r) (liq_eq pol l r).
Proof.
  intros Hl Hr. unfold liq_eq.
  eapply agr_bind; [apply unliquid_agr, Hl|]. intros l' Hl'.
  eapply agr_bind; [apply unliquid_agr, Hr|]. intros r' Hr'.
  destruct l'; destruct r'; try (apply agr_ok; exact I); apply py_eq_agr; assumption.
Qed.

Lemma liq_lt_ref pol l r : refines (liq_lt pol l r) (liq_lt PDefault l r).
Proof. unfold liq_lt; ref_tac. Qed.
Lemma liq_lt_nouerr pol l r : quiet pol -> nouerr (liq_lt pol l r).
Proof. intro; unfold liq_lt; nue_tac. Qed.
Lemma liq_lt_agr pol l r : nuP l -> nuP r -> agr T (liq_lt PProbe l r) (liq_lt pol l r).
Proof.
  intros Hl Hr. unfold liq_lt.
  eapply agr_bind; [apply unliquid_agr, Hl|]. intros l' Hl'.
  eapply agr_bind; [apply unliquid_agr, Hr|]. intros r' Hr'.
  destruct l'; destruct r'; try (apply agr_ok; exact I); apply agr_lerr; discriminate.
Qed.

Lemma list_contains_ref pol l x : refines (list_contains pol l x) (list_contains PDefault l x).
Proof. induction l; simpl; ref_tac. Qed.
Lemma list_contains_nouerr pol l x : quiet pol -> nouerr (list_contains pol l x).
Proof. intro; induction l; simpl; nue_tac. Qed.
Lemma list_contains_agr pol l x : nuL l -> nuP x -> agr T (list_contains PProbe l x) (list_contains pol l x).
Proof.
  unfold nuL. intros Hl Hx. induction l as [|y l IH]; simpl in *; [agr_tac|].
  apply andb_true_iff in Hl as [H1 H2].
  eapply agr_bind; [apply py_eq_agr; assumption|]. intros [] _; [agr_tac|apply IH, H2].
Qed.
#[export] Hint Resolve list_contains_ref : ref.
#[export] Hint Resolve list_contains_nouerr : nue.

Lemma liq_contains_ref pol l r : refines (liq_contains pol l r) (liq_contains PDefault l r).
Proof. unfold liq_contains; destruct pol; simpl; ref_tac. Qed.
Lemma liq_contains_nouerr pol l r : quiet pol -> nouerr (liq_contains pol l r).
Proof. intros [->| ->]; unfold liq_contains; simpl; nue_tac. Qed.
Lemma liq_contains_agr pol l r : nuP l -> nuP r -> agr T (liq_contains PProbe l r) (liq_contains pol l r).
Proof.
  intros Hl Hr. unfold liq_contains. destruct l; try (unfold nuP in Hl; simpl in Hl; discriminate);
    try (apply agr_lerr; discriminate).
  - eapply agr_bind; [apply py_str_agr, Hr|]. intros; apply agr_ok; exact I.
  - apply list_contains_agr; assumption.
  - destruct r; try (unfold nuP in Hr; simpl in Hr; discriminate);
      try (apply agr_ok; exact I); apply agr_pyexc.
Qed.
#[export] Hint Resolve liq_eq_ref liq_lt_ref liq_contains_ref : ref.
#[export] Hint Resolve liq_eq_nouerr liq_lt_nouerr liq_contains_nouerr : nue.

Lemma cmp_eval_ref pol op l r : refines (cmp_eval pol op l r) (cmp_eval PDefault op l r).
Proof. unfold cmp_eval; destruct op; ref_tac. Qed.
Lemma cmp_eval_nouerr pol op l r : quiet pol -> nouerr (cmp_eval pol op l r).
Proof. intro; unfold cmp_eval; destruct op; nue_tac. Qed.
Lemma cmp_eval_agr pol op l r : nuP l -> nuP r -> agr T (cmp_eval PProbe op l r) (cmp_eval pol op l r).
Proof.
  intros Hl Hr. unfold cmp_eval; destruct op;
    try (apply liq_eq_agr; assumption); try (apply liq_lt_agr; assumption);
    try (apply liq_contains_agr; assumption);
    (eapply agr_bind; [apply liq_eq_agr; assumption|]; intros [] _;
     try (apply agr_ok; exact I); apply liq_lt_agr; assumption).
Qed.
#[export] Hint Resolve cmp_eval_ref : ref.
#[export] Hint Resolve cmp_eval_nouerr : nue.

(** * Filters *)

Lemma f_default_ref pol o d a : refines (f_default pol o d a) (f_default PDefault o d a).
Proof. unfold f_default; destruct pol; simpl; ref_tac. Qed.
Lemma f_default_nouerr pol o d a : quiet pol -> nouerr (f_default pol o d a).
Proof. intros [->| ->]; unfold f_default; simpl; nue_tac. Qed.
Lemma f_default_agr pol o d a : nuP o -> nuP d -> agr nuP (f_default PProbe o d a) (f_default pol o d a).
Proof.
  unfold nuP, f_default; destruct o; simpl; intros Ho Hd; try discriminate; agr_tac.
Qed.

Lemma f_size_ref pol o : refines (f_size pol o) (f_size PDefault o).
Proof. unfold f_size; destruct pol; simpl; ref_tac. Qed.
Lemma f_size_nouerr pol o : quiet pol -> nouerr (f_size pol o).
Proof. intros [->| ->]; unfold f_size; simpl; nue_tac. Qed.
Lemma f_size_agr pol o : nuP o -> agr nuP (f_size PProbe o) (f_size pol o).
Proof. unfold nuP, f_size; destruct o; simpl; intros Ho; try discriminate; agr_tac. Qed.

Lemma f_first_ref pol o : refines (f_first pol o) (f_first PDefault o).
Proof. unfold f_first; destruct pol; simpl; ref_tac. Qed.
Lemma f_first_nouerr pol o : quiet pol -> nouerr (f_first pol o).
Proof. intros [->| ->]; unfold f_first; simpl; nue_tac. Qed.
Lemma f_first_agr pol o : nuP o -> agr nuP (f_first PProbe o) (f_first pol o).
Proof.
  unfold nuP, f_first; destruct o; simpl; intros Ho; try discriminate; agr_tac.
  simpl in Ho. apply andb_true_iff in Ho as [Ho _]. exact Ho.
Qed.

Lemma f_last_ref pol o : refines (f_last pol o) (f_last PDefault o).
Proof. unfold f_last; destruct pol; simpl; ref_tac. Qed.
Lemma f_last_nouerr pol o : quiet pol -> nouerr (f_last pol o).
Proof. intros [->| ->]; unfold f_last; simpl; nue_tac. Qed.
Lemma f_last_agr pol o : nuP o -> agr nuP (f_last PProbe o) (f_last pol o).
Proof.
  unfold nuP, f_last; destruct o; simpl; intros Ho; try discriminate; agr_tac.
  apply forallb_last. exact Ho.
Qed.

Lemma f_join_ref pol l s : refines (f_join pol l s) (f_join PDefault l s).
Proof. unfold f_join; ref_tac. Qed.
Lemma f_join_nouerr pol l s : quiet pol -> nouerr (f_join pol l s).
Proof. intro; unfold f_join; nue_tac. Qed.
Lemma f_join_agr pol l s : nuP l -> nuP s -> agr nuP (f_join PProbe l s) (f_join pol l s).
Proof.
  intros Hl Hs. unfold f_join.
  eapply agr_bind; [apply sequence_arg_agr, Hl|]. intros items Hi.
  eapply agr_bind; [apply tls_agr, Hs|]. intros sep _.
  eapply agr_bind; [apply mapM_agr_T; [exact Hi|intros; apply tls_agr; assumption]|].
  intros; apply agr_ok; reflexivity.
Qed.

Lemma f_where_ref pol l k v : refines (f_where pol l k v) (f_where PDefault l k v).
Proof. unfold f_where; ref_tac. Qed.
Lemma f_where_nouerr pol l k v : quiet pol -> nouerr (f_where pol l k v).
Proof. intro; unfold f_where; nue_tac. Qed.
Lemma f_where_agr pol l k v : nuP l -> nuP k -> nuP v -> agr nuP (f_where PProbe l k v) (f_where pol l k v).
Proof.
  intros Hl Hk Hv. unfold f_where.
  eapply agr_bind; [apply sequence_arg_agr, Hl|]. intros items Hi.
  assert (E1 : agr nuP
    (do r <- filterM (fun itm => do x <- f_getitem PProbe itm k VNil;; is_truthy PProbe x) items;; Ok (VList r))
    (do r <- filterM (fun itm => do x <- f_getitem pol itm k VNil;; is_truthy pol x) items;; Ok (VList r))).
  { eapply agr_bind; [apply filterM_agr_nu; [exact Hi|]|intros r Hr; apply agr_ok; exact Hr].
    intros x Hx. eapply agr_bind; [apply f_getitem_agr; [exact Hx|exact Hk|reflexivity]|].
    intros y Hy. apply is_truthy_agr, Hy. }
  assert (E2 : agr nuP
    (do r <- filterM (fun itm => do x <- f_getitem PProbe itm k VNil;; liq_eq PProbe x v) items;; Ok (VList r))
    (do r <- filterM (fun itm => do x <- f_getitem pol itm k VNil;; liq_eq pol x v) items;; Ok (VList r))).
  { eapply agr_bind; [apply filterM_agr_nu; [exact Hi|]|intros r Hr; apply agr_ok; exact Hr].
    intros x Hx. eapply agr_bind; [apply f_getitem_agr; [exact Hx|exact Hk|reflexivity]|].
    intros y Hy. apply liq_eq_agr; assumption. }
  destruct v; try exact E1; try exact E2.
Qed.

Lemma f_map_ref pol l k : refines (f_map pol l k) (f_map PDefault l k).
Proof.
  unfold f_map. apply refines_bind; [auto with ref|]. intro items.
  apply refines_bind; [|intro; apply refines_refl]. apply mapM_ref. intro itm.
  apply refines_bind; [auto with ref|]. intro s.
  intros a Ha. pose proof (f_getitem_ref pol itm (VStr s) VNil) as H.
  destruct (f_getitem pol itm (VStr s) VNil) as [v|c p|e|] eqn:E; try discriminate.
  - inversion Ha; subst. rewrite (H a eq_refl). reflexivity.
  - destruct e; discriminate.
Qed.
Lemma f_map_nouerr pol l k : quiet pol -> nouerr (f_map pol l k).
Proof.
  intro Q. unfold f_map. apply nouerr_bind; [auto with nue|]. intro items.
  apply nouerr_bind; [|intro; apply nouerr_ok]. apply mapM_nouerr. intro itm.
  apply nouerr_bind; [auto with nue|]. intro s.
  pose proof (f_getitem_nouerr pol itm (VStr s) VNil Q) as H.
  destruct (f_getitem pol itm (VStr s) VNil) as [v|c p|e|]; nue_tac; try exact H.
Qed.
Lemma f_map_agr pol l k : nuP l -> nuP k -> agr nuP (f_map PProbe l k) (f_map pol l k).
Proof.
  intros Hl Hk. unfold f_map.
  eapply agr_bind; [apply sequence_arg_agr, Hl|]. intros items Hi.
  eapply agr_bind; [apply mapM_agr_nu; [exact Hi|]|intros r Hr; apply agr_ok; exact Hr].
  intros x Hx. eapply agr_bind; [apply py_str_agr, Hk|]. intros s _.
  destruct (f_getitem_agr pol x (VStr s) VNil Hx eq_refl eq_refl) as [-> [Hn HP]].
  destruct (f_getitem PProbe x (VStr s) VNil) as [v|c p|e|].
  - apply agr_ok, HP; reflexivity.
  - apply agr_same; [exact Hn|intros; discriminate].
  - destruct e; try apply agr_pyexc. apply agr_lerr; discriminate.
  - apply agr_oof.
Qed.

Lemma py_sorted_nouerr l : nouerr (py_sorted l).
Proof. unfold py_sorted. destruct l as [|x [|y l]]; nue_tac. Qed.
Lemma py_sorted_nomiss l : nomiss (py_sorted l).
Proof.
  unfold py_sorted. intro p. destruct l as [|x [|y l]]; try discriminate.
  repeat match goal with |- (if ?b then _ else _) <> _ => destruct b end; discriminate.
Qed.

Lemma f_sort_ref pol l k : refines (f_sort pol l k) (f_sort PDefault l k).
Proof. unfold f_sort; ref_tac. Qed.
Lemma f_sort_nouerr pol l k : quiet pol -> nouerr (f_sort pol l k).
Proof.
  intro Q. unfold f_sort. apply nouerr_bind; [auto with nue|]. intro items.
  apply nouerr_bind; [auto with nue|]. intros []; [nue_tac|].
  pose proof (py_sorted_nouerr items) as H.
  destruct (py_sorted items) as [v|c p|e|]; nue_tac; try exact H; try (eapply nouerr_retype; exact H).
Qed.
Lemma f_sort_agr pol l k : nuP l -> nuP k -> agr nuP (f_sort PProbe l k) (f_sort pol l k).
Proof.
  intros Hl Hk. unfold f_sort.
  eapply agr_bind; [apply sequence_arg_agr, Hl|]. intros items Hi.
  eapply agr_bind; [apply py_truthy_agr, Hk|]. intros [] _; [apply agr_pyexc|].
  pose proof (py_sorted_nomiss items) as Hn. pose proof (py_sorted_nu items) as Hs.
  destruct (py_sorted items) as [v|c p|e|].
  - apply agr_ok. apply (Hs v Hi eq_refl).
  - apply agr_same; [eapply nomiss_retype; exact Hn|intros; discriminate].
  - destruct e; try apply agr_pyexc. apply agr_lerr; discriminate.
  - apply agr_oof.
Qed.

Lemma f_concat_ref pol l o : refines (f_concat pol l o) (f_concat PDefault l o).
Proof. unfold f_concat; ref_tac. Qed.
Lemma f_concat_nouerr pol l o : quiet pol -> nouerr (f_concat pol l o).
Proof. intro; unfold f_concat; nue_tac. Qed.
Lemma f_concat_agr pol l o : nuP l -> nuP o -> agr nuP (f_concat PProbe l o) (f_concat pol l o).
Proof.
  intros Hl Ho. unfold f_concat.
  eapply agr_bind; [apply sequence_arg_agr, Hl|]. intros items Hi.
  destruct o; try (apply agr_lerr; discriminate). apply agr_ok.
  unfold nuP, nuL in *. simpl in *. rewrite forallb_app', Hi, Ho. reflexivity.
Qed.

Lemma f_compact_ref pol l k : refines (f_compact pol l k) (f_compact PDefault l k).
Proof.
  unfold f_compact. apply refines_bind; [auto with ref|]. intro items.
  destruct k as [k|]; [|apply refines_refl].
  destruct k; try apply refines_refl;
    (apply refines_bind; [|intro; apply refines_refl]; apply filterM_ref; intro itm;
     destruct pol; try apply refines_refl;
     destruct itm; simpl; try apply refines_refl; try apply refines_lerr).
Qed.
Lemma f_compact_nouerr pol l k : quiet pol -> nouerr (f_compact pol l k).
Proof.
  intro Q. unfold f_compact. apply nouerr_bind; [auto with nue|]. intro items.
  destruct k as [k|]; [|apply nouerr_ok].
  assert (HH : forall k, nouerr (do r <- filterM (fun itm =>
                         match py_getitem pol itm k with
                         | PyExc TypeError =>
                             do _ <- match k with VUndef _ => poke pol DStr | _ => Ok tt end;;
                             LErr LiquidTypeError None
                         | PyExc KeyError | PyExc IndexError => Ok false
                         | Ok x => Ok (negb (is_nil x))
                         | LErr c p => LErr c p
                         | PyExc e => PyExc e
                         | OutOfFuel => OutOfFuel
                         end) items;; Ok (VList r))).
  { intro k0. apply nouerr_bind; [|intro; apply nouerr_ok]. apply filterM_nouerr. intro itm.
    pose proof (py_getitem_nouerr pol itm k0 Q) as H.
    destruct (py_getitem pol itm k0) as [v|c p|e|]; try solve [nue_tac];
      try exact H; try (eapply nouerr_retype; exact H). }
  destruct k; try apply nouerr_ok; apply HH.
Qed.
Lemma f_compact_agr pol l k : nuP l -> (forall k', k = Some k' -> nuP k') ->
  agr nuP (f_compact PProbe l k) (f_compact pol l k).
Proof.
  intros Hl Hk. unfold f_compact.
  eapply agr_bind; [apply sequence_arg_agr, Hl|]. intros items Hi.
  assert (E0 : agr nuP (Ok (VList (filter (fun v => negb (is_nil v)) items)))
                      (Ok (VList (filter (fun v => negb (is_nil v)) items)))).
  { apply agr_ok. unfold nuP; simpl. apply forallb_filter, Hi. }
  destruct k as [k|]; [|exact E0]. specialize (Hk k eq_refl).
  destruct k; try exact E0; try (unfold nuP in Hk; simpl in Hk; discriminate);
    (eapply agr_bind; [apply filterM_agr_nu; [exact Hi|]|intros r Hr; apply agr_ok; exact Hr];
     intros x Hx;
     match goal with |- agr _ (match py_getitem _ _ ?kk with _ => _ end) _ =>
       destruct (py_getitem_agr pol x kk Hx Hk) as [-> [Hn HP]];
       destruct (py_getitem PProbe x kk) as [v|c p|e|] end;
     [apply agr_ok; exact I
     |apply agr_same; [eapply nomiss_retype; exact Hn|intros; discriminate]
     |destruct e; try apply agr_pyexc; simpl; try (apply agr_ok; exact I); apply agr_lerr; discriminate
     |apply agr_oof]).
Qed.

Lemma uniq_eq_ref pol a b : refines (uniq_eq pol a b) (uniq_eq PDefault a b).
Proof.
  unfold uniq_eq. destruct a; try apply liq_eq_ref. destruct b; try apply liq_eq_ref.
  destruct pol; try apply liq_eq_ref. apply refines_pyexc.
Qed.
Lemma uniq_eq_nouerr pol a b : quiet pol -> nouerr (uniq_eq pol a b).
Proof.
  intro Q. unfold uniq_eq. destruct a; try (apply liq_eq_nouerr; exact Q). destruct b; try (apply liq_eq_nouerr; exact Q).
  destruct Q; subst; apply liq_eq_nouerr; auto with nue.
Qed.
Lemma uniq_eq_agr pol a b : nuP a -> nuP b -> agr T (uniq_eq PProbe a b) (uniq_eq pol a b).
Proof.
  intros Ha Hb. unfold uniq_eq. destruct a; try (apply liq_eq_agr; assumption).
  unfold nuP in Ha; simpl in Ha; discriminate.
Qed.
#[export] Hint Resolve uniq_eq_ref : ref.
#[export] Hint Resolve uniq_eq_nouerr : nue.

Lemma seen_before_ref pol l x : refines (seen_before pol l x) (seen_before PDefault l x).
Proof. induction l; simpl; ref_tac. Qed.
Lemma seen_before_nouerr pol l x : quiet pol -> nouerr (seen_before pol l x).
Proof. intro; induction l; simpl; nue_tac. Qed.
Lemma seen_before_agr pol l x : nuL l -> nuP x -> agr T (seen_before PProbe l x) (seen_before pol l x).
Proof.
  unfold nuL. intros Hl Hx. induction l as [|y l IH]; simpl in *; [agr_tac|].
  apply andb_true_iff in Hl as [H1 H2].
  eapply agr_bind; [apply uniq_eq_agr; assumption|]. intros [] _; [agr_tac|apply IH, H2].
Qed.
#[export] Hint Resolve seen_before_ref : ref.
#[export] Hint Resolve seen_before_nouerr : nue.

Lemma uniq_go_ref pol p l : refines (uniq_go pol p l) (uniq_go PDefault p l).
Proof.
  revert p; induction l as [|x l IH]; intro p; simpl; [apply refines_refl|].
  apply refines_bind; [apply seen_before_ref|]. intro b. apply IH.
Qed.
Lemma uniq_go_nouerr pol p l : quiet pol -> nouerr (uniq_go pol p l).
Proof.
  intro Q; revert p; induction l as [|x l IH]; intro p; simpl; [apply nouerr_ok|].
  apply nouerr_bind; [apply seen_before_nouerr, Q|]. intro b. apply IH.
Qed.
Lemma uniq_go_agr pol p l : nuL p -> nuL l -> agr nuL (uniq_go PProbe p l) (uniq_go pol p l).
Proof.
  unfold nuL. revert p. induction l as [|x l IH]; intros p Hp Hl; simpl in *; [apply agr_ok; exact Hp|].
  apply andb_true_iff in Hl as [H1 H2].
  eapply agr_bind; [apply seen_before_agr; assumption|]. intros b _.
  apply IH; [|exact H2]. destruct b; [exact Hp|]. rewrite forallb_app', Hp; simpl; rewrite H1; reflexivity.
Qed.
#[export] Hint Resolve uniq_go_ref : ref.
#[export] Hint Resolve uniq_go_nouerr : nue.

Lemma f_uniq_ref pol l : refines (f_uniq pol l) (f_uniq PDefault l).
Proof. unfold f_uniq; ref_tac. Qed.
Lemma f_uniq_nouerr pol l : quiet pol -> nouerr (f_uniq pol l).
Proof. intro; unfold f_uniq; nue_tac. Qed.
Lemma f_uniq_agr pol l : nuP l -> agr nuP (f_uniq PProbe l) (f_uniq pol l).
Proof.
  intros Hl. unfold f_uniq.
  eapply agr_bind; [apply sequence_arg_agr, Hl|]. intros items Hi.
  eapply agr_bind; [apply uniq_go_agr; [reflexivity|exact Hi]|]. intros r Hr. apply agr_ok. exact Hr.
Qed.

Lemma f_sum_ref pol l k : refines (f_sum pol l k) (f_sum PDefault l k).
Proof.
  unfold f_sum. apply refines_bind; [auto with ref|]. intro items.
  destruct k as [k|]; [|apply refines_refl].
  destruct k; try apply refines_refl;
    (apply refines_bind; [|intro; apply refines_refl]; apply mapM_ref; intro e;
     apply refines_bind; [apply wrap_ref, f_getitem_ref|intro; apply refines_refl]).
Qed.
Lemma f_sum_nouerr pol l k : quiet pol -> nouerr (f_sum pol l k).
Proof.
  intro Q. unfold f_sum. apply nouerr_bind; [auto with nue|]. intro items.
  assert (E0 : nouerr (do zs <- mapM decimal_arg0 items;; Ok (VInt (fold_left Z.add zs 0)))) by nue_tac.
  assert (HH : forall k, nouerr (do zs <- mapM (fun e => do x <- wrap_type_error (f_getitem pol e k (VInt 0));;
                               decimal_arg0 x) items;; Ok (VInt (fold_left Z.add zs 0)))).
  { intro k0. apply nouerr_bind; [|intro; apply nouerr_ok]. apply mapM_nouerr. intro e.
    apply nouerr_bind; [apply wrap_nouerr, f_getitem_nouerr, Q|intro; auto with nue]. }
  destruct k as [k|]; [|exact E0]. destruct k; try exact E0; apply HH.
Qed.
Lemma f_sum_agr pol l k : nuP l -> (forall k', k = Some k' -> nuP k') ->
  agr nuP (f_sum PProbe l k) (f_sum pol l k).
Proof.
  intros Hl Hk. unfold f_sum.
  eapply agr_bind; [apply sequence_arg_agr, Hl|]. intros items Hi.
  assert (E0 : agr nuP (do zs <- mapM decimal_arg0 items;; Ok (VInt (fold_left Z.add zs 0)))
                      (do zs <- mapM decimal_arg0 items;; Ok (VInt (fold_left Z.add zs 0)))).
  { eapply agr_bind; [apply mapM_agr_T; [exact Hi|intros; apply decimal_arg0_agr]|].
    intros; apply agr_ok; reflexivity. }
  destruct k as [k|]; [|exact E0]. specialize (Hk k eq_refl).
  destruct k; try exact E0;
    (eapply agr_bind; [apply mapM_agr_T; [exact Hi|]|intros; apply agr_ok; reflexivity];
     intros x Hx; eapply agr_bind; [apply wrap_agr, f_getitem_agr; [exact Hx|exact Hk|reflexivity]|];
     intros; apply decimal_arg0_agr).
Qed.

Lemma f_slice_ref pol v s l : refines (f_slice pol v s l) (f_slice PDefault v s l).
Proof. unfold f_slice; ref_tac. Qed.
Lemma f_slice_nouerr pol v s l : quiet pol -> nouerr (f_slice pol v s l).
Proof. intro; unfold f_slice; nue_tac. Qed.
Lemma f_slice_agr pol v s l : nuP v -> nuP s -> nuP l -> agr nuP (f_slice PProbe v s l) (f_slice pol v s l).
Proof.
  intros Hv Hs Hl. unfold f_slice.
  eapply agr_bind with (P := nuP).
  { destruct v; try (apply agr_ok; exact Hv);
      (eapply agr_bind; [apply py_str_agr, Hv|intros; apply agr_ok; reflexivity]). }
  intros v' Hv'.
  destruct s; try (unfold nuP in Hs; simpl in Hs; discriminate);
    (eapply agr_bind; [apply to_int_arg_agr; exact Hs|]; intros st _;
     eapply agr_bind; [apply to_int_arg_agr; destruct l; try reflexivity; exact Hl|]; intros ln _;
     destruct v'; try apply agr_pyexc; apply agr_ok; unfold nuP in *; simpl in *;
     try reflexivity; destruct (_ <? - _); [reflexivity|apply py_slice_nu, Hv']).
Qed.

Lemma f_split_ref pol v s : refines (f_split pol v s) (f_split PDefault v s).
Proof. unfold f_split; ref_tac. Qed.
Lemma f_split_nouerr pol v s : quiet pol -> nouerr (f_split pol v s).
Proof. intro; unfold f_split; nue_tac. Qed.
Lemma f_split_agr pol v s : nuP v -> nuP s -> agr nuP (f_split PProbe v s) (f_split pol v s).
Proof.
  intros Hv Hs. unfold f_split.
  eapply agr_bind; [apply tls_agr, Hv|]. intros x _.
  eapply agr_bind; [apply py_truthy_agr, Hs|]. intros t _.
  destruct (negb t); [apply agr_ok; apply nu_map_chars|].
  eapply agr_bind; [apply tls_agr, Hs|]. intros y _.
  destruct x; [apply agr_ok; reflexivity|].
  destruct (str_eqb _ _); [apply agr_ok; reflexivity|].
  destruct y; [apply agr_pyexc|apply agr_ok; apply nu_map_VStr].
Qed.

#[export] Hint Resolve f_default_ref f_size_ref f_first_ref f_last_ref f_join_ref f_where_ref f_map_ref
  f_sort_ref f_concat_ref f_compact_ref f_uniq_ref f_sum_ref f_slice_ref f_split_ref : ref.
#[export] Hint Resolve f_default_nouerr f_size_nouerr f_first_nouerr f_last_nouerr f_join_nouerr f_where_nouerr
  f_map_nouerr f_sort_nouerr f_concat_nouerr f_compact_nouerr f_uniq_nouerr f_sum_nouerr f_slice_nouerr
  f_split_nouerr : nue.

Lemma ascii_upper_nouerr s : nouerr (ascii_upper s).
Proof. unfold ascii_upper; nue_tac. Qed.
Lemma ascii_lower_nouerr s : nouerr (ascii_lower s).
Proof. unfold ascii_lower; nue_tac. Qed.
#[export] Hint Resolve ascii_upper_nouerr ascii_lower_nouerr : nue.
Lemma ascii_upper_agr s : agr T (ascii_upper s) (ascii_upper s).
Proof. unfold ascii_upper; destruct (is_ascii s); [apply agr_ok; exact I|apply agr_pyexc]. Qed.
Lemma ascii_lower_agr s : agr T (ascii_lower s) (ascii_lower s).
Proof. unfold ascii_lower; destruct (is_ascii s); [apply agr_ok; exact I|apply agr_pyexc]. Qed.

Lemma apply_filter_ref pol f l pos kw :
  refines (apply_filter pol f l pos kw) (apply_filter PDefault f l pos kw).
Proof.
  unfold apply_filter.
  destruct f; destruct pos as [|a1 [|a2 [|a3 pos]]]; destruct kw as [|[k1 v1] [|kv2 kw]];
    try apply refines_refl; ref_tac.
Qed.
Lemma apply_filter_nouerr pol f l pos kw : quiet pol -> nouerr (apply_filter pol f l pos kw).
Proof.
  intro Q. unfold apply_filter.
  destruct f; destruct pos as [|a1 [|a2 [|a3 pos]]]; destruct kw as [|[k1 v1] [|kv2 kw]];
    try apply nouerr_pyexc; nue_tac.
Qed.

Definition nuKW (kw : list (str * val)) : Prop := Forall (fun p => nuP (snd p)) kw.

Lemma apply_filter_agr pol f l pos kw : nuP l -> Forall nuP pos -> nuKW kw ->
  agr nuP (apply_filter PProbe f l pos kw) (apply_filter pol f l pos kw).
Proof.
  intros Hl Hp Hk. unfold apply_filter.
  destruct f; destruct pos as [|a1 [|a2 [|a3 pos]]]; destruct kw as [|[k1 v1] [|kv2 kw]];
    try apply agr_pyexc;
    repeat match goal with
           | H : Forall _ (_ :: _) |- _ => inversion H; subst; clear H
           | H : nuKW (_ :: _) |- _ => inversion H; subst; clear H
           end; simpl in *;
    try match goal with |- agr _ (if ?b then _ else _) _ => destruct b; [|apply agr_pyexc] end;
    try solve [ apply f_default_agr; solve [assumption | reflexivity]
              | apply f_size_agr; assumption | apply f_first_agr; assumption | apply f_last_agr; assumption
              | apply f_join_agr; solve [assumption | reflexivity]
              | apply f_where_agr; solve [assumption | reflexivity]
              | apply f_map_agr; assumption
              | apply f_sort_agr; solve [assumption | reflexivity]
              | apply f_concat_agr; assumption
              | apply f_compact_agr; [assumption | intros k' E; inversion E; subst; assumption]
              | apply f_uniq_agr; assumption
              | apply f_sum_agr; [assumption | intros k' E; inversion E; subst; assumption]
              | apply f_slice_agr; solve [assumption | reflexivity]
              | apply f_split_agr; assumption ].
  (* uniq with an argument: nil / undefined mean no key *)
  all: try (match goal with |- agr _ (match ?v with _ => _ end) _ => destruct v end;
            first [apply agr_pyexc | apply f_uniq_agr; assumption]).
  (* upcase downcase append prepend escape plus minus times reverse *)
  all: try (eapply agr_bind; [apply tls_agr; assumption|]; intros s0 _).
  all: try (eapply agr_bind; [first [apply ascii_upper_agr | apply ascii_lower_agr
                                    | apply py_str_agr; assumption | apply tls_agr; assumption]|]; intros t0 _).
  all: try (apply agr_ok; reflexivity).
  all: try (eapply agr_bind; [apply math_left_agr; assumption|]; intros x0 _;
            eapply agr_bind; [apply num_arg0_agr|]; intros y0 _; apply agr_ok; reflexivity).
  all: try (eapply agr_bind; [apply sequence_arg_agr; assumption|]; intros items Hi; apply agr_ok;
            unfold nuP, nuL in *; simpl; rewrite forallb_rev'; exact Hi).
Qed.

(** * Lookup *)

Lemma len_val_ref pol o : match len_val pol o, len_val PDefault o with
                          | Some a, Some b => refines a b
                          | None, None => True
                          | _, _ => False
                          end.
Proof. destruct o; simpl; try exact I; try apply refines_refl. destruct pol; simpl; ref_tac. Qed.

Lemma get_item_ref pol o k : refines (get_item pol o k) (get_item PDefault o k).
Proof.
  unfold get_item. apply refines_bind; [auto with ref|]. intro key.
  destruct pol; try apply refines_refl;
    destruct key; try (destruct o; simpl; ref_tac; fail);
    repeat match goal with |- refines (if ?b then _ else _) _ => destruct b end;
    destruct o; simpl; try apply refines_refl; try apply refines_lerr.
Qed.
#[export] Hint Resolve get_item_ref : ref.

Lemma get_item_cases pol o k :
  get_item pol o k = get_item PDefault o k \/ get_item pol o k = LErr UndefinedError None.
Proof.
  destruct pol; try (left; reflexivity);
    unfold get_item; destruct k; simpl; try (right; reflexivity);
    try (destruct o; simpl; (left; reflexivity) || (right; reflexivity));
    destruct (str_eqb s s_size), (str_eqb s s_first), (str_eqb s s_last);
    destruct o; simpl; try (left; reflexivity); try (right; reflexivity);
    try (destruct (assoc s kvs); simpl; try (left; reflexivity); destruct kvs; left; reflexivity).
Qed.

Lemma get_item_nouerr pol o k : quiet pol -> nouerr (get_item pol o k).
Proof.
  intro Q. unfold get_item. apply nouerr_bind; [auto with nue|]. intro key.
  assert (G : forall kk, nouerr (py_getitem pol o kk)) by (intro; auto with nue).
  destruct key; try apply G. cbv zeta.
  repeat match goal with |- nouerr (if ?b then _ else _) => destruct b end; try apply G;
    destruct o; simpl; try apply G; nue_tac.
Qed.
#[export] Hint Resolve get_item_nouerr : nue.

Lemma len_val_agr pol o : nuP o ->
  match len_val PProbe o, len_val pol o with
  | Some a, Some b => agr nuP a b
  | None, None => True
  | _, _ => False
  end.
Proof. unfold nuP. destruct o; simpl; intro H; try exact I; try discriminate; apply agr_ok; reflexivity. Qed.

Lemma get_item_agr pol o k : nuP o -> nuP k -> agr nuP (get_item PProbe o k) (get_item pol o k).
Proof.
  intros Ho Hk. unfold get_item.
  eapply agr_bind; [apply unliquid_agr, Hk|]. intros key Hkey.
  assert (G : forall kk, nuP kk -> agr nuP (py_getitem PProbe o kk) (py_getitem pol o kk))
    by (intros; apply py_getitem_agr; assumption).
  assert (E : forall kk, nuP kk -> py_getitem pol o kk = py_getitem PProbe o kk)
    by (intros kk Hkk; destruct (G kk Hkk) as [E _]; exact E).
  assert (G' : forall kk, nuP kk -> agr nuP (py_getitem PProbe o kk) (py_getitem PProbe o kk))
    by (intros kk Hkk; destruct (G kk Hkk) as [_ [Hn HP]]; apply agr_same; assumption).
  destruct key; try (apply G; assumption). cbv zeta.
  rewrite !(E (VStr s)) by exact Hkey.
  repeat match goal with |- agr _ (if ?b then _ else _) _ => destruct b end;
    try (apply G'; assumption).
  - pose proof (len_val_agr pol o Ho) as HL.
    destruct (len_val PProbe o), (len_val pol o); try contradiction; [exact HL|apply G'; assumption].
  - destruct o; try (apply G'; assumption); try (apply G; reflexivity).
    destruct kvs; [apply G'; assumption|apply agr_pyexc].
  - destruct o; try (apply G'; assumption); try (apply G; reflexivity).
Qed.

Lemma miss_ref pol root : refines (miss pol root) (miss PDefault root).
Proof. destruct pol; simpl; try apply refines_refl; apply refines_lerr. Qed.
Lemma miss_nouerr pol root : nouerr (miss pol root).
Proof. destruct pol; simpl; nue_tac. Qed.
#[export] Hint Resolve miss_ref : ref.
#[export] Hint Resolve miss_nouerr : nue.

Lemma walk_ref pol root keys : forall o, refines (walk pol root o keys) (walk PDefault root o keys).
Proof.
  induction keys as [|k t IH]; intro o; simpl; [apply refines_refl|].
  destruct (get_item_cases pol o k) as [E|E]; rewrite E.
  - destruct (is_lookup_error _); [apply miss_ref|]. apply refines_bind; [apply refines_refl|]. intro; apply IH.
  - simpl. apply refines_lerr.
Qed.
Lemma walk_nouerr pol root keys : quiet pol -> forall o, nouerr (walk pol root o keys).
Proof.
  intro Q. induction keys as [|k t IH]; intro o; simpl; [apply nouerr_ok|].
  destruct (is_lookup_error _); [apply miss_nouerr|]. apply nouerr_bind; [auto with nue|]. intro; apply IH.
Qed.
Lemma walk_agree pol root keys : Forall nuP keys -> forall o, nuP o ->
  agree nuP (walk PProbe root o keys) (walk pol root o keys).
Proof.
  induction 1 as [|k t Hk Ht IH]; intros o Ho; simpl; [apply agree_ok, Ho|].
  destruct (get_item_agr pol o k Ho Hk) as [E [Hn HP]]. rewrite E.
  destruct (is_lookup_error _); [apply agree_miss|].
  eapply agree_bind with (P := nuP); [right; split; [reflexivity|exact HP]|]. intros a Ha. apply IH, Ha.
Qed.

Lemma scope_lookup_nu k ss v : forallb nu_ns ss = true -> scope_lookup k ss = Some v -> nu v = true.
Proof.
  induction ss as [|s t IH]; simpl; [discriminate|]. rewrite andb_true_iff. intros [a b].
  destruct (assoc k s) eqn:E; [intro H; inversion H; subst; eapply nu_assoc; eassumption|apply IH, b].
Qed.

Lemma ctx_get_ref pol c root keys : refines (ctx_get pol c root keys) (ctx_get PDefault c root keys).
Proof.
  unfold ctx_get. destruct (_ && _); [apply refines_refl|].
  destruct (scope_lookup _ _); [apply walk_ref|].
  destruct (assoc root (locals c)); [apply walk_ref|].
  destruct (assoc root (globals c)); [apply walk_ref|].
  destruct (_ || _); [apply refines_refl|apply miss_ref].
Qed.
Lemma ctx_get_nouerr pol c root keys : quiet pol -> nouerr (ctx_get pol c root keys).
Proof.
  intro Q. unfold ctx_get. destruct (_ && _); [apply nouerr_pyexc|].
  destruct (scope_lookup _ _); [apply walk_nouerr, Q|].
  destruct (assoc root (locals c)); [apply walk_nouerr, Q|].
  destruct (assoc root (globals c)); [apply walk_nouerr, Q|].
  destruct (_ || _); [apply nouerr_pyexc|apply miss_nouerr].
Qed.
Lemma ctx_get_agree pol c root keys : nu_ctx c = true -> Forall nuP keys ->
  agree nuP (ctx_get PProbe c root keys) (ctx_get pol c root keys).
Proof.
  unfold nu_ctx. rewrite !andb_true_iff. intros [[Hs Hl] Hg] Hk. unfold ctx_get.
  destruct (_ && _); [apply agr_agree, agr_pyexc|].
  destruct (scope_lookup _ _) eqn:E1; [apply walk_agree; [exact Hk|eapply scope_lookup_nu; eassumption]|].
  destruct (assoc root (locals c)) eqn:E2; [apply walk_agree; [exact Hk|exact (nu_assoc _ _ _ Hl E2)]|].
  destruct (assoc root (globals c)) eqn:E3; [apply walk_agree; [exact Hk|exact (nu_assoc _ _ _ Hg E3)]|].
  destruct (_ || _); [apply agr_agree, agr_pyexc|apply agree_miss].
Qed.
#[export] Hint Resolve ctx_get_ref : ref.
#[export] Hint Resolve ctx_get_nouerr : nue.

Lemma to_iter_ref pol v : refines (to_iter pol v) (to_iter PDefault v).
Proof. unfold to_iter; destruct pol; simpl; ref_tac. Qed.
Lemma to_iter_nouerr pol v : quiet pol -> nouerr (to_iter pol v).
Proof. intros [->| ->]; unfold to_iter; simpl; nue_tac. Qed.
Lemma to_iter_agr pol v : nuP v -> agr nuL (to_iter PProbe v) (to_iter pol v).
Proof.
  unfold nuP, nuL, to_iter; destruct v; simpl; intro H; try discriminate;
    try (apply agr_lerr; discriminate).
  - apply agr_ok, nu_map_chars.
  - apply agr_ok, H.
  - destruct kvs; [apply agr_ok; reflexivity|apply agr_pyexc].
Qed.
#[export] Hint Resolve to_iter_ref : ref.
#[export] Hint Resolve to_iter_nouerr : nue.

(** * Expressions *)

#[export] Hint Resolve apply_filter_ref : ref.
#[export] Hint Resolve apply_filter_nouerr : nue.

Lemma eval_step_ref pol ev1 ev2 c e :
  (forall c e, refines (ev1 c e) (ev2 c e)) ->
  refines (eval_step pol ev1 c e) (eval_step PDefault ev2 c e).
Proof.
  intro H. unfold eval_step. destruct e; ref_tac; try (apply wrap_ref; auto with ref).
Qed.

Lemma eval_step_nouerr pol ev c e :
  quiet pol -> (forall c e, nouerr (ev c e)) -> nouerr (eval_step pol ev c e).
Proof.
  intros Q H. unfold eval_step. destruct e; nue_tac; try (apply wrap_nouerr; auto with nue).
Qed.

Lemma Forall_nuP_nuL l : Forall nuP l -> nuP (VList l).
Proof. intro H. unfold nuP; simpl. apply Forall_nu, H. Qed.

Lemma nu_val_of_lit l : nuP (val_of_lit l).
Proof. destruct l; reflexivity. Qed.

Lemma eval_step_agree pol evP evQ c e :
  nu_ctx c = true ->
  (forall c e, nu_ctx c = true -> agree nuP (evP c e) (evQ c e)) ->
  agree nuP (eval_step PProbe evP c e) (eval_step pol evQ c e).
Proof.
  intros Hc H. unfold eval_step.
  assert (HT : forall v, nuP v -> agree T (is_truthy PProbe v) (is_truthy pol v))
    by (intros; apply agr_agree, is_truthy_agr; assumption).
  destruct e.
  - apply agree_ok, nu_val_of_lit.
  - (* path *)
    eapply agree_bind with (P := Forall nuP).
    + induction segs as [|s t IH]; simpl; [apply agree_ok; constructor|].
      eapply agree_bind with (P := nuP).
      * destruct s; try (apply agree_ok; reflexivity). apply H, Hc.
      * intros k Hk. eapply agree_bind; [exact IH|]. intros ks Hks. apply agree_ok. constructor; assumption.
    + intros keys Hk. apply ctx_get_agree; assumption.
  - (* array *)
    eapply agree_bind with (P := Forall nuP).
    + induction items as [|s t IH]; simpl; [apply agree_ok; constructor|].
      eapply agree_bind; [apply H, Hc|]. intros k Hk.
      eapply agree_bind; [exact IH|]. intros ks Hks. apply agree_ok. constructor; assumption.
    + intros vs Hvs. apply agree_ok, Forall_nuP_nuL, Hvs.
  - (* filter *)
    eapply agree_bind; [apply H, Hc|]. intros lv Hlv.
    eapply agree_bind with (P := Forall nuP).
    { induction pos as [|s t IH]; simpl; [apply agree_ok; constructor|].
      eapply agree_bind; [apply H, Hc|]. intros k Hk.
      eapply agree_bind; [exact IH|]. intros ks Hks. apply agree_ok. constructor; assumption. }
    intros pv Hpv.
    eapply agree_bind with (P := nuKW).
    { induction kw as [|s t IH]; simpl; [apply agree_ok; constructor|].
      eapply agree_bind with (P := fun p => nuP (snd p)).
      - eapply agree_bind; [apply H, Hc|]. intros v Hv. apply agree_ok. exact Hv.
      - intros k Hk. eapply agree_bind; [exact IH|]. intros ks Hks. apply agree_ok. constructor; assumption. }
    intros kv Hkv. apply agr_agree, wrap_agr, apply_filter_agr; assumption.
  - (* ternary *)
    eapply agree_bind; [apply H, Hc|]. intros cv Hcv.
    eapply agree_bind; [apply HT, Hcv|]. intros b _.
    destruct b; [apply H, Hc|]. destruct alt; [apply H, Hc|apply agree_ok; reflexivity].
  - (* not *)
    eapply agree_bind; [apply H, Hc|]. intros v Hv.
    eapply agree_bind; [apply HT, Hv|]. intros b _. apply agree_ok; reflexivity.
  - (* and *)
    eapply agree_bind; [apply H, Hc|]. intros x Hx.
    eapply agree_bind; [apply HT, Hx|]. intros [] _; [|apply agree_ok; reflexivity].
    eapply agree_bind; [apply H, Hc|]. intros y Hy.
    eapply agree_bind; [apply HT, Hy|]. intros b _. apply agree_ok; reflexivity.
  - (* or *)
    eapply agree_bind; [apply H, Hc|]. intros x Hx.
    eapply agree_bind; [apply HT, Hx|]. intros [] _; [apply agree_ok; reflexivity|].
    eapply agree_bind; [apply H, Hc|]. intros y Hy.
    eapply agree_bind; [apply HT, Hy|]. intros b _. apply agree_ok; reflexivity.
  - (* cmp *)
    destruct (right_first op).
    + eapply agree_bind; [apply H, Hc|]. intros y Hy.
      eapply agree_bind; [apply H, Hc|]. intros x Hx.
      eapply agree_bind; [apply agr_agree, cmp_eval_agr; assumption|]. intros r _. apply agree_ok; reflexivity.
    + eapply agree_bind; [apply H, Hc|]. intros x Hx.
      eapply agree_bind; [apply H, Hc|]. intros y Hy.
      eapply agree_bind; [apply agr_agree, cmp_eval_agr; assumption|]. intros r _. apply agree_ok; reflexivity.
Qed.

Lemma eval_ref pol f : forall c e, refines (eval pol f c e) (eval PDefault f c e).
Proof. induction f as [|f IH]; intros c e; simpl; [apply refines_oof|apply eval_step_ref, IH]. Qed.
Lemma eval_nouerr pol f : quiet pol -> forall c e, nouerr (eval pol f c e).
Proof. intro Q. induction f as [|f IH]; intros c e; simpl; [apply nouerr_oof|apply eval_step_nouerr; assumption]. Qed.
Lemma eval_agree pol f : forall c e, nu_ctx c = true -> agree nuP (eval PProbe f c e) (eval pol f c e).
Proof.
  induction f as [|f IH]; intros c e Hc; simpl; [apply agr_agree, agr_oof|].
  apply eval_step_agree; assumption.
Qed.

(** * Statements *)

Definition PC : ctx * str -> Prop := fun r => nu_ctx (fst r) = true.

Lemma nu_dict_set x v l : nu v = true -> nu_ns l = true -> nu_ns (dict_set x v l) = true.
Proof.
  unfold nu_ns. intros Hv. induction l as [|[k w] l IH]; simpl; [rewrite Hv; reflexivity|].
  rewrite andb_true_iff. intros [a b]. destruct (str_eqb x k); simpl; [rewrite Hv, b; reflexivity|rewrite a; apply IH, b].
Qed.
Lemma nu_set_local c x v : nu_ctx c = true -> nu v = true -> nu_ctx (set_local c x v) = true.
Proof.
  unfold nu_ctx, set_local; simpl. rewrite !andb_true_iff. intros [[a b] d] Hv.
  repeat split; try assumption. apply nu_dict_set; assumption.
Qed.
Lemma nu_push c x v : nu_ctx c = true -> nu v = true -> nu_ctx (push_scope c [(x, v)]) = true.
Proof.
  unfold nu_ctx, push_scope; simpl. rewrite !andb_true_iff. intros [[a b] d] Hv.
  repeat split; try assumption.
Qed.
Lemma nu_pop c : nu_ctx c = true -> nu_ctx (pop_scope c) = true.
Proof.
  unfold nu_ctx, pop_scope; simpl. rewrite !andb_true_iff. intros [[a b] d].
  repeat split; try assumption. destruct (scopes c); simpl in *; [reflexivity|].
  apply andb_true_iff in a as [_ a]. exact a.
Qed.

Section Blocks.
  Variable pol : upolicy.

  (** A *)
  Lemma run_block_ref ex1 ex2 : (forall c b, refines (ex1 c b) (ex2 c b)) ->
    forall c b, refines (run_block ex1 c b) (run_block ex2 c b).
  Proof. intros H c b. unfold run_block. ref_tac. Qed.

  Lemma opt_run_ref blk1 blk2 c o : (forall c b, refines (blk1 c b) (blk2 c b)) ->
    refines (opt_run blk1 c o) (opt_run blk2 c o).
  Proof. intro H. unfold opt_run. destruct o; [apply H|apply refines_refl]. Qed.

  Lemma elif_go_ref ev1 ev2 blk1 blk2 c alts e :
    (forall c e, refines (ev1 c e) (ev2 c e)) -> (forall c b, refines (blk1 c b) (blk2 c b)) ->
    refines (elif_go pol ev1 blk1 c alts e) (elif_go PDefault ev2 blk2 c alts e).
  Proof.
    intros He Hb. induction alts as [|[cnd b] rest IH]; simpl; [apply opt_run_ref, Hb|].
    apply refines_bind; [apply He|]. intro v. apply refines_bind; [auto with ref|]. intros []; [apply Hb|exact IH].
  Qed.

  Lemma case_any_ref ev1 ev2 lv es : (forall e, refines (ev1 e) (ev2 e)) ->
    refines (case_any pol ev1 lv es) (case_any PDefault ev2 lv es).
  Proof. intro H. induction es; simpl; ref_tac. Qed.

  Lemma case_go_ref ev1 ev2 blk1 blk2 e ws :
    (forall c e, refines (ev1 c e) (ev2 c e)) -> (forall c b, refines (blk1 c b) (blk2 c b)) ->
    forall c out m, refines (case_go pol ev1 blk1 e ws c out m) (case_go PDefault ev2 blk2 e ws c out m).
  Proof.
    intros He Hb. induction ws as [|[es b] ws IH]; intros c out m; simpl; [apply refines_refl|].
    apply refines_bind; [apply He|]. intro lv.
    apply refines_bind; [apply case_any_ref; intro; apply He|]. intros [].
    - apply refines_bind; [apply Hb|]. intro r. apply IH.
    - apply IH.
  Qed.

  Lemma for_loop_ref blk1 blk2 x body its : (forall c b, refines (blk1 c b) (blk2 c b)) ->
    forall c out, refines (for_loop blk1 x body its c out) (for_loop blk2 x body its c out).
  Proof.
    intro Hb. induction its as [|i its IH]; intros c out; simpl; [apply refines_refl|].
    apply refines_bind; [apply Hb|]. intro r. apply IH.
  Qed.

  Lemma exec_stmt_ref ev1 ev2 blk1 blk2 c s :
    (forall c e, refines (ev1 c e) (ev2 c e)) -> (forall c b, refines (blk1 c b) (blk2 c b)) ->
    refines (exec_stmt pol ev1 blk1 c s) (exec_stmt PDefault ev2 blk2 c s).
  Proof.
    intros He Hb. unfold exec_stmt. destruct s; ref_tac;
      try (apply opt_run_ref; exact Hb); try (apply case_go_ref; assumption);
      try (apply for_loop_ref; exact Hb); try (apply elif_go_ref; assumption).
  Qed.

  (** B *)
  Hypothesis Q : quiet pol.

  Lemma run_block_nouerr ex : (forall c b, nouerr (ex c b)) -> forall c b, nouerr (run_block ex c b).
  Proof. intros H c b. unfold run_block. nue_tac. Qed.
  Lemma opt_run_nouerr blk c o : (forall c b, nouerr (blk c b)) -> nouerr (opt_run blk c o).
  Proof. intro H. unfold opt_run. destruct o; nue_tac. Qed.
  Lemma elif_go_nouerr ev blk c alts e : (forall c e, nouerr (ev c e)) -> (forall c b, nouerr (blk c b)) ->
    nouerr (elif_go pol ev blk c alts e).
  Proof.
    intros He Hb. induction alts as [|[cnd b] rest IH]; simpl; [apply opt_run_nouerr, Hb|].
    apply nouerr_bind; [apply He|]. intro v. apply nouerr_bind; [auto with nue|]. intros []; [apply Hb|exact IH].
  Qed.
  Lemma case_any_nouerr ev lv es : (forall e, nouerr (ev e)) -> nouerr (case_any pol ev lv es).
  Proof. intro H. induction es; simpl; nue_tac. Qed.
  Lemma case_go_nouerr ev blk e ws : (forall c e, nouerr (ev c e)) -> (forall c b, nouerr (blk c b)) ->
    forall c out m, nouerr (case_go pol ev blk e ws c out m).
  Proof.
    intros He Hb. induction ws as [|[es b] ws IH]; intros c out m; simpl; [apply nouerr_ok|].
    apply nouerr_bind; [apply He|]. intro lv.
    apply nouerr_bind; [apply case_any_nouerr; intro; apply He|]. intros [].
    - apply nouerr_bind; [apply Hb|]. intro r. apply IH.
    - apply IH.
  Qed.
  Lemma for_loop_nouerr blk x body its : (forall c b, nouerr (blk c b)) ->
    forall c out, nouerr (for_loop blk x body its c out).
  Proof.
    intro Hb. induction its as [|i its IH]; intros c out; simpl; [apply nouerr_ok|].
    apply nouerr_bind; [apply Hb|]. intro r. apply IH.
  Qed.
  Lemma exec_stmt_nouerr ev blk c s : (forall c e, nouerr (ev c e)) -> (forall c b, nouerr (blk c b)) ->
    nouerr (exec_stmt pol ev blk c s).
  Proof.
    intros He Hb. unfold exec_stmt. destruct s; nue_tac;
      try (apply opt_run_nouerr; exact Hb); try (apply case_go_nouerr; assumption);
      try (apply for_loop_nouerr; exact Hb); try (apply elif_go_nouerr; assumption).
  Qed.
End Blocks.

Lemma exec_ref pol f : forall c p, refines (exec pol f c p) (exec PDefault f c p).
Proof.
  induction f as [|f IH]; intros c p; simpl; [apply refines_oof|].
  destruct p as [|s rest]; [apply refines_refl|].
  apply refines_bind.
  - apply exec_stmt_ref; [apply eval_ref|apply run_block_ref, IH].
  - intro r1. apply refines_bind; [apply IH|]. intro; apply refines_refl.
Qed.

Lemma exec_nouerr pol f : quiet pol -> forall c p, nouerr (exec pol f c p).
Proof.
  intro Q. induction f as [|f IH]; intros c p; simpl; [apply nouerr_oof|].
  destruct p as [|s rest]; [apply nouerr_ok|].
  apply nouerr_bind.
  - apply exec_stmt_nouerr; [exact Q|apply eval_nouerr, Q|apply run_block_nouerr, IH].
  - intro r1. apply nouerr_bind; [apply IH|]. intro; apply nouerr_ok.
Qed.

(** C: the probe run and a run under any policy, from a context without undefineds *)
Section BlocksC.
  Variable pol : upolicy.
  Variables evP evQ : evalT.
  Variables blkP blkQ : blockT.
  Hypothesis He : forall c e, nu_ctx c = true -> agree nuP (evP c e) (evQ c e).
  Hypothesis Hb : forall c b, nu_ctx c = true -> agree PC (blkP c b) (blkQ c b).

  Lemma opt_run_agree c o : nu_ctx c = true -> agree PC (opt_run blkP c o) (opt_run blkQ c o).
  Proof. intro Hc. unfold opt_run. destruct o; [apply Hb, Hc|apply agree_ok; exact Hc]. Qed.

  Lemma elif_go_agree c alts e : nu_ctx c = true ->
    agree PC (elif_go PProbe evP blkP c alts e) (elif_go pol evQ blkQ c alts e).
  Proof.
    intro Hc. induction alts as [|[cnd b] rest IH]; simpl; [apply opt_run_agree, Hc|].
    eapply agree_bind; [apply He, Hc|]. intros v Hv.
    eapply agree_bind; [apply agr_agree, is_truthy_agr, Hv|]. intros [] _; [apply Hb, Hc|exact IH].
  Qed.

  Lemma case_any_agree c lv es : nu_ctx c = true -> nuP lv ->
    agree T (case_any PProbe (evP c) lv es) (case_any pol (evQ c) lv es).
  Proof.
    intros Hc Hl. induction es as [|e es IH]; simpl; [apply agree_ok; exact I|].
    eapply agree_bind; [apply He, Hc|]. intros rv Hrv.
    eapply agree_bind; [apply agr_agree, liq_eq_agr; assumption|]. intros [] _; [apply agree_ok; exact I|exact IH].
  Qed.

  Lemma case_go_agree e ws : forall c out m, nu_ctx c = true ->
    agree (fun r => nu_ctx (fst (fst r)) = true)
      (case_go PProbe evP blkP e ws c out m) (case_go pol evQ blkQ e ws c out m).
  Proof.
    induction ws as [|[es b] ws IH]; intros c out m Hc; simpl; [apply agree_ok; exact Hc|].
    eapply agree_bind; [apply He, Hc|]. intros lv Hlv.
    eapply agree_bind; [apply case_any_agree; assumption|]. intros [] _.
    - eapply agree_bind; [apply Hb, Hc|]. intros r Hr. apply IH, Hr.
    - apply IH, Hc.
  Qed.

  Lemma for_loop_agree x body its : nuL its -> forall c out, nu_ctx c = true ->
    agree PC (for_loop blkP x body its c out) (for_loop blkQ x body its c out).
  Proof.
    unfold nuL. induction its as [|i its IH]; intros Hi c out Hc; simpl in *; [apply agree_ok; exact Hc|].
    apply andb_true_iff in Hi as [H1 H2].
    eapply agree_bind; [apply Hb, nu_push; assumption|]. intros r Hr.
    apply IH; [exact H2|apply nu_pop, Hr].
  Qed.

  Lemma exec_stmt_agree c s : nu_ctx c = true ->
    agree PC (exec_stmt PProbe evP blkP c s) (exec_stmt pol evQ blkQ c s).
  Proof.
    intro Hc. unfold exec_stmt.
    assert (HT : forall v, nuP v -> agree T (is_truthy PProbe v) (is_truthy pol v))
      by (intros; apply agr_agree, is_truthy_agr; assumption).
    destruct s.
    - apply agree_ok; exact Hc.
    - eapply agree_bind; [apply He, Hc|]. intros v Hv.
      eapply agree_bind; [apply agr_agree, tls_agr, Hv|]. intros o _. apply agree_ok; exact Hc.
    - eapply agree_bind; [apply He, Hc|]. intros v Hv.
      eapply agree_bind; [apply agr_agree, tls_agr, Hv|]. intros o _. apply agree_ok; exact Hc.
    - eapply agree_bind; [apply He, Hc|]. intros v Hv. apply agree_ok. apply nu_set_local; assumption.
    - eapply agree_bind; [apply Hb, Hc|]. intros r Hr. apply agree_ok. apply nu_set_local; [exact Hr|reflexivity].
    - eapply agree_bind; [apply He, Hc|]. intros v Hv.
      eapply agree_bind; [apply HT, Hv|]. intros [] _; [apply Hb, Hc|apply elif_go_agree, Hc].
    - eapply agree_bind; [apply He, Hc|]. intros v Hv.
      eapply agree_bind; [apply HT, Hv|]. intros [] _; simpl; [apply elif_go_agree, Hc|apply Hb, Hc].
    - eapply agree_bind; [apply case_go_agree, Hc|]. intros [[c' out] m] Hr; simpl in *.
      destruct m; [apply agree_ok; exact Hr|].
      eapply agree_bind; [apply opt_run_agree, Hr|]. intros r2 Hr2. apply agree_ok; exact Hr2.
    - eapply agree_bind; [apply He, Hc|]. intros itv Hitv.
      eapply agree_bind; [apply agr_agree, to_iter_agr, Hitv|]. intros items Hitems.
      eapply agree_bind with (P := nuL).
      { destruct limit as [le|]; [|apply agree_ok; exact Hitems].
        eapply agree_bind; [apply He, Hc|]. intros lv Hlv.
        eapply agree_bind; [apply agr_agree, to_int_arg_agr, Hlv|]. intros n _.
        apply agree_ok. apply forallb_firstn, Hitems. }
      intros items' Hitems'. destruct items' as [|i0 items']; [apply opt_run_agree, Hc|].
      destruct (Nat.ltb _ _); [apply agr_agree, agr_lerr; discriminate|].
      apply for_loop_agree; assumption.
  Qed.
End BlocksC.

Lemma run_block_agree exP exQ :
  (forall c b, nu_ctx c = true -> agree PC (exP c b) (exQ c b)) ->
  forall c b, nu_ctx c = true -> agree PC (run_block exP c b) (run_block exQ c b).
Proof.
  intros H c b Hc. unfold run_block.
  eapply agree_bind; [apply H, Hc|]. intros r Hr. apply agree_ok. exact Hr.
Qed.

Lemma exec_agree pol f : forall c p, nu_ctx c = true -> agree PC (exec PProbe f c p) (exec pol f c p).
Proof.
  induction f as [|f IH]; intros c p Hc; simpl; [apply agr_agree, agr_oof|].
  destruct p as [|s rest]; [apply agree_ok; exact Hc|].
  eapply agree_bind.
  - apply exec_stmt_agree; [intros; apply eval_agree; assumption|apply run_block_agree, IH|exact Hc].
  - intros r1 Hr1. eapply agree_bind; [apply IH, Hr1|]. intros r2 Hr2. apply agree_ok; exact Hr2.
Qed.

(** * The property theorems *)

Definition nu_data (d : list (str * val)) : Prop := nu_ns d = true.

Lemma refines_render pol f p d : refines (render pol f p d) (render PDefault f p d).
Proof. unfold render. apply refines_bind; [apply exec_ref|]. intro; apply refines_refl. Qed.

(** Whenever a render succeeds under StrictUndefined, FalsyStrictUndefined
    (or the probe), the default policy succeeds with the same output. *)
Theorem strict_refines_default : forall pol fuel p d out,
  render pol fuel p d = Ok out -> render PDefault fuel p d = Ok out.
Proof. intros pol f p d out H. exact (refines_render pol f p d out H). Qed.

(** The default policy never raises UndefinedError. *)
Theorem default_never_undefined_error : forall fuel p d pos,
  render PDefault fuel p d <> LErr UndefinedError pos.
Proof.
  intros f p d. unfold render. apply nouerr_bind; [apply exec_nouerr, quiet_default|]. intro; apply nouerr_ok.
Qed.

Lemma render_agree pol f p d : nu_data d ->
  agree T (render PProbe f p d) (render pol f p d).
Proof.
  intro Hd. unfold render. eapply agree_bind.
  - apply exec_agree. unfold nu_ctx; simpl. exact Hd.
  - intros r _. apply agree_ok; exact I.
Qed.

(** If no lookup fails (the probe run does not abort at a failed lookup) every
    policy gives the outcome of the probe run, and that is not UndefinedError. *)
Theorem policies_agree_when_nothing_is_missing : forall pol fuel p d,
  nu_data d ->
  (forall pos, render PProbe fuel p d <> LErr LiquidNameError pos) ->
  render pol fuel p d = render PProbe fuel p d
  /\ forall pos, render pol fuel p d <> LErr UndefinedError pos.
Proof.
  intros pol f p d Hd Hn. destruct (render_agree pol f p d Hd) as [[q Hq]|[E _]].
  - exfalso. exact (Hn q Hq).
  - split; [exact E|]. rewrite E. unfold render.
    apply nouerr_bind; [apply exec_nouerr, quiet_probe|]. intro; apply nouerr_ok.
Qed.

(** A render under StrictUndefined / FalsyStrictUndefined raises UndefinedError
    only if the render performs a lookup that fails: the probe run aborts at
    its first failed lookup. *)
Theorem strict_raises_only_if_missing : forall pol fuel p d pos,
  nu_data d ->
  render pol fuel p d = LErr UndefinedError pos ->
  exists pos', render PProbe fuel p d = LErr LiquidNameError pos'.
Proof.
  intros pol f p d pos Hd H. destruct (render_agree pol f p d Hd) as [M|[E _]]; [exact M|].
  exfalso. rewrite E in H. revert H. unfold render.
  apply nouerr_bind; [apply exec_nouerr, quiet_probe|]. intro; apply nouerr_ok.
Qed.

(** * Non-vacuity: the hypotheses of the theorems are satisfiable by
    non-trivial runs *)

Definition n_m : str := [109]%N.        (* m *)
Definition n_a : str := [97]%N.         (* a *)
Definition t_d : str := [100]%N.        (* 'd' *)
Definition t_T : str := [84]%N.
Definition t_F : str := [70]%N.

(** {{ m | default: 'd' }}{{ a | plus: m }} with a = 3 and m missing: the strict
    render succeeds although a lookup failed, and prints what the default prints. *)
Definition ex_prog1 : list stmt :=
  [SOutput (EFilter (EPath n_m []) FDefault [ELit (LStr t_d)] []);
   SOutput (EFilter (EPath n_a []) FPlus [EPath n_m []] [])].
Example ex_strict_succeeds_with_missing :
  render PStrict 10 ex_prog1 [(n_a, VInt 3)] = Ok (t_d ++ [51]%N)
  /\ render PFalsy 10 ex_prog1 [(n_a, VInt 3)] = Ok (t_d ++ [51]%N)
  /\ render PDefault 10 ex_prog1 [(n_a, VInt 3)] = Ok (t_d ++ [51]%N)
  /\ render PProbe 10 ex_prog1 [(n_a, VInt 3)] = LErr LiquidNameError None.
Proof. vm_compute. repeat split. Qed.

(** {% if m %}T{% else %}F{% endif %}{{ a }}: strict raises, falsy-strict and the
    default print "F3"; the probe sees the failed lookup. *)
Definition ex_prog2 : list stmt :=
  [SIf (EPath n_m []) [SText t_T] [] (Some [SText t_F]); SOutput (EPath n_a [])].
Example ex_strict_raises_falsy_succeeds :
  render PStrict 10 ex_prog2 [(n_a, VInt 3)] = LErr UndefinedError None
  /\ render PFalsy 10 ex_prog2 [(n_a, VInt 3)] = Ok (t_F ++ [51]%N)
  /\ render PDefault 10 ex_prog2 [(n_a, VInt 3)] = Ok (t_F ++ [51]%N)
  /\ render PProbe 10 ex_prog2 [(n_a, VInt 3)] = LErr LiquidNameError None.
Proof. vm_compute. repeat split. Qed.

(** With m defined nothing is missing: one outcome under every policy. *)
Example ex_nothing_missing :
  nu_data [(n_a, VInt 3); (n_m, VList [VInt 1; VNil])]
  /\ render PProbe 10 (ex_prog1 ++ ex_prog2) [(n_a, VInt 3); (n_m, VList [VInt 1; VNil])]
     = Ok ([49]%N ++ [51]%N ++ t_T ++ [51]%N).
Proof. vm_compute. split; reflexivity. Qed.

(** * Deleting (or changing) data the program never mentions is invisible *)

Definition sim (L : list str) (c1 c2 : ctx) : Prop :=
  scopes c1 = scopes c2 /\ locals c1 = locals c2 /\
  forall r, In r L -> assoc r (globals c1) = assoc r (globals c2).
Definition simP (L : list str) (a b : ctx * str) : Prop := sim L (fst a) (fst b) /\ snd a = snd b.

Definition rel_res {A B} (R : A -> B -> Prop) (r1 : res A) (r2 : res B) : Prop :=
  match r1, r2 with
  | Ok a, Ok b => R a b
  | LErr c p, LErr c' p' => c = c' /\ p = p'
  | PyExc k, PyExc k' => k = k'
  | OutOfFuel, OutOfFuel => True
  | _, _ => False
  end.

Lemma rel_res_bind {A B A' B'} (R : A -> B -> Prop) (S : A' -> B' -> Prop) r1 r2 k1 k2 :
  rel_res R r1 r2 -> (forall a b, R a b -> rel_res S (k1 a) (k2 b)) ->
  rel_res S (bind r1 k1) (bind r2 k2).
Proof.
  intros H1 H2. destruct r1, r2; simpl in *; try contradiction; auto.
Qed.
Lemma rel_res_same {A B C} (S : B -> C -> Prop) (r : res A) (k1 : A -> res B) (k2 : A -> res C) :
  (forall a, rel_res S (k1 a) (k2 a)) -> rel_res S (bind r k1) (bind r k2).
Proof. intro H. destruct r; simpl; auto. Qed.

Lemma mapM_ext_in {A B} (f g : A -> res B) l : (forall x, In x l -> f x = g x) -> mapM f l = mapM g l.
Proof.
  induction l as [|x l IH]; simpl; intro H; [reflexivity|].
  rewrite (H x) by (left; reflexivity). rewrite IH by (intros y Hy; apply H; right; exact Hy). reflexivity.
Qed.
Lemma incl_flat_map_in {A} (f : A -> list str) l x L : incl (flat_map f l) L -> In x l -> incl (f x) L.
Proof.
  intros H Hx r Hr. apply H. apply in_flat_map. exists x. split; assumption.
Qed.
Lemma incl_app_l {A} (a b L : list A) : incl (a ++ b) L -> incl a L.
Proof. intros H x Hx. apply H, in_or_app; left; exact Hx. Qed.
Lemma incl_app_r {A} (a b L : list A) : incl (a ++ b) L -> incl b L.
Proof. intros H x Hx. apply H, in_or_app; right; exact Hx. Qed.

Lemma ctx_get_sim pol L c1 c2 root keys : sim L c1 c2 -> In root L ->
  ctx_get pol c1 root keys = ctx_get pol c2 root keys.
Proof.
  intros [Hs [Hl Hg]] Hr. unfold ctx_get. rewrite Hs, Hl, (Hg root Hr). reflexivity.
Qed.

Lemma eval_step_sim pol ev L c1 c2 e :
  (forall e', incl (roots_e e') L -> ev c1 e' = ev c2 e') ->
  incl (roots_e e) L -> sim L c1 c2 ->
  eval_step pol ev c1 e = eval_step pol ev c2 e.
Proof.
  intros H Hi Hc. unfold eval_step. destruct e; simpl in Hi.
  - reflexivity.
  - assert (In root L) by (apply Hi; left; reflexivity).
    assert (Hs : incl (flat_map roots_s segs) L) by (intros x Hx; apply Hi; right; exact Hx).
    rewrite (mapM_ext_in _ (fun s => match s with SName n => Ok (VStr n) | SIdx z => Ok (VInt z) | SExpr e' => ev c2 e' end)).
    + destruct (mapM _ segs); try reflexivity. apply (ctx_get_sim pol L); assumption.
    + intros s Hsin. destruct s; try reflexivity. apply H. exact (incl_flat_map_in roots_s segs (SExpr e) L Hs Hsin).
  - rewrite (mapM_ext_in (ev c1) (ev c2)); [reflexivity|]. intros x Hx. apply H. eapply incl_flat_map_in; eassumption.
  - rewrite (H e) by (eapply incl_app_l; exact Hi).
    apply incl_app_r in Hi.
    rewrite (mapM_ext_in (ev c1) (ev c2)) by (intros x Hx; apply H; eapply incl_flat_map_in; [eapply incl_app_l; exact Hi|exact Hx]).
    rewrite (mapM_ext_in (fun p => do v <- ev c1 (snd p);; Ok (fst p, v)) (fun p => do v <- ev c2 (snd p);; Ok (fst p, v))).
    + reflexivity.
    + intros x Hx. rewrite (H (snd x)); [reflexivity|].
      apply incl_app_r in Hi. exact (incl_flat_map_in (fun p => roots_e (snd p)) kw x L Hi Hx).
  - rewrite (H e2) by (eapply incl_app_l; eapply incl_app_r; exact Hi).
    rewrite (H e1) by (eapply incl_app_l; exact Hi).
    destruct alt; [|reflexivity]. rewrite (H e) by (eapply incl_app_r; eapply incl_app_r; exact Hi). reflexivity.
  - rewrite (H e) by exact Hi. reflexivity.
  - rewrite (H e1) by (eapply incl_app_l; exact Hi). rewrite (H e2) by (eapply incl_app_r; exact Hi). reflexivity.
  - rewrite (H e1) by (eapply incl_app_l; exact Hi). rewrite (H e2) by (eapply incl_app_r; exact Hi). reflexivity.
  - rewrite (H e1) by (eapply incl_app_l; exact Hi). rewrite (H e2) by (eapply incl_app_r; exact Hi). reflexivity.
Qed.

Lemma eval_sim pol L f : forall c1 c2 e, sim L c1 c2 -> incl (roots_e e) L ->
  eval pol f c1 e = eval pol f c2 e.
Proof.
  induction f as [|f IH]; intros c1 c2 e Hc Hi; simpl; [reflexivity|].
  apply (eval_step_sim pol _ L); try assumption. intros e' He'. apply IH; assumption.
Qed.

Lemma rb_eq b :
  (fix rb (b : list stmt) : list str := match b with [] => [] | x :: t => roots_st x ++ rb t end) b = roots_b b.
Proof. induction b as [|x b IH]; simpl; [reflexivity|]. rewrite IH. reflexivity. Qed.

Lemma sim_set_local L c1 c2 x v : sim L c1 c2 -> sim L (set_local c1 x v) (set_local c2 x v).
Proof. intros [a [b c]]. unfold sim, set_local; simpl. rewrite b. auto. Qed.
Lemma sim_push L c1 c2 ns : sim L c1 c2 -> sim L (push_scope c1 ns) (push_scope c2 ns).
Proof. intros [a [b c]]. unfold sim, push_scope; simpl. rewrite a. auto. Qed.
Lemma sim_pop L c1 c2 : sim L c1 c2 -> sim L (pop_scope c1) (pop_scope c2).
Proof. intros [a [b c]]. unfold sim, pop_scope; simpl. rewrite a. auto. Qed.

Section SimBlocks.
  Variable pol : upolicy.
  Variable L : list str.
  Variable ev : evalT.
  Variable blk : blockT.
  Hypothesis Hev : forall c1 c2 e, sim L c1 c2 -> incl (roots_e e) L -> ev c1 e = ev c2 e.
  Hypothesis Hblk : forall c1 c2 b, sim L c1 c2 -> incl (roots_b b) L ->
    rel_res (simP L) (blk c1 b) (blk c2 b).

  Lemma rel_ok c1 c2 o : sim L c1 c2 -> rel_res (simP L) (Ok (c1, o)) (Ok (c2, o)).
  Proof. intro H. simpl. split; [exact H|reflexivity]. Qed.

  Lemma opt_run_sim c1 c2 o : sim L c1 c2 ->
    incl (match o with Some b => roots_b b | None => [] end) L ->
    rel_res (simP L) (opt_run blk c1 o) (opt_run blk c2 o).
  Proof. intros Hc Hi. unfold opt_run. destruct o; [apply Hblk; assumption|apply rel_ok, Hc]. Qed.

  Lemma elif_go_sim alts e : 
    incl ((fix ra (a : list (expr * list stmt)) : list str :=
             match a with [] => [] | (e, b) :: r => roots_e e ++ roots_b b ++ ra r end) alts) L ->
    incl (match e with Some b => roots_b b | None => [] end) L ->
    forall c1 c2, sim L c1 c2 ->
    rel_res (simP L) (elif_go pol ev blk c1 alts e) (elif_go pol ev blk c2 alts e).
  Proof.
    intros Hi He c1 c2 Hc. induction alts as [|[cnd b] rest IH]; simpl; [apply opt_run_sim; assumption|].
    rewrite (Hev c1 c2 cnd Hc) by (eapply incl_app_l; exact Hi). apply incl_app_r in Hi.
    apply rel_res_same. intro v. apply rel_res_same. intros [].
    - apply Hblk; [exact Hc|eapply incl_app_l; exact Hi].
    - apply IH. eapply incl_app_r; exact Hi.
  Qed.

  Lemma case_any_sim c1 c2 lv es : sim L c1 c2 -> incl (flat_map roots_e es) L ->
    case_any pol (ev c1) lv es = case_any pol (ev c2) lv es.
  Proof.
    intros Hc. induction es as [|e es IH]; simpl; intro Hi; [reflexivity|].
    rewrite (Hev c1 c2 e Hc) by (eapply incl_app_l; exact Hi).
    rewrite IH by (eapply incl_app_r; exact Hi). reflexivity.
  Qed.

  Definition simP3 (a b : ctx * str * bool) : Prop :=
    sim L (fst (fst a)) (fst (fst b)) /\ snd (fst a) = snd (fst b) /\ snd a = snd b.

  Lemma case_go_sim e ws : incl (roots_e e) L ->
    incl ((fix rw (w : list (list expr * list stmt)) : list str :=
             match w with [] => [] | (es, b) :: t => flat_map roots_e es ++ roots_b b ++ rw t end) ws) L ->
    forall c1 c2 out m, sim L c1 c2 ->
    rel_res simP3 (case_go pol ev blk e ws c1 out m) (case_go pol ev blk e ws c2 out m).
  Proof.
    intros He. induction ws as [|[es b] ws IH]; intros Hi c1 c2 out m Hc; simpl.
    - simpl. unfold simP3; simpl. split; [exact Hc|split; reflexivity].
    - rewrite (Hev c1 c2 e Hc He). apply rel_res_same. intro lv.
      rewrite (case_any_sim c1 c2 lv es Hc) by (eapply incl_app_l; exact Hi).
      apply rel_res_same. intros [].
      + eapply rel_res_bind; [apply Hblk; [exact Hc|eapply incl_app_l; eapply incl_app_r; exact Hi]|].
        intros a b0 [Ha Hb]. rewrite Hb. apply IH; [eapply incl_app_r; eapply incl_app_r; exact Hi|exact Ha].
      + apply IH; [eapply incl_app_r; eapply incl_app_r; exact Hi|exact Hc].
  Qed.

  Lemma for_loop_sim x body its : incl (roots_b body) L -> forall c1 c2 out, sim L c1 c2 ->
    rel_res (simP L) (for_loop blk x body its c1 out) (for_loop blk x body its c2 out).
  Proof.
    intro Hi. induction its as [|i its IH]; intros c1 c2 out Hc; simpl; [apply rel_ok, Hc|].
    eapply rel_res_bind; [apply Hblk; [apply sim_push, Hc|exact Hi]|].
    intros a b [Ha Hb]. rewrite Hb. apply IH, sim_pop, Ha.
  Qed.

  Lemma exec_stmt_sim c1 c2 s : sim L c1 c2 -> incl (roots_st s) L ->
    rel_res (simP L) (exec_stmt pol ev blk c1 s) (exec_stmt pol ev blk c2 s).
  Proof.
    intros Hc Hi. unfold exec_stmt. destruct s; simpl in Hi; rewrite ?rb_eq in Hi.
    - apply rel_ok, Hc.
    - rewrite (Hev c1 c2 e Hc Hi). apply rel_res_same. intro v. apply rel_res_same. intro o. apply rel_ok, Hc.
    - rewrite (Hev c1 c2 e Hc Hi). apply rel_res_same. intro v. apply rel_res_same. intro o. apply rel_ok, Hc.
    - rewrite (Hev c1 c2 e Hc Hi). apply rel_res_same. intro v. apply rel_ok, sim_set_local, Hc.
    - eapply rel_res_bind; [apply Hblk; assumption|]. intros a b [Ha Hb]. rewrite Hb. apply rel_ok, sim_set_local, Ha.
    - rewrite (Hev c1 c2 c Hc) by (eapply incl_app_l; exact Hi). apply incl_app_r in Hi.
      assert (Ha : incl ((fix ra (a : list (expr * list stmt)) : list str :=
             match a with [] => [] | (e, b) :: r => roots_e e ++ roots_b b ++ ra r end) elifs) L).
      { apply incl_app_r, incl_app_l in Hi. clear - Hi.
        induction elifs as [|[e b] r IH]; simpl in *; [exact Hi|]. rewrite rb_eq in Hi.
        intros x Hx. apply in_app_or in Hx as [Hx|Hx]; [apply Hi, in_or_app; left; exact Hx|].
        apply in_app_or in Hx as [Hx|Hx]; [apply Hi, in_or_app; right; apply in_or_app; left; exact Hx|].
        apply IH; [|exact Hx]. intros y Hy. apply Hi, in_or_app; right. apply in_or_app; right; exact Hy. }
      assert (Hf : incl (match f with Some b => roots_b b | None => [] end) L).
      { apply incl_app_r, incl_app_r in Hi. destruct f; simpl; rewrite ?rb_eq in Hi; exact Hi. }
      apply rel_res_same. intro v. apply rel_res_same. intros [].
      + apply Hblk; [exact Hc|eapply incl_app_l; exact Hi].
      + apply elif_go_sim; assumption.
    - rewrite (Hev c1 c2 c Hc) by (eapply incl_app_l; exact Hi). apply incl_app_r in Hi.
      assert (Ha : incl ((fix ra (a : list (expr * list stmt)) : list str :=
             match a with [] => [] | (e, b) :: r => roots_e e ++ roots_b b ++ ra r end) elifs) L).
      { apply incl_app_r, incl_app_l in Hi. clear - Hi.
        induction elifs as [|[e b] r IH]; simpl in *; [exact Hi|]. rewrite rb_eq in Hi.
        intros x Hx. apply in_app_or in Hx as [Hx|Hx]; [apply Hi, in_or_app; left; exact Hx|].
        apply in_app_or in Hx as [Hx|Hx]; [apply Hi, in_or_app; right; apply in_or_app; left; exact Hx|].
        apply IH; [|exact Hx]. intros y Hy. apply Hi, in_or_app; right. apply in_or_app; right; exact Hy. }
      assert (Hf : incl (match f with Some b => roots_b b | None => [] end) L).
      { apply incl_app_r, incl_app_r in Hi. destruct f; simpl; rewrite ?rb_eq in Hi; exact Hi. }
      apply rel_res_same. intro v. apply rel_res_same. intros []; simpl.
      + apply elif_go_sim; assumption.
      + apply Hblk; [exact Hc|eapply incl_app_l; exact Hi].
    - eapply rel_res_bind.
      + apply case_go_sim; [eapply incl_app_l; exact Hi| |exact Hc].
        apply incl_app_r, incl_app_l in Hi.
        clear - Hi. induction whens as [|[es b] ws IH]; simpl in *; [exact Hi|].
        rewrite rb_eq in Hi. intros x Hx. apply in_app_or in Hx as [Hx|Hx]; [apply Hi, in_or_app; left; exact Hx|].
        apply in_app_or in Hx as [Hx|Hx]; [apply Hi, in_or_app; right; apply in_or_app; left; exact Hx|].
        apply IH; [|exact Hx]. intros y Hy. apply Hi, in_or_app; right. apply in_or_app; right; exact Hy.
      + intros [[ca oa] ma] [[cb ob] mb] [Ha [Hb Hm]]; simpl in *. subst.
        destruct mb; [apply rel_ok, Ha|].
        eapply rel_res_bind; [apply opt_run_sim; [exact Ha|]|].
        * apply incl_app_r, incl_app_r in Hi. destruct dflt; simpl; rewrite ?rb_eq in Hi; exact Hi.
        * intros a b [Ha' Hb']. rewrite Hb'. apply rel_ok, Ha'.
    - rewrite (Hev c1 c2 it Hc) by (eapply incl_app_l; exact Hi). apply incl_app_r in Hi.
      apply rel_res_same. intro itv. apply rel_res_same. intro items.
      assert (Hlim : match limit with
                     | Some le => do lv <- ev c1 le;; do n <- to_int_arg pol lv;;
                                  Ok (firstn (Z.to_nat n) items)
                     | None => Ok items end
                   = match limit with
                     | Some le => do lv <- ev c2 le;; do n <- to_int_arg pol lv;;
                                  Ok (firstn (Z.to_nat n) items)
                     | None => Ok items end).
      { destruct limit as [le|]; [|reflexivity]. rewrite (Hev c1 c2 le Hc); [reflexivity|]. eapply incl_app_l; exact Hi. }
      rewrite Hlim. apply incl_app_r in Hi. apply rel_res_same. intros [|i0 items'].
      + apply opt_run_sim; [exact Hc|]. apply incl_app_r in Hi. destruct dflt; simpl; rewrite ?rb_eq in Hi; exact Hi.
      + destruct Hc as [Hs Hrest]. rewrite <- Hs. destruct (Nat.ltb _ _); [simpl; auto|].
        apply for_loop_sim; [eapply incl_app_l; exact Hi|split; assumption].
  Qed.
End SimBlocks.

Lemma run_block_sim L ex :
  (forall c1 c2 b, sim L c1 c2 -> incl (roots_b b) L -> rel_res (simP L) (ex c1 b) (ex c2 b)) ->
  forall c1 c2 b, sim L c1 c2 -> incl (roots_b b) L ->
  rel_res (simP L) (run_block ex c1 b) (run_block ex c2 b).
Proof.
  intros H c1 c2 b Hc Hi. unfold run_block. eapply rel_res_bind; [apply H; assumption|].
  intros a b0 [Ha Hb]. simpl. rewrite Hb. split; [exact Ha|reflexivity].
Qed.

Lemma exec_sim pol L f : forall c1 c2 p, sim L c1 c2 -> incl (roots_b p) L ->
  rel_res (simP L) (exec pol f c1 p) (exec pol f c2 p).
Proof.
  induction f as [|f IH]; intros c1 c2 p Hc Hi; simpl; [exact I|].
  destruct p as [|s rest]; [split; [exact Hc|reflexivity]|].
  unfold roots_b in Hi; simpl in Hi.
  eapply rel_res_bind with (R := simP L).
  - apply (exec_stmt_sim pol L); [intros; apply (eval_sim pol L); assumption|apply run_block_sim, IH|exact Hc|eapply incl_app_l; exact Hi].
  - intros a b [Ha Hb]. eapply rel_res_bind; [apply IH; [exact Ha|eapply incl_app_r; exact Hi]|].
    intros a' b' [Ha' Hb']. simpl. rewrite Hb, Hb'. split; [exact Ha'|reflexivity].
Qed.

(** The render depends on the caller's data only through the root names the
    program mentions: two data sets that agree on them give the same outcome
    under every policy. *)
Theorem render_depends_only_on_mentioned_roots : forall pol fuel p d1 d2,
  (forall r, In r (roots_b p) -> assoc r d1 = assoc r d2) ->
  render pol fuel p d1 = render pol fuel p d2.
Proof.
  intros pol f p d1 d2 H. unfold render.
  pose proof (exec_sim pol (roots_b p) f {| scopes := []; locals := []; globals := d1 |}
                {| scopes := []; locals := []; globals := d2 |} p) as E.
  assert (Hs : sim (roots_b p) {| scopes := []; locals := []; globals := d1 |}
                 {| scopes := []; locals := []; globals := d2 |}) by (repeat split; exact H).
  specialize (E Hs (incl_refl _)).
  destruct (exec pol f _ p) as [a|c q|k|], (exec pol f _ p) as [b|c' q'|k'|]; simpl in *; try contradiction.
  - destruct E as [_ E]. rewrite E. reflexivity.
  - destruct E; subst; reflexivity.
  - subst; reflexivity.
  - reflexivity.
Qed.

Lemma assoc_remove_key_neq {V} k x (l : list (str * V)) : k <> x -> assoc k (remove_key x l) = assoc k l.
Proof.
  intro Hn. induction l as [|[k' v] l IH]; simpl; [reflexivity|].
  destruct (str_eqb x k') eqn:E1.
  - apply str_eqb_eq in E1. subst k'. rewrite IH.
    destruct (str_eqb k x) eqn:E2; [apply str_eqb_eq in E2; contradiction|reflexivity].
  - simpl. rewrite IH. reflexivity.
Qed.

(** Deleting a variable the program never mentions changes nothing. *)
Theorem deleting_unused_data_is_invisible : forall pol fuel p d x,
  ~ In x (roots_b p) ->
  render pol fuel p (remove_key x d) = render pol fuel p d.
Proof.
  intros pol f p d x Hx. apply render_depends_only_on_mentioned_roots.
  intros r Hr. apply assoc_remove_key_neq. intro E; subst. exact (Hx Hr).
Qed.

(** Laziness: a missing variable that is never reached is not looked up — the
    probe does not abort and the strict render succeeds.  With a = 3, m missing:
    {% case a %}{% when 3, m %}T{% when m %}F{% endcase %}{% if a or m %}T{% elsif m %}F{% endif %}
    {{ a if a else m }}{% for i in a, a %}{{ i }}{% else %}{{ m }}{% endfor %} *)
Definition ex_prog_lazy : list stmt :=
  [SCase (EPath n_a []) [([ELit (LInt 3); EPath n_m []], [SText t_T])] (Some [SOutput (EPath n_m [])]);
   SIf (EOr (EPath n_a []) (EPath n_m [])) [SText t_T] [(EPath n_m [], [SText t_F])] (Some [SOutput (EPath n_m [])]);
   SOutput (ETernary (EPath n_a []) (EPath n_a []) (Some (EPath n_m [])));
   SFor t_d (EArray [EPath n_a []; EPath n_a []]) None [SOutput (EPath t_d [])] (Some [SOutput (EPath n_m [])])].
Example ex_unreached_missing_is_not_looked_up :
  render PProbe 10 ex_prog_lazy [(n_a, VInt 3)] = Ok (t_T ++ t_T ++ [51; 51; 51]%N)
  /\ render PStrict 10 ex_prog_lazy [(n_a, VInt 3)] = Ok (t_T ++ t_T ++ [51; 51; 51]%N).
Proof. vm_compute. split; reflexivity. Qed.
