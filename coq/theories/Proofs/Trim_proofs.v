(** Proofs/Trim_proofs.v — proofs for Kernels/Trim.v (property C18). *)
From LQ Require Import Base.Str Kernels.Trim.
Local Open Scope list_scope.

(** * Strings *)

Lemma erase_ws_app a b : erase_ws (a ++ b) = erase_ws a ++ erase_ws b.
Proof. unfold erase_ws. apply filter_app. Qed.

Lemma all_ws_app a b : all_ws (a ++ b) = all_ws a && all_ws b.
Proof. unfold all_ws. apply forallb_app. Qed.

Lemma all_ws_erase s : all_ws s = true -> erase_ws s = [].
Proof.
  induction s as [|c s IH]; simpl; intro H; [reflexivity|].
  apply andb_true_iff in H as [Hc Hs]. rewrite Hc; simpl. auto.
Qed.

Lemma erase_nil_all_ws s : erase_ws s = [] -> all_ws s = true.
Proof.
  induction s as [|c s IH]; simpl; intro H; [reflexivity|].
  destruct (is_ws c); simpl in *; [auto|discriminate].
Qed.

Lemma is_crlf_ws c : is_crlf c = true -> is_ws c = true.
Proof.
  unfold is_crlf, is_ws. intro H. apply orb_true_iff in H as [H|H];
    apply N.eqb_eq in H; subst; reflexivity.
Qed.

Lemma forallb_impl {A} (p q : A -> bool) l :
  (forall x, p x = true -> q x = true) -> forallb p l = true -> forallb q l = true.
Proof.
  intros Hpq. induction l as [|x l IH]; simpl; [auto|].
  intro H. apply andb_true_iff in H as [H1 H2]. rewrite (Hpq _ H1), (IH H2). reflexivity.
Qed.

Lemma lstrip_split p s : exists a, s = a ++ lstrip p s /\ forallb p a = true.
Proof.
  induction s as [|c s [a [E F]]]; simpl.
  - exists []. auto.
  - destruct (p c) eqn:Hc.
    + exists (c :: a). simpl. rewrite Hc, F. split; [f_equal; exact E|reflexivity].
    + exists []. auto.
Qed.

Lemma forallb_rev {A} (p : A -> bool) l : forallb p (rev l) = forallb p l.
Proof.
  induction l as [|x l IH]; simpl; [reflexivity|].
  rewrite forallb_app, IH. simpl. rewrite andb_true_r. apply andb_comm.
Qed.

Lemma rstrip_split p s : exists b, s = rstrip p s ++ b /\ forallb p b = true.
Proof.
  unfold rstrip. destruct (lstrip_split p (rev s)) as [a [E F]].
  exists (rev a). split.
  - rewrite <- rev_app_distr, <- E. symmetry. apply rev_involutive.
  - rewrite forallb_rev. exact F.
Qed.

(** * Environment.trim *)

(** What trim does, as two independent one-sided strips.  The [left == right]
    fast path of the code computes the same thing. *)
Definition side_pred (w : wc) : option (char -> bool) :=
  match w with Minus => Some is_ws | Tilde => Some is_crlf | _ => None end.

Definition ostrip_l (o : option (char -> bool)) (s : str) : str :=
  match o with Some p => lstrip p s | None => s end.
Definition ostrip_r (o : option (char -> bool)) (s : str) : str :=
  match o with Some p => rstrip p s | None => s end.

Lemma trim_two_sides dt t l r :
  trim dt t l r =
  ostrip_r (side_pred (resolve dt r)) (ostrip_l (side_pred (resolve dt l)) t).
Proof.
  unfold trim, strip. destruct (resolve dt l), (resolve dt r); reflexivity.
Qed.

Lemma side_pred_ws w p c : side_pred w = Some p -> p c = true -> is_ws c = true.
Proof.
  destruct w; simpl; intro E; inversion E; subst; auto using is_crlf_ws.
Qed.

Lemma ostrip_l_split w s :
  exists a, s = a ++ ostrip_l (side_pred w) s /\ all_ws a = true.
Proof.
  destruct (side_pred w) as [p|] eqn:E; simpl.
  - destruct (lstrip_split p s) as [a [E1 F]]. exists a. split; [exact E1|].
    eapply forallb_impl; [|exact F]. intros c. apply (side_pred_ws w p c E).
  - exists []. auto.
Qed.

Lemma ostrip_r_split w s :
  exists b, s = ostrip_r (side_pred w) s ++ b /\ all_ws b = true.
Proof.
  destruct (side_pred w) as [p|] eqn:E; simpl.
  - destruct (rstrip_split p s) as [b [E1 F]]. exists b. split; [exact E1|].
    eapply forallb_impl; [|exact F]. intros c. apply (side_pred_ws w p c E).
  - exists []. rewrite app_nil_r. auto.
Qed.

Lemma trim_split dt t l r :
  exists a b, t = a ++ trim dt t l r ++ b /\ all_ws a = true /\ all_ws b = true.
Proof.
  rewrite trim_two_sides.
  destruct (ostrip_l_split (resolve dt l) t) as [a [Ea Fa]].
  destruct (ostrip_r_split (resolve dt r) (ostrip_l (side_pred (resolve dt l)) t)) as [b [Eb Fb]].
  exists a, b. split; [|auto]. rewrite <- Eb. exact Ea.
Qed.

Lemma trim_erase dt t l r : erase_ws (trim dt t l r) = erase_ws t.
Proof.
  destruct (trim_split dt t l r) as [a [b [E [Fa Fb]]]].
  rewrite E at 2. rewrite !erase_ws_app, (all_ws_erase a Fa), (all_ws_erase b Fb).
  simpl. rewrite app_nil_r. reflexivity.
Qed.

Theorem trim_only_removes_ws_proof : forall dt t l r,
  erase_ws (trim dt t l r) = erase_ws t
  /\ exists a b, t = a ++ trim dt t l r ++ b /\ all_ws a = true /\ all_ws b = true.
Proof. intros. split; [apply trim_erase|apply trim_split]. Qed.

Lemma trim_all_ws dt t l r : all_ws t = true -> all_ws (trim dt t l r) = true.
Proof.
  intro H. destruct (trim_split dt t l r) as [a [b [E _]]].
  rewrite E, !all_ws_app in H.
  apply andb_true_iff in H as [_ H]. apply andb_true_iff in H as [H _]. exact H.
Qed.

(** With no trimming in force, trim is the identity. *)
Lemma trim_plain dt t l r :
  plain_wc dt = true -> plain_wc l = true -> plain_wc r = true -> trim dt t l r = t.
Proof. destruct dt, l, r; simpl; try discriminate; reflexivity. Qed.

(** * Induction principles for the mutual types *)

Scheme tree_mind := Induction for tree Sort Prop
  with tsecs_mind := Induction for tsecs Sort Prop.
Combined Scheme tree_tsecs_ind from tree_mind, tsecs_mind.

Scheme ast_mind := Induction for ast Sort Prop
  with asecs_mind := Induction for asecs Sort Prop.
Combined Scheme ast_asecs_ind from ast_mind, asecs_mind.

(** * Pairs (text written, variables) *)

Arguments andthen : simpl never.
Arguments captured : simpl never.
Arguments block_node : simpl never.
Arguments trim : simpl never.

Lemma fst_andthen x f : fst (andthen x f) = fst x ++ fst (f (snd x)).
Proof. unfold andthen. destruct x as [o1 s1]; simpl. destruct (f s1); reflexivity. Qed.

Lemma snd_andthen x f : snd (andthen x f) = snd (f (snd x)).
Proof. unfold andthen. destruct x as [o1 s1]; simpl. destruct (f s1); reflexivity. Qed.

Lemma fst_captured v x : fst (captured v x) = [].
Proof. destruct x; reflexivity. Qed.

Lemma snd_captured v x : snd (captured v x) = upd (snd x) v (fst x).
Proof. destruct x; reflexivity. Qed.

Lemma fst_block_node_ws cf b f st :
  (forall st, all_ws (fst (f st)) = true) -> all_ws (fst (block_node cf b f st)) = true.
Proof. intro H. unfold block_node. destruct (suppress cf && b); simpl; auto. Qed.

Lemma iter_ws n f :
  (forall st, all_ws (fst (f st)) = true) -> forall st, all_ws (fst (iter n f st)) = true.
Proof.
  intro H. induction n as [|n IH]; intro st; simpl; [reflexivity|].
  rewrite fst_andthen, all_ws_app, H, IH. reflexivity.
Qed.

(** * A blank block writes only whitespace (what suppression relies on) *)

Lemma content_blank_all_ws txt : content_blank txt = true -> all_ws txt = true.
Proof. destruct txt; simpl; auto. Qed.

Lemma blank_writes_ws cf d :
  (forall a, blank_nodes a = true ->
     forall st, all_ws (fst (render_nodes cf d a st)) = true)
  /\ (forall s, blank_secs s = true ->
     (forall st, all_ws (fst (render_first cf d s st)) = true)
     /\ (forall kv m st, all_ws (fst (render_case cf d kv m s st)) = true)).
Proof.
  apply ast_asecs_ind.
  - reflexivity.
  - intros txt l r rest IH H st. simpl in H. apply andb_true_iff in H as [H1 H2].
    simpl. rewrite fst_andthen, all_ws_app. simpl.
    rewrite (trim_all_ws _ _ _ _ (content_blank_all_ws _ H1)), (IH H2). reflexivity.
  - intros w rest IH H st. simpl in H. destruct w; [discriminate|].
    simpl. rewrite fst_andthen. simpl. apply IH, H.
  - intros txt rest IH H st. simpl in H. destruct txt; [|discriminate].
    simpl. rewrite fst_andthen. simpl. apply IH, H.
  - intros k body IHb secs IHs rest IHr H st. simpl in H.
    apply andb_true_iff in H as [Hk Hr].
    simpl. rewrite fst_andthen, all_ws_app, (IHr Hr), andb_true_r.
    destruct k; try (apply andb_true_iff in Hk as [Hb Hs]; specialize (IHb Hb);
                     destruct (IHs Hs) as [Hf Hc]).
    + destruct (d_cond d c); [apply fst_block_node_ws, IHb|apply Hf].
    + destruct (negb (d_cond d c)); [apply fst_block_node_ws, IHb|apply Hf].
    + destruct (d_count d n) as [|m]; [apply Hf|].
      apply (iter_ws (S m)). intro st'. apply fst_block_node_ws, IHb.
    + apply Hc.
    + rewrite fst_captured. reflexivity.
    + apply fst_block_node_ws, IHb.
  - intros _. split; reflexivity.
  - intros g body IHb rest IHr H. simpl in H. apply andb_true_iff in H as [Hb Hr].
    specialize (IHb Hb). destruct (IHr Hr) as [Hf Hc]. split.
    + intro st. simpl. destruct (guard_holds d g); [apply fst_block_node_ws, IHb|apply Hf].
    + intros kv m st. simpl. destruct (fires kv m g); [|apply Hc].
      rewrite fst_andthen, all_ws_app, Hc, andb_true_r. apply fst_block_node_ws, IHb.
Qed.

Theorem suppression_only_ws_proof : forall cf d a st,
  blank_nodes a = true -> all_ws (fst (render_nodes cf d a st)) = true.
Proof. intros cf d a st H. apply (proj1 (blank_writes_ws cf d)), H. Qed.

(** * Unfolding the parser *)

Lemma parse_secs_carry dt s el er :
  snd (parse_secs dt (snd (next_tag s el er)) s el er) = er.
Proof.
  induction s as [|g l r body rest IH]; [reflexivity|].
  simpl. destruct (next_tag rest el er) as [nl nr]. simpl in IH.
  destruct (parse_secs dt nr rest el er) as [ss c]. simpl in *. exact IH.
Qed.

Lemma parse_items_content dt left carry after txt rest :
  fst (parse_items dt left carry after (TContent txt rest)) =
  AContent txt left (peeked (first_left rest after)) (fst (parse_items dt dt carry after rest)).
Proof. simpl. destruct (parse_items dt dt carry after rest). reflexivity. Qed.

Lemma parse_items_leaf dt left carry after vt l r w rest :
  fst (parse_items dt left carry after (TLeaf vt l r w rest)) =
  ALeaf w (fst (parse_items dt r (if vt then r else carry) after rest)).
Proof. simpl. destruct vt; destruct (parse_items _ _ _ _ rest); reflexivity. Qed.

Lemma parse_items_raw dt left carry after w0 w1 w2 w3 txt rest :
  fst (parse_items dt left carry after (TRaw w0 w1 w2 w3 txt rest)) =
  ARaw (trim dt txt w1 w2) (fst (parse_items dt w3 carry after rest)).
Proof. simpl. destruct (parse_items _ _ _ _ rest). reflexivity. Qed.

Definition block_body dt k r body nl : ast :=
  match k with
  | KCase _ => ANil
  | _ => fst (parse_items dt r r (Some nl) body)
  end.

Lemma parse_items_block dt left carry after k l r body secs el er rest :
  fst (parse_items dt left carry after (TBlock k l r body secs el er rest)) =
  ABlock k (block_body dt k r body (fst (next_tag secs el er)))
           (fst (parse_secs dt (snd (next_tag secs el er)) secs el er))
           (fst (parse_items dt er er after rest)).
Proof.
  simpl. pose proof (parse_secs_carry dt secs el er) as Hc.
  destruct (next_tag secs el er) as [nl nr]. simpl in *.
  destruct (parse_secs dt nr secs el er) as [ss c3]. simpl in Hc. subst c3.
  destruct (parse_items dt er er after rest). reflexivity.
Qed.

Lemma parse_secs_cons dt carry g l r body rest el er :
  fst (parse_secs dt carry (SCons g l r body rest) el er) =
  ASCons g (fst (parse_items dt carry carry (Some (fst (next_tag rest el er))) body))
           (fst (parse_secs dt (snd (next_tag rest el er)) rest el er)).
Proof.
  simpl. destruct (next_tag rest el er) as [nl nr]. simpl.
  destruct (parse_secs dt nr rest el er). reflexivity.
Qed.

(** * The central lemma: rendering is the reference rendering, up to a
      congruence [R] that trimming and suppression respect *)

Section Central.
  Variable R : str -> str -> Prop.
  Hypothesis R_refl : forall s, R s s.
  Hypothesis R_app : forall a a' b b', R a a' -> R b b' -> R (a ++ b) (a' ++ b').
  Variable okw : wc -> bool.
  Variable cf : cfg.
  Variable d : data.
  Let dt := default_trim cf.
  Hypothesis H_trim : forall txt l r,
    okw l = true -> okw r = true -> R (trim dt txt l r) txt.
  Hypothesis H_dt : okw dt = true.
  Hypothesis H_def : okw Default = true.
  Hypothesis H_sup : suppress cf = true ->
    forall o o', all_ws o = true -> R o o' -> R [] o'.

  Definition srel (st st' : store) : Prop := forall n, R (st n) (st' n).
  Definition prel (x y : str * store) : Prop :=
    R (fst x) (fst y) /\ srel (snd x) (snd y).

  Lemma prel_andthen x y f g :
    prel x y -> (forall s s', srel s s' -> prel (f s) (g s')) ->
    prel (andthen x f) (andthen y g).
  Proof.
    intros [H1 H2] H. specialize (H _ _ H2). destruct H as [H3 H4].
    split; [rewrite !fst_andthen; apply R_app; assumption|rewrite !snd_andthen; assumption].
  Qed.

  Lemma prel_iter f g :
    (forall s s', srel s s' -> prel (f s) (g s')) ->
    forall n s s', srel s s' -> prel (iter n f s) (iter n g s').
  Proof.
    intros H n. induction n as [|n IH]; intros s s' Hs; simpl.
    - split; [apply R_refl|exact Hs].
    - apply prel_andthen; auto.
  Qed.

  Lemma prel_captured v x y : prel x y -> prel (captured v x) (captured v y).
  Proof.
    intros [H1 H2]. split.
    - rewrite !fst_captured. apply R_refl.
    - rewrite !snd_captured. intro n. unfold upd. destruct (Nat.eqb n v); auto.
  Qed.

  Lemma prel_block_node b f g :
    (b = true -> forall s, all_ws (fst (f s)) = true) ->
    (forall s s', srel s s' -> prel (f s) (g s')) ->
    forall s s', srel s s' -> prel (block_node cf b f s) (g s').
  Proof.
    intros Hb H s s' Hs. unfold block_node.
    destruct (suppress cf) eqn:Es, b; simpl; auto.
    destruct (H _ _ Hs) as [H1 H2]. split; simpl; [|exact H2].
    apply (H_sup eq_refl (fst (f s))); auto.
  Qed.

  Lemma next_tag_ok s el er :
    all_markers_secs okw s = true -> okw el = true -> okw er = true ->
    okw (fst (next_tag s el er)) = true /\ okw (snd (next_tag s el er)) = true.
  Proof.
    destruct s as [|g l r body rest]; simpl; auto.
    intro H. repeat (apply andb_true_iff in H as [H ?]). auto.
  Qed.

  Lemma first_left_ok rest after :
    all_markers okw rest = true -> (forall m, after = Some m -> okw m = true) ->
    okw (peeked (first_left rest after)) = true.
  Proof.
    destruct rest; simpl; intros H Ha; auto.
    - destruct after; simpl; auto.
    - repeat (apply andb_true_iff in H as [H ?]). auto.
    - repeat (apply andb_true_iff in H as [H ?]). auto.
    - repeat (apply andb_true_iff in H as [H ?]). auto.
  Qed.

  Lemma central :
    (forall t, all_markers okw t = true ->
       forall left carry after st st',
         okw left = true -> okw carry = true ->
         (forall m, after = Some m -> okw m = true) -> srel st st' ->
         prel (render_nodes cf d (fst (parse_items dt left carry after t)) st)
              (plain_nodes d t st'))
    /\ (forall s, all_markers_secs okw s = true ->
       forall carry el er, okw carry = true -> okw el = true -> okw er = true ->
         (forall st st', srel st st' ->
            prel (render_first cf d (fst (parse_secs dt carry s el er)) st)
                 (plain_first d s st'))
         /\ (forall kv m st st', srel st st' ->
            prel (render_case cf d kv m (fst (parse_secs dt carry s el er)) st)
                 (plain_case d kv m s st'))).
  Proof.
    apply tree_tsecs_ind.
    - (* TNil *) intros _ left carry after st st' _ _ _ Hs. simpl.
      split; [apply R_refl|exact Hs].
    - (* TContent *)
      intros txt rest IH Hm left carry after st st' Hl Hc Ha Hs.
      rewrite parse_items_content. simpl in Hm |- *.
      apply prel_andthen.
      + split; simpl; [|exact Hs]. apply H_trim; [exact Hl|].
        apply first_left_ok; assumption.
      + intros s s' Hs'. apply IH; assumption.
    - (* TLeaf *)
      intros vt l r w rest IH Hm left carry after st st' Hl Hc Ha Hs.
      rewrite parse_items_leaf. simpl in Hm |- *.
      apply andb_true_iff in Hm as [Hm Hrest]. apply andb_true_iff in Hm as [Hwl Hwr].
      apply prel_andthen.
      + split; simpl; [|exact Hs]. destruct w; [apply Hs|apply R_refl].
      + intros s s' Hs'. apply IH; try assumption. destruct vt; assumption.
    - (* TRaw *)
      intros w0 w1 w2 w3 txt rest IH Hm left carry after st st' Hl Hc Ha Hs.
      rewrite parse_items_raw. simpl in Hm |- *.
      repeat (apply andb_true_iff in Hm as [Hm ?]).
      apply prel_andthen.
      + split; simpl; [|exact Hs]. apply H_trim; assumption.
      + intros s s' Hs'. apply IH; assumption.
    - (* TBlock *)
      intros k l r body IHb secs IHs el er rest IHr Hm left carry after st st' Hl Hc Ha Hs.
      rewrite parse_items_block. simpl in Hm.
      apply andb_true_iff in Hm as [Hm Hmrest]. apply andb_true_iff in Hm as [Hm Hwer].
      apply andb_true_iff in Hm as [Hm Hwel]. apply andb_true_iff in Hm as [Hm Hmsecs].
      apply andb_true_iff in Hm as [Hm Hmbody]. apply andb_true_iff in Hm as [Hwl Hwr].
      destruct (next_tag_ok secs el er Hmsecs Hwel Hwer) as [Hnl Hnr].
      specialize (IHs Hmsecs _ el er Hnr Hwel Hwer). destruct IHs as [IHf IHc].
      assert (Hbody : forall s s', srel s s' ->
                prel (render_nodes cf d (fst (parse_items dt r r (Some (fst (next_tag secs el er))) body)) s)
                     (plain_nodes d body s')).
      { intros s s' Hs'. apply IHb; try assumption.
        intros m Em. inversion Em; subst. exact Hnl. }
      simpl render_nodes. simpl plain_nodes.
      apply prel_andthen.
      + destruct k; simpl block_body.
        * destruct (d_cond d c); [|apply IHf; exact Hs].
          apply prel_block_node; auto. intros Hb s. apply suppression_only_ws_proof, Hb.
        * destruct (negb (d_cond d c)); [|apply IHf; exact Hs].
          apply prel_block_node; auto. intros Hb s. apply suppression_only_ws_proof, Hb.
        * destruct (d_count d n) as [|m]; [apply IHf; exact Hs|].
          apply (prel_iter _ _) with (n := S m); [|exact Hs].
          intros s s' Hs'. apply prel_block_node; auto.
          intros Hb s0. apply suppression_only_ws_proof, Hb.
        * apply IHc; exact Hs.
        * apply prel_captured.
          apply prel_block_node; auto. intros Hb s. apply suppression_only_ws_proof, Hb.
        * apply prel_block_node; auto. intros Hb s. apply suppression_only_ws_proof, Hb.
      + intros s s' Hs'. apply IHr; assumption.
    - (* SNil *)
      intros _ carry el er _ _ _. split.
      + intros st st' Hs. simpl. split; [apply R_refl|exact Hs].
      + intros kv m st st' Hs. simpl. split; [apply R_refl|exact Hs].
    - (* SCons *)
      intros g l r body IHb rest IHr Hm carry el er Hc Hwel Hwer.
      simpl in Hm.
      apply andb_true_iff in Hm as [Hm Hmrest]. apply andb_true_iff in Hm as [Hm Hmbody].
      apply andb_true_iff in Hm as [Hwl Hwr].
      destruct (next_tag_ok rest el er Hmrest Hwel Hwer) as [Hnl Hnr].
      specialize (IHr Hmrest _ el er Hnr Hwel Hwer). destruct IHr as [IHf IHc].
      assert (Hbody : forall s s', srel s s' ->
                prel (block_node cf
                        (blank_nodes (fst (parse_items dt carry carry (Some (fst (next_tag rest el er))) body)))
                        (render_nodes cf d (fst (parse_items dt carry carry (Some (fst (next_tag rest el er))) body))) s)
                     (plain_nodes d body s')).
      { apply prel_block_node.
        - intros Hb s. apply suppression_only_ws_proof, Hb.
        - intros s s' Hs'. apply IHb; try assumption.
          intros m Em. inversion Em; subst. exact Hnl. }
      rewrite parse_secs_cons. split.
      + intros st st' Hs. simpl. destruct (guard_holds d g); auto.
      + intros kv m st st' Hs. simpl. destruct (fires kv m g); auto.
        apply prel_andthen; auto.
  Qed.
End Central.

(** * Rendering equals the reference rendering once whitespace is erased *)

Definition erase_eq (a b : str) : Prop := erase_ws a = erase_ws b.

Lemma all_markers_true :
  (forall t, all_markers (fun _ => true) t = true)
  /\ (forall s, all_markers_secs (fun _ => true) s = true).
Proof.
  apply tree_tsecs_ind; simpl; intros;
    repeat match goal with H : _ = true |- _ => rewrite H; clear H end; reflexivity.
Qed.

Lemma render_erase_plain cf d t left carry after :
  erase_ws (fst (render_nodes cf d (fst (parse_items (default_trim cf) left carry after t)) (d_str d)))
  = erase_ws (fst (plain_nodes d t (d_str d))).
Proof.
  assert (C := central erase_eq).
  specialize (C (fun s => eq_refl)).
  specialize (C (fun a a' b b' H1 H2 =>
    eq_trans (erase_ws_app a b) (eq_trans (f_equal2 (@app _) H1 H2) (eq_sym (erase_ws_app a' b'))))).
  specialize (C (fun _ => true) cf d).
  specialize (C (fun txt l r _ _ => trim_erase (default_trim cf) txt l r) eq_refl eq_refl).
  assert (Hs : suppress cf = true -> forall o o', all_ws o = true -> erase_eq o o' -> erase_eq [] o').
  { intros _ o o' Ho E. unfold erase_eq in *. rewrite <- E, (all_ws_erase o Ho). reflexivity. }
  specialize (C Hs). destruct C as [C _].
  destruct (C t (proj1 all_markers_true t) left carry after (d_str d) (d_str d)
              eq_refl eq_refl (fun _ _ => eq_refl) (fun n => eq_refl)) as [H _].
  exact H.
Qed.

Theorem run_erase_plain_proof : forall cf t d,
  map_res erase_ws (run cf t d) = map_res erase_ws (plain_run t d).
Proof.
  intros cf t d. unfold run, plain_run, parse. destruct (wf t); simpl; [|reflexivity].
  f_equal. apply render_erase_plain.
Qed.

(** ** The reference rendering does not look at markers *)

Lemma andthen_ext x f g : (forall s, f s = g s) -> andthen x f = andthen x g.
Proof. intro H. unfold andthen. destruct x as [o s]. rewrite H. reflexivity. Qed.

Lemma iter_ext n f g : (forall s, f s = g s) -> forall s, iter n f s = iter n g s.
Proof.
  intro H. induction n as [|n IH]; intro s; simpl; [reflexivity|].
  rewrite H. apply andthen_ext, IH.
Qed.

Lemma plain_unmark d :
  (forall t st, plain_nodes d (unmark t) st = plain_nodes d t st)
  /\ (forall s, (forall st, plain_first d (unmark_secs s) st = plain_first d s st)
             /\ (forall kv m st, plain_case d kv m (unmark_secs s) st = plain_case d kv m s st)).
Proof.
  apply tree_tsecs_ind.
  - reflexivity.
  - intros txt rest IH st. simpl. apply andthen_ext, IH.
  - intros vt l r w rest IH st. simpl. apply andthen_ext, IH.
  - intros w0 w1 w2 w3 txt rest IH st. simpl. apply andthen_ext, IH.
  - intros k l r body IHb secs [IHf IHc] el er rest IHr st. simpl.
    rewrite (andthen_ext _ _ _ IHr). f_equal.
    destruct k.
    + rewrite IHb, IHf. reflexivity.
    + rewrite IHb, IHf. reflexivity.
    + rewrite IHf. destruct (d_count d n) as [|m]; [reflexivity|].
      apply (iter_ext (S m)), IHb.
    + apply IHc.
    + rewrite IHb. reflexivity.
    + apply IHb.
  - split; reflexivity.
  - intros g l r body IHb rest [IHf IHc]. split.
    + intro st. simpl. rewrite IHb, IHf. reflexivity.
    + intros kv m st. simpl. rewrite IHb. destruct (fires kv m g); [|apply IHc].
      apply andthen_ext, IHc.
Qed.

Lemma secs_ok_unmark k s : secs_ok k (unmark_secs s) = secs_ok k s.
Proof.
  assert (H1 : forall s, secs_conds_else (unmark_secs s) = secs_conds_else s).
  { clear. induction s as [|g l r body rest IH]; [reflexivity|].
    simpl. destruct g; auto. destruct rest; reflexivity. }
  assert (H2 : forall s, secs_whens_else (unmark_secs s) = secs_whens_else s).
  { clear. induction s as [|g l r body rest IH]; [reflexivity|].
    simpl. destruct g; auto. destruct rest; reflexivity. }
  destruct k; simpl; auto.
  - destruct s as [|g l r body rest]; [reflexivity|]. simpl.
    destruct g; auto. destruct rest; reflexivity.
  - destruct s; reflexivity.
  - destruct s; reflexivity.
Qed.

Lemma lead_ok_unmark t : lead_ok (unmark t) = lead_ok t.
Proof. destruct t as [|txt rest| | |]; try reflexivity. destruct rest; reflexivity. Qed.

Lemma wf_unmark :
  (forall t, wf (unmark t) = wf t) /\ (forall s, wf_secs (unmark_secs s) = wf_secs s).
Proof.
  apply tree_tsecs_ind; simpl; intros; auto.
  - rewrite secs_ok_unmark, H0, H1. f_equal. f_equal. f_equal.
    destruct k; auto using lead_ok_unmark.
  - rewrite H, H0. reflexivity.
Qed.

Lemma plain_run_unmark t d : plain_run (unmark t) d = plain_run t d.
Proof.
  unfold plain_run. rewrite (proj1 wf_unmark), (proj1 (plain_unmark d)). reflexivity.
Qed.

(** Two token trees that differ only in their markers, rendered under any two
    configurations (default_trim, suppression), give outputs that are equal
    once whitespace is erased (and fail together). *)
Theorem markers_change_only_ws_proof : forall cf cf' t t' d,
  unmark t = unmark t' ->
  map_res erase_ws (run cf t d) = map_res erase_ws (run cf' t' d).
Proof.
  intros cf cf' t t' d E.
  rewrite !run_erase_plain_proof, <- (plain_run_unmark t), <- (plain_run_unmark t'), E.
  reflexivity.
Qed.

(** * With no trimming in force text is reproduced character for character *)

Lemma render_plain_verbatim cf d t left carry after :
  plain_wc (default_trim cf) = true -> suppress cf = false ->
  no_trim_markers t = true ->
  plain_wc left = true -> plain_wc carry = true ->
  (forall m, after = Some m -> plain_wc m = true) ->
  fst (render_nodes cf d (fst (parse_items (default_trim cf) left carry after t)) (d_str d))
  = fst (plain_nodes d t (d_str d)).
Proof.
  intros Hdt Hsup Hm Hl Hc Ha.
  assert (C := central (@eq str) (fun s => eq_refl)).
  specialize (C (fun a a' b b' H1 H2 => f_equal2 (@app _) H1 H2) plain_wc cf d).
  specialize (C (fun txt l r Hl Hr => trim_plain (default_trim cf) txt l r Hdt Hl Hr) Hdt eq_refl).
  assert (Hs : suppress cf = true -> forall o o' : str, all_ws o = true -> o = o' -> [] = o').
  { rewrite Hsup. discriminate. }
  specialize (C Hs). destruct C as [C _].
  destruct (C t Hm left carry after (d_str d) (d_str d) Hl Hc Ha (fun n => eq_refl)) as [H _].
  exact H.
Qed.

(** Every ContentNode's trim is the identity when no trimming is in force. *)
Lemma content_pairs_plain dt :
  plain_wc dt = true ->
  (forall t, no_trim_markers t = true -> forall left carry after,
     plain_wc left = true -> (forall m, after = Some m -> plain_wc m = true) ->
     Forall (fun p => trim dt (fst (fst p)) (snd (fst p)) (snd p) = fst (fst p))
            (content_pairs (fst (parse_items dt left carry after t))))
  /\ (forall s, all_markers_secs plain_wc s = true -> forall carry el er,
     plain_wc carry = true -> plain_wc el = true -> plain_wc er = true ->
     Forall (fun p => trim dt (fst (fst p)) (snd (fst p)) (snd p) = fst (fst p))
            (content_pairs_secs (fst (parse_secs dt carry s el er)))).
Proof.
  intro Hdt. unfold no_trim_markers. apply tree_tsecs_ind.
  - intros. constructor.
  - intros txt rest IH Hm left carry after Hl Ha. rewrite parse_items_content. simpl in *.
    constructor; [|apply IH; auto]. simpl. apply trim_plain; auto.
    apply (first_left_ok plain_wc eq_refl); auto.
  - intros vt l r w rest IH Hm left carry after Hl Ha. rewrite parse_items_leaf. simpl in *.
    repeat (apply andb_true_iff in Hm as [Hm ?]). apply IH; auto.
  - intros w0 w1 w2 w3 txt rest IH Hm left carry after Hl Ha. rewrite parse_items_raw. simpl in *.
    repeat (apply andb_true_iff in Hm as [Hm ?]). apply IH; auto.
  - intros k l r body IHb secs IHs el er rest IHr Hm left carry after Hl Ha.
    rewrite parse_items_block. simpl in *.
    apply andb_true_iff in Hm as [Hm Hmrest]. apply andb_true_iff in Hm as [Hm Hwer].
    apply andb_true_iff in Hm as [Hm Hwel]. apply andb_true_iff in Hm as [Hm Hmsecs].
    apply andb_true_iff in Hm as [Hm Hmbody]. apply andb_true_iff in Hm as [Hwl Hwr].
    destruct (next_tag_ok plain_wc secs el er Hmsecs Hwel Hwer) as [Hnl Hnr].
    rewrite !Forall_app. split; [|split].
    + destruct k; simpl; try constructor; apply IHb; auto;
        intros m Em; inversion Em; subst; exact Hnl.
    + apply IHs; auto.
    + apply IHr; auto.
  - intros. constructor.
  - intros g l r body IHb rest IHr Hm carry el er Hc Hwel Hwer.
    rewrite parse_secs_cons. simpl in *.
    apply andb_true_iff in Hm as [Hm Hmrest]. apply andb_true_iff in Hm as [Hm Hmbody].
    apply andb_true_iff in Hm as [Hwl Hwr].
    destruct (next_tag_ok plain_wc rest el er Hmrest Hwel Hwer) as [Hnl Hnr].
    rewrite Forall_app. split.
    + apply IHb; auto. intros m Em; inversion Em; subst; exact Hnl.
    + apply IHr; auto.
Qed.

Theorem no_trim_is_verbatim_proof : forall cf t d,
  default_trim cf = Plus -> no_trim_markers t = true -> wf t = true ->
  (exists a, parse cf t = Ok a
     /\ Forall (fun p => trim (default_trim cf) (fst (fst p)) (snd (fst p)) (snd p) = fst (fst p))
               (content_pairs a))
  /\ (suppress cf = false -> run cf t d = plain_run t d).
Proof.
  intros cf t d Hdt Hm Hwf. split.
  - unfold parse. rewrite Hwf. eexists. split; [reflexivity|].
    apply (proj1 (content_pairs_plain (default_trim cf) ltac:(rewrite Hdt; reflexivity))); auto.
    + rewrite Hdt. reflexivity.
    + discriminate.
  - intro Hsup. unfold run, plain_run, parse. rewrite Hwf. simpl. f_equal.
    apply render_plain_verbatim; auto; try (rewrite Hdt; reflexivity). discriminate.
Qed.

(** * The parser's carry computes adjacency *)

(** [left_trim] after the tokens [a], starting from [prev]. *)
Fixpoint lastp (dt prev : wc) (a : list ftok) : wc :=
  match a with
  | [] => prev
  | FC _ :: a' => lastp dt dt a'
  | FD _ :: a' => lastp dt dt a'
  | FM _ r :: a' => lastp dt r a'
  end.

Lemma peek_tok_app a b after : peek_tok (a ++ b) after = peek_tok a (peek_tok b after).
Proof. destruct a as [|[?|?|? ?] a]; reflexivity. Qed.

Lemma adj_app dt a : forall prev b after,
  adj dt prev (a ++ b) after
  = adj dt prev a (peek_tok b after) ++ adj dt (lastp dt prev a) b after.
Proof.
  induction a as [|x a IH]; intros prev b after; [reflexivity|].
  destruct x as [txt|txt|l r]; simpl.
  - rewrite peek_tok_app, IH. reflexivity.
  - apply IH.
  - apply IH.
Qed.

Lemma first_left_flatten t after : first_left t after = peek_tok (flatten t) after.
Proof. destruct t; reflexivity. Qed.

Lemma peek_secs s el er rest after :
  peek_tok (flatten_secs s ++ FM el er :: rest) after = Some (fst (next_tag s el er)).
Proof. destruct s; reflexivity. Qed.

Lemma lastp_secs dt prev s el er :
  lastp dt prev (flatten_secs s ++ [FM el er]) = er.
Proof.
  assert (H : forall a prev, lastp dt prev (a ++ [FM el er]) = er).
  { induction a as [|x a IH]; intro p; [reflexivity|]. destruct x; simpl; apply IH. }
  apply H.
Qed.

Lemma carry_adjacent dt :
  (forall t left carry after,
     content_pairs (fst (parse_items dt left carry after t)) = adj dt left (flatten t) after)
  /\ (forall s el er prev,
     content_pairs_secs (fst (parse_secs dt (snd (next_tag s el er)) s el er))
     = adj dt prev (flatten_secs s) (Some el)).
Proof.
  apply tree_tsecs_ind.
  - reflexivity.
  - intros txt rest IH left carry after. rewrite parse_items_content. simpl.
    rewrite IH, first_left_flatten. reflexivity.
  - intros vt l r w rest IH left carry after. rewrite parse_items_leaf. simpl. apply IH.
  - intros w0 w1 w2 w3 txt rest IH left carry after. rewrite parse_items_raw. simpl. apply IH.
  - intros k l r body IHb secs IHs el er rest IHr left carry after.
    rewrite parse_items_block. simpl content_pairs. simpl flatten. simpl adj.
    rewrite adj_app, peek_secs.
    set (B := match k with
              | KCase _ => match body with TContent txt TNil => [FD txt] | _ => [] end
              | _ => flatten body end).
    replace (flatten_secs secs ++ FM el er :: flatten rest)
      with ((flatten_secs secs ++ [FM el er]) ++ flatten rest)
      by (rewrite <- app_assoc; reflexivity).
    rewrite (adj_app dt (flatten_secs secs ++ [FM el er])), lastp_secs.
    rewrite (adj_app dt (flatten_secs secs)). simpl peek_tok.
    change (adj dt (lastp dt (lastp dt r B) (flatten_secs secs)) [FM el er]
              (peek_tok (flatten rest) after)) with (@nil (str * wc * wc)).
    rewrite app_nil_r.
    rewrite (IHs el er (lastp dt r B)), IHr. subst B.
    f_equal.
    destruct k; simpl; try apply IHb.
    destruct body as [|txt [| | | |]| | |]; reflexivity.
  - reflexivity.
  - intros g l r body IHb rest IHr el er prev.
    simpl next_tag. simpl snd. rewrite parse_secs_cons. simpl.
    rewrite adj_app, IHb. f_equal.
    + destruct rest; reflexivity.
    + apply IHr.
Qed.

Theorem carry_is_adjacent_proof : forall cf t a,
  parse cf t = Ok a ->
  content_pairs a = adjacent_pairs (default_trim cf) (flatten t).
Proof.
  intros cf t a H. unfold parse in H. destruct (wf t); [|discriminate].
  inversion H; subst. apply (proj1 (carry_adjacent (default_trim cf))).
Qed.

(** * A "-" marker trims the whole whitespace run next to it — if the run is
      one content token *)

Lemma starts_ws_lstrip s : starts_ws (lstrip is_ws s) = false.
Proof.
  induction s as [|c s IH]; [reflexivity|]. simpl.
  destruct (is_ws c) eqn:E; [exact IH|]. simpl. exact E.
Qed.

Lemma starts_ws_prefix a b : starts_ws (a ++ b) = false -> starts_ws a = false.
Proof. destruct a; simpl; auto. Qed.

Lemma starts_ws_trim_minus dt txt l r :
  resolve dt l = Minus -> starts_ws (trim dt txt l r) = false.
Proof.
  intro El. rewrite trim_two_sides, El. simpl.
  destruct (ostrip_r_split (resolve dt r) (lstrip is_ws txt)) as [b [E _]].
  apply (starts_ws_prefix _ b). rewrite <- E. apply starts_ws_lstrip.
Qed.

Lemma no_adjacent_content_suffix pre x :
  no_adjacent_content (pre ++ x) = true -> no_adjacent_content x = true.
Proof.
  induction pre as [|a pre IH]; [auto|]. intro H. apply IH.
  simpl in H. destruct a; try exact H.
  destruct (pre ++ x) as [|[?|?|? ?] ?]; try exact H; discriminate.
Qed.

Theorem right_marker_trims_whole_run_partial_proof : forall dt toks,
  no_adjacent_content toks = true -> right_marker_honoured dt toks.
Proof.
  intros dt toks H pre l r rest E Er. subst toks.
  apply no_adjacent_content_suffix in H.
  destruct rest as [|[txt|txt|l' r'] rest]; try reflexivity.
  simpl. simpl in H.
  destruct rest as [|[txt'|txt'|l' r'] rest]; try discriminate; simpl;
    rewrite app_nil_r; apply starts_ws_trim_minus; exact Er.
Qed.

Theorem right_marker_trims_whole_run_refuted_proof :
  exists dt toks, ~ right_marker_honoured dt toks.
Proof.
  exists Plus, [FM Default Minus; FC [32%N]; FC [10%N]].
  intro H. specialize (H [] Default Minus [FC [32%N]; FC [10%N]] eq_refl eq_refl).
  vm_compute in H. discriminate.
Qed.

(** * The hypotheses are satisfiable / the statements are not vacuous *)

Definition ex_data : data :=
  mk_data [[120%N]; [32%N; 121%N]; []; []] [true; false; true] [2; 0; 1]%nat [1; 0; 2]%nat.

(** " a {{- v0 -}} b " against " a {{ v0 }} b ": same tokens, different
    outputs, equal after erasing whitespace. *)
Example markers_change_only_ws_nonvacuous :
  let t  := TContent [32;97;32]%N (TLeaf false Minus Minus (Some 0%nat) (TContent [32;98;32]%N TNil)) in
  let t' := TContent [32;97;32]%N (TLeaf false Default Default (Some 0%nat) (TContent [32;98;32]%N TNil)) in
  let cf := {| default_trim := Plus; suppress := true |} in
  unmark t = unmark t'
  /\ run cf t ex_data = Ok [32;97;120;98;32]%N
  /\ run cf t' ex_data = Ok [32;97;32;120;32;98;32]%N.
Proof. vm_compute. auto. Qed.

(** {% if b0 %} \n {% endif %}: a blank block; it writes " \n " without
    suppression and nothing with it. *)
Example suppression_only_ws_nonvacuous :
  let t := TBlock (KIf 0) Default Default (TContent [32;10;32]%N TNil) SNil Default Default TNil in
  match parse {| default_trim := Plus; suppress := true |} t with
  | Ok a =>
      blank_nodes a = true
      /\ fst (render_nodes {| default_trim := Plus; suppress := false |} ex_data a (d_str ex_data)) = [32;10;32]%N
      /\ fst (render_nodes {| default_trim := Plus; suppress := true |} ex_data a (d_str ex_data)) = []
  | _ => False
  end.
Proof. vm_compute. auto. Qed.

(** x {%+ for i in a0 +%} {{ v1 }}\n{% endfor %}{% raw %} r {% endraw %} *)
Example no_trim_is_verbatim_nonvacuous :
  let t := TContent [120]%N
            (TBlock (KFor 0) Plus Plus
               (TContent [32]%N (TLeaf false Default Default (Some 1%nat) (TContent [10]%N TNil)))
               SNil Default Default
               (TRaw Default Default Default Default [32;114;32]%N TNil)) in
  let cf := {| default_trim := Plus; suppress := false |} in
  no_trim_markers t = true /\ wf t = true
  /\ run cf t ex_data = Ok [120; 32;32;121;10; 32;32;121;10; 32;114;32]%N.
Proof. vm_compute. auto. Qed.

(** {% case k0 -%} \n {%~ when 1 +%} a {% else -%} b {%- endcase ~%} z:
    the text after each tag takes that tag's right marker, the text before
    each tag that tag's left marker, across the block boundaries. *)
Example carry_is_adjacent_nonvacuous :
  let t := TBlock (KCase 0) Default Minus (TContent [32;10;32]%N TNil)
             (SCons (GWhen [1%nat]) Tilde Plus (TContent [32;97;32]%N TNil)
             (SCons GElse Default Minus (TContent [32;98;32]%N TNil) SNil))
             Minus Tilde (TContent [32;122]%N TNil) in
  wf t = true
  /\ match parse {| default_trim := Plus; suppress := true |} t with
     | Ok a => content_pairs a =
               [([32;97;32]%N, Plus, Default); ([32;98;32]%N, Minus, Minus); ([32;122]%N, Tilde, Default)]
     | _ => False
     end.
Proof. vm_compute. auto. Qed.

Example right_marker_partial_nonvacuous :
  let toks := [FC [97]%N; FM Default Minus; FC [32;10;98]%N; FM Minus Default] in
  no_adjacent_content toks = true
  /\ run_text Plus Minus [FC [32;10;98]%N; FM Minus Default] None = [98]%N.
Proof. vm_compute. auto. Qed.
