(** Proofs/LexText_proofs.v — third layer: every markup token is well placed
    ([mtok_ok]): its text is the source text it was scanned from, its
    delimiters sit at the ends of its span, its expression tokens (and the
    line statements of a liquid tag) are nested inside it in order. *)
From LQ Require Import Base.Str Kernels.LexUni Kernels.Lex
  Proofs.LexMatch_proofs Proofs.Lex_proofs Proofs.LexNest_proofs.

Ltac st_simpl :=
  cbn [pos start mstart lstart in_range set_pos set_start set_both set_mstart set_lstart
       set_in_range ignore fst snd mtok_start mtok_stop] in *.

Section Text.

Variable shorthand : bool.
Variable s : str.
Notation L := (length s).

Lemma sub_slice a b : sub s a b = slice s a b.
Proof. reflexivity. Qed.

Lemma firstn_rest k p : firstn k (rest s p) = slice s p (p + k).
Proof. unfold slice, rest. replace (p + k - p) with k by lia. reflexivity. Qed.

Lemma firstn_skipn_rest k x p : firstn k (skipn x (rest s p)) = slice s (p + x) (p + x + k).
Proof.
  unfold slice, rest. rewrite skipn_skipn. replace (p + x + k - (p + x)) with k by lia. reflexivity.
Qed.

Lemma slice_length a b : b <= L -> length (slice s a b) = b - a.
Proof. intros H. unfold slice. rewrite firstn_length, skipn_length. lia. Qed.

Lemma slice_self a b : b <= L -> slice s a b = firstn (length (slice s a b)) (skipn a s).
Proof. intros H. rewrite slice_length by assumption. reflexivity. Qed.

(** [wc_end] at an absolute position: the closing delimiter ends the match. *)
Lemma wc_end_slice lit p w n :
  wc_end lit (rest s p) = Some (w, n) -> slice s (p + n - length lit) (p + n) = lit.
Proof.
  intros H. pose proof (wc_end_len _ _ _ _ H) as Hl. apply wc_end_last in H.
  rewrite firstn_skipn_rest in H. etransitivity; [|exact H]. f_equal; lia.
Qed.

(** * Output statements and tags *)

Lemma expression_until_text f closer t t' w expr lo :
  sane s t -> (lo <= Z.of_nat (pos t))%Z ->
  expression_until shorthand s f closer t = Ok (t', w, expr) ->
  slice s (pos t' - length closer) (pos t') = closer /\
  chain s lo expr (Z.of_nat (pos t' - length closer)).
Proof.
  intros Hs Hlo H. unfold expression_until in H.
  apply bind_ok in H as ([t1 rexpr] & Hsub & H).
  pose proof (rspec_inv s _ _ _ _ _ (proj2 (proj2 (proj2 (expr_specs shorthand s f))) t [] Hs ltac:(constructor)) Hsub)
    as (((A0 & A1) & A2 & A3 & A4) & A5). st_simpl.
  assert (Hr : rchain s lo rexpr (Z.of_nat (pos t1))).
  { eapply (proj2 (proj2 (proj2 (expr_nest shorthand s f))) t [] lo); [exact Hs|constructor; exact Hlo|exact Hsub]. }
  destruct (wc_end closer (rest s (pos t1))) as [[w1 n]|] eqn:E; [|discriminate].
  inversion H; subst t' w expr. clear H. st_simpl.
  pose proof (wc_end_len _ _ _ _ E) as Hl. split.
  - apply (wc_end_slice _ _ _ _ E).
  - eapply chain_hi; [apply rchain_rev; exact Hr|lia].
Qed.

(** * The liquid tag *)

(** Statements most recent first, inside [lo, cur]. *)
Fixpoint rlines (lo : nat) (l : list ltok) (cur : nat) : Prop :=
  match l with
  | [] => lo <= cur
  | t :: l' => ltok_stop t <= cur /\ ltok_inner s t /\ rlines lo l' (ltok_start t)
  end.

Lemma ltok_inner_le t : ltok_inner s t -> ltok_start t <= ltok_stop t.
Proof. destruct t; simpl; tauto. Qed.

Lemma lines_ok_lo lo lo' hi l : lines_ok s lo hi l -> lo' <= lo -> lines_ok s lo' hi l.
Proof. destruct l; simpl; [lia|]. intros (A & B & C) H. repeat split; try assumption; lia. Qed.

Lemma rlines_lines lo l cur :
  rlines lo l cur -> forall tl hi, lines_ok s cur hi tl -> lines_ok s lo hi (rev l ++ tl).
Proof.
  revert cur; induction l as [|t l IH]; simpl; intros cur H tl hi Htl.
  - eapply lines_ok_lo; eassumption.
  - destruct H as (A & B & C). rewrite <- app_assoc. simpl. eapply IH; [exact C|].
    simpl. repeat split; [lia|assumption|]. eapply lines_ok_lo; eassumption.
Qed.

Lemma rlines_cur lo l cur cur' : rlines lo l cur -> cur <= cur' -> rlines lo l cur'.
Proof. destruct l; simpl; [lia|]. intros (A & B & C) H. repeat split; try assumption; lia. Qed.

Lemma line_statement_text : forall f t name rexpr t' tok fin,
  sane s t -> lstart t <= pos t ->
  rchain s (Z.of_nat (lstart t)) rexpr (Z.of_nat (pos t)) ->
  line_statement shorthand s f t name rexpr = Ok (t', tok, fin) ->
  exists b e, tok = LTag (lstart t) b name e /\ lstart t <= b /\ b <= pos t' /\
              chain s (Z.of_nat (lstart t)) e (Z.of_nat b) /\
              (forall w, fin = Some w -> slice s (pos t' - 2) (pos t') = [37; 125]%N).
Proof.
  induction f as [|f IH]; intros t name rexpr t' tok fin Hs Hl Hr H; [discriminate|].
  cbn [line_statement] in H.
  apply bind_ok in H as (t1 & Hw & H).
  pose proof (rspec_inv s _ _ _ _ _ (ignore_line_space_spec s t 0 0 Hs) Hw) as ((A0 & A1) & A2 & A3 & A4).
  pose proof (line_term_le (rest s (pos t1))) as Hlt. rewrite rest_len in Hlt.
  assert (Hr1 : rchain s (Z.of_nat (lstart t)) rexpr (Z.of_nat (pos t1))) by (eapply rchain_hi; [exact Hr|lia]).
  destruct (negb (line_term (rest s (pos t1)) =? 0)) eqn:En.
  { inversion H; subst t' tok fin. st_simpl. exists (start t1), (rev rexpr). rewrite A4.
    repeat split; try lia.
    - rewrite A0. apply rchain_rev. exact Hr1.
    - discriminate. }
  apply bind_ok in H as (r & Ht & H).
  assert (Hso : SO s rexpr) by (eapply rchain_SO; [exact Hr1|lia]).
  destruct r as [[t2 rexpr2]|].
  - pose proof (rspec_inv s _ _ _ _ _ (proj1 (expr_specs shorthand s f) t1 rexpr (conj A0 A1) Hso) Ht)
      as ((B1 & B2 & B3 & B4) & B5 & B6). st_simpl.
    eapply IH in H; [|exact B1|lia|].
    + destruct H as (b & e & C1 & C2 & C3 & C4 & C5). exists b, e.
      rewrite B4, A4 in *. auto.
    + rewrite B4, A4. eapply (proj1 (expr_nest shorthand s f)); [exact (conj A0 A1)| |exact Ht].
      exact Hr1.
  - destruct (wc_end L_pct_rbrace (rest s (pos t1))) as [[w m]|] eqn:E.
    + inversion H; subst t' tok fin. st_simpl.
      pose proof (wc_end_len _ _ _ _ E) as Hm. simpl in Hm. rewrite rest_len in Hm.
      exists (pos t1), (rev rexpr). rewrite A4. repeat split; try lia.
      * apply rchain_rev; exact Hr1.
      * intros _ _. apply (wc_end_slice _ _ _ _ E).
    + discriminate.
Qed.

Lemma liquid_block_comment_text : forall f t depth t' tok,
  le_L s t -> lstart t <= start t ->
  liquid_block_comment s f t depth = Ok (t', tok) ->
  exists text, tok = LComment CBlock (lstart t) (pos t') text [] /\
               start t + length text <= pos t' /\
               text = firstn (length text) (skipn (start t) s).
Proof.
  induction f as [|f IH]; intros t0 depth t' tok (H01 & H02) Hl0 H; [discriminate|].
  cbn [liquid_block_comment] in H. cbv zeta in H.
  destruct (skip_ws_spec s t0 H02) as (W1 & W2 & W3 & W4 & W5).
  remember (skip_ws s t0) as t eqn:Ht.
  rewrite <- W3, <- W5.
  assert (H1 : start t <= pos t) by lia. assert (H2 : pos t <= L) by lia.
  assert (Hl : lstart t <= start t) by lia.
  pose proof (tag_name_len_le (rest s (pos t))) as Hn. rewrite rest_len in Hn.
  assert (Hrec : forall t2 d, pos t <= pos t2 -> pos t2 <= L -> start t2 = start t -> lstart t2 = lstart t ->
            liquid_block_comment s f t2 d = Ok (t', tok) ->
            exists text, tok = LComment CBlock (lstart t) (pos t') text [] /\
               start t + length text <= pos t' /\ text = firstn (length text) (skipn (start t) s)).
  { intros t2 d B1 B2 B3 B4 Hc. eapply IH in Hc; [|unfold le_L; lia|lia].
    rewrite B3, B4 in Hc. exact Hc. }
  destruct (negb (tag_name_len (rest s (pos t)) =? 0)) eqn:En.
  { set (t1 := set_pos t (pos t + tag_name_len (rest s (pos t)))) in *.
    assert (Ht1 : pos t1 <= L) by (subst t1; st_simpl; lia).
    destruct (eol_spec s t1 Ht1) as (E1 & E2 & E3 & E4 & E5).
    remember (eol s t1) as u eqn:Hu.
    destruct (str_eqb _ L_endcomment).
    - destruct (depth =? 1).
      + inversion H; subst t' tok. st_simpl. rewrite E5. subst t1. st_simpl.
        exists (sub s (start t) (pos t + tag_name_len (rest s (pos t)) - tag_name_len (rest s (pos t)))).
        replace (pos t + tag_name_len (rest s (pos t)) - tag_name_len (rest s (pos t))) with (pos t) by lia.
        rewrite sub_slice, slice_length by lia. repeat split; try lia; try reflexivity.
      + apply (Hrec u _ ltac:(subst t1; st_simpl; lia) E2 E3 E5 H).
    - destruct (str_eqb _ L_comment); apply (Hrec u _ ltac:(subst t1; st_simpl; lia) E2 E3 E5 H). }
  destruct (line_comment (rest s (pos t))) as [m|] eqn:Em; [|discriminate].
  apply line_comment_le in Em. rewrite rest_len in Em.
  pose proof (line_term_le (rest s (pos t + m))) as Hlt. rewrite rest_len in Hlt.
  eapply Hrec; [| | | |exact H]; st_simpl; try lia; reflexivity.
Qed.

Definition lines_post (t : st) (w0 : wc) (lo : nat) (x : st * mtok) : Prop :=
  exists w1 stmts ws,
    snd x = MLines (mstart t) (pos (fst x)) w0 w1 L_liquid stmts ws /\
    lines_ok s lo (pos (fst x)) stmts /\
    slice s (pos (fst x) - 2) (pos (fst x)) = [37; 125]%N.

Lemma liquid_tag_text : forall f t w0 stmts wss lo x,
  sane s t -> rlines lo stmts (pos t) ->
  liquid_tag shorthand s f t w0 stmts wss = Ok x -> lines_post t w0 lo x.
Proof.
  induction f as [|f IH]; intros t w0 stmts wss lo x Hs Hrl H; [discriminate|].
  cbn [liquid_tag] in H.
  apply bind_ok in H as ([t1 nws] & Hw & H).
  pose proof (rspec_inv s _ _ _ _ _ (skip_class_spec s is_ws t 0 0 Hs) Hw) as (((A0 & A1) & A2 & A3 & A4) & A5).
  st_simpl. cbv zeta in H.
  assert (Hrec : forall t2 stmts2 wss2, sane s t2 -> mstart t2 = mstart t -> rlines lo stmts2 (pos t2) ->
            liquid_tag shorthand s f t2 w0 stmts2 wss2 = Ok x -> lines_post t w0 lo x).
  { intros t2 stmts2 wss2 B1 B2 B3 Hc. eapply IH in Hc; [|exact B1|exact B3].
    unfold lines_post in *. rewrite B2 in Hc. exact Hc. }
  assert (Hfin : forall u w1 stmts' ws, pos u <= L -> mstart u = mstart t -> rlines lo stmts' (pos u) ->
            slice s (pos u - 2) (pos u) = [37; 125]%N ->
            lines_post t w0 lo (u, MLines (mstart u) (pos u) w0 w1 L_liquid (rev stmts') ws)).
  { intros u w1 stmts' ws B1 B2 B3 B4. unfold lines_post. st_simpl. rewrite B2.
    eexists _, _, _. split; [reflexivity|]. split; [|exact B4].
    rewrite <- (app_nil_r (rev stmts')). eapply rlines_lines; [exact B3|]. simpl. lia. }
  assert (Hrl1 : rlines lo stmts (pos t1)) by (eapply rlines_cur; [exact Hrl|lia]).
  destruct (wc_end L_pct_rbrace (rest s (pos t1))) as [[w1 n]|] eqn:E.
  { injection H as <-.
    pose proof (wc_end_len _ _ _ _ E) as Hm. simpl in Hm. rewrite rest_len in Hm.
    refine (Hfin (set_both t1 (pos t1 + n)) w1 stmts _ _ _ _ _); st_simpl; try lia.
    - eapply rlines_cur; [exact Hrl1|lia].
    - apply (wc_end_slice _ _ _ _ E). }
  pose proof (tag_name_len_le (rest s (pos t1))) as Hn. rewrite rest_len in Hn.
  destruct (negb (tag_name_len (rest s (pos t1)) =? 0)) eqn:En.
  { apply negb_true_iff, Nat.eqb_neq in En.
    set (n := tag_name_len (rest s (pos t1))) in *.
    set (t2 := set_in_range (set_lstart (set_both t1 (pos t1 + n)) (start t1)) false) in *.
    assert (Hs2 : sane s t2) by (subst t2; unfold sane; st_simpl; lia).
    assert (Hname : firstn n (rest s (pos t1)) = firstn (length (firstn n (rest s (pos t1)))) (skipn (pos t1) s)).
    { rewrite firstn_length, rest_len, Nat.min_l by lia. reflexivity. }
    destruct (str_eqb _ L_comment).
    - apply bind_ok in H as (t3 & Hw3 & H).
      pose proof (rspec_inv s _ _ _ _ _ (ignore_ws_spec s t2 0 0 Hs2) Hw3) as ((B0 & B1) & B2 & B3 & B4).
      apply bind_ok in H as ([t4 tok] & Hc & H). st_simpl.
      pose proof (rspec_inv s _ _ _ _ _ (liquid_block_comment_spec s f t3 1 ltac:(unfold le_L; lia)) Hc)
        as (((C0 & C1) & C2 & C3 & C4) & C5). st_simpl.
      eapply liquid_block_comment_text in Hc; [|unfold le_L; lia|subst t2; st_simpl; lia].
      destruct Hc as (text & -> & D1 & D2).
      eapply Hrec; [| | |exact H]; [split; assumption|subst t2; st_simpl; congruence|].
      simpl. subst t2; st_simpl. rewrite B4 in *. st_simpl.
      repeat split; try lia.
      + exists (start t3). repeat split; try lia. exact D2.
      + rewrite A0. exact Hrl1.
    - apply bind_ok in H as ([[t3 tok] fin] & Hc & H). st_simpl.
      pose proof (rspec_inv s _ _ _ _ _ (line_statement_spec shorthand s f t2 _ [] Hs2 ltac:(constructor)) Hc)
        as (((C0 & C1) & C2 & C3 & C4) & C5). st_simpl.
      eapply line_statement_text in Hc; [|exact Hs2|subst t2; st_simpl; lia|subst t2; st_simpl; constructor; lia].
      destruct Hc as (b & e & -> & D1 & D2 & D3 & D4). subst t2; st_simpl.
      assert (Hrl3 : rlines lo (LTag (start t1) b (firstn n (rest s (pos t1))) e :: stmts) (pos t3)).
      { simpl. repeat split; try lia.
        - rewrite A0. exact Hname.
        - exact D3.
        - rewrite A0. exact Hrl1. }
      destruct fin as [w1|].
      + injection H as <-.
        refine (Hfin t3 w1 (LTag (start t1) b (firstn n (rest s (pos t1))) e :: stmts) _ _ _ _ _);
          try lia; try congruence; try exact Hrl3; try apply (D4 w1 eq_refl).
      + eapply Hrec; [| | |exact H]; [split; assumption|congruence|exact Hrl3]. }
  destruct (line_comment (rest s (pos t1))) as [m|] eqn:Em.
  { apply line_comment_le in Em. rewrite rest_len in Em.
    assert (Hrl2 : rlines lo (LComment CComment (start t1) (pos t1 + m) (sub s (S (pos t1)) (pos t1 + m)) L_hash :: stmts)
                     (pos t1 + m)).
    { simpl. repeat split; try lia.
      - exists (S (pos t1)). rewrite sub_slice, slice_length by lia. repeat split; try lia.
      - rewrite A0. exact Hrl1. }
    destruct (peek_is s (set_both t1 (pos t1 + m)) 10) eqn:Ep.
    - apply peek_is_lt in Ep. st_simpl.
      eapply Hrec; [| | |exact H]; [unfold sane; st_simpl; lia|st_simpl; congruence|].
      st_simpl. eapply rlines_cur; [exact Hrl2|lia].
    - eapply Hrec; [| | |exact H]; [unfold sane; st_simpl; lia|st_simpl; congruence|].
      st_simpl. exact Hrl2. }
  destruct (peek_at s (pos t1)); discriminate.
Qed.

(** * Block comments *)

Lemma block_comment_text : forall f t w0 cd rd t' tok,
  le_L s t ->
  block_comment s f t w0 cd rd = Ok (t', tok) ->
  exists w1 text,
    tok = MComment CBlock (mstart t) (pos t') w0 w1 text [] /\
    text = slice s (start t) (start t + length text) /\
    start t + length text + 2 <= pos t' /\
    slice s (pos t' - 2) (pos t') = [37; 125]%N.
Proof.
  induction f as [|f IH]; intros t w0 cd rd t' tok (H1 & H2) H; [discriminate|].
  cbn [block_comment] in H.
  destruct (find_first chunk_tail (rest s (pos t))) as [[k [[ce w1] m]]|] eqn:E; [|discriminate].
  apply find_first_spec in E as (Hk & Hc).
  pose proof (chunk_tail_len _ _ _ _ Hc) as Hm. pose proof (chunk_tail_last _ _ _ _ Hc) as Hlast.
  rewrite skipn_length, rest_len in Hm. rewrite rest_len in Hk.
  assert (Hrec : forall cd' rd',
            block_comment s f (set_pos t (pos t + k + m)) w0 cd' rd' = Ok (t', tok) ->
            exists w1 text,
              tok = MComment CBlock (mstart t) (pos t') w0 w1 text [] /\
              text = slice s (start t) (start t + length text) /\
              start t + length text + 2 <= pos t' /\
              slice s (pos t' - 2) (pos t') = [37; 125]%N).
  { intros cd' rd' Hc'. eapply IH in Hc'; [|unfold le_L; st_simpl; lia]. st_simpl. exact Hc'. }
  destruct ce; try (apply Hrec in H; exact H).
  destruct (negb (rd =? 0)); [apply Hrec in H; exact H|].
  destruct (cd =? 1); [|apply Hrec in H; exact H].
  injection H as <- <-. st_simpl.
  exists w1, (sub s (start t) (pos t + k)).
  rewrite sub_slice, slice_length by lia.
  replace (start t + (pos t + k - start t)) with (pos t + k) by lia.
  repeat split; try lia.
  rewrite skipn_skipn, firstn_skipn_rest in Hlast. etransitivity; [|exact Hlast]. f_equal; lia.
Qed.

(** * lex_markup: every token is well placed *)

Lemma lex_loop_text : forall f t acc toks,
  sane s t -> Forall (mtok_ok s) acc ->
  lex_loop shorthand s f t acc = Ok toks -> Forall (mtok_ok s) toks.
Proof.
  induction f as [|f IH]; intros t acc toks (S1 & S2) Hacc H; [discriminate|].
  cbn [lex_loop] in H. cbv zeta in H.
  destruct (match_markup (rest s (pos t))) as [m|] eqn:Em.
  2:{ destruct (pos t =? L); [|discriminate]. inversion H; subst. apply Forall_rev. exact Hacc. }
  pose proof (match_markup_len _ _ Em) as Hn. rewrite rest_len in Hn.
  pose proof (match_markup_inv _ _ Em) as Hinv.
  assert (Hrec : forall t' tok, sane s t' -> mtok_ok s tok ->
            lex_loop shorthand s f t' (tok :: acc) = Ok toks -> Forall (mtok_ok s) toks).
  { intros t' tok B1 B2 Hc. eapply IH; [exact B1| |exact Hc]. constructor; assumption. }
  destruct m as [w0 w1 w2 w3 toff tlen n|w0 n|w0 n|w0 noff nlen|h w0 w1 toff tlen n|w0 w1 toff tlen n|n];
    simpl in Hn.
  - (* raw *)
    apply match_raw_detail in Hinv as (F1 & F2 & F3 & F4 & F5).
    eapply Hrec; [| |exact H]; [unfold sane; st_simpl; lia|].
    simpl. rewrite S1. rewrite firstn_rest in F1. rewrite firstn_skipn_rest in F2.
    split; [exact F1|]. split; [etransitivity; [|exact F2]; f_equal; lia|].
    exists (pos t + toff). rewrite sub_slice, slice_length by lia.
    repeat split; try lia. f_equal. lia.
  - (* comment tag *)
    pose proof (match_comment_tag_len _ _ Hinv) as Hn'. simpl in Hn'.
    apply match_comment_tag_first in Hinv. rewrite firstn_rest in Hinv.
    apply bind_ok in H as ([t2 tok] & Hc & H).
    pose proof (rspec_inv s _ _ _ _ _ (block_comment_spec s f (set_both (set_mstart t (start t)) (pos t + n)) w0 1 0
                  ltac:(unfold le_L; st_simpl; lia)) Hc) as (C1 & C2 & C3 & C4 & C5).
    eapply block_comment_text in Hc; [|unfold le_L; st_simpl; lia]. st_simpl.
    destruct Hc as (w1 & text & -> & D1 & D2 & D3).
    eapply Hrec; [exact C1| |exact H].
    simpl. rewrite S1. split.
    + exists (pos t + n). repeat split; try lia. exact D1.
    + repeat split; [exact Hinv|exact D3].
  - (* output *)
    pose proof (match_output_len _ _ Hinv) as Hn'. simpl in Hn'.
    apply match_output_first in Hinv. rewrite firstn_rest in Hinv.
    apply bind_ok in H as ([[t2 w1] expr] & Hc & H).
    pose proof (rspec_inv s _ _ _ _ _ (expression_until_spec shorthand s f L_rbrace2
                  (set_in_range (set_both (set_mstart t (start t)) (pos t + n)) false)
                  ltac:(unfold sane; st_simpl; lia) ltac:(simpl; lia)) Hc) as (C1 & C2 & C3 & C4).
    st_simpl. simpl in C1.
    eapply (expression_until_text _ _ _ _ _ _ (Z.of_nat (pos t + 2))) in Hc;
      [|unfold sane; st_simpl; lia|st_simpl; lia].
    destruct Hc as (D1 & D2). simpl in D1, D2.
    eapply Hrec; [| |exact H]; [unfold sane; st_simpl; lia|].
    simpl. rewrite C3. st_simpl. rewrite S1. repeat split; assumption.
  - (* tag *)
    apply match_tag_first in Hinv as (Hfirst & Hoff). rewrite firstn_rest in Hfirst.
    destruct (str_eqb _ L_liquid).
    + apply bind_ok in H as ([t2 tok] & Hc & H).
      set (t1 := set_in_range (set_both (set_mstart t (start t)) (pos t + noff + nlen)) false) in *.
      assert (Hs1 : sane s t1) by (subst t1; unfold sane; st_simpl; lia).
      pose proof (rspec_inv s _ _ _ _ _ (liquid_tag_spec shorthand s f t1 w0 [] [] Hs1) Hc)
        as (C1 & C2 & C3 & C4 & C5).
      eapply (liquid_tag_text f t1 w0 [] [] (pos t + 2)) in Hc; [|exact Hs1|subst t1; simpl; st_simpl; lia].
      destruct Hc as (w1 & stmts & ws & D1 & D2 & D3). st_simpl. subst tok.
      eapply Hrec; [exact C1| |exact H].
      simpl. subst t1. st_simpl. rewrite S1. repeat split; assumption.
    + apply bind_ok in H as ([[t2 w1] expr] & Hc & H).
      pose proof (rspec_inv s _ _ _ _ _ (expression_until_spec shorthand s f L_pct_rbrace
                    (set_in_range (set_both (set_mstart t (start t)) (pos t + noff + nlen)) false)
                    ltac:(unfold sane; st_simpl; lia) ltac:(simpl; lia)) Hc) as (C1 & C2 & C3 & C4).
      st_simpl. simpl in C1.
      eapply (expression_until_text _ _ _ _ _ _ (Z.of_nat (pos t + noff + nlen))) in Hc;
        [|unfold sane; st_simpl; lia|st_simpl; lia].
      destruct Hc as (D1 & D2). simpl in D1, D2.
      eapply Hrec; [| |exact H]; [unfold sane; st_simpl; lia|].
      simpl. rewrite C3. st_simpl. rewrite S1. split; [exact Hfirst|]. split; [exact D1|].
      exists (pos t + noff). rewrite sub_slice, slice_length by lia.
      replace (pos t + noff + (pos t + noff + nlen - (pos t + noff))) with (pos t + noff + nlen) by lia.
      repeat split; try lia; assumption.
  - (* {# comment #} *)
    apply match_comment_detail in Hinv as (F0 & F1 & F2 & F3 & F4 & F5 & F6).
    eapply Hrec; [| |exact H]; [unfold sane; st_simpl; lia|].
    simpl. rewrite S1. rewrite repeat_length. rewrite firstn_rest in F1. rewrite firstn_skipn_rest in F2.
    split.
    + exists (pos t + toff). rewrite sub_slice, slice_length by lia. repeat split; try lia. f_equal. lia.
    + split; [lia|]. split; [reflexivity|]. split.
      * etransitivity; [|exact F1]. f_equal; lia.
      * etransitivity; [|exact F2]. f_equal; lia.
  - (* inline comment *)
    apply match_inline_detail in Hinv as (F1 & F2 & F3 & F4 & F5).
    eapply Hrec; [| |exact H]; [unfold sane; st_simpl; lia|].
    simpl. rewrite S1. rewrite firstn_rest in F1. rewrite firstn_skipn_rest in F2.
    split.
    + exists (pos t + toff). rewrite sub_slice, slice_length by lia. repeat split; try lia. f_equal. lia.
    + split; [reflexivity|]. split; [exact F1|]. etransitivity; [|exact F2]. f_equal; lia.
  - (* content *)
    eapply Hrec; [| |exact H]; [unfold sane; st_simpl; lia|]. simpl. rewrite S1. reflexivity.
Qed.

End Text.

(** Every markup token of every successfully scanned source is well placed. *)
Lemma tokens_ok sh s toks : lex sh s = Ok toks -> Forall (mtok_ok s) toks.
Proof.
  intros H. unfold lex, lex_fuel in H. eapply lex_loop_text; [| |exact H].
  - unfold sane; simpl; lia.
  - constructor.
Qed.


(** [chain] in words: every token lies in [lo, hi], is itself well placed, and
    starts at or after the stop of the one before it. *)
Lemma chain_bounds s lo l hi :
  chain s lo l hi ->
  Forall (fun e => (lo <= zstart e /\ zstart e <= etok_stop e /\ etok_stop e <= hi)%Z /\ tok_ok s e) l.
Proof.
  revert lo; induction l as [|e l IH]; intros lo H; inversion H as [|? ? ? ? A B C]; subst; constructor.
  - pose proof (tok_ok_span _ _ B). pose proof (chain_le _ _ _ _ C). repeat split; try assumption; lia.
  - eapply Forall_impl; [|apply IH; exact C]. simpl. intros x ((D & E & F) & G).
    pose proof (tok_ok_span _ _ B). repeat split; try assumption; lia.
Qed.

Lemma chain_adjacent s lo l hi i e1 e2 :
  chain s lo l hi -> nth_error l i = Some e1 -> nth_error l (S i) = Some e2 ->
  (etok_stop e1 <= zstart e2)%Z.
Proof.
  revert lo i; induction l as [|x l IH]; intros lo i H H1 H2; [destruct i; discriminate|].
  inversion H as [|? ? ? ? A B C]; subst. destruct i as [|i].
  - simpl in H1, H2. inversion H1; subst. destruct l; [discriminate|]. simpl in H2. inversion H2; subst.
    inversion C; subst. assumption.
  - simpl in H1, H2. eapply IH; eassumption.
Qed.

(** Non-vacuity: a source whose tokens exercise paths, a template string with
    a nested range, a liquid tag with a comment and a block comment. *)
Example tokens_ok_example :
  exists toks,
    lex false [123;123;32;97;46;98;91;99;93;32;124;32;102;58;32;34;120;36;123;40;49;46;46;110;41;125;34;32;125;125;
               123;37;32;108;105;113;117;105;100;10;35;32;99;10;101;99;104;111;32;49;32;37;125;
               123;37;32;99;111;109;109;101;110;116;32;37;125;122;123;37;32;101;110;100;99;111;109;109;101;110;116;32;37;125]%N
      = Ok toks /\ length toks = 3.
Proof. eexists. split; [vm_compute; reflexivity|reflexivity]. Qed.
