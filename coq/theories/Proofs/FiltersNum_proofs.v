(** Proofs/FiltersNum_proofs.v — laws of the arithmetic filters (C19). *)
From LQ Require Import Base.Str Kernels.FVal Kernels.FiltersNum.
From Coq Require Import Lia.
Local Open Scope Z_scope.

(** * Integers: exact, unbounded *)

Theorem int_arith a b :
  plus_f (FInt a) (FInt b) = Ok (FInt (a + b)) /\
  minus_f (FInt a) (FInt b) = Ok (FInt (a - b)) /\
  times_f (FInt a) (FInt b) = Ok (FInt (a * b)).
Proof. repeat split. Qed.

Theorem minus_undoes_plus a b :
  exists s, plus_f (FInt a) (FInt b) = Ok s /\ minus_f s (FInt b) = Ok (FInt a).
Proof.
  exists (FInt (a + b)). split; [reflexivity|].
  change (minus_f (FInt (a + b)) (FInt b)) with (@Ok fval (FInt (a + b - b))). do 2 f_equal. lia.
Qed.

Theorem plus_undoes_minus a b :
  exists s, minus_f (FInt a) (FInt b) = Ok s /\ plus_f s (FInt b) = Ok (FInt a).
Proof.
  exists (FInt (a - b)). split; [reflexivity|].
  change (plus_f (FInt (a - b)) (FInt b)) with (@Ok fval (FInt (a - b + b))). do 2 f_equal. lia.
Qed.

(** [divided_by] and [modulo] on integers are floor division: the quotient
    and remainder recompose the dividend, the remainder is smaller than the
    divisor in magnitude and has the divisor's sign. *)
Theorem division_law a b :
  b <> 0 ->
  exists q m,
    divided_by_f (FInt a) (FInt b) = Ok (FInt q) /\
    modulo_f (FInt a) (FInt b) = Ok (FInt m) /\
    a = q * b + m /\ Z.abs m < Z.abs b /\ (m = 0 \/ Z.sgn m = Z.sgn b) /\
    (exists p, times_f (FInt q) (FInt b) = Ok p /\ plus_f p (FInt m) = Ok (FInt a)).
Proof.
  intro Hb. exists (a / b), (a mod b).
  assert (E : (b =? 0) = false) by (apply Z.eqb_neq; exact Hb).
  unfold divided_by_f, modulo_f. simpl. rewrite E. simpl.
  split; [reflexivity|]. split; [reflexivity|].
  pose proof (Z.div_mod a b Hb) as D.
  split; [lia|].
  destruct (Z.lt_trichotomy b 0) as [Hn|[H0|Hp]]; [|contradiction|].
  - pose proof (Z.mod_neg_bound a b Hn) as B. split; [lia|]. split; [lia|].
    exists (FInt (a / b * b)). split; [reflexivity|].
    change (plus_f (FInt (a / b * b)) (FInt (a mod b))) with (@Ok fval (FInt (a / b * b + a mod b))).
    do 2 f_equal. lia.
  - pose proof (Z.mod_pos_bound a b Hp) as B. split; [lia|]. split; [lia|].
    exists (FInt (a / b * b)). split; [reflexivity|].
    change (plus_f (FInt (a / b * b)) (FInt (a mod b))) with (@Ok fval (FInt (a / b * b + a mod b))).
    do 2 f_equal. lia.
Qed.

Theorem division_by_zero a :
  divided_by_f (FInt a) (FInt 0) = LErr LiquidTypeError None /\
  modulo_f (FInt a) (FInt 0) = LErr LiquidTypeError None.
Proof. split; reflexivity. Qed.

Lemma q_ltb_int a b : q_ltb (a, 0%nat) (b, 0%nat) = (a <? b).
Proof. unfold q_ltb, p10. simpl. rewrite !Z.mul_1_r. reflexivity. Qed.

Theorem abs_min_max a b :
  abs_f (FInt a) = Ok (FInt (Z.abs a)) /\
  at_least_f (FInt a) (FInt b) = Ok (FInt (Z.max a b)) /\
  at_most_f (FInt a) (FInt b) = Ok (FInt (Z.min a b)).
Proof.
  split; [reflexivity|]. unfold at_least_f, at_most_f. simpl. rewrite !q_ltb_int. split.
  - destruct (a <? b) eqn:E; simpl; f_equal; f_equal;
      [apply Z.ltb_lt in E|apply Z.ltb_ge in E]; lia.
  - destruct (b <? a) eqn:E; simpl; f_equal; f_equal;
      [apply Z.ltb_lt in E|apply Z.ltb_ge in E]; lia.
Qed.

Theorem rounding_identity_on_ints a n :
  ceil_f (FInt a) = Ok (FInt a) /\ floor_f (FInt a) = Ok (FInt a) /\
  round_f (FInt a) None = Ok (FInt a) /\
  (0 < n -> round_f (FInt a) (Some (FInt n)) = Ok (FInt a)) /\
  round_f (FInt a) (Some (FInt 0)) = Ok (FInt a).
Proof.
  repeat split. intro Hn. unfold round_f. simpl.
  destruct (n <? 0) eqn:E1; [apply Z.ltb_lt in E1; lia|].
  destruct (n =? 0) eqn:E2; [apply Z.eqb_eq in E2; lia|]. reflexivity.
Qed.

(** Non-numeric operands count as 0 (the [default=0] of [num_arg]). *)
Theorem non_numeric_left_is_zero b :
  plus_f FNil (FInt b) = Ok (FInt b) /\ plus_f (FList []) (FInt b) = Ok (FInt b) /\
  plus_f (FDict []) (FInt b) = Ok (FInt b).
Proof. repeat split. Qed.

(** * Finite decimals: exact when the exact result fits the 28-digit context *)

Lemma dec_round_exact m e : ndigits m <= prec -> dec_round m e = (m, e).
Proof. intro H. unfold dec_round. apply Z.leb_le in H. rewrite H. reflexivity. Qed.

(** The exact sum at any common finer scale [k]. *)
Lemma dec_add_exact_value m1 e1 m2 e2 k :
  k <= e1 -> k <= e2 ->
  let (m, e) := dec_add_exact m1 e1 m2 e2 in
  k <= e /\ m * 10 ^ (e - k) = m1 * 10 ^ (e1 - k) + m2 * 10 ^ (e2 - k).
Proof.
  intros H1 H2. unfold dec_add_exact. set (e0 := Z.min e1 e2).
  assert (H0 : k <= e0) by (unfold e0; lia).
  split; [exact H0|].
  rewrite Z.mul_add_distr_r. rewrite <- !Z.mul_assoc. rewrite <- !Z.pow_add_r by (unfold e0; lia).
  replace (e1 - e0 + (e0 - k)) with (e1 - k) by lia.
  replace (e2 - e0 + (e0 - k)) with (e2 - k) by lia. reflexivity.
Qed.

Lemma dec_mul_exact_value m1 e1 m2 e2 k1 k2 :
  k1 <= e1 -> k2 <= e2 ->
  let (m, e) := dec_mul_exact m1 e1 m2 e2 in
  m * 10 ^ (e - (k1 + k2)) = (m1 * 10 ^ (e1 - k1)) * (m2 * 10 ^ (e2 - k2)).
Proof.
  intros H1 H2. unfold dec_mul_exact.
  replace (e1 + e2 - (k1 + k2)) with ((e1 - k1) + (e2 - k2)) by lia.
  rewrite Z.pow_add_r by lia. ring.
Qed.

(** [plus], [minus], [times] on float operands return the exact decimal result
    whenever it has at most 28 significant digits. *)
Theorem decimal_plus_exact m1 e1 m2 e2 :
  let (m, e) := dec_add_exact m1 e1 m2 e2 in
  ndigits m <= prec -> plus_f (FDec m1 e1) (FDec m2 e2) = Ok (FDec m e).
Proof.
  destruct (dec_add_exact m1 e1 m2 e2) as [m e] eqn:E. intro H.
  unfold plus_f, math_left, math_right, num_arg, bind, num_dec, dec_add, dec_result.
  rewrite E. rewrite dec_round_exact by exact H. reflexivity.
Qed.

Theorem decimal_minus_exact m1 e1 m2 e2 :
  let (m, e) := dec_add_exact m1 e1 (- m2) e2 in
  ndigits m <= prec -> minus_f (FDec m1 e1) (FDec m2 e2) = Ok (FDec m e).
Proof.
  destruct (dec_add_exact m1 e1 (- m2) e2) as [m e] eqn:E. intro H.
  unfold minus_f, math_left, math_right, num_arg, bind, num_dec, dec_sub, dec_add, dec_result.
  rewrite E. rewrite dec_round_exact by exact H. reflexivity.
Qed.

Theorem decimal_times_exact m1 e1 m2 e2 :
  ndigits (m1 * m2) <= prec ->
  times_f (FDec m1 e1) (FDec m2 e2) = Ok (FDec (m1 * m2) (e1 + e2)).
Proof.
  intro H. unfold times_f, math_left, math_right, num_arg, bind, num_dec, dec_mul, dec_mul_exact, dec_result.
  rewrite dec_round_exact by exact H. reflexivity.
Qed.

(** Mixed int / float operands go through the same decimal arithmetic. *)
Theorem decimal_plus_int_exact a m2 e2 :
  let (m, e) := dec_add_exact a 0 m2 e2 in
  ndigits m <= prec -> plus_f (FInt a) (FDec m2 e2) = Ok (FDec m e).
Proof.
  destruct (dec_add_exact a 0 m2 e2) as [m e] eqn:E. intro H.
  unfold plus_f, math_left, math_right, num_arg, bind, num_dec, dec_add, dec_result.
  rewrite E. rewrite dec_round_exact by exact H. reflexivity.
Qed.

(** Non-vacuity: 0.1 + 0.2 is exactly 0.3; 1e20 + 1e-20 needs 41 digits and is rounded. *)
Example plus_tenths : plus_f (FDec 1 (-1)) (FDec 2 (-1)) = Ok (FDec 3 (-1)).
Proof. vm_compute. reflexivity. Qed.
Example plus_rounds :
  plus_f (FDec 1 20) (FDec 1 (-20)) = Ok (FDec 1000000000000000000000000000 (-7)).
Proof. vm_compute. reflexivity. Qed.
Example division_law_negative :
  divided_by_f (FInt (-7)) (FInt 2) = Ok (FInt (-4)) /\ modulo_f (FInt (-7)) (FInt 2) = Ok (FInt 1)
  /\ modulo_f (FInt 7) (FInt (-2)) = Ok (FInt (-1)).
Proof. vm_compute. repeat split. Qed.

(** The float path of [modulo] (after the fix) also gives the remainder the
    sign of the divisor ... *)
Example modulo_float_sign :
  modulo_f (FDec (-70) (-1)) (FInt 2) = Ok (FDec 10 (-1)) /\
  modulo_f (FDec 75 (-1)) (FInt (-2)) = Ok (FDec (-5) (-1)).
Proof. vm_compute. repeat split. Qed.

(** [modulo] never lets a Python exception escape: a zero (or far too small)
    float divisor is a LiquidTypeError like an integer zero (fix of C02 in the
    [math_filter] wrapper).  [PyExc OtherPyError] is the model's marker for
    operands outside its domain (bool). *)
Lemma num_arg_outcomes v d :
  match num_arg v d with
  | Ok _ | LErr LiquidTypeError _ => True
  | PyExc k => k = OtherPyError
  | _ => False
  end.
Proof.
  destruct v; simpl; try exact I; try reflexivity; try (destruct d; exact I).
  destruct (parse_int s); [exact I|]. destruct (parse_float s) as [[m e]|]; [exact I|].
  destruct d; exact I.
Qed.

Theorem modulo_no_python_exception a b :
  match modulo_f a b with
  | Ok _ | LErr LiquidTypeError _ => True
  | PyExc k => k = OtherPyError
  | _ => False
  end.
Proof.
  unfold modulo_f, math_left, math_right.
  pose proof (num_arg_outcomes a (Some (NInt 0))) as Ha.
  destruct (num_arg a (Some (NInt 0))) as [l|c p|k|]; simpl; try exact Ha.
  pose proof (num_arg_outcomes b (Some (NInt 0))) as Hb.
  destruct (num_arg b (Some (NInt 0))) as [r|c p|k|]; simpl; try exact Hb.
  destruct l as [x|m1 e1], r as [y|m2 e2]; simpl.
  - destruct (y =? 0); exact I.
  - destruct (dec_rem x 0 m2 e2) as [[m e]| | |]; try exact I.
    destruct (negb (m =? 0) && negb (Bool.eqb (m <? 0) (m2 <? 0))); exact I.
  - destruct (dec_rem m1 e1 y 0) as [[m e]| | |]; try exact I.
    destruct (negb (m =? 0) && negb (Bool.eqb (m <? 0) (y <? 0))); exact I.
  - destruct (dec_rem m1 e1 m2 e2) as [[m e]| | |]; try exact I.
    destruct (negb (m =? 0) && negb (Bool.eqb (m <? 0) (m2 <? 0))); exact I.
Qed.

Example modulo_float_zero : modulo_f (FInt 1) (FDec 0 (-1)) = LErr LiquidTypeError None.
Proof. vm_compute. reflexivity. Qed.

(** * round (known finding round-half-even-ties)

    [round] of a float is Python's [round]: to the nearest integer, an exact
    half going to the EVEN neighbour.  Liquid's reference semantics send a half
    away from zero.  The two agree except at exact halves. *)

(** Half away from zero, of m * 10^e with e < 0. *)
Definition half_away (m e : Z) : Z :=
  let p := 10 ^ (- e) in Z.sgn m * ((2 * Z.abs m + p) / (2 * p)).

Lemma pow10_pos k : 0 <= k -> 0 < 10 ^ k.
Proof. intro H. apply Z.pow_pos_nonneg; lia. Qed.

(** The result is a nearest integer: it is within one half of the operand. *)
Theorem round_is_nearest m e :
  e < 0 -> let p := 10 ^ (- e) in 2 * Z.abs (m - dec_round_int m e * p) <= p.
Proof.
  intros He p. unfold dec_round_int. destruct (0 <=? e) eqn:E; [apply Z.leb_le in E; lia|].
  fold p. assert (Hp : 0 < p) by (apply pow10_pos; lia).
  pose proof (Z.div_mod m p ltac:(lia)) as D. pose proof (Z.mod_pos_bound m p Hp) as B.
  set (q := m / p) in *. set (r := m mod p) in *.
  destruct (2 * r <? p) eqn:L1; [apply Z.ltb_lt in L1; nia|apply Z.ltb_ge in L1].
  destruct (p <? 2 * r) eqn:L2; [apply Z.ltb_lt in L2; nia|apply Z.ltb_ge in L2].
  destruct (Z.even q); nia.
Qed.

(** Away from exact halves it is the half-away-from-zero rounding. *)
Theorem round_half_away_partial m e :
  e < 0 -> 2 * (m mod 10 ^ (- e)) <> 10 ^ (- e) -> dec_round_int m e = half_away m e.
Proof.
  intros He. unfold dec_round_int, half_away. destruct (0 <=? e) eqn:E; [apply Z.leb_le in E; lia|].
  set (p := 10 ^ (- e)). assert (Hp : 0 < p) by (apply pow10_pos; lia). intro T.
  destruct (Z.eq_dec m 0) as [Hz|Hnz].
  { subst m. rewrite Z.div_0_l, Z.mod_0_l by lia.
    change (2 * 0) with 0. change (Z.sgn 0) with 0. rewrite Z.mul_0_l.
    destruct (0 <? p) eqn:L; [reflexivity|apply Z.ltb_ge in L; lia]. }
  pose proof (Z.div_mod m p ltac:(lia)) as D. pose proof (Z.mod_pos_bound m p Hp) as B.
  set (q := m / p) in *. set (r := m mod p) in *.
  destruct (Z.lt_trichotomy m 0) as [Hn|[H0|Hpos]].
  - (* negative *)
    rewrite (Z.sgn_neg m Hn), (Z.abs_neq m) by lia.
    destruct (2 * r <? p) eqn:L1; [apply Z.ltb_lt in L1|apply Z.ltb_ge in L1].
    + (* result q: |m| = p(-q) - r *)
      assert (Q : (2 * - m + p) / (2 * p) = - q).
      { symmetry. apply (Z.div_unique_pos _ _ _ (p - 2 * r)); nia. }
      rewrite Q. lia.
    + destruct (p <? 2 * r) eqn:L2; [apply Z.ltb_lt in L2|apply Z.ltb_ge in L2; lia].
      assert (Q : (2 * - m + p) / (2 * p) = - q - 1).
      { symmetry. apply (Z.div_unique_pos _ _ _ (3 * p - 2 * r)); nia. }
      rewrite Q. lia.
  - contradiction.
  - rewrite (Z.sgn_pos m Hpos), (Z.abs_eq m) by lia.
    destruct (2 * r <? p) eqn:L1; [apply Z.ltb_lt in L1|apply Z.ltb_ge in L1].
    + assert (Q : (2 * m + p) / (2 * p) = q).
      { symmetry. apply (Z.div_unique_pos _ _ _ (2 * r + p)); nia. }
      rewrite Q. lia.
    + destruct (p <? 2 * r) eqn:L2; [apply Z.ltb_lt in L2|apply Z.ltb_ge in L2; lia].
      assert (Q : (2 * m + p) / (2 * p) = q + 1).
      { symmetry. apply (Z.div_unique_pos _ _ _ (2 * r - p)); nia. }
      rewrite Q. lia.
Qed.

(** At an exact half the filter goes to the even neighbour: 2.5 | round is 2,
    where half away from zero gives 3 (and -2.5 gives -2, 0.5 gives 0). *)
Theorem round_half_away_refuted :
  exists m e, e < 0 /\ round_f (FDec m e) None = Ok (FInt 2) /\ half_away m e = 3.
Proof. exists 25, (-1). vm_compute. repeat split. Qed.

Example round_ties :
  round_f (FDec (-25) (-1)) None = Ok (FInt (-2)) /\ round_f (FDec 5 (-1)) None = Ok (FInt 0) /\
  round_f (FDec 15 (-1)) None = Ok (FInt 2) /\ round_f (FDec 26 (-1)) None = Ok (FInt 3).
Proof. vm_compute. repeat split. Qed.

(** The shortcut of [round: -n] for a digit count above the bit length is the
    value the general rule gives: a power of ten more than twice |z| rounds z to 0. *)
Lemma round_to_mult_small z p : 0 < p -> 2 * Z.abs z < p -> round_to_mult z p p = 0.
Proof.
  intros Hp Hz. unfold round_to_mult.
  pose proof (Z.div_mod z p ltac:(lia)) as D. pose proof (Z.mod_pos_bound z p Hp) as B.
  set (q := z / p) in *. set (r := z mod p) in *.
  assert (Hq : q = 0 \/ q = -1) by nia.
  destruct Hq as [-> | ->].
  - destruct (2 * r <? p) eqn:L; [lia|apply Z.ltb_ge in L; lia].
  - destruct (2 * r <? p) eqn:L; [apply Z.ltb_lt in L; lia|].
    destruct (p <? 2 * r) eqn:L2; [lia|apply Z.ltb_ge in L2; lia].
Qed.

Lemma bit_length_bound z : Z.abs z < 2 ^ bit_length z.
Proof.
  unfold bit_length. destruct (z =? 0) eqn:E; [apply Z.eqb_eq in E; subst; simpl; lia|].
  apply Z.eqb_neq in E. apply Z.log2_spec. lia.
Qed.

Theorem round_huge_negative_digits z n :
  bit_length z < - n -> round_to_mult z (10 ^ (- n)) (10 ^ (- n)) = 0.
Proof.
  intro H. assert (Hb : 0 <= bit_length z).
  { unfold bit_length. destruct (z =? 0); [lia|]. pose proof (Z.log2_nonneg (Z.abs z)). lia. }
  apply round_to_mult_small; [apply Z.pow_pos_nonneg; lia|].
  pose proof (bit_length_bound z) as B.
  assert (2 ^ (bit_length z + 1) <= 2 ^ (- n)) by (apply Z.pow_le_mono_r; lia).
  assert (2 ^ (- n) <= 10 ^ (- n)) by (apply Z.pow_le_mono_l; lia).
  replace (bit_length z + 1) with (Z.succ (bit_length z)) in H0 by lia.
  rewrite Z.pow_succ_r in H0 by lia. lia.
Qed.
