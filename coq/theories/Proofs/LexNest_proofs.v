(** Proofs/LexNest_proofs.v — second layer: what the tokens contain.
    Expression tokens spell the source text of their span and are nested in
    order ([tok_ok], [chain]); the same for paths, template strings and
    ranges.  Statements are about successful ([Ok]) outcomes; positions come
    from the first layer (Proofs/Lex_proofs.v). *)
From LQ Require Import Base.Str Kernels.LexUni Kernels.Lex
  Proofs.LexMatch_proofs Proofs.Lex_proofs.

Local Open Scope Z_scope.

Ltac st_simpl :=
  cbn [pos start mstart lstart in_range set_pos set_start set_both set_mstart set_lstart
       set_in_range ignore fst snd mtok_start mtok_stop] in *.

(** * Generic facts about [chain], [segs_ok] and slices *)

Scheme tok_ok_mut := Induction for tok_ok Sort Prop
  with chain_mut := Induction for chain Sort Prop
  with segs_ok_mut := Induction for segs_ok Sort Prop.
Combined Scheme ok_mutind from tok_ok_mut, chain_mut, segs_ok_mut.

Lemma ok_spans s :
  (forall e, tok_ok s e -> zstart e <= etok_stop e) /\
  (forall lo l hi, chain s lo l hi -> lo <= hi) /\
  (forall lo l hi, segs_ok s lo l hi -> lo <= hi).
Proof.
  apply ok_mutind; intros; unfold zstart in *; simpl in *; try lia.
Qed.

Lemma tok_ok_span s e : tok_ok s e -> zstart e <= etok_stop e.
Proof. apply (proj1 (ok_spans s)). Qed.
Lemma chain_le s lo l hi : chain s lo l hi -> lo <= hi.
Proof. apply (proj1 (proj2 (ok_spans s))). Qed.
Lemma segs_le s lo l hi : segs_ok s lo l hi -> lo <= hi.
Proof. apply (proj2 (proj2 (ok_spans s))). Qed.

Lemma chain_lo s lo lo' l hi : chain s lo l hi -> lo' <= lo -> chain s lo' l hi.
Proof. intros H Hl. inversion H; subst; constructor; try assumption; lia. Qed.

Lemma chain_hi s lo l hi hi' : chain s lo l hi -> hi <= hi' -> chain s lo l hi'.
Proof.
  intros H Hh. revert lo H. induction l as [|e l IH]; intros lo H; inversion H; subst.
  - constructor. lia.
  - constructor; auto.
Qed.

Lemma chain_snoc s lo l hi e hi' :
  chain s lo l hi -> hi <= zstart e -> tok_ok s e -> etok_stop e <= hi' ->
  chain s lo (l ++ [e]) hi'.
Proof.
  revert lo. induction l as [|x l IH]; intros lo H Hs Hok Hh; inversion H; subst; simpl.
  - constructor; [lia|assumption|constructor; assumption].
  - constructor; auto.
Qed.

Lemma segs_hi s lo l hi hi' : segs_ok s lo l hi -> hi <= hi' -> segs_ok s lo l hi'.
Proof.
  intros H Hh. revert lo H. induction l as [|e l IH]; intros lo H; inversion H; subst.
  - constructor. lia.
  - constructor; auto.
  - constructor; auto.
  - constructor; auto.
Qed.

Lemma segs_snoc_flat s lo l hi e hi' :
  segs_ok s lo l hi -> hi <= hi' ->
  (exists z, e = ESegInt z) \/ (exists v, e = ESegStr v) ->
  segs_ok s lo (l ++ [e]) hi'.
Proof.
  revert lo. induction l as [|x l IH]; intros lo H Hh He; inversion H; subst; simpl.
  - destruct He as [(z & ->)|(v & ->)]; constructor; constructor; lia.
  - constructor; auto.
  - constructor; auto.
  - constructor; auto.
Qed.

Lemma segs_snoc_path s lo l hi l' a b hi' :
  segs_ok s lo l hi -> hi <= Z.of_nat a -> tok_ok s (EPath l' a b) -> b <= hi' ->
  segs_ok s lo (l ++ [EPath l' a b]) hi'.
Proof.
  revert lo. induction l as [|x l IH]; intros lo H Hs Hok Hh; inversion H; subst; simpl.
  - constructor; [lia|assumption|constructor; assumption].
  - constructor; auto.
  - constructor; auto.
  - constructor; auto.
Qed.

(** Tokens most-recent-first, as the scanner accumulates them. *)
Inductive rchain (s : str) : Z -> list etok -> Z -> Prop :=
| rc_nil lo hi : lo <= hi -> rchain s lo [] hi
| rc_cons lo hi e l :
    etok_stop e <= hi -> tok_ok s e -> rchain s lo l (zstart e) -> rchain s lo (e :: l) hi.

Lemma rchain_le s lo l hi : rchain s lo l hi -> lo <= hi.
Proof.
  induction 1; [assumption|]. pose proof (tok_ok_span _ _ H0). lia.
Qed.

Lemma rchain_hi s lo l hi hi' : rchain s lo l hi -> hi <= hi' -> rchain s lo l hi'.
Proof. intros H Hh. inversion H; subst; constructor; try assumption; lia. Qed.

Lemma rchain_chain s lo l hi :
  rchain s lo l hi -> forall tl hi', chain s hi tl hi' -> chain s lo (rev l ++ tl) hi'.
Proof.
  induction 1 as [lo hi Hl|lo hi e l Hs Hok Hr IH]; intros tl hi' Hc; simpl.
  - eapply chain_lo; eassumption.
  - rewrite <- app_assoc. simpl. apply IH.
    constructor; [lia|assumption|]. eapply chain_lo; eassumption.
Qed.

Lemma rchain_rev s lo l hi : rchain s lo l hi -> chain s lo (rev l) hi.
Proof.
  intros H. rewrite <- (app_nil_r (rev l)). eapply rchain_chain; [eassumption|].
  constructor. lia.
Qed.

Section Nest.

Variable shorthand : bool.
Variable s : str.
Notation L := (length s).

Lemma sub_length a b : (b <= L)%nat -> length (sub s a b) = (b - a)%nat.
Proof.
  intros H. unfold sub. rewrite firstn_length, skipn_length. lia.
Qed.

Lemma sub_tok_ok k a b : (a <= b)%nat -> (b <= L)%nat -> tok_ok s (ETok k (sub s a b) a).
Proof.
  intros H1 H2. constructor; rewrite sub_length by assumption.
  - unfold sub. reflexivity.
  - lia.
Qed.

Lemma sub_span k a b : (a <= b)%nat -> (b <= L)%nat -> etok_stop (ETok k (sub s a b) a) = Z.of_nat b.
Proof. intros H1 H2. simpl. rewrite sub_length by assumption. lia. Qed.


(** Extracting the successful case of a first-layer specification. *)
Lemma rspec_inv {A} b f (r : res A) (P : A -> Prop) x : rspec s b f r P -> r = Ok x -> P x.
Proof. intros H ->. exact H. Qed.

Lemma bind_ok {A B} (r : res A) (k : A -> res B) y :
  bind r k = Ok y -> exists x, r = Ok x /\ k x = Ok y.
Proof. destruct r; simpl; try discriminate. eauto. Qed.

(** * accept_path: nested paths are well placed *)

Definition pp_initial (p : ppath) : Prop := let '(l, _, z) := p in l = [] /\ z = -1.

(** A partial path while the scanner is at [cur]. *)
Definition pp_inv (p : ppath) (cur : Z) : Prop :=
  let '(l, a, z) := p in
  Z.of_nat a <= cur /\ z <= cur /\ ((l = [] /\ z = -1) \/ segs_ok s (Z.of_nat a) l z).

(** The paths below the current one, each waiting for a nested path that
    starts at or after [a]. *)
Fixpoint stack_inv (a : Z) (below : list ppath) : Prop :=
  match below with
  | [] => True
  | p :: rest => pp_inv p a /\ stack_inv (Z.of_nat (pp_start p)) rest
  end.

Lemma pp_inv_mono p cur cur' : pp_inv p cur -> cur <= cur' -> pp_inv p cur'.
Proof. destruct p as [[l a] z]. simpl. intros (A & B & C) H. repeat split; try lia; assumption. Qed.

Definition flat (e : etok) : Prop := (exists z, e = ESegInt z) \/ (exists v, e = ESegStr v).

Lemma pp_inv_push_stop p cur e c' :
  pp_inv p cur -> cur <= Z.of_nat c' -> flat e ->
  pp_inv (pp_stop (pp_push p e) c') (Z.of_nat c').
Proof.
  destruct p as [[l a] z]. simpl. intros (A & B & C) H He. repeat split; try lia. right.
  destruct C as [(-> & ->)|C].
  - simpl. destruct He as [(z0 & ->)|(v & ->)]; constructor; constructor; lia.
  - eapply segs_snoc_flat; [eassumption|lia|assumption].
Qed.

Lemma pp_inv_push_int p cur z0 :
  pp_inv p cur -> ~ pp_initial p -> pp_inv (pp_push p (ESegInt z0)) cur.
Proof.
  destruct p as [[l a] z]. simpl. intros (A & B & C) Hn. repeat split; try lia. right.
  destruct C as [C|C]; [contradiction|].
  eapply segs_snoc_flat; [eassumption|lia|left; eauto].
Qed.

Lemma pp_inv_push_path parent l a b c' :
  pp_inv parent (Z.of_nat a) -> tok_ok s (EPath l a b) -> b <= Z.of_nat c' ->
  pp_inv (pp_stop (pp_push parent (EPath l a b)) c') (Z.of_nat c').
Proof.
  destruct parent as [[pl pa] pz]. simpl. intros (A & B & C) Hok Hb.
  assert (Z.of_nat a <= b) by (inversion Hok; assumption).
  repeat split; try lia. right.
  destruct C as [(-> & ->)|C].
  - simpl. constructor; [lia|assumption|constructor; assumption].
  - eapply segs_snoc_path; eassumption.
Qed.

Lemma pp_close_ok p cur :
  pp_inv p cur -> ~ pp_initial p ->
  tok_ok s (pp_close p) /\ etok_stop (pp_close p) <= cur /\ etok_start (pp_close p) = pp_start p.
Proof.
  destruct p as [[l a] z]. simpl. intros (A & B & C) Hn.
  destruct C as [C|C]; [contradiction|]. split; [|split; [assumption|reflexivity]].
  constructor; [eapply segs_le; eassumption|assumption].
Qed.

Lemma last_start (below : list ppath) top top' :
  pp_start top' = pp_start top -> pp_start (last below top') = pp_start (last below top).
Proof.
  intros H. induction below as [|p [|q r] IH]; simpl in *; auto.
Qed.

Lemma last_cons {A} (p : A) l d : last (p :: l) d = last l p.
Proof.
  revert p d; induction l as [|q l IH]; intros p d; [reflexivity|].
  change (last (q :: l) d = last (q :: l) p). rewrite (IH q d), (IH q p). reflexivity.
Qed.

Lemma path_loop_nest : forall f t top below t' tok,
  sane s t -> pp_inv top (Z.of_nat (pos t)) ->
  (pp_initial top -> peek_at s (pos t) = Some 91%N) ->
  stack_inv (Z.of_nat (pp_start top)) below ->
  path_loop shorthand s f t top below = Ok (t', tok) ->
  tok_ok s tok /\ etok_stop tok <= Z.of_nat (pos t') /\ etok_start tok = pp_start (last below top).
Proof.
  induction f as [|f IH]; intros t top below t' tok Hs Htop Hinit Hstk H; [discriminate|].
  destruct Hs as (S1 & S2). cbn [path_loop] in H.
  destruct (peek_at s (pos t)) as [c|] eqn:Ep; [|discriminate].
  pose proof (peek_some s _ _ Ep) as Hlt.
  assert (Hexit : c <> 91%N -> forall t2, backup (set_pos t (S (pos t))) = Ok t2 ->
            match below with [] => Ok (t2, pp_close top) | _ :: _ => syn (pos t2) end = Ok (t', tok) ->
            tok_ok s tok /\ etok_stop tok <= Z.of_nat (pos t') /\ etok_start tok = pp_start (last below top)).
  { intros Hc t2 Hb Hr. destruct below; [|discriminate]. inversion Hr; subst t' tok. clear Hr.
    assert (Hn : ~ pp_initial top).
    { intros Hi. apply Hinit in Hi. congruence. }
    pose proof (rspec_inv _ _ _ _ _ (backup_spec s (set_pos t (S (pos t))) 0 0) Hb) as (-> & _).
    destruct (pp_close_ok top _ Htop Hn) as (A & B & C). st_simpl. simpl. repeat split; try assumption; lia. }
  destruct (N.eqb c 46) eqn:E46.
  { apply N.eqb_eq in E46.
    assert (Hn : ~ pp_initial top) by (intros Hi; apply Hinit in Hi; congruence).
    destruct (peek_is s (set_pos t (S (pos t))) 46).
    { apply bind_ok in H as (t2 & Hb & Hr). eapply Hexit; [congruence|eassumption|eassumption]. }
    apply bind_ok in H as (t3 & Hw & H).
    pose proof (rspec_inv _ _ _ _ _ (ignore_ws_spec s (ignore (set_pos t (S (pos t)))) 0 0
                  ltac:(unfold sane; st_simpl; lia)) Hw) as ((A0 & A1) & A2 & A3 & A4). st_simpl.
    pose proof (word_len_le (rest s (pos t3))) as Hw1. pose proof (index_len_le (rest s (pos t3))) as Hi1.
    rewrite rest_len in Hw1, Hi1.
    destruct (negb (word_len (rest s (pos t3)) =? 0)%nat).
    { eapply IH in H; [| unfold sane; st_simpl; lia | | | ].
      - destruct H as (B1 & B2 & B3). repeat split; try assumption.
        rewrite B3. apply last_start. rewrite pp_start_stop, pp_start_push. reflexivity.
      - st_simpl. eapply pp_inv_push_stop; [eassumption|lia|right; eauto].
      - intros Hi. exfalso. destruct top as [[l a] z]. simpl in Hi. destruct Hi as (Hi & _).
        destruct l; discriminate.
      - rewrite pp_start_stop, pp_start_push. assumption. }
    destruct shorthand; [|discriminate].
    destruct (negb (index_len (rest s (pos t3)) =? 0)%nat); [|discriminate].
    destruct (index_too_long _ _); [discriminate|].
    eapply IH in H; [| unfold sane; st_simpl; lia | | | ].
    - destruct H as (B1 & B2 & B3). repeat split; try assumption.
      rewrite B3. apply last_start. rewrite pp_start_stop, pp_start_push. reflexivity.
    - st_simpl. eapply pp_inv_push_stop; [eassumption|lia|left; eauto].
    - intros Hi. exfalso. destruct top as [[l a] z]. simpl in Hi. destruct Hi as (Hi & _).
      destruct l; discriminate.
    - rewrite pp_start_stop, pp_start_push. assumption. }
  destruct (N.eqb c 93) eqn:E93.
  { apply N.eqb_eq in E93.
    assert (Hn : ~ pp_initial top) by (intros Hi; apply Hinit in Hi; congruence).
    destruct below as [|parent below'].
    { apply bind_ok in H as (t2 & _ & H). discriminate. }
    destruct top as [[l a] z]. destruct Hstk as (Hp & Hstk'). st_simpl. simpl in Hp, Hstk', Htop.
    destruct Htop as (T1 & T2 & T3). destruct T3 as [T3|T3]; [exfalso; apply Hn; exact T3|].
    assert (Hin : tok_ok s (EPath l a (Z.of_nat (start t)))).
    { constructor; [lia|]. eapply segs_hi; [eassumption|lia]. }
    eapply IH in H; [| unfold sane; st_simpl; lia | | | ].
    - destruct H as (B1 & B2 & B3). repeat split; try assumption.
      rewrite B3, last_cons. apply last_start. rewrite pp_start_stop, pp_start_push. reflexivity.
    - st_simpl. replace (Z.of_nat (S (pos t))) with (Z.of_nat (S (pos t))) by reflexivity.
      eapply pp_inv_push_path; [exact Hp|exact Hin|lia].
    - intros Hi. exfalso. destruct parent as [[pl pa] pz]. simpl in Hi. destruct Hi as (Hi & _).
      destruct pl; discriminate.
    - rewrite pp_start_stop, pp_start_push. assumption. }
  destruct (N.eqb c 91) eqn:E91.
  2:{ apply N.eqb_neq in E91. apply bind_ok in H as (t2 & Hb & Hr). eapply Hexit; eassumption. }
  (* opening bracket *)
  apply bind_ok in H as (t3 & Hw & H).
  pose proof (rspec_inv _ _ _ _ _ (ignore_ws_spec s (ignore (set_pos t (S (pos t)))) 0 0
                ltac:(unfold sane; st_simpl; lia)) Hw) as ((A0 & A1) & A2 & A3 & A4). st_simpl.
  destruct (peek_at s (pos t3)) as [q|] eqn:Eq; [|discriminate].
  pose proof (peek_some s _ _ Eq) as Hq.
  pose proof (word_len_le (rest s (pos t3))) as Hw1. pose proof (index_len_le (rest s (pos t3))) as Hi1.
  rewrite rest_len in Hw1, Hi1.
  destruct (N.eqb q 39 || N.eqb q 34)%bool.
  { st_simpl. apply bind_ok in H as (p & Hsc & H).
    pose proof (scan_string_spec q (rest s (S (pos t3))) (S (pos t3)) (S (pos t3)) L) as Hsc'.
    rewrite rest_len in Hsc'. specialize (Hsc' ltac:(lia) ltac:(lia)). rewrite Hsc in Hsc'.
    destruct Hsc' as (P1 & P2).
    apply bind_ok in H as (t6 & Hw6 & H).
    pose proof (rspec_inv _ _ _ _ _ (ignore_ws_spec s (set_both (set_both t3 (S (pos t3))) (S p)) 0 0
                  ltac:(unfold sane; st_simpl; lia)) Hw6)
      as ((B0 & B1) & B2 & B3 & B4). st_simpl.
    apply bind_ok in H as (t7 & Hr7 & H).
    pose proof (rspec_inv _ _ _ _ _ (expect_rbracket_spec s t6 0 0 ltac:(unfold sane; lia)) Hr7)
      as (((C0 & C1) & C2 & C3 & C4) & C5).
    eapply IH in H; [| unfold sane; lia | | | ].
    - destruct H as (D1 & D2 & D3). repeat split; try assumption.
      rewrite D3. apply last_start. rewrite pp_start_stop, pp_start_push. reflexivity.
    - rewrite C0. eapply pp_inv_push_stop; [eassumption|lia|right; eauto].
    - intros Hi. exfalso. destruct top as [[l a] z]. simpl in Hi. destruct Hi as (Hi & _).
      destruct l; discriminate.
    - rewrite pp_start_stop, pp_start_push. assumption. }
  destruct (negb (index_len (rest s (pos t3)) =? 0)%nat).
  { destruct (index_too_long _ _); [discriminate|].
    apply bind_ok in H as (t5 & Hw5 & H).
    pose proof (rspec_inv _ _ _ _ _ (ignore_ws_spec s (set_both t3 (pos t3 + index_len (rest s (pos t3)))%nat) 0 0
                  ltac:(unfold sane; st_simpl; lia)) Hw5)
      as ((B0 & B1) & B2 & B3 & B4). st_simpl.
    apply bind_ok in H as (t6 & Hr6 & H).
    pose proof (rspec_inv _ _ _ _ _ (expect_rbracket_spec s t5 0 0 ltac:(unfold sane; lia)) Hr6)
      as (((C0 & C1) & C2 & C3 & C4) & C5).
    eapply IH in H; [| unfold sane; lia | | | ].
    - destruct H as (D1 & D2 & D3). repeat split; try assumption.
      rewrite D3. apply last_start. rewrite pp_start_stop, pp_start_push. reflexivity.
    - rewrite C0. eapply pp_inv_push_stop; [eassumption|lia|left; eauto].
    - intros Hi. exfalso. destruct top as [[l a] z]. simpl in Hi. destruct Hi as (Hi & _).
      destruct l; discriminate.
    - rewrite pp_start_stop, pp_start_push. assumption. }
  destruct (negb (word_len (rest s (pos t3)) =? 0)%nat); [|discriminate].
  eapply IH in H; [| unfold sane; st_simpl; lia | | | ].
  - destruct H as (D1 & D2 & D3). repeat split; try assumption.
    rewrite D3, last_cons. reflexivity.
  - st_simpl. simpl. repeat split; try lia. right. constructor. constructor. lia.
  - simpl. intros (Hi & _). discriminate.
  - simpl. split; [|assumption]. eapply pp_inv_mono; [eassumption|lia].
Qed.

Lemma accept_path_nest f t carry t' tok :
  le_L s t -> (carry = false -> sane s t /\ peek_at s (pos t) = Some 91%N) ->
  accept_path shorthand s f t carry = Ok (t', tok) ->
  tok_ok s tok /\ etok_stop tok <= Z.of_nat (pos t') /\ etok_start tok = start t.
Proof.
  intros (A & B) Hc H. unfold accept_path in H. destruct carry.
  - eapply path_loop_nest in H; [exact H| unfold sane; st_simpl; lia | | | exact I].
    + st_simpl. simpl. repeat split; try lia. right. constructor. constructor. lia.
    + simpl. intros (Hi & _). discriminate.
  - destruct (Hc eq_refl) as ((C & D) & E).
    eapply path_loop_nest in H; [exact H| split; assumption | | | exact I].
    + simpl. repeat split; try lia. left. auto.
    + intros _. exact E.
Qed.

(** * A path token stops exactly where the scanner stopped scanning it
    (with fix C17/0005: also after a trailing shorthand index). *)

Definition pp_z (p : ppath) : Z := let '(_, _, z) := p in z.

Lemma pp_z_stop p n : pp_z (pp_stop p n) = Z.of_nat n.
Proof. destruct p as [[l a] z]. reflexivity. Qed.
Lemma etok_stop_close p : etok_stop (pp_close p) = pp_z p.
Proof. destruct p as [[l a] z]. reflexivity. Qed.

Lemma path_loop_stop_exact : forall f t top below t' tok,
  sane s t ->
  (pp_z top = Z.of_nat (pos t) \/ peek_at s (pos t) = Some 91%N) ->
  path_loop shorthand s f t top below = Ok (t', tok) ->
  etok_stop tok = Z.of_nat (pos t').
Proof.
  induction f as [|f IH]; intros t top below t' tok Hs Hz H; [discriminate|].
  destruct Hs as (S1 & S2). cbn [path_loop] in H.
  destruct (peek_at s (pos t)) as [c|] eqn:Ep; [|discriminate].
  pose proof (peek_some s _ _ Ep) as Hlt.
  assert (Hrec : forall t2 top2 below2, sane s t2 -> pp_z top2 = Z.of_nat (pos t2) ->
            path_loop shorthand s f t2 top2 below2 = Ok (t', tok) -> etok_stop tok = Z.of_nat (pos t')).
  { intros t2 top2 below2 A B C. eapply IH; [exact A|left; exact B|exact C]. }
  assert (Hexit : c <> 91%N -> forall t2, backup (set_pos t (S (pos t))) = Ok t2 ->
            match below with [] => Ok (t2, pp_close top) | _ :: _ => syn (pos t2) end = Ok (t', tok) ->
            etok_stop tok = Z.of_nat (pos t')).
  { intros Hc t2 Hb Hr. destruct below; [|discriminate]. inversion Hr; subst t' tok. clear Hr.
    pose proof (rspec_inv _ _ _ _ _ (backup_spec s (set_pos t (S (pos t))) 0 0) Hb) as (-> & _).
    rewrite etok_stop_close. st_simpl. destruct Hz as [Hz|Hz]; [rewrite Hz; f_equal; lia|congruence]. }
  destruct (N.eqb c 46) eqn:E46.
  { apply N.eqb_eq in E46.
    destruct (peek_is s (set_pos t (S (pos t))) 46).
    { apply bind_ok in H as (t2 & Hb & Hr). eapply Hexit; [congruence|eassumption|eassumption]. }
    apply bind_ok in H as (t3 & Hw & H).
    pose proof (rspec_inv _ _ _ _ _ (ignore_ws_spec s (ignore (set_pos t (S (pos t)))) 0 0
                  ltac:(unfold sane; st_simpl; lia)) Hw) as ((A0 & A1) & A2 & A3 & A4). st_simpl.
    pose proof (word_len_le (rest s (pos t3))) as Hw1. pose proof (index_len_le (rest s (pos t3))) as Hi1.
    rewrite rest_len in Hw1, Hi1.
    destruct (negb (word_len (rest s (pos t3)) =? 0)%nat).
    { eapply Hrec in H; [exact H|unfold sane; st_simpl; lia|st_simpl; apply pp_z_stop]. }
    destruct shorthand; [|discriminate].
    destruct (negb (index_len (rest s (pos t3)) =? 0)%nat); [|discriminate].
    destruct (index_too_long _ _); [discriminate|].
    eapply Hrec in H; [exact H|unfold sane; st_simpl; lia|st_simpl; apply pp_z_stop]. }
  destruct (N.eqb c 93) eqn:E93.
  { destruct below as [|parent below'].
    { apply bind_ok in H as (t2 & _ & H). discriminate. }
    destruct top as [[l a] z].
    eapply Hrec in H; [exact H|unfold sane; st_simpl; lia|st_simpl; apply pp_z_stop]. }
  destruct (N.eqb c 91) eqn:E91.
  2:{ apply N.eqb_neq in E91. apply bind_ok in H as (t2 & Hb & Hr). eapply Hexit; eassumption. }
  apply bind_ok in H as (t3 & Hw & H).
  pose proof (rspec_inv _ _ _ _ _ (ignore_ws_spec s (ignore (set_pos t (S (pos t)))) 0 0
                ltac:(unfold sane; st_simpl; lia)) Hw) as ((A0 & A1) & A2 & A3 & A4). st_simpl.
  destruct (peek_at s (pos t3)) as [q|] eqn:Eq; [|discriminate].
  pose proof (peek_some s _ _ Eq) as Hq.
  pose proof (word_len_le (rest s (pos t3))) as Hw1. pose proof (index_len_le (rest s (pos t3))) as Hi1.
  rewrite rest_len in Hw1, Hi1.
  destruct (N.eqb q 39 || N.eqb q 34)%bool.
  { st_simpl. apply bind_ok in H as (p & Hsc & H).
    pose proof (scan_string_spec q (rest s (S (pos t3))) (S (pos t3)) (S (pos t3)) L) as Hsc'.
    rewrite rest_len in Hsc'. specialize (Hsc' ltac:(lia) ltac:(lia)). rewrite Hsc in Hsc'.
    destruct Hsc' as (P1 & P2).
    apply bind_ok in H as (t6 & Hw6 & H).
    pose proof (rspec_inv _ _ _ _ _ (ignore_ws_spec s (set_both (set_both t3 (S (pos t3))) (S p)) 0 0
                  ltac:(unfold sane; st_simpl; lia)) Hw6)
      as ((B0 & B1) & B2 & B3 & B4). st_simpl.
    apply bind_ok in H as (t7 & Hr7 & H).
    pose proof (rspec_inv _ _ _ _ _ (expect_rbracket_spec s t6 0 0 ltac:(unfold sane; lia)) Hr7)
      as (((C0 & C1) & C2 & C3 & C4) & C5).
    eapply Hrec in H; [exact H|unfold sane; lia|rewrite pp_z_stop, C0; reflexivity]. }
  destruct (negb (index_len (rest s (pos t3)) =? 0)%nat).
  { destruct (index_too_long _ _); [discriminate|].
    apply bind_ok in H as (t5 & Hw5 & H).
    pose proof (rspec_inv _ _ _ _ _ (ignore_ws_spec s (set_both t3 (pos t3 + index_len (rest s (pos t3)))%nat) 0 0
                  ltac:(unfold sane; st_simpl; lia)) Hw5)
      as ((B0 & B1) & B2 & B3 & B4). st_simpl.
    apply bind_ok in H as (t6 & Hr6 & H).
    pose proof (rspec_inv _ _ _ _ _ (expect_rbracket_spec s t5 0 0 ltac:(unfold sane; lia)) Hr6)
      as (((C0 & C1) & C2 & C3 & C4) & C5).
    eapply Hrec in H; [exact H|unfold sane; lia|rewrite pp_z_stop, C0; reflexivity]. }
  destruct (negb (word_len (rest s (pos t3)) =? 0)%nat); [|discriminate].
  eapply Hrec in H; [exact H|unfold sane; st_simpl; lia|st_simpl; reflexivity].
Qed.

Lemma accept_path_span_exact f t carry t' tok :
  le_L s t -> (carry = false -> sane s t /\ peek_at s (pos t) = Some 91%N) ->
  accept_path shorthand s f t carry = Ok (t', tok) ->
  etok_start tok = start t /\ etok_stop tok = Z.of_nat (pos t').
Proof.
  intros Hl Hc H. split.
  - eapply accept_path_nest in H; [apply H|exact Hl|exact Hc].
  - destruct Hl as (A & B). unfold accept_path in H. destruct carry.
    + eapply path_loop_stop_exact in H; [exact H|unfold sane; st_simpl; lia|left; st_simpl; reflexivity].
    + destruct (Hc eq_refl) as (Hs & E).
      eapply path_loop_stop_exact in H; [exact H|exact Hs|right; exact E].
Qed.

(** * Expression tokens: in order, each well placed *)

Definition zpos (t : st) : Z := Z.of_nat (pos t).

Lemma accept_range_nest lo v i l hi r' :
  rchain s lo (ETok KRParen v i :: l) hi -> Z.of_nat i + 1 <= hi ->
  accept_range (ETok KRParen v i :: l) = Ok r' -> rchain s lo r' hi.
Proof.
  intros Hr Hi H. unfold accept_range in H.
  destruct l as [|rs [|dd [|ra [|lp tl]]]]; try discriminate.
  cbn [is_kind negb] in H.
  repeat match type of H with (if ?c then _ else _) = _ => destruct c; try discriminate end.
  inversion H; subst r'. clear H.
  inversion Hr as [|? ? ? ? P1 P2 P3]; subst.
  inversion P3 as [|? ? ? ? Q1 Q2 Q3]; subst.
  inversion Q3 as [|? ? ? ? R1 R2 R3]; subst.
  inversion R3 as [|? ? ? ? S1 S2 S3]; subst.
  inversion S3 as [|? ? ? ? T1 T2 T3]; subst.
  pose proof (tok_ok_span _ _ Q2). pose proof (tok_ok_span _ _ R2).
  pose proof (tok_ok_span _ _ S2). pose proof (tok_ok_span _ _ T2).
  unfold zstart in *. simpl in Q1.
  constructor.
  - simpl. lia.
  - constructor. constructor; [unfold zstart; lia|assumption|].
    constructor; [unfold zstart; lia|assumption|]. constructor. lia.
  - exact T3.
Qed.

Lemma flush_chain dq t parts tstart :
  chain s (Z.of_nat tstart) parts (Z.of_nat (start t)) ->
  (start t <= pos t - 1)%nat -> (pos t - 1 <= L)%nat ->
  chain s (Z.of_nat tstart) (flush_string s dq t parts) (Z.of_nat (pos t - 1)).
Proof.
  intros Hc H1 H2. unfold flush_string. destruct (start t <? pos t - 1)%nat eqn:E.
  - eapply chain_snoc; [eassumption|unfold zstart; simpl; lia|apply sub_tok_ok; lia|].
    rewrite sub_span by lia. lia.
  - apply Nat.ltb_ge in E. eapply chain_hi; [eassumption|lia].
Qed.

Lemma rchain_SO lo l hi : rchain s lo l hi -> hi <= Z.of_nat L -> SO s l.
Proof.
  induction 1 as [|lo hi e l Hs Hok Hr IH]; intros Hh; constructor.
  - pose proof (tok_ok_span _ _ Hok). unfold zstart in *. lia.
  - apply IH. pose proof (tok_ok_span _ _ Hok). lia.
Qed.

Definition N_tok (f : nat) : Prop := forall t rexpr lo t' rexpr',
  sane s t -> rchain s lo rexpr (zpos t) ->
  accept_token shorthand s f t rexpr = Ok (Some (t', rexpr')) -> rchain s lo rexpr' (zpos t').
Definition N_tstr (f : nat) : Prop := forall t dq rexpr lo t' rexpr',
  sane s t -> rchain s lo rexpr (zpos t) ->
  template_string shorthand s f t dq rexpr = Ok (t', rexpr') -> rchain s lo rexpr' (zpos t').
Definition N_ts (f : nat) : Prop := forall t dq tstart parts rexpr lo t' rexpr',
  le_L s t -> (tstart <= start t)%nat ->
  rchain s lo rexpr (Z.of_nat tstart) ->
  chain s (Z.of_nat tstart) parts (Z.of_nat (start t)) ->
  ts_loop shorthand s f t dq tstart parts rexpr = Ok (t', rexpr') -> rchain s lo rexpr' (zpos t').
Definition N_sub (f : nat) : Prop := forall t rexpr lo t' rexpr',
  sane s t -> rchain s lo rexpr (zpos t) ->
  sub_loop shorthand s f t rexpr = Ok (t', rexpr') -> rchain s lo rexpr' (zpos t').

Lemma expr_nest : forall f, N_tok f /\ N_tstr f /\ N_ts f /\ N_sub f.
Proof.
  induction f as [|f (Ntok & Ntstr & Nts & Nsub)].
  { repeat split; intros ?; intros; discriminate. }
  destruct (expr_specs shorthand s f) as (Ptok & Ptstr & Pts & Psub).
  repeat split.
  - (* accept_token *)
    intros t rexpr lo t' rexpr' (S1 & S2) Hr H. cbn [accept_token] in H. unfold zpos in *.
    destruct (match_token (rest s (pos t))) as [[k n]|] eqn:Em; [|discriminate].
    pose proof (match_token_len _ _ _ Em) as Hn. rewrite rest_len in Hn.
    assert (Hplain : forall kd, rchain s lo (ETok kd (sub s (pos t) (pos t + n)) (pos t) :: rexpr)
                                  (Z.of_nat (pos t + n))).
    { intros kd. constructor; [rewrite sub_span by lia; lia|apply sub_tok_ok; lia|exact Hr]. }
    destruct k.
    + (* numbers and symbols *)
      cbv zeta in H. st_simpl. rewrite S1 in H.
      destruct k; try (inversion H; subst t' rexpr'; st_simpl; apply Hplain).
      destruct (in_range _).
      * apply bind_ok in H as (r2 & Hacc & H). inversion H; subst t' rexpr'. st_simpl.
        eapply accept_range_nest; [apply Hplain|lia|exact Hacc].
      * inversion H; subst t' rexpr'. st_simpl. apply Hplain.
    + apply bind_ok in H as ([t2 r2] & Hts & H). inversion H; subst t' rexpr'.
      eapply Ntstr; [| |exact Hts].
      * unfold sane; st_simpl; lia.
      * unfold zpos; st_simpl. eapply rchain_hi; [eassumption|lia].
    + apply bind_ok in H as ([t2 r2] & Hts & H). inversion H; subst t' rexpr'.
      eapply Ntstr; [| |exact Hts].
      * unfold sane; st_simpl; lia.
      * unfold zpos; st_simpl. eapply rchain_hi; [eassumption|lia].
    + (* opening bracket *)
      destruct (match_token_lbracket _ _ Em) as (Hhd & ->).
      apply bind_ok in H as (t2 & Hb & H).
      pose proof (rspec_inv _ _ _ _ _ (backup_spec s (set_pos t (pos t + 1)%nat) 0 0) Hb) as (-> & _).
      apply bind_ok in H as ([t3 tok] & Hp & H). inversion H; subst t' rexpr'. st_simpl.
      eapply accept_path_nest in Hp.
      * destruct Hp as (A & B & C). st_simpl. constructor; [exact B|exact A|].
        unfold zstart. rewrite C, S1. exact Hr.
      * unfold le_L; st_simpl; lia.
      * intros _. st_simpl. split; [unfold sane; st_simpl; lia|].
        replace (pos t + 1 - 1)%nat with (pos t) by lia. rewrite peek_rest. exact Hhd.
    + (* word *)
      destruct (peek_is s (set_pos t (pos t + n)%nat) 46 || peek_is s (set_pos t (pos t + n)%nat) 91)%bool.
      * apply bind_ok in H as ([t3 tok] & Hp & H). inversion H; subst t' rexpr'. st_simpl.
        eapply accept_path_nest in Hp.
        -- destruct Hp as (A & B & C). st_simpl. constructor; [exact B|exact A|].
           unfold zstart. rewrite C, S1. exact Hr.
        -- unfold le_L; st_simpl; lia.
        -- discriminate.
      * inversion H; subst t' rexpr'. st_simpl. rewrite S1. apply Hplain.
  - (* template_string *)
    intros t dq rexpr lo t' rexpr' (S1 & S2) Hr H. cbn [template_string] in H. unfold zpos in *.
    destruct (peek_is s t (if dq then 34%N else 39%N)) eqn:Ep.
    + apply peek_is_lt in Ep. inversion H; subst t' rexpr'. st_simpl.
      constructor.
      * simpl. lia.
      * constructor; simpl; [reflexivity|lia].
      * unfold zstart. simpl. rewrite S1. exact Hr.
    + eapply Nts; [| | | |exact H].
      * unfold le_L; lia.
      * lia.
      * rewrite S1. exact Hr.
      * constructor. lia.
  - (* ts_loop *)
    intros t dq tstart parts rexpr lo t' rexpr' (S1 & S2) Hts0 Hr Hc H. cbn [ts_loop] in H. unfold zpos in *.
    destruct (peek_at s (pos t)) as [c|] eqn:Ep; [|discriminate].
    pose proof (peek_some s _ _ Ep) as Hlt.
    destruct (N.eqb c 92).
    { destruct (peek_at s (pos (set_pos t (S (pos t))))) as [d|] eqn:Ed; st_simpl; [|discriminate].
      apply peek_some in Ed.
      destruct (is_escape d || N.eqb d (if dq then 34%N else 39%N))%bool; [|discriminate].
      eapply Nts; [| | | |exact H]; unfold le_L; st_simpl; try lia; assumption. }
    destruct (N.eqb c 36 && peek_is s (set_pos t (S (pos t))) 123)%bool eqn:Ed.
    { apply andb_true_iff in Ed as (_ & Ed). apply peek_is_lt in Ed. st_simpl.
      apply bind_ok in H as ([t3 sub0] & Hsub & H).
      set (t2 := set_both (set_pos t (S (pos t))) (S (S (pos t)))) in *.
      assert (Hs2 : sane s t2) by (subst t2; unfold sane; st_simpl; lia).
      pose proof (rspec_inv _ _ _ _ _ (Psub t2 [] Hs2 ltac:(constructor)) Hsub) as (((A0 & A1) & A2 & A3 & A4) & A5).
      st_simpl.
      assert (Hsubc : rchain s (zpos t2) sub0 (Z.of_nat (pos t3))).
      { eapply (Nsub t2 [] (zpos t2)); [exact Hs2|constructor; lia|exact Hsub]. }
      destruct (peek_is s t3 125) eqn:E3; [|discriminate]. apply peek_is_lt in E3.
      eapply Nts; [| | | |exact H].
      - unfold le_L; st_simpl; lia.
      - st_simpl. subst t2; st_simpl. lia.
      - exact Hr.
      - st_simpl. eapply chain_snoc.
        + apply (flush_chain dq (set_pos t (S (pos t))) parts tstart); st_simpl; try lia.
          exact Hc.
        + unfold zstart. simpl. subst t2; st_simpl. lia.
        + constructor. apply rchain_rev. exact Hsubc.
        + simpl. lia. }
    destruct (N.eqb c (if dq then 34%N else 39%N)).
    { inversion H; subst t' rexpr'. st_simpl. clear H.
      pose proof (flush_chain dq (set_pos t (S (pos t))) parts tstart) as Hf. st_simpl.
      specialize (Hf Hc ltac:(lia) ltac:(lia)).
      replace (S (pos t) - 1)%nat with (pos t) in Hf by lia.
      set (parts1 := flush_string s dq (set_pos t (S (pos t))) parts) in *.
      assert (Htok : forall tok, tok = match parts1 with
                                       | [ETok k v i] => ETok k v i
                                       | _ => ETemplate dq parts1 tstart (S (pos t) - 1)
                                       end ->
                tok_ok s tok /\ Z.of_nat tstart <= zstart tok /\ etok_stop tok <= Z.of_nat (S (pos t))).
      { intros tok ->.
        assert (Hgen : tok_ok s (ETemplate dq parts1 tstart (S (pos t) - 1)) /\
                       Z.of_nat tstart <= zstart (ETemplate dq parts1 tstart (S (pos t) - 1)) /\
                       etok_stop (ETemplate dq parts1 tstart (S (pos t) - 1)) <= Z.of_nat (S (pos t))).
        { split; [constructor; eapply chain_hi; [exact Hf|lia]|]. unfold zstart; simpl; lia. }
        destruct parts1 as [|e [|e2 l]]; try exact Hgen; destruct e; try exact Hgen.
        inversion Hf as [|? ? ? ? F1 F2 F3]; subst. inversion F3; subst.
        repeat split; try assumption; simpl in *; lia. }
      destruct (Htok _ eq_refl) as (T1 & T2 & T3).
      constructor; [exact T3|exact T1|]. eapply rchain_hi; [exact Hr|exact T2]. }
    eapply Nts; [| | | |exact H]; unfold le_L; st_simpl; try lia; assumption.
  - (* sub_loop *)
    intros t rexpr lo t' rexpr' Hs Hr H. cbn [sub_loop] in H. unfold zpos in *.
    apply bind_ok in H as (t1 & Hw & H).
    pose proof (rspec_inv _ _ _ _ _ (ignore_ws_spec s t 0 0 Hs) Hw) as (A1 & A2 & A3 & A4).
    assert (Hso : SO s rexpr) by (eapply rchain_SO; [exact Hr|destruct Hs; lia]).
    apply bind_ok in H as (r & Ht & H).
    destruct r as [[t2 rexpr2]|].
    + pose proof (rspec_inv _ _ _ _ _ (Ptok t1 rexpr A1 Hso) Ht) as ((B1 & B2 & B3 & B4) & B5 & B6). st_simpl.
      eapply Nsub; [exact B1| |exact H].
      eapply Ntok; [exact A1| |exact Ht]. eapply rchain_hi; [exact Hr|unfold zpos; lia].
    + inversion H; subst t' rexpr'. eapply rchain_hi; [exact Hr|unfold zpos; lia].
Qed.

End Nest.

(** Non-vacuity / the witness of the repaired defect: with shorthand indexes
    the path token of "{{ a.1 }}" spans [3, 6) — before fix C17/0005 its stop
    was 4. *)
Example path_shorthand_stop_example :
  lex true [123; 123; 32; 97; 46; 49; 32; 125; 125]%N
  = Ok [MOutput 0 9 WDefault WDefault [EPath [ESegStr [97%N]; ESegInt 1%Z] 3 6%Z]].
Proof. vm_compute. reflexivity. Qed.
