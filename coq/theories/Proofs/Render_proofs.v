(** Proofs about Core/Render.v: scope balance (frame), isolation of render /
    call, sequencing, case/else, loop slicing. *)
From LQ Require Import Core.Render.
From Coq Require Import Lia.

(** * The frame of a context: what block constructs must restore *)

Definition frame (c c' : ctx) : Prop :=
  scopes c' = scopes c /\ loops c' = loops c /\ tname c' = tname c /\
  globals c' = globals c /\ root_globals c' = root_globals c /\
  disabled c' = disabled c /\ copy_depth c' = copy_depth c.

(** the same, except that the innermost pushed scope may have been rebound *)
Definition frame_tl (c c' : ctx) : Prop :=
  tl (scopes c') = tl (scopes c) /\ loops c' = loops c /\ tname c' = tname c /\
  globals c' = globals c /\ root_globals c' = root_globals c /\
  disabled c' = disabled c /\ copy_depth c' = copy_depth c.

(** inside a for loop: the result has popped one scope and one loop entry *)
Definition frame_popped (c c' : ctx) : Prop :=
  scopes c' = tl (scopes c) /\ loops c' = tl (loops c) /\ tname c' = tname c /\
  globals c' = globals c /\ root_globals c' = root_globals c /\
  disabled c' = disabled c /\ copy_depth c' = copy_depth c.

Lemma frame_refl c : frame c c.
Proof. repeat split. Qed.

Lemma frame_trans a b c : frame a b -> frame b c -> frame a c.
Proof. unfold frame. intuition congruence. Qed.

Lemma frame_frame_tl a b : frame a b -> frame_tl a b.
Proof. unfold frame, frame_tl. intuition congruence. Qed.

Lemma frame_tl_trans a b c : frame_tl a b -> frame_tl b c -> frame_tl a c.
Proof. unfold frame_tl. intuition congruence. Qed.

Lemma frame_tl_frame a b c : frame_tl a b -> frame b c -> frame_tl a c.
Proof. unfold frame, frame_tl. intuition congruence. Qed.

Lemma frame_set_locals c l : frame c (set_locals c l).
Proof. repeat split. Qed.
Lemma frame_set_counters c l : frame c (set_counters c l).
Proof. repeat split. Qed.
Lemma frame_set_cycles c l : frame c (set_cycles c l).
Proof. repeat split. Qed.
Lemma frame_set_stopindex c l : frame c (set_stopindex c l).
Proof. repeat split. Qed.
Lemma frame_set_macros c l : frame c (set_macros c l).
Proof. repeat split. Qed.

Lemma extend_Some g c n c1 : extend g c n = Some c1 -> c1 = set_scopes c (n :: scopes c).
Proof. unfold extend. destruct (_ <? _)%Z; [discriminate|]. intro H; inversion H; reflexivity. Qed.

Lemma extend_pop g c n c1 c' : extend g c n = Some c1 -> frame c1 c' -> frame c (pop_scope c').
Proof.
  intros E F. apply extend_Some in E. subst c1.
  destruct F as (H1 & H2 & H3 & H4 & H5 & H6 & H7). simpl in *.
  unfold frame, pop_scope. simpl. rewrite H1. simpl. repeat split; assumption.
Qed.

Lemma extend_pop_tl g c n c1 c' : extend g c n = Some c1 -> frame_tl c1 c' -> frame c (pop_scope c').
Proof.
  intros E F. apply extend_Some in E. subst c1.
  destruct F as (H1 & H2 & H3 & H4 & H5 & H6 & H7). simpl in *.
  unfold frame, pop_scope. simpl. rewrite H1. repeat split; assumption.
Qed.

Lemma cycle_next_frame c k n : frame c (snd (cycle_next c k n)).
Proof. unfold cycle_next. simpl. apply frame_set_cycles. Qed.

Section StepFrame.
Variable g : cfg.
Variable ld : loader.
Variable ev : ctx -> expr -> eres.
Variable rec : node -> ctx -> buf -> rstate.
Hypothesis Hrec : forall x c b, frame c (cx (rec x c b)).

Lemma nodes_frame l : forall c b, frame c (cx (nodes rec l c b)).
Proof.
  induction l as [|x l IH]; intros c b; simpl; [apply frame_refl|].
  destruct (st (rec x c b)); try apply Hrec.
  eapply frame_trans; [apply Hrec|apply IH].
Qed.

Lemma block_frame l c b : frame c (cx (block g rec l c b)).
Proof. unfold block. destruct (_ && _); simpl; apply nodes_frame. Qed.

Lemma oblock_frame o c b : frame c (cx (oblock g rec o c b)).
Proof. destruct o; simpl; [apply block_frame|apply frame_refl]. Qed.

Lemma partial_template_frame body c b bs : frame c (cx (partial_template g rec body c b bs)).
Proof.
  unfold partial_template. destruct (extend g c []) as [c1|] eqn:E; [|apply frame_refl].
  pose proof (nodes_frame body c1 b) as F.
  assert (frame c (pop_scope (cx (nodes rec body c1 b)))) by (eapply extend_pop; eauto).
  destruct (st (nodes rec body c1 b)); simpl; try assumption; destruct bs; simpl; assumption.
Qed.

Lemma if_alts_frame els l : forall c b, frame c (cx (if_alts g ev rec els l c b)).
Proof.
  induction l as [|[ce body] l IH]; intros c b; simpl; [apply oblock_frame|].
  destruct (ev c ce); simpl; try apply frame_refl.
  destruct (is_truthy v); [apply block_frame|apply IH].
Qed.

Lemma case_go_frame e els l : forall m c b, frame c (cx (case_go g ev rec e els l m c b)).
Proof.
  induction l as [|[alts body] l IH]; intros m c b; simpl.
  - destruct m; [apply frame_refl|apply oblock_frame].
  - destruct (ev c e); simpl; try apply frame_refl.
    destruct (case_any ev v alts c) as [w| | |]; simpl; try apply frame_refl.
    destruct w; try apply IH. destruct b0; [|apply IH].
    pose proof (block_frame body c b) as F.
    destruct (st (block g rec body c b)); try exact F.
    eapply frame_trans; [exact F|apply IH].
Qed.

Lemma finish_loop_popped s c b : frame_popped c (cx (finish_loop s c b)).
Proof. unfold finish_loop, frame_popped, pop_scope. simpl. repeat split. Qed.

Lemma frame_popped_pre a b c : frame a b -> frame_popped b c -> frame_popped a c.
Proof. unfold frame, frame_popped. intuition congruence. Qed.

Lemma for_iter_popped x key len parent body its :
  forall i c b, frame_popped c (cx (for_iter g rec x key len parent body its i c b)).
Proof.
  induction its as [|it its IH]; intros i c b; cbn [for_iter]; [apply finish_loop_popped|].
  set (c' := set_loops (set_top_scope c _) _).
  pose proof (block_frame body c' b) as F.
  assert (P : forall c2, frame_popped c' c2 -> frame_popped c c2).
  { unfold frame_popped, c', set_top_scope. simpl. intuition. }
  destruct (st (block g rec body c' b)); apply P;
    try (eapply frame_popped_pre; [exact F|apply finish_loop_popped]);
    (eapply frame_popped_pre; [exact F|apply IH]).
Qed.

Lemma for_run_frame x key rv body els items0 limit offset ic c b :
  frame c (cx (for_run g rec x key rv body els items0 limit offset ic c b)).
Proof.
  unfold for_run.
  set (sl := loop_slice _ _ _ _ _ _).
  set (c0 := set_stopindex c _).
  assert (F0 : frame c c0) by apply frame_set_stopindex.
  destruct (snd (fst sl) =? 0)%Z;
    [eapply frame_trans; [exact F0|apply oblock_frame]|].
  destruct (extend g c0 _) as [c1|] eqn:E; [|exact F0].
  apply extend_Some in E. subst c1.
  match goal with |- frame c (cx (for_iter g rec x key ?len ?p body ?items 0%Z ?cc b)) =>
    pose proof (for_iter_popped x key len p body items 0%Z cc b) as P end.
  destruct P as (P1 & P2 & P3 & P4 & P5 & P6 & P7). simpl in *.
  unfold frame. repeat split; assumption.
Qed.

Lemma render_for_frame x key iter lim off rv body els c b :
  frame c (cx (render_for g ev rec x key iter lim off rv body els c b)).
Proof.
  unfold render_for.
  destruct (ev c iter); try apply frame_refl.
  destruct (to_iter v) as [[items0|]|]; try apply frame_refl.
  destruct (eval_loop_int ev c lim); try apply frame_refl.
  destruct off; try apply for_run_frame.
  destruct (eval_loop_int ev c (Some e)); [apply for_run_frame|apply frame_refl].
Qed.

Lemma include_iter_frame_tl body key its : forall c b, frame_tl c (cx (include_iter g rec body key its c b)).
Proof.
  induction its as [|it its IH]; intros c b; simpl; [apply frame_frame_tl, frame_refl|].
  set (c' := set_top_scope c _).
  assert (T : frame_tl c c') by (unfold frame_tl, c', set_top_scope; simpl; repeat split).
  pose proof (partial_template_frame body c' b false) as F.
  destruct (st (partial_template g rec body c' b false));
    try (eapply frame_tl_frame; [exact T|exact F]).
  eapply frame_tl_trans; [eapply frame_tl_frame; [exact T|exact F]|apply IH].
Qed.

Lemma render_include_frame name var args c b :
  frame c (cx (render_include g ld ev rec name var args c b)).
Proof.
  unfold render_include.
  destruct (mem_str s_include (disabled c)); [apply frame_refl|].
  destruct (ev c name) as [nv| | |]; simpl; try apply frame_refl.
  destruct nv; simpl; try apply frame_refl.
  destruct (assoc s ld) as [body|]; simpl; [|apply frame_refl].
  destruct (eval_namespace ev c args) as [r|nsp]; simpl; [apply frame_refl|].
  destruct (extend g c nsp) as [c1|] eqn:E; simpl; [|apply frame_refl].
  apply extend_Some in E. subst c1.
  set (c1 := set_tname (set_scopes c (nsp :: scopes c)) s).
  assert (L : forall r, frame_tl c1 (cx r) ->
                        frame c (set_tname (pop_scope (cx r)) (tname c))).
  { intros r (H1 & H2 & H3 & H4 & H5 & H6 & H7). unfold frame, pop_scope. simpl in *.
    rewrite H1. repeat split; assumption. }
  destruct var as [[ve alias]|]; simpl.
  - assert (L0 : frame c (set_tname (pop_scope c1) (tname c))).
    { apply (L (mk SDone c1 b)). simpl. apply frame_frame_tl, frame_refl. }
    destruct (ev c1 ve) as [vv| | |]; simpl; try exact L0.
    destruct vv; simpl; try exact L0.
    all: try (apply L; eapply frame_tl_frame; [|apply partial_template_frame];
              unfold frame_tl, set_top_scope; simpl; repeat split).
    apply L. apply include_iter_frame_tl.
  - apply L. apply frame_frame_tl, partial_template_frame.
Qed.

Lemma render_render_same tn var args c b : cx (render_render g ld ev rec tn var args c b) = c.
Proof.
  unfold render_render.
  destruct (assoc tn ld); simpl; [|reflexivity].
  destruct (eval_namespace ev c args); simpl; [reflexivity|].
  destruct (copy_isolated g c n [s_include] tn); simpl; [|reflexivity].
  destruct var as [[[il ve] alias]|]; simpl; [|reflexivity].
  destruct (ev c ve); reflexivity.
Qed.

Lemma render_call_same name args kwargs c b : cx (render_call g ev rec name args kwargs c b) = c.
Proof.
  unfold render_call.
  destruct (assoc name (macros c)); simpl; [|reflexivity].
  destruct (Nat.ltb _ _); simpl; [reflexivity|].
  destruct (negb _); simpl; [reflexivity|].
  destruct (eval_bound ev c _); simpl; [reflexivity|].
  destruct (copy_isolated g c _ _ _); reflexivity.
Qed.

Lemma write_value_frame r c b : frame c (cx (write_value r c b)).
Proof.
  unfold write_value. destruct r; simpl; try apply frame_refl.
  destruct (to_liquid_string v); apply frame_refl.
Qed.

Lemma assign_frame x e c b :
  frame c (cx match ev c e with
              | EOk v => if has_forloop v then mk SUnmodelled c b
                         else mk SDone (set_locals c (dict_set x v (locals c))) b
              | r => mk (of_eres_status r) c b
              end).
Proof.
  destruct (ev c e) as [v| | |]; simpl; try apply frame_refl.
  destruct (has_forloop v); simpl; [apply frame_refl|apply frame_set_locals].
Qed.

Lemma capture_frame x body c b :
  frame c (cx (let r := block g rec body c {| text := []; null := false |} in
               match st r with
               | SDone => mk SDone (set_locals (cx r) (dict_set x (VStr (text (bf r))) (locals (cx r)))) b
               | s => mk s (cx r) b
               end)).
Proof.
  pose proof (block_frame body c {| text := []; null := false |}) as F. cbv zeta.
  destruct (st (block g rec body c _)); simpl; exact F.
Qed.

Lemma cycle_frame group items c b :
  frame c (cx (render_step g ld ev rec (NCycle group items) c b)).
Proof.
  simpl. destruct group as [key|]; destruct items as [|i0 items]; try apply frame_refl.
  unfold cycle_next.
  destruct (nth_error (i0 :: items) _); simpl; [|apply frame_set_cycles].
  eapply frame_trans; [apply frame_set_cycles|apply write_value_frame].
Qed.

Lemma with_frame args body c b :
  frame c (cx (render_step g ld ev rec (NWith args body) c b)).
Proof.
  simpl. destruct (eval_namespace ev c args) as [r|nsp]; simpl; [apply frame_refl|].
  destruct (extend g c nsp) as [c1|] eqn:E; simpl; [|apply frame_refl].
  eapply extend_pop; [exact E|apply block_frame].
Qed.

Lemma render_step_frame n c b : frame c (cx (render_step g ld ev rec n c b)).
Proof.
  destruct n.
  all: try apply cycle_frame.
  all: try apply with_frame.
  all: simpl.
  all: try apply frame_refl.
  all: try apply write_value_frame.
  all: try apply case_go_frame.
  all: try apply render_for_frame.
  all: try apply render_include_frame.
  all: try (rewrite render_render_same; apply frame_refl).
  all: try (rewrite render_call_same; apply frame_refl).
  all: try apply frame_set_counters.
  all: try apply frame_set_macros.
  all: try apply assign_frame.
  all: try apply capture_frame.
  all: try apply block_frame.
  all: destruct (ev c c0); simpl; try apply frame_refl.
  - destruct (is_truthy v); [apply block_frame|apply if_alts_frame].
  - destruct (negb (is_truthy v)); [apply block_frame|apply if_alts_frame].
Qed.

End StepFrame.

(** * Every node restores the frame, whatever the outcome *)

Theorem render_frame g ld fuel : forall n c b, frame c (cx (render g ld fuel n c b)).
Proof.
  induction fuel as [|f IH]; intros n c b; simpl; [apply frame_refl|].
  apply render_step_frame. exact IH.
Qed.

Theorem render_template_balanced g ld fuel body glob name :
  let r := render_template g ld fuel body glob name in
  scopes (cx r) = [] /\ loops (cx r) = [] /\ tname (cx r) = name.
Proof.
  unfold render_template.
  destruct (extend g (fresh_ctx (depth_limit g) glob name) []) as [c1|] eqn:E; simpl; [|auto].
  assert (F : frame (fresh_ctx (depth_limit g) glob name)
                    (pop_scope (cx (nodes (render g ld fuel) body c1 empty_buf)))).
  { eapply extend_pop; [exact E|]. apply nodes_frame. apply render_frame. }
  destruct F as (H1 & H2 & H3 & _).
  destruct (st (nodes (render g ld fuel) body c1 empty_buf)); simpl; auto.
Qed.

(** * Isolation of render and call *)

(** The caller's context is returned untouched (locals, counters, cycles,
    stop indexes, macros, scopes - everything). *)
Theorem render_tag_writes_nothing_back g ld fuel tn var args c b :
  cx (render g ld (S fuel) (NRender tn var args) c b) = c.
Proof. simpl. apply render_render_same. Qed.

Theorem call_tag_writes_nothing_back g ld fuel name args kwargs c b :
  cx (render g ld (S fuel) (NCall name args kwargs) c b) = c.
Proof. simpl. apply render_call_same. Qed.

(** What a render tag writes depends on the caller's context only through the
    values of its arguments, the template's root globals and the copy depth:
    not through locals, counters, loop variables, block scopes, cycles, macros. *)
Theorem render_tag_isolated g ld fuel tn var args c1 c2 b :
  root_globals c1 = root_globals c2 ->
  copy_depth c1 = copy_depth c2 ->
  dlimit c1 = dlimit c2 ->
  eval_namespace (eval fuel) c1 args = eval_namespace (eval fuel) c2 args ->
  (forall il ve al, var = Some (il, ve, al) -> eval fuel c1 ve = eval fuel c2 ve) ->
  let r1 := render g ld (S fuel) (NRender tn var args) c1 b in
  let r2 := render g ld (S fuel) (NRender tn var args) c2 b in
  st r1 = st r2 /\ bf r1 = bf r2.
Proof.
  intros Hr Hd Hl Ha Hv. simpl. unfold render_render.
  destruct (assoc tn ld) as [body|]; simpl; [|auto].
  rewrite Ha. destruct (eval_namespace (eval fuel) c2 args) as [r|nsp]; simpl; [auto|].
  unfold copy_isolated. rewrite Hr, Hd, Hl.
  destruct (depth_limit g <? copy_depth c2)%Z; simpl; [auto|].
  destruct var as [[[il ve] al]|]; simpl; [|auto].
  rewrite (Hv il ve al eq_refl). destruct (eval fuel c2 ve); simpl; auto.
Qed.

(** include is refused inside a rendered template or a macro: the copies are
    built with include disabled, and a disabled include raises. *)
Theorem include_refused_when_disabled g ld fuel name var args c b :
  mem_str s_include (disabled c) = true ->
  st (render g ld (S fuel) (NInclude name var args) c b) = SErr DisabledTagError.
Proof. intro H. simpl. unfold render_include. rewrite H. reflexivity. Qed.

Theorem isolated_copy_disables_include g c nsp tn cc extra :
  copy_isolated g c nsp (s_include :: extra) tn = Some cc ->
  mem_str s_include (disabled cc) = true /\ locals cc = [] /\ scopes cc = [] /\
  counters cc = [] /\ cycles cc = [] /\ stopindex cc = [] /\ macros cc = [] /\ loops cc = [] /\
  globals cc = nsp :: root_globals c.
Proof.
  unfold copy_isolated. destruct (_ <? _)%Z; [discriminate|].
  intro H; inversion H; subst; simpl. repeat split.
Qed.

(** * Sequencing is compositional *)

Theorem nodes_app rec l1 l2 c b :
  nodes rec (l1 ++ l2) c b =
  let r := nodes rec l1 c b in
  match st r with SDone => nodes rec l2 (cx r) (bf r) | _ => r end.
Proof.
  revert c b. induction l1 as [|x l1 IH]; intros c b; simpl; [reflexivity|].
  destruct (st (rec x c b)) eqn:E; try (rewrite E; reflexivity).
  apply IH.
Qed.

(** * case / when / else *)

Section Case.
Variable g : cfg.
Variable ev : ctx -> expr -> eres.
Variable rec : node -> ctx -> buf -> rstate.

(** once a `when` has matched, the `else` block is irrelevant *)
Theorem case_else_irrelevant_after_match e els els' l : forall c b,
  case_go g ev rec e els l true c b = case_go g ev rec e els' l true c b.
Proof.
  induction l as [|[alts body] l IH]; intros c b; simpl; [reflexivity|].
  destruct (ev c e); try reflexivity.
  destruct (case_any ev v alts c) as [w| | |]; try reflexivity.
  destruct w; try apply IH. destruct b0; [|apply IH].
  destruct (st (block g rec body c b)); try reflexivity. apply IH.
Qed.

(** [no_when_matches]: every `when` evaluates and none equals the case value *)
Fixpoint no_when_matches (e : expr) (l : list (list expr * list node)) (c : ctx) : Prop :=
  match l with
  | [] => True
  | (alts, _) :: l' =>
      (exists v, ev c e = EOk v /\ case_any ev v alts c = EOk (VBool false))
      /\ no_when_matches e l' c
  end.

(** if no `when` matches, exactly the `else` block is rendered *)
Theorem case_no_match_renders_else e els l : forall c b,
  no_when_matches e l c ->
  case_go g ev rec e els l false c b = oblock g rec els c b.
Proof.
  induction l as [|[alts body] l IH]; intros c b H; simpl; [reflexivity|].
  destruct H as [(v & E1 & E2) H]. rewrite E1, E2. apply IH. exact H.
Qed.

(** if a `when` matches and its block completes, the rest is rendered with
    matched = true, so (by the first theorem) never the `else` block *)
Theorem case_match_sets_matched e els alts body l m c b v :
  ev c e = EOk v -> case_any ev v alts c = EOk (VBool true) ->
  st (block g rec body c b) = SDone ->
  case_go g ev rec e els ((alts, body) :: l) m c b =
  case_go g ev rec e els l true (cx (block g rec body c b)) (bf (block g rec body c b)).
Proof. intros E1 E2 E3. simpl. rewrite E1, E2, E3. reflexivity. Qed.

End Case.

(** * Loop slicing: limit / offset / reversed *)

Lemma firstn_min_len {A} (l : list A) n : firstn (Nat.min n (length l)) l = firstn n l.
Proof.
  destruct (Nat.le_gt_cases n (length l)) as [H|H].
  - rewrite Nat.min_l by exact H. reflexivity.
  - rewrite Nat.min_r by lia. rewrite firstn_all. symmetry. apply firstn_all2. lia.
Qed.

Theorem loop_slice_spec items limit offset rv prev :
  (forall z, limit = Some z -> (0 <= z)%Z) ->
  (forall z, offset = Some z -> (0 <= z)%Z) ->
  let o := match offset with Some z => Z.to_nat z | None => 0 end in
  let window := skipn o items in
  let taken := match limit with Some l => firstn (Z.to_nat l) window | None => window end in
  let '(its, len, stop) := loop_slice items limit offset false prev rv in
  its = (if rv then rev taken else taken) /\
  len = Z.of_nat (length taken) /\
  stop = Z.of_nat (o + length taken).
Proof.
  intros Hl Ho. unfold loop_slice.
  destruct limit as [l|], offset as [o|]; cbv zeta.
  all: try specialize (Hl _ eq_refl); try specialize (Ho _ eq_refl).
  - (* limit and offset *)
    set (w := skipn (Z.to_nat o) items).
    assert (Hw : length w = Z.to_nat (Z.max (Z.of_nat (length items) - o) 0))
      by (unfold w; rewrite skipn_length; lia).
    set (len2 := Z.min (Z.max (Z.of_nat (length items) - o) 0) l).
    assert (Hs : Z.to_nat ((if (o =? 0)%Z then len2 else o + len2) - o)
                 = Nat.min (Z.to_nat l) (length w))
      by (unfold len2; destruct (o =? 0)%Z eqn:E; [apply Z.eqb_eq in E|]; lia).
    rewrite Hs, firstn_min_len.
    assert (Hlen : length (firstn (Z.to_nat l) w) = Z.to_nat len2)
      by (rewrite firstn_length; unfold len2; lia).
    repeat split.
    + rewrite Hlen. unfold len2. lia.
    + rewrite Hlen. unfold len2.
      destruct (o =? 0)%Z eqn:E; [apply Z.eqb_eq in E|]; lia.
  - (* limit only *)
    simpl skipn.
    set (len2 := Z.min (Z.of_nat (length items)) l).
    assert (Hs : Z.to_nat (len2 - 0) = Nat.min (Z.to_nat l) (length items))
      by (unfold len2; lia).
    simpl. rewrite Hs, firstn_min_len.
    assert (Hlen : length (firstn (Z.to_nat l) items) = Z.to_nat len2)
      by (rewrite firstn_length; unfold len2; lia).
    repeat split; rewrite Hlen; unfold len2; lia.
  - (* offset only *)
    set (w := skipn (Z.to_nat o) items).
    assert (Hw : length w = Z.to_nat (Z.max (Z.of_nat (length items) - o) 0))
      by (unfold w; rewrite skipn_length; lia).
    set (len1 := Z.max (Z.of_nat (length items) - o) 0).
    assert (Hwin : firstn (Z.to_nat ((if (o =? 0)%Z then len1 else o + len1) - o)) w = w).
    { apply firstn_all2. rewrite Hw. unfold len1.
      destruct (o =? 0)%Z eqn:E; [apply Z.eqb_eq in E|]; lia. }
    rewrite Hwin. repeat split.
    + rewrite Hw. unfold len1. lia.
    + rewrite Hw. unfold len1. destruct (o =? 0)%Z eqn:E; [apply Z.eqb_eq in E|]; lia.
  - simpl. repeat split; lia.
Qed.

(** `offset: continue` resumes where the previous loop over the same key
    stopped. *)
Theorem loop_slice_continue items limit rv prev :
  loop_slice items limit None true prev rv = loop_slice items limit (Some prev) false prev rv.
Proof. unfold loop_slice. destruct limit; reflexivity. Qed.
