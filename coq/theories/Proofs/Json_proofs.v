(** Proofs/Json_proofs.v — the json filter's output decodes to its input. *)
From LQ Require Import Base.Str Kernels.Unescape Kernels.Json Proofs.Unescape_proofs.
Local Open Scope N_scope.
