(** Proofs/Json_proofs.v — the json filter's output decodes to its input:
    [json_decode (json_filter v) = Some v] for every JSON-like value whose
    strings are sequences of Unicode scalar values. *)
From LQ Require Import Base.Str Kernels.NumLit Kernels.Json Proofs.NumLit_proofs.
From LQ Require Import Proofs.Unescape_proofs.
Local Open Scope N_scope.

Ltac Zify.zify_post_hook ::= Z.to_euclidean_division_equations.

(** * Hex digits *)

Lemma jhexval_hexdigit x : x < 16 -> jhexval (hexdigit x) = Some x.
Proof.
  intros H. unfold hexdigit, jhexval.
  destruct (N.ltb_spec x 10).
  - replace ((48 <=? 48 + x) && (48 + x <=? 57)) with true
      by (symmetry; apply andb_true_iff; split; apply N.leb_le; lia).
    f_equal. lia.
  - replace ((48 <=? 87 + x) && (87 + x <=? 57)) with false
      by (symmetry; apply andb_false_iff; right; apply N.leb_gt; lia).
    replace ((65 <=? 87 + x) && (87 + x <=? 70)) with false
      by (symmetry; apply andb_false_iff; right; apply N.leb_gt; lia).
    replace ((97 <=? 87 + x) && (87 + x <=? 102)) with true
      by (symmetry; apply andb_true_iff; split; apply N.leb_le; lia).
    f_equal. lia.
Qed.

Lemma jhex4_hex4_of n : n < 65536 ->
  match hex4_of n with
  | [a; b; c; d] => jhex4 a b c d = Some n
  | _ => False
  end.
Proof.
  intros H. unfold hex4_of, jhex4.
  rewrite !jhexval_hexdigit by lia. f_equal. lia.
Qed.

(** * Strings *)

Definition scalar (c : N) : Prop := c < 0x110000 /\ ~ (0xD800 <= c <= 0xDFFF).
Definition str_ok (s : str) : Prop := Forall scalar s.

Lemma jstring_u_bmp c X : c < 65536 -> jhigh c = false ->
  jstring (u_escape c ++ X) = jcons c (jstring X).
Proof.
  intros Hc Hh. pose proof (jhex4_hex4_of c Hc) as H4. unfold u_escape.
  destruct (hex4_of c) as [|a [|b [|c1 [|d [|? ?]]]]]; try contradiction.
  cbn [app jstring]. change (92 =? 34) with false. change (92 =? 92) with true.
  change (117 =? 117) with true. cbn match. rewrite H4, Hh. cbn [andb].
  destruct X as [|x [|y [|e1 [|f [|g [|h r10]]]]]]; reflexivity.
Qed.

Lemma surrogates_of c : 0x10000 <= c < 0x110000 ->
  let n := c - 0x10000 in
  let hi := N.lor 0xD800 (N.land (N.shiftr n 10) 0x3FF) in
  let lo := N.lor 0xDC00 (N.land n 0x3FF) in
  hi = 0xD800 + n / 1024 /\ lo = 0xDC00 + n mod 1024.
Proof.
  intros H n hi lo. subst hi lo.
  assert (Hn : n < 0x100000) by (subst n; lia).
  change 0x3FF with (N.ones 10). rewrite !N.land_ones, N.shiftr_div_pow2.
  change (2 ^ 10) with 1024.
  rewrite (N.mod_small (n / 1024) 1024) by lia.
  change 0xD800 with (N.shiftl 54 10). change 0xDC00 with (N.shiftl 55 10).
  rewrite !lor_shiftl_small by (change (2 ^ 10) with 1024; lia || (apply N.mod_lt; discriminate)).
  change (2 ^ 10) with 1024. change (N.shiftl 54 10) with 55296. change (N.shiftl 55 10) with 56320.
  split; lia.
Qed.

Lemma jhigh_false c : ~ (0xD800 <= c <= 0xDFFF) -> jhigh c = false.
Proof.
  intros H. unfold jhigh. destruct (N.leb_spec 0xD800 c), (N.leb_spec c 0xDBFF); cbn [andb];
    try reflexivity. lia.
Qed.

Lemma jstring_escape_char c X : scalar c ->
  jstring (json_escape_char c ++ X) = jcons c (jstring X).
Proof.
  intros [Hc Hs]. unfold json_escape_char.
  destruct (N.eqb_spec c 34) as [->|N1]; [reflexivity|].
  destruct (N.eqb_spec c 92) as [->|N2]; [reflexivity|].
  destruct (N.eqb_spec c 10) as [->|N3]; [reflexivity|].
  destruct (N.eqb_spec c 13) as [->|N4]; [reflexivity|].
  destruct (N.eqb_spec c 9) as [->|N5]; [reflexivity|].
  destruct (N.eqb_spec c 12) as [->|N6]; [reflexivity|].
  destruct (N.eqb_spec c 8) as [->|N7]; [reflexivity|].
  destruct ((32 <=? c) && (c <=? 126)) eqn:Ep.
  { apply andb_true_iff in Ep as [E1 E2]. apply N.leb_le in E1, E2.
    cbn [app jstring]. apply N.eqb_neq in N1, N2. rewrite N1, N2.
    destruct (N.ltb_spec c 32); [lia|]. reflexivity. }
  destruct (N.ltb_spec c 0x10000) as [Hb|Hb].
  { apply jstring_u_bmp; [assumption|apply jhigh_false; assumption]. }
  (* astral: a surrogate pair *)
  destruct (surrogates_of c ltac:(lia)) as [Ehi Elo].
  set (n := c - 0x10000) in *.
  set (hi := N.lor 0xD800 (N.land (N.shiftr n 10) 0x3FF)) in *.
  set (lo := N.lor 0xDC00 (N.land n 0x3FF)) in *.
  assert (Hn : n < 0x100000) by (subst n; lia).
  assert (Hhi : hi < 65536 /\ 0xD800 <= hi <= 0xDBFF) by (rewrite Ehi; lia).
  assert (Hlo : lo < 65536 /\ 0xDC00 <= lo <= 0xDFFF) by (rewrite Elo; lia).
  pose proof (jhex4_hex4_of hi (proj1 Hhi)) as H4h.
  pose proof (jhex4_hex4_of lo (proj1 Hlo)) as H4l.
  unfold u_escape.
  destruct (hex4_of hi) as [|a [|b [|c1 [|d [|? ?]]]]]; try contradiction.
  destruct (hex4_of lo) as [|e [|f [|g [|h [|? ?]]]]]; try contradiction.
  cbn [app jstring]. change (92 =? 34) with false. change (92 =? 92) with true.
  change (117 =? 117) with true. cbn match. rewrite H4h.
  assert (Jh : jhigh hi = true)
    by (unfold jhigh; apply andb_true_iff; split; apply N.leb_le; lia).
  assert (Jl : jlow lo = true)
    by (unfold jlow; apply andb_true_iff; split; apply N.leb_le; lia).
  rewrite Jh. cbn [andb]. rewrite H4l, Jl.
  replace (0x10000 + (hi - 0xD800) * 1024 + (lo - 0xDC00)) with c; [reflexivity|].
  rewrite Ehi, Elo. subst n. lia.
Qed.

Lemma jstring_body s : str_ok s -> forall rest,
  jstring (json_body s ++ 34 :: rest) = Some (s, rest).
Proof.
  induction 1 as [|c s Hc Hs IH]; intros rest; [reflexivity|].
  unfold json_body. cbn [flat_map]. rewrite <- app_assoc.
  rewrite (jstring_escape_char c _ Hc). fold (json_body s). rewrite IH. reflexivity.
Qed.

(** * Integers *)

Lemma digits_value_acc_spec l : forall acc,
  digits_value_acc l acc = (acc * 10 ^ Z.of_nat (length l) + digits_value l)%Z.
Proof.
  unfold digits_value. induction l as [|d l IH]; intros acc.
  - cbn [digits_value_acc length]. change (10 ^ Z.of_nat 0)%Z with 1%Z. lia.
  - cbn [digits_value_acc length]. rewrite (IH (10 * acc + Z.of_N (d - 48))%Z), (IH (10 * 0 + Z.of_N (d - 48))%Z).
    rewrite Nat2Z.inj_succ, Z.pow_succ_r by lia. ring.
Qed.

Lemma digits_value_cons d l :
  digits_value (d :: l) = (Z.of_N (d - 48) * 10 ^ Z.of_nat (length l) + digits_value l)%Z.
Proof.
  unfold digits_value at 1. cbn [digits_value_acc]. rewrite digits_value_acc_spec. f_equal; try lia. all: try (f_equal; lia).
Qed.

Lemma is_digit_48 n : n < 10 -> is_digit (48 + n) = true.
Proof. intros H. unfold is_digit. apply andb_true_iff; split; apply N.leb_le; lia. Qed.

Lemma dec_digits_spec f : forall n acc,
  n < 10 ^ N.of_nat f -> all_digits acc ->
  digits_value (dec_digits f n acc) = (Z.of_N n * 10 ^ Z.of_nat (length acc) + digits_value acc)%Z
  /\ all_digits (dec_digits f n acc).
Proof.
  induction f as [|f IH]; intros n acc Hn Ha.
  - cbn [dec_digits]. change (10 ^ N.of_nat 0) with 1 in Hn. assert (n = 0) as -> by lia.
    split; [cbn; lia|assumption].
  - cbn [dec_digits]. destruct (N.ltb_spec n 10) as [H10|H10].
    + split.
      * rewrite digits_value_cons. replace (48 + n - 48) with n by lia. reflexivity.
      * unfold all_digits. cbn [forallb]. rewrite (is_digit_48 n H10). exact Ha.
    + assert (Hq : n / 10 < 10 ^ N.of_nat f).
      { apply N.div_lt_upper_bound; [discriminate|].
        rewrite Nat2N.inj_succ, N.pow_succ_r' in Hn. exact Hn. }
      assert (Ha' : all_digits ((48 + n mod 10) :: acc)).
      { unfold all_digits. cbn [forallb]. rewrite (is_digit_48 (n mod 10)) by (apply N.mod_lt; discriminate).
        exact Ha. }
      destruct (IH (n / 10) ((48 + n mod 10) :: acc) Hq Ha') as [E1 E2]. split; [|exact E2].
      rewrite E1, digits_value_cons. cbn [length]. rewrite Nat2Z.inj_succ, Z.pow_succ_r by lia.
      replace (48 + n mod 10 - 48) with (n mod 10) by lia.
      assert (En : Z.of_N n = (10 * Z.of_N (n / 10) + Z.of_N (n mod 10))%Z) by lia.
      rewrite En. ring.
Qed.

Lemma dec_digits_nonempty f : forall n acc, acc <> [] -> dec_digits f n acc <> [].
Proof.
  induction f as [|f IH]; intros n acc H; [exact H|]. cbn [dec_digits].
  destruct (n <? 10); [discriminate|]. apply IH. discriminate.
Qed.

Lemma N_dec_spec n :
  digits_value (N_dec n) = Z.of_N n /\ all_digits (N_dec n) /\ N_dec n <> [].
Proof.
  unfold N_dec.
  assert (Hn : n < 10 ^ N.of_nat (S (N.to_nat (N.size n)))).
  { rewrite Nat2N.inj_succ, N2Nat.id, N.pow_succ_r'.
    pose proof (N.size_gt n) as H2.
    assert (2 ^ N.size n <= 10 ^ N.size n) by (apply N.pow_le_mono_l; lia).
    assert (0 < 10 ^ N.size n) by (apply N.neq_0_lt_0, N.pow_nonzero; discriminate). lia. }
  destruct (dec_digits_spec _ n [] Hn eq_refl) as [E1 E2].
  split; [rewrite E1; cbn; lia|]. split; [exact E2|].
  cbn [dec_digits]. destruct (n <? 10); [discriminate|]. apply dec_digits_nonempty. discriminate.
Qed.

(** What may follow a value inside a document: not something that would
    continue a number. *)
Definition tail_ok (rest : str) : Prop :=
  match rest with
  | [] => True
  | c :: _ => is_digit c = false /\ (c =? DOT) || is_e c = false
  end.

Lemma jnumber_Z_dec z rest : tail_ok rest -> jnumber (Z_dec z ++ rest) = Some (JInt z, rest).
Proof.
  intros Ht.
  assert (Hnd : hd_not_digit rest) by (destruct rest; [exact I|exact (proj1 Ht)]).
  assert (Hfl : match rest with c :: _ => (c =? DOT) || is_e c | [] => false end = false)
    by (destruct rest; [reflexivity|exact (proj2 Ht)]).
  assert (Hpos : forall n, n <> 0 -> jnumber (N_dec n ++ rest) = Some (JInt (Z.of_N n), rest)
                           /\ jnumber (45 :: N_dec n ++ rest) = Some (JInt (- Z.of_N n), rest)).
  { intros n _. destruct (N_dec_spec n) as (E1 & E2 & E3).
    destruct (all_digits_hd _ E2 E3) as (d & t & Ed & Hd & _).
    unfold jnumber. split.
    - rewrite Ed at 1. cbn [app opt_minus].
      apply digit_facts in Hd as (Hm & _). apply N.eqb_neq in Hm. rewrite Hm.
      change (d :: t ++ rest) with ((d :: t) ++ rest). rewrite <- Ed.
      rewrite (span_digits_app _ _ E2 Hnd). rewrite Ed at 1. rewrite Hfl, E1. reflexivity.
    - cbn [opt_minus]. change (45 =? MINUS) with true. cbn match.
      rewrite (span_digits_app _ _ E2 Hnd). rewrite Ed at 1. rewrite Hfl, E1. reflexivity. }
  destruct z as [|p|p]; cbn [Z_dec].
  - unfold jnumber. cbn [app opt_minus]. change (48 =? MINUS) with false. cbn match.
    change (48 :: rest) with ([48] ++ rest). rewrite (span_digits_app [48] rest eq_refl Hnd).
    rewrite Hfl. reflexivity.
  - apply (Hpos (Npos p)). discriminate.
  - apply (Hpos (Npos p)). discriminate.
Qed.

(** * Values *)

Inductive jv_ok : jv -> Prop :=
| ok_null : jv_ok JNull
| ok_bool b : jv_ok (JBool b)
| ok_int z : jv_ok (JInt z)
| ok_str s : str_ok s -> jv_ok (JStr s)
| ok_list l : Forall jv_ok l -> jv_ok (JList l)
| ok_dict kvs : Forall (fun kv => str_ok (fst kv) /\ jv_ok (snd kv)) kvs -> jv_ok (JDict kvs).

(** Induction over values with the nested lists. *)
Fixpoint jv_nested_ind (P : jv -> Prop)
  (Hn : P JNull) (Hb : forall b, P (JBool b)) (Hi : forall z, P (JInt z)) (Hs : forall s, P (JStr s))
  (Hl : forall l, Forall P l -> P (JList l))
  (Hd : forall kvs, Forall (fun kv => P (snd kv)) kvs -> P (JDict kvs))
  (v : jv) {struct v} : P v :=
  match v with
  | JNull => Hn
  | JBool b => Hb b
  | JInt z => Hi z
  | JStr s => Hs s
  | JList l =>
      Hl l ((fix go (l : list jv) : Forall P l :=
               match l with
               | [] => Forall_nil P
               | x :: r => Forall_cons x (jv_nested_ind P Hn Hb Hi Hs Hl Hd x) (go r)
               end) l)
  | JDict kvs =>
      Hd kvs ((fix go (l : list (str * jv)) : Forall (fun kv => P (snd kv)) l :=
                 match l with
                 | [] => Forall_nil _
                 | kv :: r => Forall_cons kv (jv_nested_ind P Hn Hb Hi Hs Hl Hd (snd kv)) (go r)
                 end) kvs)
  end.

Fixpoint enc_items (l : list jv) : str :=
  match l with
  | [] => []
  | x :: r => json_encode x ++ match r with [] => [] | _ => item_sep ++ enc_items r end
  end.

Fixpoint enc_members (l : list (str * jv)) : str :=
  match l with
  | [] => []
  | (k, x) :: r => json_string k ++ key_sep ++ json_encode x
                   ++ match r with [] => [] | _ => item_sep ++ enc_members r end
  end.

Lemma json_encode_list l : json_encode (JList l) = 91 :: enc_items l ++ [93].
Proof.
  reflexivity.
Qed.

Lemma json_encode_dict l : json_encode (JDict l) = 123 :: enc_members l ++ [125].
Proof.
  reflexivity.
Qed.

Lemma starts_app p rest : starts p (p ++ rest) = Some rest.
Proof.
  unfold starts. induction p as [|x p IH]; [reflexivity|]. cbn [app]. rewrite N.eqb_refl. exact IH.
Qed.

(** The decoding statement for one value, with enough fuel. *)
Definition decodes (v : jv) : Prop :=
  forall f rest, tail_ok rest -> (2 * length (json_encode v ++ rest) <= f)%nat ->
  jvalue f (json_encode v ++ rest) = Some (v, rest).

Lemma json_encode_nonempty v : exists c t, json_encode v = c :: t.
Proof.
  destruct v as [| [|] |z|s|l|l]; try (eexists _, _; reflexivity).
  destruct z; cbn [json_encode Z_dec]; try (eexists _, _; reflexivity).
  - destruct (N_dec_spec (N.pos p)) as (_ & _ & H). destruct (N_dec (N.pos p)); [congruence|].
    eexists _, _; reflexivity.
Qed.

Lemma tail_ok_sep r : tail_ok (item_sep ++ r).
Proof. split; reflexivity. Qed.
Lemma tail_ok_93 r : tail_ok (93 :: r).
Proof. split; reflexivity. Qed.
Lemma tail_ok_125 r : tail_ok (125 :: r).
Proof. split; reflexivity. Qed.

Lemma jelems_enc l : l <> [] -> Forall decodes l -> forall f rest,
  (2 * length (enc_items l ++ 93%N :: rest) + 1 <= f)%nat ->
  jelems f (enc_items l ++ 93 :: rest) = Some (l, rest).
Proof.
  induction l as [|x r IH]; intros Hne Hall f rest Hf; [congruence|].
  inversion Hall as [|? ? Hx Hr]; subst.
  destruct f as [|f]; [lia|]. cbn [jelems].
  destruct r as [|y r'].
  - cbn [enc_items] in *. rewrite app_nil_r in *.
    rewrite (Hx f (93 :: rest) (tail_ok_93 _)) by lia. reflexivity.
  - change (enc_items (x :: y :: r')) with (json_encode x ++ item_sep ++ enc_items (y :: r')) in *.
    rewrite <- !app_assoc in *.
    set (R := enc_items (y :: r') ++ 93 :: rest) in *.
    rewrite (Hx f (item_sep ++ R) (tail_ok_sep _)) by lia.
    change (item_sep ++ R) with (44 :: 32 :: R) at 1. change (44 =? 93) with false. cbn match.
    rewrite starts_app. unfold R.
    rewrite (IH ltac:(discriminate) Hr f rest); [reflexivity|].
    fold R. rewrite !app_length in Hf. cbn [length item_sep] in Hf. lia.
Qed.

Lemma jmembers_enc l : l <> [] ->
  Forall (fun kv => str_ok (fst kv) /\ decodes (snd kv)) l -> forall f rest,
  (2 * length (enc_members l ++ 125%N :: rest) + 1 <= f)%nat ->
  jmembers f (enc_members l ++ 125 :: rest) = Some (l, rest).
Proof.
  induction l as [|[k x] r IH]; intros Hne Hall f rest Hf; [congruence|].
  inversion Hall as [|? ? [Hk Hx] Hr]; subst. cbn [fst snd] in *.
  destruct f as [|f]; [lia|]. cbn [jmembers].
  assert (Es : forall T, enc_members ((k, x) :: r) ++ T
            = 34 :: json_body k ++ 34 :: key_sep ++ json_encode x
              ++ (match r with [] => [] | _ => item_sep ++ enc_members r end) ++ T).
  { intros T. cbn [enc_members]. unfold json_string. cbn [app].
    repeat (rewrite <- app_assoc; cbn [app]). reflexivity. }
  rewrite Es in *. change (34 =? 34) with true. cbn match.
  rewrite (jstring_body k Hk). rewrite starts_app.
  destruct r as [|y r'].
  - cbn [app] in *.
    repeat first [rewrite app_length in Hf | progress (cbn [length key_sep item_sep] in Hf)].
    rewrite (Hx f (125 :: rest) (tail_ok_125 _)) by (rewrite app_length; cbn [length]; lia).
    reflexivity.
  - repeat first [rewrite app_length in Hf | progress (cbn [length key_sep item_sep] in Hf)].
    rewrite <- app_assoc.
    set (R := enc_members (y :: r') ++ 125 :: rest) in *.
    assert (HR : (2 * length R + 1 <= f)%nat).
    { unfold R. rewrite app_length. cbn [length]. lia. }
    rewrite (Hx f (item_sep ++ R) (tail_ok_sep _))
      by (rewrite !app_length; unfold R; rewrite app_length; cbn [length item_sep]; lia).
    change (item_sep ++ R) with (44 :: 32 :: R) at 1. change (44 =? 125) with false. cbn match.
    rewrite starts_app. unfold R.
    rewrite (IH ltac:(discriminate) Hr f rest HR). reflexivity.
Qed.

Lemma Z_dec_hd z : exists c t, Z_dec z = c :: t /\ (c = 45 \/ is_digit c = true).
Proof.
  destruct z as [|p|p]; cbn [Z_dec].
  - eexists _, _; split; [reflexivity|right; reflexivity].
  - destruct (N_dec_spec (N.pos p)) as (_ & E2 & E3).
    destruct (all_digits_hd _ E2 E3) as (d & t & -> & Hd & _).
    eexists _, _; split; [reflexivity|right; exact Hd].
  - eexists _, _; split; [reflexivity|left; reflexivity].
Qed.

Lemma json_encode_hd v : exists c t, json_encode v = c :: t /\ c <> 93 /\ c <> 125.
Proof.
  destruct v as [| [|] |z|s|l|l]; try (eexists _, _; split; [reflexivity|split; discriminate]).
  destruct (Z_dec_hd z) as (c & t & E & Hc). exists c, t. cbn [json_encode]. split; [exact E|].
  destruct Hc as [Hc|Hd]; [subst c; split; discriminate|].
  unfold is_digit in Hd. apply andb_true_iff in Hd as [H1 H2]. apply N.leb_le in H1, H2. split; lia.
Qed.

Lemma decodes_all v : jv_ok v -> decodes v.
Proof.
  induction v as [|b|z|s|l IH|kvs IH] using jv_nested_ind; intros Hok f rest Ht Hf.
  - destruct f as [|f]; [cbn in Hf; lia|]. cbn [json_encode]. unfold s_null at 1. cbn [app jvalue].
    change (110 =? 34) with false. change (110 =? 91) with false. change (110 =? 123) with false.
    cbn match. change (110 :: 117 :: 108 :: 108 :: rest) with (s_null ++ rest).
    rewrite starts_app. reflexivity.
  - destruct f as [|f]; [destruct b; cbn in Hf; lia|]. destruct b; cbn [json_encode].
    + unfold s_true at 1. cbn [app jvalue].
      change (116 =? 34) with false. change (116 =? 91) with false. change (116 =? 123) with false.
      cbn match. change (116 :: 114 :: 117 :: 101 :: rest) with (s_true ++ rest).
      rewrite starts_app. reflexivity.
    + unfold s_false at 1. cbn [app jvalue].
      change (102 =? 34) with false. change (102 =? 91) with false. change (102 =? 123) with false.
      cbn match. change (102 :: 97 :: 108 :: 115 :: 101 :: rest) with (s_false ++ rest).
      rewrite starts_app. reflexivity.
  - cbn [json_encode] in *. destruct (Z_dec_hd z) as (c & t & E & Hc).
    assert (Hne : (c =? 34) = false /\ (c =? 91) = false /\ (c =? 123) = false
                  /\ (110 =? c) = false /\ (116 =? c) = false /\ (102 =? c) = false).
    { destruct Hc as [->|Hd]; [repeat split|].
      unfold is_digit in Hd. apply andb_true_iff in Hd as [H1 H2]. apply N.leb_le in H1, H2.
      repeat split; apply N.eqb_neq; lia. }
    destruct Hne as (N1 & N2 & N3 & N4 & N5 & N6).
    destruct f as [|f]; [rewrite E in Hf; cbn in Hf; lia|].
    pose proof (jnumber_Z_dec z rest Ht) as Hn. rewrite E in *. cbn [app jvalue].
    rewrite N1, N2, N3. unfold starts, s_null, s_true, s_false. rewrite N4, N5, N6. exact Hn.
  - inversion Hok as [| | |s' Hs| |]; subst.
    destruct f as [|f]; [cbn in Hf; lia|]. cbn [json_encode]. unfold json_string. cbn [app jvalue].
    change (34 =? 34) with true. cbn match. rewrite <- app_assoc. cbn [app].
    rewrite (jstring_body s Hs). reflexivity.
  - inversion Hok as [| | | |l' Hl|]; subst.
    assert (Hall : Forall decodes l).
    { rewrite Forall_forall in *. intros x Hx. apply IH; [assumption|apply Hl; assumption]. }
    rewrite json_encode_list in *. destruct f as [|f]; [cbn in Hf; lia|].
    cbn [app jvalue]. change (91 =? 34) with false. change (91 =? 91) with true. cbn match.
    destruct l as [|x r].
    + cbn [enc_items app]. change (93 =? 93) with true. reflexivity.
    + destruct (json_encode_hd x) as (c & t & E & Nc & _).
      assert (Eh : exists t', (enc_items (x :: r) ++ [93]) ++ rest = c :: t').
      { cbn [enc_items]. rewrite E. eexists. reflexivity. }
      destruct Eh as (t' & Eh). rewrite Eh. apply N.eqb_neq in Nc. rewrite Nc. rewrite <- Eh.
      rewrite <- app_assoc. cbn [app].
      rewrite (jelems_enc (x :: r) ltac:(discriminate) Hall f rest); [reflexivity|].
      repeat first [rewrite app_length in Hf | progress (cbn [length app] in Hf)].
      repeat first [rewrite app_length | progress (cbn [length app])]. lia.
  - inversion Hok as [| | | | |kvs' Hl]; subst.
    assert (Hall : Forall (fun kv => str_ok (fst kv) /\ decodes (snd kv)) kvs).
    { rewrite Forall_forall in *. intros kv Hkv. destruct (Hl kv Hkv) as [H1 H2].
      split; [assumption|apply IH; assumption]. }
    rewrite json_encode_dict in *. destruct f as [|f]; [cbn in Hf; lia|].
    cbn [app jvalue]. change (123 =? 34) with false. change (123 =? 91) with false.
    change (123 =? 123) with true. cbn match.
    destruct kvs as [|[k x] r].
    + cbn [enc_members app]. change (125 =? 125) with true. reflexivity.
    + assert (Eh : exists t', (enc_members ((k, x) :: r) ++ [125]) ++ rest = 34 :: t').
      { cbn [enc_members]. unfold json_string. cbn [app]. eexists. reflexivity. }
      destruct Eh as (t' & Eh). rewrite Eh. change (34 =? 125) with false. cbn match. rewrite <- Eh.
      rewrite <- app_assoc. cbn [app].
      rewrite (jmembers_enc ((k, x) :: r) ltac:(discriminate) Hall f rest); [reflexivity|].
      repeat first [rewrite app_length in Hf | progress (cbn [length app] in Hf)].
      repeat first [rewrite app_length | progress (cbn [length app])]. lia.
Qed.

(** The json filter's output decodes to its input. *)
Theorem json_roundtrip v : jv_ok v -> json_decode (json_filter v) = Some v.
Proof.
  intros H. unfold json_decode, json_filter.
  pose proof (decodes_all v H (S (2 * length (json_encode v))) [] I) as D.
  rewrite app_nil_r in D. rewrite D by lia. reflexivity.
Qed.

(** Non-vacuity: a nested value with quotes, controls, non-ASCII and astral
    characters, a big integer, empty containers. *)
Example json_example :
  let v := JDict [([97; 34], JList [JInt (-(10 ^ 40))%Z; JNull; JBool true; JStr [233; 128512; 127; 9; 1; 92]]);
                  ([], JDict []); ([36; 123], JList [])] in
  jv_ok v /\ json_decode (json_filter v) = Some v.
Proof.
  split; [|vm_compute; reflexivity].
  repeat (first [ apply ok_dict | apply ok_list | apply ok_str | apply ok_int | apply ok_null | apply ok_bool
                | apply Forall_cons | apply Forall_nil | split ]; cbn [fst snd]).
  all: unfold scalar; try lia.
Qed.

(** * Every string of scalar values >= 8 has a spelling: its JSON text is one *)
From LQ Require Import Kernels.Unescape Kernels.StrScan Proofs.StrScan_proofs.

Lemma hexval_hexdigit x : x < 16 -> hexval (hexdigit x) = Some x.
Proof.
  intros H. unfold hexdigit, hexval.
  destruct (N.ltb_spec x 10).
  - replace ((48 <=? 48 + x) && (48 + x <=? 57)) with true
      by (symmetry; apply andb_true_iff; split; apply N.leb_le; lia).
    f_equal. lia.
  - replace ((48 <=? 87 + x) && (87 + x <=? 57)) with false
      by (symmetry; apply andb_false_iff; right; apply N.leb_gt; lia).
    replace ((65 <=? 87 + x) && (87 + x <=? 70)) with false
      by (symmetry; apply andb_false_iff; right; apply N.leb_gt; lia).
    replace ((97 <=? 87 + x) && (87 + x <=? 102)) with true
      by (symmetry; apply andb_true_iff; split; apply N.leb_le; lia).
    f_equal. lia.
Qed.

Lemma hex4_hex4_of n : n < 65536 ->
  match hex4_of n with
  | [a; b; c; d] => hex4 a b c d = Some n
  | _ => False
  end.
Proof.
  intros H. unfold hex4_of, hex4.
  rewrite !hexval_hexdigit by lia. f_equal. lia.
Qed.

Lemma json_escape_char_piece c : scalar c -> 8 <= c -> LPiece DQ c (json_escape_char c).
Proof.
  intros [Hc Hs] H8. unfold json_escape_char.
  destruct (N.eqb_spec c 34) as [->|N1]; [apply (LP_esc DQ 34); reflexivity|].
  destruct (N.eqb_spec c 92) as [->|N2]; [apply (LP_esc DQ 92); reflexivity|].
  destruct (N.eqb_spec c 10) as [->|N3]; [apply (LP_esc DQ 110); reflexivity|].
  destruct (N.eqb_spec c 13) as [->|N4]; [apply (LP_esc DQ 114); reflexivity|].
  destruct (N.eqb_spec c 9) as [->|N5]; [apply (LP_esc DQ 116); reflexivity|].
  destruct (N.eqb_spec c 12) as [->|N6]; [apply (LP_esc DQ 102); reflexivity|].
  destruct (N.eqb_spec c 8) as [->|N7]; [apply (LP_esc DQ 98); reflexivity|].
  destruct ((32 <=? c) && (c <=? 126)) eqn:Ep.
  { apply LP_self; assumption. }
  destruct (N.ltb_spec c 0x10000) as [Hb|Hb].
  { pose proof (hex4_hex4_of c Hb) as H4. unfold u_escape.
    destruct (hex4_of c) as [|a [|b [|c1 [|d [|? ?]]]]]; try contradiction.
    apply LP_hex; [exact H4| |exact H8].
    unfold is_surrogate. destruct (N.leb_spec 0xD800 c), (N.leb_spec c 0xDFFF); cbn [andb]; try reflexivity. lia. }
  destruct (surrogates_of c ltac:(lia)) as [Ehi Elo].
  set (n := c - 0x10000) in *.
  set (hi := N.lor 0xD800 (N.land (N.shiftr n 10) 0x3FF)) in *.
  set (lo := N.lor 0xDC00 (N.land n 0x3FF)) in *.
  assert (Hn : n < 0x100000) by (subst n; lia).
  assert (Hhi : hi < 65536 /\ 0xD800 <= hi <= 0xDBFF) by (rewrite Ehi; lia).
  assert (Hlo : lo < 65536 /\ 0xDC00 <= lo <= 0xDFFF) by (rewrite Elo; lia).
  pose proof (hex4_hex4_of hi (proj1 Hhi)) as H4h.
  pose proof (hex4_hex4_of lo (proj1 Hlo)) as H4l.
  unfold u_escape.
  destruct (hex4_of hi) as [|a [|b [|c1 [|d [|? ?]]]]]; try contradiction.
  destruct (hex4_of lo) as [|e [|f [|g [|h [|? ?]]]]]; try contradiction.
  replace c with (pair_value hi lo) at 1.
  - cbn [app]. apply LP_pair; try assumption.
    + unfold is_high_surrogate. apply andb_true_iff; split; apply N.leb_le; lia.
    + unfold is_low_surrogate. apply andb_true_iff; split; apply N.leb_le; lia.
  - unfold pair_value. rewrite Ehi, Elo. subst n. lia.
Qed.

(** For ALL strings of Unicode scalar values >= U+0008 a valid spelling exists
    (so the round-trip theorems are not vacuous for any such string), and the
    JSON text of the string is one. *)
Theorem enc_exists s : str_ok s -> Forall (fun c => 8 <= c) s -> Enc DQ s (json_body s).
Proof.
  intros Hs H8. induction Hs as [|c s Hc Hs IH]; [constructor|].
  inversion H8; subst. unfold json_body. cbn [flat_map]. constructor.
  - apply json_escape_char_piece; assumption.
  - apply IH; assumption.
Qed.
