(** Proofs/CrossModel_ws.v — the kernels of C18 (Trim), C19 (FVal), C17
    (LexUni), C04 (Markup), C15 (Translate) and C08 (Inherit) each carry their own
    transcription of CPython's [str.isspace] table, written independently and
    each compared with the running interpreter by its own harness.  Here they are
    proved to be the same function on ALL code points (Inherit's on the code
    points below 256 it is defined for): above U+3000 every one of them is
    false (arithmetic), up to U+3000 they are compared one by one inside the
    kernel and the sweep is lifted with [forallb_forall]. *)
From LQ Require Import Base.Str.
From LQ Require Kernels.Trim Kernels.FVal Kernels.LexUni Kernels.Markup Kernels.Translate Kernels.Inherit.
From Coq Require Import NArith List Bool Lia.
Import ListNotations.
Local Open Scope N_scope.

Ltac decide_cmp :=
  repeat match goal with
  | |- context [N.leb ?a ?b] =>
      first [rewrite (proj2 (N.leb_le a b)) by lia | rewrite (proj2 (N.leb_gt a b)) by lia]
  | |- context [N.ltb ?a ?b] =>
      first [rewrite (proj2 (N.ltb_lt a b)) by lia | rewrite (proj2 (N.ltb_ge a b)) by lia]
  | |- context [N.eqb ?a ?b] => rewrite (proj2 (N.eqb_neq a b)) by lia
  end.

Definition LIMIT : N := 12288.

Lemma fval_above c : LIMIT < c -> FVal.py_isspace c = false.
Proof. unfold LIMIT, FVal.py_isspace. intro H. decide_cmp. reflexivity. Qed.

Lemma trim_above c : LIMIT < c -> Trim.is_ws c = false.
Proof. unfold LIMIT, Trim.is_ws. intro H. decide_cmp. reflexivity. Qed.

Lemma lexuni_above c : LIMIT < c -> LexUni.is_space c = false.
Proof.
  unfold LIMIT, LexUni.is_space, LexUni.space_ranges. intro H.
  cbn [LexUni.in_ranges]. decide_cmp. reflexivity.
Qed.

Lemma translate_above c : LIMIT < c -> Translate.is_space c = false.
Proof.
  unfold LIMIT, Translate.is_space, Translate.ws_chars. intro H.
  cbn [existsb]. decide_cmp. reflexivity.
Qed.

(** the code points 0 .. LIMIT *)
Definition sweep : list N := map N.of_nat (seq 0 (S (N.to_nat LIMIT))).

Lemma in_sweep c : c <= LIMIT -> In c sweep.
Proof.
  intro H. unfold sweep. apply in_map_iff. exists (N.to_nat c). split.
  - apply N2Nat.id.
  - apply in_seq. lia.
Qed.

Definition agree_at (c : N) : bool :=
  Bool.eqb (Trim.is_ws c) (FVal.py_isspace c)
  && Bool.eqb (LexUni.is_space c) (FVal.py_isspace c)
  && Bool.eqb (Translate.is_space c) (FVal.py_isspace c)
  && (if c <? 256 then Bool.eqb (Inherit.is_ws c) (FVal.py_isspace c) else true).

Lemma sweep_agrees : forallb agree_at sweep = true.
Proof. vm_compute. reflexivity. Qed.

Theorem isspace_models_agree (c : N) :
  Trim.is_ws c = FVal.py_isspace c
  /\ LexUni.is_space c = FVal.py_isspace c
  /\ Translate.is_space c = FVal.py_isspace c
  /\ (c < 256 -> Inherit.is_ws c = FVal.py_isspace c).
Proof.
  destruct (N.le_gt_cases c LIMIT) as [Hle|Hgt].
  - pose proof (proj1 (forallb_forall agree_at sweep) sweep_agrees c (in_sweep c Hle)) as H.
    unfold agree_at in H.
    apply andb_true_iff in H; destruct H as [H H4].
    apply andb_true_iff in H; destruct H as [H H3].
    apply andb_true_iff in H; destruct H as [H1 H2].
    repeat split; try (apply eqb_prop; assumption).
    intro Hc. apply N.ltb_lt in Hc. rewrite Hc in H4. apply eqb_prop; assumption.
  - rewrite trim_above, lexuni_above, translate_above, fval_above by assumption.
    repeat split; try reflexivity. unfold LIMIT in Hgt. lia.
Qed.

(** The C04 kernel classifies tagged characters through their code point. *)
Theorem markup_isspace_agrees (c : char) : Markup.is_ws c = FVal.py_isspace (Markup.cp c).
Proof. reflexivity. Qed.
