(** Proofs/ErrCtx_proofs.v — the error formatter never raises, for every text
    and every non-negative position, and the line/column it reports exist. *)
From LQ Require Import Base.Str Kernels.LexUni Kernels.ErrCtx.

Lemma locate_spec lines : forall index cum i t c,
  locate lines index cum i = Some (t, c) ->
  i <= t /\ t - i < length lines /\
  exists l, nth_error lines (t - i) = Some l /\ index < c /\ length l <= c.
Proof.
  induction lines as [|l ls IH]; simpl; intros index cum i t c H; [discriminate|].
  destruct (index <? cum + length l) eqn:E.
  - inversion H; subst. apply Nat.ltb_lt in E. rewrite Nat.sub_diag. simpl.
    split; [lia|]. split; [lia|]. exists l. split; [reflexivity|]. split; lia.
  - apply IH in H as (A & B & l' & C & F & G).
    split; [lia|]. split; [lia|]. exists l'.
    replace (t - i) with (S (t - S i)) by lia. simpl. auto.
Qed.

(** When the scan starts at 0 the located line really contains the index. *)
Lemma locate_from cum0 lines : forall index cum i t c,
  cum <= index \/ cum = cum0 ->
  locate lines index cum i = Some (t, c) ->
  exists l, nth_error lines (t - i) = Some l /\ (cum <= index -> c - length l <= index) /\ index < c.
Proof.
  induction lines as [|l ls IH]; simpl; intros index cum i t c Hc H; [discriminate|].
  destruct (index <? cum + length l) eqn:E.
  - inversion H; subst. apply Nat.ltb_lt in E. rewrite Nat.sub_diag. exists l. simpl.
    split; [reflexivity|]. split; lia.
  - apply Nat.ltb_ge in E. destruct (IH index (cum + length l) (S i) t c (or_introl E) H) as (l' & A & B & C).
    assert (S i <= t).
    { destruct (locate_spec _ _ _ _ _ _ H) as (X & _). exact X. }
    exists l'. replace (t - i) with (S (t - S i)) by lia. simpl. split; [assumption|]. split; [|assumption].
    intros _. apply B. exact E.
Qed.

Lemma line_at_ok lines i : i < length lines -> exists l, line_at lines i = Ok l.
Proof.
  intros H. unfold line_at. destruct (nth_error lines i) eqn:E; [eauto|].
  apply nth_error_None in E. lia.
Qed.

(** [_error_context] (with fix C02/0003) returns for every text and index. *)
Lemma error_context_total text index : exists r, error_context text index = Ok r.
Proof.
  unfold error_context. destruct (splitlines text) as [|l0 ls] eqn:El; [eauto|].
  set (lines := l0 :: ls) in *.
  assert (Hne : 0 < length lines) by (subst lines; simpl; lia).
  destruct (locate lines index 0 0) as [[t c]|] eqn:E.
  - destruct (locate_spec _ _ _ _ _ _ E) as (_ & B & _). rewrite Nat.sub_0_r in B.
    destruct (line_at_ok lines t B) as (cur & ->). cbn [bind].
    destruct (0 <? t) eqn:E0.
    + destruct (line_at_ok lines (t - 1) ltac:(lia)) as (p & ->). cbn [bind].
      destruct (t <? length lines - 1) eqn:E1.
      * apply Nat.ltb_lt in E1. destruct (line_at_ok lines (t + 1) ltac:(lia)) as (n & ->). cbn [bind]. eauto.
      * cbn [bind]. eauto.
    + cbn [bind]. destruct (t <? length lines - 1) eqn:E1.
      * apply Nat.ltb_lt in E1. destruct (line_at_ok lines (t + 1) ltac:(lia)) as (n & ->). cbn [bind]. eauto.
      * cbn [bind]. eauto.
  - destruct (line_at_ok lines (length lines - 1) ltac:(lia)) as (cur & ->). cbn [bind].
    rewrite Nat.ltb_irrefl.
    destruct (0 <? length lines - 1) eqn:E0.
    + destruct (line_at_ok lines (length lines - 1 - 1) ltac:(lia)) as (p & ->). cbn [bind]. eauto.
    + cbn [bind]. eauto.
Qed.

(** The reported line exists and the column lies on it (or just past its end). *)
Lemma error_context_position text index ln col prev cur next :
  error_context text index = Ok (ln, col, prev, cur, next) ->
  1 <= ln /\ ln <= Nat.max 1 (length (splitlines text)) /\
  (splitlines text <> [] ->
     exists l, nth_error (splitlines text) (ln - 1) = Some l /\ col <= length l /\ cur = rstrip l).
Proof.
  unfold error_context. destruct (splitlines text) as [|l0 ls] eqn:El.
  { intros H; inversion H; subst. simpl. split; [lia|]. split; [lia|]. intros X; contradiction. }
  set (lines := l0 :: ls) in *.
  assert (Hne : 0 < length lines) by (subst lines; simpl; lia).
  assert (Hll : length lines = S (length ls)) by reflexivity.
  destruct (locate lines index 0 0) as [[t c]|] eqn:E.
  - destruct (locate_spec _ _ _ _ _ _ E) as (_ & B & l & C & F & G). rewrite Nat.sub_0_r in B, C.
    unfold line_at at 1. rewrite C. cbn [bind].
    destruct (if 0 <? t then _ else _) as [p| | |]; cbn [bind]; try discriminate.
    destruct (if t <? length lines - 1 then _ else _) as [n| | |]; cbn [bind]; try discriminate.
    intros H; injection H as <- <- <- <- <-. split; [lia|]. split; [lia|]. intros _.
    exists l. replace (t + 1 - 1) with t by lia. split; [assumption|]. split; [lia|reflexivity].
  - unfold line_at at 1. destruct (nth_error lines (length lines - 1)) as [l|] eqn:C; cbn [bind]; [|discriminate].
    destruct (if 0 <? length lines - 1 then _ else _) as [p| | |]; cbn [bind]; try discriminate.
    destruct (if length lines - 1 <? length lines - 1 then _ else _) as [n| | |]; cbn [bind]; try discriminate.
    intros H; injection H as <- <- <- <- <-. split; [lia|]. split; [lia|]. intros _.
    exists l. replace (length ls - 0 + 1 - 1) with (length lines - 1) by lia.
    split; [assumption|]. split; [lia|reflexivity].
Qed.

(** [splitlines] loses nothing: the lines concatenate to the text. *)
Lemma splitlines_aux_concat : forall r cur, concat (splitlines_aux cur r) = rev cur ++ r.
Proof.
  intros r. remember (length r) as n eqn:Hn. revert r Hn.
  induction n as [n IH] using lt_wf_ind. intros r Hn cur.
  destruct r as [|c r1]; cbn [splitlines_aux].
  - destruct cur; simpl; [reflexivity|]. rewrite !app_nil_r. reflexivity.
  - simpl in Hn.
    assert (Hstep : concat (if is_linebreak c then rev (c :: cur) :: splitlines_aux [] r1
                            else splitlines_aux (c :: cur) r1) = rev cur ++ c :: r1).
    { destruct (is_linebreak c).
      - simpl. rewrite (IH (length r1) ltac:(lia) r1 eq_refl (@nil N)). simpl. rewrite <- app_assoc. reflexivity.
      - rewrite (IH (length r1) ltac:(lia) r1 eq_refl (c :: cur)). simpl. rewrite <- app_assoc. reflexivity. }
    cbv zeta. destruct r1 as [|d r2]; [exact Hstep|].
    destruct (N.eqb c 13 && N.eqb d 10)%bool; [|exact Hstep].
    simpl. simpl in Hn. rewrite (IH (length r2) ltac:(lia) r2 eq_refl (@nil N)). simpl.
    rewrite <- !app_assoc. reflexivity.
Qed.

Lemma splitlines_concat text : concat (splitlines text) = text.
Proof. unfold splitlines. rewrite splitlines_aux_concat. reflexivity. Qed.

Lemma total_len_concat (lines : list str) : forall acc,
  fold_left (fun a (l : str) => a + length l) lines acc = acc + length (concat lines).
Proof.
  induction lines as [|l ls IH]; simpl; intros acc; [lia|]. rewrite IH, app_length. lia.
Qed.

Lemma locate_none (lines : list str) : forall index cum i,
  cum <= index -> locate lines index cum i = None -> cum + length (concat lines) <= index.
Proof.
  induction lines as [|l ls IH]; simpl; intros index cum i Hc H; [lia|].
  destruct (index <? cum + length l) eqn:E; [discriminate|]. apply Nat.ltb_ge in E.
  apply IH in H; [|exact E]. rewrite app_length. lia.
Qed.

(** [messages.line_number] is defined for every position inside the text. *)
Lemma line_number_total text index :
  index < length text -> exists n, line_number text index = Ok n /\ 1 <= n <= length (splitlines text).
Proof.
  intros H. unfold line_number.
  destruct (locate (splitlines text) index 0 0) as [[t c]|] eqn:E.
  - destruct (locate_spec _ _ _ _ _ _ E) as (_ & B & _). eexists. split; [reflexivity|]. lia.
  - apply locate_none in E; [|lia]. rewrite splitlines_concat in E. lia.
Qed.

(** ... and raises ValueError exactly at or after the end (defect 8's mechanism,
    still present in messages.py, unreachable for real token positions). *)
Lemma line_number_end text index :
  length text <= index -> line_number text index = PyExc ValueError.
Proof.
  intros H. unfold line_number.
  destruct (locate (splitlines text) index 0 0) as [[t c]|] eqn:E; [|reflexivity].
  exfalso. destruct (locate_from 0 _ _ _ _ _ _ (or_intror eq_refl) E) as (l & A & _ & C).
  (* c is a partial sum of line lengths, hence <= length text *)
  assert (Hc : forall lines idx cum i t c, locate lines idx cum i = Some (t, c) ->
               c <= cum + length (concat lines)).
  { induction lines as [|x xs IH]; simpl; intros idx cum i t0 c0 H0; [discriminate|].
    destruct (idx <? cum + length x); [inversion H0; subst; rewrite app_length; lia|].
    apply IH in H0. rewrite app_length. lia. }
  apply Hc in E. rewrite splitlines_concat in E. lia.
Qed.

(** Non-vacuity: "a\n{{ x" with the end-of-input index 6 is reported at line 2,
    column 4 (the witness of defect 8, where the unfixed code raised ValueError). *)
Example error_context_example :
  error_context [97; 10; 123; 123; 32; 120]%N 6 = Ok (2, 4, [97]%N, [123; 123; 32; 120]%N, []).
Proof. vm_compute. reflexivity. Qed.

Example line_number_example : line_number [97; 10; 123; 123; 32; 120]%N 2 = Ok 2.
Proof. vm_compute. reflexivity. Qed.
