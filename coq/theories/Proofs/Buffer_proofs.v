(** Proofs/Buffer_proofs.v — the output limit is a hard bound and, when it is
    not exceeded, invisible.  Model: Kernels/Buffer.v. *)
From LQ Require Import Base.Str Kernels.Buffer.
Local Open Scope N_scope.

(** * One buffer *)

Lemma utf8_len_nonempty c s : 1 <= utf8_len (c :: s).
Proof. simpl. pose proof (utf8_len1_pos c). lia. Qed.

Lemma utf8_len_concat_cons (t : str) ss :
  utf8_len (concat (t :: ss)) = utf8_len t + utf8_len (concat ss).
Proof. simpl. apply utf8_len_app. Qed.

(** [write] on a LimitedStringIO always adds the UTF-8 length of the text to
    [size], whether it raises or not, and keeps the buffer a LimitedStringIO
    with the same limit and newline mode. *)
Lemma write_limited lim sz nl c s :
  exists c', snd (write (Limited lim sz nl c) s) = Limited lim (sz + utf8_len s) nl c'.
Proof.
  destruct s as [|x s].
  - exists c. simpl. f_equal. lia.
  - cbn [write]. destruct (Z.ltb _ _); eexists; reflexivity.
Qed.

(** Exactly when a write raises. *)
Lemma write_outcome lim sz nl c s :
  fst (write (Limited lim sz nl c) s) =
    if (negb (match s with [] => true | _ => false end)
        && (lim <? Z.of_N (sz + utf8_len s))%Z)%bool
    then LErr OutputStreamLimitError None else Ok tt.
Proof.
  destruct s as [|x s]; [reflexivity|].
  cbn [write negb andb]. destruct (Z.ltb _ _); reflexivity.
Qed.

Lemma write_ok_content lim sz nl c s b :
  write (Limited lim sz nl c) s = (Ok tt, b) ->
  b = Limited lim (sz + utf8_len s) nl (c ++ nl_apply nl s)
  /\ (Z.of_N (sz + utf8_len s) <= lim \/ s = [])%Z.
Proof.
  destruct s as [|x s].
  - simpl. intros E; inversion E; subst. split; [|now right].
    f_equal; [lia|]. destruct nl; simpl; now rewrite app_nil_r.
  - cbn [write]. destruct (Z.ltb _ _) eqn:L; intros E; inversion E; subst.
    split; [reflexivity|]. left. apply Z.ltb_ge in L. exact L.
Qed.

(** size = bytes of everything that was passed to write (attempted writes
    included). *)
Lemma writes_size lim nl : forall ss sz c,
  exists c', snd (writes (Limited lim sz nl c) ss)
             = Limited lim (sz + utf8_len (concat ss)) nl c'.
Proof.
  induction ss as [|t ss IH]; intros sz c.
  - exists c. simpl. f_equal. lia.
  - cbn [writes]. destruct (write (Limited lim sz nl c) t) as [r b1] eqn:W.
    destruct (write_limited lim sz nl c t) as [c1 H1]. rewrite W in H1. simpl in H1. subst b1.
    destruct (IH (sz + utf8_len t) c1) as [c2 H2].
    destruct (writes (Limited lim (sz + utf8_len t) nl c1) ss) as [rs b2] eqn:W2.
    simpl in *. exists c2. rewrite H2. rewrite utf8_len_app. f_equal. lia.
Qed.

Theorem limited_size_is_bytes : forall lim nl ss,
  limited_size (snd (writes (Limited lim 0 nl []) ss)) = Some (utf8_len (concat ss)).
Proof.
  intros. destruct (writes_size lim nl ss 0 []) as [c H]. rewrite H. reflexivity.
Qed.

(** If every write succeeded, the buffer holds the concatenation of what was
    written (translated chunk-wise in newline=None mode). *)
Lemma writes_ok_content lim nl : forall ss sz c rs b,
  writes (Limited lim sz nl c) ss = (rs, b) -> all_ok rs = true ->
  b = Limited lim (sz + utf8_len (concat ss)) nl (c ++ concat (map (nl_apply nl) ss)).
Proof.
  induction ss as [|t ss IH]; intros sz c rs b.
  - simpl. intros E _. inversion E; subst. rewrite app_nil_r. f_equal. lia.
  - cbn [writes]. destruct (write (Limited lim sz nl c) t) as [r b1] eqn:W.
    destruct (writes b1 ss) as [rs' b2] eqn:W2. intros E Hok. inversion E; subst.
    cbn [all_ok forallb] in Hok. apply andb_true_iff in Hok as [Hr Hrs].
    destruct r as [[]| | |]; try discriminate.
    apply write_ok_content in W as [-> _].
    rewrite (IH _ _ _ _ W2 Hrs).
    cbn [map concat]. rewrite utf8_len_app, <- app_assoc. f_equal. lia.
Qed.

(** In the default mode the text is what was written, so [size] is the number
    of bytes of [getvalue()]. *)
Theorem limited_size_is_getvalue_bytes : forall lim ss rs b,
  writes (Limited lim 0 NlKeep []) ss = (rs, b) -> all_ok rs = true ->
  getvalue b = concat ss /\ limited_size b = Some (utf8_len (getvalue b)).
Proof.
  intros lim ss rs b W Hok. apply writes_ok_content in W; [|exact Hok]. subst b.
  cbn [getvalue limited_size app nl_apply]. rewrite map_id. split; [reflexivity|].
  f_equal.
Qed.

(** Hard bound: if every write succeeded, no more than [limit] bytes are in
    the buffer. *)
Lemma writes_ok_le lim nl : forall ss sz c rs b,
  writes (Limited lim sz nl c) ss = (rs, b) -> all_ok rs = true ->
  (Z.of_N sz <= lim)%Z ->
  (Z.of_N (sz + utf8_len (concat ss)) <= lim)%Z.
Proof.
  induction ss as [|t ss IH]; intros sz c rs b.
  - simpl. intros _ _ H. rewrite N.add_0_r. exact H.
  - cbn [writes]. destruct (write (Limited lim sz nl c) t) as [r b1] eqn:W.
    destruct (writes b1 ss) as [rs' b2] eqn:W2. intros E Hok Hle. inversion E; subst.
    cbn [all_ok forallb] in Hok. apply andb_true_iff in Hok as [Hr Hrs].
    destruct r as [[]| | |]; try discriminate.
    apply write_ok_content in W as [-> Hc].
    assert (Z.of_N (sz + utf8_len t) <= lim)%Z.
    { destruct Hc as [Hc| ->]; [exact Hc|]. simpl. rewrite N.add_0_r. exact Hle. }
    specialize (IH _ _ _ _ W2 Hrs H).
    rewrite utf8_len_concat_cons. rewrite N.add_assoc. exact IH.
Qed.

Theorem single_buffer_le_limit : forall (l : N) ss rs b,
  writes (root_buffer (Some l)) ss = (rs, b) -> all_ok rs = true ->
  utf8_len (getvalue b) <= l.
Proof.
  intros l ss rs b W Hok. unfold root_buffer in W.
  pose proof (writes_ok_le _ _ _ _ _ _ _ W Hok) as H.
  apply writes_ok_content in W; [|exact Hok]. subst b.
  cbn [getvalue app nl_apply]. rewrite map_id.
  assert (Z.of_N 0 <= Z.of_N l)%Z by lia. specialize (H H0). lia.
Qed.

(** The write that would exceed the limit raises, and from then on every
    non-empty write raises too. *)
Definition over (b : buffer) : Prop :=
  match b with Limited lim sz _ _ => (lim < Z.of_N sz)%Z | _ => False end.

Lemma write_fail_over lim sz nl c s :
  fst (write (Limited lim sz nl c) s) <> Ok tt ->
  fst (write (Limited lim sz nl c) s) = LErr OutputStreamLimitError None
  /\ over (snd (write (Limited lim sz nl c) s)).
Proof.
  destruct s as [|x s]; [simpl; congruence|].
  cbn [write]. destruct (Z.ltb _ _) eqn:L; simpl; [|congruence].
  intros _. split; [reflexivity|]. apply Z.ltb_lt in L. exact L.
Qed.

Lemma over_write b s :
  over b -> s <> [] ->
  fst (write b s) = LErr OutputStreamLimitError None /\ over (snd (write b s)).
Proof.
  destruct b as [c|lim sz nl c|]; simpl; try tauto.
  intros Hov Hs. destruct s as [|x s]; [congruence|].
  pose proof (utf8_len_nonempty x s).
  destruct (Z.ltb_spec lim (Z.of_N (sz + utf8_len (x :: s)))); simpl.
  - split; [reflexivity|lia].
  - lia.
Qed.

Lemma over_write_empty b : over b -> over (snd (write b [])).
Proof. destruct b; simpl; tauto. Qed.

Lemma over_writes : forall ss b rs b',
  over b -> writes b ss = (rs, b') ->
  over b' /\ Forall2 (fun t r => t = [] \/ r = LErr OutputStreamLimitError None) ss rs.
Proof.
  induction ss as [|t ss IH]; intros b rs b' Hov.
  - simpl. intros E; inversion E; subst. split; [exact Hov|constructor].
  - cbn [writes]. destruct (write b t) as [r b1] eqn:W.
    destruct (writes b1 ss) as [rs' b2] eqn:W2. intros E; inversion E; subst.
    assert (over b1 /\ (t = [] \/ r = LErr OutputStreamLimitError None)) as [Hov1 Hr].
    { destruct t as [|x t].
      - pose proof (over_write_empty b Hov) as H. rewrite W in H. split; [exact H|now left].
      - destruct (over_write b (x :: t) Hov) as [H1 H2]; [discriminate|].
        rewrite W in H1, H2. simpl in *. split; [exact H2|now right]. }
    destruct (IH _ _ _ Hov1 W2) as [Hb Hf]. split; [exact Hb|].
    constructor; assumption.
Qed.

Lemma writes_app : forall ss1 ss2 b,
  writes b (ss1 ++ ss2) =
    (fst (writes b ss1) ++ fst (writes (snd (writes b ss1)) ss2),
     snd (writes (snd (writes b ss1)) ss2)).
Proof.
  induction ss1 as [|t ss1 IH]; intros ss2 b.
  - simpl. destruct (writes b ss2); reflexivity.
  - cbn [app writes]. destruct (write b t) as [r b1].
    rewrite IH. destruct (writes b1 ss1) as [rs1 b2]. simpl.
    destruct (writes b2 ss2); reflexivity.
Qed.

Theorem over_limit_fails : forall lim sz nl c ss1 s ss2,
  let b1 := snd (writes (Limited lim sz nl c) ss1) in
  fst (write b1 s) <> Ok tt ->
  fst (write b1 s) = LErr OutputStreamLimitError None
  /\ Forall2 (fun t r => t = [] \/ r = LErr OutputStreamLimitError None)
       ss2 (fst (writes (snd (write b1 s)) ss2)).
Proof.
  intros lim sz nl c ss1 s ss2 b1 Hf.
  destruct (writes_size lim nl ss1 sz c) as [c1 H1]. subst b1. rewrite H1 in *.
  destruct (write_fail_over _ _ _ _ _ Hf) as [E Hov]. split; [exact E|].
  destruct (writes (snd (write (Limited lim (sz + utf8_len (concat ss1)) nl c1) s)) ss2)
    as [rs b'] eqn:W.
  exact (proj2 (over_writes _ _ _ _ Hov W)).
Qed.

(** A write raises exactly when the bytes written so far plus the bytes of the
    new text exceed the limit (and the text is not empty). *)
Theorem write_raises_iff : forall lim sz nl c s,
  fst (write (Limited lim sz nl c) s) = LErr OutputStreamLimitError None
  <-> (s <> [] /\ (lim < Z.of_N (sz + utf8_len s))%Z).
Proof.
  intros. rewrite write_outcome. destruct s as [|x s].
  - simpl. split; [discriminate|intros [H _]; congruence].
  - cbn [negb andb]. destruct (Z.ltb_spec lim (Z.of_N (sz + utf8_len (x :: s)))).
    + split; [intros _; split; [discriminate|assumption]|reflexivity].
    + split; [discriminate|intros [_ H']; lia].
Qed.

(** Universal-newlines mode changes the text: why LimitedStringIO must not
    forward newline=None (defect 10). *)
Theorem newline_none_changes_text : exists s b,
  write (Limited 100 0 NlNone []) s = (Ok tt, b) /\ getvalue b <> s.
Proof.
  exists [97; 13; 10; 98; 13; 99]. eexists. split; [vm_compute; reflexivity|].
  vm_compute. discriminate.
Qed.

Example nl_translate_example :
  nl_translate [97; 13; 10; 98; 13; 99; 10; 13] = [97; 10; 98; 10; 99; 10; 10].
Proof. reflexivity. Qed.

(** * The buffer stack of a render *)

(** Invariant of the all-successful states of a render with output limit [L]. *)
Definition carry_of (p : buffer) : N :=
  match limited_size p with Some sz => sz | None => 0 end.

Definition buf_ok (b : buffer) : Prop :=
  match b with
  | Plain _ => False
  | Limited lim sz nl c => nl = NlKeep /\ (Z.of_N sz <= lim)%Z /\ sz = utf8_len c
  | Null => True
  end.

(** A child buffer's limit is [L] minus a carry >= 0. *)
Definition lim_ok (L : N) (b : buffer) : Prop :=
  match b with
  | Limited lim _ _ _ => (lim <= Z.of_N L)%Z
  | _ => True
  end.

Definition root_ok (L : N) (b : buffer) : Prop :=
  match b with
  | Limited lim _ _ _ => lim = Z.of_N L
  | _ => False
  end.

Fixpoint chain_ok (L : N) (b : buffer) (bl : list buffer) : Prop :=
  buf_ok b /\
  match bl with
  | [] => root_ok L b
  | p :: rest => lim_ok L b /\ chain_ok L p rest
  end.

Definition binv (L : N) (s : bstate) : Prop := chain_ok L (top s) (below s).

Lemma binv_init L : binv L (binit (Some L)).
Proof. unfold binv, binit. simpl. repeat split; lia. Qed.

Lemma write_ok_buf_ok b s b' :
  buf_ok b -> write b s = (Ok tt, b') ->
  buf_ok b' /\ getvalue b' = getvalue b ++ (match b with Null => [] | _ => s end)
  /\ (forall L, lim_ok L b -> lim_ok L b')
  /\ (forall L, root_ok L b -> root_ok L b').
Proof.
  destruct b as [c|lim sz nl c|]; simpl; try tauto.
  - intros (-> & Hle & ->) W. apply write_ok_content in W as [-> Hc].
    simpl. repeat split; auto.
    + destruct Hc as [Hc| ->]; [exact Hc|]. simpl. rewrite N.add_0_r. exact Hle.
    + rewrite utf8_len_app. reflexivity.
  - intros _ E. inversion E; subst. simpl. auto.
Qed.

Lemma buf_carry_le L b : buf_ok b -> lim_ok L b \/ root_ok L b ->
  (Z.of_N (carry_of b) <= Z.of_N L)%Z.
Proof.
  destruct b as [c|lim sz nl c|]; unfold carry_of; simpl; try tauto; try lia.
Qed.

(** Every buffer on the stack holds at most [L] bytes. *)
Lemma chain_all_carry_le L : forall bl b p,
  chain_ok L b bl -> In p (b :: bl) -> (Z.of_N (carry_of p) <= Z.of_N L)%Z.
Proof.
  induction bl as [|q rest IH]; intros b p H [<-|Hin].
  - simpl in H. apply buf_carry_le; tauto.
  - contradiction.
  - cbn [chain_ok] in H. apply buf_carry_le; tauto.
  - cbn [chain_ok] in H. destruct H as (_ & _ & Hq). exact (IH q p Hq Hin).
Qed.

Lemma bstep_ok_inv L s o s' :
  binv L s -> bstep (Some L) s o = (Ok tt, s') -> binv L s'.
Proof.
  unfold binv. destruct s as [t bl cl]. destruct o; cbn [bstep top below closed].
  - destruct (write t s) as [r b] eqn:W. intros H E. inversion E; subst. cbn [top below].
    destruct bl as [|p rest]; cbn [chain_ok] in *.
    + destruct H as [Hb Hr]. destruct (write_ok_buf_ok _ _ _ Hb W) as (H1 & _ & _ & H4). auto.
    + destruct H as (Hb & Hc & Hrest).
      destruct (write_ok_buf_ok _ _ _ Hb W) as (H1 & _ & H3 & _). auto.
  - destruct (nth_error (t :: bl) k) as [p|] eqn:Hn; [|discriminate].
    intros H E. inversion E; subst. cbn [top below chain_ok].
    pose proof (chain_all_carry_le L bl t p H (nth_error_In _ _ Hn)) as Hc.
    pose proof (N2Z.is_nonneg (carry_of p)) as Hp. unfold carry_of in Hc, Hp.
    split; [|split; [|exact H]]; simpl; repeat split; lia.
  - intros H E. inversion E; subst. cbn [top below chain_ok]. simpl. tauto.
  - destruct bl as [|p rest]; [discriminate|]. intros H E. inversion E; subst.
    cbn [top below]. cbn [chain_ok] in H. tauto.
  - destruct bl as [|p rest]; [discriminate|].
    destruct (write p (getvalue t)) as [r b] eqn:W. intros H E. inversion E; subst.
    cbn [top below]. cbn [chain_ok] in H. destruct H as (_ & _ & Hp).
    destruct rest as [|q rest']; cbn [chain_ok] in *.
    + destruct Hp as [Hb Hr]. destruct (write_ok_buf_ok _ _ _ Hb W) as (H1 & _ & _ & H4). auto.
    + destruct Hp as (Hb & Hc & Hrest).
      destruct (write_ok_buf_ok _ _ _ Hb W) as (H1 & _ & H3 & _). auto.
Qed.

Lemma brender_ok_step ol s o ops s' :
  brender ol s (o :: ops) = Ok s' ->
  exists s1, bstep ol s o = (Ok tt, s1) /\ brender ol s1 ops = Ok s'.
Proof.
  cbn [brender]. destruct (bstep ol s o) as [[[]| | |] s1]; try discriminate.
  intros H. exists s1. auto.
Qed.

Lemma brender_inv L : forall ops s s',
  binv L s -> brender (Some L) s ops = Ok s' -> binv L s'.
Proof.
  induction ops as [|o ops IH]; intros s s' Hi.
  - simpl. intros E; inversion E; subst; exact Hi.
  - intros E. apply brender_ok_step in E as (s1 & E1 & E2).
    eapply IH; [|exact E2]. eapply bstep_ok_inv; eauto.
Qed.

Lemma last_cons {A} : forall (rest : list A) p b, last (p :: rest) b = last rest p.
Proof.
  induction rest as [|q rest IH]; intros p b; [reflexivity|].
  change (last (p :: q :: rest) b) with (last (q :: rest) b).
  rewrite (IH q b). symmetry. apply IH.
Qed.

Lemma chain_root_ok L : forall bl b, chain_ok L b bl ->
  root_ok L (last bl b) /\ buf_ok (last bl b).
Proof.
  induction bl as [|p rest IH]; intros b H.
  - simpl in *. tauto.
  - cbn [chain_ok] in H. destruct H as (_ & _ & Hp).
    rewrite last_cons. exact (IH p Hp).
Qed.

(** [output_le_limit]: a render that did not raise returns at most [L] bytes. *)
Theorem output_le_limit : forall (L : N) ops s,
  brender (Some L) (binit (Some L)) ops = Ok s ->
  utf8_len (output s) <= L.
Proof.
  intros L ops s E. pose proof (brender_inv L ops _ _ (binv_init L) E) as H.
  unfold binv in H. apply chain_root_ok in H as [Hr Hb].
  unfold output, root_of. destruct (last (below s) (top s)) as [c|lim sz nl c|]; simpl in *; try tauto.
  destruct Hb as (_ & Hle & ->). subst lim. lia.
Qed.

(** Every buffer of the stack (capture buffers, block.super buffers) holds at
    most [L] bytes. *)
Theorem every_buffer_le_limit : forall (L : N) ops s b,
  brender (Some L) (binit (Some L)) ops = Ok s ->
  In b (top s :: below s) -> utf8_len (getvalue b) <= L.
Proof.
  intros L ops s b E Hin. pose proof (brender_inv L ops _ _ (binv_init L) E) as H.
  pose proof (chain_all_carry_le L _ _ b H Hin) as Hc.
  assert (Hb : buf_ok b).
  { unfold binv in H. revert Hin H. generalize (top s) (below s).
    intros t bl. revert t. induction bl as [|q rest IH]; intros t [<-|Hin] H.
    - simpl in H; tauto.
    - contradiction.
    - cbn [chain_ok] in H; tauto.
    - cbn [chain_ok] in H. destruct H as (_ & _ & Hq). exact (IH q Hin Hq). }
  destruct b as [c|lim sz nl c|]; simpl in *; try tauto; try lia.
  destruct Hb as (_ & _ & ->). unfold carry_of in Hc. simpl in Hc. lia.
Qed.

Lemma brender_app ol : forall ops1 ops2 s,
  brender ol s (ops1 ++ ops2) =
    match brender ol s ops1 with Ok s1 => brender ol s1 ops2 | e => e end.
Proof.
  induction ops1 as [|o ops1 IH]; intros ops2 s; [reflexivity|].
  cbn [app brender]. destruct (bstep ol s o) as [[[]| | |] s1]; try reflexivity. apply IH.
Qed.

Lemma brender_writes ol : forall ss s s',
  brender ol s (map Write ss) = Ok s' ->
  below s' = below s /\ closed s' = closed s
  /\ exists rs, writes (top s) ss = (rs, top s') /\ all_ok rs = true.
Proof.
  induction ss as [|t ss IH]; intros s s'.
  - simpl. intros E; inversion E; subst. repeat split. exists []. auto.
  - cbn [map]. intros E. apply brender_ok_step in E as (s1 & E1 & E2).
    cbn [bstep] in E1. destruct (write (top s) t) as [r b] eqn:W. inversion E1; subst.
    destruct (IH _ _ E2) as (Hb & Hc & rs & Hw & Hok). cbn [top below closed] in *.
    repeat split; try assumption. exists (Ok tt :: rs). cbn [writes]. rewrite W, Hw. auto.
Qed.

(** The carry: while text is written to a child buffer, the child and the
    buffer it was opened on (the [k]-th one below it) never hold more than [L]
    bytes together. *)
Theorem child_plus_parent_le_limit : forall (L : N) ops k ss s p,
  brender (Some L) (binit (Some L)) (ops ++ OpenChild k :: map Write ss) = Ok s ->
  nth_error (below s) k = Some p ->
  utf8_len (getvalue (top s)) + utf8_len (getvalue p) <= L.
Proof.
  intros L ops k ss s p E Hn. rewrite brender_app in E.
  destruct (brender (Some L) (binit (Some L)) ops) as [s0| | |] eqn:E0; try discriminate.
  apply brender_ok_step in E as (s1 & E1 & E2).
  pose proof (brender_inv L ops _ _ (binv_init L) E0) as H0. unfold binv in H0.
  cbn [bstep] in E1. destruct (nth_error (top s0 :: below s0) k) as [q|] eqn:Hq; [|discriminate].
  inversion E1; subst s1. clear E1.
  destruct (brender_writes _ _ _ _ E2) as (Hb & _ & rs & Hw & Hok). cbn [top below] in Hb, Hw.
  rewrite Hb in Hn. rewrite Hq in Hn. inversion Hn; subst q. clear Hn.
  pose proof (chain_all_carry_le L _ _ p H0 (nth_error_In _ _ Hq)) as Hc.
  assert (Hbp : utf8_len (getvalue p) = carry_of p).
  { assert (buf_ok p).
    { revert Hq H0. generalize (top s0) (below s0). intros t bl. revert t k.
      induction bl as [|x rest IH]; intros t [|k'] Hq H0; simpl in Hq.
      - inversion Hq; subst. simpl in H0; tauto.
      - destruct k'; discriminate.
      - inversion Hq; subst. cbn [chain_ok] in H0; tauto.
      - cbn [chain_ok] in H0. destruct H0 as (_ & _ & Hx). exact (IH x k' Hq Hx). }
    destruct p as [c|lim sz nl c|]; simpl in *; try tauto; try reflexivity.
    unfold carry_of; simpl. destruct H as (_ & _ & ->). reflexivity. }
  rewrite Hbp. unfold get_output_buffer in Hw.
  change (match limited_size p with Some sz => sz | None => 0 end) with (carry_of p) in Hw.
  pose proof (writes_ok_le _ _ _ _ _ _ _ Hw Hok) as Hle.
  apply writes_ok_content in Hw; [|exact Hok]. rewrite Hw. cbn [getvalue app nl_apply].
  rewrite map_id. simpl in Hle. pose proof (N2Z.is_nonneg (carry_of p)).
  assert (0 <= Z.of_N L - Z.of_N (carry_of p))%Z by lia. specialize (Hle H1). lia.
Qed.

(** * Transparency: simulation between the limited and the unlimited run *)

Definition buf_sim (b u : buffer) : Prop :=
  match b, u with
  | Limited _ _ nl c, Plain c' => nl = NlKeep /\ c = c'
  | Null, Null => True
  | _, _ => False
  end.

Definition bsim (s u : bstate) : Prop :=
  buf_sim (top s) (top u) /\ Forall2 buf_sim (below s) (below u) /\ closed s = closed u.

Lemma buf_sim_getvalue b u : buf_sim b u -> getvalue b = getvalue u.
Proof. destruct b, u; simpl; try tauto. Qed.

Lemma write_sim b u s b' :
  buf_sim b u -> write b s = (Ok tt, b') ->
  exists u', write u s = (Ok tt, u') /\ buf_sim b' u'.
Proof.
  destruct b as [c|lim sz nl c|], u as [c'|lim' sz' nl' c'|]; simpl; try tauto.
  - intros [-> ->] W. apply write_ok_content in W as [-> _].
    eexists; split; [reflexivity|]. simpl. auto.
  - intros _ E. inversion E; subst. eexists; split; [reflexivity|exact I].
Qed.

Lemma write_sim_err b u s r b' :
  buf_sim b u -> write b s = (r, b') -> r <> Ok tt -> r = LErr OutputStreamLimitError None.
Proof.
  destruct b as [c|lim sz nl c|], u as [c'|lim' sz' nl' c'|]; cbn [buf_sim]; try tauto.
  - intros _ W Hr. pose proof (write_fail_over lim sz nl c s) as H. rewrite W in H.
    cbn [fst snd] in H. destruct (H Hr) as [-> _]. reflexivity.
  - cbn [write]. intros _ E. inversion E; subst. congruence.
Qed.

Lemma Forall2_nth_some {A B} (R : A -> B -> Prop) : forall l l' k a,
  Forall2 R l l' -> nth_error l k = Some a -> exists b, nth_error l' k = Some b /\ R a b.
Proof.
  induction l as [|x l IH]; intros l' k a H Hn; destruct k; simpl in Hn; try discriminate;
    inversion H; subst.
  - inversion Hn; subst. eexists; split; [reflexivity|assumption].
  - simpl. eapply IH; eauto.
Qed.

Lemma Forall2_nth_none {A B} (R : A -> B -> Prop) : forall l l' k,
  Forall2 R l l' -> nth_error l k = None -> nth_error l' k = None.
Proof.
  induction l as [|x l IH]; intros l' k H Hn; inversion H; subst; destruct k; simpl in *;
    try reflexivity; try discriminate. eapply IH; eauto.
Qed.

Lemma bstep_sim L s u o s' :
  bsim s u -> bstep (Some L) s o = (Ok tt, s') ->
  exists u', bstep None u o = (Ok tt, u') /\ bsim s' u'.
Proof.
  destruct s as [t bl cl], u as [tu blu clu]. unfold bsim. cbn [top below closed].
  intros (Ht & Hb & Hc). subst clu.
  destruct o; cbn [bstep top below closed].
  - destruct (write t s) as [r b] eqn:W. intros E; inversion E; subst.
    destruct (write_sim _ _ _ _ Ht W) as (u' & Wu & Hs). rewrite Wu.
    eexists; split; [reflexivity|]. cbn [top below closed]. auto.
  - destruct (nth_error (t :: bl) k) as [p|] eqn:Hn; [|discriminate].
    assert (Hall : Forall2 buf_sim (t :: bl) (tu :: blu)) by (constructor; assumption).
    destruct (Forall2_nth_some _ _ _ _ _ Hall Hn) as (pu & Hnu & _). rewrite Hnu.
    intros E; inversion E; subst. eexists; split; [reflexivity|].
    cbn [top below closed]. repeat split; simpl; auto.
  - intros E; inversion E; subst. eexists; split; [reflexivity|].
    cbn [top below closed]. repeat split; auto.
  - destruct bl as [|p rest]; [discriminate|]. inversion Hb; subst.
    intros E; inversion E; subst. eexists; split; [reflexivity|].
    cbn [top below closed]. rewrite (buf_sim_getvalue _ _ Ht). auto.
  - destruct bl as [|p rest]; [discriminate|]. inversion Hb; subst.
    destruct (write p (getvalue t)) as [r b] eqn:W. intros E; inversion E; subst.
    rewrite <- (buf_sim_getvalue _ _ Ht).
    destruct (write_sim _ _ _ _ H1 W) as (u' & Wu & Hs). rewrite Wu.
    eexists; split; [reflexivity|]. cbn [top below closed]. auto.
Qed.

(** A failing step of the limited run is the output limit, unless the
    unlimited run fails in the same way (ill-bracketed sequence). *)
Lemma bstep_sim_err L s u o r s' :
  bsim s u -> bstep (Some L) s o = (r, s') -> r <> Ok tt ->
  r = LErr OutputStreamLimitError None \/ fst (bstep None u o) = r.
Proof.
  destruct s as [t bl cl], u as [tu blu clu]. unfold bsim. cbn [top below closed].
  intros (Ht & Hb & Hc). subst clu.
  destruct o; cbn [bstep top below closed].
  - destruct (write t s) as [r0 b] eqn:W. intros E Hr; inversion E; subst.
    left. eapply write_sim_err; eauto.
  - assert (Hall : Forall2 buf_sim (t :: bl) (tu :: blu)) by (constructor; assumption).
    destruct (nth_error (t :: bl) k) as [p|] eqn:Hn.
    + intros E Hr; inversion E; subst; congruence.
    + rewrite (Forall2_nth_none _ _ _ _ Hall Hn).
      intros E Hr; inversion E; subst. right. reflexivity.
  - intros E Hr; inversion E; subst; congruence.
  - destruct bl as [|p rest]; inversion Hb; subst.
    + intros E Hr; inversion E; subst. right. reflexivity.
    + intros E Hr; inversion E; subst; congruence.
  - destruct bl as [|p rest]; inversion Hb; subst.
    + intros E Hr; inversion E; subst. right. reflexivity.
    + destruct (write p (getvalue t)) as [r0 b] eqn:W. intros E Hr; inversion E; subst.
      left. eapply write_sim_err; eauto.
Qed.

Lemma bsim_init L : bsim (binit (Some L)) (binit None).
Proof. unfold bsim, binit; simpl. auto. Qed.

Lemma bsim_output s u : bsim s u -> output s = output u.
Proof.
  destruct s as [t bl cl], u as [tu blu clu]. unfold bsim, output, root_of.
  cbn [top below closed]. intros (Ht & Hb & _).
  apply buf_sim_getvalue. revert t tu Ht. induction Hb; intros t tu Ht; [exact Ht|].
  rewrite !last_cons. apply IHHb. exact H.
Qed.

Lemma brender_sim L : forall ops s u s',
  bsim s u -> brender (Some L) s ops = Ok s' ->
  exists u', brender None u ops = Ok u' /\ bsim s' u'.
Proof.
  induction ops as [|o ops IH]; intros s u s' Hs.
  - simpl. intros E; inversion E; subst. eauto.
  - intros E. apply brender_ok_step in E as (s1 & E1 & E2).
    destruct (bstep_sim _ _ _ _ _ Hs E1) as (u1 & Eu & Hs1).
    destruct (IH _ _ _ Hs1 E2) as (u' & Eu' & Hs').
    exists u'. cbn [brender]. rewrite Eu. auto.
Qed.

(** [limit_transparent]: a limit that is not exceeded does not change the
    text: same output, same captured values. *)
Theorem limit_transparent : forall (L : N) ops s,
  brender (Some L) (binit (Some L)) ops = Ok s ->
  exists u, brender None (binit None) ops = Ok u
            /\ output u = output s /\ closed u = closed s.
Proof.
  intros L ops s E.
  destruct (brender_sim L ops _ _ _ (bsim_init L) E) as (u & Eu & Hs).
  exists u. split; [exact Eu|]. split; [symmetry; apply bsim_output; exact Hs|].
  symmetry; apply Hs.
Qed.

(** The limited render fails only with OutputStreamLimitError, or exactly as
    the unlimited render fails. *)
Lemma brender_sim_err L : forall ops s u,
  bsim s u ->
  match brender (Some L) s ops with
  | Ok _ => True
  | r => r = LErr OutputStreamLimitError None
         \/ match brender None u ops with Ok _ => False | _ => True end
  end.
Proof.
  induction ops as [|o ops IH]; intros s u Hs; [exact I|].
  cbn [brender]. destruct (bstep (Some L) s o) as [r s1] eqn:E1.
  destruct r as [[]|c p|k|].
  - destruct (bstep_sim _ _ _ _ _ Hs E1) as (u1 & Eu & Hs1). rewrite Eu.
    exact (IH _ _ Hs1).
  - destruct (bstep_sim_err _ _ _ _ _ _ Hs E1) as [H|H]; [discriminate| |].
    + left. inversion H; reflexivity.
    + right. destruct (bstep None u o) as [r' u1]. simpl in H. subst r'. exact I.
  - destruct (bstep_sim_err _ _ _ _ _ _ Hs E1) as [H|H]; [discriminate| |].
    + discriminate.
    + right. destruct (bstep None u o) as [r' u1]. simpl in H. subst r'. exact I.
  - destruct (bstep_sim_err _ _ _ _ _ _ Hs E1) as [H|H]; [discriminate| |].
    + discriminate.
    + right. destruct (bstep None u o) as [r' u1]. simpl in H. subst r'. exact I.
Qed.

(** [over_limit_fails] at the level of a render: if the unrestricted output is
    larger than the limit, the limited render raises OutputStreamLimitError. *)
Theorem over_limit_render_fails : forall (L : N) ops u,
  brender None (binit None) ops = Ok u ->
  L < utf8_len (output u) ->
  brender (Some L) (binit (Some L)) ops = LErr OutputStreamLimitError None.
Proof.
  intros L ops u Eu Hlt.
  pose proof (brender_sim_err L ops _ _ (bsim_init L)) as H.
  destruct (brender (Some L) (binit (Some L)) ops) as [s|c p|k|] eqn:E.
  - exfalso. pose proof (output_le_limit L ops s E) as Hle.
    destruct (limit_transparent L ops s E) as (u' & Eu' & Ho & _).
    rewrite Eu in Eu'. inversion Eu'; subst. rewrite Ho in Hlt. lia.
  - destruct H as [H|H]; [exact H|]. rewrite Eu in H. contradiction.
  - destruct H as [H|H]; [discriminate|]. rewrite Eu in H. contradiction.
  - destruct H as [H|H]; [discriminate|]. rewrite Eu in H. contradiction.
Qed.

(** * Non-vacuity *)

(** A render with a capture, a blank block and a block.super-like child that
    succeeds under limit 8 with 3 + 3 bytes on a child and its parent ... *)
Example render_ok_example :
  let ops := [Write [97;98;99]; OpenChild 0; Write [233]; Write [120]; Close;
              OpenNull; Write [1;2;3;4;5;6;7;8;9]; OpenChild 0; Write [8364]; Close; Close;
              OpenChild 0; Write [13;10]; CloseWrite] in
  exists s, brender (Some 8) (binit (Some 8)) ops = Ok s
            /\ output s = [97;98;99;13;10]
            /\ closed s = [[13;10]; []; [8364]; [233;120]].
Proof. eexists. vm_compute. repeat split; reflexivity. Qed.

(** ... and fails under limit 5 at the write into the child buffer (3 bytes
    carried + 3 > 5), although the final output has only 5 bytes. *)
Example render_fail_example :
  let ops := [Write [97;98;99]; OpenChild 0; Write [233]; Write [120]; Close;
              OpenChild 0; Write [13;10]; CloseWrite] in
  brender (Some 5) (binit (Some 5)) ops = LErr OutputStreamLimitError None
  /\ exists u, brender None (binit None) ops = Ok u /\ utf8_len (output u) = 5.
Proof. split; [reflexivity|]. eexists. vm_compute. split; reflexivity. Qed.

Example over_limit_example :
  exists u, brender None (binit None) [Write [8364; 8364]] = Ok u /\ 5 < utf8_len (output u).
Proof. eexists. vm_compute. split; reflexivity. Qed.
