(** Proofs/LexMatch_proofs.v — facts about the regular-expression matchers of
    Kernels/Lex.v: every matcher consumes a prefix of its input (length
    bounds), and what the consumed text looks like (delimiters). *)
From LQ Require Import Base.Str Kernels.LexUni Kernels.Lex.

(** * Generic list facts *)

Lemma starts_spec lit r r' : starts lit r = Some r' -> r = lit ++ r'.
Proof.
  revert r; induction lit as [|a lit IH]; intros [|b r]; simpl; intros H;
    try discriminate; try (inversion H; reflexivity).
  destruct (N.eqb a b) eqn:E; [|discriminate].
  apply N.eqb_eq in E; subst. f_equal. apply IH, H.
Qed.

Lemma starts_len lit r r' : starts lit r = Some r' -> length r = length lit + length r'.
Proof. intros H. apply starts_spec in H. subst. apply app_length. Qed.

Lemma take_while_spec p r n r' :
  take_while p r = (n, r') -> r' = skipn n r /\ n <= length r /\ length r = n + length r'.
Proof.
  revert n r'; induction r as [|c r IH]; simpl; intros n r' H.
  - inversion H; subst; simpl; auto.
  - destruct (p c).
    + destruct (take_while p r) as [m r''] eqn:E. inversion H; subst.
      destruct (IH _ _ eq_refl) as (A & B & C). simpl. repeat split; auto; lia.
    + inversion H; subst; simpl; repeat split; auto; lia.
Qed.

Lemma take_while_len p r : fst (take_while p r) <= length r.
Proof.
  destruct (take_while p r) as [n r'] eqn:E. apply take_while_spec in E. simpl; lia.
Qed.

Lemma take_wc_spec r w n r' :
  take_wc r = (w, n, r') -> r' = skipn n r /\ n <= 1 /\ length r = n + length r'.
Proof.
  unfold take_wc. destruct r as [|c r]; [intros H; inversion H; subst; simpl; auto|].
  destruct (wc_char c); intros H; inversion H; subst; simpl; repeat split; auto; lia.
Qed.

Lemma find_first_spec {A} (P : str -> option A) r k a :
  find_first P r = Some (k, a) -> k <= length r /\ P (skipn k r) = Some a.
Proof.
  revert k; induction r as [|c r IH]; simpl; intros k H.
  - destruct (P []) eqn:E; inversion H; subst; simpl; auto.
  - destruct (P (c :: r)) eqn:E.
    + inversion H; subst; simpl; split; [lia|assumption].
    + destruct (find_first P r) as [[k' a']|] eqn:E2; [|discriminate].
      inversion H; subst. destruct (IH _ eq_refl). simpl. split; [lia|assumption].
Qed.

Lemma skipn_skipn {A} a b (l : list A) : skipn a (skipn b l) = skipn (b + a) l.
Proof.
  revert l; induction b as [|b IH]; intros l; simpl; [reflexivity|].
  destruct l; [destruct a; reflexivity|apply IH].
Qed.

Lemma nth_error_skipn {A} n (l : list A) : nth_error l n = hd_error (skipn n l).
Proof.
  revert l; induction n as [|n IH]; intros [|x l]; simpl; auto.
Qed.

(** * Length bounds of the matchers *)

Lemma wc_end_len lit r w n :
  wc_end lit r = Some (w, n) -> length lit <= n <= length r /\ n <= S (length lit).
Proof.
  unfold wc_end. destruct (take_wc r) as [[w0 k] r1] eqn:E.
  destruct (starts lit r1) eqn:E2; [|discriminate]. intros H; inversion H; subst.
  apply take_wc_spec in E as (_ & B & C). apply starts_len in E2. lia.
Qed.

Lemma tag_open_len r w n r' :
  tag_open r = Some (w, n, r') -> 2 <= n /\ length r = n + length r' /\ r' = skipn n r.
Proof.
  unfold tag_open. destruct (starts [123%N; 37%N] r) as [r1|] eqn:E; [|discriminate].
  destruct (take_wc r1) as [[w0 n1] r2] eqn:E1.
  destruct (take_while is_space r2) as [n2 r3] eqn:E2.
  intros H; inversion H; subst w n r'; clear H.
  pose proof (starts_spec _ _ _ E) as Hs. apply starts_len in E.
  apply take_wc_spec in E1 as (A1 & B1 & C1). apply take_while_spec in E2 as (A2 & B2 & C2).
  simpl in E. repeat split; try lia.
  rewrite Hs. simpl. rewrite A2, A1, skipn_skipn. reflexivity.
Qed.

Lemma tag_close_len r w n : tag_close r = Some (w, n) -> 2 <= n <= length r.
Proof.
  unfold tag_close. destruct (take_while is_space r) as [n1 r1] eqn:E.
  destruct (wc_end L_pct_rbrace r1) as [[w1 n2]|] eqn:E2; [|discriminate].
  intros H; inversion H; subst. apply take_while_spec in E as (_ & _ & C).
  apply wc_end_len in E2. simpl in E2. lia.
Qed.

Lemma raw_delim_len name r w0 w1 n :
  raw_delim name r = Some (w0, w1, n) -> 4 <= n <= length r.
Proof.
  unfold raw_delim. destruct (tag_open r) as [[[w n0] r1]|] eqn:E; [|discriminate].
  destruct (starts name r1) as [r2|] eqn:E1; [|discriminate].
  destruct (tag_close r2) as [[w1' n1]|] eqn:E2; [|discriminate].
  intros H; inversion H; subst.
  apply tag_open_len in E as (A & B & _). apply starts_len in E1. apply tag_close_len in E2. lia.
Qed.

Definition mk_len (m : markup) : nat :=
  match m with
  | MkRaw _ _ _ _ _ _ n | MkCommentTag _ n | MkOutput _ n
  | MkComment _ _ _ _ _ n | MkInline _ _ _ _ n | MkContent n => n
  | MkTag _ noff nlen => noff + nlen
  end.

Lemma match_raw_len r m : match_raw r = Some m -> 8 <= mk_len m <= length r.
Proof.
  unfold match_raw. destruct (raw_delim L_raw r) as [[[w0 w1] n]|] eqn:E; [|discriminate].
  destruct (find_first (raw_delim L_endraw) (skipn n r)) as [[k [[w2 w3] m']]|] eqn:E2; [|discriminate].
  intros H; inversion H; subst; simpl.
  apply raw_delim_len in E. apply find_first_spec in E2 as (A & B).
  apply raw_delim_len in B. rewrite !skipn_length in *. lia.
Qed.

Lemma match_comment_tag_len r m : match_comment_tag r = Some m -> 11 <= mk_len m <= length r.
Proof.
  unfold match_comment_tag. destruct (tag_open r) as [[[w n] r1]|] eqn:E; [|discriminate].
  destruct (starts L_comment r1) as [r2|] eqn:E1; [|discriminate].
  destruct (word_boundary_after r2); [|discriminate].
  destruct (find_first (starts L_pct_rbrace) r2) as [[k x]|] eqn:E2; [|discriminate].
  intros H; inversion H; subst; simpl.
  apply tag_open_len in E as (A & B & _). apply starts_len in E1. simpl in E1.
  apply find_first_spec in E2 as (C & D). apply starts_len in D. rewrite skipn_length in D.
  simpl in D. lia.
Qed.

Lemma match_output_len r m : match_output r = Some m -> 2 <= mk_len m <= length r.
Proof.
  unfold match_output. destruct (starts [123%N; 123%N] r) as [r1|] eqn:E; [|discriminate].
  destruct (take_wc r1) as [[w n1] r2] eqn:E1. destruct (take_while is_space r2) as [n2 r3] eqn:E2.
  intros H; inversion H; subst; simpl. apply starts_len in E. simpl in E.
  apply take_wc_spec in E1 as (_ & B1 & C1). apply take_while_spec in E2 as (_ & B2 & C2). lia.
Qed.

Lemma match_tag_len r m : match_tag r = Some m -> 3 <= mk_len m <= length r.
Proof.
  unfold match_tag. destruct (tag_open r) as [[[w n] r1]|] eqn:E; [|discriminate].
  destruct r1 as [|c r2]; [discriminate|]. destruct (is_lower c); [|discriminate].
  destruct (take_while is_tagname_char r2) as [k r3] eqn:E2.
  intros H; inversion H; subst; simpl.
  apply tag_open_len in E as (A & B & _). apply take_while_spec in E2 as (_ & B2 & _). simpl in B. lia.
Qed.

Lemma hashes_then_brace_len n r : hashes_then_brace n r = true -> n + 1 <= length r.
Proof.
  unfold hashes_then_brace. destruct (starts (repeat 35%N n) r) as [x|] eqn:E; [|discriminate].
  apply starts_len in E. rewrite repeat_length in E. destruct x; [discriminate|]. simpl in E. lia.
Qed.

Lemma comment_close_len n r w m : comment_close n r = Some (w, m) -> n + 1 <= m <= length r.
Proof.
  unfold comment_close. destruct (take_wc r) as [[w0 k] r1] eqn:E.
  apply take_wc_spec in E as (_ & B & C).
  destruct (hashes_then_brace n r1) eqn:E1.
  - apply hashes_then_brace_len in E1. intros H; inversion H; subst. lia.
  - destruct (hashes_then_brace n r) eqn:E2; [|discriminate].
    apply hashes_then_brace_len in E2. intros H; inversion H; subst. lia.
Qed.

Lemma comment_body_len n r w0 w1 toff tlen m :
  comment_body n r = Some (w0, w1, toff, tlen, m) ->
  n + 1 <= m <= length r /\ toff + tlen + (n + 1) <= m.
Proof.
  unfold comment_body. destruct (take_wc r) as [[w n0] r1] eqn:E.
  apply take_wc_spec in E as (A & B & C).
  assert (G : forall w0' n0' r1', length r = n0' + length r1' ->
     match find_first (comment_close n) r1' with
     | Some (k, (w1', m')) => Some (w0', w1', n0', k, n0' + k + m')
     | None => None end = Some (w0, w1, toff, tlen, m) ->
     n + 1 <= m <= length r /\ toff + tlen + (n + 1) <= m).
  { intros w0' n0' r1' Hl. destruct (find_first (comment_close n) r1') as [[k [w1' m']]|] eqn:E1; [|discriminate].
    intros H; inversion H; subst. apply find_first_spec in E1 as (D & F).
    apply comment_close_len in F. rewrite skipn_length in F. lia. }
  destruct (find_first (comment_close n) r1) as [[k [w1' m']]|] eqn:E1.
  - intros H. apply (G w n0 r1 C). rewrite E1. exact H.
  - destruct (Nat.eqb n0 0); [discriminate|]. intros H. apply (G WDefault 0 r); [lia|exact H].
Qed.

Lemma comment_try_len h r n x :
  comment_try h r = Some (n, x) -> 1 <= n <= h /\ comment_body n (skipn n r) = Some x.
Proof.
  induction h as [|h IH]; [discriminate|]. cbn [comment_try].
  destruct (comment_body (S h) (skipn (S h) r)) eqn:E.
  - intros H; inversion H; subst. split; [lia|exact E].
  - intros H. destruct (IH H). split; [lia|assumption].
Qed.

Lemma match_comment_len r m : match_comment r = Some m -> 3 <= mk_len m <= length r.
Proof.
  unfold match_comment. destruct r as [|c r1]; [discriminate|].
  destruct (N.eqb c 123); [|discriminate].
  destruct (take_while (N.eqb 35) r1) as [h r2] eqn:E.
  destruct (comment_try h r1) as [[n [[[[w0 w1] toff] tlen] m']]|] eqn:E1; [|discriminate].
  intros H; inversion H; subst; simpl.
  apply take_while_spec in E as (_ & B & _).
  apply comment_try_len in E1 as (A & C). apply comment_body_len in C as (D & F).
  rewrite skipn_length in D. lia.
Qed.

Lemma match_inline_comment_len r m : match_inline_comment r = Some m -> 5 <= mk_len m <= length r.
Proof.
  unfold match_inline_comment. destruct (tag_open r) as [[[w n] r1]|] eqn:E; [|discriminate].
  destruct (starts L_hash r1) as [r2|] eqn:E1; [|discriminate].
  destruct (find_first (wc_end L_pct_rbrace) r2) as [[k [w1 m']]|] eqn:E2; [|discriminate].
  intros H; inversion H; subst; simpl.
  apply tag_open_len in E as (A & B & _). apply starts_len in E1. simpl in E1.
  apply find_first_spec in E2 as (C & D). apply wc_end_len in D. rewrite skipn_length in D.
  simpl in D. lia.
Qed.

Lemma content_more_len r : content_more r <= length r.
Proof.
  induction r as [|c r IH]; [simpl; lia|].
  change (content_more (c :: r)) with (if content_stop (c :: r) then 0 else S (content_more r)).
  destruct (content_stop (c :: r)); simpl; lia.
Qed.

Lemma match_content_len r m : match_content r = Some m -> 1 <= mk_len m <= length r.
Proof.
  unfold match_content. destruct r as [|c r]; [discriminate|].
  intros H; inversion H; subst; simpl. pose proof (content_more_len r). lia.
Qed.

Lemma match_markup_len r m : match_markup r = Some m -> 1 <= mk_len m <= length r.
Proof.
  unfold match_markup.
  destruct (match_raw r) eqn:E1; [intros H; inversion H; subst; apply match_raw_len in E1; lia|].
  destruct (match_comment_tag r) eqn:E2; [intros H; inversion H; subst; apply match_comment_tag_len in E2; lia|].
  destruct (match_output r) eqn:E3; [intros H; inversion H; subst; apply match_output_len in E3; lia|].
  destruct (match_tag r) eqn:E4; [intros H; inversion H; subst; apply match_tag_len in E4; lia|].
  destruct (match_comment r) eqn:E5; [intros H; inversion H; subst; apply match_comment_len in E5; lia|].
  destruct (match_inline_comment r) eqn:E6; [intros H; inversion H; subst; apply match_inline_comment_len in E6; lia|].
  apply match_content_len.
Qed.

Lemma match_markup_none r : match_markup r = None -> r = [].
Proof.
  unfold match_markup.
  destruct (match_raw r); [discriminate|]. destruct (match_comment_tag r); [discriminate|].
  destruct (match_output r); [discriminate|]. destruct (match_tag r); [discriminate|].
  destruct (match_comment r); [discriminate|]. destruct (match_inline_comment r); [discriminate|].
  destruct r; [reflexivity|discriminate].
Qed.

(** The kind of markup found says which alternative matched (used to read the
    delimiters off the source). *)
Lemma match_markup_inv r m :
  match_markup r = Some m ->
  match m with
  | MkRaw _ _ _ _ _ _ _ => match_raw r = Some m
  | MkCommentTag _ _ => match_comment_tag r = Some m
  | MkOutput _ _ => match_output r = Some m
  | MkTag _ _ _ => match_tag r = Some m
  | MkComment _ _ _ _ _ _ => match_comment r = Some m
  | MkInline _ _ _ _ _ => match_inline_comment r = Some m
  | MkContent _ => match_content r = Some m
  end.
Proof.
  unfold match_markup.
  assert (Hraw : forall x, match_raw r = Some x -> exists a b c d e f g, x = MkRaw a b c d e f g).
  { unfold match_raw. intros x. destruct (raw_delim L_raw r) as [[[? ?] ?]|]; [|discriminate].
    destruct (find_first _ _) as [[? [[? ?] ?]]|]; [|discriminate]. intros H; inversion H; eauto 10. }
  assert (Hct : forall x, match_comment_tag r = Some x -> exists a b, x = MkCommentTag a b).
  { unfold match_comment_tag. intros x. destruct (tag_open r) as [[[? ?] ?]|]; [|discriminate].
    destruct (starts _ _); [|discriminate]. destruct (word_boundary_after _); [|discriminate].
    destruct (find_first _ _) as [[? ?]|]; [|discriminate]. intros H; inversion H; eauto. }
  assert (Hout : forall x, match_output r = Some x -> exists a b, x = MkOutput a b).
  { unfold match_output. intros x. destruct (starts _ _); [|discriminate].
    destruct (take_wc _) as [[? ?] ?]. destruct (take_while _ _). intros H; inversion H; eauto. }
  assert (Htag : forall x, match_tag r = Some x -> exists a b c, x = MkTag a b c).
  { unfold match_tag. intros x. destruct (tag_open r) as [[[? ?] ?]|]; [|discriminate].
    destruct s; [discriminate|]. destruct (is_lower _); [|discriminate].
    destruct (take_while _ _). intros H; inversion H; eauto. }
  assert (Hcm : forall x, match_comment r = Some x -> exists a b c d e f, x = MkComment a b c d e f).
  { unfold match_comment. intros x. destruct r; [discriminate|]. destruct (N.eqb _ _); [|discriminate].
    destruct (take_while _ _). destruct (comment_try _ _) as [[? [[[[? ?] ?] ?] ?]]|]; [|discriminate].
    intros H; inversion H; eauto 10. }
  assert (Hil : forall x, match_inline_comment r = Some x -> exists a b c d e, x = MkInline a b c d e).
  { unfold match_inline_comment. intros x. destruct (tag_open r) as [[[? ?] ?]|]; [|discriminate].
    destruct (starts _ _); [|discriminate]. destruct (find_first _ _) as [[? [? ?]]|]; [|discriminate].
    intros H; inversion H; eauto 10. }
  assert (Hco : forall x, match_content r = Some x -> exists a, x = MkContent a).
  { unfold match_content. intros x. destruct r; [discriminate|]. intros H; inversion H; eauto. }
  destruct (match_raw r) eqn:E1.
  { intros H; inversion H; subst. destruct (Hraw _ eq_refl) as (?&?&?&?&?&?&?&->). reflexivity. }
  destruct (match_comment_tag r) eqn:E2.
  { intros H; inversion H; subst. destruct (Hct _ eq_refl) as (?&?&->). reflexivity. }
  destruct (match_output r) eqn:E3.
  { intros H; inversion H; subst. destruct (Hout _ eq_refl) as (?&?&->). reflexivity. }
  destruct (match_tag r) eqn:E4.
  { intros H; inversion H; subst. destruct (Htag _ eq_refl) as (?&?&?&->). reflexivity. }
  destruct (match_comment r) eqn:E5.
  { intros H; inversion H; subst. destruct (Hcm _ eq_refl) as (?&?&?&?&?&?&->). reflexivity. }
  destruct (match_inline_comment r) eqn:E6.
  { intros H; inversion H; subst. destruct (Hil _ eq_refl) as (?&?&?&?&?&->). reflexivity. }
  intros H. destruct (Hco _ H) as (?&->). exact H.
Qed.

(** * TOKEN_RULES and the line-statement patterns *)

Lemma opt_char_spec c r n r' : opt_char c r = (n, r') -> n <= 1 /\ length r = n + length r'.
Proof.
  unfold opt_char. destruct r as [|d r]; [intros H; inversion H; simpl; lia|].
  destruct (N.eqb c d); intros H; inversion H; simpl; lia.
Qed.

Lemma exponent_len mode r : exponent mode r <= length r.
Proof.
  unfold exponent. destruct r as [|e r1]; [simpl; lia|].
  destruct (is_e e); [|simpl; lia].
  set (sgr := match mode with
              | 0 => match r1 with d :: r' => if (N.eqb d 43 || N.eqb d 45)%bool then (1, r') else (0, r1) | [] => (0, r1) end
              | 1 => match r1 with d :: r' => if N.eqb d 45 then (1, r') else (2, r1) | [] => (2, r1) end
              | _ => opt_char 43 r1 end).
  assert (Hs : fst sgr = 2 \/ (fst sgr <= 1 /\ length r1 = fst sgr + length (snd sgr))).
  { subst sgr. destruct mode as [|[|m]].
    - destruct r1 as [|d r']; [right; simpl; lia|]. destruct (N.eqb d 43 || N.eqb d 45)%bool; right; simpl; lia.
    - destruct r1 as [|d r']; [left; reflexivity|]. destruct (N.eqb d 45); [right; simpl; lia|left; reflexivity].
    - right. destruct (opt_char 43 r1) as [a b] eqn:E. apply opt_char_spec in E. simpl; lia. }
  destruct sgr as [sg r2]. simpl in Hs.
  destruct (Nat.eqb sg 2) eqn:E2; [simpl; lia|].
  apply Nat.eqb_neq in E2. destruct Hs as [Hs|[Hs1 Hs2]]; [contradiction|].
  destruct (take_while is_digit r2) as [n r3] eqn:E3. apply take_while_spec in E3 as (_ & B & _).
  destruct (Nat.eqb n 0); simpl; lia.
Qed.

Lemma match_float_len r n : match_float r = Some n -> 1 <= n <= length r.
Proof.
  unfold match_float. destruct (opt_char 45 r) as [m r1] eqn:E. apply opt_char_spec in E as (A & B).
  destruct (take_while is_digit r1) as [n1 r2] eqn:E1. apply take_while_spec in E1 as (_ & C & D).
  destruct (Nat.eqb n1 0) eqn:E0; [discriminate|]. apply Nat.eqb_neq in E0.
  assert (Hb : forall n, (let x := exponent 1 r2 in if Nat.eqb x 0 then None else Some (m + n1 + x)) = Some n ->
               1 <= n <= length r).
  { intros n0. cbv zeta. pose proof (exponent_len 1 r2). destruct (Nat.eqb (exponent 1 r2) 0); [discriminate|].
    intros H0; inversion H0; subst. lia. }
  destruct r2 as [|c r3]; [apply Hb|].
  destruct (N.eqb c 46); [|apply Hb].
  destruct (take_while is_digit r3) as [n2 r4] eqn:E2. apply take_while_spec in E2 as (_ & F & G).
  destruct (Nat.eqb n2 0); [apply Hb|].
  intros H0; inversion H0; subst. pose proof (exponent_len 0 r4). simpl in D. lia.
Qed.

Lemma match_int_len r n : match_int r = Some n -> 1 <= n <= length r.
Proof.
  unfold match_int. destruct (opt_char 45 r) as [m r1] eqn:E. apply opt_char_spec in E as (A & B).
  destruct (take_while is_digit r1) as [n1 r2] eqn:E1. apply take_while_spec in E1 as (_ & C & D).
  destruct (Nat.eqb n1 0) eqn:E0; [discriminate|]. apply Nat.eqb_neq in E0.
  intros H0; inversion H0; subst. pose proof (exponent_len 2 r2). lia.
Qed.

Lemma match_symbol_len l r k n :
  Forall (fun p => 1 <= length (fst p)) l ->
  match_symbol l r = Some (k, n) -> 1 <= n <= length r.
Proof.
  induction l as [|[lit k0] l IH]; simpl; [discriminate|]. intros Hf. inversion Hf; subst.
  destruct (starts lit r) eqn:E.
  - intros H; inversion H; subst. apply starts_len in E. simpl in *. lia.
  - apply IH; assumption.
Qed.

Lemma symbols_nonempty : Forall (fun p : str * tkind => 1 <= length (fst p)) symbols.
Proof. unfold symbols. repeat constructor. Qed.

Lemma word_tail_le r : word_tail r <= length r.
Proof.
  induction r as [|c r IH]; [simpl; lia|].
  cbn [word_tail length].
  destruct (N.eqb c 45).
  - destruct r as [|d [|e r2]]; try lia.
    destruct ((N.eqb d 125 || N.eqb d 37) && N.eqb e 125); lia.
  - destruct (is_word_start c || is_digit c); lia.
Qed.

Lemma word_len_le r : word_len r <= length r.
Proof.
  unfold word_len. destruct r as [|c r]; [simpl; lia|].
  destruct (is_word_start c); [|simpl; lia]. pose proof (word_tail_le r). simpl. lia.
Qed.

Lemma index_len_le r : index_len r <= length r.
Proof.
  unfold index_len. destruct (opt_char 45 r) as [m r1] eqn:E. apply opt_char_spec in E as (A & B).
  pose proof (take_while_len is_digit r1). destruct (Nat.eqb _ 0); lia.
Qed.

Lemma match_token_len r k n : match_token r = Some (k, n) -> 1 <= n <= length r.
Proof.
  unfold match_token.
  destruct (match_float r) eqn:E1; [intros H; inversion H; subst; apply match_float_len; assumption|].
  destruct (match_int r) eqn:E2; [intros H; inversion H; subst; apply match_int_len; assumption|].
  destruct (match_symbol symbols r) as [[k' n']|] eqn:E3.
  { intros H; inversion H; subst. eapply match_symbol_len; [apply symbols_nonempty|eassumption]. }
  destruct (Nat.eqb (word_len r) 0) eqn:E4; [discriminate|]. apply Nat.eqb_neq in E4.
  intros H; inversion H; subst. pose proof (word_len_le r). lia.
Qed.

(** A TLBracket match is exactly "[". *)
Lemma match_symbol_lbracket l r n :
  (forall lit, In (lit, TLBracket) l -> lit = [91%N]) ->
  match_symbol l r = Some (TLBracket, n) -> hd_error r = Some 91%N /\ n = 1.
Proof.
  induction l as [|[lit k0] l IH]; simpl; [discriminate|]. intros Hin.
  destruct (starts lit r) eqn:E.
  - intros H; inversion H; subst. rewrite (Hin lit (or_introl eq_refl)) in *.
    apply starts_spec in E. subst r. split; reflexivity.
  - apply IH. intros lit' Hl. apply Hin. right; assumption.
Qed.

Lemma match_token_lbracket r n :
  match_token r = Some (TLBracket, n) -> hd_error r = Some 91%N /\ n = 1.
Proof.
  unfold match_token.
  destruct (match_float r); [discriminate|]. destruct (match_int r); [discriminate|].
  destruct (match_symbol symbols r) as [[k' n']|] eqn:E3.
  - intros H; inversion H; subst. eapply match_symbol_lbracket; [|eassumption].
    intros lit Hin. unfold symbols in Hin. simpl in Hin.
    repeat (destruct Hin as [Hin|Hin]; [inversion Hin; try reflexivity|]). contradiction.
  - destruct (Nat.eqb _ 0); discriminate.
Qed.

Lemma line_term_le r : line_term r <= length r.
Proof.
  unfold line_term. destruct r as [|c r1]; [simpl; lia|].
  destruct (N.eqb c 10); [simpl; lia|]. destruct (N.eqb c 13); [|simpl; lia].
  destruct r1 as [|d r2]; [simpl; lia|]. destruct (N.eqb d 10); simpl; lia.
Qed.

Lemma rest_of_line_le r k : rest_of_line r = Some k -> k <= length r.
Proof.
  unfold rest_of_line. destruct (find_first line_stop r) as [[k' u]|] eqn:E; [|discriminate].
  intros H; inversion H; subst. apply find_first_spec in E as (A & _). exact A.
Qed.

Lemma line_comment_le r m : line_comment r = Some m -> 1 <= m <= length r.
Proof.
  unfold line_comment. destruct r as [|c r1]; [discriminate|].
  destruct (N.eqb c 35); [|discriminate].
  destruct (rest_of_line r1) eqn:E; [|discriminate]. intros H; inversion H; subst.
  apply rest_of_line_le in E. simpl. lia.
Qed.

Lemma tag_name_len_le r : tag_name_len r <= length r.
Proof.
  unfold tag_name_len. destruct r as [|c r1]; [simpl; lia|].
  destruct (is_lower c); [|simpl; lia].
  destruct (take_while is_tagname_char r1) as [m r2] eqn:E. apply take_while_spec in E as (_ & B & _).
  destruct (word_boundary_after r2); simpl; lia.
Qed.

Lemma chunk_tail_len r ce w n : chunk_tail r = Some (ce, w, n) -> 4 <= n <= length r.
Proof.
  unfold chunk_tail. destruct (tag_open r) as [[[w0 n0] r1]|] eqn:E; [|discriminate].
  apply tag_open_len in E as (A & B & _).
  assert (G : forall lit (ce0 : chunk_end) (x : chunk_end * wc * nat),
    match starts lit r1 with
    | Some r2 => match find_first (wc_end L_pct_rbrace) r2 with
                 | Some (k, (w', m)) => Some (ce0, w', n0 + length lit + k + m)
                 | None => None end
    | None => None end = Some x -> 4 <= snd x <= length r).
  { intros lit ce0 x. destruct (starts lit r1) as [r2|] eqn:E1; [|discriminate].
    destruct (find_first (wc_end L_pct_rbrace) r2) as [[k [w' m]]|] eqn:E2; [|discriminate].
    intros H; inversion H; subst; simpl. apply starts_len in E1.
    apply find_first_spec in E2 as (C & D). apply wc_end_len in D. rewrite skipn_length in D.
    simpl in D. lia. }
  repeat match goal with
  | |- match ?X with Some _ => _ | None => _ end = _ -> _ =>
      let Ex := fresh "Ex" in destruct X as [?|] eqn:Ex;
      [intros H; inversion H; subst; apply G in Ex; simpl in Ex; exact Ex|]
  end.
  intros H. apply G in H. exact H.
Qed.

(** accept_string: the closing quote lies inside the input. *)
Lemma scan_string_spec q r p st0 L :
  p + length r = L -> st0 <= L ->
  match scan_string q r p st0 with
  | Ok p' => p <= p' /\ p' < L
  | LErr c (Some i) => c = LiquidSyntaxError /\ (0 <= i <= Z.of_nat L)%Z
  | _ => False
  end.
Proof.
  remember (length r) as n eqn:Hn. revert r p Hn.
  induction n as [n IH] using lt_wf_ind. intros r p Hn Hl Hs.
  destruct r as [|c r1]; simpl.
  - split; [reflexivity|lia].
  - simpl in Hn. destruct (N.eqb c 92).
    + destruct r1 as [|d r2].
      * split; [reflexivity|]. simpl in Hn. lia.
      * destruct (is_escape d || N.eqb d q)%bool.
        -- simpl in Hn. specialize (IH (length r2) ltac:(lia) r2 (p + 2) eq_refl ltac:(lia) Hs).
           destruct (scan_string q r2 (p + 2) st0) as [p'|c0 [i|]| |]; auto. lia.
        -- split; [reflexivity|]. simpl in Hn. lia.
    + destruct (N.eqb c q).
      * lia.
      * specialize (IH (length r1) ltac:(lia) r1 (p + 1) eq_refl ltac:(lia) Hs).
        destruct (scan_string q r1 (p + 1) st0) as [p'|c0 [i|]| |]; auto. lia.
Qed.

(** * What the matched text looks like (delimiters) *)

Lemma starts_firstn lit r r' : starts lit r = Some r' -> firstn (length lit) r = lit.
Proof.
  intros H. apply starts_spec in H. subst r. rewrite firstn_app, Nat.sub_diag, firstn_all.
  simpl. apply app_nil_r.
Qed.

Lemma firstn_skipn_skipn {A} k a b (l : list A) :
  firstn k (skipn a (skipn b l)) = firstn k (skipn (b + a) l).
Proof. rewrite skipn_skipn. reflexivity. Qed.

Lemma wc_end_last lit r w n :
  wc_end lit r = Some (w, n) -> firstn (length lit) (skipn (n - length lit) r) = lit.
Proof.
  unfold wc_end. destruct (take_wc r) as [[w0 k] r1] eqn:E.
  destruct (starts lit r1) eqn:E2; [|discriminate]. intros H; inversion H; subst.
  apply take_wc_spec in E as (A & _ & _). apply starts_firstn in E2.
  replace (k + length lit - length lit) with k by lia. rewrite <- A. exact E2.
Qed.

Lemma tag_open_first r w n r' : tag_open r = Some (w, n, r') -> firstn 2 r = [123; 37]%N.
Proof.
  unfold tag_open. destruct (starts [123%N; 37%N] r) as [r1|] eqn:E; [|discriminate].
  intros _. apply starts_firstn in E. exact E.
Qed.

Lemma tag_close_last r w n : tag_close r = Some (w, n) -> firstn 2 (skipn (n - 2) r) = [37; 125]%N.
Proof.
  unfold tag_close. destruct (take_while is_space r) as [n1 r1] eqn:E.
  destruct (wc_end L_pct_rbrace r1) as [[w1 n2]|] eqn:E2; [|discriminate].
  intros H; inversion H; subst. apply take_while_spec in E as (A & _ & _).
  pose proof (wc_end_len _ _ _ _ E2) as Hl. apply wc_end_last in E2. simpl length in *.
  unfold L_pct_rbrace in E2. etransitivity; [|exact E2]. rewrite A, skipn_skipn. do 2 f_equal. lia.
Qed.

Lemma raw_delim_ends name r w0 w1 n :
  raw_delim name r = Some (w0, w1, n) ->
  firstn 2 r = [123; 37]%N /\ firstn 2 (skipn (n - 2) r) = [37; 125]%N.
Proof.
  unfold raw_delim. destruct (tag_open r) as [[[w n0] r1]|] eqn:E; [|discriminate].
  destruct (starts name r1) as [r2|] eqn:E1; [|discriminate].
  destruct (tag_close r2) as [[w1' n1]|] eqn:E2; [|discriminate].
  intros H; inversion H; subst. split; [eapply tag_open_first; eassumption|].
  apply tag_open_len in E as (_ & _ & A). apply starts_spec in E1.
  pose proof (tag_close_len _ _ _ E2) as Hl. apply tag_close_last in E2.
  assert (r2 = skipn (n0 + length name) r).
  { rewrite <- skipn_skipn, <- A, E1, skipn_app, skipn_all, Nat.sub_diag. reflexivity. }
  subst r2. rewrite skipn_skipn in E2.
  etransitivity; [|exact E2]. do 2 f_equal. lia.
Qed.

Lemma match_raw_detail r w0 w1 w2 w3 toff tlen n :
  match_raw r = Some (MkRaw w0 w1 w2 w3 toff tlen n) ->
  firstn 2 r = [123; 37]%N /\ firstn 2 (skipn (n - 2) r) = [37; 125]%N /\
  4 <= toff /\ toff + tlen + 4 <= n /\ n <= length r.
Proof.
  unfold match_raw. destruct (raw_delim L_raw r) as [[[a0 a1] n0]|] eqn:E; [|discriminate].
  destruct (find_first (raw_delim L_endraw) (skipn n0 r)) as [[k [[a2 a3] m']]|] eqn:E2; [|discriminate].
  intros H; inversion H; subst.
  pose proof (raw_delim_len _ _ _ _ _ E) as L1. apply raw_delim_ends in E as (F1 & _).
  apply find_first_spec in E2 as (A & B).
  pose proof (raw_delim_len _ _ _ _ _ B) as L2. apply raw_delim_ends in B as (_ & F2).
  rewrite !skipn_length in *. rewrite !skipn_skipn in F2.
  split; [exact F1|]. split.
  - rewrite <- F2. do 2 f_equal. lia.
  - lia.
Qed.

Lemma match_comment_tag_first r w n :
  match_comment_tag r = Some (MkCommentTag w n) -> firstn 2 r = [123; 37]%N.
Proof.
  unfold match_comment_tag. destruct (tag_open r) as [[[w0 n0] r1]|] eqn:E; [|discriminate].
  intros _. eapply tag_open_first; eassumption.
Qed.

Lemma match_output_first r w n : match_output r = Some (MkOutput w n) -> firstn 2 r = [123; 123]%N.
Proof.
  unfold match_output. destruct (starts [123%N; 123%N] r) as [r1|] eqn:E; [|discriminate].
  intros _. apply starts_firstn in E. exact E.
Qed.

Lemma match_tag_first r w noff nlen :
  match_tag r = Some (MkTag w noff nlen) -> firstn 2 r = [123; 37]%N /\ 2 <= noff.
Proof.
  unfold match_tag. destruct (tag_open r) as [[[w0 n0] r1]|] eqn:E; [|discriminate].
  destruct r1 as [|c r2]; [discriminate|]. destruct (is_lower c); [|discriminate].
  destruct (take_while is_tagname_char r2). intros H; inversion H; subst.
  split; [eapply tag_open_first; eassumption|]. apply tag_open_len in E. lia.
Qed.

Lemma match_inline_detail r w0 w1 toff tlen n :
  match_inline_comment r = Some (MkInline w0 w1 toff tlen n) ->
  firstn 2 r = [123; 37]%N /\ firstn 2 (skipn (n - 2) r) = [37; 125]%N /\
  3 <= toff /\ toff + tlen + 2 <= n /\ n <= length r.
Proof.
  unfold match_inline_comment. destruct (tag_open r) as [[[a0 n0] r1]|] eqn:E; [|discriminate].
  destruct (starts L_hash r1) as [r2|] eqn:E1; [|discriminate].
  destruct (find_first (wc_end L_pct_rbrace) r2) as [[k [a1 m']]|] eqn:E2; [|discriminate].
  intros H; inversion H; subst.
  split; [eapply tag_open_first; eassumption|].
  apply tag_open_len in E as (A & B & C). pose proof (starts_len _ _ _ E1) as Hl. apply starts_spec in E1.
  apply find_first_spec in E2 as (D & F). pose proof (wc_end_len _ _ _ _ F) as G. apply wc_end_last in F.
  simpl length in *. rewrite skipn_length in G.
  assert (r2 = skipn (n0 + 1) r).
  { rewrite <- skipn_skipn, <- C, E1. reflexivity. }
  subst r2. rewrite !skipn_skipn in F. split; [|lia].
  unfold L_pct_rbrace in F. etransitivity; [|exact F]. do 2 f_equal. lia.
Qed.

Lemma take_while_prefix p r m r' k :
  take_while p r = (m, r') -> k <= m -> Forall (fun c => p c = true) (firstn k r).
Proof.
  revert m r' k; induction r as [|c r IH]; simpl; intros m r' k H Hk.
  - inversion H; subst. destruct k; [constructor|lia].
  - destruct (p c) eqn:E.
    + destruct (take_while p r) as [m0 r0] eqn:E0. inversion H; subst.
      destruct k; [constructor|]. simpl. constructor; [assumption|]. eapply IH; [reflexivity|lia].
    + inversion H; subst. assert (k = 0) by lia. subst. constructor.
Qed.

Lemma all_hash_repeat l : Forall (fun c => N.eqb 35 c = true) l -> l = repeat 35%N (length l).
Proof.
  induction 1 as [|c l H _ IH]; [reflexivity|]. simpl. apply N.eqb_eq in H. subst c. f_equal. exact IH.
Qed.

Lemma hashes_then_brace_first n r :
  hashes_then_brace n r = true -> firstn (n + 1) r = repeat 35%N n ++ [125%N].
Proof.
  unfold hashes_then_brace. destruct (starts (repeat 35%N n) r) as [x|] eqn:E; [|discriminate].
  destruct x as [|c x]; [discriminate|]. intros H. apply N.eqb_eq in H. subst c.
  apply starts_spec in E. subst r. rewrite firstn_app, repeat_length.
  replace (n + 1 - n) with 1 by lia. simpl.
  rewrite firstn_all2 by (rewrite repeat_length; lia). reflexivity.
Qed.

Lemma comment_close_last n r w m :
  comment_close n r = Some (w, m) ->
  firstn (n + 1) (skipn (m - (n + 1)) r) = repeat 35%N n ++ [125%N].
Proof.
  unfold comment_close. destruct (take_wc r) as [[w0 k] r1] eqn:E.
  apply take_wc_spec in E as (A & _ & _).
  destruct (hashes_then_brace n r1) eqn:E1.
  - intros H; inversion H; subst. apply hashes_then_brace_first in E1.
    replace (k + n + 1 - (n + 1)) with k by lia. exact E1.
  - destruct (hashes_then_brace n r) eqn:E2; [|discriminate].
    intros H; inversion H; subst. apply hashes_then_brace_first in E2.
    rewrite Nat.sub_diag. exact E2.
Qed.

Lemma match_comment_detail r h w0 w1 toff tlen n :
  match_comment r = Some (MkComment h w0 w1 toff tlen n) ->
  1 <= h /\ firstn (1 + h) r = 123%N :: repeat 35%N h /\
  firstn (h + 1) (skipn (n - (h + 1)) r) = repeat 35%N h ++ [125%N] /\
  2 <= toff /\ toff + tlen + 2 <= n /\ n <= length r /\ 2 * h + 2 <= n.
Proof.
  unfold match_comment. destruct r as [|c r1]; [discriminate|].
  destruct (N.eqb c 123) eqn:Ec; [|discriminate]. apply N.eqb_eq in Ec. subst c.
  destruct (take_while (N.eqb 35) r1) as [hm r2] eqn:E.
  destruct (comment_try hm r1) as [[n0 [[[[a0 a1] toff0] tlen0] m0]]|] eqn:E1; [|discriminate].
  intros H; inversion H; subst.
  apply comment_try_len in E1 as (A & C).
  pose proof (take_while_prefix _ _ _ _ h E ltac:(lia)) as Hp. apply all_hash_repeat in Hp.
  pose proof (take_while_spec _ _ _ _ E) as (_ & Hle & _).
  rewrite firstn_length, Nat.min_l in Hp by lia.
  pose proof (comment_body_len _ _ _ _ _ _ _ C) as (D & F). rewrite skipn_length in D.
  split; [lia|]. split; [simpl; f_equal; exact Hp|].
  (* the closing delimiter *)
  unfold comment_body in C. destruct (take_wc (skipn h r1)) as [[w n1] r3] eqn:E3.
  apply take_wc_spec in E3 as (G1 & G2 & G3).
  assert (Hatt : forall wx nx rx, rx = skipn nx (skipn h r1) ->
            match find_first (comment_close h) rx with
            | Some (k, (w1', m')) => Some (wx, w1', nx, k, nx + k + m')
            | None => None end = Some (w0, w1, toff0, tlen, m0) ->
            firstn (h + 1) (skipn (1 + h + m0 - (h + 1)) (123%N :: r1)) = repeat 35%N h ++ [125%N]).
  { intros wx nx rx Hrx. destruct (find_first (comment_close h) rx) as [[k [w1' m']]|] eqn:E4; [|discriminate].
    intros H0; inversion H0; subst. apply find_first_spec in E4 as (K1 & K2).
    pose proof (comment_close_len _ _ _ _ K2) as K3. apply comment_close_last in K2.
    rewrite !skipn_skipn in K2.
    replace (1 + h + (toff0 + tlen + m') - (h + 1)) with (S (h + toff0 + tlen + (m' - (h + 1)))) by lia.
    rewrite skipn_cons. etransitivity; [|exact K2]. do 2 f_equal. lia. }
  split.
  - destruct (find_first (comment_close h) r3) as [[k [w1' m']]|] eqn:E4.
    + eapply (Hatt w n1 r3); [exact G1|]. rewrite E4. exact C.
    + destruct (Nat.eqb n1 0); [discriminate|]. eapply (Hatt WDefault 0 (skipn h r1)); [reflexivity|exact C].
  - simpl. lia.
Qed.

Lemma chunk_tail_last r ce w n :
  chunk_tail r = Some (ce, w, n) -> firstn 2 (skipn (n - 2) r) = [37; 125]%N.
Proof.
  unfold chunk_tail. destruct (tag_open r) as [[[w0 n0] r1]|] eqn:E; [|discriminate].
  apply tag_open_len in E as (A & B & C).
  assert (G : forall lit (ce0 : chunk_end) (x : chunk_end * wc * nat),
    match starts lit r1 with
    | Some r2 => match find_first (wc_end L_pct_rbrace) r2 with
                 | Some (k, (w', m)) => Some (ce0, w', n0 + length lit + k + m)
                 | None => None end
    | None => None end = Some x -> firstn 2 (skipn (snd x - 2) r) = [37; 125]%N).
  { intros lit ce0 x. destruct (starts lit r1) as [r2|] eqn:E1; [|discriminate].
    destruct (find_first (wc_end L_pct_rbrace) r2) as [[k [w' m]]|] eqn:E2; [|discriminate].
    intros H; injection H as <-; cbn [snd]. apply starts_spec in E1.
    apply find_first_spec in E2 as (_ & D). pose proof (wc_end_len _ _ _ _ D) as G. apply wc_end_last in D.
    unfold L_pct_rbrace in G; simpl in G. simpl length in D.
    assert (r2 = skipn (n0 + length lit) r).
    { rewrite <- skipn_skipn, <- C, E1, skipn_app, skipn_all, Nat.sub_diag. reflexivity. }
    subst r2. rewrite !skipn_skipn in D.
    unfold L_pct_rbrace in D. etransitivity; [|exact D]. do 2 f_equal. lia. }
  repeat match goal with
  | |- match ?X with Some _ => _ | None => _ end = _ -> _ =>
      let Ex := fresh "Ex" in destruct X as [?|] eqn:Ex;
      [intros H; inversion H; subst; apply G in Ex; simpl in Ex; exact Ex|]
  end.
  intros H. apply G in H. exact H.
Qed.
