(** Proofs/Analysis_proofs.v — lemmas for C11 about Kernels/Analysis.v. *)
From LQ Require Import Base.Str Kernels.Analysis.
Local Open Scope list_scope.

(* ------------------------------------------------------------------ *)
(** * A. Generic facts *)

Lemma bind_ok {A B} (r : res A) (k : A -> res B) b :
  bind r k = Ok b -> exists a, r = Ok a /\ k a = Ok b.
Proof. destruct r; simpl; intro H; try discriminate. eauto. Qed.

Ltac inv_bind H :=
  let a := fresh "a" in let Ha := fresh "Ha" in
  apply bind_ok in H; destruct H as (a & Ha & H).

Lemma mapM_app_ok {A B} (g : A -> res (list B)) l out :
  mapM_app g l = Ok out ->
  forall x, In x l -> exists o, g x = Ok o /\ incl o out.
Proof.
  revert out; induction l as [|y l IH]; simpl; intros out H x Hx; [tauto|].
  inv_bind H. inv_bind H. inversion H; subst; clear H.
  destruct Hx as [->|Hx].
  - exists a; split; auto. apply incl_appl, incl_refl.
  - destruct (IH _ Ha0 _ Hx) as (o & Ho & Hi). exists o; split; auto.
    apply incl_appr; auto.
Qed.

(** map_add / build *)
Definition in_map {V} (k : str) (v : V) (m : list (str * list V)) : Prop :=
  exists l, assoc k m = Some l /\ In v l.

Lemma in_map_add_same {V} k (v : V) m : in_map k v (map_add k v m).
Proof.
  induction m as [|[k' vs] m IH]; simpl.
  - exists [v]. simpl. rewrite str_eqb_refl. simpl; auto.
  - destruct (str_eqb k k') eqn:E.
    + exists (vs ++ [v]). simpl. rewrite E. split; auto. apply in_or_app; simpl; auto.
    + destruct IH as (l & Hl & Hi). exists l. simpl. rewrite E. auto.
Qed.

Lemma in_map_add_other {V} k (v : V) k' (v' : V) m :
  in_map k' v' m -> in_map k' v' (map_add k v m).
Proof.
  induction m as [|[k0 vs] m IH]; intros (l & Hl & Hi); [discriminate|].
  simpl in Hl |- *.
  destruct (str_eqb k k0) eqn:E; unfold in_map; simpl; destruct (str_eqb k' k0) eqn:E'.
  - inversion Hl; subst. exists (l ++ [v]); split; [reflexivity|apply in_or_app; auto].
  - exists l; auto.
  - exists l; auto.
  - apply IH. exists l; auto.
Qed.

Lemma assoc_in_keys {V} k (m : list (str * V)) v : assoc k m = Some v -> In k (keys m).
Proof.
  induction m as [|[k' v'] m IH]; simpl; [discriminate|].
  destruct (str_eqb k k') eqn:E.
  - apply str_eqb_eq in E; subst; auto.
  - intro H; right; apply IH; auto.
Qed.

Lemma in_map_keys {V} k (v : V) m : in_map k v m -> In k (keys m).
Proof. intros (l & H & _). eapply assoc_in_keys; eauto. Qed.

(** What it means for a contribution to be in the result. *)
Definition has (a : analysis) (c : contrib) : Prop :=
  match c with
  | CVar v => in_map (v_root v) v (a_variables a)
  | CGlobal v => in_map (v_root v) v (a_globals a)
  | CLocal v => in_map (v_root v) v (a_locals a)
  | CFilter n tn sp => in_map n (tn, sp) (a_filters a)
  | CTag n tn sp => in_map n (tn, sp) (a_tags a)
  end.

Lemma has_add_same a c : has (add_contrib a c) c.
Proof. destruct c; simpl; apply in_map_add_same. Qed.

Lemma has_add_other a c c' : has a c' -> has (add_contrib a c) c'.
Proof. destruct c, c'; simpl; auto using in_map_add_other. Qed.

Lemma has_fold cs : forall a c, (has a c \/ In c cs) -> has (fold_left add_contrib cs a) c.
Proof.
  induction cs as [|x cs IH]; simpl; intros a c [H|H]; auto; try tauto.
  - apply IH. left. apply has_add_other; auto.
  - destruct H as [->|H].
    + apply IH. left. apply has_add_same.
    + apply IH. auto.
Qed.

Lemma has_build cs c : In c cs -> has (build cs) c.
Proof. intro H. apply has_fold; auto. Qed.

(* ------------------------------------------------------------------ *)
(** * B. analyze_async = analyze *)

Lemma fold_visit_ext v1 v2 :
  (forall x c s, v1 x c s = v2 x c s) ->
  forall l c s, fold_visit v1 l c s = fold_visit v2 l c s.
Proof.
  intros H l; induction l as [|x l IH]; simpl; intros c s; auto.
  rewrite H. destruct (v2 x c s) as [[[c1 s1] k1]| | |]; simpl; auto.
  rewrite IH. reflexivity.
Qed.

Lemma visit_ext ch1 ch2 incl :
  (forall i n, ch1 i n = ch2 i n) ->
  forall fuel n tn c s, visit ch1 incl fuel n tn c s = visit ch2 incl fuel n tn c s.
Proof.
  intros H fuel; induction fuel as [|f IH]; intros n tn c s; simpl; auto.
  destruct (mapM_app _ (n_expressions n)) as [ex| | |]; simpl; auto.
  destruct (n_partial_scope n) as [[[pname kind] ins]|].
  - destruct (cur_set c s _) as [c2 s2].
    destruct (mem_str pname (seen s2)); auto.
    destruct (match kind with Isolated => _ | _ => _ end) as [pc s3].
    rewrite H. destruct (ch2 incl n) as [ch| | |]; simpl; auto.
    rewrite (fold_visit_ext _ (fun x pc s => visit ch2 incl f x pname pc (add_seen pname s))); auto.
  - destruct (cur_set c s _) as [c3 s3].
    rewrite H. destruct (ch2 incl n) as [ch| | |]; simpl; auto.
    rewrite (fold_visit_ext _ (fun x c s => visit ch2 incl f x tn c s)); auto.
Qed.

Lemma n_children_async_eq (ga g : loader) :
  (forall name, ga name = g name) ->
  forall i n, n_children_async ga g i n = n_children g i n.
Proof.
  intros H i n. destruct n; simpl; auto; unfold load; rewrite H; auto.
Qed.

(** Async analysis returns the same result as sync analysis whenever the
    loader's async entry point serves the same templates as the sync one. *)
Theorem analyze_async_eq_lemma :
  forall (get_async get : loader) incl fuel name nodes,
    (forall n, get_async n = get n) ->
    analyze_async get_async get incl fuel name nodes = analyze get incl fuel name nodes.
Proof.
  intros ga g incl fuel name nodes H.
  unfold analyze_async, analyze, analyze_gen, analyze_contribs.
  rewrite (fold_visit_ext _ (fun x c s => visit (n_children g) incl fuel x name c s)); auto.
  intros. apply visit_ext. apply n_children_async_eq; auto.
Qed.

(* ------------------------------------------------------------------ *)
(** * C. What a successful analysis covers *)

Lemma str_dec (a b : str) : {a = b} + {a <> b}.
Proof. apply list_eq_dec. apply N.eq_dec. Qed.

Lemma in_str_dec (x : str) l : {In x l} + {~ In x l}.
Proof. apply in_dec. apply str_dec. Qed.

Lemma seen_cur_set c s st : seen (snd (cur_set c s st)) = seen s.
Proof. destruct c; reflexivity. Qed.

Lemma add_seen_in x s : In x (seen (add_seen x s)).
Proof.
  unfold add_seen. destruct (mem_str x (seen s)) eqn:E.
  - apply mem_str_In; auto.
  - simpl. apply in_or_app; simpl; auto.
Qed.

Lemma add_seen_incl x s : incl (seen s) (seen (add_seen x s)).
Proof.
  unfold add_seen. destruct (mem_str x (seen s)); [apply incl_refl|].
  simpl. apply incl_appl, incl_refl.
Qed.

Lemma add_seen_inv x s p : In p (seen (add_seen x s)) -> p = x \/ In p (seen s).
Proof.
  unfold add_seen. destruct (mem_str x (seen s)); auto.
  simpl. intro H. apply in_app_or in H as [H|[H|[]]]; auto.
Qed.

Lemma n_children_plain get n :
  n_partial_scope n = None -> n_children get true n = Ok (n_kids n).
Proof. destruct n; simpl; intro H; try discriminate; reflexivity. Qed.

Lemma n_children_partial get n p k i :
  n_partial_scope n = Some (p, k, i) -> n_children get true n = load get p.
Proof. destruct n; simpl; intro H; inversion H; subst; reflexivity. Qed.

Section Cover.
  Variable get : loader.
  Variable CF : list contrib.      (* the contributions of the finished analysis *)
  Variable SeenF : list str.       (* its final `seen` set *)

  (** the analysis looked at expression e of template tn *)
  Definition ecov (tn : str) (e : expr) : Prop :=
    (exists fuel stack cs, av fuel tn e stack = Ok cs /\ incl cs CF) /\
    (exists fuel cs, ef fuel tn e = Ok cs /\ incl cs CF).

  Definition part_ok (p : str) : Prop :=
    match get p with None => True | Some nodes => nodes = [] \/ In p SeenF end.

  (** the analysis looked at node n of template tn and at everything below it *)
  Inductive NCov (tn : str) : node -> Prop :=
  | NCov_part n p k i :
      n_partial_scope n = Some (p, k, i) ->
      incl (node_tags tn n) CF -> Forall (ecov tn) (n_expressions n) ->
      part_ok p -> NCov tn n
  | NCov_plain n :
      n_partial_scope n = None ->
      incl (node_tags tn n) CF -> Forall (ecov tn) (n_expressions n) ->
      Forall (NCov tn) (n_kids n) -> NCov tn n.

  Definition TemplCov (p : str) : Prop :=
    forall nodes, get p = Some nodes -> Forall (NCov p) nodes.

  Definition New (Q : str -> Prop) (s s' : vstate) : Prop :=
    forall p, In p (seen s') -> ~ In p (seen s) -> Q p \/ TemplCov p.

  Definition vspec (Q : str -> Prop) (P : node -> Prop)
    (v : node -> cur -> vstate -> res (cur * vstate * list contrib)) : Prop :=
    forall x c s c' s' k, v x c s = Ok (c', s', k) -> incl k CF -> incl (seen s') SeenF ->
      P x /\ incl (seen s) (seen s') /\ New Q s s'.

  Lemma fold_visit_cov Q P v : vspec Q P v ->
    forall l c s c' s' k, fold_visit v l c s = Ok (c', s', k) -> incl k CF -> incl (seen s') SeenF ->
      Forall P l /\ incl (seen s) (seen s') /\ New Q s s'.
  Proof.
    intros Hv l; induction l as [|x l IH]; simpl; intros c s c' s' k H Hk Hs.
    - inversion H; subst. split; [constructor|]. split; [apply incl_refl|].
      intros p Hp Hn; contradiction.
    - inv_bind H. destruct a as [[c1 s1] k1]. inv_bind H. destruct a as [[c2 s2] k2].
      inversion H; subst; clear H.
      assert (Hk1 : incl k1 CF) by (eapply incl_tran; [apply incl_appl, incl_refl|exact Hk]).
      assert (Hk2 : incl k2 CF) by (eapply incl_tran; [apply incl_appr, incl_refl|exact Hk]).
      destruct (IH _ _ _ _ _ Ha0 Hk2 Hs) as (F2 & M2 & N2).
      assert (Hs1 : incl (seen s1) SeenF) by (eapply incl_tran; eauto).
      destruct (Hv _ _ _ _ _ _ Ha Hk1 Hs1) as (P1 & M1 & N1).
      split; [constructor; auto|]. split; [eapply incl_tran; eauto|].
      intros p Hp Hn. destruct (in_str_dec p (seen s1)) as [Hi|Hi]; auto.
  Qed.

  Lemma exprs_cov f tn stack es ex :
    mapM_app (fun e => do a <- av f tn e stack ;; do b <- ef f tn e ;; Ok (a ++ b)) es = Ok ex ->
    incl ex CF -> Forall (ecov tn) es.
  Proof.
    intros H Hi. apply Forall_forall. intros e He.
    destruct (mapM_app_ok _ _ _ H e He) as (o & Ho & Hio).
    inv_bind Ho. inv_bind Ho. inversion Ho; subst.
    assert (incl (a ++ a0) CF) by (eapply incl_tran; eauto).
    split.
    - exists f, stack, a. split; auto. eapply incl_tran; [apply incl_appl, incl_refl|eauto].
    - exists f, a0. split; auto. eapply incl_tran; [apply incl_appr, incl_refl|eauto].
  Qed.

  Lemma visit_cov : forall fuel tn,
    vspec (fun _ => False) (NCov tn)
          (fun x c s => visit (n_children get) true fuel x tn c s).
  Proof.
    induction fuel as [|f IH]; intros tn n c s c' s' cs H Hcs Hs; simpl in H; [discriminate|].
    set (s1 := s) in *.
    assert (M01 : incl (seen s) (seen s1)) by apply incl_refl.
    assert (N01 : forall p, In p (seen s1) -> ~ In p (seen s) -> False) by (intros; contradiction).
    inv_bind H. rename a into ex. rename Ha into Hex.
    destruct (n_partial_scope n) as [[[pname kind] ins]|] eqn:Eps.
    - destruct (cur_set c s1 _) as [c2 s2] eqn:Ecs.
      assert (E12 : seen s2 = seen s1).
      { pose proof (seen_cur_set c s1 (fold_left (fun st i => stack_add (fst i) st) (n_template_scope n) (cur_stack c s1))) as E.
        rewrite Ecs in E. exact E. }
      destruct (mem_str pname (seen s2)) eqn:Em.
      + inversion H; subst; clear H.
        assert (Hex' : incl ex CF).
        { eapply incl_tran; [|exact Hcs]. apply incl_appr, incl_appl, incl_refl. }
        split; [|split].
        * eapply NCov_part; eauto.
          -- eapply incl_tran; [|exact Hcs]. apply incl_appl, incl_refl.
          -- eapply exprs_cov; eauto.
          -- unfold part_ok. destruct (get pname); auto. right. apply Hs. apply mem_str_In; auto.
        * rewrite E12; auto.
        * intros p Hp Hn. left. rewrite E12 in Hp. eapply N01; eauto.
      + destruct (match kind with Isolated => _ | _ => _ end) as [pc s3] eqn:Ek.
        assert (E23 : seen s3 = seen s2).
        { destruct kind; inversion Ek; subst; reflexivity. }
        inv_bind H. rename a into ch. inv_bind H. destruct a as [[pc' s4] cc].
        inversion H; subst; clear H.
        set (s5 := match pc' with None => pop_root s4 | Some _ => s4 end) in *.
        assert (E45 : seen s5 = seen s4) by (subst s5; destruct pc'; reflexivity).
        rewrite E45 in Hs.
        assert (Hcc : incl cc CF).
        { eapply incl_tran; [|exact Hcs]. do 3 apply incl_appr. apply incl_refl. }
        assert (Hex' : incl ex CF).
        { eapply incl_tran; [|exact Hcs]. apply incl_appr, incl_appl, incl_refl. }
        assert (Hv : vspec (fun p => p = pname) (NCov pname)
                       (fun x pc s => visit (n_children get) true f x pname pc (add_seen pname s))).
        { intros x c0 s0 c0' s0' k0 Hx Hk0 Hs0.
          destruct (IH pname _ _ _ _ _ _ Hx Hk0 Hs0) as (P & Mo & Ne).
          split; auto. split; [eapply incl_tran; [apply add_seen_incl|eauto]|].
          intros p Hp Hn. destruct (in_str_dec p (seen (add_seen pname s0))) as [Hi|Hi].
          - apply add_seen_inv in Hi as [->|Hi]; [auto|contradiction].
          - destruct (Ne p Hp Hi) as [[]|]; auto. }
        destruct (fold_visit_cov _ _ _ Hv _ _ _ _ _ _ Ha0 Hcc Hs) as (Fc & Mc & Nc).
        rewrite (n_children_partial _ _ _ _ _ Eps) in Ha. unfold load in Ha.
        destruct (get pname) as [pn|] eqn:Eg; [|discriminate]. inversion Ha; subst pn; clear Ha.
        assert (TC : TemplCov pname).
        { intros nodes Hn. rewrite Eg in Hn. inversion Hn; subst; auto. }
        split; [|split].
        * eapply NCov_part; eauto.
          -- eapply incl_tran; [|exact Hcs]. apply incl_appl, incl_refl.
          -- eapply exprs_cov; eauto.
          -- unfold part_ok. rewrite Eg. destruct ch as [|x ch]; auto. right.
             simpl in Ha0. inv_bind Ha0. destruct a as [[c1 s1'] k1]. inv_bind Ha0.
             destruct a as [[c2' s2'] k2]. inversion Ha0; subst; clear Ha0.
             assert (Hk2 : incl k2 CF) by (eapply incl_tran; [apply incl_appr, incl_refl|exact Hcc]).
             destruct (fold_visit_cov _ _ _ Hv _ _ _ _ _ _ Ha1 Hk2 Hs) as (_ & M2 & _).
             assert (Hk1 : incl k1 CF) by (eapply incl_tran; [apply incl_appl, incl_refl|exact Hcc]).
             assert (Hs1' : incl (seen s1') SeenF) by (eapply incl_tran; eauto).
             destruct (IH pname _ _ _ _ _ _ Ha Hk1 Hs1') as (_ & M1 & _).
             apply Hs, M2, M1, add_seen_in.
        * rewrite E45. eapply incl_tran; [exact M01|]. rewrite <- E12, <- E23. exact Mc.
        * intros p Hp Hn. rewrite E45 in Hp.
          destruct (in_str_dec p (seen s3)) as [Hi|Hi].
          -- left. rewrite E23, E12 in Hi. eapply N01; eauto.
          -- destruct (Nc p Hp Hi) as [->|]; auto.
    - destruct (cur_set c s1 _) as [c3 s3] eqn:Ecs3.
      assert (E13 : seen s3 = seen s1).
      { pose proof (seen_cur_set c s1 (cur_stack c s1 ++ [n_block_scope n])) as E.
        rewrite Ecs3 in E. exact E. }
      inv_bind H. rename a into ch. inv_bind H. destruct a as [[c4 s4] cc].
      destruct (cur_set c4 s4 _) as [c5 s5] eqn:Ecs5.
      assert (E45 : seen s5 = seen s4).
      { pose proof (seen_cur_set c4 s4 (removelast (cur_stack c4 s4))) as E.
        rewrite Ecs5 in E. exact E. }
      destruct (cur_set c5 s5 _) as [c6 s6] eqn:Ecs6.
      assert (E56 : seen s6 = seen s5).
      { pose proof (seen_cur_set c5 s5 (fold_left (fun st i => stack_add (fst i) st) (n_template_scope n) (cur_stack c5 s5))) as E.
        rewrite Ecs6 in E. exact E. }
      inversion H; subst; clear H.
      rewrite E56, E45 in Hs.
      assert (Hcc : incl cc CF).
      { eapply incl_tran; [|exact Hcs]. apply incl_appr, incl_appr, incl_appl, incl_refl. }
      assert (Hex' : incl ex CF).
      { eapply incl_tran; [|exact Hcs]. apply incl_appr, incl_appl, incl_refl. }
      destruct (fold_visit_cov _ _ _ (IH tn) _ _ _ _ _ _ Ha0 Hcc Hs) as (Fc & Mc & Nc).
      rewrite (n_children_plain _ _ Eps) in Ha. inversion Ha; subst ch; clear Ha.
      split; [|split].
      + eapply NCov_plain; eauto.
        * eapply incl_tran; [|exact Hcs]. apply incl_appl, incl_refl.
        * eapply exprs_cov; eauto.
      + rewrite E56, E45. eapply incl_tran; [exact M01|]. rewrite <- E13. exact Mc.
      + intros p Hp Hn. rewrite E56, E45 in Hp.
        destruct (in_str_dec p (seen s3)) as [Hi|Hi].
        * left. rewrite E13 in Hi. eapply N01; eauto.
        * apply Nc; auto.
  Qed.
End Cover.

(* ------------------------------------------------------------------ *)
(** * D. Every event of the tracing interpreter is covered by the analysis *)

Lemma analysis_closed get fuel name nodes sF CF :
  analyze_contribs (n_children get) true fuel name nodes = Ok (sF, CF) ->
  (name = [] \/ get name = Some nodes) ->
  Forall (NCov get CF (seen sF) name) nodes /\
  forall p, In p (seen sF) -> TemplCov get CF (seen sF) p.
Proof.
  unfold analyze_contribs. intros H Hn. inv_bind H. destruct a as [[c s] cs].
  inversion H; subst; clear H.
  destruct (fold_visit_cov get CF (seen sF) _ _ _ (visit_cov get CF (seen sF) fuel name)
              _ _ _ _ _ _ Ha (incl_refl _) (incl_refl _)) as (F & _ & N).
  split; auto. intros p Hp.
  destruct (in_str_dec p (seen (init_vstate name))) as [Hi|Hi].
  - unfold init_vstate in Hi. simpl in Hi. destruct name as [|ch nm]; [contradiction|].
    destruct Hi as [<-|[]]. destruct Hn as [Hn|Hg]; [discriminate|].
    intros nodes' Hn'. rewrite Hg in Hn'. inversion Hn'; subst; auto.
  - destruct (N p Hp Hi) as [[]|]; auto.
Qed.

Section Sound.
  Variable get : loader.
  Variable reads : str -> list str.
  Variable CF : list contrib.
  Variable SeenF : list str.
  Hypothesis Closed : forall p, In p SeenF -> TemplCov get CF SeenF p.

  Notation NCov := (NCov get CF SeenF).
  Notation ecov := (ecov CF).
  Definition ecov' (e : expr) : Prop := exists tn, ecov tn e.

  (** An event the static report accounts for. Two kinds of event are exempt
      here (they are the two known findings and are refuted separately):
      filters of the left branch of a ternary, and names a filter resolves
      from the context on its own. *)
  Definition allowed (ev : event) : Prop :=
    match ev with
    | EvLookup x _ => exists v, In (CVar v) CF /\ v_root v = x
    | EvResolve _ _ => True
    | EvFilter f true => True
    | EvFilter f false => exists tn sp, In (CFilter f tn sp) CF
    | EvTag n tn sp => In (CTag n tn sp) CF
    end.

  Definition binding_ok (b : binding) : Prop :=
    match b with
    | BPlain => True
    | BDrop supers => Forall (fun p => NCov (fst p) (snd p)) supers
    end.
  Definition layer_ok (l : layer) : Prop := Forall (fun p => binding_ok (snd p)) l.
  Definition gl_ok (g : gkind) : Prop :=
    match g with GUser => True | GNs ns | GParent ns => layer_ok ns end.
  Definition macro_ok (m : macro) : Prop :=
    NCov (m_tn m) (m_body m) /\
    Forall (fun p => forall e, snd p = Some e -> ecov' e) (m_params m).
  Definition bitem_ok (i : bitem) : Prop := NCov (bi_tn i) (bi_body i).
  Definition tmpl_ok (t : str * list node) : Prop := Forall (NCov (fst t)) (snd t).
  Definition frame_ok (fr : frame) : Prop :=
    Forall layer_ok (pushed fr) /\ layer_ok (locals fr) /\ gl_ok (gl fr) /\
    Forall (fun p => macro_ok (snd p)) (macros fr) /\
    Forall (fun p => Forall bitem_ok (snd p)) (stacks fr) /\
    tmpl_ok (ctmpl fr).
  Definition inv (s : state) : Prop := Forall frame_ok (cx s).

  Definition sound {A} (m : M A) (Q : A -> Prop) : Prop :=
    forall s, inv s ->
      Forall allowed (fst (fst (m s))) /\ inv (snd (fst (m s))) /\
      match snd (m s) with Done a => Q a | Halt _ => True end.

  Definition T {A} : A -> Prop := fun _ => True.

  Lemma sound_ret {A} (a : A) (Q : A -> Prop) : Q a -> sound (ret a) Q.
  Proof. intros H s Hs; simpl; auto. Qed.

  Lemma sound_weaken {A} (m : M A) (P Q : A -> Prop) :
    sound m P -> (forall a, P a -> Q a) -> sound m Q.
  Proof.
    intros H HPQ s Hs. destruct (H s Hs) as (H1 & H2 & H3). split; auto. split; auto.
    destruct (snd (m s)); auto.
  Qed.

  Lemma sound_bind {A B} (m : M A) (k : A -> M B) P Q :
    sound m P -> (forall a, P a -> sound (k a) Q) -> sound (mbind m k) Q.
  Proof.
    intros Hm Hk s Hs. unfold mbind. specialize (Hm s Hs).
    destruct (m s) as [[t1 s1] o1]; simpl in Hm. destruct Hm as (H1 & H2 & H3).
    destruct o1 as [a|h]; simpl; auto.
    specialize (Hk a H3 s1 H2). destruct (k a s1) as [[t2 s2] o2]; simpl in *.
    destruct Hk as (K1 & K2 & K3). split; [apply Forall_app; auto|auto].
  Qed.

  Lemma sound_seq {A B} (m : M A) (k : M B) Q :
    sound m T -> sound k Q -> sound (mbind m (fun _ => k)) Q.
  Proof. intros. eapply sound_bind; eauto. Qed.

  Lemma sound_emit t : Forall allowed t -> sound (emit t) T.
  Proof. intros H s Hs; simpl; unfold T; auto. Qed.

  Lemma sound_stop {A} h (Q : A -> Prop) : sound (stop h) Q.
  Proof. intros s Hs; simpl; auto. Qed.

  Lemma sound_pop : sound pop T.
  Proof. intros s Hs. unfold pop. destruct (orc s); simpl; unfold T; auto. Qed.

  Lemma sound_pop_bool : sound pop_bool T.
  Proof. unfold pop_bool. eapply sound_bind; [apply sound_pop|]. intros; apply sound_ret; exact I. Qed.

  Lemma sound_getc : sound getc (Forall frame_ok).
  Proof. intros s Hs; simpl; auto. Qed.

  Lemma sound_head_frame : sound head_frame frame_ok.
  Proof.
    intros s Hs. pose proof Hs as Hs'. unfold inv in Hs'. unfold head_frame.
    destruct (cx s) as [|fr r]; simpl; (split; [|split]); auto. inversion Hs'; auto.
  Qed.

  Lemma sound_upd f : (forall c, Forall frame_ok c -> Forall frame_ok (f c)) -> sound (upd f) T.
  Proof. intros H s Hs; simpl; unfold T, inv; simpl; auto. Qed.

  Lemma sound_forM {A} (l : list A) (f : A -> M unit) :
    (forall x, In x l -> sound (f x) T) -> sound (forM l f) T.
  Proof.
    induction l as [|x l IH]; simpl; intro H; [apply sound_ret; exact I|].
    apply sound_seq; auto.
  Qed.

  Lemma sound_repeatM n (m : M unit) : sound m T -> sound (repeatM n m) T.
  Proof. intro H; induction n; simpl; [apply sound_ret; exact I|apply sound_seq; auto]. Qed.

  Lemma sound_ign {A} (m : M A) Q : sound m Q -> sound (ign m) T.
  Proof. intro H. unfold ign. eapply sound_bind; eauto. intros; apply sound_ret; exact I. Qed.

  Lemma sound_at_depth {A} d (m : M A) Q : sound m Q -> sound (at_depth d m) Q.
  Proof.
    intros H s Hs. unfold at_depth.
    assert (Hi : inv {| cx := skipn d (cx s); orc := orc s |}).
    { unfold inv; simpl. unfold inv in Hs. rewrite <- (firstn_skipn d (cx s)) in Hs.
      apply Forall_app in Hs; tauto. }
    specialize (H _ Hi). destruct (m _) as [[t s'] o]; simpl in *.
    destruct H as (H1 & H2 & H3). split; auto. split; auto.
    unfold inv; simpl. apply Forall_app; split; auto.
    unfold inv in Hs. rewrite <- (firstn_skipn d (cx s)) in Hs. apply Forall_app in Hs; tauto.
  Qed.

  Lemma sound_isolated {A} fr (m : M A) Q : frame_ok fr -> sound m Q -> sound (isolated fr m) Q.
  Proof.
    intros Hf H s Hs. unfold isolated.
    assert (Hi : inv {| cx := [fr]; orc := orc s |}) by (unfold inv; simpl; auto).
    specialize (H _ Hi). destruct (m _) as [[t s'] o]; simpl in *.
    destruct H as (H1 & H2 & H3). auto.
  Qed.

  Lemma sound_catch_stop (m : M unit) : sound m T -> sound (catch_stop m) T.
  Proof.
    intros H s Hs. unfold catch_stop. specialize (H s Hs).
    destruct (m s) as [[t s'] o]; simpl in *. destruct H as (H1 & H2 & H3).
    destruct o as [a|[]]; simpl; unfold T; auto.
  Qed.

  (** invariant preservation of the context transformers *)
  Lemma on_head_ok f c :
    (forall fr, frame_ok fr -> frame_ok (f fr)) -> Forall frame_ok c -> Forall frame_ok (on_head f c).
  Proof. intros H Hc. destruct c; simpl; auto. inversion Hc; subst. constructor; auto. Qed.

  Lemma plain_ok xs : layer_ok (plain xs).
  Proof. unfold layer_ok, plain. apply Forall_forall. intros p Hp. apply in_map_iff in Hp as (x & <- & _). exact I. Qed.

  Lemma dict_set_ok {V} (P : V -> Prop) k v (l : list (str * V)) :
    P v -> Forall (fun p => P (snd p)) l -> Forall (fun p => P (snd p)) (dict_set k v l).
  Proof.
    intros Hv; induction l as [|[k' v'] l IH]; simpl; intro H; [constructor; auto|].
    inversion H; subst. destruct (str_eqb k k'); constructor; auto.
  Qed.

  Lemma push_layer_ok l c : layer_ok l -> Forall frame_ok c -> Forall frame_ok (push_layer l c).
  Proof.
    intros Hl. apply on_head_ok. intros fr (A1 & A2 & A3 & A4 & A5 & A6).
    unfold frame_ok; simpl. repeat split; auto.
  Qed.

  Lemma pop_layer_ok c : Forall frame_ok c -> Forall frame_ok (pop_layer c).
  Proof.
    apply on_head_ok. intros fr (A1 & A2 & A3 & A4 & A5 & A6).
    unfold frame_ok; simpl. repeat split; auto.
    destruct (pushed fr); simpl; auto. inversion A1; auto.
  Qed.

  Lemma bind_top_ok x c : Forall frame_ok c -> Forall frame_ok (bind_top x c).
  Proof.
    apply on_head_ok. intros fr (A1 & A2 & A3 & A4 & A5 & A6).
    destruct (pushed fr) as [|l p] eqn:E; [unfold frame_ok; rewrite E; repeat split; auto|].
    unfold frame_ok; simpl. inversion A1; subst. repeat split; auto.
    constructor; auto. apply (dict_set_ok binding_ok); simpl; auto.
  Qed.

  Lemma assign_ok x c : Forall frame_ok c -> Forall frame_ok (assign x c).
  Proof.
    apply on_head_ok. intros fr (A1 & A2 & A3 & A4 & A5 & A6).
    unfold frame_ok; simpl. repeat split; auto. apply (dict_set_ok binding_ok); simpl; auto.
  Qed.

  Lemma add_counter_ok x c : Forall frame_ok c -> Forall frame_ok (add_counter x c).
  Proof.
    apply on_head_ok. intros fr (A1 & A2 & A3 & A4 & A5 & A6). unfold frame_ok; simpl; repeat split; auto.
  Qed.

  Lemma set_macro_ok x m c : macro_ok m -> Forall frame_ok c -> Forall frame_ok (set_macro x m c).
  Proof.
    intro Hm. apply on_head_ok. intros fr (A1 & A2 & A3 & A4 & A5 & A6).
    unfold frame_ok; simpl; repeat split; auto. apply (dict_set_ok macro_ok); auto.
  Qed.

  Lemma set_stacks_ok st c :
    Forall (fun p => Forall bitem_ok (snd p)) st -> Forall frame_ok c -> Forall frame_ok (set_stacks st c).
  Proof.
    intro Hm. apply on_head_ok. intros fr (A1 & A2 & A3 & A4 & A5 & A6).
    unfold frame_ok; simpl; repeat split; auto.
  Qed.

  Lemma set_ctmpl_ok t c : tmpl_ok t -> Forall frame_ok c -> Forall frame_ok (set_ctmpl t c).
  Proof.
    intro Hm. apply on_head_ok. intros fr (A1 & A2 & A3 & A4 & A5 & A6).
    unfold frame_ok; simpl; repeat split; auto.
  Qed.

  Lemma new_frame_ok g st t dis :
    gl_ok g -> Forall (fun p => Forall bitem_ok (snd p)) st -> tmpl_ok t -> frame_ok (new_frame g st t dis).
  Proof. intros; unfold frame_ok, new_frame, layer_ok; simpl; repeat split; auto. Qed.

  (** *** expressions *)

  Lemma ecov_children e : ecov' e -> Forall ecov' (e_children e).
  Proof.
    intros (tn & (fa & st & ca & Hav & Hia) & (fe & ce & Hef & Hie)).
    destruct fa as [|fa]; [discriminate|]. destruct fe as [|fe]; [discriminate|].
    simpl in Hav, Hef. inv_bind Hav. inv_bind Hav. inversion Hav; subst; clear Hav.
    inv_bind Hef. inversion Hef; subst; clear Hef.
    apply Forall_forall. intros c Hc. exists tn. split.
    - destruct (mapM_app_ok _ _ _ Ha0 c Hc) as (o & Ho & Hio).
      exists fa, (match e_scope e with [] => st | sc => st ++ [sc] end), o. split; auto.
      eapply incl_tran; [exact Hio|]. eapply incl_tran; [|exact Hia]. apply incl_appr, incl_refl.
    - destruct (mapM_app_ok _ _ _ Ha1 c Hc) as (o & Ho & Hio).
      exists fe, o. split; auto.
      eapply incl_tran; [exact Hio|]. eapply incl_tran; [|exact Hie]. apply incl_appr, incl_refl.
  Qed.

  Lemma ecov_in_children e c : ecov' e -> In c (e_children e) -> ecov' c.
  Proof. intros H Hc. apply ecov_children in H. rewrite Forall_forall in H. auto. Qed.

  Lemma ecov_path sp root segs k : ecov' (EPath sp root segs) -> allowed (EvLookup root k).
  Proof.
    intros (tn & (fa & st & ca & Hav & Hia) & _).
    destruct fa as [|fa]; [discriminate|]. simpl in Hav.
    inv_bind Hav. inv_bind Ha. inversion Ha; subst; clear Ha.
    inv_bind Hav. inversion Hav; subst; clear Hav.
    destruct fa as [|fa]; [discriminate|]. simpl in Ha0. inv_bind Ha0. inversion Ha0; subst; clear Ha0.
    simpl. eexists. split; [apply Hia; simpl; left; reflexivity|]. reflexivity.
  Qed.

  Lemma ecov_filtered l fs flt : ecov' (EFiltered l fs) -> In flt fs -> allowed (EvFilter (f_name flt) false).
  Proof.
    intros (tn & _ & (fe & ce & Hef & Hie)) Hin.
    destruct fe as [|fe]; [discriminate|]. simpl in Hef. inv_bind Hef. inversion Hef; subst; clear Hef.
    simpl. exists tn, (f_span flt). apply Hie. apply in_or_app; left.
    unfold filter_contribs. apply in_map_iff. exists flt; auto.
  Qed.

  Lemma ecov_ternary l0 fs0 c alt fs tl flt :
    ecov' (ETernary l0 fs0 c alt fs tl) -> In flt fs \/ In flt tl -> allowed (EvFilter (f_name flt) false).
  Proof.
    intros (tn & _ & (fe & ce & Hef & Hie)) Hin.
    destruct fe as [|fe]; [discriminate|]. simpl in Hef. inv_bind Hef. inversion Hef; subst; clear Hef.
    simpl. exists tn, (f_span flt). apply Hie. apply in_or_app; left.
    unfold filter_contribs. apply in_or_app.
    destruct Hin as [H|H]; [left|right]; apply in_map_iff; exists flt; auto.
  Qed.

  Lemma sound_resolve_events f : sound (resolve_events reads f) T.
  Proof.
    unfold resolve_events. apply sound_forM. intros x _.
    eapply sound_bind; [apply sound_getc|]. intros c _.
    destruct (lookup x c 0) as [[k b] d]. apply sound_emit. constructor; simpl; auto.
  Qed.

  Lemma sound_apply_filters (ev : expr -> M unit) flag fs :
    (forall e, ecov' e -> sound (ev e) T) ->
    (forall fl, In fl fs -> Forall ecov' (f_args fl)) ->
    (forall fl, In fl fs -> allowed (EvFilter (f_name fl) flag)) ->
    sound (apply_filters reads ev flag fs) T.
  Proof.
    intros Hev Hargs Hal. unfold apply_filters. apply sound_forM. intros fl Hfl.
    specialize (Hargs fl Hfl). rewrite Forall_forall in Hargs.
    apply sound_seq; [apply sound_forM; intros; apply Hev; auto|].
    apply sound_seq; [apply sound_emit; constructor; auto|].
    apply sound_seq; [apply sound_resolve_events|].
    apply sound_forM. intros a Ha. destruct a; try (apply sound_ret; exact I).
    eapply sound_bind; [apply sound_pop|]. intros n _.
    apply sound_seq; [apply sound_upd; intros; apply push_layer_ok; auto using plain_ok|].
    apply sound_seq; [|apply sound_upd; intros; apply pop_layer_ok; auto].
    apply sound_repeatM. apply Hev. eapply ecov_in_children; [apply Hargs; eauto|]. simpl; auto.
  Qed.

  Lemma sound_any_loop (ev : expr -> M unit) items :
    (forall x, In x items -> sound (ev x) T) -> sound (any_loop ev items) T.
  Proof.
    induction items as [|x l IH]; simpl; intro H; [apply sound_ret; exact I|].
    apply sound_seq; auto. eapply sound_bind; [apply sound_pop_bool|]. intros b _.
    destruct b; [apply sound_ret; exact I|auto].
  Qed.

  Lemma assoc_P {V} (P : V -> Prop) x (l : list (str * V)) v :
    Forall (fun p => P (snd p)) l -> assoc x l = Some v -> P v.
  Proof.
    induction l as [|[k v'] l IH]; simpl; intros H E; [discriminate|].
    inversion H; subst. destruct (str_eqb x k); [inversion E; subst; auto|auto].
  Qed.

  Lemma find_layers_ok x ls b : Forall layer_ok ls -> find_layers x ls = Some b -> binding_ok b.
  Proof.
    induction ls as [|l ls IH]; simpl; intros H E; [discriminate|].
    inversion H; subst. destruct (assoc x l) eqn:Ea.
    - inversion E; subst. eapply (assoc_P binding_ok); eauto.
    - auto.
  Qed.

  Lemma lookup_ok x c : forall d, Forall frame_ok c -> binding_ok (snd (fst (lookup x c d))).
  Proof.
    induction c as [|fr c IH]; intros d H; simpl; [exact I|].
    inversion H as [|? ? (A1 & A2 & A3 & _) Hc]; subst.
    destruct (find_layers x (pushed fr)) eqn:E1; [simpl; eapply find_layers_ok; eauto|].
    destruct (assoc x (locals fr)) eqn:E2; [simpl; eapply (assoc_P binding_ok); eauto|].
    destruct (gl fr) eqn:Eg; simpl in A3; [exact I| |].
    - destruct (assoc x ns) eqn:E3; [simpl; eapply (assoc_P binding_ok); eauto|exact I].
    - destruct (assoc x ns) eqn:E3; [simpl; eapply (assoc_P binding_ok); eauto|auto].
  Qed.

  Lemma tern_children x l0 fs0 c alt fs tl :
    (x = l0 \/ In x (flat_map f_children fs0) \/ x = c \/ In x (opt_list alt) \/
     In x (flat_map f_children fs) \/ In x (flat_map f_children tl)) ->
    In x (e_children (ETernary l0 fs0 c alt fs tl)).
  Proof.
    simpl. rewrite !in_app_iff. simpl. rewrite !in_app_iff.
    intros [->|[H|[->|[H|[H|H]]]]]; auto 10.
  Qed.

  Lemma eval_step f :
    (forall e, ecov' e -> sound (eval get reads f e) T) ->
    (forall tn n, NCov tn n -> sound (render_node get reads f tn n) T) ->
    forall e, ecov' e -> sound (eval get reads (S f) e) T.
  Proof.
    intros IHe IHn e He.
    assert (Hch := ecov_children e He). rewrite Forall_forall in Hch.
    assert (Hev : forall x, ecov' x -> sound (ign (eval get reads f x)) T) by (intros; eapply sound_ign; eauto).
    assert (Hevs : forall l, (forall x, In x l -> ecov' x) ->
                   sound (forM l (fun x => ign (eval get reads f x))) T).
    { intros; apply sound_forM; auto. }
    assert (Hret : forall b : bool, sound (ret b) T) by (intros; apply sound_ret; exact I).
    assert (Hpb : sound pop_bool T) by apply sound_pop_bool.
    destruct e; simpl.
    - apply Hret.
    - (* EPath *)
      apply sound_seq; [apply Hevs; intros; apply Hch; simpl; auto|].
      eapply sound_bind; [apply sound_getc|]. intros c Hc.
      pose proof (lookup_ok root c 0 Hc) as Hb.
      destruct (lookup root c 0) as [[k b] d]. simpl in Hb.
      apply sound_seq; [apply sound_emit; constructor; [eapply ecov_path; eauto|constructor]|].
      destruct b as [|[|[ptn pbody] rest]]; try apply Hret.
      destruct segs as [|s0 segs]; try apply Hret.
      destruct (is_super_seg s0); try apply Hret.
      simpl in Hb. inversion Hb; subst.
      apply sound_seq; [|apply Hret].
      apply sound_at_depth.
      apply sound_seq; [apply sound_upd; intros; apply push_layer_ok; auto;
                        constructor; [simpl; auto|constructor]|].
      apply sound_seq; [apply IHn; auto|].
      apply sound_upd; intros; apply pop_layer_ok; auto.
    - apply sound_seq; [apply Hevs; intros; apply Hch; simpl in *; tauto|apply Hret].
    - apply sound_seq; [apply Hevs; intros; apply Hch; simpl in *; tauto|apply Hret].
    - apply sound_seq; [apply Hevs; intros; apply Hch; simpl in *; tauto|apply Hret].
    - apply Hret.
    - (* EFiltered *)
      apply sound_seq; [apply Hevs; intros x [<-|[]]; apply Hch; simpl; auto|].
      apply sound_seq; [|apply Hret].
      apply sound_apply_filters; auto.
      + intros fl Hfl. apply Forall_forall. intros a Ha. apply Hch. simpl. right.
        apply in_flat_map. exists fl; auto.
      + intros fl Hfl. eapply ecov_filtered; eauto.
    - (* ETernary *)
      eapply sound_bind; [apply IHe; apply Hch; apply tern_children; auto|].
      intros b _.
      apply sound_seq; [|apply sound_seq; [|apply Hret]].
      + destruct b.
        * apply sound_seq; [apply Hevs; intros x [<-|[]]; apply Hch; apply tern_children; auto|].
          apply sound_apply_filters; auto.
          -- intros fl Hfl. apply Forall_forall. intros a Ha. apply Hch. apply tern_children.
             right; left. apply in_flat_map. exists fl; auto.
          -- intros; exact I.
        * destruct alt as [a|]; [|apply sound_ret; exact I].
          apply sound_seq; [apply Hevs; intros x [<-|[]]; apply Hch; apply tern_children; simpl; auto 7|].
          apply sound_apply_filters; auto.
          -- intros fl Hfl. apply Forall_forall. intros x Hx. apply Hch. apply tern_children.
             do 4 right; left. apply in_flat_map. exists fl; auto.
          -- intros fl Hfl. eapply ecov_ternary; eauto.
      + apply sound_apply_filters; auto.
        * intros fl Hfl. apply Forall_forall. intros x Hx. apply Hch. apply tern_children.
          do 5 right. apply in_flat_map. exists fl; auto.
        * intros fl Hfl. eapply ecov_ternary; eauto.
    - apply sound_seq; [apply Hevs; intros x [<-|[]]; apply Hch; simpl; auto|apply Hpb].
    - apply sound_seq; [apply Hevs; intros x [<-|[]]; apply Hch; simpl; auto|].
      eapply sound_bind; [apply Hpb|]. intros; apply Hret.
    - apply sound_seq; [apply Hevs; intros x [<-|[]]; apply Hch; simpl; auto|].
      eapply sound_bind; [apply Hpb|]. intros b _. destruct b; [|apply Hret].
      apply sound_seq; [apply Hevs; intros x [<-|[]]; apply Hch; simpl; auto|apply Hpb].
    - apply sound_seq; [apply Hevs; intros x [<-|[]]; apply Hch; simpl; auto|].
      eapply sound_bind; [apply Hpb|]. intros b _. destruct b; [apply Hret|].
      apply sound_seq; [apply Hevs; intros x [<-|[]]; apply Hch; simpl; auto|apply Hpb].
    - apply sound_seq; [|apply Hret].
      destruct right_first; apply Hevs; intros x Hx; apply Hch; simpl in *; tauto.
    - (* ELoop *)
      apply sound_seq; [apply Hevs; intros x [<-|[]]; apply Hch; simpl; auto|].
      apply sound_seq; [apply Hevs; intros x Hx; apply Hch; simpl; right; apply in_or_app; auto|].
      apply sound_seq; [apply Hevs; intros x Hx; apply Hch; simpl; right; apply in_or_app; right;
                        apply in_or_app; auto|apply Hret].
    - (* EAny *)
      apply sound_any_loop. intros x Hx. apply Hevs. intros y [<-|[]]. apply Hch; simpl; auto.
  Qed.

  (** *** nodes *)

  Lemma tag_events_allowed tn n : incl (node_tags tn n) CF -> Forall allowed (tag_events tn n).
  Proof.
    intro H. unfold node_tags in H.
    destruct n; simpl in *; try constructor;
      destruct t; simpl in *; try constructor; try (apply H; simpl; auto); constructor.
  Qed.

  Lemma NCov_tags tn n : NCov tn n -> incl (node_tags tn n) CF.
  Proof. intro H; inversion H; auto. Qed.

  Lemma NCov_exprs tn n e : NCov tn n -> In e (n_expressions n) -> ecov' e.
  Proof.
    intros H He. exists tn.
    inversion H as [? ? ? ? _ _ Hx _|? _ _ Hx _]; subst; rewrite Forall_forall in Hx; auto.
  Qed.

  Lemma NCov_kids tn n k : NCov tn n -> n_partial_scope n = None -> In k (n_kids n) -> NCov tn k.
  Proof.
    intros H Hp Hk. inversion H as [? ? ? ? E|? _ _ _ Hx]; subst; [congruence|].
    rewrite Forall_forall in Hx; auto.
  Qed.

  Lemma part_nodes_cov p nodes : part_ok get SeenF p -> get p = Some nodes -> Forall (NCov p) nodes.
  Proof.
    unfold part_ok. intros H E. rewrite E in H. destruct H as [->|H]; [constructor|].
    apply (Closed p H); auto.
  Qed.

  Lemma NCov_partial tn n p k i nodes :
    NCov tn n -> n_partial_scope n = Some (p, k, i) -> get p = Some nodes -> Forall (NCov p) nodes.
  Proof.
    intros H Hp Hg. inversion H as [? ? ? ? E _ _ Hx|? E]; subst; [|congruence].
    rewrite Hp in E; inversion E; subst. eapply part_nodes_cov; eauto.
  Qed.

  Lemma sound_alts_loop (evalb : expr -> M bool) (rn : node -> M unit) dflt l :
    (forall t e blk, In (WCond t e blk) l -> sound (evalb e) T /\ sound (rn blk) T) ->
    sound dflt T -> sound (alts_loop evalb rn dflt l) T.
  Proof.
    intros H Hd. induction l as [|x l IH]; simpl; auto.
    assert (IH' : sound (alts_loop evalb rn dflt l) T) by (apply IH; intros; eapply H; right; eauto).
    destruct x; auto.
    destruct (H t e x (or_introl eq_refl)) as (He & Hb).
    eapply sound_bind; [exact He|]. intros b _. destruct b; auto.
  Qed.

  Lemma sound_whens_loop (ev : expr -> M unit) lft (rn : node -> M unit) dflt l :
    sound (ev lft) T ->
    (forall t items blk, In (WMulti t (EAny items) blk) l ->
       (forall x, In x items -> sound (ev x) T) /\ sound (rn blk) T) ->
    sound dflt T -> forall m, sound (whens_loop ev lft rn dflt l m) T.
  Proof.
    intros Hl H Hd. induction l as [|x l IH]; simpl; intro m.
    - destruct m; auto. apply sound_ret; exact I.
    - assert (IH' : forall m, sound (whens_loop ev lft rn dflt l m) T)
        by (apply IH; intros; eapply H; right; eauto).
      destruct x; auto. destruct e; auto.
      destruct (H t items x (or_introl eq_refl)) as (He & Hb).
      apply sound_seq; auto.
      eapply sound_bind; [apply sound_any_loop; auto|]. intros b _.
      destruct b; auto. apply sound_seq; auto.
  Qed.

  Lemma sound_rtemplate (rn : str -> node -> M unit) name nodes :
    (forall n, In n nodes -> sound (rn name n) T) -> sound (rtemplate rn name nodes) T.
  Proof.
    intro H. unfold rtemplate.
    apply sound_seq; [apply sound_upd; intros; apply push_layer_ok; auto; constructor|].
    apply sound_seq; [apply sound_catch_stop; apply sound_forM; auto|].
    apply sound_upd; intros; apply pop_layer_ok; auto.
  Qed.

  Lemma sound_load_m name : sound (load_m get name) (fun ns => get name = Some ns).
  Proof.
    unfold load_m. destruct (get name) eqn:E; [apply sound_ret; auto|apply sound_stop].
  Qed.

  (** inheritance *)
  Lemma find_inh_cov tn : forall f ns exts blocks,
    Forall (NCov tn) ns -> find_inh f ns = Ok (exts, blocks) ->
    Forall (fun b => NCov tn (snd b)) blocks /\ Forall (part_ok get SeenF) exts.
  Proof.
    induction f as [|f IH]; intros ns; [intros; discriminate|].
    simpl. induction ns as [|n ns IHns]; intros exts blocks Hc H.
    - inversion H; subst. split; constructor.
    - inversion Hc as [|? ? Hn Hns]; subst.
      inv_bind H. destruct a as [e1 b1]. inv_bind H. destruct a as [e2 b2].
      inversion H; subst; clear H. simpl.
      assert (Hsub : Forall (fun b => NCov tn (snd b)) b1 /\ Forall (part_ok get SeenF) e1).
      { destruct (n_partial_scope n) as [[[p k] i]|] eqn:Ep.
        - assert (n_kids n = []) by (destruct n; simpl in *; try discriminate; reflexivity).
          rewrite H in Ha. destruct f; [discriminate|]. simpl in Ha. inversion Ha; subst.
          split; constructor.
        - eapply IH; [|exact Ha]. apply Forall_forall. intros k Hk. eapply NCov_kids; eauto. }
      destruct Hsub as (Hb1 & He1). destruct (IHns _ _ Hns Ha0) as (Hb2 & He2).
      split.
      + apply Forall_app; split; [|apply Forall_app; split; auto].
        destruct n; simpl; try constructor; [|constructor].
        simpl. eapply NCov_kids; eauto; simpl; auto.
      + apply Forall_app; split; [|apply Forall_app; split; auto].
        destruct n; simpl; try constructor; [|constructor].
        inversion Hn as [? ? ? ? E _ _ Hp|? E]; subst; simpl in E; [inversion E; subst; auto|discriminate].
  Qed.

  Lemma store_blocks_ok tn bs : forall st,
    Forall (fun b => NCov tn (snd b)) bs ->
    Forall (fun p => Forall bitem_ok (snd p)) st ->
    Forall (fun p : str * list bitem => Forall bitem_ok (snd p)) (store_blocks tn bs st).
  Proof.
    induction bs as [|[[name req] body] bs IH]; simpl; intros st Hb Hs; auto.
    inversion Hb; subst. apply IH; auto.
    apply (dict_set_ok (Forall bitem_ok)); auto.
    apply Forall_app; split.
    - destruct (assoc name st) eqn:E; [|constructor].
      eapply (assoc_P (Forall bitem_ok)); eauto.
    - constructor; [unfold bitem_ok; simpl; auto|constructor].
  Qed.

  Lemma sound_chain f : forall g t seen last,
    tmpl_ok t -> (forall b, last = Some b -> tmpl_ok b) ->
    sound (chain get f g t seen last) tmpl_ok.
  Proof.
    induction g as [|g IH]; intros t seen last Ht Hl; simpl; [apply sound_stop|].
    destruct (find_inh f (snd t)) as [[exts blocks]| | |] eqn:E; try apply sound_stop.
    destruct (find_inh_cov (fst t) _ _ _ _ Ht E) as (Hb & He).
    destruct (Nat.ltb 1 (length exts)); [apply sound_stop|].
    destruct (has_dup _); [apply sound_stop|].
    eapply sound_bind; [apply sound_head_frame|]. intros fr (_ & _ & _ & _ & Hst & _).
    apply sound_seq; [apply sound_upd; intros; apply set_stacks_ok; auto; apply store_blocks_ok; auto|].
    destruct exts as [|pname exts].
    - destruct last; [apply sound_ret; auto|apply sound_stop].
    - destruct (mem_str pname seen); [apply sound_stop|].
      eapply sound_bind; [apply sound_load_m|]. intros pn Hpn.
      inversion He; subst.
      assert (tmpl_ok (pname, pn)) by (unfold tmpl_ok; simpl; eapply part_nodes_cov; eauto).
      apply IH; auto. intros b Hb'; inversion Hb'; subst; auto.
  Qed.

  (** macro argument binding *)
  Definition pcov (p : str * option expr) : Prop := forall e, snd p = Some e -> ecov' e.

  Lemma bind_positional_cov ps : forall args b ex,
    Forall pcov ps -> Forall ecov' args -> bind_positional ps args = (b, ex) ->
    Forall pcov b /\ Forall ecov' ex.
  Proof.
    induction ps as [|[p d] ps IH]; simpl; intros args b ex Hp Ha H.
    - inversion H; subst; auto.
    - destruct args as [|a args]; [inversion H; subst; auto|].
      destruct (bind_positional ps args) as [b' ex'] eqn:E. inversion H; subst.
      inversion Hp as [|? ? Hp1 Hp2]; inversion Ha as [|? ? Ha1 Ha2]; subst.
      destruct (IH _ _ _ Hp2 Ha2 E). split; auto. constructor; auto.
      intros e He; simpl in He; inversion He; subst; auto.
  Qed.

  Lemma bind_keywords_cov kw : forall bound exk b ex,
    Forall pcov bound -> Forall (fun p => ecov' (snd p)) exk -> Forall (fun p => ecov' (snd p)) kw ->
    bind_keywords bound exk kw = (b, ex) ->
    Forall pcov b /\ Forall (fun p => ecov' (snd p)) ex.
  Proof.
    induction kw as [|[k e] kw IH]; simpl; intros bound exk b ex Hb He Hk H.
    - inversion H; subst; auto.
    - inversion Hk; subst. destruct (assoc k bound).
      + eapply IH; [| | |exact H]; auto.
        apply (dict_set_ok (fun o : option expr => forall e0, o = Some e0 -> ecov' e0)); auto.
        intros e0 E0; inversion E0; subst; auto.
      + eapply IH; [| | |exact H]; auto.
        apply (dict_set_ok ecov'); auto.
  Qed.

  Lemma in_kw_values (args : list (str * expr)) a : In a args -> In (snd a) (kw_values args).
  Proof. intro H. unfold kw_values. apply List.in_map; auto. Qed.

  Lemma tl_ok c : Forall frame_ok c -> Forall frame_ok (tl c).
  Proof. intro H; destruct c; simpl; auto. inversion H; auto. Qed.

  Ltac upd_ok :=
    apply sound_upd; intros;
    first [ apply push_layer_ok; auto using plain_ok
          | apply pop_layer_ok; auto
          | apply bind_top_ok; auto
          | apply assign_ok; auto
          | apply add_counter_ok; auto
          | apply tl_ok; auto ].

  Lemma render_step f :
    (forall e, ecov' e -> sound (eval get reads f e) T) ->
    (forall tn n, NCov tn n -> sound (render_node get reads f tn n) T) ->
    forall tn n, NCov tn n -> sound (render_node get reads (S f) tn n) T.
  Proof.
    intros IHe IHn tn n HN.
    assert (Hev : forall e, In e (n_expressions n) -> sound (ign (eval get reads f e)) T).
    { intros e He. eapply sound_ign. apply IHe. eapply NCov_exprs; eauto. }
    assert (Hrn : forall k, n_partial_scope n = None -> In k (n_kids n) ->
                            sound (render_node get reads f tn k) T).
    { intros k Hp Hk. apply IHn. eapply NCov_kids; eauto. }
    assert (Hrno : forall o : option node, n_partial_scope n = None ->
                   (forall k, o = Some k -> In k (n_kids n)) ->
                   sound (forM (opt_list o) (render_node get reads f tn)) T).
    { intros o Hp Ho. apply sound_forM. intros k Hk. destruct o; simpl in Hk; [|tauto].
      destruct Hk as [<-|[]]. apply Hrn; auto. }
    assert (Hrt : forall name nodes, Forall (NCov name) nodes ->
                  sound (rtemplate (render_node get reads f) name nodes) T).
    { intros name nodes Hc. apply sound_rtemplate. rewrite Forall_forall in Hc. auto. }
    assert (Hunit : sound (ret tt) T) by (apply sound_ret; exact I).
    cbn [render_node].
    eapply sound_bind; [apply sound_head_frame|]. intros fr Hfr.
    destruct (match n_token n with TTag name _ => mem_str name (disabled fr) | _ => false end);
      [apply sound_stop|].
    apply sound_seq; [apply sound_emit; apply tag_events_allowed; apply NCov_tags; auto|].
    destruct Hfr as (F1 & F2 & F3 & F4 & F5 & F6).
    destruct n.
    - exact Hunit.
    - exact Hunit.
    - exact Hunit.
    - apply Hev; simpl; auto.
    - apply Hev; simpl; auto.
    - apply sound_seq; [apply Hev; simpl; auto|upd_ok].
    - apply sound_seq; [apply Hrn; simpl; auto|upd_ok].
    - (* NIf *)
      eapply sound_bind; [apply IHe; eapply NCov_exprs; eauto; simpl; auto|]. intros b _.
      destruct b; [apply Hrn; simpl; auto|].
      apply sound_alts_loop.
      + intros t0 e blk Hin.
        assert (NCov tn (WCond t0 e blk)) by (eapply NCov_kids; eauto; simpl; right; apply in_or_app; auto).
        split; [apply IHe; eapply NCov_exprs; eauto; simpl; auto|].
        apply IHn. eapply NCov_kids; eauto; simpl; auto.
      + apply Hrno; auto. intros k ->. simpl. right. apply in_or_app; right; simpl; auto.
    - (* NUnless *)
      eapply sound_bind; [apply IHe; eapply NCov_exprs; eauto; simpl; auto|]. intros b _.
      destruct (negb b); [apply Hrn; simpl; auto|].
      apply sound_alts_loop.
      + intros t0 e blk Hin.
        assert (NCov tn (WCond t0 e blk)) by (eapply NCov_kids; eauto; simpl; right; apply in_or_app; auto).
        split; [apply IHe; eapply NCov_exprs; eauto; simpl; auto|].
        apply IHn. eapply NCov_kids; eauto; simpl; auto.
      + apply Hrno; auto. intros k ->. simpl. right. apply in_or_app; right; simpl; auto.
    - (* NCase *)
      apply sound_whens_loop.
      + apply Hev; simpl; auto.
      + intros t0 items blk Hin.
        assert (HW : NCov tn (WMulti t0 (EAny items) blk)) by (eapply NCov_kids; eauto; simpl; apply in_or_app; auto).
        split.
        * intros x Hx. eapply sound_ign. apply IHe.
          eapply ecov_in_children; [eapply NCov_exprs; [exact HW|simpl; auto]|simpl; auto].
        * apply IHn. eapply NCov_kids; eauto; simpl; auto.
      + apply Hrno; auto. intros k ->. simpl. apply in_or_app; right; simpl; auto.
    - (* NFor *)
      apply sound_seq; [apply Hev; simpl; auto|].
      eapply sound_bind; [apply sound_pop|]. intros k _.
      destruct (N.eqb k 0).
      + apply Hrno; auto. intros k' ->. simpl; auto.
      + apply sound_seq; [upd_ok|]. apply sound_seq; [|upd_ok].
        apply sound_repeatM. apply Hrn; simpl; auto.
    - (* NWith *)
      apply sound_seq; [apply sound_forM; intros a Ha; apply Hev; simpl; apply in_kw_values; auto|].
      apply sound_seq; [upd_ok|]. apply sound_seq; [apply Hrn; simpl; auto|upd_ok].
    - upd_ok.
    - upd_ok.
    - (* NCycle *)
      eapply sound_bind; [apply sound_pop|]. intros i _.
      destruct (nth_error items (N.to_nat i)) eqn:E; [|apply sound_stop].
      apply Hev. simpl. eapply nth_error_In; eauto.
    - (* NMacro *)
      apply sound_upd; intros. apply set_macro_ok; auto. split; simpl.
      + eapply NCov_kids; eauto; simpl; auto.
      + apply Forall_forall. intros p Hp e He. eapply NCov_exprs; eauto. simpl.
        apply in_flat_map. exists p. split; auto. rewrite He; simpl; auto.
    - (* NCall *)
      destruct (assoc name (macros fr)) as [m|] eqn:Em; [|exact Hunit].
      destruct (assoc_P macro_ok _ _ _ F4 Em) as (Mb & Mp).
      destruct (bind_positional (m_params m) args) as [b0 exa] eqn:Eb.
      destruct (bind_keywords b0 [] kwargs) as [bound exk] eqn:Ek.
      assert (Ha : Forall ecov' args).
      { apply Forall_forall. intros e He. apply (NCov_exprs _ _ _ HN). simpl. apply in_or_app; auto. }
      assert (Hk : Forall (fun p : str * expr => ecov' (snd p)) kwargs).
      { apply Forall_forall. intros p Hp. apply (NCov_exprs _ _ _ HN). simpl. apply in_or_app; right.
        apply in_kw_values; auto. }
      destruct (bind_positional_cov _ _ _ _ Mp Ha Eb) as (B0 & EX).
      destruct (bind_keywords_cov _ _ _ _ _ B0 (Forall_nil _) Hk Ek) as (B1 & EK).
      rewrite Forall_forall in EX, EK, B1.
      apply sound_seq; [apply sound_forM; intros e He; eapply sound_ign; apply IHe; apply EX; auto|].
      apply sound_seq; [apply sound_forM; intros p Hp; eapply sound_ign; apply IHe; apply (EK p Hp)|].
      apply sound_seq.
      { apply sound_forM. intros p Hp. apply sound_forM. intros e He.
        eapply sound_ign; apply IHe. apply (B1 p Hp). destruct (snd p); simpl in He; [|tauto].
        destruct He as [<-|[]]; auto. }
      apply sound_isolated; [|apply IHn; auto].
      assert (Hnf : frame_ok (new_frame (GNs (plain (args_s :: kwargs_s :: map fst bound))) []
                                        (ctmpl fr) [include_s; block_s])).
      { apply new_frame_ok; auto. apply (plain_ok (args_s :: kwargs_s :: map fst bound)). }
      destruct Hnf as (A1 & A2 & A3 & A4 & A5 & A6).
      unfold frame_ok, on_head_frame_macros; simpl. repeat split; auto.
    - (* NInclude *)
      eapply sound_bind; [apply sound_load_m|]. intros nodes Hg.
      assert (Hc : Forall (NCov name) nodes) by (eapply NCov_partial; eauto; reflexivity).
      apply sound_seq; [apply sound_forM; intros a Ha; apply Hev; simpl; right;
                        apply in_or_app; right; apply in_kw_values; auto|].
      apply sound_seq; [upd_ok|].
      apply sound_seq; [apply sound_upd; intros; apply set_ctmpl_ok; auto|].
      apply sound_seq; [|apply sound_seq; [apply sound_upd; intros; apply set_ctmpl_ok; auto|upd_ok]].
      destruct var as [v|]; [|apply Hrt; auto].
      apply sound_seq; [apply Hev; simpl; auto|].
      eapply sound_bind; [apply sound_pop|]. intros k _.
      destruct (N.eqb k 0).
      + apply sound_seq; [upd_ok|apply Hrt; auto].
      + apply sound_repeatM. apply sound_seq; [upd_ok|apply Hrt; auto].
    - (* NRender *)
      eapply sound_bind; [apply sound_load_m|]. intros nodes Hg.
      assert (Hc : Forall (NCov name) nodes) by (eapply NCov_partial; eauto; reflexivity).
      apply sound_seq; [apply sound_forM; intros a Ha; apply Hev; simpl; right;
                        apply in_or_app; right; apply in_kw_values; auto|].
      assert (Hfr : forall extra, frame_ok (new_frame (GNs (plain (map fst args ++ extra))) []
                                              (name, nodes) [include_s])).
      { intros. apply new_frame_ok; simpl; auto. apply plain_ok. }
      destruct var as [v|]; [|apply sound_isolated; auto].
      apply sound_seq; [apply Hev; simpl; auto|].
      eapply sound_bind; [apply sound_pop|]. intros k _.
      destruct (loop && negb (N.eqb k 0)); [apply sound_repeatM|]; apply sound_isolated; auto.
    - (* NExtends *)
      eapply sound_bind; [apply sound_chain; auto; intros; discriminate|]. intros base Hb.
      apply sound_seq; [apply Hrt; auto|].
      apply sound_seq; [apply sound_upd; intros; apply set_stacks_ok; auto|apply sound_stop].
    - (* NBlock *)
      assert (Hbody : sound (render_node get reads f tn n) T) by (apply Hrn; simpl; auto).
      assert (Hnone : sound (if required then stop (HErr RequiredBlockError)
                             else mbind (upd (push_layer [(block_s, BDrop [])]))
                                    (fun _ => mbind (render_node get reads f tn n) (fun _ => upd pop_layer))) T).
      { destruct required; [apply sound_stop|].
        apply sound_seq; [apply sound_upd; intros; apply push_layer_ok; auto;
                          constructor; [simpl; constructor|constructor]|].
        apply sound_seq; [auto|upd_ok]. }
      destruct (assoc name (stacks fr)) as [[|item rest]|] eqn:Es; auto.
      pose proof (assoc_P (Forall bitem_ok) _ _ _ F5 Es) as Hit. inversion Hit as [|? ? Hi Hr]; subst.
      destruct (bi_required item); [apply sound_stop|].
      apply sound_seq.
      { apply sound_upd. intros c Hc. constructor; auto.
        apply new_frame_ok; auto. simpl. constructor; [|constructor]. simpl.
        apply Forall_forall. intros p Hp. apply in_map_iff in Hp as (i & <- & Hi').
        rewrite Forall_forall in Hr. apply Hr; auto. }
      apply sound_seq; [apply IHn; auto|upd_ok].
    - apply Hrn; simpl; auto.
    - apply sound_forM. intros k Hk. apply Hrn; simpl; auto.
    - eapply sound_bind; [apply IHe; eapply NCov_exprs; eauto; simpl; auto|]. intros b _.
      destruct b; [apply Hrn; simpl; auto|exact Hunit].
    - eapply sound_bind; [apply IHe; eapply NCov_exprs; eauto; simpl; auto|]. intros b _.
      destruct b; [apply Hrn; simpl; auto|exact Hunit].
    - (* NTablerow *)
      apply sound_seq; [apply Hev; simpl; auto|].
      eapply sound_bind; [apply sound_pop|]. intros k _.
      apply sound_seq.
      { destruct loop; try exact Hunit. apply sound_forM. intros c Hc. eapply sound_ign. apply IHe.
        eapply ecov_in_children; [eapply NCov_exprs; [exact HN|simpl; auto]|].
        simpl. right. apply in_or_app; right. apply in_or_app; right. exact Hc. }
      apply sound_seq; [upd_ok|]. apply sound_seq; [|upd_ok].
      apply sound_repeatM. apply Hrn; simpl; auto.
    - (* WLoopBlock *)
      apply sound_forM. intros k Hk. apply Hrn; simpl; auto.
  Qed.

  Lemma interp_sound : forall fuel,
    (forall e, ecov' e -> sound (eval get reads fuel e) T) /\
    (forall tn n, NCov tn n -> sound (render_node get reads fuel tn n) T).
  Proof.
    induction fuel as [|f [IHe IHn]]; split; intros.
    - simpl. apply sound_stop.
    - simpl. apply sound_stop.
    - apply eval_step; auto.
    - apply render_step; auto.
  Qed.

  Lemma run_allowed fuel name nodes oracle :
    Forall (NCov name) nodes -> Forall allowed (trace get reads fuel name nodes oracle).
  Proof.
    intro Hc. unfold trace, run.
    assert (Hs : sound (rtemplate (render_node get reads fuel) name nodes) T).
    { apply sound_rtemplate. rewrite Forall_forall in Hc. intros n Hn.
      apply (proj2 (interp_sound fuel)); auto. }
    apply Hs. unfold inv; simpl. constructor; [|constructor].
    apply new_frame_ok; simpl; auto.
  Qed.
End Sound.

(** Putting C and D together. *)
Definition reported (R : analysis) (ev : event) : Prop :=
  match ev with
  | EvLookup x _ => In x (variables_of R)
  | EvResolve _ _ => True
  | EvFilter f true => True
  | EvFilter f false => In f (filter_names_of R)
  | EvTag n tn sp => exists spans, assoc n (a_tags R) = Some spans /\ In (tn, sp) spans
  end.

Lemma analysis_sound_all get reads fuel name nodes R :
  analyze get true fuel name nodes = Ok R ->
  (name = [] \/ get name = Some nodes) ->
  forall fuel' oracle ev, In ev (trace get reads fuel' name nodes oracle) -> reported R ev.
Proof.
  unfold analyze, analyze_gen. intros H Hn fuel' oracle ev Hev.
  inv_bind H. destruct a as [sF CF]. inversion H; subst; clear H. simpl.
  destruct (analysis_closed _ _ _ _ _ _ Ha Hn) as (Hc & Hcl).
  pose proof (run_allowed get reads CF (seen sF) Hcl fuel' name nodes oracle Hc) as Hall.
  rewrite Forall_forall in Hall. specialize (Hall ev Hev).
  destruct ev as [x k|x k|f [|]|n tn sp]; simpl in *; auto.
  - destruct Hall as (v & Hv & <-). apply has_build in Hv. simpl in Hv.
    unfold variables_of. eapply in_map_keys; eauto.
  - destruct Hall as (tn & sp & Hf). apply has_build in Hf. simpl in Hf.
    unfold filter_names_of. eapply in_map_keys; eauto.
  - apply has_build in Hall. exact Hall.
Qed.

(* ------------------------------------------------------------------ *)
(** * E. Globals *)

(** e' occurs in e (through Expression.children()). *)
Inductive EReach : expr -> expr -> Prop :=
| ER_refl e : EReach e e
| ER_step e c d : In c (e_children e) -> EReach c d -> EReach e d.

(** names a node binds: template scope, block scope, names handed to a partial,
    parameters of lambda expressions among its expressions *)
Definition node_binds (n : node) (x : str) : Prop :=
  In x (map fst (n_template_scope n)) \/ In x (n_block_scope n) \/
  (exists p k ins, n_partial_scope n = Some (p, k, ins) /\ In x ins) \/
  (exists e e', In e (n_expressions n) /\ EReach e e' /\ In x (e_scope e')).

Section Globals.
  Variable get : loader.
  Variable name : str.
  Variable nodes : list node.

  (** node n of template tn belongs to the program: the main template, or
      reachable from it through blocks and through include/render/extends. *)
  Inductive Reach : str -> node -> Prop :=
  | R_main n : In n nodes -> Reach name n
  | R_kid tn n k : Reach tn n -> n_partial_scope n = None -> In k (n_kids n) -> Reach tn k
  | R_part tn n p sc ins pn k :
      Reach tn n -> n_partial_scope n = Some (p, sc, ins) -> get p = Some pn -> In k pn -> Reach p k.

  (** "the program binds x" *)
  Definition Bound (x : str) : Prop := exists tn n, Reach tn n /\ node_binds n x.

  Definition GP (cs : list contrib) : Prop :=
    forall v, In (CVar v) cs -> In (CGlobal v) cs \/ Bound (v_root v).

  Lemma GP_app a b : GP a -> GP b -> GP (a ++ b).
  Proof.
    intros Ha Hb v Hv. apply in_app_or in Hv as [Hv|Hv].
    - destruct (Ha v Hv); auto. left; apply in_or_app; auto.
    - destruct (Hb v Hv); auto. left; apply in_or_app; auto.
  Qed.

  Lemma GP_nil : GP [].
  Proof. intros v []. Qed.

  Lemma GP_no_var cs : (forall v, ~ In (CVar v) cs) -> GP cs.
  Proof. intros H v Hv. destruct (H v Hv). Qed.

  Lemma mapM_app_GP {A} (g : A -> res (list contrib)) l out :
    mapM_app g l = Ok out -> (forall x o, In x l -> g x = Ok o -> GP o) -> GP out.
  Proof.
    revert out; induction l as [|y l IH]; simpl; intros out H Hg.
    - inversion H; subst. apply GP_nil.
    - inv_bind H. inv_bind H. inversion H; subst. apply GP_app; eauto.
  Qed.

  Lemma in_scope_app x st sc :
    in_scope x (st ++ [sc]) = true -> in_scope x st = true \/ mem_str x sc = true.
  Proof.
    unfold in_scope. rewrite existsb_app. simpl. rewrite orb_false_r.
    intro H. apply orb_true_iff in H. auto.
  Qed.

  Lemma av_GP (P : str -> Prop) : (forall x, P x -> Bound x) ->
    forall fuel tn e stack cs, av fuel tn e stack = Ok cs ->
      (forall x, in_scope x stack = true -> P x) ->
      (forall e' x, EReach e e' -> In x (e_scope e') -> P x) ->
      GP cs.
  Proof.
    intros HP. induction fuel as [|f IH]; intros tn e stack cs H Hst Hsc; [discriminate|].
    simpl in H. inv_bind H. inv_bind H. inversion H; subst; clear H.
    apply GP_app.
    - destruct e; try (inversion Ha; subst; apply GP_nil).
      inv_bind Ha. inversion Ha; subst; clear Ha.
      destruct f as [|f']; [discriminate|]. simpl in Ha1. inv_bind Ha1. inversion Ha1; subst; clear Ha1.
      intros v Hv. destruct (in_scope root stack) eqn:Es.
      + destruct Hv as [Hv|[]]. inversion Hv; subst. right. simpl. apply HP, Hst; auto.
      + destruct Hv as [Hv|[Hv|[]]]; [|discriminate]. inversion Hv; subst. left. simpl; auto.
    - eapply mapM_app_GP; [exact Ha0|]. intros c o Hc Ho.
      eapply IH; [exact Ho| |].
      + intros x Hx. destruct (e_scope e) as [|y sc] eqn:Esc; [auto|].
        apply in_scope_app in Hx as [Hx|Hx]; auto.
        apply (Hsc e x (ER_refl e)). rewrite Esc. apply mem_str_In; auto.
      + intros e' x Hr Hx. apply (Hsc e' x); auto. eapply ER_step; eauto.
  Qed.

  Definition scopes_ok (c : cur) (s : vstate) : Prop :=
    (forall x, in_scope x (rootstk s) = true -> Bound x) /\
    match c with Some st => forall x, in_scope x st = true -> Bound x | None => True end.

  Lemma cur_stack_ok c s : scopes_ok c s -> forall x, in_scope x (cur_stack c s) = true -> Bound x.
  Proof. intros (H1 & H2). destruct c; simpl; auto. Qed.

  Lemma cur_set_ok c s st c' s' :
    scopes_ok c s -> (forall x, in_scope x st = true -> Bound x) -> cur_set c s st = (c', s') ->
    scopes_ok c' s'.
  Proof.
    intros (H1 & H2) Hst E. destruct c; simpl in E; inversion E; subst; split; simpl; auto.
  Qed.

  Lemma in_scope_removelast x st : in_scope x (removelast st) = true -> in_scope x st = true.
  Proof.
    induction st as [|a st IH]; simpl; auto. destruct st as [|b st]; [simpl; discriminate|].
    intro H. change (in_scope x (a :: removelast (b :: st)) = true) in H.
    simpl in H. apply orb_true_iff in H as [H|H]; apply orb_true_iff; auto.
  Qed.

  Lemma stack_add_scope x y st :
    in_scope x (stack_add y st) = true -> x = y \/ in_scope x st = true.
  Proof.
    destruct st as [|s0 st]; simpl; auto.
    destruct (mem_str y s0) eqn:E; simpl; auto.
    intro H. apply orb_true_iff in H as [H|H].
    - apply mem_str_In in H. apply in_app_or in H as [H|[H|[]]]; auto.
      right. apply orb_true_iff; left. apply mem_str_In; auto.
    - right. apply orb_true_iff; auto.
  Qed.

  Lemma fold_stack_add_scope x ids : forall st,
    in_scope x (fold_left (fun st (i : ident) => stack_add (fst i) st) ids st) = true ->
    In x (map fst ids) \/ in_scope x st = true.
  Proof.
    induction ids as [|i ids IH]; simpl; intros st H; auto.
    apply IH in H as [H|H]; auto. apply stack_add_scope in H as [H|H]; auto.
  Qed.

  Lemma fold_visit_GP (v : node -> cur -> vstate -> res (cur * vstate * list contrib)) l :
    (forall x c s c' s' k, In x l -> v x c s = Ok (c', s', k) -> scopes_ok c s -> scopes_ok c' s' /\ GP k) ->
    forall c s c' s' k, fold_visit v l c s = Ok (c', s', k) -> scopes_ok c s -> scopes_ok c' s' /\ GP k.
  Proof.
    induction l as [|x l IH]; simpl; intros Hv c s c' s' k H Hs.
    - inversion H; subst. split; auto. apply GP_nil.
    - inv_bind H. destruct a as [[c1 s1] k1]. inv_bind H. destruct a as [[c2 s2] k2].
      inversion H; subst; clear H.
      destruct (Hv _ _ _ _ _ _ (or_introl eq_refl) Ha Hs) as (S1 & G1).
      destruct (IH (fun x c s c' s' k Hx => Hv x c s c' s' k (or_intror Hx)) _ _ _ _ _ Ha0 S1) as (S2 & G2).
      split; auto. apply GP_app; auto.
  Qed.

  Lemma visit_GP : forall fuel n tn c s c' s' cs,
    visit (n_children get) true fuel n tn c s = Ok (c', s', cs) ->
    Reach tn n -> scopes_ok c s -> scopes_ok c' s' /\ GP cs.
  Proof.
    induction fuel as [|f IH]; intros n tn c s c' s' cs H HR Hs; simpl in H; [discriminate|].
    set (s1 := s) in *.
    assert (Hs1 : scopes_ok c s1) by exact Hs.
    inv_bind H. rename a into ex. rename Ha into Hex.
    assert (Gex : GP ex).
    { eapply mapM_app_GP; [exact Hex|]. intros e o He Ho. inv_bind Ho. inv_bind Ho.
      inversion Ho; subst. apply GP_app.
      - eapply (av_GP Bound); eauto.
        + apply cur_stack_ok; auto.
        + intros e' x Hr Hx. exists tn, n. split; auto. right; right; right. eauto.
      - apply GP_no_var. intros v Hv.
        clear - Ha0 Hv. revert e a0 Ha0 Hv.
        assert (forall fuel e a0, ef fuel tn e = Ok a0 -> ~ In (CVar v) a0) as Hef.
        { induction fuel as [|f' IHf]; intros e a0 H; [discriminate|].
          simpl in H. inv_bind H. inversion H; subst. intro Hi.
          apply in_app_or in Hi as [Hi|Hi].
          - destruct e; simpl in Hi; try contradiction; unfold filter_contribs in Hi;
              repeat (apply in_app_or in Hi as [Hi|Hi]);
              apply in_map_iff in Hi as (? & Hd & _); discriminate.
          - clear H. revert a Ha Hi. induction (e_children e) as [|c l IHl]; simpl; intros a Ha Hi.
            + inversion Ha; subst; contradiction.
            + inv_bind Ha. inv_bind Ha. inversion Ha; subst.
              apply in_app_or in Hi as [Hi|Hi]; [eapply IHf; eauto|eapply IHl; eauto]. }
        intros; eapply Hef; eauto. }
    assert (Hadd : forall c0 s0 c2 s2, scopes_ok c0 s0 ->
              cur_set c0 s0 (fold_left (fun st (i : ident) => stack_add (fst i) st) (n_template_scope n) (cur_stack c0 s0)) = (c2, s2) ->
              scopes_ok c2 s2).
    { intros c0 s0 c2 s2 H0 Ecs. eapply cur_set_ok; [exact H0| |exact Ecs].
      intros x Hx. apply fold_stack_add_scope in Hx as [Hx|Hx].
      - exists tn, n. split; auto. left; auto.
      - eapply cur_stack_ok; eauto. }
    assert (Gloc : GP (map (fun i => CLocal (local_var tn i)) (n_template_scope n))).
    { apply GP_no_var. intros v Hv. apply in_map_iff in Hv as (? & Hd & _). discriminate. }
    assert (Gtag : GP (node_tags tn n)).
    { apply GP_no_var. intros v Hv. unfold node_tags in Hv.
      destruct (is_wrapper n); [contradiction|]. destruct (n_token n); simpl in Hv; intuition discriminate. }
    destruct (n_partial_scope n) as [[[pname kind] ins]|] eqn:Eps.
    - destruct (cur_set c s1 _) as [c2 s2] eqn:Ecs.
      assert (Hs2 : scopes_ok c2 s2) by (eapply Hadd; eauto).
      destruct (mem_str pname (seen s2)).
      + inversion H; subst. split; auto. repeat apply GP_app; auto.
      + destruct (match kind with Isolated => _ | _ => _ end) as [pc s3] eqn:Ek.
        assert (Hins : forall x, in_scope x [ins] = true -> Bound x).
        { intros x Hx. unfold in_scope in Hx. simpl in Hx. rewrite orb_false_r in Hx.
          exists tn, n. split; auto. right; right; left. exists pname, kind, ins. split; auto.
          apply mem_str_In; auto. }
        assert (Hs3 : scopes_ok pc s3).
        { destruct Hs2 as (R2 & C2).
          destruct kind; inversion Ek; subst; split; simpl; auto;
            intros x Hx; apply in_scope_app in Hx as [Hx|Hx]; auto;
            apply Hins; unfold in_scope; simpl; rewrite Hx; auto. }
        assert (E23 : rootstk s2 = rootstk s3 \/ rootstk s3 = rootstk s2 ++ [ins]).
        { destruct kind; inversion Ek; subst; simpl; auto. }
        inv_bind H. rename a into ch. inv_bind H. destruct a as [[pc' s4] cc].
        inversion H; subst; clear H.
        rewrite (n_children_partial _ _ _ _ _ Eps) in Ha. unfold load in Ha.
        destruct (get pname) as [pn|] eqn:Eg; [|discriminate]. inversion Ha; subst pn; clear Ha.
        destruct (fold_visit_GP (fun x pc s => visit (n_children get) true f x pname pc (add_seen pname s)) ch) with
          (c := pc) (s := s3) (c' := pc') (s' := s4) (k := cc) as (S4 & G4); auto.
        { intros x c0 s0 c0' s0' k0 Hx Hv Hs0. eapply IH; [exact Hv| |].
          - eapply R_part; eauto.
          - unfold add_seen. destruct (mem_str _ _); auto. }
        split.
        * destruct Hs2 as (R2 & C2). destruct S4 as (R4 & C4). split; auto.
          destruct pc'; auto. simpl. intros x Hx. apply in_scope_removelast in Hx. auto.
        * repeat apply GP_app; auto.
    - destruct (cur_set c s1 _) as [c3 s3] eqn:Ecs3.
      assert (Hs3 : scopes_ok c3 s3).
      { eapply cur_set_ok; [exact Hs1| |exact Ecs3]. intros x Hx.
        apply in_scope_app in Hx as [Hx|Hx]; [eapply cur_stack_ok; eauto|].
        exists tn, n. split; auto. right; left. apply mem_str_In; auto. }
      inv_bind H. rename a into ch. inv_bind H. destruct a as [[c4 s4] cc].
      destruct (cur_set c4 s4 _) as [c5 s5] eqn:Ecs5.
      destruct (cur_set c5 s5 _) as [c6 s6] eqn:Ecs6.
      inversion H; subst; clear H.
      rewrite (n_children_plain _ _ Eps) in Ha. inversion Ha; subst ch; clear Ha.
      destruct (fold_visit_GP (fun x c s => visit (n_children get) true f x tn c s) (n_kids n)) with
        (c := c3) (s := s3) (c' := c4) (s' := s4) (k := cc) as (S4 & G4); auto.
      { intros x c0 s0 c0' s0' k0 Hx Hv Hs0. eapply IH; [exact Hv| |auto]. eapply R_kid; eauto. }
      split.
      + eapply Hadd; [|exact Ecs6].
        eapply cur_set_ok; [exact S4| |exact Ecs5]. intros x Hx.
        apply in_scope_removelast in Hx. eapply cur_stack_ok; eauto.
      + repeat apply GP_app; auto.
  Qed.

  Lemma analyze_GP fuel sF CF :
    analyze_contribs (n_children get) true fuel name nodes = Ok (sF, CF) -> GP CF.
  Proof.
    unfold analyze_contribs. intro H. inv_bind H. destruct a as [[c s] cs]. inversion H; subst; clear H.
    destruct (fold_visit_GP (fun x c s => visit (n_children get) true fuel x name c s) nodes) with
      (c := @None (list (list str))) (s := init_vstate name) (c' := c) (s' := sF) (k := CF) as (_ & G); auto.
    - intros x c0 s0 c0' s0' k0 Hx Hv Hs0. eapply visit_GP; eauto. apply R_main; auto.
    - split; simpl; auto. intros x Hx. unfold in_scope in Hx. simpl in Hx. discriminate.
  Qed.
End Globals.

(* ------------------------------------------------------------------ *)
(** * F. The property theorems, refutations, non-vacuity *)

Lemma globals_sound_lemma get reads fuel name nodes R :
  analyze get true fuel name nodes = Ok R ->
  (name = [] \/ get name = Some nodes) ->
  forall fuel' oracle x k,
    In (EvLookup x k) (trace get reads fuel' name nodes oracle) ->
    ~ Bound get name nodes x ->
    In x (global_variables_of R).
Proof.
  unfold analyze, analyze_gen. intros H Hn fuel' oracle x k Hev Hnb.
  inv_bind H. destruct a as [sF CF]. inversion H; subst; clear H. simpl.
  destruct (analysis_closed _ _ _ _ _ _ Ha Hn) as (Hc & Hcl).
  pose proof (run_allowed get reads CF (seen sF) Hcl fuel' name nodes oracle Hc) as Hall.
  rewrite Forall_forall in Hall. specialize (Hall _ Hev). simpl in Hall.
  destruct Hall as (v & Hv & <-).
  destruct (analyze_GP _ _ _ _ _ _ Ha v Hv) as [Hg|Hb]; [|contradiction].
  apply has_build in Hg. simpl in Hg. unfold global_variables_of. eapply in_map_keys; eauto.
Qed.

Lemma analysis_sound_variables_lemma get reads fuel name nodes R :
  analyze get true fuel name nodes = Ok R -> (name = [] \/ get name = Some nodes) ->
  forall fuel' oracle x k,
    In (EvLookup x k) (trace get reads fuel' name nodes oracle) -> In x (variables_of R).
Proof. intros H Hn f o x k Hev. exact (analysis_sound_all _ _ _ _ _ _ H Hn f o _ Hev). Qed.

Lemma analysis_sound_filters_partial_lemma get reads fuel name nodes R :
  analyze get true fuel name nodes = Ok R -> (name = [] \/ get name = Some nodes) ->
  forall fuel' oracle f,
    In (EvFilter f false) (trace get reads fuel' name nodes oracle) -> In f (filter_names_of R).
Proof. intros H Hn f' o f Hev. exact (analysis_sound_all _ _ _ _ _ _ H Hn f' o _ Hev). Qed.

Lemma analysis_sound_tags_lemma get reads fuel name nodes R :
  analyze get true fuel name nodes = Ok R -> (name = [] \/ get name = Some nodes) ->
  forall fuel' oracle tag tn sp,
    In (EvTag tag tn sp) (trace get reads fuel' name nodes oracle) ->
    In tag (tag_names_of R) /\
    exists spans, assoc tag (a_tags R) = Some spans /\ In (tn, sp) spans.
Proof.
  intros H Hn f o tag tn sp Hev.
  pose proof (analysis_sound_all _ _ _ _ _ _ H Hn f o _ Hev) as Hr. simpl in Hr.
  split; auto. destruct Hr as (l & Hl & _). unfold tag_names_of. eapply assoc_in_keys; eauto.
Qed.

(** ** Concrete programs *)
Local Open Scope N_scope.
Definition no_loader : loader := fun _ => None.
Definition no_reads : str -> list str := fun _ => [].

(** {{ a | upcase if b else c | downcase }} *)
Definition w_ternary : list node :=
  [NOutput TOther
     (ETernary (EPath (3, 4)%Z [97] []) [Filter [117;112;99;97;115;101] (7, 13)%Z []]
               (EBool (EPath (17, 18)%Z [98] []))
               (Some (EPath (24, 25)%Z [99] []))
               [Filter [100;111;119;110;99;97;115;101] (28, 36)%Z []] [])].

(** The full statement for filters is false (known finding
    ternary-left-filters-unreported): `upcase` is applied, only `downcase` is reported. *)
Lemma analysis_sound_filters_refuted_lemma :
  exists get reads fuel name nodes R fuel' oracle f flag,
    analyze get true fuel name nodes = Ok R /\ (name = [] \/ get name = Some nodes) /\
    In (EvFilter f flag) (trace get reads fuel' name nodes oracle) /\
    ~ In f (filter_names_of R).
Proof.
  exists no_loader, no_reads, 10%nat, [], w_ternary.
  eexists. exists 10%nat, [1], [117;112;99;97;115;101], true.
  split; [vm_compute; reflexivity|]. split; [left; reflexivity|].
  split; [vm_compute; auto 10|].
  vm_compute. intros [H|[]]. discriminate.
Qed.

(** {{ 'Hello' | t }} with a filter table saying that `t` reads `translations` *)
Definition t_s : str := [116].
Definition translations_s : str := [116;114;97;110;115;108;97;116;105;111;110;115].
Definition w_reads : str -> list str := fun f => if str_eqb f t_s then [translations_s] else [].
Definition w_implicit : list node := [NOutput TOther (EFiltered ELit [Filter t_s (13, 14)%Z []])].

Lemma reach_single get name n0 :
  n_kids n0 = [] -> n_partial_scope n0 = None ->
  forall tn n, Reach get name [n0] tn n -> n = n0.
Proof.
  intros Hk Hp tn n HR. induction HR.
  - destruct H as [<-|[]]; reflexivity.
  - subst n. rewrite Hk in H0. contradiction.
  - subst n. congruence.
Qed.

Lemma w_implicit_unbound x : ~ Bound no_loader [] w_implicit x.
Proof.
  intros (tn & n & HR & HB).
  apply reach_single in HR; [|reflexivity|reflexivity]. subst n. destruct HB as [H|[H|[H|H]]]; simpl in H; try contradiction.
  - destruct H as (? & ? & ? & H & _). discriminate.
  - destruct H as (e & e' & [<-|[]] & Hr & Hx).
    inversion Hr; subst; [simpl in Hx; contradiction|].
    simpl in H. destruct H as [<-|[]].
    inversion H0; subst; [simpl in Hx; contradiction|]. simpl in H. contradiction.
Qed.

(** The statement extended to the names filters resolve on their own is false
    (known finding implicit-context-lookup). *)
Lemma implicit_lookup_refuted_lemma :
  exists get reads fuel name nodes R fuel' oracle x,
    analyze get true fuel name nodes = Ok R /\ (name = [] \/ get name = Some nodes) /\
    In (EvResolve x KGlobal) (trace get reads fuel' name nodes oracle) /\
    ~ Bound get name nodes x /\
    ~ In x (variables_of R) /\ ~ In x (global_variables_of R).
Proof.
  exists no_loader, w_reads, 10%nat, [], w_implicit.
  eexists. exists 10%nat, [], translations_s.
  split; [vm_compute; reflexivity|]. split; [left; reflexivity|].
  split; [vm_compute; auto|]. split; [apply w_implicit_unbound|].
  split; vm_compute; auto.
Qed.

(** {% render 'p', x: 1 %}{% render 'p' %}   with   p = {{ x }} *)
Definition p_s : str := [112].
Definition x_s : str := [120].
Definition render_s : str := [114;101;110;100;101;114].
Definition w_seen_main : list node :=
  [NRender (TTag render_s (0, 22)%Z) p_s false None None [(x_s, ELit)];
   NRender (TTag render_s (22, 38)%Z) p_s false None None []].
Definition w_seen_loader : loader :=
  loader_of [(p_s, [NOutput TOther (EFiltered (EPath (3, 4)%Z x_s []) [])])].

(** A per-occurrence reading of the globals clause is false: the partial is
    analysed once, in the scope of its first use (the `seen` shortcut), so the
    second render's lookup of x in the global namespace is not reported as a
    global. (x is bound by the program - as an argument of the first render -
    so this does not contradict [globals_sound].) *)
Lemma globals_per_occurrence_refuted_lemma :
  exists get reads fuel name nodes R fuel' oracle x,
    analyze get true fuel name nodes = Ok R /\ (name = [] \/ get name = Some nodes) /\
    In (EvLookup x KGlobal) (trace get reads fuel' name nodes oracle) /\
    ~ In x (global_variables_of R).
Proof.
  exists w_seen_loader, no_reads, 10%nat, [], w_seen_main.
  eexists. exists 10%nat, [], x_s.
  split; [vm_compute; reflexivity|]. split; [left; reflexivity|].
  split; [vm_compute; auto 10|]. vm_compute; auto.
Qed.

(** Non-vacuity: a program with a partial, a loop, a filter and a global,
    whose analysis succeeds and whose render produces every kind of event. *)
Definition a_s : str := [97].
Definition l_s : str := [108].
Definition i_s : str := [105].
Definition for_s : str := [102;111;114].
Definition include_tag_s : str := [105;110;99;108;117;100;101].
Definition upcase_s : str := [117;112;99;97;115;101].
Definition nv_main : list node :=
  [NFor (TTag for_s (0, 16)%Z) (ELoop i_s (EPath (11, 12)%Z l_s []) None None None)
        (WBlock (TTag include_tag_s (16, 33)%Z)
                [NInclude (TTag include_tag_s (16, 33)%Z) p_s false None None []])
        None].
Definition nv_loader : loader :=
  loader_of [(p_s, [NOutput TOther (EFiltered (EPath (3, 4)%Z a_s []) [Filter upcase_s (7, 13)%Z []])])].

Example analysis_sound_nonvacuous :
  exists R, analyze nv_loader true 10 [] nv_main = Ok R /\
    In (EvLookup a_s KGlobal) (trace nv_loader no_reads 10 [] nv_main [2]) /\
    In (EvFilter upcase_s false) (trace nv_loader no_reads 10 [] nv_main [2]) /\
    In (EvTag include_tag_s [] (16, 33)%Z) (trace nv_loader no_reads 10 [] nv_main [2]) /\
    In a_s (variables_of R) /\ In a_s (global_variables_of R) /\ In upcase_s (filter_names_of R).
Proof. eexists. split; [vm_compute; reflexivity|]. vm_compute. auto 15. Qed.

(** Non-vacuity of [globals_sound]: a lookup in the global namespace of a name
    the program does not bind. *)
Definition nv_glob : list node := [NOutput TOther (EFiltered (EPath (3, 4)%Z a_s []) [])].

Example globals_sound_nonvacuous :
  In (EvLookup a_s KGlobal) (trace no_loader no_reads 10 [] nv_glob []) /\
  ~ Bound no_loader [] nv_glob a_s.
Proof.
  split; [vm_compute; auto|].
  intros (tn & n & HR & HB).
  apply reach_single in HR; [|reflexivity|reflexivity]. subst n. destruct HB as [H|[H|[H|H]]]; simpl in H; try contradiction.
  - destruct H as (? & ? & ? & H & _). discriminate.
  - destruct H as (e & e' & [<-|[]] & Hr & Hx).
    inversion Hr; subst; [simpl in Hx; contradiction|].
    simpl in H. destruct H as [<-|[]].
    inversion H0; subst; [simpl in Hx; contradiction|]. simpl in H. contradiction.
Qed.
