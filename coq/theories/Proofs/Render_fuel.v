(** Fuel is only a technicality: whenever a render (or an evaluation) does not
    run out of fuel, giving it more fuel yields exactly the same result. *)
From LQ Require Import Core.Render.
From Coq Require Import Lia.

Definition ext (ev1 ev2 : ctx -> expr -> eres) : Prop :=
  forall c e, ev1 c e <> EFuel -> ev2 c e = ev1 c e.

Definition rext (r1 r2 : node -> ctx -> buf -> rstate) : Prop :=
  forall n c b, st (r1 n c b) <> SFuel -> r2 n c b = r1 n c b.

Lemma of_eres_fuel r : of_eres_status r = SFuel -> r = EFuel.
Proof. destruct r; simpl; intro H; try discriminate; reflexivity. Qed.

(** * Expressions *)

Section EvalExt.
Variables ev1 ev2 : ctx -> expr -> eres.
Hypothesis Hx : ext ev1 ev2.

Lemma ext_eq c e r : ev1 c e = r -> r <> EFuel -> ev2 c e = r.
Proof. intros E N. rewrite <- E. apply Hx. rewrite E. exact N. Qed.

Lemma eval_list_ext c l :
  eval_list ev1 c l <> inl EFuel -> eval_list ev2 c l = eval_list ev1 c l.
Proof.
  induction l as [|x l IH]; simpl; intro H; [reflexivity|].
  destruct (ev1 c x) eqn:E.
  - rewrite (ext_eq _ _ _ E) by discriminate.
    destruct (eval_list ev1 c l) as [r|vs] eqn:El.
    + rewrite IH by (intro K; apply H; rewrite K; reflexivity). reflexivity.
    + rewrite IH by discriminate. reflexivity.
  - rewrite (ext_eq _ _ _ E) by discriminate. reflexivity.
  - rewrite (ext_eq _ _ _ E) by discriminate. reflexivity.
  - exfalso. apply H. reflexivity.
Qed.

Lemma eval_segs_ext c l :
  eval_segs ev1 c l <> inl EFuel -> eval_segs ev2 c l = eval_segs ev1 c l.
Proof.
  induction l as [|s l IH]; simpl; intro H; [reflexivity|].
  destruct s as [k|i|e'].
  - destruct (eval_segs ev1 c l) as [r|vs] eqn:El.
    + rewrite IH by (intro K; apply H; rewrite K; reflexivity). reflexivity.
    + rewrite IH by discriminate. reflexivity.
  - destruct (eval_segs ev1 c l) as [r|vs] eqn:El.
    + rewrite IH by (intro K; apply H; rewrite K; reflexivity). reflexivity.
    + rewrite IH by discriminate. reflexivity.
  - destruct (ev1 c e') eqn:E.
    + rewrite (ext_eq _ _ _ E) by discriminate.
      destruct (eval_segs ev1 c l) as [r|vs] eqn:El.
      * rewrite IH by (intro K; apply H; rewrite K; reflexivity). reflexivity.
      * rewrite IH by discriminate. reflexivity.
    + rewrite (ext_eq _ _ _ E) by discriminate. reflexivity.
    + rewrite (ext_eq _ _ _ E) by discriminate. reflexivity.
    + exfalso. apply H. reflexivity.
Qed.

Lemma lambda_map_ext stop c param iparam body items : forall i,
  lambda_map ev1 stop c param iparam body items i <> inl EFuel ->
  lambda_map ev2 stop c param iparam body items i = lambda_map ev1 stop c param iparam body items i.
Proof.
  induction items as [|it items IH]; intros i; cbn [lambda_map]; intro H; [reflexivity|].
  set (c' := set_scopes c _) in *.
  destruct (ev1 c' body) as [rv| | |] eqn:E.
  - rewrite (ext_eq _ _ _ E) by discriminate.
    destruct (stop && lam_true rv); [reflexivity|].
    destruct (lambda_map ev1 stop c param iparam body items (i + 1)%Z) as [r|rs] eqn:El.
    + rewrite IH by (rewrite El; intro K; apply H; rewrite K; reflexivity). rewrite El. reflexivity.
    + rewrite IH by (rewrite El; discriminate). rewrite El. reflexivity.
  - rewrite (ext_eq _ _ _ E) by discriminate. reflexivity.
  - rewrite (ext_eq _ _ _ E) by discriminate. reflexivity.
  - exfalso. apply H. reflexivity.
Qed.

Lemma lambda_result_not_fuel lf items rvs : lambda_result lf items rvs <> EFuel.
Proof. destruct lf; discriminate. Qed.

Lemma walk_not_fuel obj keys : walk obj keys <> EFuel.
Proof.
  revert obj. induction keys as [|k keys IH]; intro obj; simpl; [discriminate|].
  destruct k; simpl; try discriminate.
  all: repeat match goal with |- (match ?x with _ => _ end) <> _ => destruct x end;
    try discriminate; try apply IH.
Qed.

Lemma apply_filter_not_fuel f v args : apply_filter f v args <> EFuel.
Proof.
  unfold apply_filter.
  destruct f, args as [|a [|a2 args]]; try discriminate;
    repeat match goal with
           | |- context [match ?x with _ => _ end] => destruct x
           end; discriminate.
Qed.

Lemma cmp_vals_not_fuel op a b : cmp_vals op a b <> EFuel.
Proof.
  unfold cmp_vals. destruct op;
    repeat match goal with
           | |- context [match ?x with _ => _ end] => destruct x
           end; discriminate.
Qed.

(** case on the result of a sub-evaluation under ev1, transporting it to ev2 *)
Ltac sub c e :=
  let E := fresh "E" in
  destruct (ev1 c e) eqn:E;
  [ rewrite (ext_eq _ _ _ E) by discriminate
  | rewrite (ext_eq _ _ _ E) by discriminate; try (intros; reflexivity)
  | rewrite (ext_eq _ _ _ E) by discriminate; try (intros; reflexivity)
  | try (let HF := fresh "HF" in intro HF; exfalso; apply HF; reflexivity) ].

Lemma eval_step_ext : ext (eval_step ev1) (eval_step ev2).
Proof.
  intros c e. destruct e; simpl.
  - reflexivity.
  - sub c e1. sub c e2. reflexivity.
  - intro H. rewrite eval_list_ext; [reflexivity|].
    intro K. apply H. rewrite K. reflexivity.
  - intro H. rewrite eval_segs_ext; [reflexivity|].
    intro K. apply H. rewrite K. reflexivity.
  - sub c e. reflexivity.
  - sub c e1. destruct (is_truthy v); [|reflexivity]. sub c e2. reflexivity.
  - sub c e1. destruct (is_truthy v); [reflexivity|]. sub c e2. reflexivity.
  - destruct op.
    all: try (sub c e1; sub c e2; reflexivity).
    (* OIn: right operand first *)
    sub c e2. sub c e1. reflexivity.
  - sub c e. intro H.
    rewrite eval_list_ext; [reflexivity|].
    intro K. apply H. rewrite K. reflexivity.
  - sub c e1. destruct (is_truthy v).
    + apply Hx.
    + destruct alt; [apply Hx|reflexivity].
  - (* lambda filter *)
    sub c e1. destruct (sequence_arg v) as [items|]; [|reflexivity].
    destruct (dlimit c <? scope_size c)%Z; [reflexivity|].
    intro H. rewrite lambda_map_ext; [reflexivity|].
    intro K. apply H. rewrite K. reflexivity.
  - (* template string *)
    intro H. rewrite eval_list_ext; [reflexivity|].
    intro K. apply H. rewrite K. reflexivity.
Qed.

End EvalExt.

Theorem eval_fuel_mono f : ext (eval f) (eval (S f)).
Proof.
  induction f as [|f IH]; intros c e H.
  - exfalso. apply H. reflexivity.
  - change (eval (S (S f)) c e) with (eval_step (eval (S f)) c e).
    change (eval (S f) c e) with (eval_step (eval f) c e) in *.
    apply eval_step_ext; assumption.
Qed.

(** * Nodes *)

Section StepExt.
Variable g : cfg.
Variable ld : loader.
Variables ev1 ev2 : ctx -> expr -> eres.
Variables rec1 rec2 : node -> ctx -> buf -> rstate.
Hypothesis Hx : ext ev1 ev2.
Hypothesis Hr : rext rec1 rec2.

Lemma rext_eq n c b : st (rec1 n c b) <> SFuel -> rec2 n c b = rec1 n c b.
Proof. apply Hr. Qed.

Lemma nodes_ext l : forall c b,
  st (nodes rec1 l c b) <> SFuel -> nodes rec2 l c b = nodes rec1 l c b.
Proof.
  induction l as [|x l IH]; intros c b H; simpl in *; [reflexivity|].
  destruct (st (rec1 x c b)) eqn:E.
  all: try (rewrite rext_eq by (rewrite E; discriminate); rewrite E; try reflexivity).
  - apply IH. exact H.
  - exfalso. apply H. exact E.
Qed.

Lemma block_ext l c b :
  st (block g rec1 l c b) <> SFuel -> block g rec2 l c b = block g rec1 l c b.
Proof.
  unfold block. destruct (suppress g && block_blank l); simpl; intro H.
  - rewrite nodes_ext by exact H. reflexivity.
  - apply nodes_ext. exact H.
Qed.

Lemma oblock_ext o c b :
  st (oblock g rec1 o c b) <> SFuel -> oblock g rec2 o c b = oblock g rec1 o c b.
Proof. destruct o; simpl; [apply block_ext|reflexivity]. Qed.

Lemma partial_template_ext body c b bs :
  st (partial_template g rec1 body c b bs) <> SFuel ->
  partial_template g rec2 body c b bs = partial_template g rec1 body c b bs.
Proof.
  unfold partial_template. destruct (extend g c []) as [c1|]; [|reflexivity].
  intro H. rewrite nodes_ext; [reflexivity|].
  intro K. apply H. rewrite K. reflexivity.
Qed.

Lemma eval_pairs_ext c l :
  eval_pairs ev1 c l <> inl EFuel -> eval_pairs ev2 c l = eval_pairs ev1 c l.
Proof.
  induction l as [|[k e] l IH]; simpl; intro H; [reflexivity|].
  destruct (ev1 c e) eqn:E.
  - rewrite (ext_eq _ _ Hx _ _ _ E) by discriminate.
    destruct (eval_pairs ev1 c l) as [r|vs] eqn:El.
    + rewrite IH by (intro K; apply H; rewrite K; reflexivity). reflexivity.
    + rewrite IH by discriminate. reflexivity.
  - rewrite (ext_eq _ _ Hx _ _ _ E) by discriminate. reflexivity.
  - rewrite (ext_eq _ _ Hx _ _ _ E) by discriminate. reflexivity.
  - exfalso. apply H. reflexivity.
Qed.

Lemma eval_namespace_ext c l :
  eval_namespace ev1 c l <> inl EFuel -> eval_namespace ev2 c l = eval_namespace ev1 c l.
Proof.
  unfold eval_namespace. intro H. rewrite eval_pairs_ext; [reflexivity|].
  intro K. apply H. rewrite K. reflexivity.
Qed.

Lemma eval_bound_ext c l :
  eval_bound ev1 c l <> inl EFuel -> eval_bound ev2 c l = eval_bound ev1 c l.
Proof.
  induction l as [|[p [e|]] l IH]; simpl; intro H; [reflexivity| |].
  - destruct (ev1 c e) eqn:E.
    + rewrite (ext_eq _ _ Hx _ _ _ E) by discriminate.
      destruct (eval_bound ev1 c l) as [r|vs] eqn:El.
      * rewrite IH by (intro K; apply H; rewrite K; reflexivity). reflexivity.
      * rewrite IH by discriminate. reflexivity.
    + rewrite (ext_eq _ _ Hx _ _ _ E) by discriminate. reflexivity.
    + rewrite (ext_eq _ _ Hx _ _ _ E) by discriminate. reflexivity.
    + exfalso. apply H. reflexivity.
  - destruct (eval_bound ev1 c l) as [r|vs] eqn:El.
    + rewrite IH by (intro K; apply H; rewrite K; reflexivity). reflexivity.
    + rewrite IH by discriminate. reflexivity.
Qed.

(** a sub-evaluation whose result decides a status: if it ran out of fuel so
    did the whole *)
Ltac sub c e :=
  let E := fresh "E" in
  destruct (ev1 c e) eqn:E;
  [ rewrite (ext_eq _ _ Hx _ _ _ E) by discriminate
  | rewrite (ext_eq _ _ Hx _ _ _ E) by discriminate; try (intros; reflexivity)
  | rewrite (ext_eq _ _ Hx _ _ _ E) by discriminate; try (intros; reflexivity)
  | try (let HF := fresh "HF" in intro HF; exfalso; apply HF; reflexivity) ].

Lemma if_alts_ext els l : forall c b,
  st (if_alts g ev1 rec1 els l c b) <> SFuel ->
  if_alts g ev2 rec2 els l c b = if_alts g ev1 rec1 els l c b.
Proof.
  induction l as [|[ce body] l IH]; intros c b; simpl; [apply oblock_ext|].
  sub c ce. destruct (is_truthy v); [apply block_ext|apply IH].
Qed.

Lemma case_any_ext lhs xs c :
  case_any ev1 lhs xs c <> EFuel -> case_any ev2 lhs xs c = case_any ev1 lhs xs c.
Proof.
  induction xs as [|x xs IH]; simpl; [reflexivity|].
  sub c x. destruct (liq_eq lhs v) as [[|]|]; try reflexivity. apply IH.
Qed.

Lemma case_go_ext e els l : forall m c b,
  st (case_go g ev1 rec1 e els l m c b) <> SFuel ->
  case_go g ev2 rec2 e els l m c b = case_go g ev1 rec1 e els l m c b.
Proof.
  induction l as [|[alts body] l IH]; intros m c b; simpl.
  - destruct m; [reflexivity|apply oblock_ext].
  - sub c e.
    destruct (case_any ev1 v alts c) eqn:Ea.
    + rewrite case_any_ext by (rewrite Ea; discriminate). rewrite Ea.
      destruct v0; try apply IH. destruct b0; [|apply IH].
      intro H. destruct (st (block g rec1 body c b)) eqn:Eb.
      all: try (rewrite block_ext by (rewrite Eb; discriminate); rewrite Eb; try reflexivity).
      * apply IH. exact H.
      * exfalso. apply H. exact Eb.
    + rewrite case_any_ext by (rewrite Ea; discriminate). rewrite Ea. reflexivity.
    + rewrite case_any_ext by (rewrite Ea; discriminate). rewrite Ea. reflexivity.
    + intro H. exfalso. apply H. reflexivity.
Qed.

Lemma for_iter_ext x key len parent body its : forall i c b,
  st (for_iter g rec1 x key len parent body its i c b) <> SFuel ->
  for_iter g rec2 x key len parent body its i c b = for_iter g rec1 x key len parent body its i c b.
Proof.
  induction its as [|it its IH]; intros i c b; cbn [for_iter]; [reflexivity|].
  set (c' := set_loops (set_top_scope c _) _).
  intro H. destruct (st (block g rec1 body c' b)) eqn:Eb.
  all: try (rewrite block_ext by (rewrite Eb; discriminate); rewrite Eb; try reflexivity).
  - apply IH. exact H.
  - apply IH. exact H.
  - exfalso. apply H. reflexivity.
Qed.

Lemma eval_loop_int_ext c o :
  eval_loop_int ev1 c o <> LaStatus SFuel -> eval_loop_int ev2 c o = eval_loop_int ev1 c o.
Proof.
  unfold eval_loop_int. destruct o as [le|]; [|reflexivity].
  destruct (ev1 c le) eqn:E; intro H.
  - rewrite (ext_eq _ _ Hx _ _ _ E) by discriminate. reflexivity.
  - rewrite (ext_eq _ _ Hx _ _ _ E) by discriminate. reflexivity.
  - rewrite (ext_eq _ _ Hx _ _ _ E) by discriminate. reflexivity.
  - exfalso. apply H. reflexivity.
Qed.

Lemma for_run_ext x key rv body els items0 limit offset ic c b :
  st (for_run g rec1 x key rv body els items0 limit offset ic c b) <> SFuel ->
  for_run g rec2 x key rv body els items0 limit offset ic c b
  = for_run g rec1 x key rv body els items0 limit offset ic c b.
Proof.
  unfold for_run.
  destruct (snd (fst (loop_slice _ _ _ _ _ _)) =? 0)%Z; [apply oblock_ext|].
  destruct (extend g _ _); [apply for_iter_ext|reflexivity].
Qed.

Lemma render_for_ext x key iter lim off rv body els c b :
  st (render_for g ev1 rec1 x key iter lim off rv body els c b) <> SFuel ->
  render_for g ev2 rec2 x key iter lim off rv body els c b
  = render_for g ev1 rec1 x key iter lim off rv body els c b.
Proof.
  unfold render_for. sub c iter.
  destruct (to_iter v) as [[items0|]|]; try reflexivity.
  destruct (eval_loop_int ev1 c lim) as [limit|s] eqn:El.
  - rewrite eval_loop_int_ext by (rewrite El; discriminate). rewrite El.
    destruct off; try apply for_run_ext.
    destruct (eval_loop_int ev1 c (Some e)) as [offset|s] eqn:Eo.
    + rewrite eval_loop_int_ext by (rewrite Eo; discriminate). rewrite Eo. apply for_run_ext.
    + intro H. rewrite eval_loop_int_ext; [rewrite Eo; reflexivity|].
      rewrite Eo. intro K. inversion K. subst. apply H. reflexivity.
  - intro H. rewrite eval_loop_int_ext; [rewrite El; reflexivity|].
    rewrite El. intro K. inversion K. subst. apply H. reflexivity.
Qed.

Lemma include_iter_ext body key its : forall c b,
  st (include_iter g rec1 body key its c b) <> SFuel ->
  include_iter g rec2 body key its c b = include_iter g rec1 body key its c b.
Proof.
  induction its as [|it its IH]; intros c b; simpl; [reflexivity|].
  set (c' := set_top_scope c _). intro H.
  destruct (st (partial_template g rec1 body c' b false)) eqn:Ep.
  all: try (rewrite partial_template_ext by (rewrite Ep; discriminate); rewrite Ep; try reflexivity).
  - apply IH. exact H.
  - exfalso. apply H. exact Ep.
Qed.

Lemma render_include_ext name var args c b :
  st (render_include g ld ev1 rec1 name var args c b) <> SFuel ->
  render_include g ld ev2 rec2 name var args c b = render_include g ld ev1 rec1 name var args c b.
Proof.
  unfold render_include.
  destruct (mem_str s_include (disabled c)); [reflexivity|].
  sub c name. destruct v; try reflexivity.
  destruct (assoc s ld) as [body|]; [|reflexivity].
  destruct (eval_namespace ev1 c args) as [r|nsp] eqn:En.
  - intro H. rewrite eval_namespace_ext; [rewrite En; reflexivity|].
    rewrite En. intro K. inversion K. subst. apply H. reflexivity.
  - rewrite eval_namespace_ext by (rewrite En; discriminate). rewrite En.
    destruct (extend g c nsp) as [c1|]; [|reflexivity].
    set (c1' := set_tname c1 s).
    destruct var as [[ve alias]|].
    + destruct (ev1 c1' ve) eqn:Ev.
      * rewrite (ext_eq _ _ Hx _ _ _ Ev) by discriminate.
        destruct v; simpl; intro H; try reflexivity.
        all: try (rewrite partial_template_ext; [reflexivity|exact H]).
        rewrite include_iter_ext; [reflexivity|exact H].
      * rewrite (ext_eq _ _ Hx _ _ _ Ev) by discriminate. reflexivity.
      * rewrite (ext_eq _ _ Hx _ _ _ Ev) by discriminate. reflexivity.
      * simpl. intro HF. exfalso. apply HF. reflexivity.
    + simpl. intro H. rewrite partial_template_ext; [reflexivity|exact H].
Qed.

Lemma render_iter_ext body key len nsp its : forall i cc b,
  st (render_iter g rec1 body key len nsp its i cc b) <> SFuel ->
  render_iter g rec2 body key len nsp its i cc b = render_iter g rec1 body key len nsp its i cc b.
Proof.
  induction its as [|it its IH]; intros i cc b; simpl; [reflexivity|].
  set (c' := set_globals cc _). intro H.
  destruct (st (partial_template g rec1 body c' b true)) eqn:Ep.
  all: try (rewrite partial_template_ext by (rewrite Ep; discriminate); rewrite Ep; try reflexivity).
  - apply IH. exact H.
  - exfalso. apply H. exact Ep.
Qed.

Lemma render_partial_ext body key nsp bound cc b :
  st (render_partial g rec1 body key nsp bound cc b) <> SFuel ->
  render_partial g rec2 body key nsp bound cc b = render_partial g rec1 body key nsp bound cc b.
Proof.
  unfold render_partial.
  destruct bound as [[il vv]|]; [|apply partial_template_ext].
  destruct il, vv; try apply partial_template_ext; try reflexivity.
  apply render_iter_ext.
Qed.

Lemma render_render_ext tn var args c b :
  st (render_render g ld ev1 rec1 tn var args c b) <> SFuel ->
  render_render g ld ev2 rec2 tn var args c b = render_render g ld ev1 rec1 tn var args c b.
Proof.
  unfold render_render.
  destruct (assoc tn ld) as [body|]; [|reflexivity].
  destruct (eval_namespace ev1 c args) as [r|nsp] eqn:En.
  - intro H. rewrite eval_namespace_ext; [rewrite En; reflexivity|].
    rewrite En. intro K. inversion K. subst. apply H. reflexivity.
  - rewrite eval_namespace_ext by (rewrite En; discriminate). rewrite En.
    destruct (copy_isolated g c nsp [s_include] tn) as [cc|]; [|reflexivity].
    destruct var as [[[il ve] alias]|].
    + sub c ve. cbv zeta. intro H. rewrite render_partial_ext; [reflexivity|exact H].
    + cbv zeta. intro H. rewrite render_partial_ext; [reflexivity|exact H].
Qed.

Lemma render_call_ext name args kwargs c b :
  st (render_call g ev1 rec1 name args kwargs c b) <> SFuel ->
  render_call g ev2 rec2 name args kwargs c b = render_call g ev1 rec1 name args kwargs c b.
Proof.
  unfold render_call.
  destruct (assoc name (macros c)); [|reflexivity].
  destruct (Nat.ltb _ _); [reflexivity|].
  destruct (negb _); [reflexivity|].
  match goal with |- context [eval_bound ev1 c ?l] => destruct (eval_bound ev1 c l) as [r|nsargs] eqn:Eb end.
  - intro H. rewrite eval_bound_ext; [rewrite Eb; reflexivity|].
    rewrite Eb. intro K. inversion K. subst. apply H. reflexivity.
  - rewrite eval_bound_ext by (rewrite Eb; discriminate). rewrite Eb.
    destruct (copy_isolated g c _ _ _); [|reflexivity].
    simpl. intro H. rewrite block_ext; [reflexivity|exact H].
Qed.

Lemma write_value_fuel r c b : st (write_value r c b) <> SFuel -> r <> EFuel.
Proof. intros H K. subst. apply H. reflexivity. Qed.

Lemma render_step_ext n c b :
  st (render_step g ld ev1 rec1 n c b) <> SFuel ->
  render_step g ld ev2 rec2 n c b = render_step g ld ev1 rec1 n c b.
Proof.
  destruct n; unfold render_step; cbv zeta.
  all: try reflexivity.
  all: try apply case_go_ext.
  all: try apply render_for_ext.
  all: try apply render_include_ext.
  all: try apply render_render_ext.
  all: try apply render_call_ext.
  all: try apply block_ext.
  - (* output *) intro H. apply write_value_fuel in H. rewrite (Hx c e H). reflexivity.
  - (* echo *) intro H. apply write_value_fuel in H. rewrite (Hx c e H). reflexivity.
  - (* assign *) sub c e. reflexivity.
  - (* capture *)
    intro H. destruct (st (block g rec1 body c {| text := []; null := false |})) eqn:Eb.
    all: try (rewrite block_ext by (rewrite Eb; discriminate); rewrite Eb; reflexivity).
    exfalso. apply H. reflexivity.
  - (* if *) sub c c0. destruct (is_truthy v); [apply block_ext|apply if_alts_ext].
  - (* unless *) sub c c0. destruct (negb (is_truthy v)); [apply block_ext|apply if_alts_ext].
  - (* cycle *)
    destruct group as [key|]; destruct items as [|i0 items]; try reflexivity.
    unfold cycle_next. destruct (nth_error (i0 :: items) _) as [e|]; [|reflexivity].
    intro H. apply write_value_fuel in H. rewrite (Hx _ e H). reflexivity.
  - (* with *)
    destruct (eval_namespace ev1 c args) as [r|nsp] eqn:En.
    + intro H. rewrite eval_namespace_ext; [rewrite En; reflexivity|].
      rewrite En. intro K. inversion K. subst. apply H. reflexivity.
    + rewrite eval_namespace_ext by (rewrite En; discriminate). rewrite En.
      destruct (extend g c nsp) as [c1|]; [|reflexivity].
      simpl. intro H. rewrite block_ext; [reflexivity|exact H].
Qed.

End StepExt.

Theorem render_fuel_mono g ld f : rext (render g ld f) (render g ld (S f)).
Proof.
  induction f as [|f IH]; intros n c b H.
  - exfalso. apply H. reflexivity.
  - change (render g ld (S (S f)) n c b)
      with (render_step g ld (eval (S f)) (render g ld (S f)) n c b).
    change (render g ld (S f) n c b)
      with (render_step g ld (eval f) (render g ld f) n c b) in *.
    apply render_step_ext; [apply eval_fuel_mono|exact IH|exact H].
Qed.

(** More fuel never changes a result that did not run out of fuel. *)
Theorem render_fuel_irrelevant g ld f k n c b :
  st (render g ld f n c b) <> SFuel -> render g ld (k + f) n c b = render g ld f n c b.
Proof.
  intro H. induction k as [|k IH]; [reflexivity|].
  change (S k + f) with (S (k + f)).
  rewrite render_fuel_mono; [exact IH|]. rewrite IH. exact H.
Qed.
