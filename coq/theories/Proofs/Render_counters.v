(** Proofs about Core/Render.v: increment / decrement count, cycle is periodic. *)
From LQ Require Import Core.Render.
From Coq Require Import Lia.

Lemma assoc_set_same {V} (k : str) (v : V) l : assoc k (dict_set k v l) = Some v.
Proof.
  induction l as [|[k0 v0] l IH]; simpl.
  - rewrite str_eqb_refl. reflexivity.
  - destruct (str_eqb k k0) eqn:E; simpl; [rewrite str_eqb_refl; reflexivity|rewrite E; exact IH].
Qed.

Lemma assoc_set_other {V} (k k' : str) (v : V) l :
  k' <> k -> assoc k' (dict_set k v l) = assoc k' l.
Proof.
  intro N. apply str_eqb_neq in N.
  induction l as [|[k0 v0] l IH]; simpl.
  - rewrite N. reflexivity.
  - destruct (str_eqb k k0) eqn:E; simpl.
    + apply str_eqb_eq in E. subst k0. rewrite N. reflexivity.
    + rewrite IH. reflexivity.
Qed.

(** the value of counter [x] (a counter that was never touched counts from 0) *)
Definition counter_val (x : str) (c : ctx) : Z :=
  match assoc x (counters c) with Some z => z | None => 0%Z end.

Fixpoint count_up (v : Z) (n : nat) : str :=
  match n with O => [] | S n' => str_of_Z v ++ count_up (v + 1) n' end.

Fixpoint count_down (v : Z) (n : nat) : str :=
  match n with O => [] | S n' => str_of_Z (v - 1) ++ count_down (v - 1) n' end.

Section Counters.
Variable g : cfg.
Variable ld : loader.
Variable fuel : nat.

Lemma render_increment x c b :
  render g ld (S fuel) (NIncrement x) c b =
  mk SDone (set_counters c (dict_set x (counter_val x c + 1)%Z (counters c)))
     (write b (str_of_Z (counter_val x c))).
Proof. reflexivity. Qed.

Lemma render_decrement x c b :
  render g ld (S fuel) (NDecrement x) c b =
  mk SDone (set_counters c (dict_set x (counter_val x c - 1)%Z (counters c)))
     (write b (str_of_Z (counter_val x c - 1))).
Proof. reflexivity. Qed.

(** [n] increments of [x] in a row write v, v+1, ..., v+n-1 where v is the
    counter's value before, leave it at v+n, and touch neither another counter
    nor any local variable (so `increment x` and `assign x` never meet). *)
Theorem increments_count x : forall n c b,
  null b = false ->
  let r := nodes (render g ld (S fuel)) (repeat (NIncrement x) n) c b in
  st r = SDone /\
  counter_val x (cx r) = (counter_val x c + Z.of_nat n)%Z /\
  text (bf r) = text b ++ count_up (counter_val x c) n /\
  null (bf r) = false /\
  (forall y, y <> x -> counter_val y (cx r) = counter_val y c) /\
  locals (cx r) = locals c /\ scopes (cx r) = scopes c.
Proof.
  induction n as [|n IH]; intros c b Hb.
  - cbn. rewrite app_nil_r. repeat split; try reflexivity; try lia; auto.
  - cbn [repeat nodes]. rewrite render_increment. cbn [st cx bf mk].
    set (c1 := set_counters c _). set (b1 := write b _).
    assert (Hb1 : null b1 = false) by (unfold b1, write; rewrite Hb; reflexivity).
    specialize (IH c1 b1 Hb1). cbv zeta in IH.
    destruct IH as (H1 & H2 & H3 & H4 & H5 & H6 & H7).
    assert (Hx : counter_val x c1 = (counter_val x c + 1)%Z).
    { unfold counter_val at 1, c1. cbn [counters set_counters]. rewrite assoc_set_same. reflexivity. }
    repeat split.
    + exact H1.
    + rewrite H2, Hx. lia.
    + rewrite H3, Hx. unfold b1, write. rewrite Hb. cbn [text count_up]. rewrite <- app_assoc. reflexivity.
    + exact H4.
    + intros y Hy. rewrite (H5 y Hy). unfold counter_val, c1. cbn [counters set_counters].
      rewrite assoc_set_other by exact Hy. reflexivity.
    + rewrite H6. reflexivity.
    + rewrite H7. reflexivity.
Qed.

(** [n] decrements write v-1, v-2, ..., v-n and leave the counter at v-n. *)
Theorem decrements_count x : forall n c b,
  null b = false ->
  let r := nodes (render g ld (S fuel)) (repeat (NDecrement x) n) c b in
  st r = SDone /\
  counter_val x (cx r) = (counter_val x c - Z.of_nat n)%Z /\
  text (bf r) = text b ++ count_down (counter_val x c) n /\
  null (bf r) = false /\
  (forall y, y <> x -> counter_val y (cx r) = counter_val y c) /\
  locals (cx r) = locals c /\ scopes (cx r) = scopes c.
Proof.
  induction n as [|n IH]; intros c b Hb.
  - cbn. rewrite app_nil_r. repeat split; try reflexivity; try lia; auto.
  - cbn [repeat nodes]. rewrite render_decrement. cbn [st cx bf mk].
    set (c1 := set_counters c _). set (b1 := write b _).
    assert (Hb1 : null b1 = false) by (unfold b1, write; rewrite Hb; reflexivity).
    specialize (IH c1 b1 Hb1). cbv zeta in IH.
    destruct IH as (H1 & H2 & H3 & H4 & H5 & H6 & H7).
    assert (Hx : counter_val x c1 = (counter_val x c - 1)%Z).
    { unfold counter_val at 1, c1. cbn [counters set_counters]. rewrite assoc_set_same. reflexivity. }
    repeat split.
    + exact H1.
    + rewrite H2, Hx. lia.
    + rewrite H3, Hx. unfold b1, write. rewrite Hb. cbn [text count_down]. rewrite <- app_assoc. reflexivity.
    + exact H4.
    + intros y Hy. rewrite (H5 y Hy). unfold counter_val, c1. cbn [counters set_counters].
      rewrite assoc_set_other by exact Hy. reflexivity.
    + rewrite H6. reflexivity.
    + rewrite H7. reflexivity.
Qed.

End Counters.

(** * cycle *)

Definition cycle_pos (key : str) (c : ctx) : Z :=
  match assoc key (cycles c) with Some i => i | None => 0%Z end.

(** the item indexes chosen by [k] successive uses of the cycle [key] of [n] items *)
Fixpoint cycle_run (c : ctx) (key : str) (n : Z) (k : nat) : list Z * ctx :=
  match k with
  | O => ([], c)
  | S k' =>
      let '(i, c1) := cycle_next c key n in
      let '(l, c2) := cycle_run c1 key n k' in
      (i :: l, c2)
  end.

Lemma cycle_next_spec c key n :
  fst (cycle_next c key n) = (cycle_pos key c mod n)%Z /\
  cycle_pos key (snd (cycle_next c key n)) = (cycle_pos key c + 1)%Z /\
  (forall k', k' <> key -> cycle_pos k' (snd (cycle_next c key n)) = cycle_pos k' c).
Proof.
  unfold cycle_next, cycle_pos. cbn [fst snd cycles set_cycles]. repeat split.
  - rewrite assoc_set_same. reflexivity.
  - intros k' Hk. rewrite assoc_set_other by exact Hk. reflexivity.
Qed.

(** A cycle is periodic: its j-th use (counting from 0) picks item
    (p + j) mod n, where p is the number of earlier uses; other cycles are not
    advanced. *)
Theorem cycle_is_periodic key n : forall k c,
  fst (cycle_run c key n k) = map (fun j => ((cycle_pos key c + Z.of_nat j) mod n)%Z) (seq 0 k) /\
  cycle_pos key (snd (cycle_run c key n k)) = (cycle_pos key c + Z.of_nat k)%Z /\
  (forall k', k' <> key -> cycle_pos k' (snd (cycle_run c key n k)) = cycle_pos k' c).
Proof.
  induction k as [|k IH]; intro c.
  - cbn. repeat split; try reflexivity; try lia.
  - cbn [cycle_run].
    destruct (cycle_next_spec c key n) as (S1 & S2 & S3).
    destruct (cycle_next c key n) as [i c1] eqn:E. cbn [fst snd] in S1, S2, S3.
    specialize (IH c1). destruct (cycle_run c1 key n k) as [l c2]. cbn [fst snd] in IH |- *.
    destruct IH as (I1 & I2 & I3). repeat split.
    + cbn [seq map]. f_equal.
      * rewrite S1. f_equal. lia.
      * rewrite I1, <- seq_shift, map_map. apply map_ext. intro j. rewrite S2. f_equal. lia.
    + rewrite I2, S2. lia.
    + intros k' Hk. rewrite (I3 k' Hk). apply S3. exact Hk.
Qed.

(** with [n] items the chosen index is always a valid position *)
Lemma cycle_index_in_range c key n :
  (0 < n)%Z -> (0 <= fst (cycle_next c key n) < n)%Z.
Proof. intro H. unfold cycle_next. cbn [fst]. apply Z.mod_pos_bound. exact H. Qed.

(** a concrete run: three increments of "n" on a fresh context write 0 1 2 *)
Example increments_example :
  let x := [110]%N in
  let r := nodes (render {| suppress := false; depth_limit := 30 |} [] 1)
                 (repeat (NIncrement x) 3) (fresh_ctx 30 [] []) empty_buf in
  text (bf r) = [48; 49; 50]%N /\ counter_val x (cx r) = 3%Z.
Proof. vm_compute. split; reflexivity. Qed.
