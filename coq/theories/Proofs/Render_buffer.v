(** Output compositionality of Core/Render.v: what a construct writes, its
    outcome and its effect on the context do not depend on what has been
    written before it; output is only ever appended. *)
From LQ Require Import Core.Render.
From Coq Require Import Lia.

Definition brel (b1 b2 : buf) (r1 r2 : rstate) : Prop :=
  st r1 = st r2 /\ cx r1 = cx r2 /\ null (bf r1) = null b1 /\ null (bf r2) = null b2 /\
  exists d, text (bf r1) = text b1 ++ d /\ text (bf r2) = text b2 ++ d.

Lemma brel_mk s c b1 b2 : brel b1 b2 (mk s c b1) (mk s c b2).
Proof. repeat split. exists []. simpl. rewrite !app_nil_r. auto. Qed.

Lemma brel_nulls b1 b2 r1 r2 : null b1 = null b2 -> brel b1 b2 r1 r2 -> null (bf r1) = null (bf r2).
Proof. intros H (_ & _ & H1 & H2 & _). congruence. Qed.

Lemma brel_chain b1 b2 r1 r2 r1' r2' :
  brel b1 b2 r1 r2 -> brel (bf r1) (bf r2) r1' r2' -> brel b1 b2 r1' r2'.
Proof.
  intros (S1 & C1 & N1 & N2 & d & D1 & D2) (S2 & C2 & N3 & N4 & d' & D3 & D4).
  repeat split; try congruence.
  exists (d ++ d'). rewrite D3, D4, D1, D2, !app_assoc. auto.
Qed.

Lemma brel_write s c b1 b2 t : null b1 = null b2 -> brel b1 b2 (mk s c (write b1 t)) (mk s c (write b2 t)).
Proof.
  intro H. unfold write. rewrite <- H. destruct (null b1) eqn:E.
  - apply brel_mk.
  - repeat split; simpl; try congruence. exists t. auto.
Qed.

(** re-targeting a result to the caller's buffer (render/call discard the copy's context) *)
Lemma brel_retarget b1 b2 r1 r2 c :
  brel b1 b2 r1 r2 -> brel b1 b2 (mk (st r1) c (bf r1)) (mk (st r2) c (bf r2)).
Proof. intros (S & _ & N1 & N2 & D). repeat split; simpl; auto. Qed.

Lemma brel_map_ctx b1 b2 r1 r2 (f : ctx -> ctx) :
  brel b1 b2 r1 r2 -> brel b1 b2 (mk (st r1) (f (cx r1)) (bf r1)) (mk (st r2) (f (cx r2)) (bf r2)).
Proof. intros (S & C & N1 & N2 & D). repeat split; simpl; auto. congruence. Qed.

Section StepBuf.
Variable g : cfg.
Variable ld : loader.
Variable ev : ctx -> expr -> eres.
Variable rec : node -> ctx -> buf -> rstate.
Hypothesis Hrec : forall x c b1 b2, null b1 = null b2 -> brel b1 b2 (rec x c b1) (rec x c b2).

Lemma nodes_brel l : forall c b1 b2, null b1 = null b2 ->
  brel b1 b2 (nodes rec l c b1) (nodes rec l c b2).
Proof.
  induction l as [|x l IH]; intros c b1 b2 H; simpl; [apply brel_mk|].
  pose proof (Hrec x c b1 b2 H) as R.
  pose proof R as (S & C & N1 & N2 & D). rewrite <- S.
  destruct (st (rec x c b1)); try exact R.
  rewrite <- C. eapply brel_chain; [exact R|]. apply IH. exact (brel_nulls _ _ _ _ H R).
Qed.

Lemma block_brel l c b1 b2 : null b1 = null b2 ->
  brel b1 b2 (block g rec l c b1) (block g rec l c b2).
Proof.
  intro H. unfold block. destruct (suppress g && block_blank l).
  - (* suppressed: the same run into a null buffer, whatever b is *)
    repeat split; simpl. exists []. rewrite !app_nil_r. auto.
  - apply nodes_brel; exact H.
Qed.

Lemma oblock_brel o c b1 b2 : null b1 = null b2 ->
  brel b1 b2 (oblock g rec o c b1) (oblock g rec o c b2).
Proof. intro H. destruct o; simpl; [apply block_brel; exact H|apply brel_mk]. Qed.

Lemma partial_template_brel body c b1 b2 bs : null b1 = null b2 ->
  brel b1 b2 (partial_template g rec body c b1 bs) (partial_template g rec body c b2 bs).
Proof.
  intro H. unfold partial_template. destruct (extend g c []) as [c1|]; [|apply brel_mk].
  pose proof (nodes_brel body c1 b1 b2 H) as R.
  pose proof R as (S & C & N1 & N2 & D). rewrite <- S, <- C.
  destruct (st (nodes rec body c1 b1)); try destruct bs; repeat split; simpl; auto.
Qed.

Lemma if_alts_brel els l : forall c b1 b2, null b1 = null b2 ->
  brel b1 b2 (if_alts g ev rec els l c b1) (if_alts g ev rec els l c b2).
Proof.
  induction l as [|[ce body] l IH]; intros c b1 b2 H; simpl; [apply oblock_brel; exact H|].
  destruct (ev c ce); try apply brel_mk.
  destruct (is_truthy v); [apply block_brel|apply IH]; exact H.
Qed.

Lemma case_go_brel e els l : forall m c b1 b2, null b1 = null b2 ->
  brel b1 b2 (case_go g ev rec e els l m c b1) (case_go g ev rec e els l m c b2).
Proof.
  induction l as [|[alts body] l IH]; intros m c b1 b2 H; simpl.
  - destruct m; [apply brel_mk|apply oblock_brel; exact H].
  - destruct (ev c e); try apply brel_mk.
    destruct (case_any ev v alts c) as [w| | |]; try apply brel_mk.
    destruct w; try (apply IH; exact H). destruct b; [|apply IH; exact H].
    pose proof (block_brel body c b1 b2 H) as R.
    pose proof R as (S & C & N1 & N2 & D). rewrite <- S.
    destruct (st (block g rec body c b1)); try exact R.
    rewrite <- C. eapply brel_chain; [exact R|]. apply IH. exact (brel_nulls _ _ _ _ H R).
Qed.

Lemma finish_loop_brel s c b1 b2 : brel b1 b2 (finish_loop s c b1) (finish_loop s c b2).
Proof. unfold finish_loop. apply brel_mk. Qed.

Lemma for_iter_brel x key len parent body its : forall i c b1 b2, null b1 = null b2 ->
  brel b1 b2 (for_iter g rec x key len parent body its i c b1)
             (for_iter g rec x key len parent body its i c b2).
Proof.
  induction its as [|it its IH]; intros i c b1 b2 H; cbn [for_iter]; [apply finish_loop_brel|].
  set (c' := set_loops (set_top_scope c _) _).
  pose proof (block_brel body c' b1 b2 H) as R.
  pose proof R as (S & C & N1 & N2 & D). rewrite <- S, <- C.
  assert (Hn : null (bf (block g rec body c' b1)) = null (bf (block g rec body c' b2)))
    by exact (brel_nulls _ _ _ _ H R).
  destruct (st (block g rec body c' b1));
    try (eapply brel_chain; [exact R|apply IH; exact Hn]);
    (eapply brel_chain; [exact R|apply finish_loop_brel]).
Qed.

Lemma for_run_brel x key rv body els items0 limit offset ic c b1 b2 : null b1 = null b2 ->
  brel b1 b2 (for_run g rec x key rv body els items0 limit offset ic c b1)
             (for_run g rec x key rv body els items0 limit offset ic c b2).
Proof.
  intro H. unfold for_run.
  destruct (snd (fst (loop_slice _ _ _ _ _ _)) =? 0)%Z; [apply oblock_brel; exact H|].
  destruct (extend g _ _); [apply for_iter_brel; exact H|apply brel_mk].
Qed.

Lemma render_for_brel x key iter lim off rv body els c b1 b2 : null b1 = null b2 ->
  brel b1 b2 (render_for g ev rec x key iter lim off rv body els c b1)
             (render_for g ev rec x key iter lim off rv body els c b2).
Proof.
  intro H. unfold render_for.
  destruct (ev c iter); try apply brel_mk.
  destruct (to_iter v) as [[items0|]|]; try apply brel_mk.
  destruct (eval_loop_int ev c lim); try apply brel_mk.
  destruct off; try (apply for_run_brel; exact H).
  destruct (eval_loop_int ev c (Some e)); [apply for_run_brel; exact H|apply brel_mk].
Qed.

Lemma include_iter_brel body key its : forall c b1 b2, null b1 = null b2 ->
  brel b1 b2 (include_iter g rec body key its c b1) (include_iter g rec body key its c b2).
Proof.
  induction its as [|it its IH]; intros c b1 b2 H; simpl; [apply brel_mk|].
  set (c' := set_top_scope c _).
  pose proof (partial_template_brel body c' b1 b2 false H) as R.
  pose proof R as (S & C & N1 & N2 & D). rewrite <- S.
  destruct (st (partial_template g rec body c' b1 false)); try exact R.
  rewrite <- C. eapply brel_chain; [exact R|]. apply IH. exact (brel_nulls _ _ _ _ H R).
Qed.

Lemma render_include_brel name var args c b1 b2 : null b1 = null b2 ->
  brel b1 b2 (render_include g ld ev rec name var args c b1)
             (render_include g ld ev rec name var args c b2).
Proof.
  intro H. unfold render_include.
  destruct (mem_str s_include (disabled c)); [apply brel_mk|].
  destruct (ev c name) as [nv| | |]; try apply brel_mk.
  destruct nv; try apply brel_mk.
  destruct (assoc s ld) as [body|]; [|apply brel_mk].
  destruct (eval_namespace ev c args) as [r|nsp]; [apply brel_mk|].
  destruct (extend g c nsp) as [c1|]; [|apply brel_mk].
  set (c1' := set_tname c1 s).
  set (f := fun cc => set_tname (pop_scope cc) (tname c)).
  destruct var as [[ve alias]|].
  - destruct (ev c1' ve) as [vv| | |]; try apply (brel_map_ctx b1 b2 (mk _ c1' b1) (mk _ c1' b2) f), brel_mk.
    destruct vv; try apply (brel_map_ctx b1 b2 (mk _ c1' b1) (mk _ c1' b2) f), brel_mk.
    all: try (apply (brel_map_ctx b1 b2 _ _ f); apply partial_template_brel; exact H).
    apply (brel_map_ctx b1 b2 _ _ f). apply include_iter_brel; exact H.
  - apply (brel_map_ctx b1 b2 _ _ f). apply partial_template_brel; exact H.
Qed.

Lemma render_iter_brel body key len nsp its : forall i cc b1 b2, null b1 = null b2 ->
  brel b1 b2 (render_iter g rec body key len nsp its i cc b1)
             (render_iter g rec body key len nsp its i cc b2).
Proof.
  induction its as [|it its IH]; intros i cc b1 b2 H; simpl; [apply brel_mk|].
  set (c' := set_globals cc _).
  pose proof (partial_template_brel body c' b1 b2 true H) as R.
  pose proof R as (S & C & N1 & N2 & D). rewrite <- S.
  destruct (st (partial_template g rec body c' b1 true)); try exact R.
  eapply brel_chain; [exact R|]. apply IH. exact (brel_nulls _ _ _ _ H R).
Qed.

Lemma render_partial_brel body key nsp bound cc b1 b2 : null b1 = null b2 ->
  brel b1 b2 (render_partial g rec body key nsp bound cc b1)
             (render_partial g rec body key nsp bound cc b2).
Proof.
  intro H. unfold render_partial.
  destruct bound as [[il vv]|]; [|apply partial_template_brel; exact H].
  destruct il, vv; try (apply partial_template_brel; exact H); try apply brel_mk.
  apply render_iter_brel; exact H.
Qed.

Lemma render_render_brel tn var args c b1 b2 : null b1 = null b2 ->
  brel b1 b2 (render_render g ld ev rec tn var args c b1)
             (render_render g ld ev rec tn var args c b2).
Proof.
  intro H. unfold render_render.
  destruct (assoc tn ld) as [body|]; [|apply brel_mk].
  destruct (eval_namespace ev c args) as [r|nsp]; [apply brel_mk|].
  destruct (copy_isolated g c nsp [s_include] tn) as [cc|]; [|apply brel_mk].
  destruct var as [[[il ve] alias]|].
  - destruct (ev c ve); try apply brel_mk.
    apply brel_retarget. apply render_partial_brel; exact H.
  - apply brel_retarget. apply render_partial_brel; exact H.
Qed.

Lemma render_call_brel name args kwargs c b1 b2 : null b1 = null b2 ->
  brel b1 b2 (render_call g ev rec name args kwargs c b1)
             (render_call g ev rec name args kwargs c b2).
Proof.
  intro H. unfold render_call.
  destruct (assoc name (macros c)); [|apply brel_mk].
  destruct (Nat.ltb _ _); [apply brel_mk|].
  destruct (negb _); [apply brel_mk|].
  destruct (eval_bound ev c _); [apply brel_mk|].
  destruct (copy_isolated g c _ _ _); [|apply brel_mk].
  apply brel_retarget. apply block_brel; exact H.
Qed.

Lemma write_value_brel r c b1 b2 : null b1 = null b2 ->
  brel b1 b2 (write_value r c b1) (write_value r c b2).
Proof.
  intro H. unfold write_value. destruct r; try apply brel_mk.
  destruct (to_liquid_string v); [apply brel_write; exact H|apply brel_mk].
Qed.

Lemma render_step_brel n c b1 b2 : null b1 = null b2 ->
  brel b1 b2 (render_step g ld ev rec n c b1) (render_step g ld ev rec n c b2).
Proof.
  intro H. destruct n; simpl.
  all: try apply brel_mk.
  all: try (apply brel_write; exact H).
  all: try (apply write_value_brel; exact H).
  all: try (apply case_go_brel; exact H).
  all: try (apply render_for_brel; exact H).
  all: try (apply render_include_brel; exact H).
  all: try (apply render_render_brel; exact H).
  all: try (apply render_call_brel; exact H).
  all: try (apply block_brel; exact H).
  - (* assign *) destruct (ev c e) as [v| | |]; try apply brel_mk. destruct (has_forloop v); apply brel_mk.
  - (* capture: rendered into its own buffer *)
    destruct (st (block g rec body c {| text := []; null := false |})); apply brel_mk.
  - destruct (ev c c0); try apply brel_mk.
    destruct (is_truthy v); [apply block_brel|apply if_alts_brel]; exact H.
  - destruct (ev c c0); try apply brel_mk.
    destruct (negb (is_truthy v)); [apply block_brel|apply if_alts_brel]; exact H.
  - (* cycle *)
    destruct group as [key|]; destruct items as [|i0 items]; try apply brel_mk.
    unfold cycle_next. destruct (nth_error (i0 :: items) _); [|apply brel_mk].
    apply write_value_brel; exact H.
  - (* with *)
    destruct (eval_namespace ev c args) as [r|nsp]; [apply brel_mk|].
    destruct (extend g c nsp) as [c1|]; [|apply brel_mk].
    apply (brel_map_ctx b1 b2 _ _ pop_scope). apply block_brel; exact H.
Qed.

End StepBuf.

(** For every node: status, context effect and the text appended are the same
    whatever was in the buffer before. *)
Theorem render_output_compositional g ld fuel : forall n c b1 b2,
  null b1 = null b2 ->
  brel b1 b2 (render g ld fuel n c b1) (render g ld fuel n c b2).
Proof.
  induction fuel as [|f IH]; intros n c b1 b2 H; simpl; [apply brel_mk|].
  apply render_step_brel; [exact IH|exact H].
Qed.

(** Output is only ever appended: earlier output is never rewritten. *)
Corollary render_appends g ld fuel n c b :
  exists d, text (bf (render g ld fuel n c b)) = text b ++ d.
Proof.
  destruct (render_output_compositional g ld fuel n c b b eq_refl) as (_ & _ & _ & _ & d & D & _).
  exists d. exact D.
Qed.

(** * render ... for: the output is the concatenation of independent item renders *)

(** what item [it] (at index [i]) writes when it is rendered ALONE, into an empty
    buffer, from the fresh isolated copy [cc] *)
Definition item_alone g rec body key len nsp cc it i : rstate :=
  let nsx := dict_set key it (dict_set s_forloop (VForLoop key len i VUndef) nsp) in
  partial_template g rec body (set_globals cc (nsx :: root_globals cc)) empty_buf true.

Fixpoint items_text g rec body key len nsp (its : list val) (i : Z) cc : str :=
  match its with
  | [] => []
  | it :: its' =>
      text (bf (item_alone g rec body key len nsp cc it i))
      ++ items_text g rec body key len nsp its' (i + 1)%Z cc
  end.

Fixpoint items_done g rec body key len nsp (its : list val) (i : Z) cc : Prop :=
  match its with
  | [] => True
  | it :: its' =>
      st (item_alone g rec body key len nsp cc it i) = SDone
      /\ items_done g rec body key len nsp its' (i + 1)%Z cc
  end.

Lemma render_iter_concat g rec
  (Hrec : forall x c b1 b2, null b1 = null b2 -> brel b1 b2 (rec x c b1) (rec x c b2))
  body key len nsp its : forall i cc b,
  null b = false ->
  items_done g rec body key len nsp its i cc ->
  let r := render_iter g rec body key len nsp its i cc b in
  st r = SDone /\ cx r = cc /\ null (bf r) = false /\
  text (bf r) = text b ++ items_text g rec body key len nsp its i cc.
Proof.
  induction its as [|it its IH]; intros i cc b Hn Hd; cbn [render_iter items_text items_done] in *.
  - cbn. rewrite app_nil_r. auto.
  - destruct Hd as [Hd1 Hd2]. unfold item_alone in *.
    set (c' := set_globals cc _) in *.
    pose proof (partial_template_brel g rec Hrec body c' b empty_buf true Hn) as R.
    destruct R as (S & _ & N1 & _ & d & D1 & D2).
    cbv zeta. rewrite S, Hd1.
    assert (Hn' : null (bf (partial_template g rec body c' b true)) = false) by congruence.
    specialize (IH (i + 1)%Z cc _ Hn' Hd2). cbv zeta in IH.
    destruct IH as (I1 & I2 & I3 & I4).
    repeat split; auto.
    rewrite I4, D1, D2. cbn [text empty_buf app]. rewrite app_assoc. reflexivity.
Qed.

(** the same with the interpreter itself as the recursive renderer *)
Theorem render_for_is_concatenation_of_isolated_items g ld fuel body key len nsp its i cc b :
  null b = false ->
  items_done g (render g ld fuel) body key len nsp its i cc ->
  let r := render_iter g (render g ld fuel) body key len nsp its i cc b in
  st r = SDone /\ cx r = cc /\
  text (bf r) = text b ++ items_text g (render g ld fuel) body key len nsp its i cc.
Proof.
  intros Hn Hd.
  destruct (render_iter_concat g (render g ld fuel) (render_output_compositional g ld fuel)
              body key len nsp its i cc b Hn Hd) as (A & B & _ & D).
  cbv zeta. auto.
Qed.

(** the premises are satisfiable and the conclusion is not trivial: the partial
    `{% increment n %}{{ x }}` over [7; 8] writes "0708" - each item restarts its
    counter at 0 because it starts from the same fresh copy *)
Example render_for_concat_example :
  let g := {| suppress := false; depth_limit := 30 |} in
  let body := [NIncrement [110]%N; NOutput (EPath [120]%N [])] in
  let cc := fresh_ctx 30 [] [] in
  let its := [VInt 7; VInt 8] in
  items_done g (render g [] 5) body [120]%N 2%Z [] its 0%Z cc /\
  items_text g (render g [] 5) body [120]%N 2%Z [] its 0%Z cc = [48; 55; 48; 56]%N.
Proof. vm_compute. repeat split; reflexivity. Qed.
