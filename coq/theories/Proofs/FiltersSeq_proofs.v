(** Proofs/FiltersSeq_proofs.v — laws of the array filters (C19).
    Lemmas about Kernels/FiltersSeq.v; Properties/C19.v restates the
    property-level ones. *)
From LQ Require Import Base.Str Kernels.FVal Kernels.FiltersNum Kernels.FiltersSeq.
From Coq Require Import Permutation Sorted Lia.
Local Open Scope Z_scope.

(** * 1. The stable insertion sort *)

Section SortProofs.
  Context {A : Type} (leb : A -> A -> bool).
  Definition eqv (a b : A) : bool := leb a b && leb b a.

  Lemma insert_perm x l : Permutation (insert leb x l) (x :: l).
  Proof.
    induction l as [|y l IH]; simpl; [reflexivity|].
    destruct (leb x y); [reflexivity|].
    rewrite IH. apply perm_swap.
  Qed.

  Lemma isort_perm l : Permutation (isort leb l) l.
  Proof.
    induction l as [|x l IH]; simpl; [reflexivity|].
    rewrite insert_perm. constructor. exact IH.
  Qed.

  Hypothesis total : forall a b, leb a b = true \/ leb b a = true.
  Hypothesis trans : forall a b c, leb a b = true -> leb b c = true -> leb a c = true.

  Let le (a b : A) : Prop := leb a b = true.

  Lemma insert_sorted x l : StronglySorted le l -> StronglySorted le (insert leb x l).
  Proof.
    induction l as [|y l IH]; simpl; intro S.
    - constructor; constructor.
    - inversion S as [|? ? S' F]; subst.
      destruct (leb x y) eqn:E.
      + constructor; [exact S|]. constructor; [exact E|].
        eapply Forall_impl; [|exact F]. intros z Hz. eapply trans; eassumption.
      + constructor; [apply IH; exact S'|].
        assert (Hyx : le y x) by (destruct (total x y) as [H|H]; [congruence|exact H]).
        eapply Permutation_Forall; [symmetry; apply insert_perm|].
        constructor; assumption.
  Qed.

  Lemma isort_sorted l : StronglySorted le (isort leb l).
  Proof.
    induction l as [|x l IH]; simpl; [constructor|]. apply insert_sorted, IH.
  Qed.

  (** Stability: the elements equivalent to any given [x] keep their order. *)
  Lemma insert_filter_eqv x y l :
    eqv x y = true -> filter (eqv x) (insert leb y l) = y :: filter (eqv x) l.
  Proof.
    intro E. induction l as [|z l IH]; simpl.
    - rewrite E. reflexivity.
    - destruct (leb y z) eqn:Eyz; simpl.
      + rewrite E. reflexivity.
      + destruct (eqv x z) eqn:Exz.
        * exfalso. unfold eqv in *. apply andb_true_iff in E as [E1 E2].
          apply andb_true_iff in Exz as [E3 E4].
          rewrite (trans y x z E2 E3) in Eyz. discriminate.
        * exact IH.
  Qed.

  Lemma insert_filter_neqv x y l :
    eqv x y = false -> filter (eqv x) (insert leb y l) = filter (eqv x) l.
  Proof.
    intro E. induction l as [|z l IH]; simpl.
    - rewrite E. reflexivity.
    - destruct (leb y z); simpl.
      + rewrite E. reflexivity.
      + rewrite IH. reflexivity.
  Qed.

  Lemma isort_stable x l : filter (eqv x) (isort leb l) = filter (eqv x) l.
  Proof.
    induction l as [|y l IH]; simpl; [reflexivity|].
    destruct (eqv x y) eqn:E.
    - rewrite insert_filter_eqv by exact E. rewrite IH. reflexivity.
    - rewrite insert_filter_neqv by exact E. exact IH.
  Qed.
End SortProofs.

(** * 2. The orders are total preorders *)

Lemma p10_pos d : 0 < p10 d.
Proof. unfold p10. apply Z.pow_pos_nonneg; lia. Qed.

Lemma q_leb_total a b : q_leb a b = true \/ q_leb b a = true.
Proof. unfold q_leb. destruct a as [a da], b as [b db]; simpl. rewrite !Z.leb_le. lia. Qed.

Lemma q_leb_trans a b c : q_leb a b = true -> q_leb b c = true -> q_leb a c = true.
Proof.
  unfold q_leb. destruct a as [a da], b as [b db], c as [c dc]; simpl.
  rewrite !Z.leb_le. pose proof (p10_pos da) as Pa. pose proof (p10_pos db) as Pb. pose proof (p10_pos dc) as Pc.
  intros H1 H2.
  apply Z.mul_le_mono_pos_r with (p := p10 db); [assumption|].
  apply Z.le_trans with (m := b * p10 da * p10 dc).
  - replace (a * p10 dc * p10 db) with (a * p10 db * p10 dc) by ring.
    replace (b * p10 da * p10 dc) with (b * p10 da * p10 dc) by ring.
    apply Z.mul_le_mono_nonneg_r; lia.
  - replace (b * p10 da * p10 dc) with (b * p10 dc * p10 da) by ring.
    replace (c * p10 da * p10 db) with (c * p10 db * p10 da) by ring.
    apply Z.mul_le_mono_nonneg_r; lia.
Qed.

Lemma Nleb_total a b : N.leb a b = true \/ N.leb b a = true.
Proof. rewrite !N.leb_le. lia. Qed.
Lemma Nleb_trans a b c : N.leb a b = true -> N.leb b c = true -> N.leb a c = true.
Proof. rewrite !N.leb_le. lia. Qed.

Section LexProofs.
  Context {A : Type} (leb : A -> A -> bool).
  Hypothesis total : forall a b, leb a b = true \/ leb b a = true.
  Hypothesis trans : forall a b c, leb a b = true -> leb b c = true -> leb a c = true.

  Lemma lex_leb_total a b : lex_leb leb a b = true \/ lex_leb leb b a = true.
  Proof.
    revert b; induction a as [|x a IH]; intros [|y b]; simpl; auto.
    destruct (leb x y) eqn:E1, (leb y x) eqn:E2; simpl; auto.
    destruct (total x y); congruence.
  Qed.

  Lemma lex_leb_trans a b c :
    lex_leb leb a b = true -> lex_leb leb b c = true -> lex_leb leb a c = true.
  Proof.
    revert b c; induction a as [|x a IH]; intros [|y b] [|z c]; simpl; auto; try discriminate.
    destruct (leb x y) eqn:Exy, (leb y x) eqn:Eyx, (leb y z) eqn:Eyz, (leb z y) eqn:Ezy;
      simpl; try discriminate; intros H1 H2.
    - (* x~y, y~z *)
      rewrite (trans x y z Exy Eyz), (trans z y x Ezy Eyx). simpl. eapply IH; eassumption.
    - (* x~y, y<z *)
      rewrite (trans x y z Exy Eyz).
      destruct (leb z x) eqn:Ezx; [|reflexivity].
      rewrite (trans z x y Ezx Exy) in Ezy. discriminate.
    - (* x<y, y~z *)
      rewrite (trans x y z Exy Eyz).
      destruct (leb z x) eqn:Ezx; [|reflexivity].
      rewrite (trans y z x Eyz Ezx) in Eyx. discriminate.
    - (* x<y, y<z *)
      rewrite (trans x y z Exy Eyz).
      destruct (leb z x) eqn:Ezx; [|reflexivity].
      rewrite (trans z x y Ezx Exy) in Ezy. discriminate.
  Qed.
End LexProofs.

Lemma str_leb_total a b : str_leb a b = true \/ str_leb b a = true.
Proof. apply lex_leb_total. exact Nleb_total. Qed.
Lemma str_leb_trans a b c : str_leb a b = true -> str_leb b c = true -> str_leb a c = true.
Proof. apply lex_leb_trans; first [exact Nleb_total|exact Nleb_trans]. Qed.

Lemma skey_leb_total a b : skey_leb a b = true \/ skey_leb b a = true.
Proof.
  destruct a, b; simpl; auto using q_leb_total, str_leb_total.
Qed.
Lemma skey_leb_trans a b c : skey_leb a b = true -> skey_leb b c = true -> skey_leb a c = true.
Proof.
  destruct a, b, c; simpl; try discriminate; auto; first [apply q_leb_trans|apply str_leb_trans].
Qed.

Lemma nx_leb_total a b : nx_leb a b = true \/ nx_leb b a = true.
Proof. destruct a, b; simpl; auto using q_leb_total. Qed.
Lemma nx_leb_trans a b c : nx_leb a b = true -> nx_leb b c = true -> nx_leb a c = true.
Proof. destruct a, b, c; simpl; try discriminate; auto. apply q_leb_trans. Qed.

Lemma pair_leb_total {K A} (leb : K -> K -> bool) :
  (forall a b, leb a b = true \/ leb b a = true) ->
  forall a b : K * A, pair_leb leb a b = true \/ pair_leb leb b a = true.
Proof. intros T a b. apply T. Qed.
Lemma pair_leb_trans {K A} (leb : K -> K -> bool) :
  (forall a b c, leb a b = true -> leb b c = true -> leb a c = true) ->
  forall a b c : K * A, pair_leb leb a b = true -> pair_leb leb b c = true -> pair_leb leb a c = true.
Proof. intros T a b c. apply T. Qed.

(** * 3. Sorting by a key that is a function of the item *)

Lemma mapM_ok_length {A B} (f : A -> res B) l r : mapM f l = Ok r -> length r = length l.
Proof.
  revert r; induction l as [|x l IH]; simpl; intros r H.
  - inversion H; reflexivity.
  - destruct (f x); try discriminate. simpl in H. destruct (mapM f l); try discriminate.
    inversion H; subst. simpl. f_equal. apply IH. reflexivity.
Qed.

Lemma mapM_ok_inv {A B} (f : A -> res B) x l r :
  mapM f (x :: l) = Ok r -> exists y ys, f x = Ok y /\ mapM f l = Ok ys /\ r = y :: ys.
Proof.
  simpl. destruct (f x) as [y| | |]; try discriminate. simpl.
  destruct (mapM f l) as [ys| | |]; try discriminate. simpl. intro H; inversion H.
  exists y, ys. auto.
Qed.

Lemma mapM_Ok_id {A} (l : list A) : mapM (fun x => Ok x) l = Ok l.
Proof. induction l as [|x l IH]; simpl; [reflexivity|]. rewrite IH. reflexivity. Qed.

Lemma mapM_pure {A B} (f : A -> B) (l : list A) : mapM (fun x => Ok (f x)) l = Ok (map f l).
Proof. induction l as [|x l IH]; simpl; [reflexivity|]. rewrite IH. reflexivity. Qed.

Lemma mapM_ext_in {A B} (f g : A -> res B) l :
  (forall x, In x l -> f x = g x) -> mapM f l = mapM g l.
Proof.
  induction l as [|x l IH]; simpl; intro H; [reflexivity|].
  rewrite (H x) by auto. rewrite IH by auto. reflexivity.
Qed.

Lemma all_some_length {A} (l : list (option A)) r : all_some l = Some r -> length r = length l.
Proof.
  revert r; induction l as [|[x|] l IH]; simpl; intros r H; try discriminate.
  - inversion H; reflexivity.
  - destruct (all_some l); try discriminate. inversion H; subst. simpl. f_equal. apply IH; reflexivity.
Qed.

Lemma map_snd_combine {A B} (a : list A) (b : list B) :
  length a = length b -> map snd (combine a b) = b.
Proof.
  revert b; induction a as [|x a IH]; intros [|y b]; simpl; intro H; try discriminate; [reflexivity|].
  f_equal. apply IH. lia.
Qed.

(** The sort key of an item under a key-value function [kv]. *)
Definition key_fn (kv : fval -> res fval) (x : fval) : skey :=
  match kv x with
  | Ok v => match skey_of v with Some s => s | None => KStr [] end
  | _ => KStr []
  end.

Lemma combine_keys kv xs ks sk :
  mapM kv xs = Ok ks -> all_some (map skey_of ks) = Some sk ->
  combine sk xs = map (fun x => (key_fn kv x, x)) xs.
Proof.
  revert ks sk; induction xs as [|x xs IH]; intros ks sk H1 H2.
  - simpl in H1. inversion H1; subst. simpl in H2. inversion H2; subst. reflexivity.
  - apply mapM_ok_inv in H1 as (y & ys & Hy & Hys & ->).
    simpl in H2. destruct (skey_of y) as [s|] eqn:Es; try discriminate.
    destruct (all_some (map skey_of ys)) as [ss|] eqn:Ess; try discriminate.
    inversion H2; subst. simpl. f_equal.
    + unfold key_fn. rewrite Hy, Es. reflexivity.
    + eapply IH; eassumption.
Qed.

(** [sorted(xs, key=kv)]: what [sort_key] / [sort_lambda] / [sort_nokey] compute. *)
Definition sort_with (kv : fval -> res fval) (xs : list fval) : res (list fval) :=
  do ks <- mapM kv xs;; py_sorted (combine ks xs).

Definition key_le (kv : fval -> res fval) (a b : fval) : Prop :=
  skey_leb (key_fn kv a) (key_fn kv b) = true.

Section KeyedSort.
  Context {K : Type} (kleb : K -> K -> bool).
  Hypothesis ktotal : forall a b, kleb a b = true \/ kleb b a = true.
  Hypothesis ktrans : forall a b c, kleb a b = true -> kleb b c = true -> kleb a c = true.
  Variable kf : fval -> K.

  (** Sorting the items paired with their keys: a permutation, ascending in
      the key, and for every key value [k0] the items whose key is equivalent
      to [k0] keep their relative order (stability). *)
  Lemma sorted_map_keyed_gen (l : list fval) :
    let pl := isort (pair_leb kleb) (map (fun x => (kf x, x)) l) in
    Permutation (map snd pl) l /\
    StronglySorted (fun a b => kleb (kf a) (kf b) = true) (map snd pl) /\
    (forall k0, filter (fun y => eqv kleb k0 (kf y)) (map snd pl)
                = filter (fun y => eqv kleb k0 (kf y)) l).
  Proof.
    intro pl.
    assert (P : Permutation pl (map (fun x => (kf x, x)) l)) by apply isort_perm.
    assert (F : Forall (fun p => fst p = kf (snd p)) pl).
    { eapply Permutation_Forall; [symmetry; exact P|].
      apply Forall_forall. intros p Hp. apply in_map_iff in Hp as (x & <- & _). reflexivity. }
    split; [|split].
    - rewrite P. rewrite map_map. simpl. rewrite map_id. reflexivity.
    - assert (S : StronglySorted (fun a b => pair_leb kleb a b = true) pl).
      { apply isort_sorted.
        - apply pair_leb_total, ktotal.
        - apply pair_leb_trans, ktrans. }
      clear P. induction S as [|p pl' S IH Hall]; simpl; [constructor|].
      inversion F as [|? ? Hp F']; subst.
      constructor; [apply IH; exact F'|].
      apply Forall_map. apply Forall_forall. intros q Hq.
      rewrite Forall_forall in Hall, F'. specialize (Hall q Hq). specialize (F' q Hq).
      unfold pair_leb in Hall. rewrite Hp, F' in Hall. exact Hall.
    - intro k0.
      pose proof (isort_stable (pair_leb kleb) (pair_leb_trans kleb ktrans)
                    (k0, FNil) (map (fun x => (kf x, x)) l)) as St.
      fold pl in St.
      assert (G : forall m : list (K * fval), Forall (fun p => fst p = kf (snd p)) m ->
                filter (fun y => eqv kleb k0 (kf y)) (map snd m)
                = map snd (filter (eqv (pair_leb kleb) (k0, FNil)) m)).
      { induction m as [|p m IHm]; simpl; intro Fm; [reflexivity|].
        inversion Fm as [|? ? Hp Fm']; subst.
        assert (E : eqv (pair_leb kleb) (k0, FNil) p = eqv kleb k0 (kf (snd p))).
        { unfold eqv, pair_leb. simpl. rewrite Hp. reflexivity. }
        rewrite E.
        destruct (eqv kleb k0 (kf (snd p))); simpl; rewrite IHm by exact Fm'; reflexivity. }
      rewrite G by exact F. rewrite St.
      rewrite <- G.
      + rewrite map_map. simpl. rewrite map_id. reflexivity.
      + apply Forall_forall. intros p Hp. apply in_map_iff in Hp as (y & <- & _). reflexivity.
  Qed.
End KeyedSort.

Lemma combine_mapM {K} (kr : fval -> res K) (d : K) xs ks :
  mapM kr xs = Ok ks ->
  combine ks xs = map (fun x => (match kr x with Ok k => k | _ => d end, x)) xs.
Proof.
  revert ks; induction xs as [|x xs IH]; intros ks H.
  - simpl in H. inversion H; reflexivity.
  - apply mapM_ok_inv in H as (y & ys & Hy & Hys & ->). simpl. rewrite Hy. f_equal. apply IH, Hys.
Qed.

Lemma py_sorted_ge2 kis :
  (2 <= length kis)%nat ->
  py_sorted kis = (do sk <- classify (map fst kis);;
                   Ok (map snd (isort (pair_leb skey_leb) (combine sk (map snd kis))))).
Proof. destruct kis as [|a [|b l]]; simpl; intro H; try lia; reflexivity. Qed.

Lemma py_sorted_lt2 kis : (length kis < 2)%nat -> py_sorted kis = Ok (map snd kis).
Proof. destruct kis as [|a [|b l]]; simpl; intro H; try lia; reflexivity. Qed.

Lemma map_fst_combine {A B} (a : list A) (b : list B) :
  length a = length b -> map fst (combine a b) = a.
Proof.
  revert b; induction a as [|x a IH]; intros [|y b]; simpl; intro H; try discriminate; [reflexivity|].
  f_equal. apply IH. lia.
Qed.

Lemma keys_all_some (kv : fval -> res fval) (xs ks : list fval) sk :
  mapM kv xs = Ok ks -> all_some (map skey_of ks) = Some sk ->
  Forall (fun x => exists v s, kv x = Ok v /\ skey_of v = Some s) xs.
Proof.
  revert ks sk; induction xs as [|x xs IH]; intros ks sk Hm Hs; [constructor|].
  apply mapM_ok_inv in Hm as (y & ys & Hy & Hys & ->). simpl in Hs.
  destruct (skey_of y) as [s|] eqn:Es; try discriminate.
  destruct (all_some (map skey_of ys)) as [ss|] eqn:Ess; try discriminate.
  constructor; [exists y, s; auto|]. eapply IH; eassumption.
Qed.

(** The specification of [sorted] with a key: a permutation; with two or more
    items every key is a number or every key is a string, the output is in
    ascending key order, and items with equivalent keys keep their order. *)
Theorem sort_with_spec kv xs ys :
  sort_with kv xs = Ok ys ->
  Permutation ys xs /\
  ((2 <= length xs)%nat ->
     Forall (fun x => exists v s, kv x = Ok v /\ skey_of v = Some s) xs /\
     StronglySorted (key_le kv) ys /\
     (forall k0, filter (fun y => eqv skey_leb k0 (key_fn kv y)) ys
                 = filter (fun y => eqv skey_leb k0 (key_fn kv y)) xs)).
Proof.
  unfold sort_with. destruct (mapM kv xs) as [ks| | |] eqn:Hm; try discriminate. simpl.
  pose proof (mapM_ok_length _ _ _ Hm) as Hl.
  assert (Hlc : length (combine ks xs) = length xs).
  { rewrite combine_length. lia. }
  destruct (Nat.lt_ge_cases (length xs) 2) as [Hlt|Hge].
  - rewrite py_sorted_lt2 by lia. rewrite map_snd_combine by exact Hl.
    intro H; inversion H; subst. split; [reflexivity|lia].
  - rewrite py_sorted_ge2 by lia.
    rewrite map_snd_combine by exact Hl. rewrite map_fst_combine by exact Hl.
    unfold classify.
    destruct (existsb is_flist ks); [discriminate|].
    destruct (all_some (map skey_of ks)) as [sk|] eqn:Hs; [|discriminate].
    destruct (forallb is_knum sk || forallb (fun k => negb (is_knum k)) sk); [|discriminate].
    simpl. intro H; inversion H; subst; clear H.
    rewrite (combine_keys kv xs ks sk Hm Hs).
    destruct (sorted_map_keyed_gen skey_leb skey_leb_total skey_leb_trans (key_fn kv) xs) as (P & S & St).
    split; [exact P|]. intros _. split; [|split].
    + eapply keys_all_some; eassumption.
    + exact S.
    + exact St.
Qed.

(** * 4. sort / sort_natural / sort_numeric *)

Lemma combine_diag {A} (l : list A) : combine l l = map (fun x => (x, x)) l.
Proof. induction l as [|x l IH]; simpl; [reflexivity|]. rewrite IH. reflexivity. Qed.

Lemma sort_nokey_eq left :
  sort_nokey left =
  (do ys <- type_error_to_liquid (sort_with (fun x => Ok x) (sequence_arg left));; Ok (FList ys)).
Proof. unfold sort_nokey, sort_with. rewrite mapM_Ok_id. simpl. rewrite combine_diag. reflexivity. Qed.

Definition prop_kv (k : str) (itm : fval) : res fval := getitem_d itm (FStr k) (FStr MAX_CH).
Definition lam_kv (f : fval -> option fval) (i : fval) : res fval := Ok (lambda_or_max f i).

Lemma sort_key_eq left k :
  k <> [] ->
  sort_key left (FStr k) = (do ys <- sort_with (prop_kv k) (sequence_arg left);; Ok (FList ys)).
Proof.
  intro Hk. unfold sort_key, sort_with. destruct k; [contradiction|]. simpl.
  destruct (mapM _ _); reflexivity.
Qed.

Lemma sort_lambda_eq left f :
  sort_lambda left f = (do ys <- sort_with (lam_kv f) (sequence_arg left);; Ok (FList ys)).
Proof.
  unfold sort_lambda, sort_with, lam_kv. rewrite mapM_pure. simpl.
  replace (combine (map (lambda_or_max f) (sequence_arg left)) (sequence_arg left))
    with (map (fun i => (lambda_or_max f i, i)) (sequence_arg left)); [reflexivity|].
  induction (sequence_arg left) as [|x l IH]; simpl; [reflexivity|]. rewrite IH. reflexivity.
Qed.

Lemma type_error_to_liquid_ok {A} (r : res A) a : type_error_to_liquid r = Ok a -> r = Ok a.
Proof. destruct r as [| | [] |]; simpl; intro H; try discriminate; exact H. Qed.

(** What [sort], in any of its three forms, guarantees when it returns. *)
Definition sort_post (kv : fval -> res fval) (xs ys : list fval) : Prop :=
  Permutation ys xs /\
  ((2 <= length xs)%nat ->
     Forall (fun x => exists v s, kv x = Ok v /\ skey_of v = Some s) xs /\
     StronglySorted (key_le kv) ys /\
     (forall k0, filter (fun y => eqv skey_leb k0 (key_fn kv y)) ys
                 = filter (fun y => eqv skey_leb k0 (key_fn kv y)) xs)).

Theorem sort_nokey_spec left ys :
  sort_nokey left = Ok (FList ys) -> sort_post (fun x => Ok x) (sequence_arg left) ys.
Proof.
  rewrite sort_nokey_eq.
  destruct (type_error_to_liquid _) as [zs| | |] eqn:E; try discriminate. simpl.
  intro H; inversion H; subst. apply type_error_to_liquid_ok in E. apply sort_with_spec, E.
Qed.

Theorem sort_key_spec left k ys :
  k <> [] -> sort_key left (FStr k) = Ok (FList ys) -> sort_post (prop_kv k) (sequence_arg left) ys.
Proof.
  intros Hk. rewrite sort_key_eq by exact Hk.
  destruct (sort_with _ _) as [zs| | |] eqn:E; try discriminate. simpl.
  intro H; inversion H; subst. apply sort_with_spec, E.
Qed.

Theorem sort_lambda_spec left f ys :
  sort_lambda left f = Ok (FList ys) -> sort_post (lam_kv f) (sequence_arg left) ys.
Proof.
  rewrite sort_lambda_eq.
  destruct (sort_with _ _) as [zs| | |] eqn:E; try discriminate. simpl.
  intro H; inversion H; subst. apply sort_with_spec, E.
Qed.

(** [sorted] either returns, or raises TypeError (or leaves the model: list keys). *)
Lemma py_sorted_outcomes kis :
  match py_sorted kis with
  | Ok _ | PyExc TypeError | PyExc OtherPyError => True
  | _ => False
  end.
Proof.
  destruct kis as [|a [|b l]]; [exact I|exact I|].
  unfold py_sorted. set (ks := map fst _). set (it := map snd _).
  unfold classify. destruct (existsb is_flist ks); [exact I|].
  destruct (all_some (map skey_of ks)) as [sk|]; [|exact I].
  destruct (forallb is_knum sk || forallb (fun k => negb (is_knum k)) sk); exact I.
Qed.

(** [sort] without a key fails with a Liquid error, never a Python one. *)
Lemma sort_nokey_errors left :
  match sort_nokey left with
  | Ok _ | LErr LiquidTypeError _ => True
  | PyExc k => k = OtherPyError     (* list-valued elements: outside the model *)
  | _ => False
  end.
Proof.
  unfold sort_nokey.
  pose proof (py_sorted_outcomes (map (fun x => (x, x)) (sequence_arg left))) as H.
  destruct (py_sorted _) as [ys|c p|[]|]; simpl in *; auto; contradiction.
Qed.

(** Items without the property go last, in their input order: every key is
    either equivalent to MAX_CH (a missing property) or strictly below it. *)
Definition top (kv : fval -> res fval) (y : fval) : bool :=
  eqv skey_leb (KStr MAX_CH) (key_fn kv y).
Definition below_top (kv : fval -> res fval) (y : fval) : bool :=
  negb (skey_leb (KStr MAX_CH) (key_fn kv y)).

Lemma filter_all_true {A} (p : A -> bool) l :
  Forall (fun b => p b = true) l -> filter p l = l.
Proof.
  induction 1 as [|b l Hb Hl IH]; simpl; [reflexivity|]. rewrite Hb, IH. reflexivity.
Qed.

Lemma filter_all_false {A} (p : A -> bool) l :
  Forall (fun b => p b = true) l -> filter (fun y => negb (p y)) l = [].
Proof.
  induction 1 as [|b l Hb Hl IH]; simpl; [reflexivity|]. rewrite Hb. simpl. exact IH.
Qed.

Lemma sorted_split_top kv l :
  StronglySorted (key_le kv) l ->
  Forall (fun x => top kv x = true \/ below_top kv x = true) l ->
  l = filter (fun y => negb (top kv y)) l ++ filter (top kv) l.
Proof.
  induction 1 as [|a l S IH Hall]; intro G; [reflexivity|].
  inversion G as [|? ? Ga G']; subst. simpl.
  destruct (top kv a) eqn:Ta; simpl.
  - (* everything after a top element is top *)
    assert (All : Forall (fun b => top kv b = true) l).
    { rewrite Forall_forall in *. intros b Hb. destruct (G' b Hb) as [T|B]; [exact T|].
      exfalso. specialize (Hall b Hb). unfold key_le in Hall.
      unfold top, eqv in Ta. apply andb_true_iff in Ta as [T1 T2].
      unfold below_top in B. apply negb_true_iff in B.
      rewrite (skey_leb_trans _ _ _ T1 Hall) in B. discriminate. }
    rewrite (filter_all_false _ _ All), (filter_all_true _ _ All).
    reflexivity.
  - f_equal. apply IH. exact G'.
Qed.

Theorem sort_key_missing_last left k ys :
  k <> [] -> sort_key left (FStr k) = Ok (FList ys) ->
  let kv := prop_kv k in
  let xs := sequence_arg left in
  Forall (fun x => top kv x = true \/ below_top kv x = true) xs ->
  ys = filter (fun y => negb (top kv y)) ys ++ filter (top kv) xs.
Proof.
  intros Hk H kv xs G.
  destruct (sort_key_spec left k ys Hk H) as (P & Rest). fold xs kv in P, Rest.
  destruct (Nat.lt_ge_cases (length xs) 2) as [Hlt|Hge].
  - (* zero or one item *)
    destruct xs as [|x [|x' xs']]; simpl in Hlt; try lia.
    + symmetry in P. apply Permutation_nil in P. subst. reflexivity.
    + symmetry in P. apply Permutation_length_1_inv in P. subst ys. simpl.
      destruct (top kv x); reflexivity.
  - destruct (Rest Hge) as (_ & S & St).
    assert (G' : Forall (fun x => top kv x = true \/ below_top kv x = true) ys).
    { eapply Permutation_Forall; [symmetry; exact P|exact G]. }
    rewrite (sorted_split_top kv ys S G') at 1. f_equal.
    apply (St (KStr MAX_CH)).
Qed.

(** A hash without the property is "top"; a hash whose property is a string
    that starts below U+10FFFF is below it. *)
Lemma top_missing k d : assoc k d = None -> top (prop_kv k) (FDict d) = true.
Proof.
  intro H. unfold top, key_fn, prop_kv, getitem_d. simpl. rewrite H. simpl. reflexivity.
Qed.

Lemma below_top_string k d c s :
  assoc k d = Some (FStr (c :: s)) -> (c < 1114111)%N -> below_top (prop_kv k) (FDict d) = true.
Proof.
  intros H Hc. unfold below_top, key_fn, prop_kv, getitem_d. simpl. rewrite H. simpl.
  unfold str_leb. simpl.
  destruct (N.leb 1114111 c) eqn:E; [apply N.leb_le in E; lia|]. simpl. reflexivity.
Qed.

(** sort_natural and sort_numeric: keys are strings / tuples of numbers, so
    the comparison never fails. *)
Section OtherSorts.
  Context {K : Type} (kleb : K -> K -> bool) (dflt : K).
  Hypothesis ktotal : forall a b, kleb a b = true \/ kleb b a = true.
  Hypothesis ktrans : forall a b c, kleb a b = true -> kleb b c = true -> kleb a c = true.

  Definition kfn (kr : fval -> res K) (x : fval) : K := match kr x with Ok k => k | _ => dflt end.

  Lemma sort_by_spec (kr : fval -> res K) xs ks :
    mapM kr xs = Ok ks ->
    let ys := map snd (isort (pair_leb kleb) (combine ks xs)) in
    Permutation ys xs /\
    StronglySorted (fun a b => kleb (kfn kr a) (kfn kr b) = true) ys /\
    (forall k0, filter (fun y => eqv kleb k0 (kfn kr y)) ys = filter (fun y => eqv kleb k0 (kfn kr y)) xs).
  Proof.
    intros Hm ys. unfold ys. rewrite (combine_mapM kr dflt xs ks Hm).
    apply (sorted_map_keyed_gen kleb ktotal ktrans (kfn kr) xs).
  Qed.
End OtherSorts.

Definition natural_post (kr : fval -> res str) (xs ys : list fval) : Prop :=
  Permutation ys xs /\
  StronglySorted (fun a b => str_leb (kfn [] kr a) (kfn [] kr b) = true) ys /\
  (forall k0, filter (fun y => eqv str_leb k0 (kfn [] kr y)) ys
              = filter (fun y => eqv str_leb k0 (kfn [] kr y)) xs).

Theorem sort_natural_nokey_spec left ys :
  sort_natural_nokey left = Ok (FList ys) -> natural_post lower_key (sequence_arg left) ys.
Proof.
  unfold sort_natural_nokey. destruct (mapM lower_key _) as [ks| | |] eqn:Hm; try discriminate.
  simpl. intro H; inversion H; subst.
  apply (sort_by_spec str_leb [] str_leb_total str_leb_trans lower_key _ _ Hm).
Qed.

Definition natural_prop_kr (k : str) (itm : fval) : res str :=
  do v <- getitem_d itm (FStr k) (FStr MAX_CH);; lower_key v.

Theorem sort_natural_key_spec left k ys :
  k <> [] -> sort_natural_key left (FStr k) = Ok (FList ys) ->
  natural_post (natural_prop_kr k) (sequence_arg left) ys.
Proof.
  intro Hk. unfold sort_natural_key. destruct k; [contradiction|]. simpl.
  fold (natural_prop_kr (n :: k)).
  destruct (mapM (natural_prop_kr (n :: k)) _) as [ks| | |] eqn:Hm; try discriminate.
  simpl. intro H; inversion H; subst.
  apply (sort_by_spec str_leb [] str_leb_total str_leb_trans _ _ _ Hm).
Qed.

Definition numeric_post (kr : fval -> res (list nx)) (xs ys : list fval) : Prop :=
  Permutation ys xs /\
  StronglySorted (fun a b => lex_leb nx_leb (kfn [] kr a) (kfn [] kr b) = true) ys /\
  (forall k0, filter (fun y => eqv (lex_leb nx_leb) k0 (kfn [] kr y)) ys
              = filter (fun y => eqv (lex_leb nx_leb) k0 (kfn [] kr y)) xs).

Lemma nxl_total a b : lex_leb nx_leb a b = true \/ lex_leb nx_leb b a = true.
Proof. apply lex_leb_total, nx_leb_total. Qed.
Lemma nxl_trans a b c :
  lex_leb nx_leb a b = true -> lex_leb nx_leb b c = true -> lex_leb nx_leb a c = true.
Proof. apply lex_leb_trans, nx_leb_trans. Qed.

Theorem sort_numeric_nokey_spec left ys :
  sort_numeric_nokey left = Ok (FList ys) -> numeric_post ints_key (sequence_arg left) ys.
Proof.
  unfold sort_numeric_nokey. destruct (mapM ints_key _) as [ks| | |] eqn:Hm; try discriminate.
  simpl. intro H; inversion H; subst.
  apply (sort_by_spec (lex_leb nx_leb) [] nxl_total nxl_trans ints_key _ _ Hm).
Qed.

Definition numeric_prop_kr (k : str) (itm : fval) : res (list nx) :=
  do v <- getitem_numeric itm (FStr k);; ints_key v.

Theorem sort_numeric_key_spec left k ys :
  k <> [] -> sort_numeric_key left (FStr k) = Ok (FList ys) ->
  numeric_post (numeric_prop_kr k) (sequence_arg left) ys.
Proof.
  intro Hk. unfold sort_numeric_key. destruct k; [contradiction|]. simpl.
  fold (numeric_prop_kr (n :: k)).
  destruct (mapM (numeric_prop_kr (n :: k)) _) as [ks| | |] eqn:Hm; try discriminate.
  simpl. intro H; inversion H; subst.
  apply (sort_by_spec (lex_leb nx_leb) [] nxl_total nxl_trans _ _ _ Hm).
Qed.

(** * 5. reverse *)

Theorem reverse_spec left :
  exists ys, reverse_f left = Ok (FList ys) /\ ys = rev (sequence_arg left) /\
             Permutation ys (sequence_arg left) /\ rev ys = sequence_arg left.
Proof.
  eexists. split; [reflexivity|]. split; [reflexivity|]. split.
  - symmetry. apply Permutation_rev.
  - apply rev_involutive.
Qed.

(** Flat arrays (no array elements) are what [sequence_arg] returns unchanged. *)
Definition flat_list (l : list fval) : Prop := Forall (fun x => is_flist x = false) l.

Lemma flatten_flat n l : flat_list l -> flatten n l = l.
Proof.
  destruct n as [|n]; [reflexivity|]. simpl. induction 1 as [|x l Hx Hl IH]; simpl; [reflexivity|].
  rewrite IH. destruct x; simpl in Hx; try discriminate; reflexivity.
Qed.

Lemma sequence_arg_flat l : flat_list l -> sequence_arg (FList l) = l.
Proof. apply flatten_flat. Qed.

Lemma flat_list_rev l : flat_list l -> flat_list (rev l).
Proof. unfold flat_list. intro H. apply Forall_rev. exact H. Qed.

Theorem reverse_involutive l :
  flat_list l -> reverse_f (FList (rev l)) = Ok (FList l).
Proof.
  intro F. unfold reverse_f. rewrite sequence_arg_flat by (apply flat_list_rev; exact F).
  rewrite rev_involutive. reflexivity.
Qed.

(** * 6. where / reject partition the input *)

Inductive interleaves {A} : list A -> list A -> list A -> Prop :=
| il_nil : interleaves [] [] []
| il_left x a b c : interleaves a b c -> interleaves (x :: a) b (x :: c)
| il_right x a b c : interleaves a b c -> interleaves a (x :: b) (x :: c).

Lemma interleaves_perm {A} (a b c : list A) : interleaves a b c -> Permutation (a ++ b) c.
Proof.
  induction 1; simpl; [constructor|constructor; assumption|].
  rewrite <- IHinterleaves. symmetry. apply Permutation_middle.
Qed.

Lemma interleaves_length {A} (a b c : list A) :
  interleaves a b c -> (length a + length b = length c)%nat.
Proof. induction 1; simpl; lia. Qed.

Lemma interleaves_filter {A} (p : A -> bool) l :
  interleaves (filter p l) (filter (fun x => negb (p x)) l) l.
Proof.
  induction l as [|x l IH]; simpl; [constructor|].
  destruct (p x); simpl; constructor; exact IH.
Qed.

(** [filterM] with a test that may raise: it returns iff the test returns on
    every item, and then it is [filter]. *)
Lemma filterM_ok {A} (p : A -> res bool) l ys :
  filterM p l = Ok ys ->
  exists b : A -> bool, (forall x, In x l -> p x = Ok (b x)) /\ ys = filter b l.
Proof.
  revert ys; induction l as [|x l IH]; simpl; intros ys H.
  - inversion H. exists (fun _ => true). split; [intros ? []|reflexivity].
  - destruct (p x) as [bx| | |] eqn:Ex; try discriminate. simpl in H.
    destruct (filterM p l) as [zs| | |] eqn:El; try discriminate. simpl in H. inversion H; subst.
    destruct (IH zs eq_refl) as (b & Hb & ->).
    exists (fun y => match p y with Ok v => v | _ => false end). split.
    + intros y [->|Hy]; [rewrite Ex; reflexivity|]. rewrite (Hb y Hy). reflexivity.
    + simpl. rewrite Ex. destruct bx; [f_equal|]; apply filter_ext_in; intros y Hy;
        rewrite (Hb y Hy); reflexivity.
Qed.

Lemma filterM_of_bool {A} (p : A -> res bool) (b : A -> bool) l :
  (forall x, In x l -> p x = Ok (b x)) -> filterM p l = Ok (filter b l).
Proof.
  induction l as [|x l IH]; simpl; intro H; [reflexivity|].
  rewrite (H x) by auto. simpl. rewrite IH by auto. simpl. reflexivity.
Qed.

Lemma filterM_neg_same_error {A} (p : A -> res bool) l :
  is_ok (filterM p l) = is_ok (filterM (fun i => do b <- p i;; Ok (negb b)) l).
Proof.
  induction l as [|x l IH]; simpl; [reflexivity|].
  destruct (p x); simpl; try reflexivity.
  destruct (filterM p l), (filterM _ l); simpl in *; try reflexivity; discriminate.
Qed.

(** The partition law, string-property forms: when [where] returns, [reject]
    returns, and the two results interleave to the (coerced) input. *)
Theorem where_reject_partition left key value ys :
  where_key left key value = Ok (FList ys) ->
  exists zs, reject_key left key value = Ok (FList zs) /\
             interleaves ys zs (sequence_arg left) /\
             Permutation (ys ++ zs) (sequence_arg left) /\
             (length ys + length zs = length (sequence_arg left))%nat.
Proof.
  unfold where_key, reject_key. set (xs := sequence_arg left).
  destruct (filterM _ xs) as [ws| | |] eqn:E; try discriminate. simpl.
  intro H; inversion H; subst ws.
  destruct (filterM_ok _ _ _ E) as (b & Hb & ->).
  exists (filter (fun x => negb (b x)) xs).
  assert (IL := interleaves_filter b xs).
  split; [|split; [exact IL|split; [apply interleaves_perm, IL|apply interleaves_length, IL]]].
  rewrite (filterM_of_bool _ (fun x => negb (b x))); [reflexivity|].
  intros x Hx. rewrite (Hb x Hx). reflexivity.
Qed.

Theorem where_reject_same_errors left key value :
  is_ok (where_key left key value) = is_ok (reject_key left key value).
Proof.
  unfold where_key, reject_key.
  pose proof (filterM_neg_same_error (key_test getitem_nil key value) (sequence_arg left)) as H.
  destruct (filterM _ _), (filterM _ _); simpl in *; try reflexivity; discriminate.
Qed.

(** Lambda forms. *)
Theorem where_reject_lambda_partition left f :
  exists ys zs, where_lambda left f = Ok (FList ys) /\ reject_lambda left f = Ok (FList zs) /\
                interleaves ys zs (sequence_arg left).
Proof.
  eexists. eexists. split; [reflexivity|]. split; [reflexivity|]. apply interleaves_filter.
Qed.

(** What [where] selects: exactly the items whose property passes the test,
    in input order. *)
Theorem where_key_selects left key value ys :
  where_key left key value = Ok (FList ys) ->
  forall x, In x ys <-> In x (sequence_arg left) /\ key_test getitem_nil key value x = Ok true.
Proof.
  unfold where_key. destruct (filterM _ _) as [ws| | |] eqn:E; try discriminate. simpl.
  intro H; inversion H; subst ws. destruct (filterM_ok _ _ _ E) as (b & Hb & ->).
  intro x. rewrite filter_In. split.
  - intros [Hx Hbx]. split; [exact Hx|]. rewrite (Hb x Hx), Hbx. reflexivity.
  - intros [Hx Ht]. split; [exact Hx|]. rewrite (Hb x Hx) in Ht. inversion Ht. reflexivity.
Qed.

(** * 7. find / find_index / has *)

Lemma find_first_spec {A} (p : A -> res bool) l i0 :
  match find_first p l i0 with
  | Ok (Some (i, x)) =>
      i0 <= i /\ nth_error l (Z.to_nat (i - i0)) = Some x /\ p x = Ok true /\
      Forall (fun y => p y = Ok false) (firstn (Z.to_nat (i - i0)) l)
  | Ok None => Forall (fun y => p y = Ok false) l
  | _ => True
  end.
Proof.
  revert i0; induction l as [|x l IH]; intro i0; simpl; [constructor|].
  destruct (p x) as [[|]| | |] eqn:Ex; simpl; auto.
  - replace (i0 - i0) with 0 by lia. simpl. repeat split; auto; lia.
  - specialize (IH (i0 + 1)). destruct (find_first p l (i0 + 1)) as [[[i y]|]| | |]; auto.
    destruct IH as (Hi & Hn & Hp & Hf).
    replace (Z.to_nat (i - i0)) with (S (Z.to_nat (i - (i0 + 1)))) by lia. simpl.
    repeat split; auto; try lia.
Qed.

(** The three filters are three views of one search. *)
Theorem find_family left key value :
  let xs := sequence_arg left in
  let test := key_test getitem_find key value in
  match find_first test xs 0 with
  | Ok (Some (i, x)) =>
      find_key left key value = Ok x /\ find_index_key left key value = Ok (FInt i) /\
      has_key left key value = Ok (FBool true) /\
      0 <= i /\ nth_error xs (Z.to_nat i) = Some x /\ test x = Ok true /\
      Forall (fun y => test y = Ok false) (firstn (Z.to_nat i) xs)
  | Ok None =>
      find_key left key value = Ok FNil /\ find_index_key left key value = Ok FNil /\
      has_key left key value = Ok (FBool false) /\ Forall (fun y => test y = Ok false) xs
  | LErr c p => find_key left key value = LErr c p /\ find_index_key left key value = LErr c p /\
                has_key left key value = LErr c p
  | PyExc k => find_key left key value = PyExc k /\ find_index_key left key value = PyExc k /\
               has_key left key value = PyExc k
  | OutOfFuel => True
  end.
Proof.
  intros xs test. unfold find_key, find_index_key, has_key. fold xs test.
  pose proof (find_first_spec test xs 0) as H.
  destruct (find_first test xs 0) as [[[i x]|]| | |] eqn:E; simpl; auto.
  - replace (i - 0) with i in H by lia. destruct H as (H0 & H1 & H2 & H3). auto 10.
Qed.

(** [find] is the head of [where] on arrays of hashes (on other items the
    two use different item getters: [find] never raises and matches
    substrings of string items). *)
Definition is_hash (v : fval) : bool := match v with FDict _ => true | _ => false end.

Lemma key_test_hash k value x :
  is_hash x = true ->
  key_test getitem_find (FStr k) value x = key_test getitem_nil (FStr k) value x.
Proof.
  destruct x; try discriminate. intros _.
  unfold key_test, getitem_find, getitem_nil, getitem_d. simpl. destruct (assoc k kvs); reflexivity.
Qed.

Fixpoint find_idx {A} (b : A -> bool) (l : list A) (i : Z) : option (Z * A) :=
  match l with
  | [] => None
  | x :: r => if b x then Some (i, x) else find_idx b r (i + 1)
  end.

Lemma find_first_of_bool {A} (p : A -> res bool) (b : A -> bool) l i :
  (forall x, In x l -> p x = Ok (b x)) -> find_first p l i = Ok (find_idx b l i).
Proof.
  revert i; induction l as [|x l IH]; intros i H; simpl; [reflexivity|].
  rewrite (H x) by (left; reflexivity). simpl. destruct (b x); [reflexivity|]. apply IH.
  intros y Hy. apply H. right. exact Hy.
Qed.

Lemma find_idx_hd {A} (b : A -> bool) l i d :
  match find_idx b l i with Some (_, x) => x | None => d end = hd d (filter b l).
Proof.
  revert i; induction l as [|x l IH]; intro i; simpl; [reflexivity|].
  destruct (b x); simpl; [reflexivity|apply IH].
Qed.

Lemma find_idx_none {A} (b : A -> bool) l i : find_idx b l i = None <-> filter b l = [].
Proof.
  revert i; induction l as [|x l IH]; intro i; simpl; [tauto|].
  destruct (b x); [split; discriminate|apply IH].
Qed.

Theorem find_is_head_of_where left k value ys :
  forallb is_hash (sequence_arg left) = true ->
  where_key left (FStr k) value = Ok (FList ys) ->
  find_key left (FStr k) value = Ok (hd FNil ys) /\
  has_key left (FStr k) value = Ok (FBool (negb (match ys with [] => true | _ => false end))) /\
  (find_index_key left (FStr k) value = Ok FNil <-> ys = []).
Proof.
  intros Hh. unfold where_key, find_key, has_key, find_index_key. set (xs := sequence_arg left) in *.
  destruct (filterM _ xs) as [ws| | |] eqn:E; try discriminate. simpl.
  intro H; inversion H; subst ws. destruct (filterM_ok _ _ _ E) as (b & Hb & ->).
  rewrite (find_first_of_bool _ b).
  2:{ intros x Hx. rewrite key_test_hash; [apply Hb, Hx|].
      rewrite forallb_forall in Hh. apply Hh, Hx. }
  simpl. split; [|split].
  - f_equal. apply find_idx_hd.
  - f_equal. f_equal. pose proof (find_idx_none b xs 0) as N.
    destruct (find_idx b xs 0) as [[i x]|], (filter b xs); simpl; try reflexivity.
    + destruct N as [_ N]. discriminate (N eq_refl).
    + destruct N as [N _]. discriminate (N eq_refl).
  - pose proof (find_idx_none b xs 0) as N.
    destruct (find_idx b xs 0) as [[i x]|]; split; intro X; try discriminate.
    + apply N in X. discriminate.
    + apply N. reflexivity.
    + reflexivity.
Qed.

(** * 8. The string-property form equals the lambda form *)

Definition not_size (k : str) : Prop := str_eqb k Lit.size = false.

Lemma getitem_path_agree obj k d v :
  not_size k -> getitem_d obj (FStr k) d = Ok v ->
  v = match path_get obj k with Some u => u | None => d end.
Proof.
  unfold not_size, getitem_d. intros Hk.
  destruct obj; simpl; try discriminate; rewrite ?Hk.
  - intro H; inversion H; reflexivity.
  - intro H; inversion H; reflexivity.
  - destruct (assoc k kvs); simpl; rewrite ?Hk; intro H; inversion H; reflexivity.
Qed.

(** [i => i.k == v]  and  [i => i.k] *)
Definition lam_eq (k : str) (v : fval) (i : fval) : option fval :=
  Some (FBool (liq_eq (match path_get i k with Some u => u | None => FNil end) v)).
Definition lam_prop (k : str) (i : fval) : option fval := path_get i k.
(** The lambda that corresponds to [f: 'k', v] ([v] nil = no target value). *)
Definition lam_of (k : str) (v : fval) : fval -> option fval :=
  match v with FNil => lam_prop k | _ => lam_eq k v end.

Lemma key_test_lambda k value x b :
  not_size k -> key_test getitem_nil (FStr k) value x = Ok b -> lambda_test (lam_of k value) x = b.
Proof.
  intros Hk. unfold key_test, getitem_nil.
  destruct (getitem_d x (FStr k) FNil) as [v| | |] eqn:G; try discriminate. simpl.
  apply (getitem_path_agree _ _ _ _ Hk) in G. intro H; inversion H; subst b; clear H.
  unfold lambda_test, lam_of, lam_eq, lam_prop. subst v.
  destruct value; simpl;
    try (match goal with |- (if ?c then true else false) = _ => destruct c; reflexivity end).
  destruct (path_get x k); reflexivity.
Qed.

Theorem where_key_lambda_agree left k value r :
  not_size k -> where_key left (FStr k) value = Ok r -> where_lambda left (lam_of k value) = Ok r.
Proof.
  intros Hk. unfold where_key, where_lambda.
  destruct (filterM _ _) as [ws| | |] eqn:E; try discriminate. simpl. intro H; inversion H; subst r.
  destruct (filterM_ok _ _ _ E) as (b & Hb & ->). do 2 f_equal.
  apply filter_ext_in. intros x Hx. apply key_test_lambda; auto.
Qed.

Theorem reject_key_lambda_agree left k value r :
  not_size k -> reject_key left (FStr k) value = Ok r -> reject_lambda left (lam_of k value) = Ok r.
Proof.
  intros Hk. unfold reject_key, reject_lambda.
  destruct (filterM _ _) as [ws| | |] eqn:E; try discriminate. simpl. intro H; inversion H; subst r.
  destruct (filterM_ok _ _ _ E) as (b & Hb & ->). do 2 f_equal.
  apply filter_ext_in. intros x Hx. specialize (Hb x Hx). simpl in Hb.
  destruct (key_test getitem_nil (FStr k) value x) as [bx| | |] eqn:T; try discriminate.
  simpl in Hb. inversion Hb. rewrite (key_test_lambda _ _ _ _ Hk T). reflexivity.
Qed.

Lemma find_first_lambda_agree left k value :
  not_size k -> forallb is_hash (sequence_arg left) = true ->
  forall r, find_first (key_test getitem_find (FStr k) value) (sequence_arg left) 0 = Ok r ->
  find_first (lam_res (lam_of k value)) (sequence_arg left) 0 = Ok r.
Proof.
  intros Hk Hh. generalize 0. induction (sequence_arg left) as [|x xs IH]; intros z r; simpl; auto.
  simpl in Hh. apply andb_true_iff in Hh as [Hx Hxs].
  rewrite key_test_hash by exact Hx.
  destruct (key_test getitem_nil (FStr k) value x) as [b| | |] eqn:T; try discriminate. simpl.
  unfold lam_res at 1. simpl. rewrite (key_test_lambda _ _ _ _ Hk T).
  destruct b; [auto|]. apply IH. exact Hxs.
Qed.

Theorem find_key_lambda_agree left k value :
  not_size k -> forallb is_hash (sequence_arg left) = true ->
  (forall r, find_key left (FStr k) value = Ok r -> find_lambda left (lam_of k value) = Ok r) /\
  (forall r, find_index_key left (FStr k) value = Ok r -> find_index_lambda left (lam_of k value) = Ok r) /\
  (forall r, has_key left (FStr k) value = Ok r -> has_lambda left (lam_of k value) = Ok r).
Proof.
  intros Hk Hh. pose proof (find_first_lambda_agree left k value Hk Hh) as A.
  unfold find_key, find_index_key, has_key, find_lambda, find_index_lambda, has_lambda.
  destruct (find_first (key_test _ _ _) _ 0) as [fr| | |]; simpl;
    [rewrite (A fr eq_refl); simpl; auto|..]; repeat split; intros; discriminate.
Qed.

Theorem map_key_lambda_agree left k r :
  not_size k -> map_key left (FStr k) = Ok r -> map_lambda left (lam_prop k) = Ok r.
Proof.
  intros Hk. unfold map_key, map_lambda. simpl.
  destruct (type_error_to_liquid _) as [ys| | |] eqn:E; try discriminate. simpl.
  intro H; inversion H; subst r; clear H. apply type_error_to_liquid_ok in E. do 2 f_equal.
  revert ys E. induction (sequence_arg left) as [|x xs IH]; intros ys E.
  - simpl in E. inversion E. reflexivity.
  - apply mapM_ok_inv in E as (y & ys' & Hy & Hys & ->). simpl. f_equal; [|apply IH, Hys].
    apply (getitem_path_agree _ _ _ _ Hk) in Hy. unfold lam_prop. exact (eq_sym Hy).
Qed.

Lemma mapM_ok_ext {A B} (f g : A -> res B) l r :
  mapM f l = Ok r -> (forall x y, In x l -> f x = Ok y -> g x = Ok y) -> mapM g l = Ok r.
Proof.
  revert r; induction l as [|x l IH]; intros r H E; [exact H|].
  apply mapM_ok_inv in H as (y & ys & Hy & Hys & ->). simpl.
  rewrite (E x y) by (auto; left; reflexivity). simpl.
  rewrite (IH ys); [reflexivity|exact Hys|].
  intros x0 y0 Hx0. apply E. right. exact Hx0.
Qed.

Theorem sort_key_lambda_agree left k r :
  k <> [] -> not_size k -> sort_key left (FStr k) = Ok r -> sort_lambda left (lam_prop k) = Ok r.
Proof.
  intros Hne Hk. rewrite sort_key_eq by exact Hne. rewrite sort_lambda_eq. unfold sort_with.
  destruct (mapM (prop_kv k) _) as [ks| | |] eqn:E; try discriminate. simpl.
  rewrite (mapM_ok_ext _ (lam_kv (lam_prop k)) _ _ E); [simpl; auto|].
  intros x y _ Hy. unfold prop_kv in Hy. apply (getitem_path_agree _ _ _ _ Hk) in Hy.
  unfold lam_kv, lambda_or_max, lam_prop. subst y. reflexivity.
Qed.

Theorem sort_natural_key_lambda_agree left k r :
  k <> [] -> not_size k ->
  sort_natural_key left (FStr k) = Ok r -> sort_natural_lambda left (lam_prop k) = Ok r.
Proof.
  intros Hne Hk. unfold sort_natural_key, sort_natural_lambda. destruct k; [contradiction|]. simpl.
  set (kk := n :: k) in *.
  destruct (mapM _ _) as [ks| | |] eqn:E; try discriminate. simpl. intro H.
  rewrite (mapM_ok_ext _ _ _ _ E); [exact H|].
  intros x y _ Hy. destruct (getitem_d x (FStr kk) (FStr MAX_CH)) as [v| | |] eqn:G; try discriminate.
  simpl in Hy. apply (getitem_path_agree _ _ _ _ Hk) in G. unfold lam_prop.
  destruct (path_get x kk); subst v; [exact Hy|].
  unfold lower_key in Hy. simpl in Hy. inversion Hy. reflexivity.
Qed.

Lemma getitem_numeric_path obj k v :
  not_size k -> getitem_numeric obj (FStr k) = Ok v ->
  v = match path_get obj k with Some u => u | None => FNil end.
Proof.
  unfold not_size, getitem_numeric. intro Hk.
  destruct obj; simpl; rewrite ?Hk; try (intro H; inversion H; reflexivity).
  destruct (assoc k kvs); simpl; rewrite ?Hk; intro H; inversion H; reflexivity.
Qed.

Theorem sort_numeric_key_lambda_agree left k r :
  k <> [] -> not_size k ->
  sort_numeric_key left (FStr k) = Ok r -> sort_numeric_lambda left (lam_prop k) = Ok r.
Proof.
  intros Hne Hk. unfold sort_numeric_key, sort_numeric_lambda. destruct k; [contradiction|]. simpl.
  set (kk := n :: k) in *.
  destruct (mapM _ _) as [ks| | |] eqn:E; try discriminate. simpl. intro H.
  rewrite (mapM_ok_ext _ _ _ _ E); [exact H|].
  intros x y _ Hy. destruct (getitem_numeric x (FStr kk)) as [v| | |] eqn:G; try discriminate.
  simpl in Hy. apply (getitem_numeric_path _ _ _ Hk) in G. unfold lambda_or_max, lam_prop.
  destruct (path_get x kk); subst v; [exact Hy|].
  (* a missing property: str(None) and MAX_CH both hold no digits *)
  vm_compute in Hy. inversion Hy. reflexivity.
Qed.

Theorem uniq_key_lambda_agree left k r :
  not_size k -> uniq_key left (FStr k) = Ok r -> uniq_lambda left (lam_prop k) = Ok r.
Proof.
  intros Hk. unfold uniq_key, uniq_lambda.
  destruct (mapM _ _) as [ks| | |] eqn:E; try discriminate. simpl. intro H; inversion H; subst r; clear H.
  do 3 f_equal. revert ks E. induction (sequence_arg left) as [|x xs IH]; intros ks E.
  - simpl in E. inversion E. reflexivity.
  - apply mapM_ok_inv in E as (y & ys & Hy & Hys & ->). simpl. f_equal; [|apply IH, Hys].
    unfold uniq_item_key in Hy. unfold not_size in Hk. unfold lam_prop.
    destruct x; simpl in Hy; try discriminate.
    destruct (assoc k kvs) eqn:A; simpl in *; rewrite ?A, ?Hk; inversion Hy; reflexivity.
Qed.

Theorem compact_key_lambda_agree left k r :
  not_size k -> compact_key left (FStr k) = Ok r -> compact_lambda left (lam_prop k) = Ok r.
Proof.
  intros Hk. unfold compact_key, compact_lambda.
  destruct (filterM _ _) as [ws| | |] eqn:E; try discriminate. simpl. intro H; inversion H; subst r.
  destruct (filterM_ok _ _ _ E) as (b & Hb & ->). do 2 f_equal.
  apply filter_ext_in. intros x Hx. specialize (Hb x Hx).
  unfold compact_item_key in Hb. unfold not_size in Hk. unfold lam_prop.
  destruct x; simpl in Hb; try discriminate.
  destruct (assoc k kvs) eqn:A; simpl in *; rewrite ?A, ?Hk; inversion Hb; reflexivity.
Qed.

(** * 9. uniq *)

Section Uniq.
  Context {A : Type} (eqb : A -> A -> bool).

  (** An element is kept exactly when nothing before it (in [prev] or in the
      list) is equal to it: the first occurrences, in order. *)
  Lemma uniq_by_app prev l1 x l2 :
    uniq_by eqb prev (l1 ++ x :: l2) =
    uniq_by eqb prev l1
    ++ (if existsb (fun y => eqb y x) (prev ++ l1) then [] else [x])
    ++ uniq_by eqb (prev ++ l1 ++ [x]) l2.
  Proof.
    revert prev; induction l1 as [|a l1 IH]; intro prev; simpl.
    - rewrite app_nil_r. destruct (existsb _ prev); reflexivity.
    - rewrite IH. rewrite <- !app_assoc. simpl.
      destruct (existsb (fun y => eqb y a) prev); reflexivity.
  Qed.

  (** No kept element has an equal element before it in the output. *)
  Lemma uniq_by_no_earlier prev l :
    forall pre x post, uniq_by eqb prev l = pre ++ x :: post ->
    existsb (fun y => eqb y x) (prev ++ pre) = false.
  Proof.
    revert prev; induction l as [|a l IH]; intros prev pre x post H; simpl in H.
    - destruct pre; discriminate.
    - destruct (existsb (fun y => eqb y a) prev) eqn:E.
      + specialize (IH _ _ _ _ H). rewrite existsb_app in *. apply orb_false_iff in IH as [I1 I2].
        rewrite existsb_app in I1. apply orb_false_iff in I1 as [I1 _]. rewrite I1, I2. reflexivity.
      + destruct pre as [|p pre]; simpl in H; inversion H; subst.
        * rewrite app_nil_r. exact E.
        * specialize (IH _ _ _ _ H2). rewrite <- app_assoc in IH. exact IH.
  Qed.

  (** The output is pairwise distinct (earlier vs later). *)
  Lemma uniq_by_distinct l :
    ForallOrdPairs (fun a b => eqb a b = false) (uniq_by eqb [] l).
  Proof.
    remember (uniq_by eqb [] l) as u eqn:Hu.
    assert (H : forall pre x post, u = pre ++ x :: post -> existsb (fun y => eqb y x) pre = false).
    { intros pre x post E. subst u. apply (uniq_by_no_earlier [] l pre x post E). }
    clear Hu. induction u as [|a u IH]; [constructor|].
    constructor.
    - apply Forall_forall. intros b Hb. apply in_split in Hb as (u1 & u2 & ->).
      specialize (H (a :: u1) b u2 eq_refl). simpl in H. apply orb_false_iff in H. tauto.
    - apply IH. intros pre x post E. specialize (H (a :: pre) x post). simpl in H.
      rewrite E in H. specialize (H eq_refl). apply orb_false_iff in H. tauto.
  Qed.

  Lemma uniq_by_incl prev l x : In x (uniq_by eqb prev l) -> In x l.
  Proof.
    revert prev; induction l as [|a l IH]; intro prev; simpl; [tauto|].
    destruct (existsb _ prev); simpl; intro H.
    - right. eapply IH, H.
    - destruct H as [->|H]; [left; reflexivity|right; eapply IH, H].
  Qed.

  (** uniq of an already pairwise-distinct list changes nothing: idempotence. *)
  Lemma uniq_by_fixed prev l :
    (forall pre x post, l = pre ++ x :: post -> existsb (fun y => eqb y x) (prev ++ pre) = false) ->
    uniq_by eqb prev l = l.
  Proof.
    revert prev; induction l as [|a l IH]; intros prev H; simpl; [reflexivity|].
    pose proof (H [] a l eq_refl) as Ha. rewrite app_nil_r in Ha. rewrite Ha. f_equal.
    apply IH. intros pre x post E. specialize (H (a :: pre) x post). rewrite E in H.
    specialize (H eq_refl). rewrite <- app_assoc. exact H.
  Qed.

  Theorem uniq_by_idempotent l : uniq_by eqb [] (uniq_by eqb [] l) = uniq_by eqb [] l.
  Proof.
    apply uniq_by_fixed. intros pre x post E. apply (uniq_by_no_earlier [] l pre x post E).
  Qed.

  (** Every input element is represented, when [eqb] is reflexive and
      transitive on the elements of the list. *)
  Theorem uniq_by_covers l :
    (forall x, In x l -> eqb x x = true) ->
    (forall a b c, In a l -> In b l -> In c l -> eqb a b = true -> eqb b c = true -> eqb a c = true) ->
    forall x, In x l -> exists y, In y (uniq_by eqb [] l) /\ eqb y x = true.
  Proof.
    intros R T.
    assert (G : forall prev l', (forall z, In z prev -> In z l) -> (forall z, In z l' -> In z l) ->
              (forall p, In p prev -> exists y, In y (uniq_by eqb [] l) /\ eqb y p = true) ->
              (forall y, In y (uniq_by eqb prev l') -> In y (uniq_by eqb [] l)) ->
              forall x, In x l' -> exists y, In y (uniq_by eqb [] l) /\ eqb y x = true).
    { intros prev l'. revert prev. induction l' as [|a l' IH]; intros prev Hp Hl Hc Hu x Hx; [destruct Hx|].
      simpl in Hu.
      assert (Ca : exists y, In y (uniq_by eqb [] l) /\ eqb y a = true).
      { destruct (existsb (fun y => eqb y a) prev) eqn:E.
        - apply existsb_exists in E as (p & Hpin & Hpa). destruct (Hc p Hpin) as (y & Hy & Hyp).
          exists y. split; [exact Hy|]. eapply T; try eassumption.
          + eapply uniq_by_incl, Hy. + apply Hp, Hpin. + apply Hl. left. reflexivity.
        - exists a. split; [apply Hu; left; reflexivity|apply R, Hl; left; reflexivity]. }
      destruct Hx as [->|Hx]; [exact Ca|].
      apply (IH (prev ++ [a])); auto.
      - intros z Hz. apply in_app_or in Hz as [Hz|[->|[]]]; [apply Hp, Hz|apply Hl; left; reflexivity].
      - intros z Hz. apply Hl. right. exact Hz.
      - intros p Hpin. apply in_app_or in Hpin as [Hpin|[->|[]]]; [apply Hc, Hpin|exact Ca].
      - intros y Hy. apply Hu. destruct (existsb _ prev); [exact Hy|right; exact Hy]. }
    intros x Hx. apply (G [] l); auto; intros z [].
  Qed.
End Uniq.

Theorem uniq_nokey_spec left :
  exists ys, uniq_nokey left = Ok (FList ys) /\
    ForallOrdPairs (fun a b => liq_eq a b = false) ys /\
    (forall x, In x ys -> In x (sequence_arg left)) /\
    uniq_nokey (FList ys) = Ok (FList (uniq_by liq_eq [] (sequence_arg (FList ys)))).
Proof.
  eexists. split; [reflexivity|]. split; [apply uniq_by_distinct|]. split; [|reflexivity].
  intros x. apply uniq_by_incl.
Qed.

(** On a flat array [uniq] is idempotent. *)
Lemma uniq_by_flat l : flat_list l -> flat_list (uniq_by liq_eq [] l).
Proof.
  unfold flat_list. rewrite !Forall_forall. intros H x Hx. apply H. eapply uniq_by_incl, Hx.
Qed.

Theorem uniq_nokey_idempotent l ys :
  flat_list l -> uniq_nokey (FList l) = Ok (FList ys) -> uniq_nokey (FList ys) = Ok (FList ys).
Proof.
  intros F. unfold uniq_nokey. rewrite sequence_arg_flat by exact F. intro H; inversion H; subst.
  rewrite sequence_arg_flat by (apply uniq_by_flat; exact F).
  rewrite uniq_by_idempotent. reflexivity.
Qed.

(** When Python's [==] is reflexive on the items (it is, for the values a
    template sees), pairwise distinct gives [NoDup]. *)
Lemma distinct_NoDup l :
  (forall x, In x l -> liq_eq x x = true) ->
  ForallOrdPairs (fun a b => liq_eq a b = false) l -> NoDup l.
Proof.
  intros R. induction 1 as [|a l Ha Hl IH]; constructor.
  - intro Hin. rewrite Forall_forall in Ha. specialize (Ha a Hin).
    rewrite R in Ha by (left; reflexivity). discriminate.
  - apply IH. intros x Hx. apply R. right. exact Hx.
Qed.

Theorem uniq_nokey_NoDup left ys :
  (forall x, In x (sequence_arg left) -> liq_eq x x = true) ->
  uniq_nokey left = Ok (FList ys) -> NoDup ys.
Proof.
  intros R H. unfold uniq_nokey in H. inversion H; subst. apply distinct_NoDup.
  - intros x Hx. apply R. eapply uniq_by_incl, Hx.
  - apply uniq_by_distinct.
Qed.

(** Scalars: [==] is reflexive. *)
Definition is_scalar_val (v : fval) : bool :=
  match v with FList _ | FDict _ => false | _ => true end.

Lemma q_eqb_refl q : q_eqb q q = true.
Proof. unfold q_eqb. apply Z.eqb_refl. Qed.

Lemma py_eq_refl_scalar v : is_scalar_val v = true -> py_eq v v = true.
Proof.
  destruct v; simpl; try discriminate; intros _; try reflexivity;
    try apply q_eqb_refl. apply str_eqb_refl.
Qed.

(** The keyed loop keeps the first item of each key: the kept keys are
    pairwise distinct. *)
Lemma uniq_keys_spec {K A} (keqb : K -> K -> bool) keys (l : list (K * A)) :
  exists kept : list (K * A),
    uniq_keys keqb keys l = map snd kept /\
    (forall p, In p kept -> In p l) /\
    ForallOrdPairs (fun a b => keqb (fst a) (fst b) = false) kept /\
    Forall (fun p => existsb (fun y => keqb y (fst p)) keys = false) kept.
Proof.
  revert keys; induction l as [|[k x] l IH]; intro keys; simpl.
  - exists []. repeat split; try constructor. intros p [].
  - destruct (existsb (fun y => keqb y k) keys) eqn:E.
    + destruct (IH keys) as (kept & H1 & H2 & H3 & H4). exists kept. repeat split; auto.
    + destruct (IH (keys ++ [k])) as (kept & H1 & H2 & H3 & H4).
      exists ((k, x) :: kept). simpl. rewrite H1. repeat split; auto.
      * intros p [<-|Hp]; auto.
      * constructor; [|exact H3]. eapply Forall_impl; [|exact H4]. intros p Hp. cbv beta in Hp. simpl.
        rewrite existsb_app in Hp. apply orb_false_iff in Hp as [_ Hp]. simpl in Hp.
        apply orb_false_iff in Hp. tauto.
      * constructor; [exact E|]. eapply Forall_impl; [|exact H4]. intros p Hp. cbv beta in Hp.
        rewrite existsb_app in Hp. apply orb_false_iff in Hp. tauto.
Qed.

Lemma liq_eq_refl_scalar v : is_scalar_val v = true -> liq_eq v v = true.
Proof.
  intro H. destruct v; try discriminate; try (apply (py_eq_refl_scalar _ H)).
  simpl. destruct b; reflexivity.
Qed.

(** A boolean only duplicates a boolean. *)
Example uniq_bool_int :
  uniq_nokey (FList [FInt 1; FBool true; FInt 0; FBool false; FDec 10 (-1); FBool true])
  = Ok (FList [FInt 1; FBool true; FInt 0; FBool false]).
Proof. vm_compute. reflexivity. Qed.

(** * 10. compact *)

Theorem compact_nokey_spec left :
  exists ys, compact_nokey left = Ok (FList ys) /\
    (forall x, In x ys <-> In x (sequence_arg left) /\ x <> FNil) /\
    interleaves ys (filter is_nil (sequence_arg left)) (sequence_arg left) /\
    Forall (fun x => x = FNil) (filter is_nil (sequence_arg left)).
Proof.
  eexists. split; [reflexivity|]. split; [|split].
  - intro x. rewrite filter_In. split; intros [H1 H2]; split; auto.
    + intro; subst; discriminate.
    + destruct x; try reflexivity. contradiction.
  - pose proof (interleaves_filter (fun i => negb (is_nil i)) (sequence_arg left)) as H.
    erewrite (filter_ext (fun x => negb (negb (is_nil x))) is_nil) in H; [exact H|].
    intro a. apply negb_involutive.
  - apply Forall_forall. intros x Hx. apply filter_In in Hx as [_ Hx]. destruct x; try discriminate.
    reflexivity.
Qed.

(** * 11. first / last / concat / map / slice *)

Theorem first_last_spec l :
  first_f (FList l) = Ok (nth 0 l FNil) /\ last_f (FList l) = Ok (last l FNil) /\
  (l <> [] -> last_f (FList l) = Ok (nth (length l - 1) l FNil)).
Proof.
  split; [destruct l; reflexivity|]. split; [reflexivity|].
  intro H. unfold last_f. f_equal. destruct (exists_last H) as (l' & a & ->).
  rewrite last_last, app_length. simpl. rewrite app_nth2 by lia.
  replace (length l' + 1 - 1 - length l')%nat with 0%nat by lia. reflexivity.
Qed.

Theorem concat_spec left l :
  concat_f left (FList l) = Ok (FList (sequence_arg left ++ l)).
Proof. reflexivity. Qed.

Theorem concat_needs_array left other :
  is_flist other = false -> concat_f left other = LErr LiquidTypeError None.
Proof. destruct other; simpl; try discriminate; reflexivity. Qed.

Theorem map_lambda_spec left f :
  map_lambda left f =
  Ok (FList (map (fun i => match f i with Some v => v | None => FNil end) (sequence_arg left))).
Proof. reflexivity. Qed.

Theorem map_key_spec left k ys :
  map_key left (FStr k) = Ok (FList ys) ->
  length ys = length (sequence_arg left) /\
  forall n x, nth_error (sequence_arg left) n = Some x ->
              exists y, nth_error ys n = Some y /\ getitem_d x (FStr k) FNil = Ok y.
Proof.
  unfold map_key. simpl. destruct (type_error_to_liquid _) as [zs| | |] eqn:E; try discriminate.
  simpl. intro H; inversion H; subst zs; clear H. apply type_error_to_liquid_ok in E.
  split; [eapply mapM_ok_length, E|].
  revert ys E. induction (sequence_arg left) as [|a l IH]; intros ys E n x Hn.
  - destruct n; discriminate.
  - apply mapM_ok_inv in E as (y & ys' & Hy & Hys & ->).
    destruct n; simpl in *.
    + inversion Hn; subst. exists y. auto.
    + eapply IH; eassumption.
Qed.

(** Python slicing with in-range bounds is [firstn]/[skipn]. *)
Lemma py_slice_in_range {A} (l : list A) s e :
  0 <= s <= e -> e <= Z.of_nat (length l) ->
  py_slice l s (Some e) = firstn (Z.to_nat (e - s)) (skipn (Z.to_nat s) l).
Proof.
  intros H1 H2. unfold py_slice.
  destruct (s <? 0) eqn:E1; [apply Z.ltb_lt in E1; lia|].
  destruct (e <? 0) eqn:E2; [apply Z.ltb_lt in E2; lia|].
  rewrite !Z.min_l by lia. reflexivity.
Qed.

Lemma nth_error_firstn_lt {A} (l : list A) n i :
  (i < n)%nat -> nth_error (firstn n l) i = nth_error l i.
Proof.
  revert n i; induction l as [|x l IH]; intros [|n] [|i] H; simpl; try reflexivity; try lia.
  apply IH. lia.
Qed.

Lemma nth_error_skipn_add {A} (l : list A) n i : nth_error (skipn n l) i = nth_error l (n + i).
Proof.
  revert n; induction l as [|x l IH]; intros [|n]; simpl; try reflexivity.
  - destruct i; reflexivity.
  - apply IH.
Qed.

Lemma py_slice_nth {A} (l : list A) s e i :
  0 <= s <= e -> e <= Z.of_nat (length l) -> (i < Z.to_nat (e - s))%nat ->
  nth_error (py_slice l s (Some e)) i = nth_error l (Z.to_nat s + i).
Proof.
  intros H1 H2 Hi. rewrite py_slice_in_range by assumption.
  rewrite nth_error_firstn_lt by exact Hi. apply nth_error_skipn_add.
Qed.

(** [slice: start, length] with a non-negative start and length. *)
Theorem slice_array_spec l s n :
  0 <= s -> 0 <= n -> s + n < 2 ^ 63 ->
  slice_f (FList l) (FInt s) (Some (FInt n)) =
  Ok (FList (firstn (Z.to_nat n) (skipn (Z.to_nat s) l))).
Proof.
  intros Hs Hn Hb. unfold slice_f, slice_arg, MAX_SLICE_ARG, MIN_SLICE_ARG. simpl bind.
  rewrite !Z.min_l by lia. rewrite !Z.max_l by lia.
  destruct ((s <? 0) && (0 <=? s + n)) eqn:E.
  { apply andb_true_iff in E as [E _]. apply Z.ltb_lt in E. lia. }
  f_equal. f_equal. unfold slice_seq.
  destruct (s <? - Z.of_nat (length l)) eqn:E0; [apply Z.ltb_lt in E0; lia|]. unfold py_slice.
  destruct (s <? 0) eqn:E1; [apply Z.ltb_lt in E1; lia|].
  destruct (s + n <? 0) eqn:E2; [apply Z.ltb_lt in E2; lia|].
  set (len := Z.of_nat (length l)).
  destruct (Z.le_gt_cases len s) as [Hls|Hls].
  - (* start at or beyond the end: empty *)
    rewrite (Z.min_r s len) by lia. rewrite (Z.min_r (s + n) len) by lia.
    replace (len - len) with 0 by lia. simpl.
    rewrite skipn_all2 by (unfold len in Hls; lia). rewrite firstn_nil. reflexivity.
  - rewrite (Z.min_l s len) by lia.
    destruct (Z.le_gt_cases (s + n) len) as [Hle|Hgt].
    + rewrite Z.min_l by lia. f_equal. lia.
    + rewrite Z.min_r by lia.
      rewrite !firstn_all2; [reflexivity| |]; rewrite skipn_length; unfold len in *; lia.
Qed.

(** A negative start counts from the end. *)
Theorem slice_array_negative_start l s n :
  - Z.of_nat (length l) <= s < 0 -> - 2 ^ 63 <= s -> 0 <= n -> s + n < 0 ->
  slice_f (FList l) (FInt s) (Some (FInt n)) =
  Ok (FList (firstn (Z.to_nat n) (skipn (Z.to_nat (Z.of_nat (length l) + s)) l))).
Proof.
  intros Hs Hs' Hn Hb. unfold slice_f, slice_arg, MAX_SLICE_ARG, MIN_SLICE_ARG. simpl bind.
  rewrite !Z.min_l by lia. rewrite !Z.max_l by lia.
  destruct ((s <? 0) && (0 <=? s + n)) eqn:E.
  { apply andb_true_iff in E as [_ E]. apply Z.leb_le in E. lia. }
  f_equal. f_equal. unfold slice_seq.
  destruct (s <? - Z.of_nat (length l)) eqn:E0; [apply Z.ltb_lt in E0; lia|]. unfold py_slice.
  destruct (s <? 0) eqn:E1; [|apply Z.ltb_ge in E1; lia].
  destruct (s + n <? 0) eqn:E2; [|apply Z.ltb_ge in E2; lia].
  set (len := Z.of_nat (length l)) in *.
  rewrite !Z.max_l by lia.
  replace (s + n + len - (s + len)) with n by lia. replace (s + len) with (len + s) by lia.
  reflexivity.
Qed.

(** A start before the beginning is out of range: the empty array. *)
Theorem slice_array_out_of_range l s n :
  - 2 ^ 63 <= s < - Z.of_nat (length l) -> - 2 ^ 63 <= n <= 2 ^ 63 - 1 ->
  slice_f (FList l) (FInt s) (Some (FInt n)) = Ok (FList []).
Proof.
  intros Hs Hn. unfold slice_f, slice_arg, MAX_SLICE_ARG, MIN_SLICE_ARG. simpl bind.
  rewrite !Z.min_l by lia. rewrite !Z.max_l by lia. unfold slice_seq.
  destruct (s <? - Z.of_nat (length l)) eqn:E0; [reflexivity|apply Z.ltb_ge in E0; lia].
Qed.

(** * 12. split / join *)

Lemma prefixb_spec p s : prefixb p s = true -> s = p ++ skipn (length p) s.
Proof.
  revert s; induction p as [|a p IH]; intros s H; [reflexivity|].
  destruct s as [|b s]; [discriminate|]. simpl in H. apply andb_true_iff in H as [H1 H2].
  apply N.eqb_eq in H1. subst b. simpl. f_equal. apply IH, H2.
Qed.

Lemma prefixb_app p r : prefixb p (p ++ r) = true.
Proof. induction p as [|a p IH]; simpl; [reflexivity|]. rewrite N.eqb_refl. exact IH. Qed.

Lemma skipn_app_exact {A} (p r : list A) : skipn (length p) (p ++ r) = r.
Proof. induction p; simpl; auto. Qed.

Lemma find_sub_some sep s a b : find_sub sep s = Some (a, b) -> s = a ++ sep ++ b.
Proof.
  revert a b; induction s as [|c s IH]; intros a b H.
  - simpl in H. destruct (prefixb sep []) eqn:P; [|discriminate].
    inversion H; subst. simpl. apply prefixb_spec in P. exact P.
  - simpl in H. destruct (prefixb sep (c :: s)) eqn:P.
    + inversion H; subst. simpl. apply prefixb_spec, P.
    + destruct (find_sub sep s) as [[a' b']|] eqn:F; [|discriminate].
      inversion H; subst. simpl. f_equal. apply IH. reflexivity.
Qed.

Lemma split_fuel_nonempty fuel sep s : split_fuel fuel sep s <> [].
Proof. destruct fuel; simpl; [discriminate|]. destruct (find_sub sep s) as [[a b]|]; discriminate. Qed.

Lemma join_str_cons sep x r : r <> [] -> join_str sep (x :: r) = x ++ sep ++ join_str sep r.
Proof. destruct r; [contradiction|reflexivity]. Qed.

(** join undoes split, whatever the fuel. *)
Lemma join_split_fuel fuel sep s : join_str sep (split_fuel fuel sep s) = s.
Proof.
  revert s; induction fuel as [|f IH]; intro s; simpl; [reflexivity|].
  destruct (find_sub sep s) as [[a b]|] eqn:F; [|reflexivity].
  rewrite join_str_cons by apply split_fuel_nonempty. rewrite IH.
  symmetry. apply find_sub_some, F.
Qed.

Theorem join_py_split sep s : join_str sep (py_split sep s) = s.
Proof. apply join_split_fuel. Qed.

Lemma mapM_tls_strs l : mapM to_liquid_string (map FStr l) = Ok l.
Proof. induction l as [|x l IH]; simpl; [reflexivity|]. rewrite IH. reflexivity. Qed.

Lemma flat_list_strs l : flat_list (map FStr l).
Proof. unfold flat_list. apply Forall_forall. intros x Hx. apply in_map_iff in Hx as (s & <- & _). reflexivity. Qed.

(** [{{ s | split: sep | join: sep }}] is [s], for a non-empty separator and
    [s] neither empty nor equal to the separator (for those two inputs split
    returns the empty array and the round trip gives ""). *)
Theorem join_split_roundtrip s sep :
  sep <> [] -> s <> [] -> s <> sep ->
  exists l, split_f (FStr s) (FStr sep) = Ok (FList l) /\
            join_f (FList l) (Some (FStr sep)) = Ok (FStr s).
Proof.
  intros Hsep Hs Hne. exists (map FStr (py_split sep s)). split.
  - unfold split_f. simpl. destruct sep as [|c sep]; [contradiction|]. simpl.
    destruct s as [|d s]; [contradiction|].
    destruct (str_eqb (d :: s) (c :: sep)) eqn:E; [apply str_eqb_eq in E; contradiction|reflexivity].
  - unfold join_f. rewrite sequence_arg_flat by apply flat_list_strs. simpl.
    rewrite mapM_tls_strs. simpl. rewrite join_py_split. reflexivity.
Qed.

Theorem split_degenerate sep :
  sep <> [] ->
  split_f (FStr []) (FStr sep) = Ok (FList []) /\ split_f (FStr sep) (FStr sep) = Ok (FList []).
Proof.
  intro H. destruct sep as [|c sep]; [contradiction|]. split; [reflexivity|].
  unfold split_f. cbn [to_liquid_string bind py_truthy negb]. rewrite str_eqb_refl. reflexivity.
Qed.

(** An empty (or nil) separator splits into characters. *)
Theorem split_empty_sep s :
  split_f (FStr s) (FStr []) = Ok (FList (map (fun c => FStr [c]) s)) /\
  split_f (FStr s) FNil = Ok (FList (map (fun c => FStr [c]) s)).
Proof. split; reflexivity. Qed.

(** split undoes join: exact side condition = in [x ++ sep ++ ...] the first
    occurrence of [sep] starts right after [x], i.e. [sep] does not occur in
    [x ++ removelast sep]. *)
Lemma prefixb_app_long p u v : (length p <= length u)%nat -> prefixb p (u ++ v) = prefixb p u.
Proof.
  revert u; induction p as [|a p IH]; intros u H; [reflexivity|].
  destruct u as [|b u]; simpl in *; [lia|]. rewrite IH by lia. reflexivity.
Qed.

Lemma prefixb_mono p u v : prefixb p u = true -> prefixb p (u ++ v) = true.
Proof.
  revert u; induction p as [|a p IH]; intros u H; [reflexivity|].
  destruct u as [|b u]; simpl in *; [discriminate|].
  apply andb_true_iff in H as [H1 H2]. rewrite H1. simpl. apply IH, H2.
Qed.

Lemma str_contains_app_false u v p : str_contains (u ++ v) p = false -> str_contains u p = false.
Proof.
  induction u as [|c u IH]; simpl; intro H.
  - destruct p; simpl in *; [destruct v; discriminate|reflexivity].
  - apply orb_false_iff in H as [H1 H2]. apply orb_false_iff. split; [|apply IH, H2].
    destruct (prefixb p (c :: u)) eqn:P; [|reflexivity].
    change (c :: u ++ v) with ((c :: u) ++ v) in H1. rewrite prefixb_mono in H1 by exact P. discriminate.
Qed.

Lemma find_sub_none sep s : str_contains s sep = false -> find_sub sep s = None.
Proof.
  induction s as [|c s IH]; intro H.
  - destruct sep; simpl in *; [discriminate|reflexivity].
  - cbn [str_contains] in H. apply orb_false_iff in H as [H1 H2].
    cbn [find_sub]. rewrite H1, IH by exact H2. reflexivity.
Qed.

Lemma removelast_length {A} (l : list A) : l <> [] -> S (length (removelast l)) = length l.
Proof.
  intro H. destruct (exists_last H) as (l' & a & ->). rewrite removelast_last, app_length. simpl. lia.
Qed.

Lemma find_sub_prefix sep t :
  prefixb sep t = true -> find_sub sep t = Some ([], skipn (length sep) t).
Proof. intro H. destruct t; cbn [find_sub]; rewrite H; reflexivity. Qed.

Lemma find_sub_first sep x rest :
  sep <> [] -> str_contains (x ++ removelast sep) sep = false ->
  find_sub sep (x ++ sep ++ rest) = Some (x, rest).
Proof.
  intros Hsep. induction x as [|c x IH]; intro H.
  - simpl app. rewrite find_sub_prefix by apply prefixb_app. rewrite skipn_app_exact. reflexivity.
  - simpl in H. apply orb_false_iff in H as [H1 H2].
    change ((c :: x) ++ sep ++ rest) with (c :: (x ++ sep ++ rest)).
    cbn [find_sub].
    assert (P : prefixb sep (c :: x ++ sep ++ rest) = false).
    { assert (Eq : c :: x ++ sep ++ rest = (c :: x ++ removelast sep) ++ [last sep 0%N] ++ rest).
      { rewrite (app_removelast_last 0%N Hsep) at 1. simpl. rewrite <- !app_assoc. reflexivity. }
      rewrite Eq. rewrite prefixb_app_long; [exact H1|].
      pose proof (removelast_length sep Hsep) as L. simpl. rewrite app_length. lia. }
    rewrite P. rewrite IH by exact H2. reflexivity.
Qed.

Lemma split_join_fuel sep xs fuel :
  sep <> [] -> xs <> [] ->
  Forall (fun x => str_contains (x ++ removelast sep) sep = false) xs ->
  (length xs <= fuel)%nat ->
  split_fuel fuel sep (join_str sep xs) = xs.
Proof.
  intros Hsep. revert fuel; induction xs as [|x xs IH]; intros fuel Hne F Hf; [contradiction|].
  inversion F as [|? ? Fx Fxs]; subst.
  destruct fuel as [|fuel]; [simpl in Hf; lia|].
  destruct xs as [|y xs].
  - simpl. rewrite find_sub_none; [reflexivity|]. eapply str_contains_app_false, Fx.
  - rewrite join_str_cons by discriminate. simpl split_fuel.
    rewrite find_sub_first by assumption. f_equal. apply IH; [discriminate|exact Fxs|simpl in *; lia].
Qed.

Lemma join_length_ge sep xs : sep <> [] -> (length xs <= S (length (join_str sep xs)))%nat.
Proof.
  intro Hsep. induction xs as [|x xs IH]; [simpl; lia|].
  destruct xs as [|y xs]; [simpl; lia|].
  rewrite join_str_cons by discriminate. rewrite !app_length.
  destruct sep; [contradiction|]. simpl in *. lia.
Qed.

Theorem py_split_join sep xs :
  sep <> [] -> xs <> [] ->
  Forall (fun x => str_contains (x ++ removelast sep) sep = false) xs ->
  py_split sep (join_str sep xs) = xs.
Proof.
  intros Hsep Hne F. unfold py_split. apply split_join_fuel; auto. apply join_length_ge, Hsep.
Qed.

(** [{{ xs | join: sep | split: sep }}] is [xs] for an array of strings none
    of which lets the separator start early, unless the joined text is empty
    or is the separator itself (xs = [""] and xs = ["", ""]). *)
Theorem split_join_roundtrip sep xs :
  sep <> [] -> xs <> [] ->
  Forall (fun x => str_contains (x ++ removelast sep) sep = false) xs ->
  join_str sep xs <> [] -> join_str sep xs <> sep ->
  exists j, join_f (FList (map FStr xs)) (Some (FStr sep)) = Ok (FStr j) /\
            split_f (FStr j) (FStr sep) = Ok (FList (map FStr xs)).
Proof.
  intros Hsep Hne F J1 J2. exists (join_str sep xs). split.
  - unfold join_f. rewrite sequence_arg_flat by apply flat_list_strs. simpl.
    rewrite mapM_tls_strs. reflexivity.
  - unfold split_f. simpl. destruct sep as [|c sep]; [contradiction|]. simpl.
    destruct (join_str (c :: sep) xs) as [|d j] eqn:E; [contradiction|].
    destruct (str_eqb (d :: j) (c :: sep)) eqn:E2; [apply str_eqb_eq in E2; contradiction|].
    rewrite <- E. rewrite py_split_join by assumption. reflexivity.
Qed.

(** For a one-character separator the side condition is just "no element
    contains it". *)
Lemma single_char_condition c x :
  str_contains (x ++ removelast [c]) [c] = str_contains x [c].
Proof. simpl. rewrite app_nil_r. reflexivity. Qed.

(** * 13. Known finding sort-missing-key-non-string-property

    "Items without the property go last" is what the documentation promises
    for every keyed sort; it holds when the present keys are strings
    ([sort_key_missing_last]).  When they are numbers the MAX_CH stand-in of a
    missing property is compared with a number and [sort] fails. *)
Theorem sort_key_missing_last_refuted :
  exists left k,
    k <> [] /\ forallb is_hash (sequence_arg left) = true /\
    sort_key left (FStr k) = PyExc TypeError.
Proof.
  exists (FList [FDict [([107%N], FInt 2)]; FDict []; FDict [([107%N], FInt 1)]]), [107%N].
  split; [discriminate|]. split; reflexivity.
Qed.

(** Non-vacuity of the guarded statement: string keys, one item without the key. *)
Example sort_key_missing_last_example :
  sort_key (FList [FDict [([107%N], FStr [98%N])]; FDict []; FDict [([107%N], FStr [97%N])]]) (FStr [107%N])
  = Ok (FList [FDict [([107%N], FStr [97%N])]; FDict [([107%N], FStr [98%N])]; FDict []]).
Proof. reflexivity. Qed.

(** Non-vacuity of the sorting, partition and agreement theorems. *)
Example sort_stable_example :
  sort_key (FList [FDict [([107%N], FInt 2); ([110%N], FInt 0)];
                   FDict [([107%N], FInt 1); ([110%N], FInt 1)];
                   FDict [([107%N], FDec 20 (-1)); ([110%N], FInt 2)];
                   FDict [([107%N], FBool true); ([110%N], FInt 3)]]) (FStr [107%N])
  = Ok (FList [FDict [([107%N], FInt 1); ([110%N], FInt 1)];
               FDict [([107%N], FBool true); ([110%N], FInt 3)];
               FDict [([107%N], FInt 2); ([110%N], FInt 0)];
               FDict [([107%N], FDec 20 (-1)); ([110%N], FInt 2)]]).
Proof. vm_compute. reflexivity. Qed.

Example where_reject_example :
  let x := FList [FDict [([107%N], FInt 1)]; FDict [([107%N], FBool true)]; FDict []; FDict [([107%N], FInt 0)]] in
  where_key x (FStr [107%N]) (FBool true) = Ok (FList [FDict [([107%N], FBool true)]]) /\
  reject_key x (FStr [107%N]) (FBool true)
    = Ok (FList [FDict [([107%N], FInt 1)]; FDict []; FDict [([107%N], FInt 0)]]) /\
  where_key x (FStr [107%N]) FNil
    = Ok (FList [FDict [([107%N], FInt 1)]; FDict [([107%N], FBool true)]; FDict [([107%N], FInt 0)]]) /\
  where_lambda x (lam_of [107%N] (FBool true)) = where_key x (FStr [107%N]) (FBool true).
Proof. vm_compute. repeat split. Qed.

Example uniq_example :
  uniq_nokey (FList [FInt 1; FStr [97%N]; FBool true; FDec 10 (-1); FStr [97%N]; FNil; FInt 2])
  = Ok (FList [FInt 1; FStr [97%N]; FBool true; FNil; FInt 2]).
Proof. vm_compute. reflexivity. Qed.

Example split_join_example :
  split_f (FStr [97; 44; 98; 44]%N) (FStr [44%N]) = Ok (FList [FStr [97%N]; FStr [98%N]; FStr []]) /\
  join_f (FList [FStr [97%N]; FStr [98%N]; FStr []]) (Some (FStr [44%N])) = Ok (FStr [97; 44; 98; 44]%N).
Proof. vm_compute. split; reflexivity. Qed.
