(** Proofs/CrossModel_values.v — the value semantics of the Core interpreter
    (Core/Value.v, Core/Render.v: C01, C07) and of the filter kernels
    (Kernels/FVal.v, FiltersStr.v, FiltersSeq.v: C19, C02) were written
    independently against the same Python code.  On the values both can
    represent (nil, booleans, integers, strings, lists and dicts of those) they
    are proved to agree wherever both give a modelled answer: the Liquid string
    form, truthiness, and the filters upcase, downcase, append, prepend, first,
    last and join. *)
From LQ Require Import Base.Str Core.Value Core.Syntax Core.Render Proofs.CrossModel_decimal.
From LQ Require Kernels.FVal Kernels.FiltersStr Kernels.FiltersSeq.
From Coq Require Import ZArith NArith List Lia Bool.
Import ListNotations.

Module F := FVal.

(** * Induction on values through lists, dicts and parent loops *)
Section ValInd.
Variable P : val -> Prop.
Hypothesis Hnil : P VNil.
Hypothesis Hbool : forall b, P (VBool b).
Hypothesis Hint : forall z, P (VInt z).
Hypothesis Hstr : forall s, P (VStr s).
Hypothesis Hlist : forall l, Forall P l -> P (VList l).
Hypothesis Hdict : forall kvs, Forall (fun kv => P (snd kv)) kvs -> P (VDict kvs).
Hypothesis Hrange : forall lo hi, P (VRange lo hi).
Hypothesis Hundef : P VUndef.
Hypothesis Hempty : P VEmpty.
Hypothesis Hblank : P VBlank.
Hypothesis Hfor : forall n l i p, P p -> P (VForLoop n l i p).

Fixpoint val_ind' (v : val) : P v :=
  match v with
  | VNil => Hnil
  | VBool b => Hbool b
  | VInt z => Hint z
  | VStr s => Hstr s
  | VList l =>
      Hlist l ((fix go (l : list val) : Forall P l :=
                  match l with
                  | [] => Forall_nil P
                  | x :: l' => Forall_cons x (val_ind' x) (go l')
                  end) l)
  | VDict kvs =>
      Hdict kvs ((fix go (kvs : list (str * val)) : Forall (fun kv => P (snd kv)) kvs :=
                    match kvs with
                    | [] => Forall_nil _
                    | kv :: r => Forall_cons kv (val_ind' (snd kv)) (go r)
                    end) kvs)
  | VRange lo hi => Hrange lo hi
  | VUndef => Hundef
  | VEmpty => Hempty
  | VBlank => Hblank
  | VForLoop n l i p => Hfor n l i p (val_ind' p)
  end.
End ValInd.

(** * The common values *)
Fixpoint emb (v : val) : option F.fval :=
  match v with
  | VNil => Some F.FNil
  | VBool b => Some (F.FBool b)
  | VInt z => Some (F.FInt z)
  | VStr s => Some (F.FStr s)
  | VList l =>
      option_map F.FList
        ((fix go (l : list val) : option (list F.fval) :=
            match l with
            | [] => Some []
            | x :: l' => match emb x, go l' with Some a, Some b => Some (a :: b) | _, _ => None end
            end) l)
  | VDict kvs =>
      option_map F.FDict
        ((fix go (kvs : list (str * val)) : option (list (str * F.fval)) :=
            match kvs with
            | [] => Some []
            | kv :: r => match emb (snd kv), go r with Some a, Some b => Some ((fst kv, a) :: b) | _, _ => None end
            end) kvs)
  | _ => None
  end.

Fixpoint emb_list (l : list val) : option (list F.fval) :=
  match l with
  | [] => Some []
  | x :: l' => match emb x, emb_list l' with Some a, Some b => Some (a :: b) | _, _ => None end
  end.

Lemma emb_VList l : emb (VList l) = option_map F.FList (emb_list l).
Proof. cbn [emb]. f_equal. Qed.

Fixpoint f_concat (l : list F.fval) : res str :=
  match l with
  | [] => Ok []
  | x :: r => do a <- F.to_liquid_string x;; do b <- f_concat r;; Ok (a ++ b)
  end.

Lemma f_tls_list l : F.to_liquid_string (F.FList l) = f_concat l.
Proof. cbn [F.to_liquid_string]. induction l as [|x l IH]; [reflexivity|]. cbn [f_concat]. rewrite <- IH. reflexivity. Qed.

Fixpoint c_concat (l : list val) : option str :=
  match l with
  | [] => Some []
  | x :: l' => match to_liquid_string x, c_concat l' with Some a, Some b => Some (a ++ b) | _, _ => None end
  end.

Lemma c_tls_list l : to_liquid_string (VList l) = c_concat l.
Proof. cbn [to_liquid_string]. induction l as [|x l IH]; [reflexivity|]. cbn [c_concat]. rewrite <- IH. reflexivity. Qed.

(** * The Liquid string form *)
Theorem to_liquid_string_models_agree : forall v fv s,
  emb v = Some fv -> F.to_liquid_string fv = Ok s -> to_liquid_string v = Some s.
Proof.
  induction v using val_ind'; intros fv s0 He Hf; try discriminate.
  - inversion He; subst. cbn in Hf. inversion Hf. reflexivity.
  - inversion He; subst. destruct b; cbn in Hf; inversion Hf; reflexivity.
  - inversion He; subst. cbn in Hf. inversion Hf. cbn. rewrite str_of_Z_models_agree. reflexivity.
  - inversion He; subst. cbn in Hf. inversion Hf. reflexivity.
  - rewrite emb_VList in He. destruct (emb_list l) as [fl|] eqn:El; [|discriminate].
    inversion He; subst fv. rewrite f_tls_list in Hf. rewrite c_tls_list.
    clear He. revert fl s0 El Hf.
    induction H as [|x l Hx Hl IH]; intros fl s0 El Hf.
    + inversion El; subst. cbn in Hf. inversion Hf. reflexivity.
    + cbn [emb_list] in El. destruct (emb x) as [fx|] eqn:Ex; [|discriminate].
      destruct (emb_list l) as [fr|] eqn:Er; [|discriminate]. inversion El; subst fl.
      cbn [f_concat] in Hf.
      destruct (F.to_liquid_string fx) as [a| | |] eqn:Ea; try discriminate.
      cbn [bind] in Hf.
      destruct (f_concat fr) as [b| | |] eqn:Eb; try discriminate.
      cbn [bind] in Hf. inversion Hf; subst s0.
      cbn [c_concat]. rewrite (Hx fx a eq_refl Ea), (IH fr b eq_refl Eb). reflexivity.
  - (* dict: the filter kernels leave str(dict) outside the model *)
    cbn [emb] in He.
    match type of He with option_map _ ?g = _ => destruct g; [|discriminate] end.
    inversion He; subst fv. cbn in Hf. discriminate.
Qed.

(** * Truthiness *)
Theorem truthiness_models_agree : forall v fv, emb v = Some fv -> is_truthy v = F.is_truthy fv.
Proof.
  intros v fv He. destruct v; try discriminate; cbn [emb] in He.
  - inversion He. reflexivity.
  - inversion He. destruct b; reflexivity.
  - inversion He. reflexivity.
  - inversion He. reflexivity.
  - match type of He with option_map _ ?g = _ => destruct g; [|discriminate] end. inversion He. reflexivity.
  - match type of He with option_map _ ?g = _ => destruct g; [|discriminate] end. inversion He. reflexivity.
Qed.

(** * Filters *)
Lemma up1_eq c : up1 c = FiltersSeq.ascii_upper1 c.  Proof. reflexivity. Qed.
Lemma down1_eq c : down1 c = FiltersSeq.ascii_lower1 c.  Proof. reflexivity. Qed.

Theorem upcase_models_agree : forall v fv r fr,
  emb v = Some fv ->
  apply_filter FUpcase v [] = EOk r -> FiltersStr.upcase_f fv = Ok fr -> emb r = Some fr.
Proof.
  intros v fv r fr He Hc Hf. unfold apply_filter in Hc. unfold FiltersStr.upcase_f, FiltersStr.str_filter1 in Hf.
  destruct (F.to_liquid_string fv) as [s| | |] eqn:Es; try discriminate.
  rewrite (to_liquid_string_models_agree v fv s He Es) in Hc.
  destruct (ascii s); [|discriminate]. inversion Hc; subst r. cbn [bind] in Hf. inversion Hf; subst fr.
  cbn [emb]. unfold FiltersSeq.ascii_upper. do 2 f_equal.
Qed.

Theorem downcase_models_agree : forall v fv r fr,
  emb v = Some fv ->
  apply_filter FDowncase v [] = EOk r -> FiltersStr.downcase_f fv = Ok fr -> emb r = Some fr.
Proof.
  intros v fv r fr He Hc Hf. unfold apply_filter in Hc. unfold FiltersStr.downcase_f, FiltersStr.str_filter1 in Hf.
  destruct (F.to_liquid_string fv) as [s| | |] eqn:Es; try discriminate.
  rewrite (to_liquid_string_models_agree v fv s He Es) in Hc.
  destruct (ascii s); [|discriminate]. inversion Hc; subst r. cbn [bind] in Hf. inversion Hf; subst fr.
  cbn [emb]. unfold FiltersSeq.ascii_lower. do 2 f_equal.
Qed.

Theorem prepend_models_agree : forall v a fv fa r fr,
  emb v = Some fv -> emb a = Some fa ->
  apply_filter FPrepend v [a] = EOk r -> FiltersStr.prepend_f fv fa = Ok fr -> emb r = Some fr.
Proof.
  intros v a fv fa r fr He Ha Hc Hf. unfold apply_filter in Hc. unfold FiltersStr.prepend_f in Hf.
  destruct (F.to_liquid_string fv) as [s| | |] eqn:Es; try discriminate. cbn [bind] in Hf.
  destruct (F.to_liquid_string fa) as [t| | |] eqn:Et; try discriminate. cbn [bind] in Hf.
  rewrite (to_liquid_string_models_agree v fv s He Es), (to_liquid_string_models_agree a fa t Ha Et) in Hc.
  inversion Hc; inversion Hf; subst. reflexivity.
Qed.

Theorem append_models_agree : forall v a fv fa r fr,
  emb v = Some fv -> emb a = Some fa ->
  apply_filter FAppend v [a] = EOk r -> FiltersStr.append_f fv fa = Ok fr -> emb r = Some fr.
Proof.
  intros v a fv fa r fr He Ha Hc Hf. unfold apply_filter in Hc. unfold FiltersStr.append_f in Hf.
  destruct (F.to_liquid_string fv) as [s| | |] eqn:Es; try discriminate. cbn [bind] in Hf.
  destruct (F.to_liquid_string fa) as [t| | |] eqn:Et; try discriminate. cbn [bind] in Hf.
  rewrite (to_liquid_string_models_agree v fv s He Es), (to_liquid_string_models_agree a fa t Ha Et) in Hc.
  inversion Hc; inversion Hf; subst. reflexivity.
Qed.

Lemma emb_VDict_cons k x r fv :
  emb (VDict ((k, x) :: r)) = Some fv ->
  exists fx fr, emb x = Some fx /\ fv = F.FDict ((k, fx) :: fr).
Proof.
  cbn [emb fst snd]. destruct (emb x) as [fx|]; [|discriminate].
  match goal with |- option_map _ (match ?g with _ => _ end) = _ -> _ => destruct g as [fr|]; [|discriminate] end.
  intro H. inversion H. exists fx, fr. split; reflexivity.
Qed.

Theorem first_models_agree : forall v fv r fr,
  emb v = Some fv ->
  apply_filter FFirst v [] = EOk r -> FiltersSeq.first_f fv = Ok fr -> emb r = Some fr.
Proof.
  intros v fv r fr He Hc Hf. destruct v; try discriminate.
  - inversion He; subst. inversion Hc; inversion Hf; reflexivity.
  - inversion He; subst. inversion Hc; inversion Hf; reflexivity.
  - inversion He; subst. inversion Hc; inversion Hf; reflexivity.
  - inversion He; subst. inversion Hc; inversion Hf; reflexivity.
  - rewrite emb_VList in He. destruct l as [|x l].
    + inversion He; subst. inversion Hc; inversion Hf; reflexivity.
    + cbn [emb_list] in He. destruct (emb x) as [fx|] eqn:Ex; [|discriminate].
      destruct (emb_list l) as [fl|]; [|discriminate]. inversion He; subst fv.
      cbn in Hc, Hf. inversion Hc; inversion Hf; subst. exact Ex.
  - destruct kvs as [|[k x] kvs].
    + inversion He; subst. inversion Hc; inversion Hf; reflexivity.
    + destruct (emb_VDict_cons k x kvs fv He) as (fx & fr' & Ex & ->).
      cbn in Hc, Hf. inversion Hc; inversion Hf; subst. cbn [emb]. rewrite Ex. reflexivity.
Qed.

Lemma rev_head_last {A} (l : list A) (d : A) :
  match rev l with x :: _ => x | [] => d end = last l d.
Proof.
  destruct l as [|x l] using rev_ind; [reflexivity|].
  rewrite rev_app_distr. cbn [rev app]. rewrite last_last. reflexivity.
Qed.

Lemma emb_last l : forall fl, emb_list l = Some fl -> emb (last l VNil) = Some (last fl F.FNil).
Proof.
  induction l as [|x l IH]; intros fl H.
  - inversion H. reflexivity.
  - cbn [emb_list] in H. destruct (emb x) as [fx|] eqn:Ex; [|discriminate].
    destruct (emb_list l) as [fr|] eqn:Er; [|discriminate]. inversion H; subst fl.
    destruct l as [|y l'].
    + inversion Er. exact Ex.
    + destruct fr as [|fy fr'].
      * cbn [emb_list] in Er. destruct (emb y); [|discriminate]. destruct (emb_list l'); discriminate.
      * cbn [last]. apply (IH (fy :: fr') eq_refl).
Qed.

Theorem last_models_agree : forall v fv r fr,
  emb v = Some fv ->
  apply_filter FLast v [] = EOk r -> FiltersSeq.last_f fv = Ok fr -> emb r = Some fr.
Proof.
  intros v fv r fr He Hc Hf. destruct v; try discriminate.
  - inversion He; subst. inversion Hc; inversion Hf; reflexivity.
  - inversion He; subst. inversion Hc; inversion Hf; reflexivity.
  - inversion He; subst. inversion Hc; inversion Hf; reflexivity.
  - inversion He; subst. inversion Hc; inversion Hf; reflexivity.
  - rewrite emb_VList in He. destruct (emb_list l) as [fl|] eqn:El; [|discriminate].
    inversion He; subst fv. cbn [apply_filter] in Hc. cbn [FiltersSeq.last_f] in Hf. inversion Hf; subst fr.
    assert (Hr : r = last l VNil).
    { rewrite <- (rev_head_last l VNil). destruct (rev l); inversion Hc; reflexivity. }
    subst r. apply emb_last. exact El.
  - cbn [emb] in He.
    match type of He with option_map _ ?g = _ => destruct g; [|discriminate] end.
    inversion He; subst fv. inversion Hc; inversion Hf; reflexivity.
Qed.

(** * sequence_arg / _flatten and join *)
Lemma emb_list_app a b fa fb :
  emb_list a = Some fa -> emb_list b = Some fb -> emb_list (a ++ b) = Some (fa ++ fb).
Proof.
  revert fa. induction a as [|x a IH]; intros fa Ha Hb.
  - inversion Ha. exact Hb.
  - cbn [emb_list app] in *. destruct (emb x) as [fx|]; [|discriminate].
    destruct (emb_list a) as [fr|]; [|discriminate]. inversion Ha; subst fa.
    rewrite (IH fr eq_refl Hb). reflexivity.
Qed.

Lemma flatten_cons lv x l :
  flatten lv (x :: l) =
  match lv, x with
  | S lv', VList inner => flatten lv' inner ++ flatten lv l
  | _, _ => x :: flatten lv l
  end.
Proof. destruct lv; reflexivity. Qed.

Lemma flatten_nil lv : flatten lv [] = [].
Proof. destruct lv; reflexivity. Qed.

Lemma f_flatten_cons lv x l :
  F.flatten (S lv) (x :: l) =
  match x with F.FList l' => F.flatten lv l' | _ => [x] end ++ F.flatten (S lv) l.
Proof. reflexivity. Qed.

Lemma emb_not_list x fx : emb x = Some fx -> (forall l, x <> VList l) -> forall fl, fx <> F.FList fl.
Proof.
  intros He Hn fl. destruct x; try discriminate; cbn [emb] in He.
  1-4: inversion He; discriminate.
  - exfalso. apply (Hn l). reflexivity.
  - match type of He with option_map _ ?g = _ => destruct g; [|discriminate] end. inversion He. discriminate.
Qed.

Lemma flatten_models_agree : forall lv l fl,
  emb_list l = Some fl -> emb_list (flatten lv l) = Some (F.flatten lv fl).
Proof.
  induction lv as [|lv IHlv]; intros l.
  - induction l as [|x l IH]; intros fl H.
    + inversion H. reflexivity.
    + rewrite flatten_cons. cbn [emb_list] in *. destruct (emb x) as [fx|]; [|discriminate].
      destruct (emb_list l) as [fr|] eqn:Er; [|discriminate]. inversion H; subst fl.
      rewrite (IH fr eq_refl). reflexivity.
  - induction l as [|x l IH]; intros fl H.
    + inversion H. reflexivity.
    + cbn [emb_list] in H. destruct (emb x) as [fx|] eqn:Ex; [|discriminate].
      destruct (emb_list l) as [fr|] eqn:Er; [|discriminate]. inversion H; subst fl.
      rewrite flatten_cons, f_flatten_cons. specialize (IH fr eq_refl).
      destruct x; try discriminate.
      1-4: cbn [emb] in Ex; inversion Ex; subst fx; cbn [emb_list emb app]; rewrite IH; reflexivity.
      * rewrite emb_VList in Ex. destruct (emb_list l0) as [fi|] eqn:Ei; [|discriminate].
        inversion Ex; subst fx. apply emb_list_app; [apply IHlv; exact Ei|exact IH].
      * assert (Hfx : forall fl0, fx <> F.FList fl0) by (apply (emb_not_list _ _ Ex); discriminate).
        destruct fx; try (exfalso; eapply Hfx; reflexivity).
        all: cbn [emb_list app]; rewrite Ex, IH; reflexivity.
Qed.

Lemma sequence_arg_models_agree v fv items :
  emb v = Some fv -> sequence_arg v = Some items -> emb_list items = Some (F.sequence_arg fv).
Proof.
  intros He Hs. destruct v; try discriminate.
  - inversion He; subst. inversion Hs; subst. reflexivity.
  - inversion He; subst. inversion Hs; subst. reflexivity.
  - inversion He; subst. inversion Hs; subst. reflexivity.
  - inversion He; subst. inversion Hs; subst. cbn [F.sequence_arg]. clear Hs He.
    induction s as [|c s IH]; [reflexivity|]. cbn [map emb_list emb]. rewrite IH. reflexivity.
  - rewrite emb_VList in He. destruct (emb_list l) as [fl|] eqn:El; [|discriminate].
    inversion He; subst fv.
    change (sequence_arg (VList l)) with (Some (flatten 5 l)) in Hs.
    assert (Hi : items = flatten 5 l) by congruence. subst items.
    change (F.sequence_arg (F.FList fl)) with (F.flatten 5 fl).
    apply flatten_models_agree. exact El.
  - inversion Hs; subst items. cbn [emb_list]. rewrite He.
    cbn [emb] in He. match type of He with option_map _ ?g = _ => destruct g; [|discriminate] end.
    inversion He. reflexivity.
Qed.

Lemma join_strs_eq sep l : join_strs sep l = FiltersSeq.join_str sep l.
Proof. induction l as [|x l IH]; [reflexivity|]. cbn [join_strs FiltersSeq.join_str]. rewrite IH. reflexivity. Qed.

Lemma mapM_tls_models_agree : forall items fitems ss,
  emb_list items = Some fitems ->
  FiltersSeq.mapM F.to_liquid_string fitems = Ok ss ->
  all_some (map to_liquid_string items) = Some ss.
Proof.
  induction items as [|x items IH]; intros fitems ss He Hm.
  - inversion He; subst. cbn in Hm. inversion Hm. reflexivity.
  - cbn [emb_list] in He. destruct (emb x) as [fx|] eqn:Ex; [|discriminate].
    destruct (emb_list items) as [fr|] eqn:Er; [|discriminate]. inversion He; subst fitems.
    cbn [FiltersSeq.mapM] in Hm.
    destruct (F.to_liquid_string fx) as [a| | |] eqn:Ea; try discriminate. cbn [bind] in Hm.
    destruct (FiltersSeq.mapM F.to_liquid_string fr) as [b| | |] eqn:Eb; try discriminate. cbn [bind] in Hm.
    inversion Hm; subst ss. cbn [map all_some].
    rewrite (to_liquid_string_models_agree x fx a Ex Ea), (IH fr b eq_refl Eb). reflexivity.
Qed.

(** join with no separator or any separator both models give a string form for *)
Theorem join_models_agree : forall v fv args fsep r fr,
  emb v = Some fv ->
  match args, fsep with
  | [], None => True
  | [a], Some fa => emb a = Some fa
  | _, _ => False
  end ->
  apply_filter FJoin v args = EOk r -> FiltersSeq.join_f fv fsep = Ok fr -> emb r = Some fr.
Proof.
  intros v fv args fsep r fr He Hargs Hc Hf.
  unfold FiltersSeq.join_f in Hf.
  assert (Tail : forall sp,
    match sequence_arg v with
    | Some items => match all_some (map to_liquid_string items) with
                    | Some strs => EOk (VStr (join_strs sp strs)) | None => EUnm end
    | None => EUnm end = EOk r ->
    (do ss <- FiltersSeq.mapM F.to_liquid_string (F.sequence_arg fv);;
     Ok (F.FStr (FiltersSeq.join_str sp ss))) = Ok fr ->
    emb r = Some fr).
  { intros sp Hc' Hf'.
    destruct (sequence_arg v) as [items|] eqn:Eseq; [|discriminate].
    pose proof (sequence_arg_models_agree v fv items He Eseq) as Hitems.
    destruct (FiltersSeq.mapM F.to_liquid_string (F.sequence_arg fv)) as [ss| | |] eqn:Em; try discriminate.
    cbn [bind] in Hf'. inversion Hf'; subst fr.
    rewrite (mapM_tls_models_agree items _ ss Hitems Em) in Hc'. inversion Hc'; subst r.
    cbn [emb]. rewrite join_strs_eq. reflexivity. }
  destruct args as [|a [|a2 args]]; destruct fsep as [fa|]; try contradiction.
  - cbn [apply_filter] in Hc. cbn [bind] in Hf. apply (Tail [32%N]); assumption.
  - cbn [apply_filter] in Hc.
    destruct (F.to_liquid_string fa) as [t| | |] eqn:Et; try discriminate. cbn [bind] in Hf.
    rewrite (to_liquid_string_models_agree a fa t Hargs Et) in Hc.
    apply (Tail t); assumption.
Qed.

(** Non-vacuity: both models answer (and agree) on a nested list joined with an
    integer separator, and on the filters of the agreement theorem. *)
Example models_agree_example :
  let v := VList [VInt 12; VList [VStr [97%N]; VBool true]; VNil] in
  emb v = Some (F.FList [F.FInt 12; F.FList [F.FStr [97%N]; F.FBool true]; F.FNil])
  /\ apply_filter FJoin v [VInt 0] = EOk (VStr [49; 50; 48; 97; 48; 116; 114; 117; 101; 48]%N)
  /\ FiltersSeq.join_f (F.FList [F.FInt 12; F.FList [F.FStr [97%N]; F.FBool true]; F.FNil]) (Some (F.FInt 0))
     = Ok (F.FStr [49; 50; 48; 97; 48; 116; 114; 117; 101; 48]%N)
  /\ apply_filter FUpcase v [] = EOk (VStr [49; 50; 65; 84; 82; 85; 69]%N)
  /\ FiltersStr.upcase_f (F.FList [F.FInt 12; F.FList [F.FStr [97%N]; F.FBool true]; F.FNil])
     = Ok (F.FStr [49; 50; 65; 84; 82; 85; 69]%N).
Proof. vm_compute. repeat split; reflexivity. Qed.
