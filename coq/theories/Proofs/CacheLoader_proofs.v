From LQ Require Import Base.Str Kernels.LRU Kernels.CacheLoader.
