(** Proofs about Kernels/CacheLoader.v. *)
From LQ Require Import Base.Str Kernels.LRU Kernels.CacheLoader Proofs.LRU_proofs.
From Coq Require Import Lia.

(** * Well-formedness of configurations and calls *)

Definition wf_cfg (c : cfg) : Prop :=
  1 <= c_cap c /\ (c_ns_aware c = true -> c_ns_key c = true).

(** With a namespace key configured, every call passes a namespace that does
    not contain "/" (guard of the known finding cache-key-collision). *)
Definition wf_call (c : cfg) (ns : option str) : Prop :=
  c_ns_key c = true -> exists n, ns = Some n /\ ~ In slash n.

Definition wf_op (c : cfg) (o : op) : Prop :=
  match o with Load _ ns _ _ _ => wf_call c ns | _ => True end.

Lemma split_unique (a b a' b' : str) :
  ~ In slash a -> ~ In slash a' -> a ++ slash :: b = a' ++ slash :: b' -> a = a' /\ b = b'.
Proof.
  revert a'. induction a as [|x a IH]; intros [|y a'] Ha Ha' E; simpl in *.
  - inversion E; auto.
  - inversion E; subst. exfalso; apply Ha'; auto.
  - inversion E; subst. exfalso; apply Ha; auto.
  - inversion E; subst. destruct (IH a') as [-> ->]; auto.
Qed.

Lemma cache_key_determines_source c name ns name' ns' :
  wf_cfg c -> wf_call c ns -> wf_call c ns' ->
  cache_key c name ns = cache_key c name' ns' ->
  source_key c name ns = source_key c name' ns'.
Proof.
  intros [_ Hw] H1 H2. unfold cache_key, source_key, wf_call in *.
  destruct (c_ns_key c) eqn:Ek.
  - destruct (H1 eq_refl) as (n & -> & Hn). destruct (H2 eq_refl) as (n' & -> & Hn').
    intro E. apply split_unique in E as [-> ->]; auto.
  - destruct (c_ns_aware c); [specialize (Hw eq_refl); discriminate|]. auto.
Qed.

(** * Membership after cache operations *)

Section Mem.
Context {V : Type}.

Lemma In_remove_key (k k' : str) (v' : V) l : In (k', v') (remove_key k l) -> In (k', v') l.
Proof.
  induction l as [|[k0 v0] l IH]; simpl; [tauto|].
  destruct (str_eqb k k0); simpl; intuition.
Qed.

Lemma assoc_In (k : str) (v : V) l : assoc k l = Some v -> In (k, v) l.
Proof.
  induction l as [|[k0 v0] l IH]; simpl; [discriminate|].
  destruct (str_eqb k k0) eqn:E.
  - apply str_eqb_eq in E; subst. intro H; inversion H; auto.
  - auto.
Qed.

Lemma In_lru_get (c c' : lru V) k v k' v' :
  lru_get c k = Some (v, c') -> In (k', v') (od c') -> In (k', v') (od c).
Proof.
  unfold lru_get. destruct (assoc k (od c)) as [v0|] eqn:Ha; [|discriminate].
  intro E; inversion E; subst; clear E. simpl. unfold od_move_to_end.
  rewrite in_app_iff. simpl. intros [H|[H|[]]].
  - eapply In_remove_key; eauto.
  - inversion H; subst. apply assoc_In; auto.
Qed.

Lemma lru_get_In (c c' : lru V) k v : lru_get c k = Some (v, c') -> In (k, v) (od c).
Proof.
  unfold lru_get. destruct (assoc k (od c)) as [v0|] eqn:Ha; [|discriminate].
  intro E; inversion E; subst. apply assoc_In; auto.
Qed.

Lemma In_lru_set (c : lru V) k v k' v' :
  In (k', v') (od (lru_set c k v)) -> (k' = k /\ v' = v) \/ In (k', v') (od c).
Proof.
  unfold lru_set. destruct (assoc k (od c)) as [v0|]; simpl.
  - unfold od_move_to_end. rewrite in_app_iff. simpl. intros [H|[H|[]]].
    + right. eapply In_remove_key; eauto.
    + inversion H; auto.
  - rewrite in_app_iff. simpl. intros [H|[H|[]]].
    + right. destruct (Nat.leb _ _); [apply In_tl|]; exact H.
    + inversion H; auto.
Qed.

Lemma In_od_mutate k (f : V -> V) l k' v' :
  In (k', v') (od_mutate k f l) -> In (k', v') l \/ exists v0, In (k', v0) l /\ v' = f v0.
Proof.
  induction l as [|[k0 v0] l IH]; simpl; [tauto|].
  destruct (str_eqb k k0); simpl.
  - intros [H|H]; [inversion H; subst; right; eauto|auto].
  - intros [H|H]; [auto|]. apply IH in H as [H|(v1 & H & ->)]; eauto.
Qed.

End Mem.

(** * The invariant *)

Definition entry_ok (c : cfg) (s : st) (ck : str) (t : tmpl) : Prop :=
  (t_ver t < next_ver s)%N /\ t_fresh t = c_fresh c /\
  (forall ct, assoc (t_key t) (store s) = Some (ct, t_ver t) -> ct = t_content t) /\
  (exists name ns, wf_call c ns /\ ck = cache_key c name ns /\ t_key t = source_key c name ns).

Record Inv (c : cfg) (s : st) : Prop := {
  inv_lru : lru_inv (cache s);
  inv_cap : cap (cache s) = c_cap c;
  inv_store : forall k ct v, assoc k (store s) = Some (ct, v) -> (v < next_ver s)%N;
  inv_entries : forall ck t, In (ck, t) (od (cache s)) -> entry_ok c s ck t
}.

Lemma init_inv c : wf_cfg c -> Inv c (init c).
Proof.
  intros [Hc _]. constructor; simpl.
  - apply lru_empty_inv; exact Hc.
  - reflexivity.
  - discriminate.
  - tauto.
Qed.

Lemma entry_ok_set_globals c s ck t g : entry_ok c s ck t -> entry_ok c s ck (set_globals t g).
Proof. unfold entry_ok. destruct t; simpl. auto. Qed.

Lemma uncached_entry_ok c s name ns g a t fn :
  Inv c s -> wf_call c ns -> uncached_load c s name ns g a = (Some t, fn) ->
  entry_ok c s (cache_key c name ns) t.
Proof.
  intros HI Hw. unfold uncached_load.
  destruct (fail_next s); [discriminate|].
  destruct (assoc (source_key c name ns) (store s)) as [[ct v]|] eqn:Ea; [|discriminate].
  intro E; inversion E; subst; clear E. unfold entry_ok; simpl. repeat split.
  - eapply inv_store; eauto.
  - intros ct' E'. congruence.
  - exists name, ns. auto.
Qed.

Lemma entry_ok_same_store c s s' ck t :
  store s' = store s -> next_ver s' = next_ver s -> entry_ok c s ck t -> entry_ok c s' ck t.
Proof. unfold entry_ok. intros -> ->. auto. Qed.

Lemma cached_load_inv c s name ns g a rb :
  wf_cfg c -> Inv c s -> wf_call c ns -> Inv c (snd (cached_load c s name ns g a rb)).
Proof.
  intros Hc HI Hw. unfold cached_load.
  destruct (lru_get (cache s) (cache_key c name ns)) as [[t ch1]|] eqn:Eg.
  - destruct (lru_get_inv _ _ _ _ (inv_lru _ _ HI) Eg) as [Hi1 Hcap1].
    assert (Hent1 : forall ck t', In (ck, t') (od ch1) -> entry_ok c s ck t').
    { intros ck t' Hin. eapply inv_entries; eauto. eapply In_lru_get; eauto. }
    destruct (c_auto_reload c && negb (is_up_to_date s t a)).
    + destruct (uncached_load c s name ns g a) as [[t'|] fn] eqn:Eu; simpl.
      * destruct (lru_set_inv ch1 (cache_key c name ns) t' Hi1) as [Hi2 Hcap2].
        constructor; simpl; auto.
        -- rewrite Hcap2, Hcap1. apply (inv_cap _ _ HI).
        -- apply (inv_store _ _ HI).
        -- intros ck t0 Hin. apply In_lru_set in Hin as [[-> ->]|Hin].
           ++ eapply entry_ok_same_store; [| |eapply uncached_entry_ok; eauto]; reflexivity.
           ++ eapply entry_ok_same_store; [| |apply Hent1; exact Hin]; reflexivity.
      * constructor; simpl; auto.
        -- rewrite Hcap1. apply (inv_cap _ _ HI).
        -- apply (inv_store _ _ HI).
    + simpl. destruct rb; constructor; simpl.
      * apply lru_mutate_inv; exact Hi1.
      * rewrite Hcap1. apply (inv_cap _ _ HI).
      * apply (inv_store _ _ HI).
      * intros ck t0 Hin. apply In_od_mutate in Hin as [Hin|(t1 & Hin & ->)].
        -- apply Hent1; exact Hin.
        -- apply entry_ok_set_globals. apply Hent1; exact Hin.
      * exact Hi1.
      * rewrite Hcap1. apply (inv_cap _ _ HI).
      * apply (inv_store _ _ HI).
      * exact Hent1.
  - destruct (uncached_load c s name ns g a) as [[t'|] fn] eqn:Eu; simpl.
    + destruct (lru_set_inv (cache s) (cache_key c name ns) t' (inv_lru _ _ HI)) as [Hi2 Hcap2].
      constructor; simpl; auto.
      * rewrite Hcap2. apply (inv_cap _ _ HI).
      * apply (inv_store _ _ HI).
      * intros ck t0 Hin. apply In_lru_set in Hin as [[-> ->]|Hin].
        -- eapply entry_ok_same_store; [| |eapply uncached_entry_ok; eauto]; reflexivity.
        -- eapply entry_ok_same_store; [| |eapply inv_entries; eauto]; reflexivity.
    + constructor; simpl; try apply HI.
Qed.

Lemma assoc_dict_set {V} (k k' : str) (v : V) l :
  assoc k' (dict_set k v l) = if str_eqb k' k then Some v else assoc k' l.
Proof.
  induction l as [|[k0 v0] l IH]; simpl.
  - destruct (str_eqb k' k); reflexivity.
  - destruct (str_eqb k k0) eqn:E; simpl.
    + apply str_eqb_eq in E; subst. destruct (str_eqb k' k0); reflexivity.
    + rewrite IH. destruct (str_eqb k' k0) eqn:E2, (str_eqb k' k) eqn:E3; try reflexivity.
      apply str_eqb_eq in E2, E3; subst. rewrite str_eqb_refl in E. discriminate.
Qed.

Lemma assoc_remove_key {V} (k k' : str) (l : list (str * V)) :
  assoc k' (remove_key k l) = if str_eqb k' k then None else assoc k' l.
Proof.
  induction l as [|[k0 v0] l IH]; simpl.
  - destruct (str_eqb k' k); reflexivity.
  - destruct (str_eqb k k0) eqn:E; simpl.
    + apply str_eqb_eq in E; subst. rewrite IH. destruct (str_eqb k' k0); reflexivity.
    + rewrite IH. destruct (str_eqb k' k0) eqn:E2, (str_eqb k' k) eqn:E3; try reflexivity.
      apply str_eqb_eq in E2, E3; subst. rewrite str_eqb_refl in E. discriminate.
Qed.

Lemma step_inv c s o : wf_cfg c -> Inv c s -> wf_op c o -> Inv c (snd (step c s o)).
Proof.
  intros Hc HI Hw. destruct o as [name ns g a via|k content|k|]; simpl.
  - apply cached_load_inv; auto.
  - constructor; simpl; try apply HI.
    + intros k' ct v. rewrite assoc_dict_set. destruct (str_eqb k' k).
      * intro E; inversion E; subst. lia.
      * intro E. apply (inv_store _ _ HI) in E. lia.
    + intros ck t Hin. destruct (inv_entries _ _ HI ck t Hin) as (H1 & H2 & H3 & H4).
      unfold entry_ok; simpl. repeat split; auto; [lia|].
      intros ct. rewrite assoc_dict_set. destruct (str_eqb (t_key t) k).
      * intro E; inversion E; subst. lia.
      * apply H3.
  - constructor; simpl; try apply HI.
    + intros k' ct v. rewrite assoc_remove_key. destruct (str_eqb k' k); [discriminate|].
      apply (inv_store _ _ HI).
    + intros ck t Hin. destruct (inv_entries _ _ HI ck t Hin) as (H1 & H2 & H3 & H4).
      unfold entry_ok; simpl. repeat split; auto.
      intros ct. rewrite assoc_remove_key. destruct (str_eqb (t_key t) k); [discriminate|apply H3].
  - constructor; simpl; apply HI.
Qed.

Lemma final_inv c ops : wf_cfg c -> Forall (wf_op c) ops -> forall s, Inv c s -> Inv c (final c s ops).
Proof.
  intros Hc Hf. induction Hf as [|o ops Ho _ IH]; simpl; intros s HI; [exact HI|].
  apply IH. apply step_inv; auto.
Qed.

(** * Capacity and key uniqueness in every reachable state *)

Lemma cache_le_capacity c ops :
  wf_cfg c -> Forall (wf_op c) ops ->
  lru_len (cache (final c (init c) ops)) <= c_cap c
  /\ NoDup (lru_keys (cache (final c (init c) ops))).
Proof.
  intros Hc Hf. pose proof (final_inv c ops Hc Hf _ (init_inv c Hc)) as HI.
  destruct (inv_lru _ _ HI) as (Hd & Hl & _). rewrite (inv_cap _ _ HI) in Hl.
  split; [exact Hl|]. unfold lru_keys. apply NoDup_rev. exact Hd.
Qed.

(** * The caller's globals are always the ones bound *)

Lemma loaded_globals_are_callers c s name ns g a rb ct g' :
  fst (cached_load c s name ns g a rb) = Loaded ct g' -> g' = g.
Proof.
  unfold cached_load, uncached_load.
  destruct (lru_get (cache s) (cache_key c name ns)) as [[t ch1]|].
  - destruct (c_auto_reload c && negb (is_up_to_date s t a)).
    + destruct (fail_next s); simpl; [discriminate|].
      destruct (assoc _ _) as [[? ?]|]; simpl; [|discriminate].
      intro E; inversion E; reflexivity.
    + simpl. intro E; inversion E; reflexivity.
  - destruct (fail_next s); simpl; [discriminate|].
    destruct (assoc _ _) as [[? ?]|]; simpl; [|discriminate].
    intro E; inversion E; reflexivity.
Qed.

(** * What the non-caching loader answers (absent an injected fault) *)

Definition truth (c : cfg) (s : st) (name : str) (ns : option str) (g : N) : obs :=
  match assoc (source_key c name ns) (store s) with
  | Some (ct, _) => Loaded ct g
  | None => NotFound
  end.

Lemma uncached_is_truth c s name ns g a via :
  fail_next s = false ->
  fst (uncached_step c s (Load name ns g a via)) = truth c s name ns g.
Proof.
  intro Hf. simpl. unfold uncached_load, truth. rewrite Hf.
  destruct (assoc _ _) as [[? ?]|]; reflexivity.
Qed.

Lemma uncached_load_obs c s name ns g a :
  match uncached_load c s name ns g a with
  | (Some t, _) => Loaded (t_content t) (t_globals t) = truth c s name ns g /\ fail_next s = false
  | (None, _) => truth c s name ns g = NotFound \/ fail_next s = true
  end.
Proof.
  unfold uncached_load, truth. destruct (fail_next s); [auto|].
  destruct (assoc _ _) as [[? ?]|]; simpl; auto.
Qed.

(** * Transparency under auto-reload with freshness information *)

Lemma cached_load_fresh c s name ns g a rb :
  wf_cfg c -> Inv c s -> wf_call c ns ->
  c_auto_reload c = true -> c_fresh c = true ->
  fst (cached_load c s name ns g a rb) = truth c s name ns g
  \/ (fail_next s = true /\ fst (cached_load c s name ns g a rb) = NotFound).
Proof.
  intros Hc HI Hw Har Hfr. unfold cached_load.
  pose proof (uncached_load_obs c s name ns g a) as Hu.
  destruct (lru_get (cache s) (cache_key c name ns)) as [[t ch1]|] eqn:Eg.
  - rewrite Har. simpl.
    destruct (is_up_to_date s t a) eqn:Eup; simpl.
    + (* served from the cache: it is up to date, hence equal to the source *)
      left. apply lru_get_In in Eg.
      destruct (inv_entries _ _ HI _ _ Eg) as (_ & Hf & Hct & name' & ns' & Hw' & Hk & Hs).
      unfold is_up_to_date in Eup. rewrite Hf, Hfr in Eup. simpl in Eup.
      assert (Hm : mtime_same s t = true).
      { destruct a; [exact Eup|]. destruct (t_async t); [discriminate|exact Eup]. }
      unfold mtime_same in Hm.
      destruct (assoc (t_key t) (store s)) as [[ct v]|] eqn:Ea; [|discriminate].
      apply N.eqb_eq in Hm; subst v. rewrite (Hct ct eq_refl) in Ea.
      unfold truth.
      rewrite (cache_key_determines_source c name ns name' ns' Hc Hw Hw' Hk), <- Hs, Ea.
      reflexivity.
    + destruct (uncached_load c s name ns g a) as [[t'|] fn]; simpl.
      * left. apply Hu.
      * destruct Hu as [Hu|Hu]; [left; symmetry; exact Hu|right; auto].
  - destruct (uncached_load c s name ns g a) as [[t'|] fn]; simpl.
    + left. apply Hu.
    + destruct Hu as [Hu|Hu]; [left; symmetry; exact Hu|right; auto].
Qed.

(** * Namespace isolation: whatever the cache holds under the key of
      (name, ns) was read from the source of (name, ns) *)

Lemma cached_entry_source c s name ns t :
  wf_cfg c -> Inv c s -> wf_call c ns ->
  In (cache_key c name ns, t) (od (cache s)) -> t_key t = source_key c name ns.
Proof.
  intros Hc HI Hw Hin.
  destruct (inv_entries _ _ HI _ _ Hin) as (_ & _ & _ & name' & ns' & Hw' & Hk & Hs).
  rewrite Hs. symmetry. apply cache_key_determines_source; auto.
Qed.

(** * Without auto-reload / freshness: a served template is a cached entry;
      and every cached entry was produced by a load for the same cache key,
      and has stayed in the cache since.  [origin] is stated over histories. *)

Definition keys_of (s : st) : list str := keys (od (cache s)).

(** [loaded_before c ops ck ct]: at some earlier point of [ops] a Load whose
    cache key is [ck] obtained content [ct] from the non-caching loader, and
    [ck] has been in the cache after every step since. *)
Definition loaded_before (c : cfg) (ops : list op) (ck : str) (ct : N) : Prop :=
  exists ops1 name ns g a via ops2,
    ops = ops1 ++ Load name ns g a via :: ops2 /\
    cache_key c name ns = ck /\
    fail_next (final c (init c) ops1) = false /\
    (exists g', truth c (final c (init c) ops1) name ns g' = Loaded ct g') /\
    forall n, In ck (keys_of (final c (init c) (ops1 ++ firstn (S n) (Load name ns g a via :: ops2)))).

Lemma final_app c s ops1 ops2 : final c s (ops1 ++ ops2) = final c (final c s ops1) ops2.
Proof. revert s. induction ops1 as [|o ops1 IH]; simpl; intro s; [reflexivity|apply IH]. Qed.

Lemma final_snoc c s ops o : final c s (ops ++ [o]) = snd (step c (final c s ops) o).
Proof. rewrite final_app. reflexivity. Qed.

Lemma loaded_before_extend c ops o ck ct :
  loaded_before c ops ck ct ->
  In ck (keys_of (final c (init c) (ops ++ [o]))) ->
  loaded_before c (ops ++ [o]) ck ct.
Proof.
  intros (ops1 & name & ns & g & a & via & ops2 & -> & Hk & Hf & Ht & Hall) Hin.
  exists ops1, name, ns, g, a, via, (ops2 ++ [o]). repeat split; auto.
  - rewrite <- app_assoc. reflexivity.
  - intro n. specialize (Hall n). simpl in *.
    destruct (Nat.le_gt_cases n (length ops2)) as [Hle|Hgt].
    + rewrite firstn_app. replace (n - length ops2) with 0 by lia.
      simpl. rewrite app_nil_r. exact Hall.
    + rewrite firstn_all2 by (rewrite app_length; simpl; lia).
      rewrite <- app_assoc in Hin. simpl in Hin. exact Hin.
Qed.

Lemma In_keys {V} (k : str) (v : V) l : In (k, v) l -> In k (keys l).
Proof. intro H. unfold keys. change k with (fst (k, v)). apply in_map. exact H. Qed.

Lemma Forall_snoc_inv {A} (P : A -> Prop) l x : Forall P (l ++ [x]) -> Forall P l /\ P x.
Proof.
  intro H. apply Forall_app in H as [H1 H2]. inversion H2; auto.
Qed.

Theorem entries_loaded_before c ops :
  wf_cfg c -> Forall (wf_op c) ops ->
  forall ck t, In (ck, t) (od (cache (final c (init c) ops))) ->
               loaded_before c ops ck (t_content t).
Proof.
  intro Hc. induction ops as [|o ops IH] using rev_ind; intros Hf ck t Hin.
  - simpl in Hin. contradiction.
  - apply Forall_snoc_inv in Hf as [Hf Ho]. specialize (IH Hf).
    assert (Hkey : In ck (keys_of (final c (init c) (ops ++ [o])))).
    { unfold keys_of. eapply In_keys; eauto. }
    rewrite final_snoc in Hin.
    set (s := final c (init c) ops) in *.
    assert (Hold : forall t0, In (ck, t0) (od (cache s)) -> t_content t0 = t_content t ->
                              loaded_before c (ops ++ [o]) ck (t_content t)).
    { intros t0 Hin0 <-. apply loaded_before_extend; auto. }
    destruct o as [name ns g0 a via|k content|k|]; simpl in Hin;
      try (apply (Hold t Hin eq_refl)).
    (* Load *)
    set (g := g0) in *.
    set (rb := negb via) in *.
    unfold cached_load in Hin.
    assert (Hnew : forall t' fn, uncached_load c s name ns g a = (Some t', fn) ->
                   loaded_before c (ops ++ [Load name ns g0 a via]) (cache_key c name ns) (t_content t')).
    { intros t' fn Eu. exists ops, name, ns, g0, a, via, [].
      pose proof (uncached_load_obs c s name ns g a) as Hu. rewrite Eu in Hu.
      destruct Hu as [Hu1 Hu2]. repeat split; auto.
      - exists g. fold s. rewrite <- Hu1. f_equal.
        unfold uncached_load in Eu. rewrite Hu2 in Eu.
        destruct (assoc _ _) as [[? ?]|]; inversion Eu; reflexivity.
      - intro n. simpl. rewrite firstn_nil.
        (* the key is in the cache after this very step *)
        rewrite final_snoc. fold s. simpl. fold g. fold rb. unfold cached_load.
        destruct (lru_get (cache s) (cache_key c name ns)) as [[t1 ch1]|] eqn:Eg.
        + destruct (c_auto_reload c && negb (is_up_to_date s t1 a)).
          * rewrite Eu. simpl. unfold keys_of. simpl.
            unfold lru_set. destruct (assoc _ (od ch1)); simpl;
              [unfold od_move_to_end|]; rewrite keys_app, in_app_iff; simpl; auto.
          * simpl. unfold keys_of. simpl.
            unfold lru_get in Eg. destruct (assoc _ _) eqn:Ea; [|discriminate].
            inversion Eg; subst.
            destruct rb; simpl; rewrite ?od_mutate_keys; unfold od_move_to_end;
              rewrite keys_app, in_app_iff; simpl; auto.
        + rewrite Eu. simpl. unfold keys_of. simpl.
          unfold lru_set. destruct (assoc _ (od (cache s))); simpl;
            [unfold od_move_to_end|]; rewrite keys_app, in_app_iff; simpl; auto. }
    destruct (lru_get (cache s) (cache_key c name ns)) as [[t1 ch1]|] eqn:Eg.
    + destruct (c_auto_reload c && negb (is_up_to_date s t1 a)).
      * destruct (uncached_load c s name ns g a) as [[t'|] fn] eqn:Eu; simpl in Hin.
        -- apply In_lru_set in Hin as [[-> ->]|Hin]; [eapply Hnew; eauto|].
           eapply Hold; [eapply In_lru_get; eauto|reflexivity].
        -- eapply Hold; [eapply In_lru_get; eauto|reflexivity].
      * simpl in Hin. destruct rb; simpl in Hin.
        -- apply In_od_mutate in Hin as [Hin|(t0 & Hin & ->)].
           ++ eapply Hold; [eapply In_lru_get; eauto|reflexivity].
           ++ eapply Hold; [eapply In_lru_get; eauto|]. destruct t0; reflexivity.
        -- eapply Hold; [eapply In_lru_get; eauto|reflexivity].
    + destruct (uncached_load c s name ns g a) as [[t'|] fn] eqn:Eu; simpl in Hin.
      * apply In_lru_set in Hin as [[-> ->]|Hin]; [eapply Hnew; eauto|].
        eapply Hold; eauto.
      * eapply Hold; eauto.
Qed.

(** * The full transparency statement *)

Theorem caching_transparent c ops name ns g0 a via :
  wf_cfg c -> Forall (wf_op c) ops -> wf_call c ns ->
  let s := final c (init c) ops in
  let ob := fst (step c s (Load name ns g0 a via)) in
  (* a template loaded from inside a render is rendered in the including
     template's context: its own globals are not observed *)
  let g := g0 in
  (* what the non-caching loader gives at this moment *)
  ob = truth c s name ns g
  (* or nothing, if the source is failing during this step *)
  \/ (fail_next s = true /\ ob = NotFound)
  (* or - only without auto-reload or without freshness information - what an
     earlier load for the same cache key obtained, the entry not having left
     the cache since; in every case with the caller's own globals *)
  \/ ((c_auto_reload c && c_fresh c = false) /\
      exists ct, ob = Loaded ct g /\ loaded_before c ops (cache_key c name ns) ct).
Proof.
  intros Hc Hf Hw s ob g.
  pose proof (final_inv c ops Hc Hf _ (init_inv c Hc)) as HI. fold s in HI.
  subst ob. simpl. fold g.
  destruct (c_auto_reload c && c_fresh c) eqn:Eaf.
  - apply andb_true_iff in Eaf as [Har Hfr].
    destruct (cached_load_fresh c s name ns g a (negb via) Hc HI Hw Har Hfr) as [H|H]; auto.
  - unfold cached_load.
    pose proof (uncached_load_obs c s name ns g a) as Hu.
    destruct (lru_get (cache s) (cache_key c name ns)) as [[t ch1]|] eqn:Eg.
    + destruct (c_auto_reload c && negb (is_up_to_date s t a)).
      * destruct (uncached_load c s name ns g a) as [[t'|] fn]; simpl.
        -- left. apply Hu.
        -- destruct Hu as [Hu|Hu]; [left; symmetry; exact Hu|right; left; auto].
      * simpl. right. right. split; [reflexivity|]. exists (t_content t). split; [reflexivity|].
        apply lru_get_In in Eg. apply (entries_loaded_before c ops Hc Hf _ _ Eg).
    + destruct (uncached_load c s name ns g a) as [[t'|] fn]; simpl.
      * left. apply Hu.
      * destruct Hu as [Hu|Hu]; [left; symmetry; exact Hu|right; left; auto].
Qed.

(** Non-vacuity: a concrete history with a cache hit, an eviction and a reload
    satisfies the hypotheses. *)
Example transparent_example :
  let c := {| c_cap := 1; c_auto_reload := true; c_ns_key := true; c_ns_aware := true; c_fresh := true |} in
  let u := [117%N] in let a := [97%N] in let b := [98%N] in
  let ops := [Modify (u ++ slash :: a) 7; Modify (u ++ slash :: b) 8;
              Load a (Some u) 1 false false; Load a (Some u) 0 false false; Load b (Some u) 0 false true;
              Modify (u ++ slash :: b) 9] in
  wf_cfg c /\ Forall (wf_op c) ops /\
  map fst (run c (init c) (ops ++ [Load b (Some u) 2 false false])) =
    [Quiet; Quiet; Loaded 7 1; Loaded 7 0; Loaded 8 0; Quiet; Loaded 9 2].
Proof.
  intros c u a b ops. split; [split; [simpl; lia|intros _; reflexivity]|]. split.
  - repeat constructor; simpl; try (intros _; eexists; split; [reflexivity|]; simpl;
      intros [H|[]]; discriminate).
  - vm_compute. reflexivity.
Qed.

(** * Loads made with a render context leave every cached binding alone *)

Lemma assoc_move_to_end {V} (k k' : str) (v : V) l :
  assoc k l = Some v -> assoc k' (od_move_to_end k v l) = assoc k' l.
Proof.
  intro H. unfold od_move_to_end. rewrite assoc_app, assoc_remove_key. simpl.
  destruct (str_eqb k' k) eqn:E.
  - apply str_eqb_eq in E. subst k'. symmetry. exact H.
  - destruct (assoc k' l); reflexivity.
Qed.

(** A cache hit that needs no reload, made with a render context (include /
    render / extends, or get_template with a context argument): the caller is
    served the template bound to its OWN globals [g], and every entry of the
    cache - the one that was hit included - still holds the template object it
    held, with the globals its holder bound: only the recency order changes. *)
Theorem context_hit_serves_own_globals_and_keeps_bindings c s name ns g a t ch1 :
  lru_get (cache s) (cache_key c name ns) = Some (t, ch1) ->
  c_auto_reload c && negb (is_up_to_date s t a) = false ->
  let r := cached_load c s name ns g a false in
  fst r = Loaded (t_content t) g /\
  (forall k, assoc k (od (cache (snd r))) = assoc k (od (cache s))) /\
  store (snd r) = store s.
Proof.
  intros Hg Hu. unfold cached_load. rewrite Hg, Hu. cbn [fst snd with_cache cache store].
  split; [reflexivity|]. split; [|reflexivity].
  intro k. unfold lru_get in Hg.
  destruct (assoc (cache_key c name ns) (od (cache s))) as [v|] eqn:Ea; [|discriminate].
  inversion Hg; subst; clear Hg. cbn [od]. apply assoc_move_to_end. exact Ea.
Qed.

(** the hypotheses are satisfiable: load, then load again with a context and
    other globals *)
Example context_hit_example :
  let c := {| c_cap := 2; c_auto_reload := true; c_ns_key := false; c_ns_aware := false; c_fresh := true |} in
  let t := [116%N] in
  let s := final c (init c) [Modify t 7; Load t None 1 false false] in
  exists tm ch1, lru_get (cache s) (cache_key c t None) = Some (tm, ch1) /\
    c_auto_reload c && negb (is_up_to_date s tm false) = false /\
    fst (cached_load c s t None 2 false false) = Loaded 7 2 /\
    snapshot (snd (cached_load c s t None 2 false false)) = [(t, (7, 1))]%N.
Proof. vm_compute. eexists. eexists. repeat split; reflexivity. Qed.
