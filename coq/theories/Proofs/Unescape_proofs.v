(** Proofs/Unescape_proofs.v — lemmas about Kernels/Unescape.v.

    1. the index-based loop only looks at the suffix [skipn index value]
       (translation invariance), so [unescape] is an iteration of
       [ustep suf := unescape_body suf 0] over suffixes;
    2. arithmetic of the hex window and of surrogate pairs;
    3. [UPiece c p]: [p] is a spelling of the character [c] that [unescape]
       accepts; [ustep] decodes exactly the pieces (both directions);
    4. [unescape] is total: [Ok] or [LiquidSyntaxError] on every string. *)
From LQ Require Import Base.Str Kernels.Unescape.
Local Open Scope N_scope.

(** * 1. Translation invariance *)

Definition shift {A} (i : nat) (r : res (A * nat)) : res (A * nat) :=
  match r with
  | Ok (a, k) => Ok (a, (i + k)%nat)
  | LErr c p => LErr c p
  | PyExc k => PyExc k
  | OutOfFuel => OutOfFuel
  end.

Lemma nth_error_skipn {A} (v : list A) i k :
  nth_error (skipn i v) k = nth_error v (i + k).
Proof.
  revert v; induction i as [|i IH]; intros v; simpl; [reflexivity|].
  destruct v as [|x v]; simpl; [destruct k; reflexivity|apply IH].
Qed.

Lemma skipn_add {A} (v : list A) i a : skipn a (skipn i v) = skipn (i + a) v.
Proof.
  revert v; induction i as [|i IH]; intros v; simpl; [reflexivity|].
  destruct v as [|x v]; simpl; [destruct a; reflexivity|apply IH].
Qed.

Lemma slice_shift (v : str) i a b :
  slice v (i + a) (i + b) = slice (skipn i v) a b.
Proof.
  unfold slice. rewrite skipn_add.
  replace (i + b - (i + a))%nat with (b - a)%nat by lia. reflexivity.
Qed.

Lemma at_is_shift v i k c : at_is v (i + k) c = at_is (skipn i v) k c.
Proof. unfold at_is. rewrite nth_error_skipn. reflexivity. Qed.

Lemma decode_hex_char_shift v i j :
  (i <= length v)%nat ->
  decode_hex_char v (i + j) = shift i (decode_hex_char (skipn i v) j).
Proof.
  intros Hi. unfold decode_hex_char.
  rewrite skipn_length.
  replace (length v <=? i + j + 4)%nat with (length v - i <=? j + 4)%nat
    by (destruct (Nat.leb_spec (length v - i) (j + 4)), (Nat.leb_spec (length v) (i + j + 4)); lia).
  destruct (length v - i <=? j + 4)%nat eqn:E1; [reflexivity|].
  replace (i + j + 1)%nat with (i + (j + 1))%nat by lia.
  replace (i + (j + 1) + 4)%nat with (i + (j + 1 + 4))%nat by lia.
  rewrite slice_shift.
  destruct (parse_hex_digits (slice (skipn i v) (j + 1) (j + 1 + 4))) as [cp| | |]; cbn [shift bind]; try reflexivity.
  destruct (is_low_surrogate cp); [reflexivity|].
  destruct (is_high_surrogate cp).
  - replace (i + (j + 1) + 9 <? length v)%nat with (j + 1 + 9 <? length v - i)%nat
      by (destruct (Nat.ltb_spec (j + 1 + 9) (length v - i)), (Nat.ltb_spec (i + (j + 1) + 9) (length v)); lia).
    replace (i + (j + 1) + 4)%nat with (i + (j + 1 + 4))%nat by lia.
    replace (i + (j + 1) + 5)%nat with (i + (j + 1 + 5))%nat by lia.
    rewrite !at_is_shift.
    destruct (negb _); [reflexivity|].
    replace (i + (j + 1) + 6)%nat with (i + (j + 1 + 6))%nat by lia.
    replace (i + (j + 1) + 10)%nat with (i + (j + 1 + 10))%nat by lia.
    rewrite slice_shift.
    destruct (parse_hex_digits _) as [lo| | |]; cbn [shift bind]; try reflexivity.
    destruct (negb _); [reflexivity|]. cbn [shift bind]. do 2 f_equal. lia.
  - cbn [shift bind]. do 2 f_equal. lia.
Qed.

Lemma decode_escape_sequence_shift v i j :
  (i <= length v)%nat ->
  decode_escape_sequence v (i + j) = shift i (decode_escape_sequence (skipn i v) j).
Proof.
  intros Hi. unfold decode_escape_sequence.
  rewrite nth_error_skipn.
  destruct (nth_error v (i + j)) as [ch|]; [|reflexivity].
  repeat (match goal with |- context [if ?b then _ else _] => destruct b; [reflexivity|] end).
  destruct (ch =? CH_u); [|reflexivity].
  rewrite decode_hex_char_shift by assumption.
  destruct (decode_hex_char (skipn i v) j) as [[cp k]| | |]; cbn [shift bind]; try reflexivity.
  destruct (string_from_code_point cp); reflexivity.
Qed.

Lemma unescape_body_shift v i :
  (i <= length v)%nat ->
  unescape_body v i = shift i (unescape_body (skipn i v) 0).
Proof.
  intros Hi. unfold unescape_body. rewrite nth_error_skipn, Nat.add_0_r.
  destruct (nth_error v i) as [ch|]; [|reflexivity].
  destruct (ch =? BSL).
  - replace (0 + 1)%nat with 1%nat by reflexivity.
    apply decode_escape_sequence_shift; assumption.
  - destruct (string_from_code_point ch); cbn [shift bind]; [rewrite Nat.add_0_r|..]; reflexivity.
Qed.

(** The index returned by a successful step lies inside the string. *)
Lemma decode_hex_char_bound v j cp k :
  decode_hex_char v j = Ok (cp, k) -> (k < length v)%nat.
Proof.
  unfold decode_hex_char.
  destruct (Nat.leb_spec (length v) (j + 4)); [discriminate|].
  destruct (parse_hex_digits _) as [c| | |]; cbn [bind]; try discriminate.
  destruct (is_low_surrogate c); [discriminate|].
  destruct (is_high_surrogate c).
  - destruct (Nat.ltb_spec (j + 1 + 9) (length v)); cbn [andb negb]; [|discriminate].
    destruct (negb _); [discriminate|].
    destruct (parse_hex_digits _) as [lo| | |]; cbn [bind]; try discriminate.
    destruct (negb _); [discriminate|]. intros E; inversion E; subst. assumption.
  - intros E; inversion E; subst. lia.
Qed.

Lemma decode_escape_sequence_bound v j c k :
  decode_escape_sequence v j = Ok (c, k) -> (k < length v)%nat.
Proof.
  unfold decode_escape_sequence.
  destruct (nth_error v j) as [ch|] eqn:En; [|discriminate].
  assert (j < length v)%nat by (apply nth_error_Some; congruence).
  repeat (match goal with |- context [if ?b then _ else _] =>
            destruct b; [intros E; inversion E; subst; assumption|] end).
  destruct (ch =? CH_u); [|discriminate].
  destruct (decode_hex_char v j) as [[cp k']| | |] eqn:Ed; cbn [bind]; try discriminate.
  destruct (string_from_code_point cp); cbn [bind]; try discriminate.
  intros E; inversion E; subst. eapply decode_hex_char_bound; eassumption.
Qed.

Lemma unescape_body_bound v i c k :
  unescape_body v i = Ok (c, k) -> (k < length v)%nat.
Proof.
  unfold unescape_body.
  destruct (nth_error v i) as [ch|] eqn:En; [|discriminate].
  assert (i < length v)%nat by (apply nth_error_Some; congruence).
  destruct (ch =? BSL).
  - apply decode_escape_sequence_bound.
  - destruct (string_from_code_point ch); cbn [bind]; try discriminate.
    intros E; inversion E; subst; assumption.
Qed.

Lemma unescape_loop_shift fuel : forall v i,
  (i <= length v)%nat ->
  unescape_loop fuel v i = unescape_loop fuel (skipn i v) 0.
Proof.
  induction fuel as [|f IH]; intros v i Hi; [reflexivity|].
  cbn [unescape_loop]. rewrite skipn_length.
  replace (0 <? length v - i)%nat with (i <? length v)%nat
    by (destruct (Nat.ltb_spec i (length v)), (Nat.ltb_spec 0 (length v - i)); lia).
  destruct (i <? length v)%nat; [|reflexivity].
  rewrite unescape_body_shift by assumption.
  destruct (unescape_body (skipn i v) 0) as [[c k]| | |] eqn:Eb; cbn [shift bind]; try reflexivity.
  apply unescape_body_bound in Eb. rewrite skipn_length in Eb.
  rewrite (IH v (i + k + 1)%nat) by lia.
  rewrite (IH (skipn i v) (k + 1)%nat) by (rewrite skipn_length; lia).
  rewrite skipn_add. replace (i + (k + 1))%nat with (i + k + 1)%nat by lia.
  reflexivity.
Qed.

(** [unescape] as an iteration over suffixes. *)
Definition ustep (suf : str) : res (char * nat) := unescape_body suf 0.

Lemma unescape_loop_step f suf :
  unescape_loop (S f) suf 0 =
  match suf with
  | [] => Ok []
  | _ => do r <- ustep suf ;;
         let '(c, k) := r in
         do rest <- unescape_loop f (skipn (k + 1) suf) 0 ;;
         Ok (c :: rest)
  end.
Proof.
  cbn [unescape_loop]. destruct suf as [|x suf]; [reflexivity|].
  cbn [length Nat.ltb Nat.leb]. unfold ustep.
  destruct (unescape_body (x :: suf) 0) as [[c k]| | |] eqn:Eb; cbn [bind]; try reflexivity.
  apply unescape_body_bound in Eb.
  rewrite (unescape_loop_shift f (x :: suf) (k + 1)) by lia.
  reflexivity.
Qed.

(** * 2. Arithmetic of the hex window and of surrogate pairs *)

Lemma lor_shiftl_small x y n : y < 2 ^ n -> N.lor (N.shiftl x n) y = x * 2 ^ n + y.
Proof.
  intros Hy.
  assert (H0 : N.land (N.shiftl x n) y = 0).
  { apply N.bits_inj_0. intros m. rewrite N.land_spec.
    destruct (N.lt_ge_cases m n) as [Hm|Hm].
    - rewrite N.shiftl_spec_low by assumption. reflexivity.
    - rewrite <- (N.mod_small y (2 ^ n)) by assumption.
      rewrite N.mod_pow2_bits_high by assumption. apply andb_false_r. }
  rewrite <- N.lxor_lor by assumption.
  rewrite <- N.add_nocarry_lxor by assumption.
  rewrite N.shiftl_mul_pow2. reflexivity.
Qed.

(** The value of one hex digit, as [_parse_hex_digits] reads it. *)
Definition hexval (d : N) : option N :=
  if (48 <=? d) && (d <=? 57) then Some (d - 48)
  else if (65 <=? d) && (d <=? 70) then Some (d - 65 + 10)
  else if (97 <=? d) && (d <=? 102) then Some (d - 97 + 10)
  else None.

Definition hex4 (a b c d : N) : option N :=
  match hexval a, hexval b, hexval c, hexval d with
  | Some x, Some y, Some z, Some w => Some (4096 * x + 256 * y + 16 * z + w)
  | _, _, _, _ => None
  end.

Lemma hexval_lt d x : hexval d = Some x -> x < 16.
Proof.
  unfold hexval.
  destruct (N.leb_spec 48 d), (N.leb_spec d 57); cbn [andb].
  all: try (intros E; inversion E; lia).
  all: destruct (N.leb_spec 65 d), (N.leb_spec d 70); cbn [andb].
  all: try (intros E; inversion E; lia).
  all: destruct (N.leb_spec 97 d), (N.leb_spec d 102); cbn [andb].
  all: try (intros E; inversion E; lia).
Qed.

Lemma parse_hex_loop_cons d ds cp :
  parse_hex_loop (d :: ds) cp =
  match hexval d with
  | Some x => parse_hex_loop ds (N.lor (N.shiftl cp 4) x)
  | None => syntax_error
  end.
Proof.
  cbn [parse_hex_loop]. unfold hexval.
  destruct ((48 <=? d) && (d <=? 57)); [reflexivity|].
  destruct ((65 <=? d) && (d <=? 70)); [reflexivity|].
  destruct ((97 <=? d) && (d <=? 102)); reflexivity.
Qed.

Lemma parse_hex_loop4 a b c d :
  parse_hex_loop [a; b; c; d] 0 =
  match hex4 a b c d with Some v => Ok v | None => syntax_error end.
Proof.
  unfold hex4. rewrite parse_hex_loop_cons.
  destruct (hexval a) as [x|] eqn:Ea; [|reflexivity]. rewrite parse_hex_loop_cons.
  destruct (hexval b) as [y|] eqn:Eb; [|reflexivity]. rewrite parse_hex_loop_cons.
  destruct (hexval c) as [z|] eqn:Ec; [|reflexivity]. rewrite parse_hex_loop_cons.
  destruct (hexval d) as [w|] eqn:Ed; [|reflexivity].
  cbn [parse_hex_loop].
  apply hexval_lt in Ea, Eb, Ec, Ed.
  rewrite !(lor_shiftl_small _ _ 4) by (change (2 ^ 4) with 16; assumption).
  change (2 ^ 4) with 16. f_equal. lia.
Qed.

Lemma hex4_lt a b c d v : hex4 a b c d = Some v -> v < 65536.
Proof.
  unfold hex4.
  destruct (hexval a) as [x|] eqn:Ea, (hexval b) as [y|] eqn:Eb,
           (hexval c) as [z|] eqn:Ec, (hexval d) as [w|] eqn:Ed; try discriminate.
  apply hexval_lt in Ea, Eb, Ec, Ed. intros E.
  assert (E' : 4096 * x + 256 * y + 16 * z + w = v) by congruence. lia.
Qed.

(** The code point of a surrogate pair. *)
Definition pair_value (hi lo : N) : N := 0x10000 + (hi - 0xD800) * 1024 + (lo - 0xDC00).

Lemma land_3ff x : N.land x 0x03FF = x mod 1024.
Proof. change 0x03FF with (N.ones 10). rewrite N.land_ones. reflexivity. Qed.

Lemma surrogate_pair_value hi lo :
  is_high_surrogate hi = true -> is_low_surrogate lo = true ->
  0x10000 + N.lor (N.shiftl (N.land hi 0x03FF) 10) (N.land lo 0x03FF) = pair_value hi lo.
Proof.
  unfold is_high_surrogate, is_low_surrogate, pair_value.
  rewrite !andb_true_iff, !N.leb_le. intros [H1 H2] [H3 H4].
  rewrite !land_3ff.
  rewrite lor_shiftl_small by (apply N.mod_lt; discriminate).
  change (2 ^ 10) with 1024.
  assert (hi mod 1024 = hi - 0xD800).
  { symmetry. apply (N.mod_unique hi 1024 54); lia. }
  assert (lo mod 1024 = lo - 0xDC00).
  { symmetry. apply (N.mod_unique lo 1024 55); lia. }
  lia.
Qed.

Lemma pair_value_range hi lo :
  is_high_surrogate hi = true -> is_low_surrogate lo = true ->
  0x10000 <= pair_value hi lo <= 0x10FFFF.
Proof.
  unfold is_high_surrogate, is_low_surrogate, pair_value.
  rewrite !andb_true_iff, !N.leb_le. lia.
Qed.

(** * 3. Pieces: the spellings of one character that [unescape] accepts *)

(** The two-character escapes of [_decode_escape_sequence]. *)
Definition simple_escape (e : N) : option N :=
  if e =? DQ then Some DQ else if e =? DOLLAR then Some DOLLAR
  else if e =? BSL then Some BSL else if e =? 47 then Some 47
  else if e =? 98 then Some 8 else if e =? 102 then Some 12
  else if e =? 110 then Some 10 else if e =? 114 then Some 13
  else if e =? 116 then Some 9 else None.

Inductive UPiece : char -> str -> Prop :=
| UP_self c : c <> BSL -> 8 <= c -> UPiece c [c]
| UP_simple e c : simple_escape e = Some c -> UPiece c [BSL; e]
| UP_hex a b c d cp :
    hex4 a b c d = Some cp -> is_surrogate cp = false -> 8 <= cp ->
    UPiece cp [BSL; CH_u; a; b; c; d]
| UP_pair a b c d e f g h hi lo :
    hex4 a b c d = Some hi -> is_high_surrogate hi = true ->
    hex4 e f g h = Some lo -> is_low_surrogate lo = true ->
    UPiece (pair_value hi lo) [BSL; CH_u; a; b; c; d; BSL; CH_u; e; f; g; h].

Lemma simple_escape_not_u e c : simple_escape e = Some c -> e <> CH_u.
Proof. intros H E; subst e. vm_compute in H. discriminate. Qed.

Lemma simple_escape_ge8 e c : simple_escape e = Some c -> 8 <= c.
Proof.
  unfold simple_escape.
  repeat (match goal with |- context [if ?b then _ else _] =>
            destruct b; [intros E; inversion E; vm_compute; discriminate|] end).
  discriminate.
Qed.

Lemma decode_escape_sequence_spec v j :
  decode_escape_sequence v j =
  match nth_error v j with
  | None => syntax_error
  | Some ch =>
      match simple_escape ch with
      | Some c => Ok (c, j)
      | None =>
          if ch =? CH_u then
            do r <- decode_hex_char v j ;;
            let '(code_point, index) := r in
            do c <- string_from_code_point code_point ;; Ok (c, index)
          else syntax_error
      end
  end.
Proof.
  unfold decode_escape_sequence, simple_escape.
  destruct (nth_error v j) as [ch|]; [|reflexivity].
  repeat (match goal with |- context [if ?b then _ else _] => destruct b; [reflexivity|] end).
  reflexivity.
Qed.

Lemma hexval_not_surrogate d x : hexval d = Some x -> is_surrogate d = false.
Proof.
  unfold hexval, is_surrogate.
  destruct (N.leb_spec 0xD800 d); [|reflexivity].
  destruct (N.leb_spec d 57); [lia|]. rewrite andb_false_r.
  destruct (N.leb_spec d 70); [lia|]. rewrite andb_false_r.
  destruct (N.leb_spec d 102); [lia|]. rewrite andb_false_r. discriminate.
Qed.

Lemma parse_hex_digits4 a b c d v :
  hex4 a b c d = Some v -> parse_hex_digits [a; b; c; d] = Ok v.
Proof. intros H. unfold parse_hex_digits. rewrite parse_hex_loop4, H. reflexivity. Qed.

Lemma parse_hex_digits4_inv a b c d v :
  parse_hex_digits [a; b; c; d] = Ok v -> hex4 a b c d = Some v.
Proof.
  unfold parse_hex_digits. rewrite parse_hex_loop4. destruct (hex4 a b c d); [congruence|discriminate].
Qed.

Lemma high_low_disjoint cp : is_high_surrogate cp = true -> is_low_surrogate cp = false.
Proof.
  unfold is_high_surrogate, is_low_surrogate. rewrite andb_true_iff, !N.leb_le.
  intros [H1 H2]. destruct (N.leb_spec 0xDC00 cp); [lia|reflexivity].
Qed.

Lemma surrogate_split cp :
  is_surrogate cp = is_high_surrogate cp || is_low_surrogate cp.
Proof.
  unfold is_surrogate, is_high_surrogate, is_low_surrogate.
  destruct (N.leb_spec 0xD800 cp), (N.leb_spec cp 0xDBFF), (N.leb_spec 0xDC00 cp),
    (N.leb_spec cp 0xDFFF); cbn [andb orb]; try reflexivity; lia.
Qed.

Ltac ustep_cbn :=
  cbn [nth_error length Nat.leb Nat.ltb Nat.add Nat.sub slice firstn skipn at_is
       bind andb negb app].

Tactic Notation "ustep_cbn" "in" hyp(H) :=
  cbn [nth_error length Nat.leb Nat.ltb Nat.add Nat.sub slice firstn skipn at_is
       bind andb negb app] in H.

(** A step decodes a piece at the front of any string ... *)
Lemma ustep_piece c p rest : UPiece c p -> ustep (p ++ rest) = Ok (c, (length p - 1)%nat).
Proof.
  intros H. unfold ustep, unescape_body.
  destruct H as [c Hb H8|e c He|a b c d cp Hh Hs H8|a b c d e f g h hi lo Hh Hhi Hl Hlo];
    ustep_cbn.
  - apply N.eqb_neq in Hb. rewrite Hb. unfold string_from_code_point.
    destruct (N.ltb_spec c 8); [lia|]. reflexivity.
  - rewrite N.eqb_refl, decode_escape_sequence_spec. ustep_cbn. rewrite He. reflexivity.
  - rewrite N.eqb_refl, decode_escape_sequence_spec. ustep_cbn.
    change (simple_escape CH_u) with (@None N). rewrite N.eqb_refl.
    unfold decode_hex_char. ustep_cbn. rewrite (parse_hex_digits4 _ _ _ _ _ Hh). ustep_cbn.
    rewrite surrogate_split in Hs. apply orb_false_iff in Hs as [Hs1 Hs2].
    rewrite Hs1, Hs2. ustep_cbn. unfold string_from_code_point.
    destruct (N.ltb_spec cp 8); [lia|]. reflexivity.
  - rewrite N.eqb_refl, decode_escape_sequence_spec. ustep_cbn.
    change (simple_escape CH_u) with (@None N). rewrite N.eqb_refl.
    unfold decode_hex_char. ustep_cbn. rewrite (parse_hex_digits4 _ _ _ _ _ Hh). ustep_cbn.
    rewrite (high_low_disjoint _ Hhi), Hhi, !N.eqb_refl. ustep_cbn.
    rewrite (parse_hex_digits4 _ _ _ _ _ Hl). ustep_cbn. rewrite Hlo. ustep_cbn.
    rewrite (surrogate_pair_value _ _ Hhi Hlo). unfold string_from_code_point.
    pose proof (pair_value_range _ _ Hhi Hlo).
    destruct (N.ltb_spec (pair_value hi lo) 8); [lia|]. reflexivity.
Qed.

(** ... and whatever a step decodes is a piece at the front of the string. *)
Lemma ustep_inv suf c k :
  ustep suf = Ok (c, k) ->
  exists p rest, suf = p ++ rest /\ UPiece c p /\ k = (length p - 1)%nat.
Proof.
  intros H. destruct suf as [|ch r]; [discriminate|].
  unfold ustep, unescape_body in H. ustep_cbn in H.
  destruct (ch =? BSL) eqn:Eb.
  2:{ unfold string_from_code_point in H. destruct (N.ltb_spec ch 8); [discriminate|].
      ustep_cbn in H. inversion H; subst. exists [c], r.
      split; [reflexivity|]. split; [|reflexivity].
      constructor; [apply N.eqb_neq; assumption|assumption]. }
  apply N.eqb_eq in Eb; subst ch.
  rewrite decode_escape_sequence_spec in H. ustep_cbn in H.
  destruct r as [|e r]; [discriminate|]. ustep_cbn in H.
  destruct (simple_escape e) as [c'|] eqn:Es.
  { inversion H; subst. exists [BSL; e], r. split; [reflexivity|].
    split; [constructor; assumption|reflexivity]. }
  destruct (e =? CH_u) eqn:Eu; [|discriminate]. apply N.eqb_eq in Eu; subst e.
  unfold decode_hex_char in H. ustep_cbn in H.
  destruct r as [|a r]; [discriminate|]; ustep_cbn in H.
  destruct r as [|b r]; [discriminate|]; ustep_cbn in H.
  destruct r as [|c0 r]; [discriminate|]; ustep_cbn in H.
  destruct r as [|d r]; [discriminate|]; ustep_cbn in H.
  destruct (parse_hex_digits [a; b; c0; d]) as [cp| | |] eqn:Ep; try discriminate.
  apply parse_hex_digits4_inv in Ep. ustep_cbn in H.
  destruct (is_low_surrogate cp) eqn:El; [discriminate|].
  destruct (is_high_surrogate cp) eqn:Eh.
  2:{ ustep_cbn in H. unfold string_from_code_point in H.
      destruct (N.ltb_spec cp 8); [discriminate|]. ustep_cbn in H. inversion H; subst.
      exists [BSL; CH_u; a; b; c0; d], r. split; [reflexivity|]. split; [|reflexivity].
      constructor; try assumption. rewrite surrogate_split, Eh, El. reflexivity. }
  destruct r as [|x r]; [discriminate|]; ustep_cbn in H.
  destruct r as [|y r]; [destruct (x =? BSL); discriminate|]; ustep_cbn in H.
  destruct r as [|e r]; [destruct (x =? BSL), (y =? CH_u); discriminate|]; ustep_cbn in H.
  destruct r as [|f r]; [destruct (x =? BSL), (y =? CH_u); discriminate|]; ustep_cbn in H.
  destruct r as [|g r]; [destruct (x =? BSL), (y =? CH_u); discriminate|]; ustep_cbn in H.
  destruct r as [|h r]; [destruct (x =? BSL), (y =? CH_u); discriminate|]; ustep_cbn in H.
  destruct (x =? BSL) eqn:Ex; [|discriminate].
  destruct (y =? CH_u) eqn:Ey; [|discriminate]. ustep_cbn in H.
  apply N.eqb_eq in Ex, Ey; subst x y.
  destruct (parse_hex_digits [e; f; g; h]) as [lo| | |] eqn:Ep2; try discriminate.
  apply parse_hex_digits4_inv in Ep2. ustep_cbn in H.
  destruct (is_low_surrogate lo) eqn:El2; [|discriminate]. ustep_cbn in H.
  rewrite (surrogate_pair_value _ _ Eh El2) in H. unfold string_from_code_point in H.
  destruct (N.ltb_spec (pair_value cp lo) 8); [discriminate|]. ustep_cbn in H.
  inversion H; subst.
  exists [BSL; CH_u; a; b; c0; d; BSL; CH_u; e; f; g; h], r.
  split; [reflexivity|]. split; [|reflexivity]. econstructor; eassumption.
Qed.

Lemma UPiece_nonempty c p : UPiece c p -> (1 <= length p)%nat.
Proof. destruct 1; cbn [length]; lia. Qed.

(** * 4. Totality *)

Definition ok_or_syntax {A} (r : res A) : Prop :=
  match r with
  | Ok _ => True
  | LErr LiquidSyntaxError None => True
  | _ => False
  end.

Lemma parse_hex_loop_total ds : forall cp, ok_or_syntax (parse_hex_loop ds cp).
Proof.
  induction ds as [|d ds IH]; intros cp; [exact I|].
  rewrite parse_hex_loop_cons. destruct (hexval d); [apply IH|exact I].
Qed.

Lemma parse_hex_digits_total ds : ok_or_syntax (parse_hex_digits ds).
Proof. apply parse_hex_loop_total. Qed.

Lemma decode_hex_char_total v j : ok_or_syntax (decode_hex_char v j).
Proof.
  unfold decode_hex_char.
  destruct (_ <=? _)%nat; [exact I|].
  pose proof (parse_hex_digits_total (slice v (j + 1) (j + 1 + 4))) as P1.
  destruct (parse_hex_digits (slice v (j + 1) (j + 1 + 4))) as [cp|cl [pp|]|k|];
    cbn [bind]; try exact P1.
  destruct (is_low_surrogate cp); [exact I|].
  destruct (is_high_surrogate cp); [|exact I].
  destruct (negb _); [exact I|].
  pose proof (parse_hex_digits_total (slice v (j + 1 + 6) (j + 1 + 10))) as P2.
  destruct (parse_hex_digits (slice v (j + 1 + 6) (j + 1 + 10))) as [lo|cl [pp|]|k|];
    cbn [bind]; try exact P2.
  destruct (negb _); exact I.
Qed.

Lemma decode_escape_sequence_total v j : ok_or_syntax (decode_escape_sequence v j).
Proof.
  rewrite decode_escape_sequence_spec.
  destruct (nth_error v j) as [ch|]; [|exact I].
  destruct (simple_escape ch); [exact I|].
  destruct (ch =? CH_u); [|exact I].
  pose proof (decode_hex_char_total v j) as P.
  destruct (decode_hex_char v j) as [[cp k]|cl [pp|]|k|]; cbn [bind]; try exact P.
  unfold string_from_code_point. destruct (cp <? 8); exact I.
Qed.

Lemma ustep_total suf : suf <> [] -> ok_or_syntax (ustep suf).
Proof.
  intros Hn. destruct suf as [|ch r]; [congruence|].
  unfold ustep, unescape_body. ustep_cbn.
  destruct (ch =? BSL); [apply decode_escape_sequence_total|].
  unfold string_from_code_point. destruct (ch <? 8); exact I.
Qed.

Lemma unescape_loop_total f : forall suf,
  (length suf < f)%nat -> ok_or_syntax (unescape_loop f suf 0).
Proof.
  induction f as [|f IH]; intros suf Hl; [lia|].
  rewrite unescape_loop_step. destruct suf as [|x r] eqn:Es; [exact I|]. rewrite <- Es in *.
  assert (Hne : suf <> []) by (rewrite Es; discriminate).
  pose proof (ustep_total suf Hne) as P.
  destruct (ustep suf) as [[c k]|cl [pp|]|kk|] eqn:Eu; cbn [bind]; try exact P.
  assert (Hlen : (length (skipn (k + 1) suf) < f)%nat).
  { rewrite skipn_length. rewrite Es in Hl |- *. cbn [length] in *. lia. }
  pose proof (IH (skipn (k + 1) suf) Hlen) as P2.
  destruct (unescape_loop f (skipn (k + 1) suf) 0) as [s|cl [pp|]|kk|]; cbn [bind]; exact P2 || exact I.
Qed.

(** [unescape] never raises anything but LiquidSyntaxError (and never runs out
    of fuel), on every string (lone surrogates included, since 2f6fa4b). *)
Lemma unescape_total v : ok_or_syntax (unescape v).
Proof. apply unescape_loop_total. lia. Qed.

(** A lone surrogate inside a hex window is a syntax error like any other
    non-hex character. *)
Lemma unescape_surrogate_digit_syntax_error :
  unescape [BSL; CH_u; 0xD800; 48; 48; 48] = LErr LiquidSyntaxError None.
Proof. vm_compute. reflexivity. Qed.

(** * 5. [unescape raw = Ok s] iff [raw] is a concatenation of pieces spelling [s] *)

Inductive UEnc : str -> str -> Prop :=
| UE_nil : UEnc [] []
| UE_cons c p s r : UPiece c p -> UEnc s r -> UEnc (c :: s) (p ++ r).

Lemma skipn_app_length {A} (p r : list A) : skipn (length p) (p ++ r) = r.
Proof. induction p as [|x p IH]; [reflexivity|exact IH]. Qed.

Lemma unescape_loop_UEnc s raw : UEnc s raw ->
  forall f, (length raw < f)%nat -> unescape_loop f raw 0 = Ok s.
Proof.
  induction 1 as [|c p s r Hp Hr IH]; intros f Hf.
  - destruct f; [lia|reflexivity].
  - destruct f as [|f]; [lia|]. rewrite unescape_loop_step.
    pose proof (UPiece_nonempty _ _ Hp) as Hl.
    destruct (p ++ r) as [|x t] eqn:Ea.
    { destruct p; [cbn [length] in Hl; lia|discriminate]. }
    rewrite <- Ea in *. rewrite (ustep_piece _ _ r Hp). cbn [bind].
    replace (length p - 1 + 1)%nat with (length p) by lia.
    rewrite skipn_app_length. rewrite IH by (rewrite app_length in Hf; lia). reflexivity.
Qed.

Lemma unescape_UEnc s raw : UEnc s raw -> unescape raw = Ok s.
Proof. intros H. apply unescape_loop_UEnc; [assumption|lia]. Qed.

Lemma unescape_loop_Ok_UEnc f : forall suf s, unescape_loop f suf 0 = Ok s -> UEnc s suf.
Proof.
  induction f as [|f IH]; intros suf s H; [discriminate|].
  rewrite unescape_loop_step in H. destruct suf as [|x t] eqn:Es.
  { inversion H. constructor. }
  rewrite <- Es in *.
  destruct (ustep suf) as [[c k]| | |] eqn:Eu; cbn [bind] in H; try discriminate.
  destruct (unescape_loop f (skipn (k + 1) suf) 0) as [s'| | |] eqn:El; cbn [bind] in H;
    try discriminate.
  inversion H; subst s. apply ustep_inv in Eu as (p & rest & E1 & Hp & Hk).
  pose proof (UPiece_nonempty _ _ Hp).
  rewrite E1 in El |- *. replace (k + 1)%nat with (length p) in El by lia.
  rewrite skipn_app_length in El. constructor; [assumption|apply IH; assumption].
Qed.

Theorem unescape_iff raw s : unescape raw = Ok s <-> UEnc s raw.
Proof. split; [apply unescape_loop_Ok_UEnc|apply unescape_UEnc]. Qed.
