(** Proofs/Inherit_proofs.v — theorems about Kernels/Inherit.v (property C08).

    Contents
      A. generic facts (bind, cat_map, decidability of [r = cde])
      B. the chain walk terminates within [length ld + 2] steps for every loader
      C. block stacks hold the chain's definitions, most derived first;
         the walk agrees with [spec_chain]
      D. soundness:    render = r, r <> ContextDepthError  ->  spec gives r
      E. completeness: spec gives r  ->  render gives r once the limit is large
      F. rejections, the refuted full statement (defect 30), examples *)
From LQ Require Import Base.Str Kernels.Inherit.
From Coq Require Import Arith.

(** * A. generic facts *)

Ltac absurd_oof :=
  exfalso;
  match goal with
  | Hr : ?r <> OutOfFuel, H : OutOfFuel = ?r |- _ => apply Hr; symmetry; exact H
  | Hr : ?r <> OutOfFuel, H : ?r = OutOfFuel |- _ => exact (Hr H)
  end.

Lemma res_cde_dec (r : res str) : r = cde \/ r <> cde.
Proof.
  destruct r as [a|c p|k|]; try (right; discriminate).
  destruct p; [right; discriminate|].
  destruct c; try (right; discriminate). left; reflexivity.
Qed.

Lemma bind_ok {A B} (r : res A) (f : A -> res B) b :
  bind r f = Ok b -> exists a, r = Ok a /\ f a = Ok b.
Proof. destruct r; simpl; try discriminate. eauto. Qed.

Lemma cat_map_cons f it its :
  cat_map f (it :: its) = do a <- f it;; do b <- cat_map f its;; Ok (a ++ b).
Proof. reflexivity. Qed.

Lemma cat_map_texts f ts its :
  (forall s, f (Text s) = Ok s) ->
  cat_map f (map Text ts ++ its) = do b <- cat_map f its;; Ok (concat ts ++ b).
Proof.
  intro Hf. induction ts as [|s ts IH]; simpl.
  - destruct (cat_map f its); reflexivity.
  - rewrite Hf. simpl. rewrite IH. destruct (cat_map f its); simpl; try reflexivity.
    rewrite app_assoc. reflexivity.
Qed.

(** Unfolding of the nested fixpoint [R]. *)
Definition copyf limit sp st df : drop -> list item -> res str :=
  match df with O => fun _ _ => cde | S df' => R limit sp st df' (limit - 3) end.
Definition extf limit sp st df sf : drop -> list item -> res str :=
  match sf with O => fun _ _ => cde | S sf' => R limit sp st df sf' end.

Lemma R_unfold limit sp st df sf dr its :
  R limit sp st df sf dr its
  = cat_map (item_step sp st (copyf limit sp st df) (extf limit sp st df sf) dr) its.
Proof. destruct df, sf; reflexivity. Qed.

(** Unfolding equations of [item_step]. *)
Lemma item_step_text sp st copy ext dr s : item_step sp st copy ext dr (Text s) = Ok s.
Proof. reflexivity. Qed.
Lemma item_step_quiet sp st copy ext dr : item_step sp st copy ext dr Quiet = Ok [].
Proof. reflexivity. Qed.
Lemma item_step_ext sp st copy ext dr n : item_step sp st copy ext dr (Ext n) = cde.
Proof. reflexivity. Qed.
Lemma item_step_super sp st copy ext dr :
  item_step sp st copy ext dr Super
  = match dr with
    | Outer th => th tt
    | Own [] => Ok []
    | Own (p :: ps) => tblock sp (b_body p) (ext (Own ps) (b_body p))
    end.
Proof. reflexivity. Qed.
Lemma item_step_blk sp st copy ext dr n req body e :
  item_step sp st copy ext dr (Blk n req body e)
  = match stack_of st n with
    | [] => if req then reqerr else tblock sp body (ext (Own []) body)
    | top :: rest =>
        if b_req top then reqerr
        else tblock sp (b_body top)
               (copy (Outer (fun _ =>
                        match rest with
                        | [] => Ok []
                        | p :: ps => tblock sp (b_body p) (ext (Own ps) (b_body p))
                        end)) (b_body top))
    end.
Proof. reflexivity. Qed.
Lemma item_step_wrap sp st copy ext dr k body :
  item_step sp st copy ext dr (Wrap k body)
  = tblock sp body (if wrap_scoped k then ext dr body
                    else cat_map (item_step sp st copy ext dr) body).
Proof. reflexivity. Qed.

(** Blank-block suppression keeps errors and only ever erases text. *)
Lemma tblock_cde sp b : tblock sp b cde = cde.
Proof. unfold tblock. destruct (sp && blank_body b); reflexivity. Qed.

Lemma tblock_oof sp b : tblock sp b OutOfFuel = OutOfFuel.
Proof. unfold tblock. destruct (sp && blank_body b); reflexivity. Qed.

Lemma tblock_not_cde sp b X : tblock sp b X <> cde -> X <> cde.
Proof. intros H E. apply H. rewrite E. apply tblock_cde. Qed.

Lemma tblock_not_oof sp b X : tblock sp b X <> OutOfFuel -> X <> OutOfFuel.
Proof. intros H E. apply H. rewrite E. apply tblock_oof. Qed.

Lemma tblock_keeps_not_oof sp b X : X <> OutOfFuel -> tblock sp b X <> OutOfFuel.
Proof.
  unfold tblock. destruct (sp && blank_body b); [|auto].
  destruct X; simpl; try discriminate. intro H. contradiction.
Qed.

(** Induction over items through the bodies of blocks and wrappers. *)
Section ItemInd.
  Variable P : item -> Prop.
  Hypothesis HText : forall s, P (Text s).
  Hypothesis HBlk : forall n r b e, Forall P b -> P (Blk n r b e).
  Hypothesis HSuper : P Super.
  Hypothesis HExt : forall n, P (Ext n).
  Hypothesis HQuiet : P Quiet.
  Hypothesis HWrap : forall k b, Forall P b -> P (Wrap k b).
  Fixpoint item_ind' (it : item) : P it :=
    let go := fix go (l : list item) : Forall P l :=
                match l with
                | [] => Forall_nil P
                | x :: l' => Forall_cons x (item_ind' x) (go l')
                end in
    match it with
    | Text s => HText s
    | Blk n r b e => HBlk n r b e (go b)
    | Super => HSuper
    | Ext n => HExt n
    | Quiet => HQuiet
    | Wrap k b => HWrap k b (go b)
    end.
End ItemInd.

(** * B. termination of the chain walk *)

Lemma assoc_In_keys {V} k (l : list (str * V)) v : assoc k l = Some v -> In k (keys l).
Proof.
  induction l as [|[k' v'] l IH]; simpl; [discriminate|].
  destruct (str_eqb k k') eqn:E; intro H.
  - left. apply str_eqb_eq in E. auto.
  - right. auto.
Qed.

Lemma load_ok_keys ld n t : load ld n = Ok t -> assoc n ld = Some t /\ forallb endok_item t = true.
Proof.
  unfold load. destruct (assoc n ld) eqn:E; [|discriminate].
  destruct (forallb endok_item t0) eqn:F; [|discriminate]. intro H; inversion H; subst; auto.
Qed.

Lemma load_not_oof ld n : load ld n <> OutOfFuel.
Proof. unfold load. destruct (assoc n ld); [destruct (forallb endok_item t)|]; discriminate. Qed.

Lemma stack_blocks_not_oof st t : stack_blocks st t <> OutOfFuel.
Proof.
  unfold stack_blocks. destruct (1 <? _)%nat; [discriminate|].
  destruct (dup_scan _ _); discriminate.
Qed.

Lemma loop_fuel ld : forall f st seen base t,
  NoDup seen -> incl seen (keys ld) -> length ld < f + length seen ->
  loop f ld st seen base t <> OutOfFuel.
Proof.
  induction f as [|f IH]; intros st seen base t Hnd Hin Hlen.
  - exfalso. apply (NoDup_incl_length Hnd) in Hin. unfold keys in Hin.
    rewrite map_length in Hin. simpl in Hlen. lia.
  - simpl. unfold step. destruct (stack_blocks st t) as [[ext st']| | |] eqn:Es; simpl; try discriminate;
      [|exfalso; eapply stack_blocks_not_oof; eauto].
    destruct ext as [n|]; [|discriminate].
    destruct (mem_str n seen) eqn:Em; [discriminate|].
    destruct (load ld n) as [t'| | |] eqn:El; simpl; try discriminate;
      [|exfalso; eapply load_not_oof; eauto].
    apply IH.
    + constructor; [|assumption]. intro Hi. apply mem_str_In in Hi. congruence.
    + intros x [<-|Hx]; [|auto]. apply load_ok_keys in El as [El _]. eapply assoc_In_keys; eauto.
    + simpl. lia.
Qed.

Theorem build_terminates ld st leaf : build_block_stacks ld st leaf <> OutOfFuel.
Proof.
  unfold build_block_stacks, step.
  destruct (stack_blocks st leaf) as [[ext st']| | |] eqn:Es; simpl; try discriminate.
  - destruct ext as [n|]; [|discriminate]. simpl.
    destruct (load ld n) as [t'| | |] eqn:El; simpl; try discriminate.
    + apply loop_fuel.
      * constructor; [intros []|constructor].
      * intros x [<-|[]]. apply load_ok_keys in El as [El _]. eapply assoc_In_keys; eauto.
      * simpl. lia.
    + exfalso. eapply load_not_oof; eauto.
  - exfalso. eapply stack_blocks_not_oof; eauto.
Qed.

(** * C. stacks = definitions, walk = spec_chain *)

Lemma has_dup_NoDup l : has_dup l = false <-> NoDup l.
Proof.
  induction l as [|x l IH]; simpl; [split; [constructor|reflexivity]|].
  rewrite orb_false_iff, IH. split.
  - intros [Hm Hn]. constructor; [|assumption]. intro Hi. apply mem_str_In in Hi. congruence.
  - intro H; inversion H; subst. split; [|assumption].
    destruct (mem_str x l) eqn:E; [|reflexivity]. apply mem_str_In in E. contradiction.
Qed.

Lemma dup_scan_spec : forall l seen,
  dup_scan seen l = false <-> (NoDup l /\ forall x, In x l -> ~ In x seen).
Proof.
  induction l as [|x l IH]; intro seen; simpl.
  - split; [intros _; split; [constructor|intros ? []]|reflexivity].
  - rewrite orb_false_iff, IH. split.
    + intros [Hm [Hn Hd]]. split.
      * constructor; [|assumption]. intro Hi. apply (Hd x Hi). left; reflexivity.
      * intros y [<-|Hy].
        -- intro Hi. apply mem_str_In in Hi. congruence.
        -- intro Hi. apply (Hd y Hy). right; assumption.
    + intros [Hn Hd]. inversion Hn; subst. split; [|split].
      * destruct (mem_str x seen) eqn:E; [|reflexivity]. apply mem_str_In in E.
        exfalso. apply (Hd x); [left; reflexivity|assumption].
      * assumption.
      * intros y Hy [<-|Hi]; [contradiction|]. apply (Hd y); [right; assumption|assumption].
Qed.

Lemma dup_scan_has_dup l : dup_scan [] l = has_dup l.
Proof.
  destruct (dup_scan [] l) eqn:E1, (has_dup l) eqn:E2; try reflexivity.
  - apply has_dup_NoDup in E2.
    assert (dup_scan [] l = false) by (apply dup_scan_spec; split; [assumption|intros ? ? []]).
    congruence.
  - apply dup_scan_spec in E1 as [E1 _]. apply has_dup_NoDup in E1. congruence.
Qed.

Lemma stack_blocks_wf st t :
  stack_blocks st t
  = if wf_template t then Ok (ext_of t, store_blocks st (find_blocks t)) else tie.
Proof.
  unfold stack_blocks, wf_template, ext_of. rewrite dup_scan_has_dup.
  rewrite Nat.ltb_antisym.
  destruct (length (find_exts t) <=? 1)%nat; simpl; [|reflexivity].
  destruct (has_dup _); reflexivity.
Qed.

Lemma store_block_push st b : store_block st b = push (b_name b) b st.
Proof.
  unfold store_block. destruct b as [n r body]; simpl.
  destruct (stack_of st n); simpl; [reflexivity|]. destruct r; reflexivity.
Qed.

Lemma str_eqb_sym a b : str_eqb a b = str_eqb b a.
Proof.
  destruct (str_eqb a b) eqn:E.
  - apply str_eqb_eq in E. subst. symmetry. apply str_eqb_refl.
  - apply str_eqb_neq in E. symmetry. apply str_eqb_neq. congruence.
Qed.

Lemma stack_of_push n d st m :
  stack_of (push n d st) m = if str_eqb m n then stack_of st m ++ [d] else stack_of st m.
Proof.
  unfold stack_of. induction st as [|[k l] st IH]; simpl.
  - destruct (str_eqb m n); reflexivity.
  - destruct (str_eqb n k) eqn:Enk; simpl.
    + apply str_eqb_eq in Enk. subst k. destruct (str_eqb m n); reflexivity.
    + destruct (str_eqb m k) eqn:Emk.
      * apply str_eqb_eq in Emk. subst k. rewrite str_eqb_sym, Enk. reflexivity.
      * exact IH.
Qed.

Lemma stack_of_store_blocks : forall bs st n,
  stack_of (store_blocks st bs) n
  = stack_of st n ++ filter (fun b => str_eqb n (b_name b)) bs.
Proof.
  unfold store_blocks. induction bs as [|b bs IH]; intros st n; simpl.
  - rewrite app_nil_r. reflexivity.
  - rewrite IH, store_block_push, stack_of_push.
    destruct (str_eqb n (b_name b)); [rewrite <- app_assoc|]; reflexivity.
Qed.

Lemma filter_nodup_find n : forall bs,
  NoDup (map b_name bs) ->
  filter (fun b => str_eqb n (b_name b)) bs
  = match find (fun b => str_eqb n (b_name b)) bs with Some b => [b] | None => [] end.
Proof.
  induction bs as [|b bs IH]; simpl; intro H; [reflexivity|]. inversion H; subst.
  destruct (str_eqb n (b_name b)) eqn:E.
  - apply str_eqb_eq in E. subst n. f_equal.
    assert (forall l, ~ In (b_name b) (map b_name l) ->
                      filter (fun b0 => str_eqb (b_name b) (b_name b0)) l = []) as F.
    { induction l as [|c l IHl]; simpl; intro Hn; [reflexivity|].
      destruct (str_eqb (b_name b) (b_name c)) eqn:Ec.
      - apply str_eqb_eq in Ec. exfalso. apply Hn. left. congruence.
      - apply IHl. intro Hi. apply Hn. right. assumption. }
    apply F. assumption.
  - apply IH. assumption.
Qed.

Definition store_chain (st : stacks) (ch : list template) : stacks :=
  fold_left (fun s t => store_blocks s (find_blocks t)) ch st.

Lemma wf_template_nodup t : wf_template t = true -> NoDup (map b_name (find_blocks t)).
Proof.
  unfold wf_template. rewrite andb_true_iff, negb_true_iff. intros [_ H].
  apply has_dup_NoDup. assumption.
Qed.

(** The stack of a block name after the walk: the chain's definitions of that
    name, most derived first (so [stack[0]] is the most derived override and
    each item's [parent] the next less derived definition). *)
Theorem stacks_are_definitions : forall ch st n,
  Forall (fun t => wf_template t = true) ch ->
  stack_of (store_chain st ch) n = stack_of st n ++ defs ch n.
Proof.
  unfold store_chain, defs. induction ch as [|t ch IH]; intros st n H; simpl.
  - rewrite app_nil_r. reflexivity.
  - inversion H; subst. rewrite IH by assumption. rewrite stack_of_store_blocks.
    rewrite filter_nodup_find by (apply wf_template_nodup; assumption).
    rewrite <- app_assoc. reflexivity.
Qed.

Lemma last_cons_nonempty {A} (x : A) l d d' : l <> [] -> last (x :: l) d = last l d'.
Proof.
  revert x. induction l as [|y l IH]; intros x H; [contradiction|].
  destruct l as [|z l]; [reflexivity|].
  change (last (x :: y :: z :: l) d) with (last (y :: z :: l) d).
  rewrite (IH y) by discriminate. symmetry.
  change (last (y :: z :: l) d') with (last (z :: l) d'). reflexivity.
Qed.

Lemma spec_chain_nonempty : forall f ld vis t ch, spec_chain f ld vis t = Ok ch -> ch <> [].
Proof.
  destruct f as [|f]; intros ld vis t ch; simpl; [discriminate|].
  destruct (wf_template t); simpl; [|discriminate].
  destruct (ext_of t) as [n|]; [|intro H; inversion H; discriminate].
  destruct (mem_str n vis); [discriminate|].
  destruct (assoc n ld) as [t'|]; [|discriminate].
  destruct (forallb endok_item t'); simpl; [|discriminate].
  destruct (spec_chain f ld (n :: vis) t'); simpl; try discriminate.
  intro H; inversion H; discriminate.
Qed.

(** The walk of the code and the chain of the specification, in lock step. *)
Lemma loop_spec_chain ld : forall f st seen t,
  loop f ld st seen t t
  = match spec_chain f ld seen t with
    | Ok ch => Ok (store_chain st ch, last ch t)
    | LErr c p => LErr c p
    | PyExc k => PyExc k
    | OutOfFuel => OutOfFuel
    end.
Proof.
  induction f as [|f IH]; intros st seen t; simpl; [reflexivity|].
  unfold step. rewrite stack_blocks_wf.
  destruct (wf_template t); simpl; [|reflexivity].
  destruct (ext_of t) as [n|]; simpl; [|reflexivity].
  destruct (mem_str n seen); [reflexivity|].
  unfold load. destruct (assoc n ld) as [t'|]; simpl; [|reflexivity].
  destruct (forallb endok_item t'); simpl; [|reflexivity].
  rewrite IH. destruct (spec_chain f ld (n :: seen) t') as [ch| | |] eqn:E; simpl; try reflexivity.
  f_equal. f_equal. symmetry. apply last_cons_nonempty. eapply spec_chain_nonempty; eauto.
Qed.

Lemma build_is_loop ld st leaf :
  ext_of leaf <> None ->
  build_block_stacks ld st leaf = loop (length ld + 2) ld st [] leaf leaf.
Proof.
  intro He. unfold build_block_stacks. replace (length ld + 2) with (S (length ld + 1)) by lia.
  simpl. unfold step. rewrite stack_blocks_wf.
  destruct (wf_template leaf); simpl; [|reflexivity].
  destruct (ext_of leaf) as [n|]; [|contradiction]. simpl.
  destruct (load ld n); reflexivity.
Qed.

Lemma spec_chain_wf : forall f ld vis t ch,
  spec_chain f ld vis t = Ok ch -> Forall (fun t => wf_template t = true) ch.
Proof.
  induction f as [|f IH]; intros ld vis t ch; simpl; [discriminate|].
  destruct (wf_template t) eqn:W; simpl; [|discriminate].
  destruct (ext_of t) as [n|].
  - destruct (mem_str n vis); [discriminate|].
    destruct (assoc n ld) as [t'|]; [|discriminate].
    destruct (forallb endok_item t'); simpl; [|discriminate].
    destruct (spec_chain f ld (n :: vis) t') eqn:E; simpl; try discriminate.
    intro H; inversion H; subst. constructor; [assumption|eauto].
  - intro H; inversion H; subst. constructor; [assumption|constructor].
Qed.

(** Monotonicity in the fuel. *)
Lemma spec_chain_mono : forall f ld vis t r,
  spec_chain f ld vis t = r -> r <> OutOfFuel ->
  forall f', f <= f' -> spec_chain f' ld vis t = r.
Proof.
  induction f as [|f IH]; intros ld vis t r H Hr f' Hle; simpl in H; [absurd_oof|].
  destruct f' as [|f']; [lia|]. simpl.
  destruct (wf_template t); simpl in *; [|assumption].
  destruct (ext_of t) as [n|]; [|assumption].
  destruct (mem_str n vis); [assumption|].
  destruct (assoc n ld) as [t'|]; [|assumption].
  destruct (forallb endok_item t'); simpl in *; [|assumption].
  destruct (spec_chain f ld (n :: vis) t') eqn:E; simpl in H.
  - rewrite (IH _ _ _ _ E) by (try discriminate; lia). assumption.
  - rewrite (IH _ _ _ _ E) by (try discriminate; lia). assumption.
  - rewrite (IH _ _ _ _ E) by (try discriminate; lia). assumption.
  - absurd_oof.
Qed.

Definition spec_item (f : nat) (sp : bool) (ch : list template) (sup : list bdef) (it : item)
  : res str :=
  match it with
  | Text s => Ok s
  | Quiet => Ok []
  | Ext _ => cde
  | Super =>
      match sup with
      | [] => Ok []
      | d :: sup' => tblock sp (b_body d) (spec_items f sp ch sup' (b_body d))
      end
  | Blk n req body _ =>
      match defs ch n with
      | [] => if req then reqerr else tblock sp body (spec_items f sp ch [] body)
      | d :: sup' =>
          if b_req d then reqerr else tblock sp (b_body d) (spec_items f sp ch sup' (b_body d))
      end
  | Wrap _ body => tblock sp body (spec_items f sp ch sup body)
  end.

Lemma spec_items_S f sp ch sup it rest :
  spec_items (S f) sp ch sup (it :: rest)
  = do a <- spec_item f sp ch sup it;; do b <- spec_items f sp ch sup rest;; Ok (a ++ b).
Proof. destruct it; reflexivity. Qed.

Lemma spec_items_nil f sp ch sup : spec_items (S f) sp ch sup [] = Ok [].
Proof. reflexivity. Qed.

Lemma tblock_mono sp b (X Y : res str) r :
  (X <> OutOfFuel -> Y = X) -> tblock sp b X = r -> r <> OutOfFuel -> tblock sp b Y = r.
Proof.
  intros H E Hr. rewrite H; [assumption|].
  intro EX. apply Hr. rewrite <- E, EX. apply tblock_oof.
Qed.

Lemma spec_item_mono_aux f sp ch :
  (forall sup its r, spec_items f sp ch sup its = r -> r <> OutOfFuel ->
                     forall f', f <= f' -> spec_items f' sp ch sup its = r) ->
  forall sup it r, spec_item f sp ch sup it = r -> r <> OutOfFuel ->
                   forall f', f <= f' -> spec_item f' sp ch sup it = r.
Proof.
  intros IH sup it r H Hr f' Hle.
  destruct it as [s|n req body e| |n| |k body]; simpl in *; try assumption.
  - destruct (defs ch n) as [|d sup'].
    + destruct req; [assumption|].
      eapply tblock_mono; [|exact H|exact Hr]. intro N. eapply IH; eauto.
    + destruct (b_req d); [assumption|].
      eapply tblock_mono; [|exact H|exact Hr]. intro N. eapply IH; eauto.
  - destruct sup as [|d sup']; [assumption|].
    eapply tblock_mono; [|exact H|exact Hr]. intro N. eapply IH; eauto.
  - eapply tblock_mono; [|exact H|exact Hr]. intro N. eapply IH; eauto.
Qed.

Lemma spec_items_mono : forall f sp ch sup its r,
  spec_items f sp ch sup its = r -> r <> OutOfFuel ->
  forall f', f <= f' -> spec_items f' sp ch sup its = r.
Proof.
  induction f as [|f IH]; intros sp ch sup its r H Hr f' Hle; [simpl in H; absurd_oof|].
  destruct f' as [|f']; [lia|]. assert (f <= f') as Hle' by lia.
  destruct its as [|it rest]; [exact H|].
  rewrite spec_items_S in *.
  destruct (spec_item f sp ch sup it) as [a| | |] eqn:Ea; simpl in H.
  - rewrite (spec_item_mono_aux f sp ch (IH sp ch) _ _ _ Ea) by (try discriminate; assumption). simpl.
    destruct (spec_items f sp ch sup rest) as [b| | |] eqn:Eb; simpl in H;
      try (rewrite (IH _ _ _ _ _ Eb) by (try discriminate; assumption); exact H).
    exfalso; apply Hr; symmetry; exact H.
  - rewrite (spec_item_mono_aux f sp ch (IH sp ch) _ _ _ Ea) by (try discriminate; assumption). exact H.
  - rewrite (spec_item_mono_aux f sp ch (IH sp ch) _ _ _ Ea) by (try discriminate; assumption). exact H.
  - absurd_oof.
Qed.

Lemma spec_item_mono f sp ch sup it r :
  spec_item f sp ch sup it = r -> r <> OutOfFuel ->
  forall f', f <= f' -> spec_item f' sp ch sup it = r.
Proof. apply spec_item_mono_aux. intros; eapply spec_items_mono; eauto. Qed.

Lemma spec_inherit_mono f sp ld name r :
  spec_inherit f sp ld name = r -> r <> OutOfFuel ->
  forall f', f <= f' -> spec_inherit f' sp ld name = r.
Proof.
  unfold spec_inherit. intros H Hr f' Hle.
  destruct (assoc name ld) as [leaf|]; [|assumption].
  destruct (forallb endok_item leaf); simpl in *; [|assumption].
  destruct (spec_chain f ld [] leaf) as [ch| | |] eqn:E; simpl in H.
  - rewrite (spec_chain_mono _ _ _ _ _ E) by (try discriminate; assumption). simpl.
    eapply spec_items_mono; eauto.
  - rewrite (spec_chain_mono _ _ _ _ _ E) by (try discriminate; assumption). exact H.
  - rewrite (spec_chain_mono _ _ _ _ _ E) by (try discriminate; assumption). exact H.
  - absurd_oof.
Qed.

(** The specification is a partial function: whatever fuel makes it answer,
    the answer is the same. *)
Theorem spec_inherit_deterministic f1 f2 sp ld name r1 r2 :
  spec_inherit f1 sp ld name = r1 -> spec_inherit f2 sp ld name = r2 ->
  r1 <> OutOfFuel -> r2 <> OutOfFuel -> r1 = r2.
Proof.
  intros H1 H2 N1 N2.
  pose proof (spec_inherit_mono _ _ _ _ _ H1 N1 (Nat.max f1 f2) (Nat.le_max_l _ _)).
  pose proof (spec_inherit_mono _ _ _ _ _ H2 N2 (Nat.max f1 f2) (Nat.le_max_r _ _)).
  congruence.
Qed.

(** * D. soundness of the render against the specification *)

Definition spec_sup (f : nat) (sp : bool) (ch : list template) (sup : list bdef) : res str :=
  match sup with
  | [] => Ok []
  | d :: sup' => tblock sp (b_body d) (spec_items f sp ch sup' (b_body d))
  end.

Section Sound.
  Variable limit : nat.
  Variable sp : bool.
  Variable st : stacks.
  Variable ch : list template.
  Hypothesis Hst : forall n, stack_of st n = defs ch n.

  (** [block] in scope denotes the less derived definitions [sup]. *)
  Definition drop_ok (dr : drop) (sup : list bdef) : Prop :=
    match dr with
    | Own ps => ps = sup
    | Outer th => th tt = cde \/ exists f, spec_sup f sp ch sup = th tt /\ th tt <> OutOfFuel
    end.

  Definition fun_ok (g : drop -> list item -> res str) : Prop :=
    forall dr sup its r, drop_ok dr sup -> g dr its = r -> r <> cde ->
      exists f, spec_items f sp ch sup its = r /\ r <> OutOfFuel.

  Definition it_ok (g : item -> res str) (sup : list bdef) (it : item) : Prop :=
    forall r, g it = r -> r <> cde -> exists f, spec_item f sp ch sup it = r /\ r <> OutOfFuel.

  Lemma cat_ok g sup :
    forall its, Forall (it_ok g sup) its ->
    forall r, cat_map g its = r -> r <> cde ->
      exists f, spec_items f sp ch sup its = r /\ r <> OutOfFuel.
  Proof.
    induction its as [|it rest IH]; intros HF r H Hr.
    - exists 1. simpl in H. subst. split; [reflexivity|discriminate].
    - apply Forall_cons_iff in HF as [Hg HF']. specialize (IH HF').
      rewrite cat_map_cons in H.
      destruct (g it) as [a|c p|k|] eqn:Ea; simpl in H.
      + destruct (Hg _ Ea) as [f1 [H1 _]]; [discriminate|].
        destruct (cat_map g rest) as [b|c p|k|] eqn:Eb; simpl in H.
        * destruct (IH _ eq_refl) as [f2 [H2 _]]; [discriminate|].
          exists (S (Nat.max f1 f2)). rewrite spec_items_S.
          rewrite (spec_item_mono _ _ _ _ _ _ H1) by (try discriminate; apply Nat.le_max_l). simpl.
          rewrite (spec_items_mono _ _ _ _ _ _ H2) by (try discriminate; apply Nat.le_max_r). simpl.
          subst. split; [reflexivity|discriminate].
        * assert (LErr c p <> (cde : res str)) as Hn by (subst; assumption).
          destruct (IH _ eq_refl Hn) as [f2 [H2 _]].
          exists (S (Nat.max f1 f2)). rewrite spec_items_S.
          rewrite (spec_item_mono _ _ _ _ _ _ H1) by (try discriminate; apply Nat.le_max_l). simpl.
          rewrite (spec_items_mono _ _ _ _ _ _ H2) by (try discriminate; apply Nat.le_max_r). simpl.
          subst. split; [reflexivity|discriminate].
        * destruct (IH _ eq_refl) as [f2 [H2 _]]; [discriminate|].
          exists (S (Nat.max f1 f2)). rewrite spec_items_S.
          rewrite (spec_item_mono _ _ _ _ _ _ H1) by (try discriminate; apply Nat.le_max_l). simpl.
          rewrite (spec_items_mono _ _ _ _ _ _ H2) by (try discriminate; apply Nat.le_max_r). simpl.
          subst. split; [reflexivity|discriminate].
        * destruct (IH _ eq_refl) as [f2 [_ H2]]; [discriminate|]. exfalso. apply H2. reflexivity.
      + assert (LErr c p <> (cde : res str)) as Hn by (subst; assumption).
        destruct (Hg _ Ea Hn) as [f1 [H1 _]].
        exists (S f1). rewrite spec_items_S, H1. simpl. subst. split; [reflexivity|discriminate].
      + destruct (Hg _ Ea) as [f1 [H1 _]]; [discriminate|].
        exists (S f1). rewrite spec_items_S, H1. simpl. subst. split; [reflexivity|discriminate].
      + destruct (Hg _ Ea) as [f1 [_ H1]]; [discriminate|]. exfalso. apply H1. reflexivity.
  Qed.

  (** A body rendered through ast.BlockNode.render. *)
  Lemma tblock_ok b X r (S : nat -> res str) :
    tblock sp b X = r -> r <> cde ->
    (X <> cde -> exists f, S f = X /\ X <> OutOfFuel) ->
    exists f, tblock sp b (S f) = r /\ r <> OutOfFuel.
  Proof.
    intros H Hr HX. assert (X <> cde) as N by (eapply tblock_not_cde; rewrite H; exact Hr).
    destruct (HX N) as [f [Hf Hn]]. exists f. rewrite Hf. split; [exact H|].
    rewrite <- H. apply tblock_keeps_not_oof. exact Hn.
  Qed.

  Lemma item_ok copy ext :
    fun_ok copy -> fun_ok ext ->
    forall it dr sup, drop_ok dr sup -> it_ok (item_step sp st copy ext dr) sup it.
  Proof.
    intros Hc He. induction it as [s|n req body e IHb| |n| |k body IHb] using item_ind';
      intros dr sup Hd r H Hr; simpl in H.
    - exists 0. subst. split; [reflexivity|discriminate].
    - rewrite Hst in H. simpl. destruct (defs ch n) as [|d sup'].
      + destruct req.
        * exists 0. subst. split; [reflexivity|discriminate].
        * apply (tblock_ok body _ r (fun f => spec_items f sp ch [] body) H Hr). intro N.
          exact (He (Own []) [] body _ eq_refl eq_refl N).
      + destruct (b_req d).
        * exists 0. subst. split; [reflexivity|discriminate].
        * apply (tblock_ok (b_body d) _ r (fun f => spec_items f sp ch sup' (b_body d)) H Hr). intro N.
          refine (Hc _ sup' (b_body d) _ _ eq_refl N). simpl.
          destruct sup' as [|p ps].
          -- right. exists 0. split; [reflexivity|discriminate].
          -- destruct (res_cde_dec (tblock sp (b_body p) (ext (Own ps) (b_body p)))) as [E|E];
               [left; assumption|]. right.
             apply (tblock_ok (b_body p) _ _ (fun f => spec_items f sp ch ps (b_body p)) eq_refl E).
             intro N'. exact (He (Own ps) ps (b_body p) _ eq_refl eq_refl N').
    - destruct dr as [ps|th]; simpl in Hd.
      + subst ps. destruct sup as [|p ps]; simpl.
        * exists 0. subst. split; [reflexivity|discriminate].
        * apply (tblock_ok (b_body p) _ r (fun f => spec_items f sp ch ps (b_body p)) H Hr). intro N.
          exact (He (Own ps) ps (b_body p) _ eq_refl eq_refl N).
      + destruct Hd as [Hd|[f [Hf Hn]]]; [congruence|].
        exists f. subst r. split; [|assumption]. destruct sup; exact Hf.
    - congruence.
    - exists 0. subst. split; [reflexivity|discriminate].
    - simpl. destruct (wrap_scoped k).
      + apply (tblock_ok body _ r (fun f => spec_items f sp ch sup body) H Hr). intro N.
        exact (He dr sup body _ Hd eq_refl N).
      + apply (tblock_ok body _ r (fun f => spec_items f sp ch sup body) H Hr). intro N.
        apply (cat_ok (item_step sp st copy ext dr) sup body); [|reflexivity|exact N].
        eapply Forall_impl; [|exact IHb]. intros it Hit. exact (Hit dr sup Hd).
  Qed.

  Lemma R_sound_step df sf :
    fun_ok (copyf limit sp st df) -> fun_ok (extf limit sp st df sf) -> fun_ok (R limit sp st df sf).
  Proof.
    intros Hc He dr sup its r Hd H Hr. rewrite R_unfold in H.
    apply (cat_ok (item_step sp st (copyf limit sp st df) (extf limit sp st df sf) dr) sup its);
      [|exact H|exact Hr].
    apply Forall_forall. intros it _. exact (item_ok _ _ Hc He it dr sup Hd).
  Qed.

  Lemma fun_ok_cde : fun_ok (fun _ _ => cde).
  Proof. intros dr sup its r _ H Hr. congruence. Qed.

  Lemma R_sound : forall df sf, fun_ok (R limit sp st df sf).
  Proof.
    induction df as [|df IHdf]; intro sf; induction sf as [|sf IHsf]; apply R_sound_step; simpl;
      auto using fun_ok_cde.
  Qed.
End Sound.

(** * E. completeness: what the specification defines is what the code
      renders as soon as the context limit exceeds the depth of the page *)

Section Complete.
  Variable limit : nat.
  Variable sp : bool.
  Variable st : stacks.
  Variable ch : list template.
  Hypothesis Hst : forall n, stack_of st n = defs ch n.

  Definition drop_ok2 (f : nat) (dr : drop) (sup : list bdef) : Prop :=
    match dr with
    | Own ps => ps = sup
    | Outer th => forall f', f' < f -> spec_sup f' sp ch sup <> OutOfFuel -> th tt = spec_sup f' sp ch sup
    end.

  Lemma drop_ok2_weaken f f' dr sup : f' <= f -> drop_ok2 f dr sup -> drop_ok2 f' dr sup.
  Proof.
    destruct dr as [ps|th]; simpl; [auto|]. intros Hle H g Hg. apply H. lia.
  Qed.

  (** equal bodies under [tblock] *)
  Lemma tblock_eq b (X Y : res str) ra :
    tblock sp b Y = ra -> ra <> OutOfFuel -> (Y <> OutOfFuel -> X = Y) -> tblock sp b X = ra.
  Proof.
    intros H Hra HXY. rewrite HXY; [exact H|].
    eapply tblock_not_oof. rewrite H. exact Hra.
  Qed.

  Lemma R_complete : forall f df sf dr sup its r,
    f <= df -> f <= sf -> f <= limit - 3 -> drop_ok2 f dr sup ->
    spec_items f sp ch sup its = r -> r <> OutOfFuel ->
    R limit sp st df sf dr its = r.
  Proof.
    induction f as [f IH] using lt_wf_ind.
    intros df sf dr sup its r Hdf Hsf Hlim Hd H Hr.
    destruct f as [|f0]; [simpl in H; absurd_oof|].
    destruct its as [|it rest]; [simpl in H; subst; rewrite R_unfold; reflexivity|].
    rewrite spec_items_S in H. rewrite R_unfold, cat_map_cons.
    destruct df as [|df']; [lia|]. destruct sf as [|sf']; [lia|].
    assert (forall ra, spec_item f0 sp ch sup it = ra -> ra <> OutOfFuel ->
              item_step sp st (copyf limit sp st (S df')) (extf limit sp st (S df') (S sf')) dr it = ra) as HA.
    { intros ra Ha Hra.
      destruct it as [s|n req body e| |n| |k body]; cbn [spec_item] in Ha.
      - assumption.
      - rewrite item_step_blk. cbn [extf copyf]. rewrite Hst. destruct (defs ch n) as [|d sup'].
        + destruct req; [assumption|].
          apply (tblock_eq _ _ _ _ Ha Hra). intro N.
          apply (IH f0) with (sup := []); try lia; [reflexivity|reflexivity|assumption].
        + destruct (b_req d); [assumption|].
          apply (tblock_eq _ _ _ _ Ha Hra). intro N.
          apply (IH f0) with (sup := sup'); try lia; [|reflexivity|assumption].
          cbn [drop_ok2]. intros f' Hf' Hne. destruct sup' as [|p ps]; [reflexivity|].
          cbn [spec_sup] in Hne |- *.
          apply (tblock_eq _ _ _ _ eq_refl Hne). intro N'.
          apply (IH f') with (sup := ps); try lia; [reflexivity|reflexivity|assumption].
      - rewrite item_step_super. cbn [extf copyf]. destruct dr as [ps|th]; simpl in Hd.
        + subst ps. destruct sup as [|p ps]; [assumption|].
          apply (tblock_eq _ _ _ _ Ha Hra). intro N.
          apply (IH f0) with (sup := ps); try lia; [reflexivity|reflexivity|assumption].
        + rewrite (Hd f0) by (try lia; destruct sup; cbn [spec_sup]; rewrite Ha; assumption).
          destruct sup; exact Ha.
      - assumption.
      - assumption.
      - rewrite item_step_wrap. destruct (wrap_scoped k).
        + cbn [extf]. apply (tblock_eq _ _ _ _ Ha Hra). intro N.
          apply (IH f0) with (sup := sup); try lia; [|reflexivity|assumption].
          eapply drop_ok2_weaken; [|eassumption]. lia.
        + apply (tblock_eq _ _ _ _ Ha Hra). intro N.
          rewrite <- R_unfold.
          apply (IH f0) with (sup := sup); try lia; [|reflexivity|assumption].
          eapply drop_ok2_weaken; [|eassumption]. lia. }
    assert (forall rb, spec_items f0 sp ch sup rest = rb -> rb <> OutOfFuel ->
              cat_map (item_step sp st (copyf limit sp st (S df')) (extf limit sp st (S df') (S sf')) dr) rest = rb) as HB.
    { intros rb Hb Hrb. rewrite <- R_unfold.
      apply (IH f0) with (sup := sup); try lia; try assumption.
      eapply drop_ok2_weaken; [|eassumption]. lia. }
    destruct (spec_item f0 sp ch sup it) as [a|c p|k|] eqn:Ea; simpl in H.
    - rewrite (HA _ eq_refl) by discriminate. cbn [bind].
      destruct (spec_items f0 sp ch sup rest) as [b|c p|k|] eqn:Eb; simpl in H.
      + rewrite (HB _ eq_refl) by discriminate. exact H.
      + rewrite (HB _ eq_refl) by discriminate. exact H.
      + rewrite (HB _ eq_refl) by discriminate. exact H.
      + absurd_oof.
    - rewrite (HA _ eq_refl) by discriminate. exact H.
    - rewrite (HA _ eq_refl) by discriminate. exact H.
    - absurd_oof.
  Qed.
End Complete.

(** * F. the render of a leaf that starts with its extends tag *)

Lemma render_leaf_ext limit sp ld df sf n rest :
  render_leaf limit sp ld df (S sf) (Ext n :: rest)
  = do p <- build_block_stacks ld [] (Ext n :: rest);;
    match sf with
    | O => cde
    | S sf' => R limit sp (fst p) df sf' (Own []) (snd p)
    end.
Proof.
  unfold render_leaf.
  destruct sf as [|sf']; simpl; unfold chain;
    destruct (build_block_stacks ld [] (Ext n :: rest)) as [[st base]| | |]; simpl; try reflexivity.
  destruct (R limit sp st df sf' (Own []) base); reflexivity.
Qed.

Lemma ext_of_ext n rest : ext_of (Ext n :: rest) = Some n.
Proof. reflexivity. Qed.

Lemma last_default_irrelevant {A} (l : list A) d d' : l <> [] -> last l d = last l d'.
Proof.
  induction l as [|x l IH]; [contradiction|]. intros _.
  destruct l as [|y l]; [reflexivity|].
  change (last (y :: l) d = last (y :: l) d'). apply IH. discriminate.
Qed.

Lemma build_spec_chain ld n rest :
  let leaf := Ext n :: rest in
  build_block_stacks ld [] leaf
  = match spec_chain (length ld + 2) ld [] leaf with
    | Ok ch => Ok (store_chain [] ch, last ch [])
    | LErr c p => LErr c p
    | PyExc k => PyExc k
    | OutOfFuel => OutOfFuel
    end.
Proof.
  intro leaf. rewrite build_is_loop by (unfold leaf; rewrite ext_of_ext; discriminate).
  rewrite loop_spec_chain.
  destruct (spec_chain (length ld + 2) ld [] leaf) as [ch| | |] eqn:E; try reflexivity.
  f_equal. f_equal. apply last_default_irrelevant. eapply spec_chain_nonempty; eauto.
Qed.

Lemma spec_chain_total ld n rest :
  spec_chain (length ld + 2) ld [] (Ext n :: rest) <> OutOfFuel.
Proof.
  intro E. apply (build_terminates ld [] (Ext n :: rest)).
  rewrite build_spec_chain, E. reflexivity.
Qed.

(** The chain of the specification does not depend on the fuel once it
    answers; [length ld + 2] is always enough. *)
Lemma spec_chain_any_fuel ld n rest f r :
  spec_chain f ld [] (Ext n :: rest) = r -> r <> OutOfFuel ->
  spec_chain (length ld + 2) ld [] (Ext n :: rest) = r.
Proof.
  intros H Hr. destruct (Nat.le_gt_cases f (length ld + 2)) as [L|L].
  - eapply spec_chain_mono; eauto.
  - pose proof (spec_chain_total ld n rest) as T.
    pose proof (spec_chain_mono _ _ _ _ _ eq_refl T f (Nat.lt_le_incl _ _ L)). congruence.
Qed.

Lemma stacks_of_chain ch n0 :
  Forall (fun t => wf_template t = true) ch ->
  stack_of (store_chain [] ch) n0 = defs ch n0.
Proof. intro H. rewrite stacks_are_definitions by assumption. reflexivity. Qed.

(** Soundness.  For a leaf that starts with its extends tag, whatever the
    code renders (a page or an error other than the context-depth limit) is
    what the specification defines. *)
Theorem inherit_resolves_most_derived_partial : forall limit sp (ld : loader) name n rest r,
  assoc name ld = Some (Ext n :: rest) ->
  render_name limit sp ld name = r -> r <> cde ->
  exists f, spec_inherit f sp ld name = r /\ r <> OutOfFuel.
Proof.
  intros limit sp ld name n rest r Ha H Hr.
  unfold render_name, load in H. unfold spec_inherit. rewrite Ha in H. rewrite Ha.
  destruct (forallb endok_item (Ext n :: rest)) eqn:Eok; cbn [negb bind] in *.
  2:{ exists 0. subst. split; [reflexivity|discriminate]. }
  destruct (limit - 3) as [|sf] eqn:El; [simpl in H; congruence|].
  rewrite render_leaf_ext, build_spec_chain in H.
  pose proof (spec_chain_total ld n rest) as T.
  destruct (spec_chain (length ld + 2) ld [] (Ext n :: rest)) as [ch|c p|k|] eqn:Ec; cbn [bind fst snd] in H.
  - destruct sf as [|sf']; [congruence|].
    pose proof (spec_chain_wf _ _ _ _ _ Ec) as W.
    destruct (R_sound limit sp (store_chain [] ch) ch (fun m => stacks_of_chain ch m W)
                (limit + 1) sf' (Own []) [] (last ch []) r eq_refl H Hr) as [f [Hf Hn]].
    exists (Nat.max f (length ld + 2)).
    rewrite (spec_chain_mono _ _ _ _ _ Ec) by (try discriminate; apply Nat.le_max_r). cbn [bind].
    split; [|assumption]. eapply spec_items_mono; eauto. apply Nat.le_max_l.
  - exists (length ld + 2). rewrite Ec. subst. split; [reflexivity|discriminate].
  - exists (length ld + 2). rewrite Ec. subst. split; [reflexivity|discriminate].
  - contradiction.
Qed.

(** Completeness.  Every answer of the specification (page or error) is
    rendered by the code as soon as context_depth_limit >= fuel + 5. *)
Theorem inherit_spec_is_rendered : forall f sp (ld : loader) name n rest r limit,
  assoc name ld = Some (Ext n :: rest) ->
  spec_inherit f sp ld name = r -> r <> OutOfFuel ->
  f + 5 <= limit ->
  render_name limit sp ld name = r.
Proof.
  intros f sp ld name n rest r limit Ha H Hr Hl.
  unfold render_name, load. unfold spec_inherit in H. rewrite Ha in H. rewrite Ha.
  destruct (forallb endok_item (Ext n :: rest)) eqn:Eok; cbn [negb bind] in *; [|assumption].
  destruct (limit - 3) as [|sf] eqn:El; [lia|].
  rewrite render_leaf_ext, build_spec_chain.
  destruct (spec_chain f ld [] (Ext n :: rest)) as [ch|c p|k|] eqn:Ec; cbn [bind] in H.
  - rewrite (spec_chain_any_fuel _ _ _ _ _ Ec) by discriminate. cbn [bind fst snd].
    destruct sf as [|sf']; [lia|].
    pose proof (spec_chain_wf _ _ _ _ _ Ec) as W.
    apply (R_complete limit sp (store_chain [] ch) ch (fun m => stacks_of_chain ch m W) f)
      with (sup := []); try lia; [reflexivity|assumption|assumption].
  - rewrite (spec_chain_any_fuel _ _ _ _ _ Ec) by discriminate. exact H.
  - rewrite (spec_chain_any_fuel _ _ _ _ _ Ec) by discriminate. exact H.
  - absurd_oof.
Qed.

(** * G. rejections *)

Inductive doomed (ld : loader) : template -> Prop :=
| d_ill t : wf_template t = false -> doomed ld t
| d_parse t n t' :
    ext_of t = Some n -> assoc n ld = Some t' -> forallb endok_item t' = false -> doomed ld t
| d_parent t n t' :
    ext_of t = Some n -> assoc n ld = Some t' -> doomed ld t' -> doomed ld t.

Lemma loop_doomed ld t (D : doomed ld t) :
  forall f st seen base, loop f ld st seen base t = tie \/ loop f ld st seen base t = OutOfFuel.
Proof.
  induction D as [t W|t n t' He Ha Hp|t n t' He Ha Hd IH]; intros f st seen base; destruct f as [|f]; simpl; auto;
    unfold step; rewrite stack_blocks_wf.
  - rewrite W. auto.
  - destruct (wf_template t); simpl; auto. rewrite He. simpl.
    destruct (mem_str n seen); auto. unfold load. rewrite Ha, Hp. auto.
  - destruct (wf_template t); simpl; auto. rewrite He. simpl.
    destruct (mem_str n seen); auto. unfold load. rewrite Ha.
    destruct (forallb endok_item t'); simpl; auto.
Qed.

Lemma circular_parent ld t :
  circular ld t -> exists n t', ext_of t = Some n /\ assoc n ld = Some t' /\ circular ld t'.
Proof.
  intro C. pose proof (C 1) as C1. simpl in C1.
  destruct (ext_of t) as [n|] eqn:He; [|congruence].
  destruct (assoc n ld) as [t'|] eqn:Ha; [|congruence].
  exists n, t'. split; [first [assumption|reflexivity]|]. split; [first [assumption|reflexivity]|]. intro k. specialize (C (S k)). simpl in C. rewrite He, Ha in C. exact C.
Qed.

Lemma loop_circular ld : forall f t st seen base, circular ld t ->
  loop f ld st seen base t = tie \/ loop f ld st seen base t = OutOfFuel.
Proof.
  induction f as [|f IH]; intros t st seen base C; simpl; auto.
  destruct (circular_parent _ _ C) as [n [t' [He [Ha C']]]].
  unfold step. rewrite stack_blocks_wf. destruct (wf_template t); simpl; auto.
  rewrite He. simpl. destruct (mem_str n seen); auto. unfold load. rewrite Ha.
  destruct (forallb endok_item t'); simpl; auto.
Qed.

(** Kernel level: _build_block_stacks rejects every such chain with
    TemplateInheritanceError, within its fixed fuel, for every loader. *)
Theorem chain_rejected ld st leaf :
  ext_of leaf <> None -> doomed ld leaf \/ circular ld leaf ->
  build_block_stacks ld st leaf = tie.
Proof.
  intros He H. pose proof (build_terminates ld st leaf) as T.
  rewrite build_is_loop in * by assumption.
  destruct H as [H|H]; [destruct (loop_doomed _ _ H (length ld + 2) st [] leaf)
                       |destruct (loop_circular ld (length ld + 2) leaf st [] leaf H)];
    try assumption; contradiction.
Qed.

Lemma render_name_chain_rejected limit sp (ld : loader) name n rest :
  4 <= limit -> assoc name ld = Some (Ext n :: rest) ->
  doomed ld (Ext n :: rest) \/ circular ld (Ext n :: rest) ->
  render_name limit sp ld name = tie.
Proof.
  intros Hl Ha H. unfold render_name, load. rewrite Ha.
  destruct (forallb endok_item (Ext n :: rest)); cbn [bind]; [|reflexivity].
  destruct (limit - 3) as [|sf] eqn:E; [lia|].
  rewrite render_leaf_ext, chain_rejected; [reflexivity| |assumption].
  rewrite ext_of_ext. discriminate.
Qed.

Lemma on_chain_doomed ld t u : on_chain ld t u -> doomed ld u -> doomed ld t.
Proof. induction 1; intro D; [assumption|]. eapply d_parent; eauto. Qed.

Lemma two_exts_ill t : 1 < length (find_exts t) -> wf_template t = false.
Proof.
  intro H. unfold wf_template. destruct (length (find_exts t) <=? 1) eqn:E; [|reflexivity].
  apply Nat.leb_le in E. lia.
Qed.

Lemma dup_ill t : ~ NoDup (map b_name (find_blocks t)) -> wf_template t = false.
Proof.
  intro H. unfold wf_template. destruct (has_dup (map b_name (find_blocks t))) eqn:E.
  - apply andb_false_r.
  - apply has_dup_NoDup in E. contradiction.
Qed.

Theorem two_extends_rejected : forall limit sp (ld : loader) name n rest t,
  4 <= limit -> assoc name ld = Some (Ext n :: rest) ->
  on_chain ld (Ext n :: rest) t -> 1 < length (find_exts t) ->
  render_name limit sp ld name = tie.
Proof.
  intros limit sp ld name n rest t Hl Ha Hc H. eapply render_name_chain_rejected; eauto.
  left. eapply on_chain_doomed; eauto. apply d_ill, two_exts_ill, H.
Qed.

Theorem duplicate_block_rejected : forall limit sp (ld : loader) name n rest t,
  4 <= limit -> assoc name ld = Some (Ext n :: rest) ->
  on_chain ld (Ext n :: rest) t -> ~ NoDup (map b_name (find_blocks t)) ->
  render_name limit sp ld name = tie.
Proof.
  intros limit sp ld name n rest t Hl Ha Hc H. eapply render_name_chain_rejected; eauto.
  left. eapply on_chain_doomed; eauto. apply d_ill, dup_ill, H.
Qed.

Lemma on_chain_parse ld t u :
  on_chain ld t u -> forallb endok_item u = false -> u = t \/ doomed ld t.
Proof.
  induction 1 as [t|t n t' u He Ha Hc IH]; intro E; [left; reflexivity|]. right.
  destruct (IH E) as [->|D]; [eapply d_parse; eauto|eapply d_parent; eauto].
Qed.

Theorem endblock_name_mismatch_rejected : forall limit sp (ld : loader) name n rest t,
  4 <= limit -> assoc name ld = Some (Ext n :: rest) ->
  on_chain ld (Ext n :: rest) t -> forallb endok_item t = false ->
  render_name limit sp ld name = tie.
Proof.
  intros limit sp ld name n rest t Hl Ha Hc H.
  destruct (on_chain_parse _ _ _ Hc H) as [->|D].
  - unfold render_name, load. rewrite Ha, H. reflexivity.
  - eapply render_name_chain_rejected; eauto.
Qed.

Theorem circular_chain_rejected_and_terminates : forall limit sp (ld : loader) name n rest,
  4 <= limit -> assoc name ld = Some (Ext n :: rest) ->
  circular ld (Ext n :: rest) ->
  render_name limit sp ld name = tie
  /\ build_block_stacks ld [] (Ext n :: rest) = tie.
Proof.
  intros limit sp ld name n rest Hl Ha C. split.
  - eapply render_name_chain_rejected; eauto.
  - apply chain_rejected; [rewrite ext_of_ext; discriminate|auto].
Qed.

(** A block whose most derived definition is [required] is an error as soon
    as the render reaches it. *)
Theorem required_unoverridden_rejected :
  forall limit sp (ld : loader) name n rest f ch m d sup ts req body e its,
  6 <= limit -> assoc name ld = Some (Ext n :: rest) ->
  forallb endok_item (Ext n :: rest) = true ->
  spec_chain f ld [] (Ext n :: rest) = Ok ch ->
  defs ch m = d :: sup -> b_req d = true ->
  last ch [] = map Text ts ++ Blk m req body e :: its ->
  render_name limit sp ld name = reqerr.
Proof.
  intros limit sp ld name n rest f ch m d sup ts req body e its Hl Ha Hok Hc Hd Hr Hlast.
  unfold render_name, load. rewrite Ha, Hok. cbn [bind].
  destruct (limit - 3) as [|[|sf]] eqn:E; try lia.
  rewrite render_leaf_ext, build_spec_chain.
  rewrite (spec_chain_any_fuel _ _ _ _ _ Hc) by discriminate. cbn [bind fst snd].
  rewrite Hlast, R_unfold, cat_map_texts by reflexivity.
  rewrite cat_map_cons, item_step_blk.
  rewrite stacks_of_chain by (eapply spec_chain_wf; eauto). rewrite Hd, Hr. reflexivity.
Qed.

Local Open Scope N_scope.

(** * H. the full statement is refuted by the unchanged code (defect 30) *)

Definition s (l : list N) : str := l.
Definition w30 : loader :=
  [ (s [116;48], [Text (s [66]); Blk (s [97]) false [Text (s [120])] None]);
    (s [116;49], [Text (s [76]); Ext (s [116;48]); Blk (s [97]) false [Text (s [121])] None]) ].

(** "t1" = [L{% extends 't0' %}{% block a %}y{% endblock %}] over
    "t0" = [B{% block a %}x{% endblock %}] renders "LBy"; the page with the
    child's text outside blocks discarded is "By". *)
Theorem inherit_resolves_most_derived_refuted :
  exists limit sp (ld : loader) name leaf r,
    assoc name ld = Some leaf /\ ext_of leaf <> None /\
    render_name limit sp ld name = r /\ r <> cde /\
    forall f, spec_inherit f sp ld name <> r.
Proof.
  exists 30%nat, true, w30, (s [116;49]),
    [Text (s [76]); Ext (s [116;48]); Blk (s [97]) false [Text (s [121])] None],
    (Ok (s [76;66;121])).
  split; [reflexivity|]. split; [discriminate|]. split; [vm_compute; reflexivity|].
  split; [discriminate|]. intros f E.
  assert (spec_inherit 20%nat true w30 (s [116;49]) = Ok (s [66;121])) as E2 by (vm_compute; reflexivity).
  pose proof (spec_inherit_deterministic _ _ _ _ _ _ _ E E2) as D.
  assert (Ok (s [76;66;121]) = (Ok (s [66;121]) : res str)) as X by (apply D; discriminate).
  discriminate X.
Qed.

(** * I. non-vacuity: the hypotheses of the theorems above are satisfiable
      by non-trivial chains *)

Definition ta : str := s [97].
Definition tb : str := s [98].
Definition n0 : str := s [116;48].
Definition n1 : str := s [116;49].
Definition n2 : str := s [116;50].

(** t0 = [{% block a %}a0{% block b %}b0{% endblock %}{% endblock %}]
    t1 = {% extends 't0' %}{% block b %}b1{{ block.super }}{% endblock %}
    t2 = {% extends 't1' %}{% block a %}a2{{ block.super }}{% endblock %}x *)
Definition ex_ld : loader :=
  [ (n0, [Text (s [91]); Blk ta false [Text (s [97;48]); Blk tb false [Text (s [98;48])] None] None; Text (s [93])]);
    (n1, [Ext n0; Blk tb false [Text (s [98;49]); Super] None]);
    (n2, [Ext n1; Blk ta false [Text (s [97;50]); Super] None; Text (s [120])]) ].

Example ex_render : render_name 30%nat true ex_ld n2 = Ok (s [91;97;50;97;48;98;49;98;48;93]).
Proof. vm_compute. reflexivity. Qed.

Example ex_partial_hyps :
  exists n rest r, assoc n2 ex_ld = Some (Ext n :: rest) /\ render_name 30%nat true ex_ld n2 = r /\ r <> cde
                   /\ spec_inherit 40%nat true ex_ld n2 = r.
Proof.
  exists n1, [Blk ta false [Text (s [97;50]); Super] None; Text (s [120])],
    (Ok (s [91;97;50;97;48;98;49;98;48;93])).
  repeat split; try discriminate; vm_compute; reflexivity.
Qed.

Example ex_complete_hyps :
  spec_inherit 25%nat true ex_ld n2 <> OutOfFuel /\ (25 + 5 <= 30)%nat.
Proof. split; [vm_compute; discriminate|lia]. Qed.

(** rejections: a grandparent with two extends tags / a duplicate block /
    a mismatched endblock; a circular chain. *)
Definition bad_ld (bad : template) : loader :=
  [ (n0, bad); (n1, [Ext n0]); (n2, [Ext n1; Blk ta false [] None]) ].

Lemma bad_on_chain bad : on_chain (bad_ld bad) [Ext n1; Blk ta false [] None] bad.
Proof.
  eapply oc_parent; [reflexivity|reflexivity|].
  eapply oc_parent; [reflexivity|reflexivity|]. apply oc_here.
Qed.

Example ex_two_extends :
  let bad := [Ext n1; Blk ta false [Ext n2] None] in
  on_chain (bad_ld bad) [Ext n1; Blk ta false [] None] bad /\ (1 < length (find_exts bad))%nat
  /\ render_name 30%nat true (bad_ld bad) n2 = tie.
Proof. split; [apply bad_on_chain|]. split; [simpl; lia|vm_compute; reflexivity]. Qed.

Example ex_duplicate :
  let bad := [Blk ta false [Blk tb false [] None] None; Blk tb false [] None] in
  on_chain (bad_ld bad) [Ext n1; Blk ta false [] None] bad
  /\ ~ NoDup (map b_name (find_blocks bad))
  /\ render_name 30%nat true (bad_ld bad) n2 = tie.
Proof.
  split; [apply bad_on_chain|]. split; [|vm_compute; reflexivity].
  simpl. intro H. inversion H as [|? ? ? H2]; subst. inversion H2 as [|? ? H3 ?]; subst.
  apply H3. left. reflexivity.
Qed.

Example ex_endblock :
  let bad := [Blk ta false [] (Some tb)] in
  on_chain (bad_ld bad) [Ext n1; Blk ta false [] None] bad
  /\ forallb endok_item bad = false
  /\ render_name 30%nat true (bad_ld bad) n2 = tie.
Proof. split; [apply bad_on_chain|]. split; vm_compute; reflexivity. Qed.

Definition cyc_ld : loader := [ (n0, [Ext n1]); (n1, [Ext n2; Text (s [120])]); (n2, [Ext n1]) ].

Lemma cyc_circular : circular cyc_ld [Ext n1].
Proof.
  assert (forall k, nth_parent cyc_ld [Ext n1] k <> None
                    /\ nth_parent cyc_ld [Ext n2; Text (s [120])] k <> None) as H.
  { induction k as [|k [IH1 IH2]]; [split; discriminate|]. split; simpl; assumption. }
  intro k. apply H.
Qed.

Example ex_circular :
  circular cyc_ld [Ext n1] /\ render_name 30%nat true cyc_ld n0 = tie.
Proof. split; [apply cyc_circular|vm_compute; reflexivity]. Qed.

Example ex_required :
  let ld : loader :=
    [ (n0, [Text (s [91]); Blk ta true [] None]);
      (n1, [Ext n0; Blk ta true [Text (s [49])] None]);
      (n2, [Ext n1; Blk tb false [] None]) ] in
  exists ch d sup, spec_chain 5%nat ld [] [Ext n1; Blk tb false [] None] = Ok ch
    /\ defs ch ta = d :: sup /\ b_req d = true
    /\ last ch [] = map Text [s [91]] ++ Blk ta true [] None :: []
    /\ render_name 30%nat true ld n2 = reqerr.
Proof.
  eexists. eexists. eexists. repeat split; vm_compute; reflexivity.
Qed.

(** Blank-block suppression (on by default) never hides an override: a
    [required] block with an empty body, nested in a block that holds nothing
    else, still shows its most derived definition; only bodies made of
    whitespace and silent tags vanish. *)
Definition blank_ld : loader :=
  [ (n0, [Text (s [91]); Blk ta false [Text (s [32]); Blk tb true [] None; Quiet] None;
          Wrap WIf [Text (s [10])]; Text (s [93])]);
    (n1, [Ext n0; Blk tb false [Text (s [108;98])] None]) ].

Example ex_blank_suppression :
  render_name 30%nat true blank_ld n1 = Ok (s [91;32;108;98;93])
  /\ spec_inherit 40%nat true blank_ld n1 = Ok (s [91;32;108;98;93])
  /\ render_name 30%nat false blank_ld n1 = Ok (s [91;32;108;98;10;93]).
Proof. repeat split; vm_compute; reflexivity. Qed.
