(** Proofs/Value_decimal.v — the decimal rendering of integers in the Core model
    ([str_of_Z], Python [str(int)]) denotes the integer it was made from: reading
    the digits back ([int_of_str], Python [int(str)]) gives the same integer, for
    every integer however large.  Hence distinct integers render differently. *)
From LQ Require Import Core.Value Core.Render.
From Coq Require Import ZArith NArith List Lia Bool.
Import ListNotations.

Local Open Scope Z_scope.

Lemma digit_char (n : N) :
  ((48 <=? 48 + n mod 10) && (48 + n mod 10 <=? 57))%N = true
  /\ Z.of_N (48 + n mod 10 - 48) = Z.of_N (n mod 10).
Proof.
  assert (H : (n mod 10 < 10)%N) by (apply N.mod_lt; discriminate).
  remember (n mod 10)%N as m eqn:Em. clear Em.
  split.
  - apply andb_true_iff; split; apply N.leb_le; lia.
  - f_equal. lia.
Qed.

(** Reading back the digits that [pos_digits] puts in front of [acc], starting
    from the accumulator [a], continues reading [acc] from [a * 10^k + n]. *)
Lemma pos_digits_val : forall fuel n acc a,
  (n < 2 ^ N.of_nat fuel)%N -> (0 < fuel)%nat ->
  exists k, digits_val (pos_digits fuel n acc) a = digits_val acc (a * 10 ^ Z.of_nat k + Z.of_N n).
Proof.
  induction fuel as [|f IH]; intros n acc a Hn Hf; [lia|].
  cbn [pos_digits].
  destruct (digit_char n) as [Hd Hv].
  assert (Hdm : n = (10 * (n / 10) + n mod 10)%N) by (apply N.div_mod; discriminate).
  assert (Hlt : (n / 10 < 2 ^ N.of_nat f)%N).
  { rewrite Nat2N.inj_succ, N.pow_succ_r' in Hn.
    apply N.div_lt_upper_bound; [discriminate|]. lia. }
  remember (n mod 10)%N as m eqn:Em. remember (n / 10)%N as q eqn:Eqq. clear Em Eqq.
  destruct (q =? 0)%N eqn:Eq.
  - apply N.eqb_eq in Eq. exists 1%nat. cbn [digits_val]. rewrite Hd, Hv.
    f_equal. change (10 ^ Z.of_nat 1) with 10. lia.
  - apply N.eqb_neq in Eq.
    assert (Hf' : (0 < f)%nat).
    { destruct f; [|lia]. change (2 ^ N.of_nat 0)%N with 1%N in Hlt. lia. }
    destruct (IH q ((48 + m)%N :: acc) a Hlt Hf') as [k Hk].
    exists (S k). rewrite Hk. cbn [digits_val]. rewrite Hd, Hv. f_equal.
    rewrite Nat2Z.inj_succ, Z.pow_succ_r by lia.
    subst n. rewrite N2Z.inj_add, N2Z.inj_mul. change (Z.of_N 10) with 10. ring.
Qed.

Lemma str_of_N_val (n : N) : digits_val (str_of_N n) 0 = Some (Z.of_N n).
Proof.
  unfold str_of_N.
  destruct (pos_digits_val (S (N.to_nat (N.log2 n))) n [] 0) as [k Hk]; [|lia|].
  - rewrite Nat2N.inj_succ, N2Nat.id. destruct n as [|p]; [reflexivity|].
    apply N.log2_spec. reflexivity.
  - rewrite Hk. cbn [digits_val]. f_equal; try lia.
Qed.

Lemma pos_digits_nonempty fuel n acc : (0 < fuel)%nat -> pos_digits fuel n acc <> [].
Proof.
  revert n acc. induction fuel as [|f IH]; intros n acc Hf; [lia|].
  cbn [pos_digits]. destruct (n / 10 =? 0)%N; [discriminate|].
  destruct f.
  - cbn [pos_digits]. discriminate.
  - apply IH. lia.
Qed.

Lemma pos_digits_head fuel n acc c s :
  (0 < fuel)%nat -> (forall c' s', acc = c' :: s' -> c' <> 45%N) ->
  pos_digits fuel n acc = c :: s -> c <> 45%N.
Proof.
  revert n acc. induction fuel as [|f IH]; intros n acc Hf Hacc; [lia|].
  cbn [pos_digits].
  assert (Hd : (48 + n mod 10)%N <> 45%N) by (generalize (n mod 10)%N; intro m; lia).
  destruct (n / 10 =? 0)%N.
  - intro H. inversion H. subst. exact Hd.
  - destruct f.
    + cbn [pos_digits]. intro H. inversion H. subst. exact Hd.
    + apply IH; [lia|]. intros c' s' H. inversion H. subst. exact Hd.
Qed.

(** [int(str(z)) = z] for every integer. *)
Theorem int_of_str_of_Z (z : Z) : int_of_str (str_of_Z z) = Some z.
Proof.
  destruct z as [|p|p]; [reflexivity| |].
  - cbn [str_of_Z]. pose proof (str_of_N_val (Npos p)) as H.
    destruct (str_of_N (N.pos p)) as [|c s] eqn:E.
    + exfalso. revert E. apply pos_digits_nonempty. lia.
    + assert (Hc : c <> 45%N).
      { eapply pos_digits_head; [| |exact E]; [lia|]. intros ? ? K. discriminate. }
      unfold int_of_str.
      destruct c as [|cp]; [exact H|].
      destruct (N.eqb_spec (Npos cp) 45); [contradiction|].
      (* the head is not '-' : fall through to the digits *)
      destruct cp as [cp|cp|]; try exact H;
      repeat (destruct cp as [cp|cp|]; try exact H; try (exfalso; apply n; reflexivity)).
  - cbn [str_of_Z]. pose proof (str_of_N_val (Npos p)) as H.
    destruct (str_of_N (N.pos p)) as [|c s] eqn:E.
    + exfalso. revert E. apply pos_digits_nonempty. lia.
    + unfold int_of_str. rewrite H. reflexivity.
Qed.

(** Distinct integers have distinct renderings. *)
Corollary str_of_Z_injective (a b : Z) : str_of_Z a = str_of_Z b -> a = b.
Proof.
  intro H. pose proof (int_of_str_of_Z a) as Ha. rewrite H, int_of_str_of_Z in Ha.
  inversion Ha. reflexivity.
Qed.
